/-
  C18 — base x temporal for v3: `V3.Score` of a vector with base and temporal
  metrics equals Roundup(BaseScore x E x RL x RC) over the published base
  score, for all 259 200 vectors of each minor version (from the base sweep,
  the temporal Roundup table and the universal range theorem).
-/
import ClairModel.Proofs.CvssSweep30
import ClairModel.Proofs.CvssSweep31
import ClairModel.Proofs.CvssRange
import ClairModel.Proofs.CvssTemporalTab
namespace ClairModel.Cvss
open ClairModel.Gen.Cvss ClairModel.CvssSpec

/-! ### base × temporal (v3): the temporal step on top of the swept base scores -/

/-- the v3 vector holding the eight base metrics and the three temporal metrics -/
def mk3t (minor av ac pr ui s c i a e rl rc : Nat) : Vec :=
  ⟨minor, [av, ac, pr, ui, s, c, i, a, e, rl, rc, 0, 0, 0, 0, 0, 0, 0, 0, 0, 0, 0]⟩

def finWt (L : Nat → Nat → Option Q) (minor s : Nat) (impact expl : Q) (e rl rc : Nat) : Option Int :=
  match L 8 (sb e), L 9 (sb rl), L 10 (sb rc) with
  | some e, some rl, some rc => some (v3Finish minor (sb s) impact expl e rl rc)
  | _, _, _ => none

def fastW3t (L : Nat → Nat → Option Q) (minor av ac pr ui s c i a e rl rc : Nat) : Option Int :=
  if minor ≠ 0 ∧ minor ≠ 1 then none else
  match impactW L minor s c i a, explW L s av ac pr ui with
  | some impact, some expl => finWt L minor s impact expl e rl rc
  | _, _ => none

theorem sb_mk3t (minor av ac pr ui s c i a e rl rc : Nat) :
    v3ScoreByte (mk3t minor av ac pr ui s c i a e rl rc) 0 = sb av ∧
    v3ScoreByte (mk3t minor av ac pr ui s c i a e rl rc) 1 = sb ac ∧
    v3ScoreByte (mk3t minor av ac pr ui s c i a e rl rc) 2 = sb pr ∧
    v3ScoreByte (mk3t minor av ac pr ui s c i a e rl rc) 3 = sb ui ∧
    v3ScoreByte (mk3t minor av ac pr ui s c i a e rl rc) 4 = sb s ∧
    v3ScoreByte (mk3t minor av ac pr ui s c i a e rl rc) 5 = sb c ∧
    v3ScoreByte (mk3t minor av ac pr ui s c i a e rl rc) 6 = sb i ∧
    v3ScoreByte (mk3t minor av ac pr ui s c i a e rl rc) 7 = sb a ∧
    v3ScoreByte (mk3t minor av ac pr ui s c i a e rl rc) 8 = sb e ∧
    v3ScoreByte (mk3t minor av ac pr ui s c i a e rl rc) 9 = sb rl ∧
    v3ScoreByte (mk3t minor av ac pr ui s c i a e rl rc) 10 = sb rc :=
  ⟨rfl, rfl, rfl, rfl, rfl, rfl, rfl, rfl, rfl, rfl, rfl⟩

theorem score3_mk3t (minor av ac pr ui s c i a e rl rc : Nat) :
    score3 (mk3t minor av ac pr ui s c i a e rl rc) = fastW3t lk3 minor av ac pr ui s c i a e rl rc := by
  obtain ⟨h0, h1, h2, h3, h4, h5, h6, h7, h8, h9, h10⟩ := sb_mk3t minor av ac pr ui s c i a e rl rc
  have hv : (mk3t minor av ac pr ui s c i a e rl rc).ver = minor := rfl
  have henv : v3Environmental (mk3t minor av ac pr ui s c i a e rl rc) = false := rfl
  simp only [score3, fastW3t, impactW, explW, finWt, henv, v3Scope, v3Iss, v3Exploitability, v3PrVal,
    v3Val_eq, h0, h1, h2, h3, h4, h5, h6, h7, h8, h9, h10, hv]
  simp only [Bool.false_eq_true, ↓reduceIte]
  generalize lk3 5 (sb c) = oc
  generalize lk3 6 (sb i) = oi
  generalize lk3 7 (sb a) = oa
  generalize lk3 0 (sb av) = oav
  generalize lk3 1 (sb ac) = oac
  generalize (if sb s = cC ∧ sb pr = cL then some (Q.dec 68 100)
              else if sb s = cC ∧ sb pr = cH then some (Q.dec 50 100) else lk3 2 (sb pr)) = opr
  generalize lk3 3 (sb ui) = oui
  generalize lk3 8 (sb e) = oe
  generalize lk3 9 (sb rl) = orl
  generalize lk3 10 (sb rc) = orc
  split
  · rfl
  · cases oc <;> cases oi <;> cases oa <;> try rfl
    simp only []
    generalize v3Impact minor false (sb s) _ = oimp
    cases oimp <;> cases oav <;> cases oac <;> cases opr <;> cases oui <;> cases oe <;> cases orl <;>
      cases orc <;> rfl

theorem temporalTable_spec {minor : Nat} (h : temporalTable minor = true) {k : Nat} (hk : k ≤ 100) {e rl rc : Nat}
    (he : e ∈ g3 8) (hrl : rl ∈ g3 9) (hrc : rc ∈ g3 10) :
    ∃ we wrl wrc, w3 8 e = some we ∧ w3 9 rl = some wrl ∧ w3 10 rc = some wrc ∧
      v3Roundup10 minor (tenth (k : Nat) * we * wrl * wrc) = roundupSpec minor (tenth (k : Nat) * we * wrl * wrc) ∧
      (k = 0 → v3Roundup10 minor (tenth (k : Nat) * we * wrl * wrc) = 0) := by
  simp only [temporalTable, List.all_eq_true] at h
  have h1 := h k (by simp [List.mem_range]; omega) e he rl hrl rc hrc
  split at h1
  · rename_i we wrl wrc e1 e2 e3
    simp only [Bool.and_eq_true, decide_eq_true_eq, Bool.or_eq_true, bne_iff_ne, ne_eq] at h1
    refine ⟨we, wrl, wrc, e1, e2, e3, h1.1, fun hz => ?_⟩
    rcases h1.2 with h2 | h2
    · exact absurd hz h2
    · exact h2
  · simp at h1

/-- with all three temporal weights 1, the Roundup of a one-decimal number is that number -/
theorem v3Roundup10_id (ver : Nat) (k : Int) :
    v3Roundup10 ver (tenth k * milli 1000 * milli 1000 * milli 1000) = k := by
  have hq : tenth k * milli 1000 * milli 1000 * milli 1000 = ⟨k * 1000 * 1000 * 1000, 10 * 1000 * 1000 * 1000⟩ := rfl
  rw [hq]
  have e2 : ((10 * 1000 * 1000 * 1000 * 1 : Nat) : Int) = 10000000000 := by decide
  unfold v3Roundup10
  split
  · -- v3.0: ceiling
    simp only [v30Roundup10, Q.ceil, Q.mul_def, ten, Q.ofInt]
    have e1 : -(k * 1000 * 1000 * 1000 * 10) = (-k) * 10000000000 := by omega
    rw [e1, e2, Int.mul_ediv_cancel _ (by decide)]
    omega
  · -- v3.1: the integer algorithm
    have ht : Q.trunc ((⟨k * 1000 * 1000 * 1000, 10 * 1000 * 1000 * 1000⟩ : Q) * Q.ofInt 100000) = k * 10000 := by
      simp only [Q.trunc, Q.mul_def, Q.ofInt, e2]
      split
      · have e1 : k * 1000 * 1000 * 1000 * 100000 = (k * 10000) * 10000000000 := by omega
        rw [e1, Int.mul_ediv_cancel _ (by decide)]
      · have e1 : -(k * 1000 * 1000 * 1000 * 100000) = (-k * 10000) * 10000000000 := by omega
        rw [e1, Int.mul_ediv_cancel _ (by decide)]
        omega
    simp only [v31Roundup10, ht]
    have : k * 10000 % 10000 = 0 := by omega
    rw [if_pos this]
    omega

theorem w3_temporal_X : w3 8 cX = some (milli 1000) ∧ w3 9 cX = some (milli 1000) ∧ w3 10 cX = some (milli 1000) := by
  decide

/-- what the sweep says about one base vector, with the intermediate values exposed -/
theorem stage_pieces (minor : Nat) {x y z : Q} {av ac pr ui s c i a : Nat}
    (h1 : stage1 minor s c i a = some (x, y, z)) (h2 : stage2 minor x y z av ac pr ui s c i a = true) :
    ∃ ex ey, impactW w3 minor s c i a = some x ∧ explW w3 s av ac pr ui = some ex ∧
      impact3 s c i a = some y ∧ exploitability3 s av ac pr ui = some ey ∧
      baseScore3 minor s y ey = v3Finish minor s x ex (milli 1000) (milli 1000) (milli 1000) := by
  obtain ⟨t8, t9, t10⟩ := w3_temporal_X
  unfold stage1 at h1
  split at h1
  · rename_i x' y' w5 w6 w7 e1 e2 e5 e6 e7
    simp only [Option.some.injEq, Prod.mk.injEq] at h1
    obtain ⟨rfl, rfl, rfl⟩ := h1
    unfold stage2 at h2
    split at h2
    · rename_i ex ey e rl rc w0 w1 w2 w3' f1 f2 f3 f4 f5 g0 g1 g2 g3
      simp only [forceQ_eq, forceInt_eq, v3FinishF_eq, Bool.and_eq_true, decide_eq_true_eq] at h2
      rw [t8] at f3; rw [t9] at f4; rw [t10] at f5
      have := Option.some.inj f3; subst this
      have := Option.some.inj f4; subst this
      have := Option.some.inj f5; subst this
      exact ⟨ex, ey, e1, f1, e2, f2, h2.1⟩
    · simp at h2
  · simp at h1

/-- base × temporal, v3.0 and v3.1 (259 200 vectors each): `V3.Score` equals
    TemporalScore = Roundup(BaseScore × E × RL × RC) over the published base score -/
theorem v3_temporal_facts (minor : Nat) (hm : minor = 0 ∨ minor = 1)
    (hsweep : sweep3 (stage1 minor) (stage2 minor) = true) (htab : temporalTable minor = true)
    {av ac pr ui s c i a e rl rc : Nat}
    (hav : av ∈ g3 0) (hac : ac ∈ g3 1) (hpr : pr ∈ g3 2) (hui : ui ∈ g3 3)
    (hs : s ∈ g3 4) (hc : c ∈ g3 5) (hi : i ∈ g3 6) (ha : a ∈ g3 7)
    (he : e ∈ g3 8) (hrl : rl ∈ g3 9) (hrc : rc ∈ g3 10) :
    score3 (mk3t minor av ac pr ui s c i a e rl rc) =
      (base3 minor av ac pr ui s c i a).bind fun b => temporal3 minor b e rl rc := by
  obtain ⟨x, y, z, h1, h2⟩ := sweep3_spec hsweep hav hac hpr hui hs hc hi ha
  obtain ⟨ex, ey, p1, p2, p3, p4, p5⟩ := stage_pieces minor h1 h2
  have hmm : ¬ (minor ≠ 0 ∧ minor ≠ 1) := by omega
  have hsb : sb s = s := sb_of_mem (by decide) hs
  -- the base score and its range
  have hbase : base3 minor av ac pr ui s c i a = some (v3Finish minor s x ex (milli 1000) (milli 1000) (milli 1000)) := by
    simp only [base3, p3, p4, p5]
  have hscore : score3 (mk3 minor av ac pr ui s c i a) = some (v3Finish minor s x ex (milli 1000) (milli 1000) (milli 1000)) := by
    rw [(v3_base_facts minor hm hsweep hav hac hpr hui hs hc hi ha).1, hbase]
  have hrange := score3_range hscore
  -- the model side
  have hL : fastW3t lk3 minor av ac pr ui s c i a e rl rc = fastW3t w3 minor av ac pr ui s c i a e rl rc := by
    simp only [fastW3t, impactW, explW, finWt, sb_of_mem (by decide) hav, sb_of_mem (by decide) hac,
      sb_of_mem (by decide) hpr, sb_of_mem (by decide) hui, sb_of_mem (by decide) hs, sb_of_mem (by decide) hc,
      sb_of_mem (by decide) hi, sb_of_mem (by decide) ha, sb_of_mem (by decide) he, sb_of_mem (by decide) hrl,
      sb_of_mem (by decide) hrc,
      lk3_eq_w3 0 (by decide) av hav, lk3_eq_w3 1 (by decide) ac hac, lk3_eq_w3 2 (by decide) pr hpr,
      lk3_eq_w3 3 (by decide) ui hui, lk3_eq_w3 5 (by decide) c hc, lk3_eq_w3 6 (by decide) i hi,
      lk3_eq_w3 7 (by decide) a ha, lk3_eq_w3 8 (by decide) e he, lk3_eq_w3 9 (by decide) rl hrl,
      lk3_eq_w3 10 (by decide) rc hrc]
  rw [score3_mk3t, hL, hbase]
  simp only [fastW3t, hmm, if_false, p1, p2, finWt, sb_of_mem (by decide) he, sb_of_mem (by decide) hrl,
    sb_of_mem (by decide) hrc, hsb, Option.bind_some, temporal3]
  -- both sides in terms of the inner base value
  by_cases hle : Q.le x (Q.ofInt 0) = true
  · -- impact ≤ 0: both 0
    have hz : v3Finish minor s x ex (milli 1000) (milli 1000) (milli 1000) = 0 := by simp [v3Finish, hle]
    obtain ⟨we, wrl, wrc, e1, e2, e3, t1, t2⟩ := temporalTable_spec htab (k := 0) (by decide) he hrl hrc
    simp only [e1, e2, e3, hz]
    have hF : v3Finish minor s x ex we wrl wrc = 0 := by simp [v3Finish, hle]
    rw [hF]
    have t1' : v3Roundup10 minor (tenth 0 * we * wrl * wrc) = roundupSpec minor (tenth 0 * we * wrl * wrc) := t1
    have t2' : v3Roundup10 minor (tenth 0 * we * wrl * wrc) = 0 := t2 rfl
    rw [← t1', t2']
  · generalize hB : v3Roundup10 minor (Q.min ((if s = cC then Q.dec 108 100 else one) * (x + ex)) ten) = B
    have hF1 : v3Finish minor s x ex (milli 1000) (milli 1000) (milli 1000) = B := by
      simp only [v3Finish, hle, hB]
      exact v3Roundup10_id minor B
    rw [hF1] at hrange ⊢
    obtain ⟨hB0, hB100⟩ := hrange
    have hBn : B = ((B.toNat : Nat) : Int) := by omega
    obtain ⟨we, wrl, wrc, e1, e2, e3, t1, _⟩ := temporalTable_spec htab (k := B.toNat) (by omega) he hrl hrc
    rw [← hBn] at t1
    simp only [e1, e2, e3]
    have hF : v3Finish minor s x ex we wrl wrc = v3Roundup10 minor (tenth B * we * wrl * wrc) := by
      simp only [v3Finish, hle, hB]
      rfl
    rw [hF, t1]

end ClairModel.Cvss
