/-
  C05 — the stub vulnerability store (`Model/MatchStore.lean`): its answer is
  a map, per package every vulnerability id occurs at most once, nothing is
  invented and nothing is lost; when exactly `Get` fails.  Core Lean only.
-/
import ClairModel.Proofs.Match
import ClairModel.Model.MatchStore

namespace ClairModel.MatchStore
open ClairModel.Match

/-! ### association lists -/

theorem upd_keys_mem {β : Type} (k k' : Nat) (f : Option β → β) (m : List (Nat × β)) :
    k' ∈ (upd k f m).map (·.1) ↔ k' = k ∨ k' ∈ m.map (·.1) := by
  induction m with
  | nil => simp [upd]
  | cons kv t ih =>
    obtain ⟨k₀, v₀⟩ := kv
    by_cases h0 : k₀ = k
    · subst h0
      simp [upd]
    · have e : upd k f ((k₀, v₀) :: t) = (k₀, v₀) :: upd k f t := by simp [upd, h0]
      rw [e, List.map_cons, List.map_cons, List.mem_cons, List.mem_cons, ih]
      constructor
      · rintro (h | h | h)
        · exact Or.inr (Or.inl h)
        · exact Or.inl h
        · exact Or.inr (Or.inr h)
      · rintro (h | h | h)
        · exact Or.inr (Or.inl h)
        · exact Or.inl h
        · exact Or.inr (Or.inr h)

theorem upd_keys_nodup {β : Type} (k : Nat) (f : Option β → β) (m : List (Nat × β))
    (h : (m.map (·.1)).Nodup) : ((upd k f m).map (·.1)).Nodup := by
  induction m with
  | nil => simp [upd]
  | cons kv t ih =>
    obtain ⟨k₀, v₀⟩ := kv
    rw [List.map_cons, List.nodup_cons] at h
    by_cases h0 : k₀ = k
    · subst h0
      have e : upd k₀ f ((k₀, v₀) :: t) = (k₀, f (some v₀)) :: t := by simp [upd]
      rw [e, List.map_cons, List.nodup_cons]
      exact h
    · have e : upd k f ((k₀, v₀) :: t) = (k₀, v₀) :: upd k f t := by simp [upd, h0]
      rw [e, List.map_cons, List.nodup_cons]
      refine ⟨?_, ih h.2⟩
      rw [upd_keys_mem]
      rintro (h1 | h1)
      · exact h0 h1
      · exact h.1 h1

theorem find_mem {β : Type} {k : Nat} {m : List (Nat × β)} {v : β} (h : find k m = some v) :
    (k, v) ∈ m := by
  induction m with
  | nil => simp [find] at h
  | cons kv t ih =>
    obtain ⟨k₀, v₀⟩ := kv
    by_cases h0 : k₀ = k
    · subst h0
      simp only [find, if_true, Option.some.injEq] at h
      subst h
      exact List.mem_cons_self
    · simp only [find, h0, if_false] at h
      exact List.mem_cons_of_mem _ (ih h)

theorem upd_mem {β : Type} {k : Nat} {f : Option β → β} {m : List (Nat × β)} {kv : Nat × β}
    (h : kv ∈ upd k f m) : kv ∈ m ∨ kv = (k, f (find k m)) := by
  induction m with
  | nil =>
    simp only [upd, List.mem_singleton] at h
    exact Or.inr (by simpa [find] using h)
  | cons kv₀ t ih =>
    obtain ⟨k₀, v₀⟩ := kv₀
    by_cases h0 : k₀ = k
    · subst h0
      simp only [upd, if_true, List.mem_cons] at h
      rcases h with h | h
      · exact Or.inr (by simpa [find] using h)
      · exact Or.inl (List.mem_cons_of_mem _ h)
    · simp only [upd, h0, if_false, List.mem_cons] at h
      rcases h with h | h
      · exact Or.inl (h ▸ List.mem_cons_self)
      · rcases ih h with h1 | h1
        · exact Or.inl (List.mem_cons_of_mem _ h1)
        · exact Or.inr (by simpa [find, h0] using h1)

/-! ### the de-duplicating append -/

theorem any_id_iff (l : List Vuln) (i : Nat) :
    l.any (fun x => x.id == i) = true ↔ ∃ x ∈ l, x.id = i := by
  simp [List.any_eq_true]

theorem dedupStep_sub {l : List Vuln} {v x : Vuln} (h : x ∈ dedupStep l v) : x ∈ l ∨ x = v := by
  unfold dedupStep at h
  split at h
  · exact Or.inl h
  · rcases List.mem_append.1 h with h | h
    · exact Or.inl h
    · exact Or.inr (List.mem_singleton.1 h)

theorem sub_dedupStep {l : List Vuln} {v x : Vuln} (h : x ∈ l) : x ∈ dedupStep l v := by
  unfold dedupStep
  split
  · exact h
  · exact List.mem_append.2 (Or.inl h)

theorem dedupStep_id (l : List Vuln) (v : Vuln) (i : Nat) :
    (∃ x ∈ dedupStep l v, x.id = i) ↔ (∃ x ∈ l, x.id = i) ∨ v.id = i := by
  unfold dedupStep
  split
  · rename_i hany
    have hex := (any_id_iff l v.id).1 hany
    constructor
    · exact Or.inl
    · rintro (h | h)
      · exact h
      · obtain ⟨x, hx, hxi⟩ := hex
        exact ⟨x, hx, hxi.trans h⟩
  · constructor
    · rintro ⟨x, hx, hxi⟩
      rcases List.mem_append.1 hx with h | h
      · exact Or.inl ⟨x, h, hxi⟩
      · rw [List.mem_singleton.1 h] at hxi
        exact Or.inr hxi
    · rintro (⟨x, hx, hxi⟩ | h)
      · exact ⟨x, List.mem_append.2 (Or.inl hx), hxi⟩
      · exact ⟨v, List.mem_append.2 (Or.inr (List.mem_singleton.2 rfl)), h⟩

theorem dedupStep_nodup (l : List Vuln) (v : Vuln) (h : (l.map (·.id)).Nodup) :
    ((dedupStep l v).map (·.id)).Nodup := by
  unfold dedupStep
  split
  · exact h
  · rename_i hany
    rw [List.map_append, List.nodup_append]
    refine ⟨h, by simp, ?_⟩
    intro a ha b hb hab
    simp only [List.map_cons, List.map_nil, List.mem_singleton] at hb
    obtain ⟨x, hx, hxa⟩ := List.mem_map.1 ha
    apply hany
    rw [any_id_iff]
    exact ⟨x, hx, by rw [hxa, hab, hb]⟩

theorem dedupAppend_sub {old hs : List Vuln} {v : Vuln} (h : v ∈ dedupAppend old hs) : v ∈ old ∨ v ∈ hs := by
  unfold dedupAppend at h
  induction hs generalizing old with
  | nil => exact Or.inl h
  | cons a hs ih =>
    rw [List.foldl_cons] at h
    rcases ih h with h1 | h1
    · rcases dedupStep_sub h1 with h2 | h2
      · exact Or.inl h2
      · exact Or.inr (h2 ▸ List.mem_cons_self)
    · exact Or.inr (List.mem_cons_of_mem _ h1)

theorem sub_dedupAppend {old hs : List Vuln} {v : Vuln} (h : v ∈ old) : v ∈ dedupAppend old hs := by
  unfold dedupAppend
  induction hs generalizing old with
  | nil => exact h
  | cons a hs ih =>
    rw [List.foldl_cons]
    exact ih (sub_dedupStep h)

theorem mem_dedupAppend_id (old hs : List Vuln) (i : Nat) :
    (∃ v ∈ dedupAppend old hs, v.id = i) ↔ (∃ v ∈ old, v.id = i) ∨ (∃ v ∈ hs, v.id = i) := by
  unfold dedupAppend
  induction hs generalizing old with
  | nil => simp
  | cons a hs ih =>
    rw [List.foldl_cons, ih, dedupStep_id]
    constructor
    · rintro ((h | h) | ⟨v, hv, hvi⟩)
      · exact Or.inl h
      · exact Or.inr ⟨a, List.mem_cons_self, h⟩
      · exact Or.inr ⟨v, List.mem_cons_of_mem _ hv, hvi⟩
    · rintro (h | ⟨v, hv, hvi⟩)
      · exact Or.inl (Or.inl h)
      · rcases List.mem_cons.1 hv with rfl | hv
        · exact Or.inl (Or.inr hvi)
        · exact Or.inr ⟨v, hv, hvi⟩

theorem dedupAppend_nodup (old hs : List Vuln) (h : (old.map (·.id)).Nodup) :
    ((dedupAppend old hs).map (·.id)).Nodup := by
  unfold dedupAppend
  induction hs generalizing old with
  | nil => exact h
  | cons a hs ih =>
    rw [List.foldl_cons]
    exact ih _ (dedupStep_nodup old a h)

/-! ### hits -/

theorem mem_hits {rows : List Row} {q : List Nat} {db : Bool} {r : Record} {v : Vuln} :
    v ∈ hits rows q db r ↔ ∃ row ∈ rows, rowMatches q db r row = true ∧ row.vuln = v := by
  unfold hits
  simp only [List.mem_map, List.mem_filter]
  constructor
  · rintro ⟨row, ⟨h1, h2⟩, h3⟩; exact ⟨row, h1, h2, h3⟩
  · rintro ⟨row, h1, h2, h3⟩; exact ⟨row, ⟨h1, h2⟩, h3⟩

/-! ### one record, then the loop -/

theorem getL_getStep (rows : List Row) (q : List Nat) (db : Bool) (acc : MOut) (r : Record) (pkg : Nat) :
    getL pkg (getStep rows q db acc r) =
      if pkg = r.pkg then dedupAppend (getL r.pkg acc) (hits rows q db r) else getL pkg acc := by
  unfold getL getStep
  rw [find_upd]
  by_cases h : pkg = r.pkg <;> simp [h]

theorem find_getStep_isSome (rows : List Row) (q : List Nat) (db : Bool) (acc : MOut) (r : Record) (pkg : Nat) :
    (find pkg (getStep rows q db acc r)).isSome = (decide (pkg = r.pkg) || (find pkg acc).isSome) := by
  unfold getStep
  rw [find_upd]
  by_cases h : pkg = r.pkg <;> simp [h]

theorem fold_nodup (rows : List Row) (q : List Nat) (db : Bool) (recs : List Record) (acc : MOut)
    (h : ∀ pkg, ((getL pkg acc).map (·.id)).Nodup) (pkg : Nat) :
    ((getL pkg (recs.foldl (getStep rows q db) acc)).map (·.id)).Nodup := by
  induction recs generalizing acc with
  | nil => exact h pkg
  | cons r rs ih =>
    rw [List.foldl_cons]
    apply ih
    intro p
    rw [getL_getStep]
    by_cases hp : p = r.pkg
    · rw [if_pos hp]
      exact dedupAppend_nodup _ _ (h r.pkg)
    · rw [if_neg hp]
      exact h p

theorem fold_keys_nodup (rows : List Row) (q : List Nat) (db : Bool) (recs : List Record) (acc : MOut)
    (h : (acc.map (·.1)).Nodup) : ((recs.foldl (getStep rows q db) acc).map (·.1)).Nodup := by
  induction recs generalizing acc with
  | nil => exact h
  | cons r rs ih =>
    rw [List.foldl_cons]
    exact ih _ (upd_keys_nodup _ _ _ h)

theorem fold_key (rows : List Row) (q : List Nat) (db : Bool) (recs : List Record) (acc : MOut) (pkg : Nat) :
    (find pkg (recs.foldl (getStep rows q db) acc)).isSome =
      ((find pkg acc).isSome || recs.any (fun r => r.pkg = pkg)) := by
  induction recs generalizing acc with
  | nil => simp
  | cons r rs ih =>
    rw [List.foldl_cons, ih, find_getStep_isSome]
    by_cases h : pkg = r.pkg
    · have h' : r.pkg = pkg := h.symm
      simp [h]
    · have h' : ¬ r.pkg = pkg := fun x => h x.symm
      simp [h, h']

theorem fold_sound (rows : List Row) (q : List Nat) (db : Bool) (recs : List Record) (acc : MOut)
    (pkg : Nat) (v : Vuln) (h : v ∈ getL pkg (recs.foldl (getStep rows q db) acc)) :
    v ∈ getL pkg acc ∨ ∃ r ∈ recs, r.pkg = pkg ∧ v ∈ hits rows q db r := by
  induction recs generalizing acc with
  | nil => exact Or.inl h
  | cons r rs ih =>
    rw [List.foldl_cons] at h
    rcases ih _ h with h1 | ⟨r', hr', h2⟩
    · rw [getL_getStep] at h1
      by_cases hp : pkg = r.pkg
      · rw [if_pos hp] at h1
        rcases dedupAppend_sub h1 with h3 | h3
        · exact Or.inl (hp ▸ h3)
        · exact Or.inr ⟨r, List.mem_cons_self, hp.symm, h3⟩
      · rw [if_neg hp] at h1
        exact Or.inl h1
    · exact Or.inr ⟨r', List.mem_cons_of_mem _ hr', h2⟩

theorem fold_mono (rows : List Row) (q : List Nat) (db : Bool) (recs : List Record) (acc : MOut)
    (pkg : Nat) (v : Vuln) (h : v ∈ getL pkg acc) : v ∈ getL pkg (recs.foldl (getStep rows q db) acc) := by
  induction recs generalizing acc with
  | nil => exact h
  | cons r rs ih =>
    rw [List.foldl_cons]
    apply ih
    rw [getL_getStep]
    by_cases hp : pkg = r.pkg
    · rw [if_pos hp]
      exact sub_dedupAppend (hp ▸ h)
    · rw [if_neg hp]
      exact h

theorem fold_complete_id (rows : List Row) (q : List Nat) (db : Bool) (recs : List Record) (acc : MOut)
    (r : Record) (hr : r ∈ recs) (i : Nat) (hi : ∃ v ∈ hits rows q db r, v.id = i) :
    ∃ v ∈ getL r.pkg (recs.foldl (getStep rows q db) acc), v.id = i := by
  induction recs generalizing acc with
  | nil => cases hr
  | cons r₀ rs ih =>
    rw [List.foldl_cons]
    rcases List.mem_cons.1 hr with rfl | hr
    · have h1 : ∃ v ∈ getL r.pkg (getStep rows q db acc r), v.id = i := by
        rw [getL_getStep, if_pos rfl, mem_dedupAppend_id]
        exact Or.inr hi
      obtain ⟨v, hv, hvi⟩ := h1
      exact ⟨v, fold_mono rows q db rs _ r.pkg v hv, hvi⟩
    · exact ih _ hr

theorem fold_from_rows (rows : List Row) (q : List Nat) (db : Bool) (recs : List Record) (acc : MOut)
    (h : ∀ kv ∈ acc, ∀ v ∈ kv.2, ∃ row ∈ rows, row.vuln = v) :
    ∀ kv ∈ recs.foldl (getStep rows q db) acc, ∀ v ∈ kv.2, ∃ row ∈ rows, row.vuln = v := by
  induction recs generalizing acc with
  | nil => exact h
  | cons r rs ih =>
    rw [List.foldl_cons]
    apply ih
    intro kv hkv v hv
    rcases upd_mem hkv with h1 | h1
    · exact h kv h1 v hv
    · rw [h1] at hv
      rcases dedupAppend_sub hv with h2 | h2
      · cases hf : find r.pkg acc with
        | none => rw [hf] at h2; cases h2
        | some old =>
          rw [hf] at h2
          exact h (r.pkg, old) (find_mem hf) v h2
      · obtain ⟨row, hrow, _, hv'⟩ := mem_hits.1 h2
        exact ⟨row, hrow, hv'⟩

/-! ### the answer -/

/-- per package, every vulnerability id occurs at most once in the store's answer -/
theorem answer_nodup (rows : List Row) (q : List Nat) (db : Bool) (recs : List Record) (pkg : Nat) :
    ((getL pkg (answer rows q db recs)).map (·.id)).Nodup := by
  unfold answer
  apply fold_nodup
  intro p
  simp [getL, find]

/-- the answer is a map: its keys are distinct -/
theorem answer_keys_nodup (rows : List Row) (q : List Nat) (db : Bool) (recs : List Record) :
    ((answer rows q db recs).map (·.1)).Nodup := by
  unfold answer
  apply fold_keys_nodup
  simp

/-- a package id is a key of the answer iff some queried record is of that package -/
theorem answer_key_iff (rows : List Row) (q : List Nat) (db : Bool) (recs : List Record) (pkg : Nat) :
    (find pkg (answer rows q db recs)).isSome = true ↔ ∃ r ∈ recs, r.pkg = pkg := by
  unfold answer
  rw [fold_key]
  simp [find, List.any_eq_true]

/-- nothing is invented: an answered vulnerability is a row that matches a queried record of that package -/
theorem answer_sound (rows : List Row) (q : List Nat) (db : Bool) (recs : List Record) (pkg : Nat) (v : Vuln)
    (h : v ∈ getL pkg (answer rows q db recs)) :
    ∃ r ∈ recs, r.pkg = pkg ∧ ∃ row ∈ rows, rowMatches q db r row = true ∧ row.vuln = v := by
  unfold answer at h
  rcases fold_sound rows q db recs [] pkg v h with h1 | ⟨r, hr, hp, hh⟩
  · simp [getL, find] at h1
  · exact ⟨r, hr, hp, mem_hits.1 hh⟩

/-- nothing is lost up to the id: a matching row's id is answered under the record's package -/
theorem answer_complete_id (rows : List Row) (q : List Nat) (db : Bool) (recs : List Record)
    (r : Record) (hr : r ∈ recs) (row : Row) (hrow : row ∈ rows) (hm : rowMatches q db r row = true) :
    ∃ v ∈ getL r.pkg (answer rows q db recs), v.id = row.vuln.id := by
  unfold answer
  exact fold_complete_id rows q db recs [] r hr row.vuln.id ⟨row.vuln, mem_hits.2 ⟨row, hrow, hm, rfl⟩, rfl⟩

/-- rows of one table: equal ids carry equal vulnerabilities -/
def RowsFunctional (rows : List Row) : Prop :=
  ∀ a ∈ rows, ∀ b ∈ rows, a.vuln.id = b.vuln.id → a.vuln = b.vuln

/-- …and then nothing is lost at all -/
theorem answer_complete (rows : List Row) (hfun : RowsFunctional rows) (q : List Nat) (db : Bool) (recs : List Record)
    (r : Record) (hr : r ∈ recs) (row : Row) (hrow : row ∈ rows) (hm : rowMatches q db r row = true) :
    row.vuln ∈ getL r.pkg (answer rows q db recs) := by
  obtain ⟨v, hv, hvi⟩ := answer_complete_id rows q db recs r hr row hrow hm
  obtain ⟨_, _, _, row', hrow', _, hv'⟩ := answer_sound rows q db recs r.pkg v hv
  have : row'.vuln = row.vuln := hfun row' hrow' row hrow (by rw [hv', hvi])
  rw [← this, hv']
  exact hv

/-- when exactly `Get` fails -/
theorem storeGet_none_iff (rows : List Row) (c : Bool) (q : List Nat) (db : Bool) (recs : List Record) :
    storeGet rows c q db recs = none ↔
      (q.contains cGetFails = true ∨ (c = true ∧ q.contains cRespectCtx = true)) := by
  unfold storeGet
  cases h1 : q.contains cGetFails <;> cases c <;> cases h2 : q.contains cRespectCtx <;> simp

theorem storeGet_some (rows : List Row) (c : Bool) (q : List Nat) (db : Bool) (recs : List Record) (out : MOut)
    (h : storeGet rows c q db recs = some out) : out = answer rows q db recs := by
  unfold storeGet at h
  split at h
  · cases h
  · exact (Option.some.inj h).symm

/-- every vulnerability the store hands out, under any key, is the `vuln` of a row -/
theorem answer_from_rows (rows : List Row) (q : List Nat) (db : Bool) (recs : List Record) (k : Nat) (v : Vuln)
    (h : (k, v) ∈ events (answer rows q db recs)) : ∃ row ∈ rows, row.vuln = v := by
  obtain ⟨vs, hvs, hv⟩ := mem_events.1 h
  unfold answer at hvs
  exact fold_from_rows rows q db recs [] (by simp) (k, vs) hvs v hv

end ClairModel.MatchStore
