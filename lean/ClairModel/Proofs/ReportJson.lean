/-
  C17 — decoding the JSON tree of a report gives the report back (minus what
  `json:"-"` drops), for every report whose leaf values survive their own text
  form; and a scan, being a function of the index records, cannot tell a
  report from its JSON round trip.
-/
import ClairModel.Model.ReportJson
import ClairModel.Proofs.CodecAccept

namespace ClairModel.ReportJson
open ClairModel.Bytes ClairModel.Codec

/-! ### lookups in a rendered struct -/

theorem look_cons_ne (p : Bytes × J) (t : List (Bytes × J)) (k : Bytes)
    (h : (fold p.1 == fold k) = false) : look (p :: t) k = look t k := by
  have h1 : (p.1 == k) = false := by
    cases hb : (p.1 == k) with
    | false => rfl
    | true =>
      have : p.1 = k := by simpa using hb
      rw [this] at h; simp at h
  simp only [look, List.find?_cons, h1, h]

theorem look_none_of_all (t : List (Bytes × J)) (k : Bytes)
    (h : ∀ p ∈ t, (fold p.1 == fold k) = false) : look t k = none := by
  induction t with
  | nil => rfl
  | cons p t ih =>
    rw [look_cons_ne p t k (h p (by simp))]
    exact ih fun q hq => h q (List.mem_cons_of_mem _ hq)

theorem mem_render (bs : List Block) (p : Bytes × J) (h : p ∈ render bs) : p.1 ∈ bs.map (·.key) := by
  simp only [render, List.mem_filterMap] at h
  obtain ⟨b, hb, hv⟩ := h
  cases hval : b.val with
  | none => rw [hval] at hv; cases hv
  | some v => rw [hval] at hv; cases hv; exact List.mem_map_of_mem hb

theorem look_render (bs : List Block) (k : Bytes)
    (hd : distinctFold (bs.map (·.key)) = true) (hk : k ∈ bs.map (·.key)) :
    look (render bs) k = valOf bs k := by
  induction bs with
  | nil => simp at hk
  | cons b bs ih =>
    simp only [List.map_cons, distinctFold, Bool.and_eq_true, List.all_eq_true, bne_iff_ne, ne_eq] at hd
    obtain ⟨hh, hd'⟩ := hd
    by_cases hbk : b.key = k
    · -- this block carries the key; no later block folds to it
      have hrest : ∀ p ∈ render bs, (fold p.1 == fold k) = false := by
        intro p hp
        have := hh p.1 (mem_render bs p hp)
        rw [hbk] at this
        simpa using this
      have hv : valOf (b :: bs) k = b.val := by simp [valOf, hbk]
      rw [hv]
      cases hval : b.val with
      | none =>
        have : render (b :: bs) = render bs := by simp [render, hval]
        rw [this]
        exact look_none_of_all _ _ hrest
      | some v =>
        have : render (b :: bs) = (b.key, v) :: render bs := by simp [render, hval]
        rw [this]
        simp [look, hbk]
    · have hk' : k ∈ bs.map (·.key) := by
        simp only [List.map_cons, List.mem_cons] at hk
        rcases hk with hk | hk
        · exact absurd hk.symm hbk
        · exact hk
      have hne : (fold b.key == fold k) = false := by
        have := hh k hk'
        cases hb : (fold b.key == fold k) with
        | false => rfl
        | true => exact absurd (by simpa using hb : fold b.key = fold k).symm this
      have hv : valOf (b :: bs) k = valOf bs k := by
        have : (b.key == k) = false := by simpa using hbk
        simp [valOf, this]
      rw [hv, ← ih hd' hk']
      cases hval : b.val with
      | none =>
        have : render (b :: bs) = render bs := by simp [render, hval]
        rw [this]
      | some v =>
        have : render (b :: bs) = (b.key, v) :: render bs := by simp [render, hval]
        rw [this]
        exact look_cons_ne _ _ _ hne


/-- The form used on concrete structs: both side conditions are Boolean and
    hold by evaluation (the keys are literals; the values may be anything). -/
theorem look_render' (bs : List Block) (k : Bytes) (v : Option J)
    (hd : distinctFold (bs.map (·.key)) = true) (hk : (bs.map (·.key)).contains k = true)
    (hv : valOf bs k = v) : look (render bs) k = v := by
  rw [look_render bs k hd (by simpa using hk), hv]

/-- prove one `look (render bs) k = v` for a concrete struct -/
macro "look_field" : tactic => `(tactic| exact look_render' _ _ _ rfl rfl rfl)

/-! ### what "a value the codec can carry" means, leaf by leaf -/

/-- A leaf value survives its own text form (decoded into the zero value). -/
def LeafOK {α : Type} (c : LeafCodec α) (x : α) : Prop := ∃ t, c.enc x = some t ∧ c.dec c.zero t = some x

/-- The zero Version, or a non-empty kind without ':' and ten int32 slots. -/
def VersionOK (v : Version) : Prop :=
  v = Version.zero ∨ (v.kind ≠ [] ∧ 58 ∉ v.kind ∧ v.v.length = 10 ∧ ∀ x ∈ v.v, inInt32 x)

/-- A digest a constructor can build (not the zero Digest). -/
def DigestOK (d : Option Digest) : Prop :=
  ∃ x, d = some x ∧ digestSize x.algo = some x.checksum.length ∧ ∀ b ∈ x.checksum, b < 256

theorem version_leaf (v : Version) (h : VersionOK v) :
    dText versionCodec (some (.str (versionMarshal v))) = some v := by
  rcases h with rfl | ⟨hk, hc, hl, hr⟩
  · simp [dText, versionCodec, versionMarshal, Version.zero, versionUnmarshal, cut]
  · have := versionUnmarshal_marshal v.kind v.v Version.zero hk hc hl hr
    simpa [dText, versionCodec] using this

theorem digest_leaf (d : Option Digest) (h : DigestOK d) :
    dText digestCodec (some (.str (digestText d))) = some d := by
  obtain ⟨x, rfl, hs, hb⟩ := h
  simp [dText, digestCodec, digestText, digestParse_repr x hb hs]

theorem leaf_text {α : Type} (c : LeafCodec α) (x : α) (t : Bytes) (h : LeafOK c x) (ht : c.enc x = some t) :
    dText c (some (.str t)) = some x := by
  obtain ⟨t', h1, h2⟩ := h
  rw [ht] at h1; cases h1
  simpa [dText] using h2

theorem dStr_omit (s : Bytes) : dStr (if s = [] then none else some (J.str s)) = some s := by
  split
  · rename_i h; simp [dStr, h]
  · rfl

/-! ### Go maps -/

theorem insertKV_append {β : Type} (k : Bytes) (v : β) (acc : List (Bytes × β))
    (h : k ∉ acc.map (·.1)) : insertKV k v acc = acc ++ [(k, v)] := by
  induction acc with
  | nil => rfl
  | cons a t ih =>
    simp only [List.map_cons, List.mem_cons, not_or] at h
    have : ¬ a.1 = k := fun e => h.1 e.symm
    obtain ⟨a1, a2⟩ := a
    simp only at this
    simp only [insertKV, this, if_false, List.cons_append, ih h.2]

theorem foldl_insertKV {β : Type} (l acc : List (Bytes × β))
    (h : ((acc ++ l).map (·.1)).Nodup) :
    l.foldl (fun a p => insertKV p.1 p.2 a) acc = acc ++ l := by
  induction l generalizing acc with
  | nil => simp
  | cons p t ih =>
    simp only [List.foldl_cons]
    have hp : p.1 ∉ acc.map (·.1) := by
      simp only [List.map_append, List.map_cons] at h
      have := (List.nodup_append.1 h).2.2
      intro hm
      exact this _ hm _ (by simp) rfl
    rw [insertKV_append p.1 p.2 acc hp]
    have h' : (((acc ++ [(p.1, p.2)]) ++ t).map (·.1)).Nodup := by
      simpa [List.append_assoc] using h
    rw [ih _ h']
    simp

theorem mapM_eq_map {α β : Type} (f : α → Option β) (g : α → β) (l : List α)
    (h : ∀ x ∈ l, f x = some (g x)) : l.mapM f = some (l.map g) := by
  induction l with
  | nil => rfl
  | cons a t ih =>
    simp only [List.mapM_cons, h a (by simp), ih fun x hx => h x (List.mem_cons_of_mem _ hx)]
    rfl

/-- Decoding, element by element, what an element-wise encoder produced. -/
theorem mapM_compose {α β γ : Type} (f : α → Option β) (h : β → Option γ) (g : α → γ) (l : List α) (r : List β)
    (hl : l.mapM f = some r) (hrt : ∀ x ∈ l, ∀ y, f x = some y → h y = some (g x)) :
    r.mapM h = some (l.map g) := by
  induction l generalizing r with
  | nil => simp at hl; subst hl; rfl
  | cons a t ih =>
    simp only [List.mapM_cons] at hl
    cases ha : f a with
    | none => rw [ha] at hl; simp at hl
    | some b =>
      rw [ha] at hl
      cases ht : t.mapM f with
      | none => rw [ht] at hl; simp at hl
      | some r' =>
        rw [ht] at hl
        simp at hl
        subst hl
        have h1 := hrt a (by simp) b ha
        have h2 := ih r' ht (fun x hx y hy => hrt x (List.mem_cons_of_mem _ hx) y hy)
        simp only [List.mapM_cons, h1, h2, List.map_cons]
        rfl

/-- A map whose elements round-trip, round-trips: nil stays nil, an empty map
    stays an empty (non-nil) map, keys and their elements are kept. -/
theorem dMap_encMapM {β γ : Type} (e : β → Option J) (d : J → Option γ) (g : β → γ) (m : GoMap β) (j : J)
    (hn : ∀ kv, m = some kv → (kv.map (·.1)).Nodup)
    (hrt : ∀ kv, m = some kv → ∀ p ∈ kv, ∀ j, e p.2 = some j → d j = some (g p.2))
    (he : encMapM e m = some j) :
    dMap d (some j) = some (m.map (List.map fun p => (p.1, g p.2))) := by
  cases m with
  | none => simp [encMapM] at he; subst he; rfl
  | some kv =>
    simp only [encMapM, Option.map_eq_some_iff] at he
    obtain ⟨l, hl, rfl⟩ := he
    have hdec : (l.mapM fun p => (d p.2).map fun v => (p.1, v)) = some (kv.map fun p => (p.1, g p.2)) := by
      apply mapM_compose _ _ _ kv l hl
      intro x hx y hy
      cases hex : e x.2 with
      | none => rw [hex] at hy; cases hy
      | some jx =>
        rw [hex] at hy
        cases hy
        simp only [hrt kv rfl x hx jx hex, Option.map_some]
    have hnod : ((([] : List (Bytes × γ)) ++ kv.map fun p => (p.1, g p.2)).map (·.1)).Nodup := by
      have := hn kv rfl
      simpa [List.map_map, Function.comp_def] using this
    have hf := foldl_insertKV (kv.map fun p => (p.1, g p.2)) [] hnod
    simp only [List.nil_append] at hf
    show (Option.map _ (l.mapM fun p => (d p.2).map fun v => (p.1, v))) = _
    rw [hdec]
    simp only [Option.map_some, hf]

/-- The same for a map whose element encoder cannot fail. -/
theorem dMap_eMap {β γ : Type} (e : β → J) (d : J → Option γ) (g : β → γ) (m : GoMap β)
    (hn : ∀ kv, m = some kv → (kv.map (·.1)).Nodup)
    (hrt : ∀ kv, m = some kv → ∀ p ∈ kv, d (e p.2) = some (g p.2)) :
    dMap d (some (eMap e m)) = some (m.map (List.map fun p => (p.1, g p.2))) := by
  have he : encMapM (fun x => some (e x)) m = some (eMap e m) := by
    cases m with
    | none => rfl
    | some kv =>
      simp only [encMapM, eMap, Option.map_some]
      rw [mapM_eq_map _ (fun p => (p.1, e p.2)) kv (fun x _ => rfl)]
      rfl
  exact dMap_encMapM (fun x => some (e x)) d g m _ hn
    (fun kv hkv p hp j hj => by cases hj; exact hrt kv hkv p hp) he

theorem dSlice_eSlice {β γ : Type} (e : β → J) (d : J → Option γ) (g : β → γ) (s : Option (List β))
    (hrt : ∀ l, s = some l → ∀ x ∈ l, d (e x) = some (g x)) :
    dSlice d (some (eSlice e s)) = some (s.map (List.map g)) := by
  cases s with
  | none => rfl
  | some l =>
    have : (l.map e).mapM d = some (l.map g) := by
      have := hrt l rfl
      clear hrt
      induction l with
      | nil => rfl
      | cons a t ih =>
        simp only [List.map_cons, List.mapM_cons, this a (by simp),
          ih fun x hx => this x (List.mem_cons_of_mem _ hx)]
        rfl
    simp only [eSlice, dSlice, this, Option.map]

/-! ### structs -/

theorem dStr_str (s : Bytes) : dStr (some (J.str s)) = some s := rfl
theorem dBool_bool (b : Bool) : dBool (some (J.bool b)) = some b := rfl
theorem dPtrElem_obj {α : Type} (d : J → Option α) (kv : List (Bytes × J)) :
    dPtrElem d (.obj kv) = (d (.obj kv)).map some := rfl
theorem dPtr_obj {α : Type} (d : J → Option α) (kv : List (Bytes × J)) :
    dPtr d (some (.obj kv)) = (d (.obj kv)).map some := rfl

section
variable {W T : Type} (L : Leaves W T)

/-- The leaves of a package are values the codecs can carry. -/
def PkgOK (p : Pkg W) : Prop := VersionOK p.nver ∧ LeafOK L.wfn p.cpe

/-- …of the package and of every package on its Source chain, which is not
    longer than the decoder follows. -/
def PackageOK (p : Package W) : Prop :=
  PkgOK L p.head ∧ (∀ q ∈ p.sources, PkgOK L q) ∧ p.sources.length < maxChain

theorem decPkgFlat_blocks (p : Pkg W) (src : Option J) (cp : Bytes)
    (hp : PkgOK L p) (hcp : L.wfn.enc p.cpe = some cp) :
    decPkgFlat L (render (pkgBlocksOf p src (versionMarshal p.nver) cp)) = some (stripPkg p) ∧
    look (render (pkgBlocksOf p src (versionMarshal p.nver) cp)) kSource = src := by
  obtain ⟨hv, hw⟩ := hp
  have e1 : look (render (pkgBlocksOf p src (versionMarshal p.nver) cp)) kId = some (.str p.id) := by look_field
  have e2 : look (render (pkgBlocksOf p src (versionMarshal p.nver) cp)) kName = some (.str p.name) := by look_field
  have e3 : look (render (pkgBlocksOf p src (versionMarshal p.nver) cp)) kVersion = some (.str p.version) := by look_field
  have e4 : look (render (pkgBlocksOf p src (versionMarshal p.nver) cp)) kKind =
      (if p.kind = [] then none else some (.str p.kind)) := by look_field
  have e5 : look (render (pkgBlocksOf p src (versionMarshal p.nver) cp)) kSource = src := by look_field
  have e6 : look (render (pkgBlocksOf p src (versionMarshal p.nver) cp)) kNormalizedVersion =
      some (.str (versionMarshal p.nver)) := by look_field
  have e7 : look (render (pkgBlocksOf p src (versionMarshal p.nver) cp)) kModule =
      (if p.module = [] then none else some (.str p.module)) := by look_field
  have e8 : look (render (pkgBlocksOf p src (versionMarshal p.nver) cp)) kArch =
      (if p.arch = [] then none else some (.str p.arch)) := by look_field
  have e9 : look (render (pkgBlocksOf p src (versionMarshal p.nver) cp)) kCpe = some (.str cp) := by look_field
  refine ⟨?_, e5⟩
  simp only [decPkgFlat, e1, e2, e3, e4, e6, e7, e8, e9, dStr_omit, version_leaf _ hv, leaf_text _ _ _ hw hcp,
    dStr_str, bind, Option.bind, pure, stripPkg]

theorem pkgBlocks_some (p : Pkg W) (src : Option J) (bs : List Block) (h : pkgBlocks L p src = some bs) :
    ∃ cp, L.wfn.enc p.cpe = some cp ∧ bs = pkgBlocksOf p src (versionMarshal p.nver) cp := by
  simp only [pkgBlocks, versionCodec, bind, Option.bind, pure] at h
  cases hc : L.wfn.enc p.cpe with
  | none => rw [hc] at h; cases h
  | some cp => rw [hc] at h; cases h; exact ⟨cp, rfl, rfl⟩

theorem encChain_obj (p : Pkg W) (rest : List (Pkg W)) (j : J) (h : encChain L p rest = some j) :
    ∃ kv, j = .obj kv := by
  cases rest with
  | nil =>
    simp only [encChain, Option.map_eq_some_iff] at h
    obtain ⟨bs, _, rfl⟩ := h
    exact ⟨_, rfl⟩
  | cons q qs =>
    simp only [encChain, bind, Option.bind, pure] at h
    cases hs : encChain L q qs with
    | none => rw [hs] at h; cases h
    | some s =>
      simp only [hs] at h
      cases hb : pkgBlocks L p (some s) with
      | none => simp only [hb] at h; cases h
      | some bs => simp only [hb] at h; cases h; exact ⟨_, rfl⟩

/-- A Package and its Source chain decode back, minus the `json:"-"` fields. -/
theorem decChain_encChain (rest : List (Pkg W)) : ∀ (n : Nat) (p : Pkg W) (j : J),
    encChain L p rest = some j → PkgOK L p → (∀ q ∈ rest, PkgOK L q) → rest.length < n →
    decChain L n j = some (stripPkg p, rest.map stripPkg) := by
  induction rest with
  | nil =>
    intro n p j h hp _ hn
    simp only [encChain, Option.map_eq_some_iff] at h
    obtain ⟨bs, hbs, rfl⟩ := h
    obtain ⟨cp, hcp, rfl⟩ := pkgBlocks_some L p none bs hbs
    obtain ⟨h1, h2⟩ := decPkgFlat_blocks L p none cp hp hcp
    cases n with
    | zero => simp at hn
    | succ n => simp only [decChain, h1, h2, bind, Option.bind, pure, List.map_nil]
  | cons q qs ih =>
    intro n p j h hp hq hn
    simp only [encChain, bind, Option.bind, pure] at h
    cases hs : encChain L q qs with
    | none => rw [hs] at h; cases h
    | some s =>
      simp only [hs] at h
      cases hb : pkgBlocks L p (some s) with
      | none => simp only [hb] at h; cases h
      | some bs =>
        simp only [hb] at h; cases h
        obtain ⟨cp, hcp, rfl⟩ := pkgBlocks_some L p (some s) bs hb
        obtain ⟨h1, h2⟩ := decPkgFlat_blocks L p (some s) cp hp hcp
        obtain ⟨kv, rfl⟩ := encChain_obj L q qs s hs
        cases n with
        | zero => simp at hn
        | succ n =>
          have := ih n q (.obj kv) hs (hq q (by simp)) (fun x hx => hq x (List.mem_cons_of_mem _ hx))
            (by simp only [List.length_cons] at hn; omega)
          simp only [decChain, h1, h2, this, bind, Option.bind, pure, List.map_cons]

theorem decPackage_encPackage (p : Package W) (j : J) (h : encPackage L p = some j) (hp : PackageOK L p) :
    decPackage L j = some (stripPackage p) := by
  obtain ⟨h1, h2, h3⟩ := hp
  simp only [decPackage, decChain_encChain L p.sources maxChain p.head j h h1 h2 h3, Option.map_some, stripPackage]

theorem encPackage_obj (p : Package W) (j : J) (h : encPackage L p = some j) : ∃ kv, j = .obj kv :=
  encChain_obj L p.head p.sources j h

theorem decDist_encDist (d : Dist W) (j : J) (h : encDist L d = some j) (hd : LeafOK L.wfn d.cpe) :
    decDist L j = some d := by
  simp only [encDist, Option.map_eq_some_iff] at h
  obtain ⟨cp, hcp, rfl⟩ := h
  have e1 : look (render (distBlocksOf d cp)) kId = some (.str d.id) := by look_field
  have e2 : look (render (distBlocksOf d cp)) kDid = some (.str d.did) := by look_field
  have e3 : look (render (distBlocksOf d cp)) kName = some (.str d.name) := by look_field
  have e4 : look (render (distBlocksOf d cp)) kVersion = some (.str d.version) := by look_field
  have e5 : look (render (distBlocksOf d cp)) kVersionCodeName = some (.str d.versionCodeName) := by look_field
  have e6 : look (render (distBlocksOf d cp)) kVersionId = some (.str d.versionID) := by look_field
  have e7 : look (render (distBlocksOf d cp)) kArch = some (.str d.arch) := by look_field
  have e8 : look (render (distBlocksOf d cp)) kCpe = some (.str cp) := by look_field
  have e9 : look (render (distBlocksOf d cp)) kPrettyName = some (.str d.prettyName) := by look_field
  simp only [decDist, e1, e2, e3, e4, e5, e6, e7, e8, e9, dStr_str, leaf_text _ _ _ hd hcp, bind, Option.bind, pure]

theorem decRepo_encRepo (r : Repo W) (j : J) (h : encRepo L r = some j) (hr : LeafOK L.wfn r.cpe) :
    decRepo L j = some r := by
  simp only [encRepo, Option.map_eq_some_iff] at h
  obtain ⟨cp, hcp, rfl⟩ := h
  have e1 : look (render (repoBlocksOf r cp)) kId = (if r.id = [] then none else some (.str r.id)) := by look_field
  have e2 : look (render (repoBlocksOf r cp)) kName = (if r.name = [] then none else some (.str r.name)) := by
    look_field
  have e3 : look (render (repoBlocksOf r cp)) kKey = (if r.key = [] then none else some (.str r.key)) := by look_field
  have e4 : look (render (repoBlocksOf r cp)) kUri = (if r.uri = [] then none else some (.str r.uri)) := by look_field
  have e5 : look (render (repoBlocksOf r cp)) kCpe = some (.str cp) := by look_field
  simp only [decRepo, e1, e2, e3, e4, e5, dStr_omit, leaf_text _ _ _ hr hcp, bind, Option.bind, pure]

end

theorem dStrElem_str (l : List Bytes) : ∀ x ∈ l, dStrElem (J.str x) = some (id x) := fun _ _ => rfl

theorem decEnv_encEnv (e : Env) (he : DigestOK e.introducedIn) : decEnv (encEnv e) = some e := by
  have e1 : look (render (envBlocks e)) kPackageDb = some (.str e.packageDB) := by look_field
  have e2 : look (render (envBlocks e)) kIntroducedIn = some (.str (digestText e.introducedIn)) := by look_field
  have e3 : look (render (envBlocks e)) kDistributionId = some (.str e.distributionID) := by look_field
  have e4 : look (render (envBlocks e)) kRepositoryIds = some (eSlice J.str e.repositoryIDs) := by look_field
  have hs := dSlice_eSlice J.str dStrElem id e.repositoryIDs (fun l _ => dStrElem_str l)
  simp only [List.map_id_fun, id, Option.map_id_fun] at hs
  simp only [encEnv, decEnv, e1, e2, e3, e4, dStr_str, digest_leaf _ he, hs, bind, Option.bind, pure]

theorem decRange_encRange (r : Range) (hl : VersionOK r.lower) (hu : VersionOK r.upper) :
    decRange (encRange r) = some r := by
  have e1 : look (render (rangeBlocks r)) kLower = some (.str (versionMarshal r.lower)) := by look_field
  have e2 : look (render (rangeBlocks r)) kUpper = some (.str (versionMarshal r.upper)) := by look_field
  simp only [encRange, decRange, e1, e2, version_leaf _ hl, version_leaf _ hu, bind, Option.bind, pure]

/-! ### pointers -/

theorem dPtrElem_encOptPtr {α β : Type} (e : α → Option J) (d : J → Option β) (g : α → β) (x : Option α) (j : J)
    (he : encOptPtr e x = some j) (hobj : ∀ a j, e a = some j → ∃ kv, j = .obj kv)
    (hrt : ∀ a j, x = some a → e a = some j → d j = some (g a)) : dPtrElem d j = some (x.map g) := by
  cases x with
  | none => simp [encOptPtr] at he; subst he; rfl
  | some a =>
    simp only [encOptPtr] at he
    obtain ⟨kv, rfl⟩ := hobj a j he
    simp only [dPtrElem_obj, hrt a _ rfl he, Option.map_some]

theorem dPtr_encOptPtr {α β : Type} (e : α → Option J) (d : J → Option β) (g : α → β) (x : Option α) (j : J)
    (he : encOptPtr e x = some j) (hobj : ∀ a j, e a = some j → ∃ kv, j = .obj kv)
    (hrt : ∀ a j, x = some a → e a = some j → d j = some (g a)) : dPtr d (some j) = some (x.map g) := by
  cases x with
  | none => simp [encOptPtr] at he; subst he; rfl
  | some a =>
    simp only [encOptPtr] at he
    obtain ⟨kv, rfl⟩ := hobj a j he
    simp only [dPtr_obj, hrt a _ rfl he, Option.map_some]

theorem dPtr_omitPtr {α β : Type} (e : α → Option J) (d : J → Option β) (g : α → β) (x : Option α) (oj : Option J)
    (he : omitPtr e x = some oj) (hobj : ∀ a j, e a = some j → ∃ kv, j = .obj kv)
    (hrt : ∀ a j, x = some a → e a = some j → d j = some (g a)) : dPtr d oj = some (x.map g) := by
  cases x with
  | none => simp [omitPtr] at he; subst he; rfl
  | some a =>
    simp only [omitPtr, Option.map_eq_some_iff] at he
    obtain ⟨j, hj, rfl⟩ := he
    obtain ⟨kv, rfl⟩ := hobj a j hj
    simp only [dPtr_obj, hrt a _ rfl hj, Option.map_some]

section
variable {W T : Type} (L : Leaves W T)

theorem encDist_obj (d : Dist W) (j : J) (h : encDist L d = some j) : ∃ kv, j = .obj kv := by
  simp only [encDist, Option.map_eq_some_iff] at h
  obtain ⟨cp, _, rfl⟩ := h
  exact ⟨_, rfl⟩

theorem encRepo_obj (r : Repo W) (j : J) (h : encRepo L r = some j) : ∃ kv, j = .obj kv := by
  simp only [encRepo, Option.map_eq_some_iff] at h
  obtain ⟨cp, _, rfl⟩ := h
  exact ⟨_, rfl⟩

/-- The leaves of a vulnerability are values the codecs can carry. -/
def VulnOK (v : Vuln W T) : Prop :=
  LeafOK L.time v.issued ∧ LeafOK L.sev v.normalizedSeverity ∧ (v.archOp ≠ 0 → LeafOK L.arch v.archOp) ∧
  (∀ p, v.package = some p → PackageOK L p) ∧ (∀ d, v.dist = some d → LeafOK L.wfn d.cpe) ∧
  (∀ r, v.repo = some r → LeafOK L.wfn r.cpe) ∧ (∀ r, v.range = some r → VersionOK r.lower ∧ VersionOK r.upper)

theorem decVuln_encVuln (hz : L.arch.zero = 0) (v : Vuln W T) (j : J) (h : encVuln L v = some j) (hv : VulnOK L v) :
    decVuln L j = some (stripVuln v) := by
  obtain ⟨hti, hse, hao, hpk, hdi, hre, hra⟩ := hv
  simp only [encVuln, bind, Option.bind, pure] at h
  cases h1 : L.time.enc v.issued with
  | none => simp only [h1] at h; cases h
  | some iss =>
  simp only [h1] at h
  cases h2 : L.sev.enc v.normalizedSeverity with
  | none => simp only [h2] at h; cases h
  | some sev =>
  simp only [h2] at h
  cases h3 : encOptPtr (encPackage L) v.package with
  | none => simp only [h3] at h; cases h
  | some pk =>
  simp only [h3] at h
  cases h4 : omitPtr (encDist L) v.dist with
  | none => simp only [h4] at h; cases h
  | some di =>
  simp only [h4] at h
  cases h5 : omitPtr (encRepo L) v.repo with
  | none => simp only [h5] at h; cases h
  | some re =>
  simp only [h5] at h
  cases h6 : omitArch L.arch v.archOp with
  | none => simp only [h6] at h; cases h
  | some ao =>
  simp only [h6] at h
  cases h
  have e1 : look (render (vulnBlocksOf v iss sev pk di re ao)) kId = some (.str v.id) := by look_field
  have e2 : look (render (vulnBlocksOf v iss sev pk di re ao)) kUpdater = some (.str v.updater) := by look_field
  have e3 : look (render (vulnBlocksOf v iss sev pk di re ao)) kName = some (.str v.name) := by look_field
  have e4 : look (render (vulnBlocksOf v iss sev pk di re ao)) kDescription = some (.str v.description) := by
    look_field
  have e5 : look (render (vulnBlocksOf v iss sev pk di re ao)) kIssued = some (.str iss) := by look_field
  have e6 : look (render (vulnBlocksOf v iss sev pk di re ao)) kLinks = some (.str v.links) := by look_field
  have e7 : look (render (vulnBlocksOf v iss sev pk di re ao)) kSeverity = some (.str v.severity) := by look_field
  have e8 : look (render (vulnBlocksOf v iss sev pk di re ao)) kNormalizedSeverity = some (.str sev) := by look_field
  have e9 : look (render (vulnBlocksOf v iss sev pk di re ao)) kPackage = some pk := by look_field
  have e10 : look (render (vulnBlocksOf v iss sev pk di re ao)) kDistribution = di := by look_field
  have e11 : look (render (vulnBlocksOf v iss sev pk di re ao)) kRepository = re := by look_field
  have e12 : look (render (vulnBlocksOf v iss sev pk di re ao)) kFixedInVersion = some (.str v.fixedInVersion) := by
    look_field
  have e13 : look (render (vulnBlocksOf v iss sev pk di re ao)) kRange = v.range.map encRange := by look_field
  have e14 : look (render (vulnBlocksOf v iss sev pk di re ao)) kArchOp = ao := by look_field
  have f9 : dPtr (decPackage L) (some pk) = some (v.package.map stripPackage) :=
    dPtr_encOptPtr _ _ _ _ _ h3 (encPackage_obj L)
      (fun a j ha hj => decPackage_encPackage L a j hj (hpk a ha))
  have f10 : dPtr (decDist L) di = some v.dist := by
    have := dPtr_omitPtr (encDist L) (decDist L) id v.dist di h4 (encDist_obj L)
      (fun a j ha hj => decDist_encDist L a j hj (hdi a ha))
    simpa using this
  have f11 : dPtr (decRepo L) re = some v.repo := by
    have := dPtr_omitPtr (encRepo L) (decRepo L) id v.repo re h5 (encRepo_obj L)
      (fun a j ha hj => decRepo_encRepo L a j hj (hre a ha))
    simpa using this
  have f13 : dPtr decRange (v.range.map encRange) = some v.range := by
    cases hr : v.range with
    | none => rfl
    | some r =>
      obtain ⟨hl, hu⟩ := hra r hr
      simp only [Option.map_some, encRange, dPtr_obj]
      have := decRange_encRange r hl hu
      simp only [encRange] at this
      rw [this]; rfl
  have f14 : dText L.arch ao = some v.archOp := by
    unfold omitArch at h6
    split at h6
    · rename_i h0
      cases h6
      simp [dText, hz, h0]
    · rename_i h0
      simp only [Option.map_eq_some_iff] at h6
      obtain ⟨t, ht, rfl⟩ := h6
      exact leaf_text _ _ _ (hao h0) ht
  simp only [decVuln, e1, e2, e3, e4, e5, e6, e7, e8, e9, e10, e11, e12, e13, e14, dStr_str,
    leaf_text _ _ _ hti h1, leaf_text _ _ _ hse h2, f9, f10, f11, f13, f14, bind, Option.bind, pure, stripVuln]

theorem encVuln_obj (v : Vuln W T) (j : J) (h : encVuln L v = some j) : ∃ kv, j = .obj kv := by
  simp only [encVuln, bind, Option.bind, pure] at h
  cases h1 : L.time.enc v.issued with
  | none => simp only [h1] at h; cases h
  | some iss =>
  simp only [h1] at h
  cases h2 : L.sev.enc v.normalizedSeverity with
  | none => simp only [h2] at h; cases h
  | some sev =>
  simp only [h2] at h
  cases h3 : encOptPtr (encPackage L) v.package with
  | none => simp only [h3] at h; cases h
  | some pk =>
  simp only [h3] at h
  cases h4 : omitPtr (encDist L) v.dist with
  | none => simp only [h4] at h; cases h
  | some di =>
  simp only [h4] at h
  cases h5 : omitPtr (encRepo L) v.repo with
  | none => simp only [h5] at h; cases h
  | some re =>
  simp only [h5] at h
  cases h6 : omitArch L.arch v.archOp with
  | none => simp only [h6] at h; cases h
  | some ao =>
  simp only [h6] at h
  cases h
  exact ⟨_, rfl⟩

/-! ### reports -/

/-- A Go map (keys distinct) whose non-nil elements satisfy `P`. -/
def MapAll {β : Type} (P : β → Prop) (m : GoMap (Option β)) : Prop :=
  ∀ kv, m = some kv → (kv.map (·.1)).Nodup ∧ ∀ p ∈ kv, ∀ x, p.2 = some x → P x

def EnvsOK : GoMap (Option (List (Option Env))) → Prop :=
  MapAll fun l => ∀ e ∈ l, ∀ x, e = some x → DigestOK x.introducedIn

theorem pkgMap_rt (m : GoMap (Option (Package W))) (j : J) (hm : MapAll (PackageOK L) m)
    (he : encMapM (encOptPtr (encPackage L)) m = some j) :
    dMap (dPtrElem (decPackage L)) (some j) = some (stripPkgMap m) :=
  dMap_encMapM _ _ (Option.map stripPackage) m j (fun kv h => (hm kv h).1)
    (fun kv h p hp _ hj => dPtrElem_encOptPtr _ _ _ _ _ hj (encPackage_obj L)
      (fun a j' ha hj' => decPackage_encPackage L a j' hj' ((hm kv h).2 p hp a ha))) he

theorem map_id_pairs {β : Type} (m : GoMap β) : m.map (List.map fun p => (p.1, id p.2)) = m := by
  cases m with
  | none => rfl
  | some kv => simp

theorem distMap_rt (m : GoMap (Option (Dist W))) (j : J) (hm : MapAll (fun d => LeafOK L.wfn d.cpe) m)
    (he : encMapM (encOptPtr (encDist L)) m = some j) :
    dMap (dPtrElem (decDist L)) (some j) = some m := by
  have := dMap_encMapM _ (dPtrElem (decDist L)) id m j (fun kv h => (hm kv h).1)
    (fun kv h p hp j hj => by
      have := dPtrElem_encOptPtr _ (decDist L) id _ _ hj (encDist_obj L)
        (fun a j' ha hj' => decDist_encDist L a j' hj' ((hm kv h).2 p hp a ha))
      simpa using this) he
  rw [this, map_id_pairs]

theorem repoMap_rt (m : GoMap (Option (Repo W))) (j : J) (hm : MapAll (fun d => LeafOK L.wfn d.cpe) m)
    (he : encMapM (encOptPtr (encRepo L)) m = some j) :
    dMap (dPtrElem (decRepo L)) (some j) = some m := by
  have := dMap_encMapM _ (dPtrElem (decRepo L)) id m j (fun kv h => (hm kv h).1)
    (fun kv h p hp j hj => by
      have := dPtrElem_encOptPtr _ (decRepo L) id _ _ hj (encRepo_obj L)
        (fun a j' ha hj' => decRepo_encRepo L a j' hj' ((hm kv h).2 p hp a ha))
      simpa using this) he
  rw [this, map_id_pairs]

theorem vulnMap_rt (hz : L.arch.zero = 0) (m : GoMap (Option (Vuln W T))) (j : J) (hm : MapAll (VulnOK L) m)
    (he : encMapM (encOptPtr (encVuln L)) m = some j) :
    dMap (dPtrElem (decVuln L)) (some j) = some (m.map (List.map fun p => (p.1, p.2.map stripVuln))) :=
  dMap_encMapM _ _ (Option.map stripVuln) m j (fun kv h => (hm kv h).1)
    (fun kv h p hp _ hj => dPtrElem_encOptPtr _ _ _ _ _ hj (encVuln_obj L)
      (fun a j' ha hj' => decVuln_encVuln L hz a j' hj' ((hm kv h).2 p hp a ha))) he

end

theorem envPtr_rt (x : Option Env) (h : ∀ e, x = some e → DigestOK e.introducedIn) :
    dPtrElem decEnv (ePtr encEnv x) = some (id x) := by
  cases x with
  | none => rfl
  | some e =>
    have := decEnv_encEnv e (h e rfl)
    simp only [ePtr, encEnv, dPtrElem_obj] at this ⊢
    rw [this]; rfl

theorem envs_rt (m : GoMap (Option (List (Option Env)))) (hm : EnvsOK m) :
    decEnvs (some (encEnvs m)) = some m := by
  have := dMap_eMap (eSlice (ePtr encEnv)) (fun j => dSlice (dPtrElem decEnv) (some j)) id m
    (fun kv h => (hm kv h).1)
    (fun kv h p hp => by
      have := dSlice_eSlice (ePtr encEnv) (dPtrElem decEnv) id p.2
        (fun l hl x hx => envPtr_rt x (fun e he => (hm kv h).2 p hp l hl x hx e he))
      simpa using this)
  simp only [decEnvs, encEnvs, this, map_id_pairs]

theorem strSliceMap_rt (m : GoMap (Option (List Bytes))) (hn : ∀ kv, m = some kv → (kv.map (·.1)).Nodup) :
    dMap (fun j => dSlice dStrElem (some j)) (some (eMap (eSlice J.str) m)) = some m := by
  have := dMap_eMap (eSlice J.str) (fun j => dSlice dStrElem (some j)) id m hn
    (fun kv h p hp => by
      have := dSlice_eSlice J.str dStrElem id p.2 (fun l _ => dStrElem_str l)
      simpa using this)
  rw [this, map_id_pairs]

theorem rawSliceMap_rt (m : GoMap (Option (List J))) (hn : ∀ kv, m = some kv → (kv.map (·.1)).Nodup) :
    dMap (fun j => dSlice (fun x => some x) (some j)) (some (eMap (eSlice id) m)) = some m := by
  have := dMap_eMap (eSlice id) (fun j => dSlice (fun x => some x) (some j)) id m hn
    (fun kv h p hp => by
      have := dSlice_eSlice (id : J → J) (fun x => some x) id p.2 (fun l _ x _ => rfl)
      simpa using this)
  rw [this, map_id_pairs]

section
variable {W T : Type} (L : Leaves W T)

/-- An index report every leaf of which the codecs can carry: a constructed
    manifest digest, maps with distinct keys, packages / distributions /
    repositories / environments with carryable leaves. -/
def IROK (r : IndexReport W) : Prop :=
  DigestOK r.hash ∧ MapAll (PackageOK L) r.packages ∧ MapAll (fun d => LeafOK L.wfn d.cpe) r.distributions ∧
  MapAll (fun d => LeafOK L.wfn d.cpe) r.repositories ∧ EnvsOK r.environments

theorem decIR_encIR (r : IndexReport W) (j : J) (h : encIR L r = some j) (hr : IROK L r) :
    decIR L j = some (stripIR r) := by
  obtain ⟨hh, hp, hd, hre, he⟩ := hr
  simp only [encIR, bind, Option.bind, pure] at h
  cases h1 : encMapM (encOptPtr (encPackage L)) r.packages with
  | none => simp only [h1] at h; cases h
  | some pk =>
  simp only [h1] at h
  cases h2 : encMapM (encOptPtr (encDist L)) r.distributions with
  | none => simp only [h2] at h; cases h
  | some di =>
  simp only [h2] at h
  cases h3 : encMapM (encOptPtr (encRepo L)) r.repositories with
  | none => simp only [h3] at h; cases h
  | some re =>
  simp only [h3] at h
  cases h
  have e1 : look (render (irBlocksOf r pk di re)) kManifestHash = some (.str (digestText r.hash)) := by look_field
  have e2 : look (render (irBlocksOf r pk di re)) kState = some (.str r.state) := by look_field
  have e3 : look (render (irBlocksOf r pk di re)) kPackages = some pk := by look_field
  have e4 : look (render (irBlocksOf r pk di re)) kDistributions = some di := by look_field
  have e5 : look (render (irBlocksOf r pk di re)) kRepository = some re := by look_field
  have e6 : look (render (irBlocksOf r pk di re)) kEnvironments = some (encEnvs r.environments) := by look_field
  have e7 : look (render (irBlocksOf r pk di re)) kSuccess = some (.bool r.success) := by look_field
  have e8 : look (render (irBlocksOf r pk di re)) kErr = some (.str r.err) := by look_field
  simp only [decIR, decIRObj, e1, e2, e3, e4, e5, e6, e7, e8, dStr_str, dBool_bool, digest_leaf _ hh,
    pkgMap_rt L _ _ hp h1, distMap_rt L _ _ hd h2, repoMap_rt L _ _ hre h3, envs_rt _ he,
    bind, Option.bind, pure, stripIR]

/-- A vulnerability report every leaf of which the codecs can carry. -/
def VROK (r : VulnReport W T) : Prop :=
  DigestOK r.hash ∧ MapAll (PackageOK L) r.packages ∧ MapAll (fun d => LeafOK L.wfn d.cpe) r.distributions ∧
  MapAll (fun d => LeafOK L.wfn d.cpe) r.repositories ∧ EnvsOK r.environments ∧
  MapAll (VulnOK L) r.vulnerabilities ∧
  (∀ kv, r.packageVulnerabilities = some kv → (kv.map (·.1)).Nodup) ∧
  (∀ kv, r.enrichments = some kv → (kv.map (·.1)).Nodup)

theorem decVR_encVR (hz : L.arch.zero = 0) (r : VulnReport W T) (j : J) (h : encVR L r = some j) (hr : VROK L r) :
    decVR L j = some (stripVR r) := by
  obtain ⟨hh, hp, hd, hre, he, hv, hpv, hen⟩ := hr
  simp only [encVR, bind, Option.bind, pure] at h
  cases h1 : encMapM (encOptPtr (encPackage L)) r.packages with
  | none => simp only [h1] at h; cases h
  | some pk =>
  simp only [h1] at h
  cases h2 : encMapM (encOptPtr (encDist L)) r.distributions with
  | none => simp only [h2] at h; cases h
  | some di =>
  simp only [h2] at h
  cases h3 : encMapM (encOptPtr (encRepo L)) r.repositories with
  | none => simp only [h3] at h; cases h
  | some re =>
  simp only [h3] at h
  cases h4 : encMapM (encOptPtr (encVuln L)) r.vulnerabilities with
  | none => simp only [h4] at h; cases h
  | some vu =>
  simp only [h4] at h
  cases h
  have e1 : look (render (vrBlocksOf r pk di re vu)) kManifestHash = some (.str (digestText r.hash)) := by look_field
  have e3 : look (render (vrBlocksOf r pk di re vu)) kPackages = some pk := by look_field
  have e4 : look (render (vrBlocksOf r pk di re vu)) kDistributions = some di := by look_field
  have e5 : look (render (vrBlocksOf r pk di re vu)) kRepository = some re := by look_field
  have e6 : look (render (vrBlocksOf r pk di re vu)) kEnvironments = some (encEnvs r.environments) := by look_field
  have e7 : look (render (vrBlocksOf r pk di re vu)) kVulnerabilities = some vu := by look_field
  have e8 : look (render (vrBlocksOf r pk di re vu)) kPackageVulnerabilities =
      some (eMap (eSlice J.str) r.packageVulnerabilities) := by look_field
  have e9 : look (render (vrBlocksOf r pk di re vu)) kEnrichments = some (eMap (eSlice id) r.enrichments) := by
    look_field
  simp only [decVR, decVRObj, e1, e3, e4, e5, e6, e7, e8, e9, digest_leaf _ hh,
    pkgMap_rt L _ _ hp h1, distMap_rt L _ _ hd h2, repoMap_rt L _ _ hre h3, envs_rt _ he,
    vulnMap_rt L hz _ _ hv h4, strSliceMap_rt _ hpv, rawSliceMap_rt _ hen,
    bind, Option.bind, pure, stripVR]

end

/-! ### the scan cannot tell a report from its JSON round trip -/

section
variable {W T : Type}

theorem stripPkg_idem (p : Pkg W) : stripPkg (stripPkg p) = stripPkg p := rfl

theorem stripPackage_idem (p : Package W) : stripPackage (stripPackage p) = stripPackage p := by
  simp [stripPackage, stripPkg_idem, List.map_map, Function.comp_def]

theorem stripPkgMap_idem (m : GoMap (Option (Package W))) : stripPkgMap (stripPkgMap m) = stripPkgMap m := by
  cases m with
  | none => rfl
  | some kv =>
    simp only [stripPkgMap, Option.map_some, List.map_map, Function.comp_def, Option.some.injEq]
    apply List.map_congr_left
    intro p _
    cases p.2 <;> simp [stripPackage_idem]

theorem mapGet_stripPkgMap (m : GoMap (Option (Package W))) (k : Bytes) :
    mapGet (stripPkgMap m) k = (mapGet m k).map (Option.map stripPackage) := by
  cases m with
  | none => rfl
  | some kv =>
    simp only [stripPkgMap, Option.map_some, mapGet]
    induction kv with
    | nil => rfl
    | cons a t ih =>
      simp only [List.map_cons, List.find?_cons]
      cases (a.1 == k) with
      | true => rfl
      | false => exact ih

theorem envRecords_strip (r : IndexReport W) (p : Package W) (e : Option Env) :
    envRecords (stripIR r) (stripPackage p) e = (envRecords r p e).map (List.map stripRecord) := by
  cases e with
  | none => rfl
  | some e =>
    simp only [envRecords, stripIR]
    cases e.repositoryIDs with
    | none => rfl
    | some ids =>
      cases ids with
      | nil => rfl
      | cons i is => simp [stripRecord, List.map_map, Function.comp_def]

theorem mapM_map_comm {α β γ : Type} (f : α → Option β) (f' : α → Option γ) (g : β → γ) (l : List α)
    (h : ∀ x ∈ l, f' x = (f x).map g) : l.mapM f' = (l.mapM f).map (List.map g) := by
  induction l with
  | nil => rfl
  | cons a t ih =>
    simp only [List.mapM_cons, h a (by simp), ih fun x hx => h x (List.mem_cons_of_mem _ hx)]
    cases f a with
    | none => rfl
    | some b =>
      cases t.mapM f with
      | none => rfl
      | some r => rfl

/-- `IndexRecords` of the stripped report are the stripped records (in
    particular it panics on the one exactly when it panics on the other). -/
theorem indexRecords_strip (r : IndexReport W) :
    indexRecords (stripIR r) = (indexRecords r).map (List.map stripRecord) := by
  unfold indexRecords
  cases hp : r.packages with
  | none => simp [stripIR, stripPkgMap, hp]
  | some kv =>
    have hs : (stripIR r).packages = some (kv.map fun p => (p.1, p.2.map stripPackage)) := by
      simp [stripIR, stripPkgMap, hp]
    simp only [hs]
    rw [List.mapM_map]
    have := mapM_map_comm (pkgRecords r) (pkgRecords (stripIR r) ∘ fun p => (p.1, p.2.map stripPackage))
      (List.map stripRecord) kv
      (by
        intro x _
        cases hx : x.2 with
        | none => simp [pkgRecords, hx]
        | some p =>
          simp only [Function.comp, pkgRecords, hx, Option.map_some]
          have he : envsOf (stripIR r) (stripPackage p).head.id = envsOf r p.head.id := rfl
          rw [he, mapM_map_comm (envRecords r p) (envRecords (stripIR r) (stripPackage p)) (List.map stripRecord) _
            (fun e _ => envRecords_strip r p e)]
          cases (envsOf r p.head.id).mapM (envRecords r p) with
          | none => rfl
          | some l => simp [List.map_flatten])
    rw [this]
    cases kv.mapM (pkgRecords r) with
    | none => rfl
    | some l => simp [List.map_flatten]

/-- A scan of the stripped report equals the scan of the report, up to the
    fields JSON does not carry — for every `core` (matchers, store, enrichers)
    that does not look at those fields. -/
theorem scan_strip (core : List (Record W) → Findings W T)
    (hcore : ∀ recs, core (recs.map stripRecord) = core recs) (r : IndexReport W) :
    (scan core (stripIR r)).map stripVR = (scan core r).map stripVR := by
  simp only [scan, indexRecords_strip]
  cases indexRecords r with
  | none => rfl
  | some recs =>
    simp only [Option.map_some, hcore, stripVR, stripIR, stripPkgMap_idem]

end

/-! ### the encoders do not look at the `json:"-"` fields -/

section
variable {W T : Type} (L : Leaves W T)

theorem encChain_strip (rest : List (Pkg W)) : ∀ p : Pkg W,
    encChain L (stripPkg p) (rest.map stripPkg) = encChain L p rest := by
  induction rest with
  | nil => intro p; rfl
  | cons q qs ih =>
    intro p
    simp only [List.map_cons, encChain, ih q]
    rfl

theorem encPackage_strip (p : Package W) : encPackage L (stripPackage p) = encPackage L p :=
  encChain_strip L p.sources p.head

theorem encMapM_congr {β : Type} (e : β → Option J) (g : β → β) (h : ∀ x, e (g x) = e x) (m : GoMap β) :
    encMapM e (m.map (List.map fun p => (p.1, g p.2))) = encMapM e m := by
  cases m with
  | none => rfl
  | some kv =>
    simp only [Option.map_some, encMapM, List.mapM_map]
    congr 2
    funext p
    simp [h]

theorem encIR_strip (r : IndexReport W) : encIR L (stripIR r) = encIR L r := by
  have : encMapM (encOptPtr (encPackage L)) (stripPkgMap r.packages) =
      encMapM (encOptPtr (encPackage L)) r.packages := by
    apply encMapM_congr _ (Option.map stripPackage)
    intro x
    cases x with
    | none => rfl
    | some p => exact encPackage_strip L p
  simp only [encIR, stripIR, this]
  rfl

end

end ClairModel.ReportJson
