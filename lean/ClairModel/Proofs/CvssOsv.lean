/-
  C18 — `fromCVSS3` reads only the base metrics: on the printed form of any
  valid v3 vector (temporal, environmental metrics, explicit X) it classifies
  the score of the base part.
-/
import ClairModel.Proofs.CvssPrint
import ClairModel.Proofs.Cvss
namespace ClairModel.Cvss
open ClairModel.Gen.Cvss ClairModel.CvssSpec

/-! ### `fromCVSS3` reads only the base metrics of a printed vector -/

theorem osvFill_append (W : List (Bytes × Nat × List (Bytes × Int))) (ign : List Bytes) :
    ∀ (a b : List Bytes) (ns : List Int),
      osvFill W ign (a ++ b) ns = (osvFill W ign a ns).bind (osvFill W ign b)
  | [], b, ns => rfl
  | p :: a, b, ns => by
    simp only [List.cons_append, osvFill]
    split
    · rfl
    · split
      · split
        · rfl
        · exact osvFill_append W ign a b _
      · split
        · exact osvFill_append W ign a b _
        · rfl

theorem osv3_ignored_names : ∀ m, 8 ≤ m → m < 22 →
    lookupBytes osv3Weights (nameOf v3Names m) = none ∧ osv3Ignored.contains (nameOf v3Names m) = true := by
  intro m h1 h2
  have : m = 8 ∨ m = 9 ∨ m = 10 ∨ m = 11 ∨ m = 12 ∨ m = 13 ∨ m = 14 ∨ m = 15 ∨ m = 16 ∨ m = 17 ∨ m = 18 ∨
      m = 19 ∨ m = 20 ∨ m = 21 := by omega
  rcases this with rfl | rfl | rfl | rfl | rfl | rfl | rfl | rfl | rfl | rfl | rfl | rfl | rfl | rfl <;> decide

/-- the non-base pieces of a printed vector are skipped -/
theorem osvFill_ignored (v : Vec) : ∀ (ms : List Nat) (ns : List Int), (∀ m ∈ ms, 8 ≤ m ∧ m < 22) →
    osvFill osv3Weights osv3Ignored (pieces3 v ms) ns = some ns
  | [], ns, _ => rfl
  | m :: ms, ns, h => by
    have hm := h m (by simp)
    have ih := osvFill_ignored v ms ns (fun x hx => h x (List.mem_cons_of_mem _ hx))
    by_cases hz : v.get m = 0
    · simp only [pieces3, hz, if_true]; exact ih
    · obtain ⟨f1, f2⟩ := osv3_ignored_names m hm.1 hm.2
      have hc : cut cColon (nameOf v3Names m ++ cColon :: [v.get m]) = some (nameOf v3Names m, [v.get m]) :=
        cut_name cColon _ _ (v3_names_facts m hm.2).2.1
      simp only [pieces3, hz, if_false, osvFill, hc, f1, f2, if_true]
      exact ih

theorem pieces3_mem (v : Vec) : ∀ (ms : List Nat) (p : Bytes), p ∈ pieces3 v ms →
    ∃ m ∈ ms, v.get m ≠ 0 ∧ p = nameOf v3Names m ++ [cColon, v.get m]
  | [], p, h => by simp [pieces3] at h
  | m :: ms, p, h => by
    by_cases hz : v.get m = 0
    · simp only [pieces3, hz, if_true] at h
      obtain ⟨m', hm', h1, h2⟩ := pieces3_mem v ms p h
      exact ⟨m', List.mem_cons_of_mem _ hm', h1, h2⟩
    · simp only [pieces3, hz, if_false, List.mem_cons] at h
      rcases h with rfl | h
      · exact ⟨m, by simp, hz, rfl⟩
      · obtain ⟨m', hm', h1, h2⟩ := pieces3_mem v ms p h
        exact ⟨m', List.mem_cons_of_mem _ hm', h1, h2⟩

theorem trim_concat (a : Bytes) (b : Nat) (hb : b ≠ cSlash) : trimRightSlash (a ++ [b]) = a ++ [b] := by
  simp [trimRightSlash, hb]

theorem pieces3_base_length (v : Vec) (hv : Valid3 v) : (pieces3 v (List.range' 0 8)).length = 8 := by
  have h (m : Nat) (hm : m < 8) : v.get m ≠ 0 := hv.base m hm
  have e : List.range' 0 8 = [0, 1, 2, 3, 4, 5, 6, 7] := by decide
  simp [e, pieces3, h 0, h 1, h 2, h 3, h 4, h 5, h 6, h 7]

/-- the score `fromCVSS3` classifies for a printed valid vector depends on its base metrics only -/
theorem osv3Score_print3 (v : Vec) (hv : Valid3 v) :
    osv3Score (print3 v) =
      match osvFill osv3Weights osv3Ignored (pieces3 v (List.range' 0 8)) (List.replicate 8 0) with
      | none => none
      | some ns => some (osv3Core ns) := by
  have hmem : ∀ m ∈ List.range' 0 22, m < 22 := by decide
  have hsplit : List.range' 0 22 = List.range' 0 8 ++ List.range' 8 14 := by decide
  have hB : ∀ m ∈ List.range' 8 14, 8 ≤ m ∧ m < 22 := by decide
  have hlen := pieces3_base_length v hv
  -- the pieces
  generalize hps : pieces3 v (List.range' 0 22) = ps
  have hpsAB : ps = pieces3 v (List.range' 0 8) ++ pieces3 v (List.range' 8 14) := by
    rw [← hps, hsplit, pieces3_append]
  have hne : ps ≠ [] := by
    intro e
    have h0 := congrArg List.length (hpsAB.symm.trans e)
    rw [List.length_append, hlen] at h0
    simp at h0
  have hpiece : ∀ p ∈ ps, ∃ m, m < 22 ∧ v.get m ∈ gv3 m ∧ p = nameOf v3Names m ++ [cColon, v.get m] := by
    intro p hp
    rw [← hps] at hp
    obtain ⟨m, hm, hz, rfl⟩ := pieces3_mem v _ p hp
    exact ⟨m, hmem m hm, (hv.vals m (hmem m hm)).resolve_left hz, rfl⟩
  have hsep : ∀ p ∈ ps, cSlash ∉ p := by
    intro p hp
    obtain ⟨m, hm, hb, rfl⟩ := hpiece p hp
    have f := gv3_facts m hm _ hb
    have g := (v3_names_facts m hm).2.2
    intro hin
    simp only [List.mem_append, List.mem_cons, List.mem_nil_iff, or_false] at hin
    rcases hin with hin | hin | hin
    · exact g hin
    · exact absurd hin (by decide)
    · exact f.2.1 hin.symm
  -- the text ends in a value byte, so TrimRight is the identity
  have hlast : ∃ a b, b ≠ cSlash ∧ v3Prefix ++ (48 + v.ver) :: joinLead cSlash ps = a ++ [b] := by
    have hcat := List.dropLast_concat_getLast hne
    obtain ⟨m, hm, hb, hp⟩ := hpiece (ps.getLast hne) (List.getLast_mem hne)
    refine ⟨v3Prefix ++ (48 + v.ver) :: (joinLead cSlash ps.dropLast ++ cSlash :: (nameOf v3Names m ++ [cColon])),
      v.get m, (gv3_facts m hm _ hb).2.1, ?_⟩
    conv => lhs; rw [← hcat, joinLead_append, hp]
    simp [joinLead]
  obtain ⟨a, b, hb, hab⟩ := hlast
  have hd : 48 + v.ver ≠ cSlash := by have := hv.ver; show 48 + v.ver ≠ 47; omega
  have hlab : cSlash ∉ v3Prefix ++ [48 + v.ver] := by
    intro hin
    simp only [List.mem_append, List.mem_cons, List.mem_nil_iff, or_false] at hin
    rcases hin with hin | hin
    · exact absurd hin (by decide)
    · exact hd hin.symm
  have hsp : splitOn cSlash (v3Prefix ++ (48 + v.ver) :: joinLead cSlash ps) = (v3Prefix ++ [48 + v.ver]) :: ps := by
    have h1 := splitOn_joinLead cSlash ps hsep hne
    cases hps' : ps with
    | nil => exact absurd hps' hne
    | cons p ps' =>
      rw [hps'] at h1
      rw [joinLead_cons] at h1 ⊢
      simp only [splitOn, if_true] at h1
      injection h1 with _ h1
      have : v3Prefix ++ (48 + v.ver) :: cSlash :: (p ++ joinLead cSlash ps') =
          (v3Prefix ++ [48 + v.ver]) ++ cSlash :: (p ++ joinLead cSlash ps') := by simp
      rw [this, splitOn_append_sep cSlash _ _ hlab, h1]
  have hpre : isPrefix osv3Prefix (v3Prefix ++ [48 + v.ver]) = true := rfl
  have hpi : parseInt32Ok ((v3Prefix ++ [48 + v.ver]).drop 7) = true := by
    have : v.ver = 0 ∨ v.ver = 1 := by have := hv.ver; omega
    rcases this with h | h <;> rw [h] <;> decide
  have hl8 : ¬ (v3Prefix ++ [48 + v.ver]).length < 8 := by simp [v3Prefix]
  have hcount : ¬ ps.length + 1 < 9 := by
    rw [hpsAB, List.length_append, hlen]; omega
  rw [print3_shape, hps, osv3Score, hab, trim_concat a b hb, ← hab, hsp]
  simp only [hpre, hpi, hl8, hcount, not_true_eq_false, if_false]
  rw [hpsAB, osvFill_append]
  cases hA : osvFill osv3Weights osv3Ignored (pieces3 v (List.range' 0 8)) (List.replicate 8 0) with
  | none => rfl
  | some ns =>
    simp only [Option.bind_some]
    rw [osvFill_ignored v _ ns hB]

theorem pieces3_congr (a b : Vec) : ∀ ms : List Nat, (∀ m ∈ ms, a.get m = b.get m) → pieces3 a ms = pieces3 b ms
  | [], _ => rfl
  | m :: ms, h => by
    have hm := h m (by simp)
    have ih := pieces3_congr a b ms (fun x hx => h x (List.mem_cons_of_mem _ hx))
    simp only [pieces3, hm, ih]

/-- the base part of a vector -/
def baseOf3 (v : Vec) : Vec := mk3 v.ver (v.get 0) (v.get 1) (v.get 2) (v.get 3) (v.get 4) (v.get 5) (v.get 6) (v.get 7)

theorem baseOf3_get (v : Vec) : ∀ m ∈ List.range' 0 8, (baseOf3 v).get m = v.get m := by
  intro m hm
  have : m = 0 ∨ m = 1 ∨ m = 2 ∨ m = 3 ∨ m = 4 ∨ m = 5 ∨ m = 6 ∨ m = 7 := by
    simp [List.mem_range'] at hm; omega
  rcases this with rfl | rfl | rfl | rfl | rfl | rfl | rfl | rfl <;> rfl

theorem baseOf3_valid (v : Vec) (hv : Valid3 v) : Valid3 (baseOf3 v) := by
  refine ⟨rfl, hv.ver, ?_, ?_⟩
  · intro m hm
    by_cases h8 : m < 8
    · rw [baseOf3_get v m (by simp [List.mem_range']; omega)]
      exact hv.vals m hm
    · left
      have : m = 8 ∨ m = 9 ∨ m = 10 ∨ m = 11 ∨ m = 12 ∨ m = 13 ∨ m = 14 ∨ m = 15 ∨ m = 16 ∨ m = 17 ∨ m = 18 ∨
          m = 19 ∨ m = 20 ∨ m = 21 := by omega
      rcases this with rfl | rfl | rfl | rfl | rfl | rfl | rfl | rfl | rfl | rfl | rfl | rfl | rfl | rfl <;> rfl
  · intro m hm
    rw [baseOf3_get v m (by simp [List.mem_range']; omega)]
    exact hv.base m hm

/-- `fromCVSS3` ignores temporal and environmental metrics: on the printed
    form of any valid vector it answers what it answers on the base part -/
theorem osv3_print3_base (v : Vec) (hv : Valid3 v) : osv3 (print3 v) = osv3 (print3 (baseOf3 v)) := by
  unfold osv3
  rw [osv3Score_print3 v hv, osv3Score_print3 (baseOf3 v) (baseOf3_valid v hv),
    pieces3_congr (baseOf3 v) v _ (baseOf3_get v)]

end ClairModel.Cvss
