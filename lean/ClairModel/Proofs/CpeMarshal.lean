/-
  C19 — marshaling.go (text / SQL forms, the zero name, errors, a receiver that
  already holds a name), what the unbinders return, and the prefix match of
  rhel/matcher.go.
-/
import ClairModel.Proofs.CpeURIAsm

namespace ClairModel.Cpe
open ClairModel.CpeTypes ClairModel.CpeSpec

/-! ### what the unbinders return -/

theorem unbindFS_valid (s : Str) (w : WFN) (h : unbindFS s = some w) : valid w = .ok ∧ w.length = Gen.Cpe.numAttr := by
  unfold unbindFS at h
  split at h
  · cases h
  · simp only at h
    split at h
    · cases h
    · rename_i hlen
      split at h
      · rename_i hv
        cases h
        refine ⟨hv, ?_⟩
        simp only [List.length_append, List.length_map, List.length_replicate]
        omega
      · cases h

theorem uriLoop_length (cs : List Str) (i : Nat) (w w' : WFN) (h : uriLoop i cs w = some w') : w'.length = w.length := by
  induction cs generalizing i w with
  | nil => simp [uriLoop] at h; rw [h]
  | cons c rest ih =>
    rw [uriLoop] at h
    split at h
    · cases h
    · split at h
      · split at h
        · cases h
        · rename_i w2 hp
          rw [ih _ _ h, uriPacked_length _ _ _ _ hp]
      · split at h
        · cases h
        · rw [ih _ _ h, List.length_set]

theorem unbindURI_valid (s : Str) (w : WFN) (h : unbindURI s = some w) : valid w = .ok ∧ w.length = Gen.Cpe.numAttr := by
  unfold unbindURI at h
  split at h
  · cases h
  · split at h
    · cases h
    · split at h
      · cases h
      · rename_i w2 hloop
        split at h
        · rename_i hv
          cases h
          refine ⟨hv, ?_⟩
          rw [uriLoop_length _ _ _ _ hloop]
          decide
        · cases h

/-- Whatever `Unbind` returns without error is a valid name with eleven attributes. -/
theorem unbind_valid (s : Str) (w : WFN) (h : unbind s = some w) : valid w = .ok ∧ w.length = Gen.Cpe.numAttr := by
  unfold unbind at h
  split at h
  · exact unbindURI_valid s w h
  · split at h
    · exact unbindFS_valid s w h
    · cases h

/-! ### marshaling -/

theorem marshalText_none_iff (w : WFN) : marshalText w = none ↔ valid w = .err := by
  unfold marshalText
  cases valid w <;> simp

theorem marshalText_unset (w : WFN) (h : valid w = .errUnset) : marshalText w = some [] ∧ wfnString w = [] := by
  simp [marshalText, wfnString, h]

theorem bindFS_ne_nil (w : WFN) : bindFS w ≠ [] := by
  simp [bindFS, fsHead]

theorem unmarshal_marshal (w0 w : WFN) (hv : valid w = .ok) (hl : w.length = 11) (hb : ∀ a ∈ w, bindable a) :
    (marshalText w).bind (unmarshalText w0) = some (norm w) := by
  have h := unbindFS_bindFS w hv hl hb
  simp only [marshalText, hv, Option.bind_some, unmarshalText, bindFS_ne_nil, if_false]
  cases w with
  | nil => simp at hl
  | cons a w =>
    have h22 : Gen.Cpe.cpe22Prefix.isPrefixOf (bindFS (a :: w)) = false := by
      simp [bindFS, fsHead, Gen.Cpe.cpe22Prefix, List.isPrefixOf]
    have h23 : Gen.Cpe.cpe23Prefix.isPrefixOf (bindFS (a :: w)) = true := by
      simp [bindFS, fsHead, Gen.Cpe.cpe23Prefix, List.isPrefixOf]
    simp only [unbind, h22, h23, Bool.false_eq_true, if_false, if_true]
    exact h

theorem unmarshal_marshal_unset (w0 w : WFN) (hv : valid w = .errUnset) :
    (marshalText w).bind (unmarshalText w0) = some (List.replicate 11 unsetValue) := by
  simp [marshalText, hv, unmarshalText]

theorem scan_marshal_unset (w0 w : WFN) (hv : valid w = .errUnset) :
    (marshalText w).bind (scanText w0) = some w0 := by
  simp [marshalText, hv, scanText]

/-- `Scan` and `UnmarshalText` differ on the empty input only. -/
theorem scanText_eq_unmarshalText (w0 : WFN) (b : Str) (h : b ≠ []) : scanText w0 b = unmarshalText w0 b := by
  simp [scanText, unmarshalText, h]

/-- Every value of a valid name is ASCII (below 0x7F). -/
theorem valid_ascii (w : WFN) (hv : valid w = .ok) : ∀ a ∈ w, ∀ c ∈ a.v, c < 127 := by
  intro a ha c hc
  have := valid_all w hv a ha
  simp only [validate, Bool.and_eq_true, preOk, List.all_eq_true, decide_eq_true_eq] at this
  exact (this.1.1.1 c hc).1

/-! ### rhel: the prefix match on the bound strings -/

def trimSet (c : Nat) : Bool := c == 58 || c == 42

theorem dropWhile_append_all (p : Nat → Bool) (a b : Str) (h : ∀ c ∈ a, p c = true) :
    (a ++ b).dropWhile p = b.dropWhile p := by
  induction a with
  | nil => rfl
  | cons x a ih =>
    have hx := h x (by simp)
    simp only [List.cons_append, List.dropWhile_cons, hx, if_true]
    exact ih (fun c hc => h c (by simp [hc]))

theorem trim_append_all (x z : Str) (h : ∀ c ∈ z, trimSet c = true) :
    trimRightColonStar (x ++ z) = trimRightColonStar x := by
  unfold trimRightColonStar
  rw [List.reverse_append, dropWhile_append_all (fun c => c == 58 || c == 42) _ _ (fun c hc => h c (by simpa using hc))]

theorem trim_snoc_keep (x : Str) (y : Nat) (h : trimSet y = false) : trimRightColonStar (x ++ [y]) = x ++ [y] := by
  unfold trimRightColonStar
  have : ((fun c => c == 58 || c == 42) y) = false := h
  simp [this]

theorem trim_prefix (x : Str) : (trimRightColonStar x).isPrefixOf x = true := by
  rw [List.isPrefixOf_iff_prefix]
  unfold trimRightColonStar
  have := List.dropWhile_suffix (fun c => c == 58 || c == 42) (l := x.reverse)
  have h2 := List.reverse_prefix.2 this
  simpa using h2

theorem bindFS_append (P T : WFN) : bindFS (P ++ T) = bindFS P ++ T.flatMap fun a => 58 :: bindValue a := by
  simp [bindFS, List.flatMap_append]

theorem anyTail_trimmed (T : WFN) (hT : ∀ a ∈ T, a.kind = .any ∨ a.kind = .unset) :
    ∀ c ∈ (T.flatMap fun a => 58 :: bindValue a), trimSet c = true := by
  intro c hc
  simp only [List.mem_flatMap] at hc
  obtain ⟨a, ha, hca⟩ := hc
  have hb : bindValue a = [42] := by
    rcases a with ⟨k, v⟩
    rcases hT _ ha with h | h <;> simp only at h <;> subst h <;> rfl
  rw [hb] at hca
  simp at hca
  rcases hca with rfl | rfl <;> rfl

theorem wfnString_eq (w : WFN) (h : valid w ≠ .errUnset) : wfnString w = bindFS w := by
  unfold wfnString
  cases hv : valid w <;> simp_all

/-- A pattern whose attributes after `P` are all ANY (or unset) matches every
    repository name whose bound string begins with the bound string of `P`. -/
theorem substring_of_prefix (P T R : WFN) (hT : ∀ a ∈ T, a.kind = .any ∨ a.kind = .unset)
    (hV : valid (P ++ T) ≠ .errUnset) (hR : valid R ≠ .errUnset)
    (h : (bindFS P).isPrefixOf (bindFS R) = true) : substringMatch R (P ++ T) = true := by
  unfold substringMatch
  rw [wfnString_eq _ hV, wfnString_eq _ hR, bindFS_append, trim_append_all _ _ (anyTail_trimmed T hT)]
  rw [List.isPrefixOf_iff_prefix] at h ⊢
  exact List.IsPrefix.trans (List.isPrefixOf_iff_prefix.1 (trim_prefix _)) h

/-- When the last attribute of the pattern that is not ANY binds to a string
    not ending in `*` or `:`, the prefix match is exactly: the bound string of
    the pattern up to and including that attribute is a prefix of the bound
    string of the repository name. -/
theorem substring_iff_prefix (P T R : WFN) (a : Value) (hT : ∀ a ∈ T, a.kind = .any ∨ a.kind = .unset)
    (ha : ∃ x y, bindValue a = x ++ [y] ∧ trimSet y = false)
    (hV : valid (P ++ a :: T) ≠ .errUnset) (hR : valid R ≠ .errUnset) :
    substringMatch R (P ++ a :: T) = (bindFS (P ++ [a])).isPrefixOf (bindFS R) := by
  unfold substringMatch
  have e : P ++ a :: T = (P ++ [a]) ++ T := by simp
  rw [wfnString_eq _ hV, wfnString_eq _ hR, e, bindFS_append, trim_append_all _ _ (anyTail_trimmed T hT)]
  obtain ⟨x, y, hxy, hy⟩ := ha
  have : bindFS (P ++ [a]) = (bindFS P ++ 58 :: x) ++ [y] := by
    rw [bindFS_append]; simp [hxy]
  rw [this, trim_snoc_keep _ _ hy]

/-! ### histories of `Vulnerable` on shared values -/

/-- The verdict the property states: a function of the repository name of the
    vulnerability and of the record's repository CPE. -/
def vulnVerdict (name : Str) (record : WFN) : Bool :=
  match unbind name with
  | none => false
  | some v => gate v record

/-- The verdicts of a history computed from the current field values alone
    (what the vulnerability's repository holds is not tracked at all). -/
def vExpected : Str → WFN → List VOp → List Bool
  | _, _, [] => []
  | _, r, .name s :: ops => vExpected s r ops
  | n, r, .held _ :: ops => vExpected n r ops
  | n, _, .record w :: ops => vExpected n w ops
  | n, r, .call :: ops => vulnVerdict n r :: vExpected n r ops

theorem vulnCall_verdict (name : Str) (held record : WFN) : (vulnCall name held record).1 = vulnVerdict name record := by
  unfold vulnCall vulnVerdict
  cases unbind name <;> rfl

theorem vRun_eq_expected (st : HSt) (ops : List VOp) : vRun st ops = vExpected st.name st.record ops := by
  induction ops generalizing st with
  | nil => simp [vRun, vExpected]
  | cons op ops ih =>
    cases op with
    | name s => simp only [vRun, vOpStep, vExpected]; exact ih _
    | held w => simp only [vRun, vOpStep, vExpected]; exact ih _
    | record w => simp only [vRun, vOpStep, vExpected]; exact ih _
    | call =>
      simp only [vRun, vOpStep, vExpected, vulnCall_verdict]
      rw [ih]

end ClairModel.Cpe
