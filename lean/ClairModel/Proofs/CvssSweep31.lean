/-
  C18 — the complete v3.1 base space (2592 vectors), evaluated by the kernel:
  model score = published base score, OSV severity = rating of the score.
-/
import ClairModel.Proofs.Cvss

namespace ClairModel.Cvss

set_option maxRecDepth 100000 in
theorem sweep_v31 : sweep3 (stage1 1) (stage2 1) = true := by decide +kernel

end ClairModel.Cvss
