/-
  C11: paging through a directory handle (`(*dir).ReadDir(n)`).
-/
import ClairModel.Model.TarFSDir
set_option linter.unusedSimpArgs false
set_option linter.unusedVariables false
namespace ClairModel.TarFS

variable {α : Type}

/-- The number of entries a call hands out when something is left. -/
def pageLen (d : DirH α) (n : Int) : Nat :=
  if n ≤ 0 then d.es.length - d.pos else min (d.es.length - d.pos) n.toNat

theorem readDir_empty (d : DirH α) (n : Int) (h : d.es.length - d.pos = 0) :
    d.readDir n = (d, if n ≤ 0 then .entries [] else .eof) := by
  simp [DirH.readDir, h]

theorem readDir_nonempty (d : DirH α) (n : Int) (h : ¬ d.es.length - d.pos = 0) :
    d.readDir n = ({ d with pos := d.pos + pageLen d n }, .entries ((d.es.drop d.pos).take (pageLen d n))) := by
  simp [DirH.readDir, h, pageLen]

theorem pageLen_le (d : DirH α) (n : Int) : pageLen d n ≤ d.es.length - d.pos := by
  unfold pageLen
  split
  · exact Nat.le_refl _
  · exact Nat.min_le_left _ _

theorem readDir_es (d : DirH α) (n : Int) : (d.readDir n).1.es = d.es := by
  by_cases h : d.es.length - d.pos = 0
  · rw [readDir_empty d n h]
  · rw [readDir_nonempty d n h]

/-- `n ≤ 0`: everything that is left, in one slice, never an error. -/
theorem readDir_all (d : DirH α) (n : Int) (hn : n ≤ 0) :
    (d.readDir n).2 = .entries (d.es.drop d.pos) ∧ d.es.length ≤ (d.readDir n).1.pos := by
  by_cases h : d.es.length - d.pos = 0
  · rw [readDir_empty d n h]
    have : d.es.drop d.pos = [] := List.drop_eq_nil_of_le (by omega)
    exact ⟨by simp [hn, this], by show d.es.length ≤ d.pos; omega⟩
  · rw [readDir_nonempty d n h]
    have hpl : pageLen d n = d.es.length - d.pos := by simp [pageLen, hn]
    simp only [hpl]
    refine ⟨?_, by omega⟩
    congr 1
    apply List.take_of_length_le
    simp

/-- `n > 0`: at most `n` entries, the next ones in order; `io.EOF` exactly when
    nothing is left. -/
theorem readDir_page (d : DirH α) (n : Int) (hn : 0 < n) :
    (d.readDir n).2 = (if d.es.length ≤ d.pos then .eof else .entries ((d.es.drop d.pos).take n.toNat)) := by
  have hn' : ¬ n ≤ 0 := by omega
  by_cases h : d.es.length - d.pos = 0
  · rw [readDir_empty d n h]
    have : d.es.length ≤ d.pos := by omega
    simp [this, hn']
  · rw [readDir_nonempty d n h]
    have : ¬ d.es.length ≤ d.pos := by omega
    simp only [this, if_false, pageLen, hn']
    congr 1
    rw [List.take_eq_take_iff]
    simp
    omega

/-- What has been handed out so far is the part of the listing before the
    position. -/
def Consumed (d : DirH α) (out : List α) : Prop := d.pos ≤ d.es.length ∧ out = d.es.take d.pos

theorem readDir_consumed (d : DirH α) (n : Int) (out : List α) (h : Consumed d out) :
    (∃ es, (d.readDir n).2 = .entries es ∧ Consumed (d.readDir n).1 (out ++ es)) ∨
    ((d.readDir n).2 = .eof ∧ (d.readDir n).1 = d ∧ d.es.length ≤ d.pos ∧ 0 < n) := by
  obtain ⟨hp, hout⟩ := h
  by_cases he : d.es.length - d.pos = 0
  · rw [readDir_empty d n he]
    by_cases hn : n ≤ 0
    · left
      exact ⟨[], by simp [hn], hp, by simp [hout]⟩
    · right
      exact ⟨by simp [hn], rfl, by omega, by omega⟩
  · rw [readDir_nonempty d n he]
    left
    have hle := pageLen_le d n
    refine ⟨_, rfl, ?_, ?_⟩
    · show d.pos + pageLen d n ≤ d.es.length
      omega
    · show out ++ _ = d.es.take (d.pos + pageLen d n)
      rw [hout, ← List.take_add]

/-- Paging is complete and repeats nothing: whatever sequence of `n` is used
    (positive page sizes, 0, -1, other negative numbers, mixed), the entries
    handed out by the calls, concatenated, are a prefix of the listing, and no
    call panics. -/
theorem readPages_prefix : ∀ (ns : List Int) (d : DirH α) (out : List α), Consumed d out →
    ∃ k, k ≤ d.es.length ∧
      out ++ ((readPages d ns).flatMap Page.got) = d.es.take k ∧
      .panic ∉ readPages d ns := by
  intro ns
  induction ns with
  | nil => intro d out h; exact ⟨d.pos, h.1, by simp [readPages, h.2], by simp [readPages]⟩
  | cons n ns ih =>
    intro d out h
    have hes := readDir_es d n
    simp only [readPages]
    rcases readDir_consumed d n out h with ⟨es, hp, hc⟩ | ⟨hp, hd, hl, _⟩
    · obtain ⟨k, hk, hcat, hnp⟩ := ih (d.readDir n).1 (out ++ es) hc
      refine ⟨k, by rw [← hes]; exact hk, ?_, ?_⟩
      · simp only [List.flatMap_cons, hp, Page.got]
        rw [← List.append_assoc, hcat, hes]
      · simp only [List.mem_cons, not_or]
        exact ⟨(by rw [hp]; intro e; cases e), hnp⟩
    · obtain ⟨k, hk, hcat, hnp⟩ := ih (d.readDir n).1 out (by rw [hd]; exact h)
      refine ⟨k, by rw [← hes]; exact hk, ?_, ?_⟩
      · simp only [List.flatMap_cons, hp, Page.got, List.nil_append]
        rw [hcat, hes]
      · simp only [List.mem_cons, not_or]
        exact ⟨(by rw [hp]; intro e; cases e), hnp⟩

/-- `io.EOF` only when everything has been handed out. -/
theorem readDir_eof (d : DirH α) (n : Int) (h : (d.readDir n).2 = .eof) : d.es.length ≤ d.pos ∧ 0 < n := by
  by_cases he : d.es.length - d.pos = 0
  · rw [readDir_empty d n he] at h
    by_cases hn : n ≤ 0
    · simp [hn] at h
    · exact ⟨by omega, by omega⟩
  · rw [readDir_nonempty d n he] at h
    cases h

/-- The contract of io/fs that the code before 4525426c broke: `ReadDir(0)` on
    a fresh handle of a directory with entries returned no entry (and no error),
    and `ReadDir(-2)` indexed with a negative bound. -/
theorem readdir_zero_counterexample :
    (({ es := [1, 2, 3] } : DirH Nat).readDirLegacy 0).2 = .entries [] ∧
    (({ es := [1, 2, 3] } : DirH Nat).readDirLegacy (-2)).2 = .panic ∧
    (({ es := [1, 2, 3] } : DirH Nat).readDir 0).2 = .entries [1, 2, 3] ∧
    (({ es := [1, 2, 3] } : DirH Nat).readDir (-2)).2 = .entries [1, 2, 3] := by
  decide

end ClairModel.TarFS
