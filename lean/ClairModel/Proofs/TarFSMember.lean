/-
  C11: one member of a link-free archive through `add`, against the
  extraction reference.
-/
import ClairModel.Proofs.TarFSAdd
set_option linter.unusedSimpArgs false
set_option linter.unusedVariables false
namespace ClairModel.TarFS

/-! ### Members of a link-free archive -/

/-- walkTo, with or without create, arrives at a name that is a connected key. -/
theorem TreeOK.walkLoop_hit {skip : List Bytes} {fs : FS} (h : TreeOK skip fs) (mk : Option (FS → Bytes → FS)) :
    ∀ (rest done : List Bytes) (cur i : Nat), GoodComps (done ++ rest) →
      fs.get? (pathOf done) = some cur →
      (∀ pre suf, done ++ rest = pre ++ suf → pre ≠ [] → joinSlash pre ∉ skip) →
      fs.get? (pathOf (done ++ rest)) = some i → (fs.ino i).kind ≠ .sym →
      walkLoop mk fs cur (joinSlash done) done.isEmpty rest = (fs, .ok i) := by
  intro rest
  induction rest with
  | nil =>
    intro done cur i _ hcur _ hi _
    simp only [List.append_nil] at hi
    rw [hcur] at hi; cases hi
    simp [walkLoop]
  | cons n rest ih =>
    intro done cur i hg hcur hsk hi hisym
    have hg1 : GoodComps (done ++ [n]) := fun x hx => hg x (by simp at hx ⊢; rcases hx with hx | hx <;> simp [hx])
    have hg2 : GoodComps ((done ++ [n]) ++ rest) := by simpa [List.append_assoc] using hg
    have hfull : pathOf (done ++ n :: rest) = joinSlash ((done ++ [n]) ++ rest) := by
      simp [pathOf, List.append_assoc]
    have hskb : joinSlash (done ++ [n]) ∉ skip := hsk (done ++ [n]) rest (by simp) (by simp)
    have hskfull : joinSlash ((done ++ [n]) ++ rest) ∉ skip := hsk _ [] (by simp) (by simp)
    have hsk' : ∀ pre suf, (done ++ [n]) ++ rest = pre ++ suf → pre ≠ [] → joinSlash pre ∉ skip :=
      fun pre suf e hp => hsk pre suf (by simpa [List.append_assoc] using e) hp
    have hpath : pathOf (done ++ [n]) = joinSlash (done ++ [n]) := pathOf_snoc done n
    have hempty : (done ++ [n]).isEmpty = false := by simp
    rw [hfull] at hi
    -- the next prefix is a key
    obtain ⟨c, hb, hck⟩ : ∃ c, fs.get? (joinSlash (done ++ [n])) = some c ∧ (rest ≠ [] → (fs.ino c).kind = .dir) := by
      by_cases hr : rest = []
      · subst hr; exact ⟨i, by simpa using hi, fun h => absurd rfl h⟩
      · obtain ⟨c', hc, hk, _⟩ := h.prefix_dir rest (done ++ [n]) i hg2 (by simp) hr hi hskfull
        exact ⟨c', hc, fun _ => hk⟩
    simp only [walkLoop, joinSlash_done]
    rw [h.findChild_some hg1 hcur hb hskb]
    simp only
    by_cases hr : rest = []
    · subst hr
      simp only [List.append_nil] at hi
      rw [hb] at hi
      have hci : c = i := Option.some.inj hi
      subst hci
      rcases h.kinds _ c hb with ⟨hk, _⟩ | ⟨hk, _⟩
      · rw [(resolve_plain mk _ _ fs c).1 hk]; simp [walkLoop]
      · rw [(resolve_plain mk _ _ fs c).2 hk hisym]; simp [walkLoop]
    · rw [(resolve_plain mk rest.isEmpty _ fs c).1 (hck hr)]
      simp only
      have := ih (done ++ [n]) c i hg2 (by rw [hpath]; exact hb) hsk' (by simpa [pathOf] using hi) hisym
      rw [hempty] at this
      exact this

theorem prefixesAux_snoc (built : Bytes) (first : Bool) (l : List Bytes) (c : Bytes) :
    ∃ b, prefixesAux built first (l ++ [c]) = prefixesAux built first l ++ [b] := by
  induction l generalizing built first with
  | nil => exact ⟨if first = true then c else built ++ SL :: c, by simp [prefixesAux]⟩
  | cons x xs ih =>
    obtain ⟨b, hb⟩ := ih (if first = true then x else built ++ SL :: x) false
    exact ⟨b, by simp [prefixesAux, hb]⟩

theorem prefixesAux_length (built : Bytes) (first : Bool) (l : List Bytes) :
    (prefixesAux built first l).length = l.length := by
  induction l generalizing built first with
  | nil => rfl
  | cons x xs ih => simp [prefixesAux, ih]

/-- The proper prefixes of a name with elements `init ++ [c]` are the prefixes of `init`. -/
theorem prefixesOf_dropLast {init : List Bytes} {c : Bytes} (hg : GoodComps (init ++ [c])) :
    (prefixesOf (joinSlash (init ++ [c]))).dropLast = prefixesAux [] true init := by
  unfold prefixesOf
  rw [splitSlash_joinSlash _ (by simp) (fun x hx => (hg x hx).2)]
  obtain ⟨b, hb⟩ := prefixesAux_snoc [] true init c
  rw [hb, List.dropLast_concat]

/-- Every name `mkdir -p` touches is in the list; the others keep their node. -/
theorem xMkdirs_frame : ∀ (ds : List Bytes) (t t' : XTree), xMkdirs t ds = some t' →
    ∀ k, k ∉ ds → alGet t' k = alGet t k := by
  intro ds
  induction ds with
  | nil => intro t t' h k _; simp [xMkdirs] at h; subst h; rfl
  | cons d ds ih =>
    intro t t' h k hk
    simp only [List.mem_cons, not_or] at hk
    simp only [xMkdirs] at h
    split at h
    · rw [ih _ _ h k hk.2, alGet_alSet]; simp [Ne.symm hk.1]
    · exact ih _ _ h k hk.2
    · cases h


theorem prefixesAux_mem : ∀ (rest done pre suf : List Bytes), rest = pre ++ suf → pre ≠ [] →
    joinSlash (done ++ pre) ∈ prefixesAux (joinSlash done) done.isEmpty rest := by
  intro rest
  induction rest with
  | nil => intro done pre suf e hp; cases pre <;> simp at e hp
  | cons n rest ih =>
    intro done pre suf e hp
    cases pre with
    | nil => exact absurd rfl hp
    | cons x pre' =>
      simp only [List.cons_append, List.cons.injEq] at e
      obtain ⟨rfl, e⟩ := e
      simp only [prefixesAux, joinSlash_done, List.mem_cons]
      by_cases hp' : pre' = []
      · subst hp'; left; rfl
      · right
        have hempty : (done ++ [n]).isEmpty = false := by simp
        have := ih (done ++ [n]) pre' suf e hp'
        rw [hempty] at this
        simpa [List.append_assoc] using this

/-- `mkdir -p` succeeds only on names that are missing or directories. -/
theorem xMkdirs_ok_elems : ∀ (ds : List Bytes) (t t1 : XTree), xMkdirs t ds = some t1 →
    ∀ d ∈ ds, alGet t d = none ∨ alGet t d = some .dir := by
  intro ds
  induction ds with
  | nil => intro t t1 _ d hd; simp at hd
  | cons d0 ds ih =>
    intro t t1 hx d hd
    simp only [xMkdirs] at hx
    simp only [List.mem_cons] at hd
    cases h0 : alGet t d0 with
    | none =>
      simp only [h0] at hx
      rcases hd with rfl | hd
      · exact Or.inl h0
      · have := ih _ _ hx d hd
        rw [alGet_alSet] at this
        by_cases e : d0 = d
        · subst e; exact Or.inl h0
        · simpa [e] using this
    | some node =>
      cases node with
      | dir =>
        simp only [h0] at hx
        rcases hd with rfl | hd
        · exact Or.inr h0
        · exact ih _ _ hx d hd
      | file x => simp [h0] at hx
      | sym x => simp [h0] at hx
      | hard x => simp [h0] at hx
      | special => simp [h0] at hx

/-- The `AddEnt:` loop for a registered, not yet connected name `n` whose
    directory path holds no regular file: it connects `n` to its directory,
    having made the missing directories. -/
theorem addEnt_plain (fuel f : Nat) {fs1 : FS} {init : List Bytes} {c : Bytes} (len : Nat) {t t1 : XTree}
    (h : TreeOK [joinSlash (init ++ [c])] fs1) (hrep : Rep [joinSlash (init ++ [c])] fs1 t)
    (hg : GoodComps (init ++ [c])) (hu : ∀ x ∈ init ++ [c], ValidU x)
    (hx : xMkdirs t (prefixesAux [] true init) = some t1) :
    ∃ fs2 j, addEnt (mkdirFn fuel) len (joinSlash (init ++ [c])) (f + 1) fs1 [] (dirOf (joinSlash (init ++ [c]))) =
        (fs2.linkChild j len, none) ∧
      TreeOK [joinSlash (init ++ [c])] fs2 ∧ Rep [joinSlash (init ++ [c])] fs2 t1 ∧ Ext fs1 fs2 ∧
      fs2.get? (dirOf (joinSlash (init ++ [c]))) = some j ∧ (fs2.ino j).kind = .dir := by
  have hnc : Contained (joinSlash (init ++ [c])) := contained_joinSlash (by simp) hg hu
  have hnd : joinSlash (init ++ [c]) ≠ dotP := joinSlash_ne_dot (by simp) hg
  have hdne := dirOf_ne_self hnc hnd
  have hdir : dirOf (joinSlash (init ++ [c])) = pathOf init := dirOf_snoc hg
  rw [addEnt]
  simp only [hdne, if_false]
  by_cases hi : init = []
  · -- directly below the root
    subst hi
    have hd0 : dirOf (joinSlash ([] ++ [c])) = dotP := by rw [hdir]; rfl
    simp only [prefixesAux, xMkdirs, Option.some.injEq] at hx
    subst hx
    simp only [hd0, if_true]
    have hroot : fs1.getD dotP = 0 := by
      have : alGet fs1.lookup dotP = some 0 := h.root
      simp [FS.getD, this]
    rw [hroot]
    exact ⟨fs1, 0, rfl, h, hrep, Ext.refl fs1, h.root, h.rootDir⟩
  · have hgi : GoodComps init := fun x hx => hg x (by simp [hx])
    have hui : ∀ x ∈ init, ValidU x := fun x hx => hu x (by simp [hx])
    have hdd : dirOf (joinSlash (init ++ [c])) ≠ dotP := by
      rw [hdir]; simp only [pathOf, hi, if_false]; exact joinSlash_ne_dot hi hgi
    have hdj : dirOf (joinSlash (init ++ [c])) = joinSlash init := by rw [hdir]; simp [pathOf, hi]
    have hdc : Contained (joinSlash init) := contained_joinSlash hi hgi hui
    have hsk : ∀ pre suf, init = pre ++ suf → pre ≠ [] → joinSlash pre ∉ [joinSlash (init ++ [c])] := by
      intro pre suf e hp
      simp only [List.mem_singleton]
      exact prefix_ne_self hg e hp
    have hsplit : splitSlash (joinSlash init) = init := splitSlash_joinSlash init hi (fun x hx => (hgi x hx).2)
    simp only [hdd, if_false]
    have hroot : fs1.getD dotP = 0 := by
      have : alGet fs1.lookup dotP = some 0 := h.root
      simp [FS.getD, this]
    -- what walkTo in create mode arrives at
    obtain ⟨fs2, j, hw, hT, hR, hE, hget2, hkind⟩ :=
      walk_create (skip := [joinSlash (init ++ [c])]) fuel (by simp; exact fun e => hnd e.symm)
        init [] fs1 0 t t1 h hrep (by simpa using hgi) (by simpa using hui)
        (by simpa [pathOf] using h.root) h.rootDir (by simpa using hsk) (by simpa [joinSlash] using hx)
    simp only [joinSlash, List.isEmpty_nil] at hw
    have hget2' : fs2.get? (dirOf (joinSlash (init ++ [c]))) = some j := by
      rw [hdj]; simpa [pathOf, hi] using hget2
    have hdc' : Contained (dirOf (joinSlash (init ++ [c]))) := by rw [hdj]; exact hdc
    -- every prefix of the directory that is a key is a directory
    have hkd : ∀ pre suf, init = pre ++ suf → pre ≠ [] → ∀ i, fs1.get? (joinSlash pre) = some i →
        (fs1.ino i).kind = .dir := by
      intro pre suf e hp i hgi'
      have hm := prefixesAux_mem init [] pre suf e hp
      simp only [List.nil_append, joinSlash, List.isEmpty_nil] at hm
      have hnode := hrep (joinSlash pre) (hsk pre suf e hp)
      simp only [FS.node?, hgi'] at hnode
      rcases xMkdirs_ok_elems _ _ _ hx _ hm with hn | hn
      · rw [hn] at hnode; cases hnode
      · rw [hn] at hnode
        exact (inoNode_dir_iff _).1 (Option.some.inj hnode)
    rw [h.getInode_eq hdc' (by rw [hdj, hsplit]; exact hsk)
      (by rw [hdj, hsplit]; intro pre suf e hp _ i hgi'; rw [hkd pre suf e hp i hgi']; simp)]
    rw [hdj]
    cases hget : fs1.get? (joinSlash init) with
    | some j' =>
      -- found: the walk would have changed nothing
      have hhit := h.walkLoop_hit (some (mkdirFn fuel)) init [] 0 j' (by simpa using hgi)
        (by simpa [pathOf] using h.root) (by simpa using hsk) (by simpa [pathOf, hi] using hget)
        (by rw [hkd init [] (by simp) hi j' hget]; simp)
      simp only [joinSlash, List.isEmpty_nil] at hhit
      rw [hhit] at hw
      simp only [Prod.mk.injEq, Except.ok.injEq] at hw
      obtain ⟨rfl, rfl⟩ := hw
      simp only [List.not_mem_nil, if_false, hkind]
      exact ⟨fs1, j', rfl, hT, hR, hE, hdj ▸ hget2', hkind⟩
    | none =>
      simp only [walkTo, hroot, hsplit, hw, List.not_mem_nil, if_false, hkind]
      exact ⟨fs2, j, rfl, hT, hR, hE, hdj ▸ hget2', hkind⟩


theorem node?_linkChild (fs : FS) {j : Nat} {cs : List Nat} (i : Nat) (hcs : (fs.ino j).children = some cs)
    (k : Bytes) : (fs.linkChild j i).node? k = fs.node? k := by
  simp only [FS.node?, linkChild_get]
  cases fs.get? k with
  | none => rfl
  | some t =>
    simp only [linkChild_ino fs i t hcs]
    split
    · rename_i e; subst e; rfl
    · rfl

/-- A new directory or regular-file member: `add` registers it, makes the
    missing directories and connects it; the view then presents the reference
    tree with the member inserted. -/
theorem add_member_fresh (fuel : Nat) {fs : FS} {t t1 : XTree} {init : List Bytes} {c : Bytes} {ino : Inode}
    (hl : HL) (u : Bool)
    (h : TreeOK [] fs) (hrep : Rep [] fs t)
    (hg : GoodComps (init ++ [c])) (hu : ∀ x ∈ init ++ [c], ValidU x)
    (hfresh : fs.get? (joinSlash (init ++ [c])) = none)
    (hleaf : LeafIno ino) (hxl : (ino.kind = .sym ∨ ino.kind = .link) → Contained ino.link)
    (hlk : ino.kind = .link → (fs.get? ino.link).isSome = true)
    (hx : xMkdirs t (prefixesAux [] true init) = some t1) :
    ∃ fs', add (fuel + 2) fs hl (joinSlash (init ++ [c])) ino u =
        (fs', if u then alDel hl (joinSlash (init ++ [c])) else hl, none) ∧
      TreeOK [] fs' ∧ Rep [] fs' (alSet t1 (joinSlash (init ++ [c])) (inoNode ino)) := by
  have hnc : Contained (joinSlash (init ++ [c])) := contained_joinSlash (by simp) hg hu
  have hnd : joinSlash (init ++ [c]) ≠ dotP := joinSlash_ne_dot (by simp) hg
  have hleaf' : LeafIno { ino with name := joinSlash (init ++ [c]) } := hleaf
  -- registered, not yet connected
  have h1 := h.pend hnc hfresh (x := { ino with name := joinSlash (init ++ [c]) }) rfl hleaf' hxl
  have hrep1 : Rep [joinSlash (init ++ [c])] (fs.pend (joinSlash (init ++ [c])) { ino with name := joinSlash (init ++ [c]) }) t := by
    intro k hk
    simp only [List.mem_singleton] at hk
    rw [← hrep k (by simp)]
    simp only [FS.node?, pend_get, Ne.symm hk, if_false]
    cases hgk : fs.get? k with
    | none => rfl
    | some i => simp only; rw [pend_ino_lt fs _ _ (h.named k i hgk).2]
  rw [show fuel + 2 = (fuel + 1) + 1 from rfl, add]
  simp only [again_fresh hfresh]
  have hl1 : (if (u && decide (ino.kind = Kind.link) && (fs.get? ino.link).isNone) = true then
      alSet hl ino.link ((alGet hl ino.link).getD [] ++ [joinSlash (init ++ [c])]) else hl) = hl := by
    by_cases hk : ino.kind = .link
    · have := hlk hk
      cases hg : fs.get? ino.link <;> simp [hg] at this ⊢
    · simp [hk]
  simp only [hl1]
  obtain ⟨f, hf⟩ : ∃ f, 2 * (fs.inodes ++ [{ ino with name := joinSlash (init ++ [c]) }]).length + 8 = f + 1 := ⟨_, rfl⟩
  rw [hf]
  obtain ⟨fs2, j, hent, hT, hR, hE, hget, hkind⟩ :=
    addEnt_plain fuel f fs.inodes.length h1 hrep1 hg hu hx
  have hent' : addEnt (fun f p => (add (fuel + 1) f [] p (newDir p) false).1) fs.inodes.length
      (joinSlash (init ++ [c])) (f + 1)
      { lookup := alSet fs.lookup (joinSlash (init ++ [c])) fs.inodes.length,
        inodes := fs.inodes ++ [{ ino with name := joinSlash (init ++ [c]) }] } []
      (dirOf (joinSlash (init ++ [c]))) = (fs2.linkChild j fs.inodes.length, none) := hent
  rw [hent']
  -- the pending key survived the walk
  have hpk : fs2.get? (joinSlash (init ++ [c])) = some fs.inodes.length ∧
      (fs2.ino fs.inodes.length).kind = ino.kind ∧ (fs2.ino fs.inodes.length).data = ino.data ∧
      (fs2.ino fs.inodes.length).link = ino.link := by
    have := hE (joinSlash (init ++ [c])) fs.inodes.length (by rw [pend_get]; simp)
    rw [pend_ino_len] at this
    exact this
  obtain ⟨cs, hcs⟩ : ∃ cs, (fs2.ino j).children = some cs := by
    rcases hT.kinds _ j hget with ⟨_, hc⟩ | ⟨hk, _⟩
    · exact hc
    · exact absurd hkind hk
  have hdne := dirOf_ne_self hnc hnd
  refine ⟨_, rfl, ?_, ?_⟩
  · exact hT.connect hpk.1 hnd (by simp) hget (by simp) hkind hcs
  · intro k _
    rw [node?_linkChild fs2 _ hcs, alGet_alSet]
    by_cases hk : joinSlash (init ++ [c]) = k
    · subst hk
      simp only [if_true, FS.node?, hpk.1]
      rw [inoNode_congr hpk.2.1 hpk.2.2.1 hpk.2.2.2]
    · simp only [hk, if_false]
      exact hR k (by simp [Ne.symm hk])


theorem mem_prefixesAux : ∀ (rest done : List Bytes) (d : Bytes),
    d ∈ prefixesAux (joinSlash done) done.isEmpty rest →
    ∃ pre suf, rest = pre ++ suf ∧ pre ≠ [] ∧ d = joinSlash (done ++ pre) := by
  intro rest
  induction rest with
  | nil => intro done d h; simp [prefixesAux] at h
  | cons n rest ih =>
    intro done d h
    simp only [prefixesAux, joinSlash_done, List.mem_cons] at h
    rcases h with rfl | h
    · exact ⟨[n], rest, rfl, by simp, rfl⟩
    · have hempty : (done ++ [n]).isEmpty = false := by simp
      rw [← hempty] at h
      obtain ⟨pre, suf, e, hp, hd⟩ := ih (done ++ [n]) d h
      exact ⟨n :: pre, suf, by rw [e]; rfl, by simp, by rw [hd]; simp⟩

theorem xMkdirs_all_dirs : ∀ (ds : List Bytes) (t : XTree), (∀ d ∈ ds, alGet t d = some .dir) → xMkdirs t ds = some t := by
  intro ds
  induction ds with
  | nil => intro t _; rfl
  | cons d ds ih =>
    intro t h
    simp only [xMkdirs, h d (by simp)]
    exact ih t (fun x hx => h x (by simp [hx]))

/-- When the name is already a key, `mkdir -p` of its directory changes nothing in the reference. -/
theorem xMkdirs_existing {fs : FS} {t : XTree} {init : List Bytes} {c : Bytes} {i : Nat}
    (h : TreeOK [] fs) (hrep : Rep [] fs t) (hg : GoodComps (init ++ [c]))
    (hi : fs.get? (joinSlash (init ++ [c])) = some i) :
    xMkdirs t (prefixesAux [] true init) = some t := by
  apply xMkdirs_all_dirs
  intro d hd
  obtain ⟨pre, suf, e, hp, rfl⟩ := mem_prefixesAux init [] d (by simpa [joinSlash] using hd)
  simp only [List.nil_append]
  obtain ⟨j, hj, hk, _⟩ := h.prefix_dir (suf ++ [c]) pre i (by rw [← List.append_assoc, ← e]; exact hg)
    hp (by simp) (by rw [← List.append_assoc, ← e]; exact hi) (by simp)
  rw [← hrep _ (by simp)]
  simp [FS.node?, hj, inoNode, hk]

/-- A regular file over an existing regular file: the inode is replaced in place. -/
theorem add_member_replace (fuel : Nat) {fs : FS} {t : XTree} {init : List Bytes} {c : Bytes} {ino : Inode} {i : Nat}
    (hl : HL) (u : Bool)
    (h : TreeOK [] fs) (hrep : Rep [] fs t)
    (hg : GoodComps (init ++ [c])) (hu : ∀ x ∈ init ++ [c], ValidU x)
    (hi : fs.get? (joinSlash (init ++ [c])) = some i) (hik : (fs.ino i).kind = .reg)
    (hleaf : ino.kind = .reg ∧ ino.children = none ∧ ∃ d, ino.data = some d) :
    ∃ fs', add (fuel + 1) fs hl (joinSlash (init ++ [c])) ino u = (fs', hl, none) ∧
      TreeOK [] fs' ∧ Rep [] fs' (alSet t (joinSlash (init ++ [c])) (inoNode ino)) := by
  have hnc : Contained (joinSlash (init ++ [c])) := contained_joinSlash (by simp) hg hu
  have hnd : joinSlash (init ++ [c]) ≠ dotP := joinSlash_ne_dot (by simp) hg
  have hag := again_over_file fs ino.kind fs.inodes.length _ i hi (by simp [hleaf.1, Kind.mtype])
    (by simp [hik, Kind.mtype])
  rw [add]
  simp only [hag]
  refine ⟨_, rfl, ?_, ?_⟩
  · -- tree consistency
    have hil := (h.named _ i hi).2
    have hi0 : i ≠ 0 := by
      intro e; subst e
      have h1 := (h.named _ 0 hi).1
      have h2 := (h.named _ 0 h.root).1
      exact hnd (h1 ▸ h2)
    have hset : ∀ t', t' ≠ i → ({ fs with inodes := fs.inodes.set i { ino with name := joinSlash (init ++ [c]) } } : FS).ino t' = fs.ino t' :=
      fun t' ht => ino_set_ne fs _ ht
    have hseti : ({ fs with inodes := fs.inodes.set i { ino with name := joinSlash (init ++ [c]) } } : FS).ino i =
        { ino with name := joinSlash (init ++ [c]) } := ino_set_eq fs _ hil
    have hnone : (fs.ino i).children = none := by
      rcases h.kinds _ i hi with ⟨hk, _⟩ | ⟨_, hc, _⟩
      · rw [hik] at hk; cases hk
      · exact hc
    constructor
    · exact h.inv.setIno i _ ⟨hnc, by simp [hleaf.1]⟩
    · exact h.root
    · rw [hset 0 (Ne.symm hi0)]; exact h.rootDir
    · intro t' ht'
      have ht'' : t' < fs.inodes.length := by simpa using ht'
      exact h.keyed t' ht''
    · intro k t' hk
      have hk' : fs.get? k = some t' := hk
      by_cases ht : t' = i
      · subst ht
        rw [hseti]
        have : k = joinSlash (init ++ [c]) := by rw [← (h.named k t' hk').1, (h.named _ t' hi).1]
        exact ⟨this.symm, by simpa using (h.named k t' hk').2⟩
      · rw [hset t' ht]
        exact ⟨(h.named k t' hk').1, by simpa using (h.named k t' hk').2⟩
    · intro k t' hk
      have hk' : fs.get? k = some t' := hk
      by_cases ht : t' = i
      · subst ht; rw [hseti]
        exact Or.inr ⟨by simp [hleaf.1], hleaf.2.1, fun _ => hleaf.2.2⟩
      · rw [hset t' ht]; exact h.kinds k t' hk'
    · intro k t' hk hkd hks
      have hk' : fs.get? k = some t' := hk
      obtain ⟨j, cs, hj, hjs, hjd, hcs, hm⟩ := h.up k t' hk' hkd hks
      have hji : j ≠ i := by intro e; subst e; rw [hik] at hjd; cases hjd
      exact ⟨j, cs, hj, hjs, by rw [hset j hji]; exact hjd, by rw [hset j hji]; exact hcs, hm⟩
    · intro k j cs hk hcs c' hc'
      have hk' : fs.get? k = some j := hk
      by_cases hji : j = i
      · subst hji; rw [hseti] at hcs; simp [hleaf.2.1] at hcs
      · rw [hset j hji] at hcs
        exact h.down k j cs hk' hcs c' hc'
  · intro k _
    rw [alGet_alSet]
    have hil := (h.named _ i hi).2
    by_cases hk : joinSlash (init ++ [c]) = k
    · subst hk
      simp only [if_true, FS.node?]
      have : ({ fs with inodes := fs.inodes.set i { ino with name := joinSlash (init ++ [c]) } } : FS).get?
          (joinSlash (init ++ [c])) = some i := hi
      rw [this]
      simp only
      rw [ino_set_eq fs _ hil]
      rfl
    · simp only [hk, if_false]
      rw [← hrep k (by simp)]
      simp only [FS.node?]
      have hgk : ({ fs with inodes := fs.inodes.set i { ino with name := joinSlash (init ++ [c]) } } : FS).get? k = fs.get? k := rfl
      rw [hgk]
      cases hg' : fs.get? k with
      | none => rfl
      | some t' =>
        simp only
        have : t' ≠ i := by
          intro e; subst e
          exact hk (by rw [← (h.named _ t' hi).1, (h.named k t' hg').1])
        rw [ino_set_ne fs _ this]

end ClairModel.TarFS
