/-
  Manager.Start as a layer over the run machine (Model/ManagerStart.lean):
  every reachable inner state is reachable in the run machine alone, and the
  loop invariant (one owned run at a time, tied to the loop position).
  The property theorems are in Props/C13.lean.
-/
import ClairModel.Proofs.ManagerObs
import ClairModel.Model.ManagerStart

namespace ClairModel.MgrStart
open ClairModel ClairModel.Manager

abbrev sreach (se : SEnv) (hist : List Op) (sevs : List SEv) : SState :=
  Sm.run (sstep se) (sinit hist) sevs

/-! ### the layer only drives the run machine -/

/-- One event of the layer is zero, one or two events of the run machine. -/
theorem sstep_inner (se : SEnv) (st : SState) (ev : SEv) :
    ∃ es : List Ev, (sstep se st ev).1.m = Sm.run (step se.env) st.m es := by
  cases ev with
  | sbegin s =>
    simp only [sstep]; split
    · split <;> exact ⟨[], rfl⟩
    · exact ⟨[], rfl⟩
  | tick s => simp only [sstep]; split <;> exact ⟨[], rfl⟩
  | sret s =>
    simp only [sstep]; split
    · split <;> exact ⟨[], rfl⟩
    · exact ⟨[], rfl⟩
  | scancel s =>
    simp only [sstep]; split
    · rename_i k r _; exact ⟨[.cancel r], rfl⟩
    · exact ⟨[], rfl⟩
  | inner e =>
    cases e with
    | begin r =>
      simp only [sstep]; split
      · exact ⟨[.begin r], rfl⟩
      · split
        · split
          · exact ⟨[], rfl⟩
          · rename_i s _ _ _ _ _
            by_cases hd : st.sdead s = true
            · exact ⟨[.cancel r, .begin r], by simp [startCtx, hd, SState.setStart]⟩
            · exact ⟨[.begin r], by simp [startCtx, hd, SState.setStart]⟩
        · exact ⟨[], rfl⟩
    | ret r =>
      simp only [sstep]; split
      · exact ⟨[.ret r], rfl⟩
      · split
        · split
          · exact ⟨[.ret r], rfl⟩
          · exact ⟨[], rfl⟩
        · exact ⟨[], rfl⟩
    | cancel r =>
      simp only [sstep]; split
      · exact ⟨[.cancel r], rfl⟩
      · exact ⟨[], rfl⟩
    | acquire r => exact ⟨[.acquire r], rfl⟩
    | launch r => exact ⟨[.launch r], rfl⟩
    | wait r => exact ⟨[.wait r], rfl⟩
    | drained r => exact ⟨[.drained r], rfl⟩
    | tryLock r i => exact ⟨[.tryLock r i], rfl⟩
    | getOps r i => exact ⟨[.getOps r i], rfl⟩
    | fetch r i => exact ⟨[.fetch r i], rfl⟩
    | parse r i => exact ⟨[.parse r i], rfl⟩
    | store r i => exact ⟨[.store r i], rfl⟩
    | close r i => exact ⟨[.close r i], rfl⟩
    | status r i => exact ⟨[.status r i], rfl⟩
    | done r i => exact ⟨[.done r i], rfl⟩
    | gcTry r => exact ⟨[.gcTry r], rfl⟩
    | gc r => exact ⟨[.gc r], rfl⟩
    | gcDone r => exact ⟨[.gcDone r], rfl⟩

/-- The runs Start makes are runs of the run machine: whatever the layer
    reaches, the run machine reaches on its own. -/
theorem sreach_inner (se : SEnv) (hist : List Op) (sevs : List SEv) :
    ∃ evs : List Ev, (sreach se hist sevs).m = Sm.run (step se.env) (init hist) evs := by
  have key : ∀ (sevs : List SEv) (st : SState) (pre : List Ev), st.m = Sm.run (step se.env) (init hist) pre →
      ∃ evs, (Sm.run (sstep se) st sevs).m = Sm.run (step se.env) (init hist) evs := by
    intro sevs
    induction sevs with
    | nil => intro st pre h; exact ⟨pre, h⟩
    | cons ev sevs ih =>
      intro st pre h
      obtain ⟨es, hes⟩ := sstep_inner se st ev
      rw [Sm.run_cons]
      exact ih _ (pre ++ es) (by rw [hes, h, Sm.run_append])
  exact key sevs (sinit hist) [] rfl

/-! ### what a step of the run machine does to one run's program counter -/

set_option linter.unusedSimpArgs false in
/-- Only `begin r` takes run `r` out of `notStarted`, only `ret r` puts it
    into `returned`; nothing moves it out of `returned`. -/
theorem run_pc_step (env : Env) (m : State) (ev : Ev) (r : Nat) :
    ((step env m ev).1.run r).pc = (m.run r).pc ∨
    (ev = .begin r ∧ (m.run r).pc = .notStarted ∧ ((step env m ev).1.run r).pc = .top) ∨
    (ev = .ret r ∧ ((step env m ev).1.run r).pc = .returned ∧ active m r = true) ∨
    (active m r = true ∧ active (step env m ev).1 r = true) := by
  cases ev <;> simp only [step] <;> repeat' split
  all_goals first
    | exact Or.inl rfl
    | exact Or.inl trivial
    | (simp only [setRun_run, setPc_run, setBody_run, finish_run, gcFinish_run, active]
       split
       · rename_i he; subst he; simp_all
       · exact Or.inl rfl)
    | (simp only [State.setPc, State.setRun, State.setBody, active]
       split
       · rename_i he; subst he; simp_all
       · exact Or.inl rfl)

theorem active_step (env : Env) (m : State) (ev : Ev) (r : Nat) (hb : ev ≠ .begin r) (hr : ev ≠ .ret r) :
    active (step env m ev).1 r = active m r := by
  rcases run_pc_step env m ev r with h | h | h | h
  · simp only [active, h]
  · exact absurd h.1 hb
  · exact absurd h.1 hr
  · rw [h.1, h.2]

theorem not_started_step (env : Env) (m : State) (ev : Ev) (r : Nat) (hb : ev ≠ .begin r)
    (h : (m.run r).pc = .notStarted) : ((step env m ev).1.run r).pc = .notStarted := by
  rcases run_pc_step env m ev r with h' | h' | h' | h'
  · rw [h', h]
  · exact absurd h'.1 hb
  · have := h'.2.2; simp [active, h] at this
  · have := h'.1; simp [active, h] at this

theorem begin_bad_or_top (env : Env) (m : State) (r : Nat) :
    ((step env m (.begin r)).2 = .bad ∧ (step env m (.begin r)).1 = m) ∨
    ((m.run r).pc = .notStarted ∧ ((step env m (.begin r)).1.run r).pc = .top) := by
  simp only [step]; split
  · rename_i h; right; exact ⟨h, by simp⟩
  · left; exact ⟨rfl, rfl⟩

theorem ret_bad_or_returned (env : Env) (m : State) (r : Nat) :
    ((step env m (.ret r)).2 = .bad ∧ (step env m (.ret r)).1 = m) ∨
    (active m r = true ∧ ((step env m (.ret r)).1.run r).pc = .returned) := by
  simp only [step]; split
  · rename_i h
    split
    · left; exact ⟨rfl, rfl⟩
    · right; exact ⟨by simp [active, h], by simp⟩
  · rename_i h; right; exact ⟨by simp [active, h], by simp⟩
  · left; exact ⟨rfl, rfl⟩

/-! ### the loop invariant -/

structure InvSt (se : SEnv) (st : SState) : Prop where
  /-- an owned run that is between `begin` and `ret` is the current run of its Start call -/
  own : ∀ r s, se.owner r = some s → active st.m r = true → ∃ k, st.start s = .inRun k (some r)
  /-- the current run of a Start call is one of its own, and has begun -/
  cur : ∀ s k r, st.start s = .inRun k (some r) → se.owner r = some s ∧ active st.m r = true
  /-- before Start is called, and after the interval error, none of its runs has begun -/
  fresh : ∀ s, (st.start s = .idle ∨ st.start s = .returned false) →
    ∀ r, se.owner r = some s → (st.m.run r).pc = .notStarted
  /-- Start returns ctx.Err() only when its context is cancelled -/
  ret : ∀ s, st.start s = .returned true → st.sdead s = true
  /-- the interval error is returned only without an interval, the loop is entered only with one -/
  ival : ∀ s, (st.start s = .returned false → se.interval s = 0) ∧
    ((∃ k c, st.start s = .inRun k c) ∨ (∃ k, st.start s = .selecting k) ∨ st.start s = .returned true →
      se.interval s ≠ 0)
  /-- a run in progress shares the fate of Start's context -/
  deadRun : ∀ r s, se.owner r = some s → st.sdead s = true → active st.m r = true → dead st.m r = true

theorem invSt_init (se : SEnv) (hist : List Op) : InvSt se (sinit hist) := by
  constructor
  · intro r s _ h; simp [sinit, active, init] at h
  · intro s k r h; simp [sinit] at h
  · intro s _ r _; rfl
  · intro s h; simp [sinit] at h
  · intro s; simp [sinit]
  · intro r s _ h; simp [sinit] at h

theorem setStart_start (st : SState) (s : Nat) (p : SPc) (s' : Nat) :
    (st.setStart s p).start s' = if s' = s then p else st.start s' := rfl

@[simp] theorem setStart_m (st : SState) (s : Nat) (p : SPc) : (st.setStart s p).m = st.m := rfl
@[simp] theorem setStart_sdead (st : SState) (s : Nat) (p : SPc) : (st.setStart s p).sdead = st.sdead := rfl

/-- A step of the layer that leaves the run machine alone and moves one Start
    call between positions that have no current run. -/
theorem invSt_move {se : SEnv} {st : SState} (h : InvSt se st) (s0 : Nat) (p : SPc)
    (hnoCur : ∀ k r, st.start s0 ≠ .inRun k (some r))
    (hp : ∀ k r, p ≠ .inRun k (some r))
    (hfresh : (p = .idle ∨ p = .returned false) → (st.start s0 = .idle ∨ st.start s0 = .returned false))
    (hret : p = .returned true → st.sdead s0 = true)
    (hival : (p = .returned false → se.interval s0 = 0) ∧
      ((∃ k c, p = .inRun k c) ∨ (∃ k, p = .selecting k) ∨ p = .returned true → se.interval s0 ≠ 0)) :
    InvSt se (st.setStart s0 p) := by
  constructor
  · intro r s ho ha
    simp only [setStart_m] at ha
    obtain ⟨k, hk⟩ := h.own r s ho ha
    rw [setStart_start]; split
    · rename_i he; subst he; exact absurd hk (hnoCur k r)
    · exact ⟨k, hk⟩
  · intro s k r hs
    rw [setStart_start] at hs
    split at hs
    · exact absurd hs (hp k r)
    · exact h.cur s k r hs
  · intro s hs r ho
    rw [setStart_start] at hs
    split at hs
    · rename_i he; subst he; exact h.fresh _ (hfresh hs) r ho
    · exact h.fresh s hs r ho
  · intro s hs
    rw [setStart_start] at hs
    split at hs
    · rename_i he; subst he; exact hret hs
    · exact h.ret s hs
  · intro s
    rw [setStart_start]; split
    · rename_i he; subst he; exact hival
    · exact h.ival s
  · intro r s ho hd ha; exact h.deadRun r s ho hd ha

/-- A step of the run machine on a run the layer does not sequence (or that
    is neither `begin` nor `ret` of an owned run). -/
theorem invSt_inner {se : SEnv} {st : SState} (h : InvSt se st) (e : Ev)
    (hb : ∀ r s, se.owner r = some s → e ≠ .begin r) (hr : ∀ r s, se.owner r = some s → e ≠ .ret r) :
    InvSt se { st with m := (step se.env st.m e).1 } := by
  constructor
  · intro r s ho ha
    have : active (step se.env st.m e).1 r = active st.m r := active_step _ _ _ _ (hb r s ho) (hr r s ho)
    simp only at ha
    rw [this] at ha
    exact h.own r s ho ha
  · intro s k r hs
    obtain ⟨ho, ha⟩ := h.cur s k r hs
    refine ⟨ho, ?_⟩
    show active (step se.env st.m e).1 r = true
    rw [active_step _ _ _ _ (hb r s ho) (hr r s ho)]; exact ha
  · intro s hs r ho
    exact not_started_step _ _ _ _ (hb r s ho) (h.fresh s hs r ho)
  · exact h.ret
  · exact h.ival
  · intro r s ho hd ha
    have : active (step se.env st.m e).1 r = active st.m r := active_step _ _ _ _ (hb r s ho) (hr r s ho)
    simp only at ha
    rw [this] at ha
    exact dead_step _ _ _ _ (h.deadRun r s ho hd ha)

theorem dead_cancel (env : Env) (m : State) (r : Nat) : dead (step env m (.cancel r)).1 r = true := by
  simp [step, dead, cancel_dead]

theorem invSt_step {se : SEnv} {st : SState} (h : InvSt se st) (ev : SEv) : InvSt se (sstep se st ev).1 := by
  cases ev with
  | sbegin s =>
    simp only [sstep]; split
    · rename_i hs
      split
      · rename_i hi
        exact invSt_move h s _ (by intro k r; rw [hs]; intro hh; cases hh) (by intro k r hh; cases hh)
          (fun _ => Or.inl hs) (by intro hh; cases hh)
          ⟨fun _ => hi, (by rintro (⟨k, c, hh⟩ | ⟨k, hh⟩ | hh) <;> cases hh)⟩
      · rename_i hi
        exact invSt_move h s _ (by intro k r; rw [hs]; intro hh; cases hh) (by intro k r hh; cases hh)
          (by rintro (hh | hh) <;> cases hh) (by intro hh; cases hh)
          ⟨(by intro hh; cases hh), fun _ => hi⟩
    · exact h
  | tick s =>
    simp only [sstep]; split
    · rename_i k hs
      exact invSt_move h s _ (by intro k r; rw [hs]; intro hh; cases hh) (by intro k r hh; cases hh)
        (by rintro (hh | hh) <;> cases hh) (by intro hh; cases hh)
        ⟨(by intro hh; cases hh), fun _ => (h.ival s).2 (Or.inr (Or.inl ⟨k, hs⟩))⟩
    · exact h
  | sret s =>
    simp only [sstep]; split
    · rename_i k hs
      split
      · rename_i hd
        exact invSt_move h s _ (by intro k r; rw [hs]; intro hh; cases hh) (by intro k r hh; cases hh)
          (by rintro (hh | hh) <;> cases hh) (fun _ => hd)
          ⟨(by intro hh; cases hh), fun _ => (h.ival s).2 (Or.inr (Or.inl ⟨k, hs⟩))⟩
      · exact h
    · exact h
  | scancel s =>
    simp only [sstep]; split
    · rename_i k r hs
      -- the current run is cancelled together with Start's context
      obtain ⟨hor, _⟩ := h.cur s k r hs
      have h1 := invSt_inner h (.cancel r) (by intro r' s' _ hh; cases hh) (by intro r' s' _ hh; cases hh)
      constructor
      · exact h1.own
      · exact h1.cur
      · exact h1.fresh
      · intro s' hs'
        show (if s' = s then true else st.sdead s') = true
        split
        · rfl
        · exact h.ret s' hs'
      · exact h1.ival
      · intro r' s' ho hd ha
        by_cases hss : s' = s
        · subst hss
          have ha' : active st.m r' = true := by
            have := active_step se.env st.m (.cancel r) r' (by intro hh; cases hh) (by intro hh; cases hh)
            rw [← this]; exact ha
          obtain ⟨k', hk'⟩ := h.own r' s' ho ha'
          rw [hs] at hk'
          cases hk'
          exact dead_cancel se.env st.m r
        · have hd' : st.sdead s' = true := by
            have : (if s' = s then true else st.sdead s') = true := hd
            rwa [if_neg hss] at this
          exact h1.deadRun r' s' ho hd' ha
    · rename_i hne
      constructor
      · exact h.own
      · exact h.cur
      · exact h.fresh
      · intro s' hs'
        show (if s' = s then true else st.sdead s') = true
        split
        · rfl
        · exact h.ret s' hs'
      · exact h.ival
      · intro r' s' ho hd ha
        by_cases hss : s' = s
        · subst hss
          obtain ⟨k', hk'⟩ := h.own r' s' ho ha
          exact absurd hk' (hne k' r')
        · have hd' : st.sdead s' = true := by
            have : (if s' = s then true else st.sdead s') = true := hd
            rwa [if_neg hss] at this
          exact h.deadRun r' s' ho hd' ha
  | inner e =>
    cases e with
    | begin r =>
      simp only [sstep]; split
      · rename_i ho
        exact invSt_inner h (.begin r) (by intro r' s' ho' hh; cases hh; rw [ho] at ho'; cases ho')
          (by intro r' s' _ hh; cases hh)
      · rename_i s ho
        split
        · rename_i k hs
          split
          · exact h
          · rename_i hnb
            -- the run begins; with a cancelled Start context it begins cancelled
            let m0 := startCtx se st s r
            have hm0act : ∀ r', active m0 r' = active st.m r' := by
              intro r'
              show active (startCtx se st s r) r' = _
              unfold startCtx
              split
              · exact active_step _ _ _ _ (by intro hh; cases hh) (by intro hh; cases hh)
              · rfl
            have hm0pc : ∀ r', (m0.run r').pc = (st.m.run r').pc := by
              intro r'
              show ((startCtx se st s r).run r').pc = _
              unfold startCtx
              split <;> rfl
            have hm0dead : ∀ r', dead st.m r' = true → dead m0 r' = true := by
              intro r' hd
              show dead (startCtx se st s r) r' = true
              unfold startCtx
              split
              · exact dead_step _ _ _ _ hd
              · exact hd
            have hbt := begin_bad_or_top se.env m0 r
            rcases hbt with hbad | htop
            · exact absurd hbad.1 hnb
            have hact : ∀ r', r' ≠ r → active (step se.env m0 (.begin r)).1 r' = active st.m r' := by
              intro r' hne
              rw [active_step _ _ _ _ (by intro hh; cases hh; exact hne rfl) (by intro hh; cases hh), hm0act]
            have hactr : active (step se.env m0 (.begin r)).1 r = true := by simp [active, htop.2]
            have hnotr : active st.m r = false := by
              have := htop.1; rw [hm0pc] at this; simp [active, this]
            constructor
            · intro r' s' ho' ha
              simp only [setStart_m] at ha
              rw [setStart_start]
              by_cases hrr : r' = r
              · subst hrr
                rw [ho] at ho'; cases ho'
                exact ⟨k, by simp⟩
              · rw [hact r' hrr] at ha
                obtain ⟨k', hk'⟩ := h.own r' s' ho' ha
                split
                · rename_i he; subst he; rw [hs] at hk'; cases hk'
                · exact ⟨k', hk'⟩
            · intro s' k' r' hs'
              rw [setStart_start] at hs'
              simp only [setStart_m]
              split at hs'
              · rename_i he; subst he; cases hs'; exact ⟨ho, hactr⟩
              · obtain ⟨ho', ha'⟩ := h.cur s' k' r' hs'
                refine ⟨ho', ?_⟩
                by_cases hrr : r' = r
                · subst hrr; exact hactr
                · rw [hact r' hrr]; exact ha'
            · intro s' hs' r' ho'
              rw [setStart_start] at hs'
              simp only [setStart_m]
              split at hs'
              · rcases hs' with hh | hh <;> cases hh
              · rename_i hne
                have hrr : r' ≠ r := by
                  intro he; subst he; rw [ho] at ho'; cases ho'; exact hne rfl
                have := h.fresh s' hs' r' ho'
                rw [← hm0pc] at this
                exact not_started_step _ _ _ _ (by intro hh; cases hh; exact hrr rfl) this
            · intro s' hs'
              rw [setStart_start] at hs'
              simp only [setStart_sdead]
              split at hs'
              · cases hs'
              · exact h.ret s' hs'
            · intro s'
              rw [setStart_start]; split
              · rename_i he; subst he
                exact ⟨(by intro hh; cases hh), fun _ => (h.ival s').2 (Or.inl ⟨k, none, hs⟩)⟩
              · exact h.ival s'
            · intro r' s' ho' hd ha
              simp only [setStart_m, setStart_sdead] at ha hd ⊢
              by_cases hrr : r' = r
              · subst hrr
                rw [ho] at ho'; cases ho'
                apply dead_step
                show dead (startCtx se st s r') r' = true
                unfold startCtx
                rw [if_pos hd]
                exact dead_cancel _ _ _
              · rw [hact r' hrr] at ha
                exact dead_step _ _ _ _ (hm0dead r' (h.deadRun r' s' ho' hd ha))
        · exact h
    | ret r =>
      simp only [sstep]; split
      · rename_i ho
        exact invSt_inner h (.ret r) (by intro r' s' _ hh; cases hh)
          (by intro r' s' ho' hh; cases hh; rw [ho] at ho'; cases ho')
      · rename_i s ho
        split
        · rename_i k r' hs
          split
          · rename_i hc
            obtain ⟨hrr, hnb⟩ := hc
            subst hrr
            rcases ret_bad_or_returned se.env st.m r' with hbad | hret
            · exact absurd hbad.1 hnb
            have hact : ∀ r'', r'' ≠ r' → active (step se.env st.m (.ret r')).1 r'' = active st.m r'' := by
              intro r'' hne
              exact active_step _ _ _ _ (by intro hh; cases hh) (by intro hh; cases hh; exact hne rfl)
            have hnot : active (step se.env st.m (.ret r')).1 r' = false := by simp [active, hret.2]
            constructor
            · intro r'' s' ho' ha
              simp only [setStart_m] at ha
              by_cases hrr : r'' = r'
              · subst hrr; rw [hnot] at ha; cases ha
              · rw [hact r'' hrr] at ha
                obtain ⟨k', hk'⟩ := h.own r'' s' ho' ha
                rw [setStart_start]; split
                · rename_i he; subst he; rw [hs] at hk'; cases hk'; exact absurd rfl hrr
                · exact ⟨k', hk'⟩
            · intro s' k' r'' hs'
              rw [setStart_start] at hs'
              simp only [setStart_m]
              split at hs'
              · cases hs'
              · rename_i hne
                obtain ⟨ho', ha'⟩ := h.cur s' k' r'' hs'
                refine ⟨ho', ?_⟩
                have hrr : r'' ≠ r' := by
                  intro he; subst he; rw [ho] at ho'; cases ho'; exact hne rfl
                rw [hact r'' hrr]; exact ha'
            · intro s' hs' r'' ho'
              rw [setStart_start] at hs'
              simp only [setStart_m]
              split at hs'
              · rcases hs' with hh | hh <;> cases hh
              · rename_i hne
                have hrr : r'' ≠ r' := by
                  intro he; subst he; rw [ho] at ho'; cases ho'; exact hne rfl
                exact not_started_step _ _ _ _ (by intro hh; cases hh) (h.fresh s' hs' r'' ho')
            · intro s' hs'
              rw [setStart_start] at hs'
              simp only [setStart_sdead]
              split at hs'
              · cases hs'
              · exact h.ret s' hs'
            · intro s'
              rw [setStart_start]; split
              · rename_i he; subst he
                exact ⟨(by intro hh; cases hh), fun _ => (h.ival s').2 (Or.inl ⟨k, some r', hs⟩)⟩
              · exact h.ival s'
            · intro r'' s' ho' hd ha
              simp only [setStart_m, setStart_sdead] at ha hd ⊢
              by_cases hrr : r'' = r'
              · subst hrr; rw [hnot] at ha; cases ha
              · rw [hact r'' hrr] at ha
                exact dead_step _ _ _ _ (h.deadRun r'' s' ho' hd ha)
          · exact h
        · exact h
    | cancel r =>
      simp only [sstep]; split
      · exact invSt_inner h (.cancel r) (by intro r' s' _ hh; cases hh) (by intro r' s' _ hh; cases hh)
      · exact h
    | acquire r => exact invSt_inner h _ (by intro r' s' _ hh; cases hh) (by intro r' s' _ hh; cases hh)
    | launch r => exact invSt_inner h _ (by intro r' s' _ hh; cases hh) (by intro r' s' _ hh; cases hh)
    | wait r => exact invSt_inner h _ (by intro r' s' _ hh; cases hh) (by intro r' s' _ hh; cases hh)
    | drained r => exact invSt_inner h _ (by intro r' s' _ hh; cases hh) (by intro r' s' _ hh; cases hh)
    | tryLock r i => exact invSt_inner h _ (by intro r' s' _ hh; cases hh) (by intro r' s' _ hh; cases hh)
    | getOps r i => exact invSt_inner h _ (by intro r' s' _ hh; cases hh) (by intro r' s' _ hh; cases hh)
    | fetch r i => exact invSt_inner h _ (by intro r' s' _ hh; cases hh) (by intro r' s' _ hh; cases hh)
    | parse r i => exact invSt_inner h _ (by intro r' s' _ hh; cases hh) (by intro r' s' _ hh; cases hh)
    | store r i => exact invSt_inner h _ (by intro r' s' _ hh; cases hh) (by intro r' s' _ hh; cases hh)
    | close r i => exact invSt_inner h _ (by intro r' s' _ hh; cases hh) (by intro r' s' _ hh; cases hh)
    | status r i => exact invSt_inner h _ (by intro r' s' _ hh; cases hh) (by intro r' s' _ hh; cases hh)
    | done r i => exact invSt_inner h _ (by intro r' s' _ hh; cases hh) (by intro r' s' _ hh; cases hh)
    | gcTry r => exact invSt_inner h _ (by intro r' s' _ hh; cases hh) (by intro r' s' _ hh; cases hh)
    | gc r => exact invSt_inner h _ (by intro r' s' _ hh; cases hh) (by intro r' s' _ hh; cases hh)
    | gcDone r => exact invSt_inner h _ (by intro r' s' _ hh; cases hh) (by intro r' s' _ hh; cases hh)

theorem invSt_run (se : SEnv) (hist : List Op) (sevs : List SEv) : InvSt se (sreach se hist sevs) :=
  Sm.invariant_run (Inv := InvSt se) (fun _ ev h => invSt_step h ev) sevs _ (invSt_init se hist)

/-! ### a run that begins with a cancelled context launches nothing -/

set_option linter.unusedSimpArgs false in
/-- Workers are launched only out of a live `sem.Acquire`. -/
theorem launched_step (env : Env) (m : State) (ev : Ev) (r : Nat) (hp : (m.run r).pc ≠ .acquiring true) :
    ((step env m ev).1.run r).launchedN = (m.run r).launchedN := by
  cases ev <;> simp only [step] <;> repeat' split
  all_goals first
    | rfl
    | (simp only [setRun_run, setPc_run, setBody_run, finish_run, gcFinish_run]; split <;> simp_all)
    | (simp only [State.setPc, State.setRun, State.setBody]; split <;> simp_all)
    | (simp only [State.setPc, State.setRun, State.setBody])

/-- A run that has not begun has launched nothing. -/
theorem not_started_launched_zero (env : Env) (hist : List Op) (evs : List Ev) (r : Nat)
    (h : ((Sm.run (step env) (init hist) evs).run r).pc = .notStarted) :
    ((Sm.run (step env) (init hist) evs).run r).launchedN = 0 := by
  have inv := Sm.invariant_run (step := step env)
    (Inv := fun m => ∀ r, (m.run r).pc = .notStarted → (m.run r).launchedN = 0)
    (by
      intro m ev hm r hr
      have hpc : (m.run r).pc = .notStarted := by
        rcases run_pc_step env m ev r with h' | h' | h' | h'
        · rw [← h']; exact hr
        · rw [h'.2.2] at hr; cases hr
        · rw [h'.2.1] at hr; cases hr
        · have := h'.2; simp [active, hr] at this
      rw [launched_step env m ev r (by rw [hpc]; intro hh; cases hh)]
      exact hm r hpc)
    evs (init hist) (by intro r _; rfl)
  exact inv r h

/-- The run has launched nothing and cannot any more, unless it begins with a
    live context. -/
def Quiet (m : State) (r : Nat) : Prop :=
  (m.run r).launchedN = 0 ∧ ((m.run r).pc = .notStarted ∨ (dead m r = true ∧ (m.run r).pc ≠ .acquiring true))

theorem quiet_step (env : Env) (m : State) (ev : Ev) (r : Nat) (hq : Quiet m r) (hb : ev ≠ .begin r) :
    Quiet (step env m ev).1 r := by
  obtain ⟨h0, h1⟩ := hq
  rcases h1 with hn | ⟨hd, hp⟩
  · refine ⟨?_, Or.inl (not_started_step env m ev r hb hn)⟩
    rw [launched_step env m ev r (by rw [hn]; intro hh; cases hh)]; exact h0
  · have := cancelled_step env m ev r hd hp
    exact ⟨by rw [this.2]; exact h0, Or.inr ⟨dead_step env m ev r hd, this.1⟩⟩

theorem quiet_begin (env : Env) (m : State) (r : Nat) (hq : Quiet m r) (hd : dead m r = true) :
    Quiet (step env m (.begin r)).1 r := by
  obtain ⟨h0, _⟩ := hq
  rcases begin_bad_or_top env m r with hb | ht
  · rw [hb.2]; exact ⟨h0, Or.inr ⟨hd, by
      rcases ‹(m.run r).pc = .notStarted ∨ _› with hn | hx
      · rw [hn]; intro hh; cases hh
      · exact hx.2⟩⟩
  · refine ⟨?_, Or.inr ⟨dead_step env m _ r hd, by rw [ht.2]; intro hh; cases hh⟩⟩
    rw [launched_step env m _ r (by rw [ht.1]; intro hh; cases hh)]; exact h0

theorem squiet_step (se : SEnv) (st : SState) (ev : SEv) (r s : Nat) (ho : se.owner r = some s)
    (hd : st.sdead s = true) (hq : Quiet st.m r) :
    (sstep se st ev).1.sdead s = true ∧ Quiet (sstep se st ev).1.m r := by
  cases ev with
  | sbegin s' =>
    simp only [sstep]; split
    · split <;> exact ⟨hd, hq⟩
    · exact ⟨hd, hq⟩
  | tick s' => simp only [sstep]; split <;> exact ⟨hd, hq⟩
  | sret s' =>
    simp only [sstep]; split
    · split <;> exact ⟨hd, hq⟩
    · exact ⟨hd, hq⟩
  | scancel s' =>
    have hd' : (if s = s' then true else st.sdead s) = true := by split <;> simp [hd]
    simp only [sstep]; split
    · exact ⟨hd', quiet_step _ _ _ _ hq (by intro hh; cases hh)⟩
    · exact ⟨hd', hq⟩
  | inner e =>
    cases e with
    | begin r' =>
      simp only [sstep]; split
      · rename_i ho'
        have hne : r' ≠ r := by intro he; subst he; rw [ho] at ho'; cases ho'
        exact ⟨hd, quiet_step _ _ _ _ hq (by intro hh; cases hh; exact hne rfl)⟩
      · rename_i s' ho'
        split
        · split
          · exact ⟨hd, hq⟩
          · refine ⟨hd, ?_⟩
            simp only [setStart_m]
            by_cases hrr : r' = r
            · subst hrr
              rw [ho] at ho'; cases ho'
              have hc : Quiet (startCtx se st s r') r' ∧ dead (startCtx se st s r') r' = true := by
                unfold startCtx; rw [if_pos hd]
                exact ⟨quiet_step _ _ _ _ hq (by intro hh; cases hh), dead_cancel _ _ _⟩
              exact quiet_begin _ _ _ hc.1 hc.2
            · have hc : Quiet (startCtx se st s' r') r := by
                unfold startCtx; split
                · exact quiet_step _ _ _ _ hq (by intro hh; cases hh)
                · exact hq
              exact quiet_step _ _ _ _ hc (by intro hh; cases hh; exact hrr rfl)
        · exact ⟨hd, hq⟩
    | ret r' =>
      simp only [sstep]; split
      · exact ⟨hd, quiet_step _ _ _ _ hq (by intro hh; cases hh)⟩
      · split
        · split
          · exact ⟨hd, quiet_step _ _ _ _ hq (by intro hh; cases hh)⟩
          · exact ⟨hd, hq⟩
        · exact ⟨hd, hq⟩
    | cancel r' =>
      simp only [sstep]; split
      · exact ⟨hd, quiet_step _ _ _ _ hq (by intro hh; cases hh)⟩
      · exact ⟨hd, hq⟩
    | acquire r' => exact ⟨hd, quiet_step _ _ _ _ hq (by intro hh; cases hh)⟩
    | launch r' => exact ⟨hd, quiet_step _ _ _ _ hq (by intro hh; cases hh)⟩
    | wait r' => exact ⟨hd, quiet_step _ _ _ _ hq (by intro hh; cases hh)⟩
    | drained r' => exact ⟨hd, quiet_step _ _ _ _ hq (by intro hh; cases hh)⟩
    | tryLock r' i => exact ⟨hd, quiet_step _ _ _ _ hq (by intro hh; cases hh)⟩
    | getOps r' i => exact ⟨hd, quiet_step _ _ _ _ hq (by intro hh; cases hh)⟩
    | fetch r' i => exact ⟨hd, quiet_step _ _ _ _ hq (by intro hh; cases hh)⟩
    | parse r' i => exact ⟨hd, quiet_step _ _ _ _ hq (by intro hh; cases hh)⟩
    | store r' i => exact ⟨hd, quiet_step _ _ _ _ hq (by intro hh; cases hh)⟩
    | close r' i => exact ⟨hd, quiet_step _ _ _ _ hq (by intro hh; cases hh)⟩
    | status r' i => exact ⟨hd, quiet_step _ _ _ _ hq (by intro hh; cases hh)⟩
    | done r' i => exact ⟨hd, quiet_step _ _ _ _ hq (by intro hh; cases hh)⟩
    | gcTry r' => exact ⟨hd, quiet_step _ _ _ _ hq (by intro hh; cases hh)⟩
    | gc r' => exact ⟨hd, quiet_step _ _ _ _ hq (by intro hh; cases hh)⟩
    | gcDone r' => exact ⟨hd, quiet_step _ _ _ _ hq (by intro hh; cases hh)⟩

theorem squiet_run (se : SEnv) (r s : Nat) (ho : se.owner r = some s) : ∀ (sevs : List SEv) (st : SState),
    st.sdead s = true → Quiet st.m r → Quiet (Sm.run (sstep se) st sevs).m r := by
  intro sevs
  induction sevs with
  | nil => intro st _ hq; exact hq
  | cons ev sevs ih =>
    intro st hd hq
    have := squiet_step se st ev r s ho hd hq
    exact ih _ this.1 this.2

end ClairModel.MgrStart
