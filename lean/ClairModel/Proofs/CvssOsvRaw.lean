/-
  C18 — `fromCVSS3` on the RAW input string: for every string `ParseV3` accepts
  (any metric order, temporal / environmental metrics anywhere) the string
  loop of `fromCVSS3` (TrimRight, Split, label checks, Cut, the switch tables)
  fills `ns` with the weights of the eight base metrics of the parsed vector,
  whatever the order of the pieces.
-/
import ClairModel.Proofs.CvssOsv
namespace ClairModel.Cvss
open ClairModel.Gen.Cvss ClairModel.CvssSpec

/-! ### the pieces of an accepted string -/

theorem cut_some (sep : Nat) : ∀ (p a b : Bytes), cut sep p = some (a, b) → p = a ++ sep :: b
  | [], _, _, h => by simp [cut] at h
  | c :: cs, a, b, h => by
    unfold cut at h
    split at h
    · rename_i hc
      simp only [Option.some.injEq, Prod.mk.injEq] at h
      obtain ⟨rfl, rfl⟩ := h
      simp [hc]
    · split at h
      · simp at h
      · rename_i a' b' hcut
        simp only [Option.some.injEq, Prod.mk.injEq] at h
        obtain ⟨rfl, rfl⟩ := h
        rw [cut_some sep cs a' b' hcut]; rfl

theorem findIdx_getD (x : Bytes) : ∀ (ys : List Bytes) (off i : Nat), findIdx x ys off = some i →
    off ≤ i ∧ ys.getD (i - off) [] = x
  | [], _, _, h => by simp [findIdx] at h
  | y :: ys, off, i, h => by
    unfold findIdx at h
    split at h
    · rename_i e
      have : off = i := by simpa using h
      subst this
      simp [e]
    · obtain ⟨h1, h2⟩ := findIdx_getD x ys (off + 1) i h
      refine ⟨by omega, ?_⟩
      have : i - off = (i - (off + 1)) + 1 := by omega
      rw [this, List.getD_cons_succ]
      exact h2

/-- the `NAME:V` text of metric `m` with value byte `c` -/
def piece3 (m c : Nat) : Bytes := nameOf v3Names m ++ [cColon, c]

theorem v3Piece_shape {p : Bytes} {m c : Nat} (h : v3Piece p = some (m, c)) : p = piece3 m c := by
  unfold v3Piece at h
  split at h
  · simp at h
  · rename_i name val hcut
    split at h
    · simp at h
    · rename_i m' hm'
      split at h
      · rename_i c'
        split at h
        · simp only [Option.some.injEq, Prod.mk.injEq] at h
          obtain ⟨rfl, rfl⟩ := h
          have := (findIdx_getD name v3Names 0 _ hm').2
          simp only [Nat.sub_zero] at this
          rw [cut_some cColon p name [c'] hcut, piece3, nameOf, this]
        · simp at h
      · simp at h

/-- a metric once set keeps its byte (the duplicate check stops the loop otherwise) -/
theorem v3Fill_keeps : ∀ (ps : List Bytes) (acc v : Vec), v3Fill ps acc = some v → acc.mv.length = 22 →
    ∀ j, acc.get j ≠ 0 → v.get j = acc.get j
  | [], acc, v, h, _, j, _ => by
    have : acc = v := by simpa [v3Fill] using h
    subst this; rfl
  | p :: ps, acc, v, h, hl, j, hj => by
    unfold v3Fill at h
    split at h
    · simp at h
    · rename_i m c hp
      split at h
      · simp at h
      · rename_i hz
        have hz' : acc.get m = 0 := by simpa using hz
        have hne : m ≠ j := fun e => hj (e ▸ hz')
        have := v3Fill_keeps ps _ v h (by rw [Vec.set_length]; exact hl) j (by rw [Vec.get_set_ne _ _ _ _ hne]; exact hj)
        rw [this, Vec.get_set_ne _ _ _ _ hne]

/-- the pieces of an accepted string are the `NAME:V` texts of a list of
    metrics of the resulting vector, and every metric the vector holds that
    the loop did not start with is in that list -/
theorem v3Fill_pieces : ∀ (ps : List Bytes) (acc v : Vec), v3Fill ps acc = some v → acc.mv.length = 22 →
    ∃ ms : List Nat, ps = ms.map (fun m => piece3 m (v.get m)) ∧ (∀ m ∈ ms, m < 22 ∧ v.get m ∈ gv3 m) ∧
      ∀ j, v.get j ≠ 0 → acc.get j ≠ 0 ∨ j ∈ ms
  | [], acc, v, h, _ => by
    have : acc = v := by simpa [v3Fill] using h
    subst this
    exact ⟨[], rfl, by simp, fun j hj => Or.inl hj⟩
  | p :: ps, acc, v, h, hl => by
    have h0 := h
    unfold v3Fill at h
    split at h
    · simp at h
    · rename_i m c hp
      split at h
      · simp at h
      · obtain ⟨hm, hc⟩ := v3Piece_sound hp
        have hl' : (acc.set m c).mv.length = 22 := by rw [Vec.set_length]; exact hl
        obtain ⟨ms, e1, e2, e3⟩ := v3Fill_pieces ps _ v h hl'
        have hcz : c ≠ 0 := (gv3_facts m hm c hc).1
        have hset : (acc.set m c).get m = c := Vec.get_set_eq _ _ _ (by rw [hl]; exact hm)
        have hvm : v.get m = c := by
          rw [v3Fill_keeps ps _ v h hl' m (by rw [hset]; exact hcz), hset]
        refine ⟨m :: ms, ?_, ?_, ?_⟩
        · simp only [List.map_cons, hvm, ← e1, v3Piece_shape hp]
        · intro x hx
          rcases List.mem_cons.1 hx with rfl | hx
          · exact ⟨hm, by rw [hvm]; exact hc⟩
          · exact e2 x hx
        · intro j hj
          rcases e3 j hj with h1 | h1
          · by_cases e : m = j
            · exact Or.inr (by simp [e])
            · rw [Vec.get_set_ne _ _ _ _ e] at h1
              exact Or.inl h1
          · exact Or.inr (List.mem_cons_of_mem _ h1)

/-! ### `fromCVSS3` over such pieces -/

/-- the `ns` array after the metrics `ms` of `v` went through the switch -/
def upd3 (v : Vec) : List Nat → List Int → List Int
  | [], ns => ns
  | m :: ms, ns => upd3 v ms (if m < 8 then ns.set m ((osvW3 m (v.get m)).getD 0) else ns)

theorem osv3_base_names : ∀ m < 8, lookupBytes osv3Weights (nameOf v3Names m) = some (m, osvVals m) := by
  intro m hm
  have : m = 0 ∨ m = 1 ∨ m = 2 ∨ m = 3 ∨ m = 4 ∨ m = 5 ∨ m = 6 ∨ m = 7 := by omega
  rcases this with rfl | rfl | rfl | rfl | rfl | rfl | rfl | rfl <;> rfl
theorem osvW3_total : ∀ m < 8, ∀ b ∈ g3 m, (osvW3 m b).isSome = true := by decide +kernel

theorem osvFill_pieces (v : Vec) : ∀ (ms : List Nat) (ns : List Int), (∀ m ∈ ms, m < 22 ∧ v.get m ∈ gv3 m) →
    osvFill osv3Weights osv3Ignored (ms.map fun m => piece3 m (v.get m)) ns = some (upd3 v ms ns)
  | [], ns, _ => rfl
  | m :: ms, ns, h => by
    obtain ⟨hm, hb⟩ := h m (by simp)
    have ih := fun ns' => osvFill_pieces v ms ns' (fun x hx => h x (List.mem_cons_of_mem _ hx))
    have hc : cut cColon (piece3 m (v.get m)) = some (nameOf v3Names m, [v.get m]) :=
      cut_name cColon _ _ (v3_names_facts m hm).2.1
    by_cases h8 : m < 8
    · obtain ⟨w, hw⟩ := Option.isSome_iff_exists.1 (osvW3_total m h8 _ hb)
      have hw' : lookupBytes (osvVals m) [v.get m] = some w := hw
      simp only [List.map_cons, osvFill, hc, osv3_base_names m h8, hw', upd3, h8, if_true, hw, Option.getD_some]
      exact ih _
    · obtain ⟨f1, f2⟩ := osv3_ignored_names m (by omega) hm
      simp only [List.map_cons, osvFill, hc, f1, f2, if_true, upd3, h8, if_false]
      exact ih _

theorem upd3_length (v : Vec) : ∀ (ms : List Nat) (ns : List Int), (upd3 v ms ns).length = ns.length
  | [], _ => rfl
  | m :: ms, ns => by
    simp only [upd3]
    rw [upd3_length v ms]
    split <;> simp

theorem upd3_getD (v : Vec) : ∀ (ms : List Nat) (ns : List Int) (k : Nat), k < 8 → ns.length = 8 →
    (upd3 v ms ns).getD k 0 = if k ∈ ms then (osvW3 k (v.get k)).getD 0 else ns.getD k 0
  | [], ns, k, _, _ => by simp [upd3]
  | m :: ms, ns, k, hk, hl => by
    simp only [upd3]
    have hl' : (if m < 8 then ns.set m ((osvW3 m (v.get m)).getD 0) else ns).length = 8 := by split <;> simp [hl]
    rw [upd3_getD v ms _ k hk hl']
    by_cases hin : k ∈ ms
    · simp [hin]
    · simp only [hin, if_false, List.mem_cons]
      by_cases e : k = m
      · subst e
        simp only [hk, if_true, true_or]
        simp [List.getD_eq_getElem?_getD, hl, hk]
      · simp only [e, false_or, if_false]
        split
        · simp [List.getD_eq_getElem?_getD, List.getElem?_set_ne (Ne.symm e)]
        · rfl

theorem list8 (l : List Int) (h : l.length = 8) :
    l = [l.getD 0 0, l.getD 1 0, l.getD 2 0, l.getD 3 0, l.getD 4 0, l.getD 5 0, l.getD 6 0, l.getD 7 0] := by
  match l, h with
  | [a, b, c, d, e, f, g, i], _ => rfl

theorem length_ge_of_range : ∀ (k : Nat) (l : List Nat), (∀ j < k, j ∈ l) → k ≤ l.length
  | 0, _, _ => Nat.zero_le _
  | k + 1, l, h => by
    have hk : k ∈ l := h k (by omega)
    have := length_ge_of_range k (l.erase k) (fun j hj => (List.mem_erase_of_ne (by omega)).2 (h j (by omega)))
    rw [List.length_erase_of_mem hk] at this
    have : 0 < l.length := List.length_pos_of_mem hk
    omega

/-! ### the string level -/

theorem splitOn_head_nil (sep : Nat) : ∀ (t : Bytes) (qs : List Bytes), splitOn sep t = [] :: qs → qs ≠ [] →
    ∃ t', t = sep :: t' ∧ splitOn sep t' = qs
  | [], qs, h, hq => by
    simp only [splitOn] at h
    exact absurd (by simpa using h.symm) hq
  | c :: cs, qs, h, _ => by
    unfold splitOn at h
    split at h
    · rename_i e
      subst e
      exact ⟨cs, rfl, by simpa using h⟩
    · split at h <;> simp at h

theorem splitOn_pieces_nosep (sep : Nat) : ∀ (t : Bytes), ∀ p ∈ splitOn sep t, sep ∉ p
  | [], p, h => by simp [splitOn] at h; subst h; simp
  | c :: cs, p, h => by
    have ih := splitOn_pieces_nosep sep cs
    unfold splitOn at h
    split at h
    · rcases List.mem_cons.1 h with rfl | h
      · simp
      · exact ih p h
    · rename_i hc
      split at h
      · rename_i e
        exact absurd e (splitOn_ne_nil sep cs)
      · rename_i q qs e
        rcases List.mem_cons.1 h with rfl | h
        · intro hin
          rcases List.mem_cons.1 hin with hh | hh
          · exact hc hh.symm
          · exact ih q (by rw [e]; simp) hh
        · exact ih p (by rw [e]; exact List.mem_cons_of_mem _ h)

theorem splitOn_single_nil (sep : Nat) : ∀ cs : Bytes, splitOn sep cs = [[]] → cs = []
  | [], _ => rfl
  | d :: ds, e => by
    exfalso
    unfold splitOn at e
    split at e
    · have : splitOn sep ds = [] := by simpa using e
      exact splitOn_ne_nil sep ds this
    · split at e <;> simp at e

/-- a string whose last piece is not empty ends in a byte that is not the separator -/
theorem splitOn_last (sep : Nat) : ∀ (t : Bytes) (q : Bytes), (splitOn sep t).getLast? = some q → q ≠ [] →
    ∃ a b, b ≠ sep ∧ t = a ++ [b]
  | [], q, h, hq => by simp [splitOn] at h; exact absurd h hq
  | c :: cs, q, h, hq => by
    unfold splitOn at h
    split at h
    · rename_i e
      have hne := splitOn_ne_nil sep cs
      rw [List.getLast?_cons_of_ne_nil hne] at h
      obtain ⟨a, b, hb, rfl⟩ := splitOn_last sep cs q h hq
      exact ⟨c :: a, b, hb, rfl⟩
    · rename_i hc
      split at h
      · rename_i e
        exact absurd e (splitOn_ne_nil sep cs)
      · rename_i p ps e
        cases ps with
        | nil =>
          -- cs has no separator: the last byte of c :: cs
          have hq' : q = c :: p := by simpa using h.symm
          have hns : sep ∉ c :: p := by
            intro hin
            rcases List.mem_cons.1 hin with hh | hh
            · exact hc hh.symm
            · exact splitOn_pieces_nosep sep cs p (by rw [e]; simp) hh
          by_cases hp : p = []
          · subst hp
            have : cs = [] := splitOn_single_nil sep cs e
            subst this
            exact ⟨[], c, hc, rfl⟩
          · have h' : (splitOn sep cs).getLast? = some p := by rw [e]; rfl
            obtain ⟨a, b, hb, rfl⟩ := splitOn_last sep cs p h' hp
            exact ⟨c :: a, b, hb, rfl⟩
        | cons p2 ps2 =>
          have h' : (splitOn sep cs).getLast? = some q := by
            rw [e]
            simpa [List.getLast?_cons_cons] using h
          obtain ⟨a, b, hb, rfl⟩ := splitOn_last sep cs q h' hq
          exact ⟨c :: a, b, hb, rfl⟩


/-- `fromCVSS3` on the RAW input: for every string `ParseV3` accepts — whatever
    the order of its metrics — `fromCVSS3` answers what it answers on the
    printed base part of the parsed vector -/
theorem osv3_raw {s : Bytes} {v : Vec} (h : parse3 s = some v) : osv3 s = osv3 (print3 (baseOf3 v)) := by
  have hv := parse3_sound h
  have h0 := h
  unfold parse3 at h
  split at h
  · simp at h
  · simp at h
  · rename_i d rest hstrip
    split at h
    · rename_i hd
      split at h
      · rename_i p ps hsplit
        split at h
        · simp at h
        · rename_i v' hf
          split at h
          · have : v' = v := by simpa using h
            subst this
            -- the string
            have hs : s = v3Prefix ++ d :: rest := stripPrefix_some _ _ _ hstrip
            obtain ⟨rest', hr, hsp'⟩ := splitOn_head_nil cSlash rest (p :: ps) hsplit (by simp)
            have hl0 : ({ (Vec.empty 22) with ver := d - 48 } : Vec).mv.length = 22 := by simp [Vec.empty]
            obtain ⟨ms, e1, e2, e3⟩ := v3Fill_pieces _ _ _ hf hl0
            -- every base metric is among the pieces
            have hbase : ∀ j < 8, j ∈ ms := by
              intro j hj
              rcases e3 j (hv.base j hj) with h1 | h1
              · exact absurd (get_empty 22 _ j) h1
              · exact h1
            have hlen : 8 ≤ ms.length := length_ge_of_range 8 ms hbase
            have hmsne : ms ≠ [] := by intro e; rw [e] at hlen; simp at hlen
            -- the last piece is not empty, so the string does not end in a slash
            have hlast : ∃ a b, b ≠ cSlash ∧ rest' = a ++ [b] := by
              have hall : ∀ q ∈ p :: ps, q ≠ [] := by
                intro q hq
                rw [e1] at hq
                obtain ⟨m, _, rfl⟩ := List.mem_map.1 hq
                simp [piece3]
              generalize p :: ps = L at hsp' hall
              have hne : L ≠ [] := by
                intro e; rw [e] at hsp'; exact splitOn_ne_nil _ _ hsp'
              have hq : (splitOn cSlash rest').getLast? = some (L.getLast hne) := by
                rw [hsp']; exact List.getLast?_eq_some_getLast hne
              exact splitOn_last cSlash rest' _ hq (hall _ (List.getLast_mem hne))
            obtain ⟨a, b, hb, hab⟩ := hlast
            have hd47 : d ≠ cSlash := by
              rcases hd with rfl | rfl <;> decide
            have hlab : cSlash ∉ v3Prefix ++ [d] := by
              intro hin
              simp only [List.mem_append, List.mem_cons, List.mem_nil_iff, or_false] at hin
              rcases hin with hin | hin
              · exact absurd hin (by decide)
              · exact hd47 hin.symm
            have hs2 : s = (v3Prefix ++ [d]) ++ cSlash :: rest' := by rw [hs, hr]; simp
            have hs3 : s = (v3Prefix ++ d :: cSlash :: a) ++ [b] := by rw [hs, hr, hab]; simp
            have htrim : trimRightSlash s = s := by rw [hs3]; exact trim_concat _ b hb
            have hsplitS : splitOn cSlash s = (v3Prefix ++ [d]) :: (p :: ps) := by
              rw [hs2, splitOn_append_sep cSlash _ _ hlab, hsp']
            have hpre : isPrefix osv3Prefix (v3Prefix ++ [d]) = true := rfl
            have hpi : parseInt32Ok ((v3Prefix ++ [d]).drop 7) = true := by
              rcases hd with rfl | rfl <;> decide
            have hl8 : ¬ (v3Prefix ++ [d]).length < 8 := by simp [v3Prefix]
            have hcount : ¬ (p :: ps).length + 1 < 9 := by
              rw [e1, List.length_map]; omega
            have hfill := osvFill_pieces v' ms (List.replicate 8 0) e2
            -- the filled array
            have hrep : (List.replicate 8 (0 : Int)).length = 8 := by simp
            have hl := upd3_length v' ms (List.replicate 8 0)
            rw [hrep] at hl
            have hg (k : Nat) (hk : k < 8) : (upd3 v' ms (List.replicate 8 0)).getD k 0 = (osvW3 k (v'.get k)).getD 0 := by
              rw [upd3_getD v' ms _ k hk hrep, if_pos (hbase k hk)]
            have hns := list8 _ hl
            rw [hg 0 (by decide), hg 1 (by decide), hg 2 (by decide), hg 3 (by decide), hg 4 (by decide),
              hg 5 (by decide), hg 6 (by decide), hg 7 (by decide)] at hns
            -- the weights are defined
            have mem (m : Nat) (hm : m < 8) : v'.get m ∈ g3 m := (hv.vals m (by omega)).resolve_left (hv.base m hm)
            obtain ⟨w0, f0⟩ := Option.isSome_iff_exists.1 (osvW3_total 0 (by decide) _ (mem 0 (by decide)))
            obtain ⟨w1, f1⟩ := Option.isSome_iff_exists.1 (osvW3_total 1 (by decide) _ (mem 1 (by decide)))
            obtain ⟨w2, f2⟩ := Option.isSome_iff_exists.1 (osvW3_total 2 (by decide) _ (mem 2 (by decide)))
            obtain ⟨w3', f3⟩ := Option.isSome_iff_exists.1 (osvW3_total 3 (by decide) _ (mem 3 (by decide)))
            obtain ⟨w4, f4⟩ := Option.isSome_iff_exists.1 (osvW3_total 4 (by decide) _ (mem 4 (by decide)))
            obtain ⟨w5, f5⟩ := Option.isSome_iff_exists.1 (osvW3_total 5 (by decide) _ (mem 5 (by decide)))
            obtain ⟨w6, f6⟩ := Option.isSome_iff_exists.1 (osvW3_total 6 (by decide) _ (mem 6 (by decide)))
            obtain ⟨w7, f7⟩ := Option.isSome_iff_exists.1 (osvW3_total 7 (by decide) _ (mem 7 (by decide)))
            rw [f0, f1, f2, f3, f4, f5, f6, f7] at hns
            simp only [Option.getD_some] at hns
            -- right-hand side
            have hver : v'.ver = 0 ∨ v'.ver = 1 := by have := hv.ver; omega
            have hR := osv3_print3_mk3 v'.ver hver (v'.get 0) (v'.get 1) (v'.get 2) (v'.get 3) (v'.get 4) (v'.get 5)
              (v'.get 6) (v'.get 7)
              (g3_base_bytes 0 (by decide) _ (mem 0 (by decide))) (g3_base_bytes 1 (by decide) _ (mem 1 (by decide)))
              (g3_base_bytes 2 (by decide) _ (mem 2 (by decide))) (g3_base_bytes 3 (by decide) _ (mem 3 (by decide)))
              (g3_base_bytes 4 (by decide) _ (mem 4 (by decide))) (g3_base_bytes 5 (by decide) _ (mem 5 (by decide)))
              (g3_base_bytes 6 (by decide) _ (mem 6 (by decide))) (g3_base_bytes 7 (by decide) _ (mem 7 (by decide)))
            rw [f0, f1, f2, f3, f4, f5, f6, f7] at hR
            simp only [Option.bind_some] at hR
            unfold baseOf3
            rw [hR]
            -- left-hand side
            simp only [osv3, osv3Score, htrim, hsplitS, hpre, hpi, hl8, hcount, not_true_eq_false, if_false]
            rw [e1, hfill, hns]
          · simp at h
      · simp at h
    · simp at h

end ClairModel.Cvss
