/-
  C19 — a value bound for a URI as the naming specification prescribes is
  unbound by `(*Value).unbindURI` to the same value.
-/
import ClairModel.Proofs.CpeFS

namespace ClairModel.Cpe
open ClairModel.CpeTypes ClairModel.CpeSpec

/-! ### the replacer table of unbind.go -/

theorem valueURI_shape : ∀ p ∈ Gen.Cpe.valueURI,
    (p.1 = [46] ∨ p.1 = [45] ∨ p.1 = [126]) ∨ (p.1.length = 3 ∧ p.1.head? = some 37) := by
  decide

theorem lookupKey_none (k : Str) (h : ∀ p ∈ Gen.Cpe.valueURI, p.1 ≠ k) : lookupKey Gen.Cpe.valueURI k = none := by
  simp only [lookupKey, Option.map_eq_none_iff, List.find?_eq_none]
  intro p hp hb
  exact h p hp (by simpa using hb)

theorem lookup1_valueURI (c : Nat) :
    lookupKey Gen.Cpe.valueURI [c] =
      if c = 46 then some [92, 46] else if c = 45 then some [92, 45] else if c = 126 then some [92, 126]
      else none := by
  by_cases h1 : c = 46
  · subst h1; rfl
  by_cases h2 : c = 45
  · subst h2; rfl
  by_cases h3 : c = 126
  · subst h3; rfl
  simp only [h1, h2, h3, if_false]
  apply lookupKey_none
  intro p hp heq
  rcases valueURI_shape p hp with (h | h | h) | ⟨h, _⟩
  · rw [heq] at h; exact h1 (List.cons.inj h).1
  · rw [heq] at h; exact h2 (List.cons.inj h).1
  · rw [heq] at h; exact h3 (List.cons.inj h).1
  · rw [heq] at h; simp at h

theorem lookup3_valueURI_none (c a b : Nat) (h : c ≠ 37) : lookupKey Gen.Cpe.valueURI [c, a, b] = none := by
  apply lookupKey_none
  intro p hp heq
  rcases valueURI_shape p hp with (h' | h' | h') | ⟨_, h'⟩
  · rw [heq] at h'; simp at h'
  · rw [heq] at h'; simp at h'
  · rw [heq] at h'; simp at h'
  · rw [heq] at h'; simp at h'; exact h h'

theorem uriDecode_plain (c : Nat) (rest : Str) (h37 : c ≠ 37) (h46 : c ≠ 46) (h45 : c ≠ 45) (h126 : c ≠ 126) :
    uriDecode (c :: rest) = c :: uriDecode rest := by
  have h1 : lookupKey Gen.Cpe.valueURI [c] = none := by simp [lookup1_valueURI, h46, h45, h126]
  match rest with
  | [] => simp [uriDecode, h1]
  | [a] => simp [uriDecode, h1]
  | a :: b :: rest' => simp [uriDecode, h1, lookup3_valueURI_none c a b h37]

theorem uriDecode_key1 (c : Nat) (r : Str) (rest : Str) (h : lookupKey Gen.Cpe.valueURI [c] = some r) :
    uriDecode (c :: rest) = r ++ uriDecode rest := by
  match rest with
  | [] => simp [uriDecode, h]
  | [a] => simp [uriDecode, h]
  | a :: b :: rest' => simp [uriDecode, h]

theorem uriDecode_pct (a b : Nat) (r rest : Str) (h : lookupKey Gen.Cpe.valueURI [37, a, b] = some r) :
    uriDecode (37 :: a :: b :: rest) = r ++ uriDecode rest := by
  have h1 : lookupKey Gen.Cpe.valueURI [37] = none := by simp [lookup1_valueURI]
  simp [uriDecode, h1, h]

/-- Every character that may be quoted in a URI-representable value has its
    percent form in the table, decoding to the quoted character. -/
theorem lookup_pct (c : Nat) (h : (c == 92 || c == 42 || c == 63 || puncC c) = true) :
    lookupKey Gen.Cpe.valueURI (pctEncode c) = some [92, c] := by
  simp only [Bool.or_eq_true, beq_iff_eq, puncC, List.contains_eq_mem, List.mem_cons, List.not_mem_nil,
    or_false, decide_eq_true_eq] at h
  rcases h with ((h | h) | h) | h
  · subst h; rfl
  · subst h; rfl
  · subst h; rfl
  · rcases h with h | h | h | h | h | h | h | h | h | h | h | h | h | h | h | h | h | h | h | h | h | h | h | h |
      h | h <;> subst h <;> rfl

/-! ### decoding what the specification encodes -/

theorem uriDecode_transform (e : Bool) (v : Str) (h : uriValueAux e v = true) :
    uriDecode (transformURIAux e v) = if e then 92 :: v else v := by
  induction v generalizing e with
  | nil => cases e <;> simp_all [uriValueAux, transformURIAux, uriDecode]
  | cons c v ih =>
    cases e with
    | true =>
      simp only [uriValueAux, if_true, Bool.and_eq_true] at h
      have ih' := ih false h.2
      simp only [Bool.false_eq_true, if_false] at ih'
      simp only [transformURIAux, if_true]
      by_cases h45 : c = 45
      · subst h45
        simp only [true_or, if_true, List.cons_append, List.nil_append]
        rw [uriDecode_key1 45 [92, 45] _ (by simp [lookup1_valueURI]), ih']; rfl
      by_cases h46 : c = 46
      · subst h46
        simp only [or_true, if_true, List.cons_append, List.nil_append]
        rw [uriDecode_key1 46 [92, 46] _ (by simp [lookup1_valueURI]), ih']; rfl
      simp only [h45, h46, or_self, if_false]
      have hq : (c == 92 || c == 42 || c == 63 || puncC c) = true := by
        have := h.1
        simp only [Bool.or_eq_true, beq_iff_eq] at this ⊢
        rcases this with ((((h' | h') | h') | h') | h') | h'
        · exact Or.inl (Or.inl (Or.inl h'))
        · exact Or.inl (Or.inl (Or.inr h'))
        · exact Or.inl (Or.inr h')
        · exact absurd h' h45
        · exact absurd h' h46
        · exact Or.inr h'
      have hl := lookup_pct c hq
      simp only [pctEncode, List.cons_append, List.nil_append] at hl ⊢
      rw [uriDecode_pct _ _ _ _ hl, ih']; rfl
    | false =>
      simp only [uriValueAux, Bool.false_eq_true, if_false] at h
      simp only [transformURIAux, Bool.false_eq_true, if_false]
      by_cases h92 : c = 92
      · subst h92
        simp only [if_true] at h ⊢
        have ih' := ih true h
        simpa using ih'
      · simp only [h92, if_false, Bool.and_eq_true] at h ⊢
        have ih' := ih false h.2
        simp only [Bool.false_eq_true, if_false] at ih'
        by_cases h63 : c = 63
        · subst h63
          simp only [if_true]
          rw [uriDecode_pct 48 49 [63] _ rfl, ih']; rfl
        · by_cases h42 : c = 42
          · subst h42
            simp only [h63, if_false, if_true]
            rw [uriDecode_pct 48 50 [42] _ rfl, ih']; rfl
          · simp only [h63, h42, if_false]
            have hc : lowerAlnumC c = true ∨ c = 95 := by
              have := h.1
              simp only [Bool.or_eq_true, beq_iff_eq] at this
              rcases this with ((h' | h') | h') | h'
              · exact Or.inl h'
              · exact Or.inr h'
              · exact absurd h' h63
              · exact absurd h' h42
            have hne : c ≠ 37 ∧ c ≠ 46 ∧ c ≠ 45 ∧ c ≠ 126 := by
              rcases hc with hc | hc
              · simp only [lowerAlnumC, Bool.or_eq_true, Bool.and_eq_true, decide_eq_true_eq] at hc
                omega
              · omega
            rw [uriDecode_plain c _ hne.1 hne.2.1 hne.2.2.1 hne.2.2.2, ih']

/-! ### the characters the encoding produces -/

/-- lower-case letter, digit, `_`, `-`, `.` or `%` -/
def uriCharOk (c : Nat) : Bool := lowerAlnumC c || c == 95 || c == 45 || c == 46 || c == 37

theorem hexDigit_ok (n : Nat) (h : n < 16) : uriCharOk (hexDigit n) = true := by
  simp only [uriCharOk, lowerAlnumC, hexDigit]
  split <;> simp <;> omega

theorem transform_chars (e : Bool) (v : Str) (h : uriValueAux e v = true) :
    ∀ c ∈ transformURIAux e v, uriCharOk c = true := by
  induction v generalizing e with
  | nil => intro c hc; simp [transformURIAux] at hc
  | cons d v ih =>
    cases e with
    | true =>
      simp only [uriValueAux, if_true, Bool.and_eq_true] at h
      simp only [transformURIAux, if_true]
      intro c hc
      rcases List.mem_append.1 hc with hc | hc
      · have hd : d < 256 := by
          have := h.1
          simp only [Bool.or_eq_true, beq_iff_eq, puncC, List.contains_eq_mem, List.mem_cons,
            List.not_mem_nil, or_false, decide_eq_true_eq] at this
          omega
        split at hc
        · rename_i hdd
          simp only [List.mem_singleton] at hc
          subst hc
          rcases hdd with rfl | rfl <;> decide
        · simp only [pctEncode, List.mem_cons, List.not_mem_nil, or_false] at hc
          rcases hc with rfl | rfl | rfl
          · decide
          · exact hexDigit_ok _ (by omega)
          · exact hexDigit_ok _ (by omega)
      · exact ih false h.2 c hc
    | false =>
      simp only [uriValueAux, Bool.false_eq_true, if_false] at h
      simp only [transformURIAux, Bool.false_eq_true, if_false]
      by_cases h92 : d = 92
      · subst h92
        simp only [if_true] at h ⊢
        exact ih true h
      · simp only [h92, if_false, Bool.and_eq_true] at h ⊢
        intro c hc
        split at hc
        · simp only [List.mem_cons] at hc
          rcases hc with rfl | rfl | rfl | hc
          · decide
          · decide
          · decide
          · exact ih false h.2 c hc
        · split at hc
          · simp only [List.mem_cons] at hc
            rcases hc with rfl | rfl | rfl | hc
            · decide
            · decide
            · decide
            · exact ih false h.2 c hc
          · rename_i h63 h42
            simp only [List.mem_cons] at hc
            rcases hc with rfl | hc
            · have := h.1
              simp only [Bool.or_eq_true, beq_iff_eq] at this
              rcases this with ((h' | h') | h') | h'
              · simp [uriCharOk, h']
              · simp [uriCharOk, h']
              · exact absurd h' h63
              · exact absurd h' h42
            · exact ih false h.2 c hc

theorem lowerURI_id (x : Str) (h : ∀ c ∈ x, uriCharOk c = true) : lowerURI x = x := by
  have hc : ∀ c, uriCharOk c = true → lowerC c = c ∧ c ≠ 226 ∧ c ≠ 196 := by
    intro c hc
    simp only [uriCharOk, lowerAlnumC, Bool.or_eq_true, Bool.and_eq_true, decide_eq_true_eq, beq_iff_eq] at hc
    refine ⟨?_, by omega, by omega⟩
    unfold lowerC
    split <;> omega
  induction x using lowerURI.induct with
  | case1 => rfl
  | case2 c => simp [lowerURI, (hc c (h c (by simp))).1]
  | case3 c d hcd =>
    have := (hc c (h c (by simp))).2.2
    exact absurd hcd.1 this
  | case4 c d hcd ih =>
    have h1 := (hc c (h c (by simp))).1
    have h2 := (hc d (h d (by simp))).1
    simp [lowerURI, hcd, h1, h2]
  | case5 c d e rest hcond ih =>
    have := (hc c (h c (by simp))).2.1
    exact absurd hcond.1 this
  | case6 c d e rest h1 h2 ih =>
    have := (hc c (h c (by simp))).2.2
    exact absurd h2.1 this
  | case7 c d e rest h1 h2 ih =>
    have hl := (hc c (h c (by simp))).1
    have ih' := ih (fun x hx => h x (by simp [hx]))
    simp [lowerURI, h1, h2, hl, ih']

theorem uriCharOk_allowed (c : Nat) (h : uriCharOk c = true) : Gen.Cpe.uriDisallow.contains c = false := by
  simp only [uriCharOk, lowerAlnumC, Bool.or_eq_true, Bool.and_eq_true, decide_eq_true_eq, beq_iff_eq] at h
  simp only [Gen.Cpe.uriDisallow, List.contains_eq_mem, List.mem_cons, List.not_mem_nil, or_false,
    decide_eq_false_iff_not]
  omega

theorem transform_ne_nil (e : Bool) (v : Str) (h : uriValueAux e v = true) (hv : v ≠ []) :
    transformURIAux e v ≠ [] := by
  cases v with
  | nil => exact absurd rfl hv
  | cons c v =>
    cases e with
    | true =>
      simp only [transformURIAux, if_true]
      split <;> simp [pctEncode]
    | false =>
      simp only [uriValueAux, Bool.false_eq_true, if_false] at h
      simp only [transformURIAux, Bool.false_eq_true, if_false]
      by_cases h92 : c = 92
      · subst h92
        simp only [if_true] at h ⊢
        cases v with
        | nil => simp [uriValueAux] at h
        | cons d v =>
          simp only [transformURIAux, if_true]
          split <;> simp [pctEncode]
      · simp only [h92, if_false]
        split
        · simp
        · split <;> simp

/-- The value-level round trip through a URI: a representable value string,
    bound as the specification prescribes, is read back by `unbindURI` as the
    same set value. -/
theorem unbindURIAttr_transform (v : Str) (h : uriValueAux false v = true) (hv : v ≠ []) (h45 : v ≠ [92, 45]) :
    unbindURIAttr (transformURI v) = some ⟨.set, v⟩ := by
  have hchars := transform_chars false v h
  have hne := transform_ne_nil false v h hv
  have hne45 : transformURIAux false v ≠ [45] := by
    intro heq
    have hd := uriDecode_transform false v h
    rw [heq] at hd
    simp only [Bool.false_eq_true, if_false] at hd
    have : uriDecode [45] = [92, 45] := by
      rw [uriDecode_key1 45 [92, 45] [] (by simp [lookup1_valueURI])]; rfl
    rw [this] at hd
    exact h45 hd.symm
  have hascii : (transformURIAux false v).any (fun c => decide (127 ≤ c)) = false := by
    rw [List.any_eq_false]
    intro c hc
    have := hchars c hc
    simp only [uriCharOk, lowerAlnumC, Bool.or_eq_true, Bool.and_eq_true, decide_eq_true_eq, beq_iff_eq] at this
    simp only [decide_eq_true_eq]
    omega
  unfold unbindURIAttr transformURI
  simp only [hne, hne45, if_false, hascii, Bool.false_eq_true]
  rw [lowerURI_id _ hchars]
  have hany : (transformURIAux false v).any (fun c => Gen.Cpe.uriDisallow.contains c) = false := by
    rw [List.any_eq_false]
    intro c hc
    simpa using uriCharOk_allowed c (hchars c hc)
  simp only [hany, Bool.false_eq_true, if_false]
  rw [uriDecode_transform false v h]
  rfl

end ClairModel.Cpe
