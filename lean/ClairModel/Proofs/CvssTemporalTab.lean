/-
  C18 — the temporal step of v3: the code's Roundup and the specification's
  agree on every product of a one-decimal base score with three temporal
  weights (101 x 5 x 5 x 4 cases per minor version, kernel evaluation).
-/
import ClairModel.Proofs.Cvss

namespace ClairModel.Cvss
open ClairModel.Gen.Cvss ClairModel.CvssSpec

/-- Roundup of the specification, by minor version -/
def roundupSpec (minor : Nat) (x : Q) : Int := if minor = 0 then roundup30 x else roundup31 x

/-- TemporalScore = Roundup(BaseScore × E × RL × RC) (section 7.2) -/
def temporal3 (minor : Nat) (base10 : Int) (e rl rc : Nat) : Option Int :=
  match w3 8 e, w3 9 rl, w3 10 rc with
  | some e, some rl, some rc => some (roundupSpec minor (tenth base10 * e * rl * rc))
  | _, _, _ => none

/-- the code's Roundup and the specification's agree on every product of a
    one-decimal base score 0.0 … 10.0 with three temporal weights, and give 0 for base 0 -/
def temporalTable (minor : Nat) : Bool :=
  (List.range 101).all fun k => (g3 8).all fun e => (g3 9).all fun rl => (g3 10).all fun rc =>
    match w3 8 e, w3 9 rl, w3 10 rc with
    | some we, some wrl, some wrc =>
      decide (v3Roundup10 minor (tenth (k : Nat) * we * wrl * wrc) = roundupSpec minor (tenth (k : Nat) * we * wrl * wrc)) &&
      (k != 0 || decide (v3Roundup10 minor (tenth (k : Nat) * we * wrl * wrc) = 0))
    | _, _, _ => false

set_option maxRecDepth 100000 in
theorem temporalTable_0 : temporalTable 0 = true := by decide +kernel
set_option maxRecDepth 100000 in
theorem temporalTable_1 : temporalTable 1 = true := by decide +kernel

end ClairModel.Cvss
