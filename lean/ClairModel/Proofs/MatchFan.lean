/-
  C05 — the goroutine structure of `Match` (Model/MatchFan.lean): the inductive
  invariant of the machine and its consequences (no panic, one close, the
  WaitGroup counter, deadlock freedom, termination bound, and the partition of
  the matchers into collected results and recorded errors).  Core Lean only.
-/
import ClairModel.Lib.Sm
import ClairModel.Model.MatchFan

namespace ClairModel.MatchFan
open ClairModel

/-! ### lists of goroutine phases -/

theorem lt_of_get {gs : List GPhase} {i : Nat} {p : GPhase} (h : gs[i]? = some p) : i < gs.length := by
  obtain ⟨hlt, _⟩ := List.getElem?_eq_some_iff.1 h
  exact hlt

theorem get_set_self {gs : List GPhase} {i : Nat} {old new : GPhase} (h : gs[i]? = some old) :
    (gs.set i new)[i]? = some new :=
  List.getElem?_set_self (lt_of_get h)

theorem get_set_ne {gs : List GPhase} {i a : Nat} {new : GPhase} (h : a ≠ i) :
    (gs.set i new)[a]? = gs[a]? :=
  List.getElem?_set_ne (fun e => h e.symm)

theorem sumG_set {gs : List GPhase} {i : Nat} {old new : GPhase} (h : gs[i]? = some old) :
    sumG (gs.set i new) + gWeight old = sumG gs + gWeight new := by
  induction gs generalizing i with
  | nil => simp at h
  | cons g gs ih =>
    cases i with
    | zero =>
      simp only [List.getElem?_cons_zero, Option.some.injEq] at h
      subst h
      simp only [List.set_cons_zero, sumG]
      omega
    | succ i =>
      simp only [List.getElem?_cons_succ] at h
      have := ih h
      simp only [List.set_cons_succ, sumG]
      omega

/-- replacing one phase changes the number of goroutines that have not returned accordingly -/
theorem live_set {gs : List GPhase} {i : Nat} {old new : GPhase} (h : gs[i]? = some old) :
    ((gs.set i new).filter fun g => !gDone g).length + (if gDone old = true then 0 else 1)
      = (gs.filter fun g => !gDone g).length + (if gDone new = true then 0 else 1) := by
  induction gs generalizing i with
  | nil => simp at h
  | cons g gs ih =>
    cases i with
    | zero =>
      simp only [List.getElem?_cons_zero, Option.some.injEq] at h
      subst h
      simp only [List.set_cons_zero, List.filter_cons]
      cases h1 : gDone g <;> cases h2 : gDone new <;> simp
    | succ i =>
      simp only [List.getElem?_cons_succ] at h
      have := ih h
      simp only [List.set_cons_succ, List.filter_cons]
      cases h1 : gDone g <;> simp <;> omega

theorem live_pos {gs : List GPhase} {i : Nat} {p : GPhase} (h : gs[i]? = some p) (hp : gDone p = false) :
    0 < (gs.filter fun g => !gDone g).length := by
  apply List.length_pos_of_mem (a := p)
  rw [List.mem_filter]
  exact ⟨List.mem_of_getElem? h, by simp [hp]⟩

theorem live_zero_of_all {gs : List GPhase} (h : gs.all gDone = true) :
    (gs.filter fun g => !gDone g).length = 0 := by
  induction gs with
  | nil => rfl
  | cons g gs ih =>
    simp only [List.all_cons, Bool.and_eq_true] at h
    simp [h.1, ih h.2]

theorem live_replicate_unborn (n : Nat) :
    ((List.replicate n GPhase.unborn).filter fun g => !gDone g).length = n := by
  induction n with
  | zero => rfl
  | succ n ih => simp [List.replicate_succ, gDone] at ih ⊢

theorem sumG_replicate_unborn (n : Nat) : sumG (List.replicate n GPhase.unborn) = 4 * n := by
  induction n with
  | zero => rfl
  | succ n ih => simp only [List.replicate_succ, sumG, gWeight, ih]; omega

theorem exists_index {gs : List GPhase} {p : GPhase} (h : p ∈ gs) : ∃ i : Nat, gs[i]? = some p := by
  obtain ⟨i, hi, he⟩ := List.getElem_of_mem h
  exact ⟨i, by rw [List.getElem?_eq_getElem hi, he]⟩

theorem done_of_all {gs : List GPhase} {i : Nat} {p : GPhase} (hall : gs.all gDone = true)
    (h : gs[i]? = some p) : gDone p = true := by
  rw [List.all_eq_true] at hall
  exact hall p (List.mem_of_getElem? h)

theorem count_indicesOf (p : GPhase) (gs : List GPhase) (a : Nat) :
    (indicesOf p gs).count a = if gs[a]? = some p then 1 else 0 := by
  unfold indicesOf
  by_cases h : gs[a]? = some p
  · rw [List.count_filter (by show (gs[a]? == some p) = true; exact beq_iff_eq.2 h), List.count_range,
      if_pos (lt_of_get h), if_pos h]
  · rw [if_neg h, List.count_eq_zero]
    intro hm
    rw [List.mem_filter] at hm
    exact h (by simpa using hm.2)

/-! ### the invariant -/

structure Inv (n : Nat) (s : State) : Prop where
  len : s.gs.length = n
  noPanic : s.panicked = false
  closesEq : s.closes = if s.fan = .done then 1 else 0
  afterSpawn : s.fan ≠ .spawning → s.wg = 0 ∧ s.spawned = n
  spLe : s.spawned ≤ n
  unbornAbove : ∀ i, s.spawned ≤ i → i < n → s.gs[i]? = some .unborn
  bornBelow : ∀ i, i < s.spawned → s.gs[i]? ≠ some .unborn
  wgCount : s.wg = (s.gs.filter fun g => !gDone g).length
  collDone : s.collectorDone = true → s.closes = 1 ∧ s.buf = []
  errsC : ∀ a, s.errs.count a = if s.gs[a]? = some .doneErr then 1 else 0
  sentC : ∀ a, s.buf.count a + s.collected.count a = if s.gs[a]? = some .doneOk then 1 else 0

theorem inv_init (lim n : Nat) : Inv n (init lim n) := by
  constructor <;> simp only [init]
  · simp
  · simp
  · intro x; exact absurd rfl x
  · omega
  · intro i _ hi; simp [hi]
  · intro i hi; omega
  · exact (live_replicate_unborn n).symm
  · intro x; cases x
  · intro a
    simp only [List.count_nil, List.getElem?_replicate]
    split <;> simp
  · intro a
    simp only [List.count_nil, List.getElem?_replicate]
    split <;> simp

/-- A matcher goroutine's transition replaces its phase `old` (started, not
    returned) by `new`; this bundles what each such transition needs. -/
theorem inv_worker {n : Nat} {s : State} (h : Inv n s) {i : Nat} {old new : GPhase}
    (hw : s.gs[i]? = some old) (hold : gDone old = false) (holdU : old ≠ .unborn) (hnewU : new ≠ .unborn)
    (s' : State)
    (hgs : s'.gs = s.gs.set i new) (hsp : s'.spawned = s.spawned) (hfan : s'.fan = s.fan)
    (hcl : s'.closes = s.closes) (hcd : s'.collectorDone = s.collectorDone) (hp : s'.panicked = s.panicked)
    (hwg : s'.wg = s.wg - (if gDone new = true then 1 else 0))
    (hbuf : s.collectorDone = true → s'.buf = s.buf)
    (herr : ∀ a, s'.errs.count a = s.errs.count a + (if a = i ∧ new = .doneErr then 1 else 0))
    (hsent : ∀ a, s'.buf.count a + s'.collected.count a
      = s.buf.count a + s.collected.count a + (if a = i ∧ new = .doneOk then 1 else 0)) :
    Inv n s' := by
  have hpos := live_pos hw hold
  have hspawning : s.fan = .spawning := by
    by_cases hf : s.fan = .spawning
    · exact hf
    · have := (h.afterSpawn hf).1
      have := h.wgCount
      omega
  constructor
  · rw [hgs, List.length_set]; exact h.len
  · rw [hp]; exact h.noPanic
  · rw [hcl, hfan]; exact h.closesEq
  · rw [hfan]; intro hf; exact absurd hspawning hf
  · rw [hsp]; exact h.spLe
  · rw [hsp, hgs]
    intro a h1 h2
    by_cases ha : a = i
    · subst ha
      have := h.unbornAbove a h1 h2
      rw [hw] at this
      exact absurd (Option.some.inj this) holdU
    · rw [get_set_ne ha]; exact h.unbornAbove a h1 h2
  · rw [hsp, hgs]
    intro a h1
    by_cases ha : a = i
    · subst ha
      rw [get_set_self hw]
      intro e; exact hnewU (Option.some.inj e)
    · rw [get_set_ne ha]; exact h.bornBelow a h1
  · rw [hwg, hgs]
    have h1 := live_set (new := new) hw
    have h2 := h.wgCount
    rw [hold] at h1
    simp only [Bool.false_eq_true, if_false] at h1
    split <;> simp_all <;> omega
  · rw [hcd, hcl]
    intro hd
    rw [hbuf hd]
    exact h.collDone hd
  · intro a
    rw [herr a, hgs, h.errsC a]
    by_cases ha : a = i
    · subst ha
      rw [get_set_self hw, hw]
      cases old <;> cases new <;> simp_all [gDone]
    · rw [get_set_ne ha]; simp [ha]
  · intro a
    rw [hsent a, hgs, h.sentC a]
    by_cases ha : a = i
    · subst ha
      rw [get_set_self hw, hw]
      cases old <;> cases new <;> simp_all [gDone]
    · rw [get_set_ne ha]; simp [ha]

theorem inv_step {n : Nat} {s : State} (h : Inv n s) (op : Op) : Inv n (step s op).1 := by
  cases op with
  | spawn =>
    simp only [step]
    split
    · rename_i hfan hw
      have hlt : s.spawned < n := by rw [← h.len]; exact lt_of_get hw
      constructor <;> simp only []
      · rw [List.length_set]; exact h.len
      · exact h.noPanic
      · exact h.closesEq
      · intro hf; exact absurd hfan hf
      · omega
      · intro a h1 h2
        rw [get_set_ne (by omega)]
        exact h.unbornAbove a (by omega) h2
      · intro a h1
        by_cases ha : a = s.spawned
        · subst ha
          rw [get_set_self hw]
          intro e; cases e
        · rw [get_set_ne ha]; exact h.bornBelow a (by omega)
      · have h1 := live_set (new := GPhase.running) hw
        have h2 := h.wgCount
        have e1 : gDone GPhase.unborn = false := rfl
        have e2 : gDone GPhase.running = false := rfl
        rw [e1, e2] at h1
        simp only [Bool.false_eq_true, if_false] at h1
        omega
      · exact h.collDone
      · intro a
        rw [h.errsC a]
        by_cases ha : a = s.spawned
        · subst ha
          rw [get_set_self hw, hw]
          simp
        · rw [get_set_ne ha]
      · intro a
        rw [h.sentC a]
        by_cases ha : a = s.spawned
        · subst ha
          rw [get_set_self hw, hw]
          simp
        · rw [get_set_ne ha]
    · exact h
  | finish i ok =>
    simp only [step]
    split
    · rename_i hw
      cases ok with
      | true =>
        simp only [if_true]
        refine inv_worker h hw rfl (by intro x; cases x) (by intro x; cases x) _ rfl rfl rfl rfl rfl rfl ?_ ?_ ?_ ?_
        · simp [gDone]
        · intro _; rfl
        · intro a; simp
        · intro a; simp
      | false =>
        simp only [Bool.false_eq_true, if_false]
        refine inv_worker h hw rfl (by intro x; cases x) (by intro x; cases x) _ rfl rfl rfl rfl rfl rfl ?_ ?_ ?_ ?_
        · simp [gDone]
        · intro _; rfl
        · intro a
          simp only [List.count_append, List.count_singleton, beq_iff_eq, and_true]
          by_cases ha : a = i
          · simp [ha]
          · have : ¬ i = a := fun e => ha e.symm
            simp [ha, this]
        · intro a; simp
    · exact h
  | send i =>
    simp only [step]
    split
    · rename_i hw
      have hpos := live_pos hw (by rfl : gDone GPhase.sending = false)
      have hspawning : s.fan = .spawning := by
        by_cases hf : s.fan = .spawning
        · exact hf
        · have := (h.afterSpawn hf).1
          have := h.wgCount
          omega
      have hc0 : s.closes = 0 := by
        have := h.closesEq
        rw [hspawning] at this
        simpa using this
      simp only [hc0, ne_eq, not_true_eq_false, if_false]
      split
      · refine inv_worker h hw rfl (by intro x; cases x) (by intro x; cases x) _ rfl rfl rfl hc0.symm rfl rfl ?_ ?_ ?_ ?_
        · simp [gDone]
        · intro hd
          have := (h.collDone hd).1
          omega
        · intro a; simp
        · intro a
          simp only [List.count_append, List.count_singleton, beq_iff_eq, and_true]
          by_cases ha : a = i
          · simp [ha]; omega
          · have : ¬ i = a := fun e => ha e.symm
            simp [ha, this]
      · exact h
    · exact h
  | fanWait =>
    simp only [step]
    split
    · rename_i hcond
      obtain ⟨hfan, hsp, hwg⟩ := hcond
      have hc0 : s.closes = 0 := by
        have := h.closesEq
        rw [hfan] at this
        simpa using this
      constructor <;> simp only []
      · exact h.len
      · exact h.noPanic
      · simpa using hc0
      · intro _; exact ⟨hwg, by rw [hsp, h.len]⟩
      · exact h.spLe
      · exact h.unbornAbove
      · exact h.bornBelow
      · exact h.wgCount
      · exact h.collDone
      · exact h.errsC
      · exact h.sentC
    · exact h
  | closeC =>
    simp only [step]
    split
    · rename_i hfan
      have hc0 : s.closes = 0 := by
        have := h.closesEq
        rw [hfan] at this
        simpa using this
      simp only [hc0, if_true]
      constructor <;> simp only []
      · exact h.len
      · exact h.noPanic
      · simp
      · intro _; exact h.afterSpawn (by rw [hfan]; intro x; cases x)
      · exact h.spLe
      · exact h.unbornAbove
      · exact h.bornBelow
      · exact h.wgCount
      · intro hd; exact ⟨trivial, (h.collDone hd).2⟩
      · exact h.errsC
      · exact h.sentC
    · exact h
  | collect =>
    simp only [step]
    split
    · rename_i m rest hcd hbuf
      constructor <;> simp only []
      · exact h.len
      · exact h.noPanic
      · exact h.closesEq
      · exact h.afterSpawn
      · exact h.spLe
      · exact h.unbornAbove
      · exact h.bornBelow
      · exact h.wgCount
      · intro hd; rw [hcd] at hd; cases hd
      · exact h.errsC
      · intro a
        have := h.sentC a
        rw [hbuf] at this
        simp only [List.count_cons, List.count_append, List.count_nil] at this ⊢
        omega
    · exact h
  | collectorEnd =>
    simp only [step]
    split
    · rename_i hcond
      obtain ⟨hcd, hbuf, hc⟩ := hcond
      constructor <;> simp only []
      · exact h.len
      · exact h.noPanic
      · exact h.closesEq
      · exact h.afterSpawn
      · exact h.spLe
      · exact h.unbornAbove
      · exact h.bornBelow
      · exact h.wgCount
      · intro _
        refine ⟨?_, hbuf⟩
        have := h.closesEq
        split at this
        · exact this
        · exact absurd this hc
      · exact h.errsC
      · exact h.sentC
    · exact h

/-! ### consequences -/

theorem reachable_inv (lim n : Nat) (ops : List Op) : Inv n (Sm.run step (init lim n) ops) :=
  Sm.invariant_run (Inv := Inv n) (fun _ op h => inv_step h op) ops _ (inv_init lim n)

/-- A transition that reports a panic leaves the flag set. -/
theorem panic_sets_flag (s : State) (op : Op) (h : (step s op).2 = .panic) : (step s op).1.panicked = true := by
  cases op <;> simp only [step] at h ⊢ <;> (repeat' split at h) <;> simp_all

theorem step_never_panics {n : Nat} {s : State} (h : Inv n s) (op : Op) : (step s op).2 ≠ .panic := by
  intro hp
  have := (inv_step h op).noPanic
  rw [panic_sets_flag s op hp] at this
  cases this

/-- no reachable state has panicked and no transition out of a reachable state panics -/
theorem never_panics (lim n : Nat) (ops : List Op) :
    (Sm.run step (init lim n) ops).panicked = false ∧
      ∀ op, (step (Sm.run step (init lim n) ops) op).2 ≠ .panic :=
  ⟨(reachable_inv lim n ops).noPanic, fun op => step_never_panics (reachable_inv lim n ops) op⟩

theorem close_once (lim n : Nat) (ops : List Op) :
    (Sm.run step (init lim n) ops).closes = if (Sm.run step (init lim n) ops).fan = .done then 1 else 0 :=
  (reachable_inv lim n ops).closesEq

/-- the WaitGroup counter equals the number of matcher goroutines that have not returned -/
theorem wg_counts (lim n : Nat) (ops : List Op) :
    (Sm.run step (init lim n) ops).wg = ((Sm.run step (init lim n) ops).gs.filter fun g => !gDone g).length :=
  (reachable_inv lim n ops).wgCount

theorem lim_const (s : State) (op : Op) : (step s op).1.lim = s.lim := by
  cases op <;> simp only [step] <;> (repeat' split) <;> rfl

theorem lim_run (s : State) (ops : List Op) : (Sm.run step s ops).lim = s.lim := by
  induction ops generalizing s with
  | nil => rfl
  | cons op ops ih => rw [Sm.run_cons, ih, lim_const]

/-- Deadlock freedom: a state that satisfies the invariant and in which not
    every goroutine has returned has a transition that can happen. -/
theorem exists_enabled {n : Nat} {s : State} (h : Inv n s) (hlim : 0 < s.lim) (hnf : final s = false) :
    ∃ op, (step s op).2 = .ok := by
  cases hall : s.gs.all gDone with
  | false =>
    rw [List.all_eq_false] at hall
    obtain ⟨p, hp, hret⟩ := hall
    obtain ⟨i, hi⟩ := exists_index hp
    have hpf : gDone p = false := by simpa using hret
    have hpos := live_pos hi hpf
    have hspawning : s.fan = .spawning := by
      by_cases hf : s.fan = .spawning
      · exact hf
      · have := (h.afterSpawn hf).1
        have := h.wgCount
        omega
    have hc0 : s.closes = 0 := by
      have := h.closesEq
      rw [hspawning] at this
      simpa using this
    cases p with
    | doneOk => simp [gDone] at hpf
    | doneErr => simp [gDone] at hpf
    | unborn =>
      have hin : i < n := by rw [← h.len]; exact lt_of_get hi
      have hge : s.spawned ≤ i := by
        by_cases hlt : i < s.spawned
        · exact absurd hi (h.bornBelow i hlt)
        · omega
      have hsp := h.unbornAbove s.spawned (Nat.le_refl _) (by omega)
      exact ⟨.spawn, by simp [step, hspawning, hsp]⟩
    | running => exact ⟨.finish i true, by simp [step, hi]⟩
    | sending =>
      by_cases hlt : s.buf.length < s.lim
      · exact ⟨.send i, by simp [step, hi, hc0, hlt]⟩
      · cases hbuf : s.buf with
        | nil => rw [hbuf] at hlt; simp at hlt; omega
        | cons b rest =>
          cases hcd : s.collectorDone with
          | true =>
            have := (h.collDone hcd).2
            rw [hbuf] at this; cases this
          | false => exact ⟨.collect, by simp [step, hcd, hbuf]⟩
  | true =>
    have hwg : s.wg = 0 := by rw [h.wgCount]; exact live_zero_of_all hall
    cases hs : s.fan with
    | spawning =>
      have hsp : s.spawned = s.gs.length := by
        rw [h.len]
        by_cases hlt : s.spawned < n
        · have := done_of_all hall (h.unbornAbove s.spawned (Nat.le_refl _) hlt)
          cases this
        · have := h.spLe; omega
      exact ⟨.fanWait, by simp [step, hs, hsp, hwg]⟩
    | closing =>
      have hc0 : s.closes = 0 := by
        have := h.closesEq
        rw [hs] at this
        simpa using this
      exact ⟨.closeC, by simp [step, hs, hc0]⟩
    | done =>
      have hc1 : s.closes = 1 := by
        have := h.closesEq
        rw [hs] at this
        simpa using this
      cases hcd : s.collectorDone with
      | true => simp [final, hs, hcd, hall] at hnf
      | false =>
        cases hbuf : s.buf with
        | nil => exact ⟨.collectorEnd, by simp [step, hcd, hbuf, hc1]⟩
        | cons b rest => exact ⟨.collect, by simp [step, hcd, hbuf]⟩

theorem deadlock_free (lim n : Nat) (hlim : 0 < lim) (ops : List Op)
    (hnf : final (Sm.run step (init lim n) ops) = false) :
    ∃ op, (step (Sm.run step (init lim n) ops) op).2 = .ok :=
  exists_enabled (reachable_inv lim n ops) (by rw [lim_run]; exact hlim) hnf

/-- Every transition that happens decreases the measure. -/
theorem step_decreases (s : State) (op : Op) (h : (step s op).2 = .ok) :
    measure (step s op).1 < measure s := by
  cases op with
  | spawn =>
    simp only [step] at h ⊢
    split at h
    · rename_i hfan hw
      have := sumG_set (new := GPhase.running) hw
      simp [measure, hfan, gWeight] at this ⊢
      omega
    · cases h
  | finish i ok =>
    simp only [step] at h ⊢
    split at h
    · rename_i hw
      cases ok with
      | true =>
        have := sumG_set (new := GPhase.sending) hw
        simp [measure, gWeight] at this ⊢
        omega
      | false =>
        have := sumG_set (new := GPhase.doneErr) hw
        simp [measure, gWeight] at this ⊢
        omega
    · cases h
  | send i =>
    simp only [step] at h ⊢
    split at h
    · rename_i hw
      split at h
      · cases h
      · rename_i hc
        split at h
        · rename_i hlt
          have := sumG_set (new := GPhase.doneOk) hw
          simp [measure, hc, hlt, gWeight] at this ⊢
          omega
        · cases h
    · cases h
  | fanWait =>
    simp only [step] at h ⊢
    split at h
    · rename_i hcond
      simp [measure, hcond, fWeight]
    · cases h
  | closeC =>
    simp only [step] at h ⊢
    split at h
    · rename_i hfan
      split at h
      · rename_i hc
        simp [measure, hfan, hc, fWeight]
      · cases h
    · cases h
  | collect =>
    simp only [step] at h ⊢
    split at h
    · rename_i m rest hcd hbuf
      simp [measure, hcd, hbuf]
    · cases h
  | collectorEnd =>
    simp only [step] at h ⊢
    split at h
    · rename_i hcond
      simp [measure, hcond]
    · cases h

theorem run_length_measure (s : State) (ops : List Op) (h : allOk s ops = true) :
    ops.length + measure (Sm.run step s ops) ≤ measure s := by
  induction ops generalizing s with
  | nil => simp
  | cons op ops ih =>
    simp only [allOk, Bool.and_eq_true, beq_iff_eq] at h
    have h1 := step_decreases s op h.1
    have h2 := ih _ h.2
    simp only [Sm.run_cons, List.length_cons]
    omega

theorem measure_init (lim n : Nat) : measure (init lim n) = 4 * n + 3 := by
  simp [measure, init, sumG_replicate_unborn, fWeight]

theorem run_length_bound (lim n : Nat) (ops : List Op) (h : allOk (init lim n) ops = true) :
    ops.length ≤ 4 * n + 3 := by
  have := run_length_measure _ ops h
  rw [measure_init] at this
  omega

/-- in every reachable state: the recorded errors are exactly the goroutines that returned with an error, each once -/
theorem errs_exact (lim n : Nat) (ops : List Op) :
    (Sm.run step (init lim n) ops).errs.Perm (indicesOf .doneErr (Sm.run step (init lim n) ops).gs) := by
  rw [List.perm_iff_count]
  intro a
  rw [count_indicesOf]
  exact (reachable_inv lim n ops).errsC a

/-- in every reachable state: buffered ++ collected results are exactly the goroutines that completed their send, each once -/
theorem sent_exact (lim n : Nat) (ops : List Op) :
    ((Sm.run step (init lim n) ops).buf ++ (Sm.run step (init lim n) ops).collected).Perm
      (indicesOf .doneOk (Sm.run step (init lim n) ops).gs) := by
  rw [List.perm_iff_count]
  intro a
  rw [count_indicesOf, List.count_append]
  exact (reachable_inv lim n ops).sentC a

theorem final_partition_of_inv {n : Nat} {s : State} (h : Inv n s) (hf : final s = true) :
    (s.collected ++ s.errs).Perm (List.range n) := by
  simp only [final, Bool.and_eq_true, beq_iff_eq] at hf
  obtain ⟨⟨hfan, hcd⟩, hall⟩ := hf
  have hbuf := (h.collDone hcd).2
  rw [List.perm_iff_count]
  intro a
  have h1 := h.errsC a
  have h2 := h.sentC a
  rw [hbuf] at h2
  rw [List.count_append, List.count_range, h1]
  simp only [List.count_nil, Nat.zero_add] at h2
  rw [h2]
  by_cases ha : a < n
  · rw [if_pos ha]
    have hlt : a < s.gs.length := by rw [h.len]; exact ha
    have hget : s.gs[a]? = some s.gs[a] := List.getElem?_eq_getElem hlt
    have hd := done_of_all hall hget
    rw [hget]
    cases hp : s.gs[a] <;> rw [hp] at hd <;> simp_all [gDone]
  · rw [if_neg ha]
    have : s.gs[a]? = none := List.getElem?_eq_none (by rw [h.len]; omega)
    simp [this]

/-- final states: every matcher is either collected exactly once or has its error recorded exactly once -/
theorem final_partition (lim n : Nat) (ops : List Op)
    (hf : final (Sm.run step (init lim n) ops) = true) :
    ((Sm.run step (init lim n) ops).collected ++ (Sm.run step (init lim n) ops).errs).Perm (List.range n) :=
  final_partition_of_inv (reachable_inv lim n ops) hf

/-- the number of goroutine phases never changes -/
theorem gs_length (lim n : Nat) (ops : List Op) : (Sm.run step (init lim n) ops).gs.length = n :=
  (reachable_inv lim n ops).len

end ClairModel.MatchFan
