/-
  Lemmas about Model/FeedTransfer.lean (core Lean only).
-/
import ClairModel.Model.FeedTransfer
import ClairModel.Proofs.Framing

set_option autoImplicit false

namespace ClairModel.FeedTransfer
open ClairModel ClairModel.Framing

variable {σ ρ α : Type}

/-! ### transport -/

theorem bytes_single (b : Bytes) (t : Term) : (Stream.mk [b] t).bytes = b := by
  simp [Stream.bytes]

/-- Whatever the script, the reader sees a prefix of what the server wrote. -/
theorem delivered_prefix (s : Script) : ∃ k, (delivered s).bytes = s.body.take k := by
  unfold delivered
  cases s.frame with
  | length d =>
    simp only
    by_cases h : d ≤ s.body.length
    · rw [if_pos h]; exact ⟨d, bytes_single _ _⟩
    · rw [if_neg h]; exact ⟨s.body.length, by rw [bytes_single, List.take_length]⟩
  | chunked => exact ⟨s.body.length, by rw [bytes_single, List.take_length]⟩
  | close => exact ⟨s.body.length, by rw [bytes_single, List.take_length]⟩

/-! ### CSV -/

theorem csvFold_append (h : Handler σ ρ) (s : σ) (a b : List Bytes) :
    csvFold h s (a ++ b) =
      match csvFold h s a with
      | none => none
      | some (s', o) =>
        match csvFold h s' b with
        | none => none
        | some (s'', o') => some (s'', o ++ o') := by
  induction a generalizing s with
  | nil =>
    simp only [List.nil_append, csvFold]
    cases csvFold h s b with
    | none => rfl
    | some p => rcases p with ⟨s'', o'⟩; simp
  | cons l ls ih =>
    simp only [List.cons_append, csvFold]
    cases hl : csvLine h s l with
    | none => rfl
    | some p =>
      rcases p with ⟨s1, o1⟩
      simp only
      rw [ih s1]
      cases csvFold h s1 ls with
      | none => rfl
      | some q =>
        rcases q with ⟨s2, o2⟩
        simp only
        cases csvFold h s2 b with
        | none => rfl
        | some r => rcases r with ⟨s3, o3⟩; simp [List.append_assoc]

/-- The lines of a prefix: the complete lines are the first lines of the whole
    text; after them comes at most the unterminated rest. -/
theorem csvLines_take (d : Bytes) (k : Nat) :
    ∃ more, csvLines d = (splitLines (d.take k)).1 ++ more := by
  obtain ⟨more, hm⟩ := splitLines_take d k
  unfold csvLines
  rw [hm]
  exact ⟨more ++ (if (splitLines d).2 = [] then [] else [(splitLines d).2]), by simp [List.append_assoc]⟩

theorem take_of_append_eq {β : Type} (a b c : List β) (h : a ++ b = c) : a = c.take a.length := by
  subst h; simp

end ClairModel.FeedTransfer
