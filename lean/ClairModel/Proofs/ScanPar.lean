/-
  Any interleaving of scanner goroutines preserves the store invariant.
-/
import ClairModel.Lib.Sm
import ClairModel.Model.ScanPar
import ClairModel.Proofs.IndexerInv

namespace ClairModel.ScanPar
open ClairModel ClairModel.Indexer

/-- What a goroutine knows about the store because of what it already did. -/
def LocalOK (sem : Sem) (st : Store) (t : Thread) : Prop :=
  match t.pc with
  | .storing k => ∀ j, j < k → ∀ g, (toStore sem t.s t.l)[j]? = some g → ∀ r, r ∈ g → (⟨t.l, t.s, r⟩ : ArtRow) ∈ st.rows
  | .marking => ∀ r, r ∈ sem.scan t.s t.l → (⟨t.l, t.s, r⟩ : ArtRow) ∈ st.rows
  | _ => True

theorem LocalOK.mono {sem : Sem} {st st' : Store} {t : Thread} (h : LocalOK sem st t) (hle : Le st st') : LocalOK sem st' t := by
  unfold LocalOK at h ⊢
  cases hp : t.pc with
  | storing k => rw [hp] at h; exact fun j hj g hg r hr => hle.rows _ (h j hj g hg r hr)
  | marking => rw [hp] at h; exact fun r hr => hle.rows _ (h r hr)
  | start => trivial
  | scanning => trivial
  | finished => trivial

theorem tstep_spec (sem : Sem) (st : Store) (t : Thread) (out : Outcome) (hi : Inv sem st) (hl : LocalOK sem st t) :
    Inv sem (tstep sem st t out).1 ∧ Le st (tstep sem st t out).1 ∧ LocalOK sem (tstep sem st t out).1 (tstep sem st t out).2 := by
  unfold tstep
  cases hp : t.pc with
  | start =>
    simp only []
    cases out with
    | ok =>
      by_cases hsc : st.layerScanned t.l t.s = true
      · rw [if_pos hsc]; exact ⟨hi, Le.refl _, by simp [LocalOK]⟩
      · rw [if_neg hsc]; exact ⟨hi, Le.refl _, by simp [LocalOK]⟩
    | fail => exact ⟨hi, Le.refl _, by simp [LocalOK]⟩
    | commitFail => exact ⟨hi, Le.refl _, by simp [LocalOK]⟩
  | scanning =>
    simp only []
    cases out with
    | ok => exact ⟨hi, Le.refl _, by simp only [LocalOK]; intro j hj; omega⟩
    | fail => exact ⟨hi, Le.refl _, by simp [LocalOK]⟩
    | commitFail => exact ⟨hi, Le.refl _, by simp [LocalOK]⟩
  | finished => simp only []; exact ⟨hi, Le.refl _, by simp [LocalOK, hp]⟩
  | marking =>
    simp only []
    have hc : ∀ r, r ∈ sem.scan t.s t.l → (⟨t.l, t.s, r⟩ : ArtRow) ∈ st.rows := by
      unfold LocalOK at hl; rw [hp] at hl; exact hl
    cases out with
    | ok => exact ⟨Store.inv_setLayerScanned hi t.l t.s hc, Store.le_setLayerScanned _ _ _, by simp [LocalOK]⟩
    | fail => exact ⟨hi, Le.refl _, by simp [LocalOK]⟩
    | commitFail => exact ⟨Store.inv_setLayerScanned hi t.l t.s hc, Store.le_setLayerScanned _ _ _, by simp [LocalOK]⟩
  | storing k =>
    simp only []
    have hk : ∀ j, j < k → ∀ g, (toStore sem t.s t.l)[j]? = some g → ∀ r, r ∈ g → (⟨t.l, t.s, r⟩ : ArtRow) ∈ st.rows := by
      unfold LocalOK at hl; rw [hp] at hl; exact hl
    cases hg : (toStore sem t.s t.l)[k]? with
    | none =>
      simp only []
      refine ⟨hi, Le.refl _, ?_⟩
      simp only [LocalOK]
      intro r hr
      obtain ⟨g, hgm, hrg⟩ := mem_toStore_complete sem t.s t.l r hr
      obtain ⟨j, hj, hjg⟩ := List.getElem_of_mem hgm
      have hlen : (toStore sem t.s t.l).length ≤ k := by
        rcases Nat.lt_or_ge k (toStore sem t.s t.l).length with h | h
        · rw [List.getElem?_eq_getElem h] at hg; cases hg
        · exact h
      exact hk j (by omega) g (by rw [List.getElem?_eq_getElem hj, hjg]) r hrg
    | some g =>
      simp only []
      have hgs : ∀ r, r ∈ g → r ∈ sem.scan t.s t.l :=
        mem_toStore_sound sem t.s t.l g (List.mem_of_getElem? hg)
      have hins : ∀ (st' : Store), st' = st.insertRows t.l t.s g →
          ∀ j, j < k + 1 → ∀ g', (toStore sem t.s t.l)[j]? = some g' → ∀ r, r ∈ g' → (⟨t.l, t.s, r⟩ : ArtRow) ∈ st'.rows := by
        intro st' hst' j hj g' hg' r hr
        subst hst'
        rcases Nat.lt_or_ge j k with h | h
        · exact (Store.le_insertRows _ _ _ _).rows _ (hk j h g' hg' r hr)
        · have : j = k := by omega
          subst this
          rw [hg] at hg'; cases hg'
          exact Store.mem_insertRows _ _ _ _ _ hr
      cases out with
      | ok => exact ⟨Store.inv_insertRows hi _ _ _ hgs, Store.le_insertRows _ _ _ _, by simp only [LocalOK]; exact hins _ rfl⟩
      | fail => exact ⟨hi, Le.refl _, by simp [LocalOK]⟩
      | commitFail => exact ⟨Store.inv_insertRows hi _ _ _ hgs, Store.le_insertRows _ _ _ _, by simp [LocalOK]⟩

structure PInv (sem : Sem) (ps : PState) : Prop where
  inv : Inv sem ps.st
  loc : ∀ t, t ∈ ps.ths → LocalOK sem ps.st t

theorem pinv_step (sem : Sem) (ps : PState) (op : POp) (h : PInv sem ps) : PInv sem (step sem ps op).1 := by
  unfold step
  cases hi : ps.ths[op.i]? with
  | none => exact h
  | some t =>
    simp only []
    have ht : t ∈ ps.ths := List.mem_of_getElem? hi
    obtain ⟨h1, h2, h3⟩ := tstep_spec sem ps.st t op.out h.inv (h.loc t ht)
    refine ⟨h1, ?_⟩
    intro t' ht'
    rcases List.mem_or_eq_of_mem_set ht' with hm | rfl
    · exact (h.loc t' hm).mono h2
    · exact h3

theorem pinv_spawn (sem : Sem) (st : Store) (ps : List (Layer × Scanner)) (hi : Inv sem st) : PInv sem (spawn st ps) := by
  refine ⟨hi, ?_⟩
  intro t ht
  simp only [spawn, List.mem_map] at ht
  obtain ⟨p, _, rfl⟩ := ht
  simp [LocalOK]

theorem pinv_run (sem : Sem) (ops : List POp) (ps : PState) (h : PInv sem ps) : PInv sem (Sm.run (step sem) ps ops) :=
  Sm.invariant_run (step := step sem) (Inv := PInv sem) (fun s op hs => pinv_step sem s op hs) ops ps h

end ClairModel.ScanPar
