/-
  C18 — facts decided over the regenerated tables (`Gen.Cvss`) and the concrete
  witnesses of the statements the code does not satisfy.
-/
import ClairModel.Proofs.CvssV2

namespace ClairModel.Cvss
open ClairModel.Gen.Cvss ClairModel.CvssSpec

set_option maxRecDepth 100000 in
theorem v4_witness : ∃ v, parse4 v4ModifiedWitness = some v ∧ v4EffectiveNoImpact v = true ∧ score4 v = 100 := by
  refine ⟨(parse4 v4ModifiedWitness).getD (Vec.empty 0), ?_, ?_, ?_⟩ <;> decide +kernel

set_option maxRecDepth 100000 in
theorem v2_negative : (parse2 v2NegativeWitness).bind score2 = some (-2) := by decide +kernel

theorem rating_bands : ∀ n < 101, some (rating (n : Nat)) = inBands ratingBands (n : Nat) := by decide +kernel
theorem bands_one : ∀ n : Nat, n < 101 → (ratingBands.filter fun b => decide (b.1 ≤ (n : Int) ∧ (n : Int) ≤ b.2.1)).length = 1 := by
  decide +kernel
theorem osv3_bands : ∀ n < 101, bandOfQ osv3Cases osv3Default (tenth (n : Nat)) = inBands osvDocV3 (n : Nat) := by
  decide +kernel
theorem osv2_bands : ∀ n < 101, bandOfQ osv2Cases osv2Default (tenth (n : Nat)) = inBands osvDocV2 (n : Nat) := by
  decide +kernel

theorem lk3_eq_w3_all : ∀ m < 22, ∀ b ∈ g3 m, (14 ≤ m → b ≠ cX) → lk3 m b = w3 m b := by decide +kernel

theorem grammar3_eq_valid : ∀ m < 22, (∀ b ∈ g3 m, b ∈ v3Valid.getD m []) ∧ (∀ b ∈ v3Valid.getD m [], b ∈ g3 m) := by
  decide +kernel
theorem grammar4_eq_valid : ∀ m < 31, (∀ b ∈ v4GrammarValues.getD m [], b ∈ v4Valid.getD m []) ∧
    (∀ b ∈ v4Valid.getD m [], b ∈ v4GrammarValues.getD m []) := by
  decide +kernel
theorem v2_pack_unpack : ∀ m < 14, ∀ val ∈ v2GrammarValues.getD m [], v2Unparse m (v2Pack m val) = val ∧ v2Pack m val ≠ 0 := by
  decide +kernel
theorem osv3_ignored : osv3Ignored = (v3Names.drop 8) := by decide +kernel
theorem osv2_ignored : osv2Ignored = (v2Names.drop 6) := by decide +kernel
theorem names_len : v2Names.length = 14 ∧ v3Names.length = 22 ∧ v4Names.length = 32 ∧
    (v2GrammarValues.length = 14 ∧ v3GrammarValues.length = 22 ∧ v4GrammarValues.length = 31) := by decide
/-- `QualitativeScore` on ANY score*10 (also the negative v2 environmental ones): the case list of the switch -/
theorem rating_all (k : Int) :
    rating k = if k = 0 then 1 else if k < 40 then 2 else if k < 70 then 3 else if k < 90 then 4 else 5 := by
  simp only [rating, bandOf, qualCases, qualDefault]
  by_cases h0 : k = 0
  · simp [h0]
  · by_cases h1 : k < 40
    · simp [h0, h1]
    · by_cases h2 : k < 70
      · simp [h0, h1, h2]
      · by_cases h3 : k < 90 <;> simp [h0, h1, h2, h3]

end ClairModel.Cvss
