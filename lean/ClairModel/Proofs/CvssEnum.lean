/-
  C18 — the base-space enumerations are complete: a valid vector without
  temporal and environmental metrics is the base-only vector of its base
  values, each of them a value of the grammar.
-/
import ClairModel.Proofs.CvssV2
import ClairModel.Proofs.CvssPrint2
namespace ClairModel.Cvss
open ClairModel.Gen.Cvss ClairModel.CvssSpec

/-! ### the enumerations are complete: every parsed base-only vector is one of the swept ones -/

theorem anySet_false {v : Vec} {lo hi : Nat} (h : v.anySet lo hi = false) {j : Nat} (h1 : lo ≤ j) (h2 : j < hi) :
    v.get j = 0 := by
  unfold Vec.anySet at h
  by_cases hj : j < v.mv.length
  · have hmem : v.mv[j] ∈ (v.mv.take hi).drop lo := by
      rw [List.mem_iff_getElem]
      refine ⟨j - lo, by simp; omega, ?_⟩
      simp [List.getElem_drop, List.getElem_take]
      congr 1; omega
    have := (List.any_eq_false.1 h) _ hmem
    have this : v.mv[j] = 0 := by simpa using this
    simpa [Vec.get, List.getD_eq_getElem?_getD, List.getElem?_eq_getElem hj] using this
  · simp [Vec.get, List.getD_eq_getElem?_getD, List.getElem?_eq_none (by omega : v.mv.length ≤ j)]

/-- a valid v3 vector without temporal and environmental metrics is the
    base-only vector of its eight base values, all of them grammatical -/
theorem valid3_base_only {v : Vec} (hv : Valid3 v) (ht : v3Temporal v = false) (he : v3Environmental v = false) :
    v = mk3 v.ver (v.get 0) (v.get 1) (v.get 2) (v.get 3) (v.get 4) (v.get 5) (v.get 6) (v.get 7) ∧
    v.get 0 ∈ g3 0 ∧ v.get 1 ∈ g3 1 ∧ v.get 2 ∈ g3 2 ∧ v.get 3 ∈ g3 3 ∧ v.get 4 ∈ g3 4 ∧ v.get 5 ∈ g3 5 ∧
    v.get 6 ∈ g3 6 ∧ v.get 7 ∈ g3 7 := by
  have mem (m : Nat) (hm : m < 8) : v.get m ∈ g3 m :=
    (hv.vals m (by omega)).resolve_left (hv.base m hm)
  refine ⟨?_, mem 0 (by decide), mem 1 (by decide), mem 2 (by decide), mem 3 (by decide), mem 4 (by decide),
    mem 5 (by decide), mem 6 (by decide), mem 7 (by decide)⟩
  apply Vec.ext_get
  · rfl
  · rw [hv.len]; rfl
  · intro j hj
    rw [hv.len] at hj
    have hz : 8 ≤ j → v.get j = 0 := by
      intro h8
      by_cases h11 : j < 11
      · exact anySet_false ht h8 h11
      · exact anySet_false he (by omega) hj
    have : j = 0 ∨ j = 1 ∨ j = 2 ∨ j = 3 ∨ j = 4 ∨ j = 5 ∨ j = 6 ∨ j = 7 ∨ 8 ≤ j := by omega
    rcases this with rfl | rfl | rfl | rfl | rfl | rfl | rfl | rfl | h8
    all_goals first | rfl | skip
    rw [hz h8]
    have : j = 8 ∨ j = 9 ∨ j = 10 ∨ j = 11 ∨ j = 12 ∨ j = 13 ∨ j = 14 ∨ j = 15 ∨ j = 16 ∨ j = 17 ∨ j = 18 ∨
        j = 19 ∨ j = 20 ∨ j = 21 := by omega
    rcases this with rfl | rfl | rfl | rfl | rfl | rfl | rfl | rfl | rfl | rfl | rfl | rfl | rfl | rfl <;> rfl

theorem pk2_eq_g2 : ∀ m < 6, pk2 m = g2 m := by decide

/-- a valid v2 vector without temporal and environmental metrics is the
    base-only vector of its six base values -/
theorem valid2_base_only {v : Vec} (hv : Valid2 v) (ht : v2Temporal v = false) (he : v2Environmental v = false) :
    v = mk2 (v.get 0) (v.get 1) (v.get 2) (v.get 3) (v.get 4) (v.get 5) ∧
    v.get 0 ∈ g2 0 ∧ v.get 1 ∈ g2 1 ∧ v.get 2 ∈ g2 2 ∧ v.get 3 ∈ g2 3 ∧ v.get 4 ∈ g2 4 ∧ v.get 5 ∈ g2 5 := by
  have mem (m : Nat) (hm : m < 6) : v.get m ∈ g2 m := by
    rw [← pk2_eq_g2 m hm]; exact hv.base m hm
  refine ⟨?_, mem 0 (by decide), mem 1 (by decide), mem 2 (by decide), mem 3 (by decide), mem 4 (by decide),
    mem 5 (by decide)⟩
  apply Vec.ext_get
  · exact hv.ver
  · rw [hv.len]; rfl
  · intro j hj
    rw [hv.len] at hj
    have hz : 6 ≤ j → v.get j = 0 := by
      intro h6
      by_cases h9 : j < 9
      · exact anySet_false ht h6 h9
      · exact anySet_false he (by omega) hj
    have : j = 0 ∨ j = 1 ∨ j = 2 ∨ j = 3 ∨ j = 4 ∨ j = 5 ∨ 6 ≤ j := by omega
    rcases this with rfl | rfl | rfl | rfl | rfl | rfl | h6
    all_goals first | rfl | skip
    rw [hz h6]
    have : j = 6 ∨ j = 7 ∨ j = 8 ∨ j = 9 ∨ j = 10 ∨ j = 11 ∨ j = 12 ∨ j = 13 := by omega
    rcases this with rfl | rfl | rfl | rfl | rfl | rfl | rfl | rfl <;> rfl

end ClairModel.Cvss
