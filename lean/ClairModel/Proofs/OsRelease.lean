/-
  os-release: the writer (shell-style quoting as os-release(5) prescribes) and
  the lemmas behind the C02 theorems about `OsRelease.parse`.
-/
import ClairModel.Model.OsRelease

namespace ClairModel.OsRelease
open ClairModel.Bytes
open ClairModel.Apk (trimSpace isSpace)

/-! ### writer -/

/-- inside double quotes `` ` \ " $ `` are escaped with a backslash -/
def escapeDQ (v : Bytes) : Bytes := v.flatMap (fun c => if dqSpecial c then [92, c] else [c])

/-- inside single quotes a single quote is written `'\''` -/
def escapeSQ (v : Bytes) : Bytes := v.flatMap (fun c => if c = 39 then [39, 92, 39, 39] else [c])

def dquote (v : Bytes) : Bytes := 34 :: (escapeDQ v ++ [34])
def squote (v : Bytes) : Bytes := 39 :: (escapeSQ v ++ [39])

/-! ### unescaping inverts escaping -/

theorem unescapeDQ_escapeDQ (v : Bytes) : unescapeDQ (escapeDQ v) = v := by
  induction v with
  | nil => rfl
  | cons c cs ih =>
    simp only [escapeDQ, List.flatMap_cons] at ih ⊢
    by_cases hc : dqSpecial c = true
    · simp only [hc, if_true, List.cons_append, List.nil_append, unescapeDQ, true_and]
      simp [ih]
    · have hc' : dqSpecial c = false := by simpa using hc
      have h92 : c ≠ 92 := by intro e; subst e; simp [dqSpecial] at hc'
      simp only [hc', Bool.false_eq_true, if_false, List.cons_append, List.nil_append]
      cases hrest : (List.flatMap (fun c => if dqSpecial c = true then [92, c] else [c]) cs) with
      | nil =>
        rw [hrest] at ih
        simp [unescapeDQ, ← ih]
      | cons d ds =>
        rw [hrest] at ih
        simp [unescapeDQ, h92, ih]

theorem replaceSQ_cons_ne (c : Nat) (cs : Bytes) (hc : c ≠ 39) : replaceSQ (c :: cs) = c :: replaceSQ cs := by
  match cs with
  | [] => simp [replaceSQ]
  | [a] => simp [replaceSQ]
  | [a, b] => simp [replaceSQ]
  | a :: b :: d :: rest => simp [replaceSQ, hc]

theorem replaceSQ_escapeSQ (v : Bytes) : replaceSQ (escapeSQ v) = v := by
  induction v with
  | nil => rfl
  | cons c cs ih =>
    simp only [escapeSQ, List.flatMap_cons] at ih ⊢
    by_cases hc : c = 39
    · subst hc
      simp only [if_true, List.cons_append, List.nil_append, replaceSQ, and_self]
      simp [ih]
    · simp only [hc, if_false, List.cons_append, List.nil_append]
      rw [replaceSQ_cons_ne _ _ hc, ih]

/-! ### trimming the quotes -/

theorem dropQuoteRight_snoc (q : Nat) (s : Bytes) : dropQuoteRight q (s ++ [q]) = dropQuoteRight q s := by
  induction s with
  | nil => simp [dropQuoteRight]
  | cons c cs ih => simp only [List.cons_append, dropQuoteRight, ih]

theorem dropQuoteRight_snoc_ne (q : Nat) (s : Bytes) (c : Nat) (hc : c ≠ q) :
    dropQuoteRight q (s ++ [c]) = s ++ [c] := by
  induction s with
  | nil => simp [dropQuoteRight, hc]
  | cons d ds ih =>
    simp only [List.cons_append, dropQuoteRight, ih]
    cases ds <;> simp

theorem dropQuoteLeft_ne (q c : Nat) (s : Bytes) (hc : c ≠ q) : dropQuoteLeft q (c :: s) = c :: s := by
  simp [dropQuoteLeft, hc]

/-- `v` does not end with the byte `q` -/
def NotEndsWith (q : Nat) (v : Bytes) : Prop := v = [] ∨ ∃ w c, v = w ++ [c] ∧ c ≠ q

/-- `v` does not start with the byte `q` -/
def NotStartsWith (q : Nat) (v : Bytes) : Prop := v = [] ∨ ∃ c w, v = c :: w ∧ c ≠ q

theorem escapeDQ_append (a b : Bytes) : escapeDQ (a ++ b) = escapeDQ a ++ escapeDQ b := by
  simp [escapeDQ]

theorem escapeSQ_append (a b : Bytes) : escapeSQ (a ++ b) = escapeSQ a ++ escapeSQ b := by
  simp [escapeSQ]

theorem escapeDQ_head (v : Bytes) : NotStartsWith 34 (escapeDQ v) := by
  cases v with
  | nil => exact Or.inl rfl
  | cons c cs =>
    by_cases hc : dqSpecial c = true
    · exact Or.inr ⟨92, c :: escapeDQ cs, by simp [escapeDQ, hc], by decide⟩
    · have hc' : dqSpecial c = false := by simpa using hc
      refine Or.inr ⟨c, escapeDQ cs, by simp [escapeDQ, hc'], ?_⟩
      intro e; subst e; simp [dqSpecial] at hc'

theorem trimQuote_dquote (v : Bytes) (h : NotEndsWith 34 v) : trimQuote 34 (dquote v) = escapeDQ v := by
  unfold trimQuote dquote
  have h1 : dropQuoteLeft 34 (34 :: (escapeDQ v ++ [34])) = dropQuoteLeft 34 (escapeDQ v ++ [34]) := by
    simp [dropQuoteLeft]
  rw [h1]
  rcases h with rfl | ⟨w, c, rfl, hc⟩
  · simp [escapeDQ, dropQuoteLeft, dropQuoteRight]
  · have hl : dropQuoteLeft 34 (escapeDQ (w ++ [c]) ++ [34]) = escapeDQ (w ++ [c]) ++ [34] := by
      rcases escapeDQ_head (w ++ [c]) with h0 | ⟨d, ds, hd, hne⟩
      · have : escapeDQ (w ++ [c]) ≠ [] := by
          rw [escapeDQ_append]; by_cases hs : dqSpecial c = true <;> simp [escapeDQ, hs]
        exact absurd h0 this
      · rw [hd, List.cons_append, dropQuoteLeft_ne _ _ _ hne]
    rw [hl, dropQuoteRight_snoc, escapeDQ_append]
    have : escapeDQ [c] = (if dqSpecial c then [92] else []) ++ [c] := by
      by_cases hs : dqSpecial c = true <;> simp [escapeDQ, hs]
    rw [this, ← List.append_assoc, dropQuoteRight_snoc_ne _ _ _ hc]

theorem trimQuote_squote (v : Bytes) (hs : NotStartsWith 39 v) (he : NotEndsWith 39 v) :
    trimQuote 39 (squote v) = escapeSQ v := by
  unfold trimQuote squote
  have h1 : dropQuoteLeft 39 (39 :: (escapeSQ v ++ [39])) = dropQuoteLeft 39 (escapeSQ v ++ [39]) := by
    simp [dropQuoteLeft]
  rw [h1]
  rcases he with rfl | ⟨w, c, rfl, hc⟩
  · simp [escapeSQ, dropQuoteLeft, dropQuoteRight]
  · have hl : dropQuoteLeft 39 (escapeSQ (w ++ [c]) ++ [39]) = escapeSQ (w ++ [c]) ++ [39] := by
      rcases hs with h0 | ⟨d, ds, hd, hne⟩
      · simp at h0
      · rw [hd]
        have : escapeSQ (d :: ds) = d :: escapeSQ ds := by simp [escapeSQ, hne]
        rw [this, List.cons_append, dropQuoteLeft_ne _ _ _ hne]
    rw [hl, dropQuoteRight_snoc, escapeSQ_append]
    have : escapeSQ [c] = [c] := by simp [escapeSQ, hc]
    rw [this, dropQuoteRight_snoc_ne _ _ _ hc]

/-- Double-quoted values are read back, unless the value ends with `"`. -/
theorem unquote_dquote (v : Bytes) (h : NotEndsWith 34 v) : unquote (dquote v) = v := by
  have : unquote (dquote v) = unescapeDQ (trimQuote 34 (dquote v)) := by
    simp [unquote, dquote]
  rw [this, trimQuote_dquote v h, unescapeDQ_escapeDQ]

/-- Single-quoted values are read back, unless the value starts or ends with `'`. -/
theorem unquote_squote (v : Bytes) (hs : NotStartsWith 39 v) (he : NotEndsWith 39 v) :
    unquote (squote v) = v := by
  have : unquote (squote v) = replaceSQ (trimQuote 39 (squote v)) := by
    simp [unquote, squote]
  rw [this, trimQuote_squote v hs he, replaceSQ_escapeSQ]

/-- Unquoted values are taken as they are. -/
theorem unquote_bare (v : Bytes) (h1 : NotStartsWith 39 v) (h2 : NotStartsWith 34 v) : unquote v = v := by
  cases v with
  | nil => rfl
  | cons c cs =>
    have c1 : c ≠ 39 := by
      rcases h1 with h | ⟨d, w, hd, hne⟩
      · cases h
      · cases hd; exact hne
    have c2 : c ≠ 34 := by
      rcases h2 with h | ⟨d, w, hd, hne⟩
      · cases h
      · cases hd; exact hne
    simp [unquote, c1, c2]

/-! ### lines and files -/

/-- white-space free at both ends -/
def Trimmed (s : Bytes) : Prop := trimSpace s = s

/-- one assignment as written: key, and the value in its written (quoted) form -/
structure Assign where
  key : Bytes
  written : Bytes
  value : Bytes

/-- legal assignment: non-empty key without `=`, not starting with `#`, no
    white space around key or written value, no newline / carriage return, and
    the written form denotes the value under `unquote`. -/
structure Assign.WF (a : Assign) : Prop where
  key_eq : 61 ∉ a.key
  key_trim : Trimmed a.key
  line_trim : Trimmed (a.key ++ 61 :: a.written)
  written_trim : Trimmed a.written
  first : ∃ c cs, a.key = c :: cs ∧ c ≠ 35
  denotes : unquote a.written = a.value
  no_nl : 10 ∉ a.key ++ 61 :: a.written
  no_cr : NotEndsWith 13 (a.key ++ 61 :: a.written)

def Assign.line (a : Assign) : Bytes := a.key ++ 61 :: a.written

theorem parseLine_assign (m : List (Bytes × Bytes)) (a : Assign) (w : a.WF) :
    parseLine m a.line = some (mapSet m a.key a.value) := by
  obtain ⟨c, cs, hk, hc⟩ := w.first
  have hline : trimSpace (a.key ++ 61 :: a.written) = c :: (cs ++ 61 :: a.written) := by
    rw [show trimSpace (a.key ++ 61 :: a.written) = a.key ++ 61 :: a.written from w.line_trim, hk]; rfl
  have hcut : cut 61 (c :: (cs ++ 61 :: a.written)) = some (a.key, a.written) := by
    rw [← List.cons_append, ← hk]; exact cut_append 61 a.key a.written w.key_eq
  unfold parseLine
  simp only [Assign.line, hline, hc, if_false, hcut]
  rw [show trimSpace a.key = a.key from w.key_trim, show trimSpace a.written = a.written from w.written_trim,
    w.denotes]

/-- comment and blank lines change nothing -/
def Noise (l : Bytes) : Prop := trimSpace l = [] ∨ ∃ cs, trimSpace l = 35 :: cs

theorem parseLine_noise (m : List (Bytes × Bytes)) (l : Bytes) (h : Noise l) : parseLine m l = some m := by
  unfold parseLine
  rcases h with h | ⟨cs, h⟩ <;> simp [h]

theorem parseLines_assigns (as : List Assign) (hw : ∀ a ∈ as, a.WF) (m : List (Bytes × Bytes)) :
    parseLines m (as.map Assign.line) = some (as.foldl (fun m a => mapSet m a.key a.value) m) := by
  induction as generalizing m with
  | nil => rfl
  | cons a as ih =>
    simp only [List.map_cons, parseLines, parseLine_assign m a (hw a (by simp)), List.foldl_cons]
    exact ih (fun x hx => hw x (List.mem_cons_of_mem _ hx)) _

/-! ### the map -/

theorem mapGet_mapSet (m : List (Bytes × Bytes)) (k v k' : Bytes) :
    mapGet (mapSet m k v) k' = if k = k' then some v else mapGet m k' := by
  induction m with
  | nil => simp [mapSet, mapGet]
  | cons a r ih =>
    obtain ⟨a1, a2⟩ := a
    simp only [mapSet]
    by_cases h1 : a1 = k
    · subst h1
      simp only [if_true, mapGet]
      by_cases h2 : a1 = k' <;> simp [h2]
    · simp only [h1, if_false, mapGet, ih]
      by_cases h2 : a1 = k'
      · subst h2
        have : ¬ k = a1 := fun e => h1 e.symm
        simp [this]
      · simp [h2]

/-- the last assignment of a key wins -/
def lastValue (as : List Assign) (k : Bytes) : Option Bytes :=
  as.foldl (fun acc a => if a.key = k then some a.value else acc) none

theorem mapGet_foldl (as : List Assign) (m : List (Bytes × Bytes)) (k : Bytes) :
    mapGet (as.foldl (fun m a => mapSet m a.key a.value) m) k =
      as.foldl (fun acc a => if a.key = k then some a.value else acc) (mapGet m k) := by
  induction as generalizing m with
  | nil => rfl
  | cons a as ih =>
    simp only [List.foldl_cons, ih, mapGet_mapSet]

/-! ### scanLines on written files -/

theorem dropCR_of_notEnds (l : Bytes) (h : NotEndsWith 13 l) : dropCR l = l := by
  rcases h with rfl | ⟨w, c, rfl, hc⟩
  · rfl
  · induction w with
    | nil => simp [dropCR, hc]
    | cons d ds ih =>
      cases hds : ds ++ [c] with
      | nil => simp at hds
      | cons e es =>
        simp only [List.cons_append, hds, dropCR]
        rw [← hds, ih]

def joinNl (ls : List Bytes) : Bytes := ls.flatMap (fun l => l ++ [10])

theorem dropLastIfEmpty_snoc_nil (ls : List Bytes) : dropLastIfEmpty (ls ++ [[]]) = ls := by
  induction ls with
  | nil => simp [dropLastIfEmpty]
  | cons l ls ih =>
    cases hls : ls ++ [[]] with
    | nil => simp at hls
    | cons q r =>
      simp only [List.cons_append, hls, dropLastIfEmpty]
      rw [← hls, ih]

theorem splitOn_joinNl (ls : List Bytes) (h : ∀ l ∈ ls, 10 ∉ l) : splitOn 10 (joinNl ls) = ls ++ [[]] := by
  induction ls with
  | nil => simp [joinNl, splitOn]
  | cons l ls ih =>
    have : joinNl (l :: ls) = l ++ 10 :: joinNl ls := by simp [joinNl]
    rw [this, splitOn_append_sep 10 l _ (h l (by simp)), ih (fun x hx => h x (List.mem_cons_of_mem _ hx))]
    simp

/-- `bufio.ScanLines` over newline-terminated clean lines gives the lines back -/
theorem scanLines_joinNl (ls : List Bytes) (h : ∀ l ∈ ls, 10 ∉ l ∧ NotEndsWith 13 l) :
    scanLines (joinNl ls) = ls := by
  unfold scanLines
  rw [splitOn_joinNl ls (fun l hl => (h l hl).1), dropLastIfEmpty_snoc_nil]
  induction ls with
  | nil => rfl
  | cons l ls ih =>
    simp only [List.map_cons, dropCR_of_notEnds l (h l (by simp)).2]
    rw [ih (fun x hx => h x (List.mem_cons_of_mem _ hx))]

end ClairModel.OsRelease
