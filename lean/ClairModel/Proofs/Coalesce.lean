/-
  C01 — lemmas about the coalescing model (Model/Coalesce.lean).
  Core Lean only.
-/
import ClairModel.Model.Coalesce

namespace ClairModel.Coalesce

/-! ### association lists -/

section AList
variable {β : Type}

@[simp] theorem aget_nil (k : String) : aget k ([] : List (String × β)) = none := rfl

theorem aget_cons (k k' : String) (v : β) (m : List (String × β)) :
    aget k ((k', v) :: m) = if k' = k then some v else aget k m := rfl

theorem aget_aset (k k' : String) (v : β) (m : List (String × β)) :
    aget k' (aset k v m) = if k = k' then some v else aget k' m := by
  induction m with
  | nil => simp [aset, aget_cons]
  | cons e m ih =>
    obtain ⟨k0, v0⟩ := e
    simp only [aset]
    by_cases h : k0 = k
    · subst h
      simp only [if_true, aget_cons]
      by_cases h2 : k0 = k' <;> simp [h2]
    · simp only [h, if_false, aget_cons, ih]
      by_cases h2 : k0 = k'
      · subst h2
        have : ¬ k = k0 := fun h3 => h h3.symm
        simp [this]
      · simp [h2]

theorem aget_aset_self (k : String) (v : β) (m : List (String × β)) : aget k (aset k v m) = some v := by
  simp [aget_aset]

theorem aget_aset_ne {k k' : String} (h : k ≠ k') (v : β) (m : List (String × β)) :
    aget k' (aset k v m) = aget k' m := by
  simp [aget_aset, h]

theorem mem_of_aget {k : String} {v : β} {m : List (String × β)} (h : aget k m = some v) : (k, v) ∈ m := by
  induction m with
  | nil => simp at h
  | cons e m ih =>
    obtain ⟨k0, v0⟩ := e
    rw [aget_cons] at h
    by_cases h0 : k0 = k
    · simp [h0] at h; subst h0; subst h; exact List.mem_cons_self
    · simp [h0] at h; exact List.mem_cons_of_mem _ (ih h)

theorem aget_isSome_of_mem {k : String} {v : β} {m : List (String × β)} (h : (k, v) ∈ m) : (aget k m).isSome := by
  induction m with
  | nil => simp at h
  | cons e m ih =>
    obtain ⟨k0, v0⟩ := e
    rw [aget_cons]
    by_cases h0 : k0 = k
    · simp [h0]
    · simp only [h0, if_false]
      rcases List.mem_cons.1 h with h1 | h1
      · exact absurd (congrArg Prod.fst h1).symm h0
      · exact ih h1

theorem mem_aset {k k' : String} {v v' : β} {m : List (String × β)} (h : (k', v') ∈ aset k v m) :
    (k' = k ∧ v' = v) ∨ (k', v') ∈ m := by
  induction m with
  | nil =>
    simp [aset] at h; exact Or.inl h
  | cons e m ih =>
    obtain ⟨k0, v0⟩ := e
    simp only [aset] at h
    by_cases h0 : k0 = k
    · simp only [h0, if_true] at h
      rcases List.mem_cons.1 h with h1 | h1
      · left; simpa using h1
      · right; exact List.mem_cons_of_mem _ h1
    · simp only [h0, if_false] at h
      rcases List.mem_cons.1 h with h1 | h1
      · right; rw [h1]; exact List.mem_cons_self
      · rcases ih h1 with h2 | h2
        · exact Or.inl h2
        · right; exact List.mem_cons_of_mem _ h2

theorem aget_aset_isSome {k k' : String} {v : β} {m : List (String × β)} (h : (aget k' m).isSome) :
    (aget k' (aset k v m)).isSome := by
  rw [aget_aset]; by_cases h0 : k = k' <;> simp [h0, h]

theorem aget_aappend (k k' : String) (vs : List β) (m : List (String × List β)) :
    aget k' (aappend k vs m) = if k = k' then some ((aget k m).getD [] ++ vs) else aget k' m := by
  simp [aappend, aget_aset]

theorem mem_aappend {k k' : String} {vs ws : List β} {m : List (String × List β)}
    (h : (k', ws) ∈ aappend k vs m) : (k' = k ∧ ws = (aget k m).getD [] ++ vs) ∨ (k', ws) ∈ m :=
  mem_aset h

/-- `foldl aset`: membership comes from the start map or from the list. -/
theorem mem_foldl_aset {xs : List (String × β)} {src : List (String × β)} {k : String} {v : β}
    (h : (k, v) ∈ xs.foldl (fun m e => aset e.1 e.2 m) src) : (k, v) ∈ src ∨ (k, v) ∈ xs := by
  induction xs generalizing src with
  | nil => exact Or.inl h
  | cons e xs ih =>
    simp only [List.foldl_cons] at h
    rcases ih h with h1 | h1
    · rcases mem_aset h1 with ⟨hk, hv⟩ | h2
      · right; rw [hk, hv]; exact List.mem_cons_self
      · exact Or.inl h2
    · right; exact List.mem_cons_of_mem _ h1

theorem isSome_foldl_aset_of_src {xs : List (String × β)} {src : List (String × β)} {k : String}
    (h : (aget k src).isSome) : (aget k (xs.foldl (fun m e => aset e.1 e.2 m) src)).isSome := by
  induction xs generalizing src with
  | nil => exact h
  | cons e xs ih => exact ih (aget_aset_isSome h)

theorem isSome_foldl_aset_of_mem {xs : List (String × β)} {src : List (String × β)} {k : String} {v : β}
    (h : (k, v) ∈ xs) : (aget k (xs.foldl (fun m e => aset e.1 e.2 m) src)).isSome := by
  induction xs generalizing src with
  | nil => simp at h
  | cons e xs ih =>
    simp only [List.foldl_cons]
    rcases List.mem_cons.1 h with h1 | h1
    · apply isSome_foldl_aset_of_src
      rw [← h1]; simp [aget_aset_self]
    · exact ih h1

end AList

/-! ### the well-formedness invariant of a report -/

def allPkgs (arts : List Layer) : List Pkg := arts.flatMap (·.pkgs)

theorem mem_allPkgs {arts : List Layer} {a : Layer} {p : Pkg} (ha : a ∈ arts) (hp : p ∈ a.pkgs) : p ∈ allPkgs arts :=
  List.mem_flatMap.2 ⟨a, ha, hp⟩

/-- Every key of `m` is a key of `m'`. -/
def Grows {β : Type} (m m' : List (String × β)) : Prop := ∀ k, (aget k m).isSome → (aget k m').isSome

theorem Grows.refl {β : Type} (m : List (String × β)) : Grows m m := fun _ h => h

theorem Grows.trans {β : Type} {a b c : List (String × β)} (h1 : Grows a b) (h2 : Grows b c) : Grows a c :=
  fun k h => h2 k (h1 k h)

theorem grows_aset {β : Type} (k : String) (v : β) (m : List (String × β)) : Grows m (aset k v m) :=
  fun _ h => aget_aset_isSome h

/-- The distribution id is empty (Go's zero value: no distribution) or a key of the
    distributions map; every repository id is a key of the repositories map — or, in the
    non-strict reading (`¬ S`) needed for the gobin coalescer only, the empty string. -/
def EnvResolves (S : Prop) (dists : List (String × Dist)) (repos : List (String × Repo)) (e : Env) : Prop :=
  (e.distId = "" ∨ (aget e.distId dists).isSome) ∧ ∀ rid ∈ e.repoIds, (¬ S ∧ rid = "") ∨ (aget rid repos).isSome

theorem EnvResolves.mono {S : Prop} {d d' : List (String × Dist)} {r r' : List (String × Repo)} {e : Env}
    (h : EnvResolves S d r e) (hd : Grows d d') (hr : Grows r r') : EnvResolves S d' r' e :=
  ⟨h.1.imp id (hd _), fun rid hrid => (h.2 rid hrid).imp id (hr _)⟩

theorem EnvResolves.weaken {S S' : Prop} {d : List (String × Dist)} {r : List (String × Repo)} {e : Env}
    (h : EnvResolves S d r e) (hs : S' → S) : EnvResolves S' d r e :=
  ⟨h.1, fun rid hrid => (h.2 rid hrid).imp (fun x => ⟨fun s' => x.1 (hs s'), x.2⟩) id⟩

/-- `Inv S B r`: every package entry is stored under its own id and has a non-empty
    environment list; every environment entry belongs to a reported package, satisfies
    `B id e` (what the artifacts say about it) and its ids resolve inside `r`. -/
structure Inv (S : Prop) (B : String → Env → Prop) (r : Report) : Prop where
  pkgEnv : ∀ id p, (id, p) ∈ r.pkgs → p.id = id ∧ ∃ es, aget id r.envs = some es ∧ es ≠ []
  envOk : ∀ id es, (id, es) ∈ r.envs →
    (aget id r.pkgs).isSome ∧ ∀ e ∈ es, B id e ∧ EnvResolves S r.dists r.repos e

theorem inv_of_nil {S : Prop} {B : String → Env → Prop} {r : Report} (hp : r.pkgs = []) (he : r.envs = []) : Inv S B r :=
  ⟨by simp [hp], by simp [he]⟩

theorem inv_mono {S : Prop} {B B' : String → Env → Prop} {r : Report} (h : Inv S B r) (hB : ∀ id e, B id e → B' id e) : Inv S B' r :=
  ⟨h.pkgEnv, fun id es hm => ⟨(h.envOk id es hm).1, fun e he => ⟨hB _ _ ((h.envOk id es hm).2 e he).1, ((h.envOk id es hm).2 e he).2⟩⟩⟩

theorem inv_weaken {S S' : Prop} {B : String → Env → Prop} {r : Report} (h : Inv S B r) (hs : S' → S) : Inv S' B r :=
  ⟨h.pkgEnv, fun id es hm => ⟨(h.envOk id es hm).1, fun e he => ⟨((h.envOk id es hm).2 e he).1, ((h.envOk id es hm).2 e he).2.weaken hs⟩⟩⟩

theorem inv_grow {S : Prop} {B : String → Env → Prop} {r : Report} (h : Inv S B r)
    {d' : List (String × Dist)} {rp' : List (String × Repo)} (hd : Grows r.dists d') (hr : Grows r.repos rp') :
    Inv S B { r with dists := d', repos := rp' } :=
  ⟨h.pkgEnv, fun id es hm => ⟨(h.envOk id es hm).1, fun e he =>
    ⟨((h.envOk id es hm).2 e he).1, ((h.envOk id es hm).2 e he).2.mono hd hr⟩⟩⟩

theorem inv_addPkgEnv {S : Prop} {B : String → Env → Prop} {r : Report} (h : Inv S B r) (p : Pkg) (e : Env)
    (hB : B p.id e) (hR : EnvResolves S r.dists r.repos e) : Inv S B (r.addPkgEnv p e) := by
  constructor
  · intro id q hm
    simp only [Report.addPkgEnv] at hm ⊢
    rw [aget_aappend]
    rcases mem_aset hm with ⟨hk, hv⟩ | hold
    · subst hk; subst hv
      exact ⟨rfl, by simp⟩
    · obtain ⟨hid, es, hes, hne⟩ := h.pkgEnv id q hold
      refine ⟨hid, ?_⟩
      by_cases hk : p.id = id
      · simp [hk]
      · simp [hk, hes, hne]
  · intro id es hm
    simp only [Report.addPkgEnv] at hm ⊢
    rcases mem_aappend hm with ⟨hk, hv⟩ | hold
    · subst hk
      refine ⟨by simp [aget_aset_self], ?_⟩
      intro e' he'
      rw [hv] at he'
      rcases List.mem_append.1 he' with h1 | h1
      · cases hg : aget p.id r.envs with
        | none => simp [hg] at h1
        | some old =>
          simp [hg] at h1
          exact (h.envOk p.id old (mem_of_aget hg)).2 e' h1
      · simp at h1; subst h1; exact ⟨hB, hR⟩
    · obtain ⟨hp, hall⟩ := h.envOk id es hold
      exact ⟨aget_aset_isSome hp, hall⟩

theorem inv_setPkgEnv {S : Prop} {B : String → Env → Prop} {r : Report} (h : Inv S B r) (p : Pkg) (e : Env)
    (hB : B p.id e) (hR : EnvResolves S r.dists r.repos e) : Inv S B (r.setPkgEnv p e) := by
  constructor
  · intro id q hm
    simp only [Report.setPkgEnv] at hm ⊢
    rw [aget_aset]
    rcases mem_aset hm with ⟨hk, hv⟩ | hold
    · subst hk; subst hv
      exact ⟨rfl, by simp⟩
    · obtain ⟨hid, es, hes, hne⟩ := h.pkgEnv id q hold
      refine ⟨hid, ?_⟩
      by_cases hk : p.id = id
      · simp [hk]
      · simp [hk, hes, hne]
  · intro id es hm
    simp only [Report.setPkgEnv] at hm ⊢
    rcases mem_aset hm with ⟨hk, hv⟩ | hold
    · subst hk
      refine ⟨by simp [aget_aset_self], ?_⟩
      intro e' he'
      rw [hv] at he'
      simp at he'; subst he'; exact ⟨hB, hR⟩
    · obtain ⟨hp, hall⟩ := h.envOk id es hold
      exact ⟨aget_aset_isSome hp, hall⟩

/-! ### linux: package searcher, distribution searcher -/

theorem sameKey_refl (p : Pkg) : sameKey p p = true := by simp [sameKey]

theorem sameKey_iff (p q : Pkg) : sameKey p q = true ↔ p.name = q.name ∧ p.db = q.db ∧ p.version = q.version := by
  simp [sameKey]

/-- `Search` returns the first layer holding a package with the same key. -/
theorem pkgSearchFrom_some {p : Pkg} {arts : List Layer} {i j : Nat} {h : String}
    (hs : pkgSearchFrom p arts i = some (h, j)) :
    ∃ pre a post, arts = pre ++ a :: post ∧ j = i + pre.length ∧ a.hash = h ∧
      a.pkgs.any (sameKey p) = true ∧ ∀ b ∈ pre, b.pkgs.any (sameKey p) = false := by
  induction arts generalizing i with
  | nil => simp [pkgSearchFrom] at hs
  | cons a rest ih =>
    simp only [pkgSearchFrom] at hs
    by_cases hm : a.pkgs.any (sameKey p) = true
    · simp only [hm, if_true, Option.some.injEq, Prod.mk.injEq] at hs
      exact ⟨[], a, rest, rfl, by simp [hs.2.symm], hs.1, hm, by simp⟩
    · simp only [hm] at hs
      obtain ⟨pre, b, post, h1, h2, h3, h4, h5⟩ := ih hs
      refine ⟨a :: pre, b, post, by simp [h1], by simp [h2]; omega, h3, h4, ?_⟩
      intro c hc
      rcases List.mem_cons.1 hc with hc | hc
      · subst hc; simpa using hm
      · exact h5 c hc

theorem pkgSearchFrom_isSome {p : Pkg} {arts : List Layer} (i : Nat)
    (h : ∃ a ∈ arts, a.pkgs.any (sameKey p) = true) : (pkgSearchFrom p arts i).isSome := by
  induction arts generalizing i with
  | nil => obtain ⟨a, ha, _⟩ := h; simp at ha
  | cons a rest ih =>
    simp only [pkgSearchFrom]
    by_cases hm : a.pkgs.any (sameKey p) = true
    · simp [hm]
    · simp only [hm]
      apply ih
      obtain ⟨b, hb, hb2⟩ := h
      rcases List.mem_cons.1 hb with hb | hb
      · subst hb; exact absurd hb2 hm
      · exact ⟨b, hb, hb2⟩

theorem pkgSearch_of_mem {p : Pkg} {arts : List Layer} (hp : p ∈ allPkgs arts) : (pkgSearch arts p).isSome := by
  obtain ⟨a, ha, hpa⟩ := List.mem_flatMap.1 hp
  exact pkgSearchFrom_isSome 0 ⟨a, ha, List.any_eq_true.2 ⟨p, hpa, sameKey_refl p⟩⟩

theorem firstSome_mem {α : Type} {l : List (Option α)} {x : α} (h : firstSome l = some x) : some x ∈ l := by
  induction l with
  | nil => simp [firstSome] at h
  | cons o l ih =>
    cases o with
    | none => simp only [firstSome] at h; exact List.mem_cons_of_mem _ (ih h)
    | some y => simp only [firstSome, Option.some.injEq] at h; subst h; exact List.mem_cons_self

/-- Within bounds `Search` never fails, and a distribution it returns is one of the layers' own. -/
theorem distSearch_spec (slots : List (Option Dist)) (n : Nat) (hn : n < slots.length) :
    ∃ d, distSearch slots n = some d ∧ ∀ x, d = some x → some x ∈ slots := by
  unfold distSearch
  have hn' : ¬ n ≥ slots.length := by omega
  simp only [hn', if_false]
  cases hg : slots.getD n none with
  | some d =>
    refine ⟨some d, rfl, ?_⟩
    intro x hx
    cases hx
    rw [List.getD_eq_getElem?_getD] at hg
    cases hq : slots[n]? with
    | none => simp [hq] at hg
    | some o =>
      simp [hq] at hg; subst hg
      exact List.mem_of_getElem? hq
  | none =>
    cases hb : firstSome (slots.take n).reverse with
    | some d =>
      refine ⟨some d, rfl, ?_⟩
      intro x hx; cases hx
      have := firstSome_mem hb
      exact List.mem_of_mem_take (List.mem_reverse.1 this)
    | none =>
      refine ⟨_, rfl, ?_⟩
      intro x hx
      exact List.mem_of_mem_drop (firstSome_mem hx)

theorem setDists_keeps {ds : List Dist} {m : List (String × Dist)} {k : String} (h : (aget k m).isSome) :
    (aget k (setDists ds m)).isSome := by
  unfold setDists
  induction ds generalizing m with
  | nil => exact h
  | cons d ds ih => exact ih (aget_aset_isSome h)

theorem setDists_mem {ds : List Dist} {m : List (String × Dist)} {d : Dist} (h : d ∈ ds) :
    (aget d.id (setDists ds m)).isSome := by
  induction ds generalizing m with
  | nil => simp at h
  | cons d0 ds ih =>
    rcases List.mem_cons.1 h with h1 | h1
    · subst h1
      have : (aget d.id (aset d.id d m)).isSome := by simp [aget_aset_self]
      exact setDists_keeps (ds := ds) this
    · exact ih h1

theorem setRepos_keeps {rs : List Repo} {m : List (String × Repo)} {k : String} (h : (aget k m).isSome) :
    (aget k (setRepos rs m)).isSome := by
  unfold setRepos
  induction rs generalizing m with
  | nil => exact h
  | cons d ds ih => exact ih (aget_aset_isSome h)

theorem setRepos_mem {rs : List Repo} {m : List (String × Repo)} {r : Repo} (h : r ∈ rs) :
    (aget r.id (setRepos rs m)).isSome := by
  induction rs generalizing m with
  | nil => simp at h
  | cons d0 ds ih =>
    rcases List.mem_cons.1 h with h1 | h1
    · subst h1
      have : (aget r.id (aset r.id r m)).isSome := by simp [aget_aset_self]
      exact setRepos_keeps (rs := ds) this
    · exact ih h1

theorem grows_setRepos (rs : List Repo) (m : List (String × Repo)) : Grows m (setRepos rs m) :=
  fun _ h => setRepos_keeps h

/-! ### linux: the backwards walk keeps, per database, the packages of the newest layer that mentions it -/

def KeysUniq {β : Type} : List (String × β) → Prop
  | [] => True
  | (k, _) :: m => aget k m = none ∧ KeysUniq m

theorem keysUniq_aset {β : Type} {m : List (String × β)} (k : String) (v : β) (h : KeysUniq m) : KeysUniq (aset k v m) := by
  induction m with
  | nil => simp [aset, KeysUniq]
  | cons e m ih =>
    obtain ⟨k0, v0⟩ := e
    simp only [aset]
    by_cases h0 : k0 = k
    · subst h0
      simp only [if_true]
      exact ⟨h.1, h.2⟩
    · simp only [h0, if_false]
      refine ⟨?_, ih h.2⟩
      have : ¬ k = k0 := fun h3 => h0 h3.symm
      rw [aget_aset]; simp [this]; exact h.1

theorem aget_of_mem_uniq {β : Type} {m : List (String × β)} {k : String} {v : β} (h : KeysUniq m) (hm : (k, v) ∈ m) :
    aget k m = some v := by
  induction m with
  | nil => simp at hm
  | cons e m ih =>
    obtain ⟨k0, v0⟩ := e
    rw [aget_cons]
    rcases List.mem_cons.1 hm with h1 | h1
    · cases h1; simp
    · by_cases h0 : k0 = k
      · subst h0
        have := aget_isSome_of_mem h1
        rw [h.1] at this; simp at this
      · simp only [h0, if_false]; exact ih h.2 h1

def dbFilter (d : String) (ps : List Pkg) : List Pkg := ps.filter fun q => q.db = d

theorem aget_groupNew (dbs : List (String × List Pkg)) (pkgs : List Pkg) (tmp : List (String × List Pkg)) (d : String) :
    aget d (groupNew dbs pkgs tmp) =
      if (aget d dbs).isSome then aget d tmp
      else if dbFilter d pkgs = [] then aget d tmp else some ((aget d tmp).getD [] ++ dbFilter d pkgs) := by
  induction pkgs generalizing tmp with
  | nil => simp [groupNew, dbFilter]
  | cons p rest ih =>
    simp only [groupNew]
    by_cases hp : (aget p.db dbs).isSome = true
    · simp only [hp, if_true]
      rw [ih]
      by_cases hd : (aget d dbs).isSome = true
      · simp [hd]
      · have hne : ¬ p.db = d := by intro h; rw [h] at hp; exact hd hp
        simp [hd, dbFilter, hne]
    · simp only [hp, Bool.false_eq_true, if_false]
      rw [ih]
      by_cases hd : (aget d dbs).isSome = true
      · have hne : ¬ p.db = d := by intro h; rw [h] at hp; exact hp hd
        simp [hd, aget_aappend, hne]
      · simp only [hd]
        by_cases hpd : p.db = d
        · simp [dbFilter, hpd, aget_aappend]
        · simp [dbFilter, hpd, aget_aappend]

theorem keysUniq_groupNew (dbs : List (String × List Pkg)) (pkgs : List Pkg) (tmp : List (String × List Pkg))
    (h : KeysUniq tmp) : KeysUniq (groupNew dbs pkgs tmp) := by
  induction pkgs generalizing tmp with
  | nil => exact h
  | cons p rest ih =>
    simp only [groupNew]
    by_cases hp : (aget p.db dbs).isSome = true
    · simp only [hp, if_true]; exact ih tmp h
    · simp only [hp, Bool.false_eq_true, if_false]; exact ih _ (keysUniq_aset _ _ h)

theorem aget_mergeTmp (dbs tmp : List (String × List Pkg)) (h : KeysUniq tmp) (d : String) :
    aget d (mergeTmp dbs tmp) = match aget d tmp with | some v => some v | none => aget d dbs := by
  induction tmp generalizing dbs with
  | nil => simp [mergeTmp]
  | cons e tmp ih =>
    obtain ⟨k, v⟩ := e
    simp only [mergeTmp]
    rw [ih _ h.2, aget_cons]
    by_cases hk : k = d
    · subst hk; simp [h.1, aget_aset_self]
    · simp only [hk, if_false]
      rw [aget_aset_ne hk]

theorem keysUniq_mergeTmp (dbs tmp : List (String × List Pkg)) (h : KeysUniq dbs) : KeysUniq (mergeTmp dbs tmp) := by
  induction tmp generalizing dbs with
  | nil => exact h
  | cons e tmp ih => obtain ⟨k, v⟩ := e; exact ih _ (keysUniq_aset _ _ h)

theorem keysUniq_linuxDbs (arts : List Layer) : KeysUniq (linuxDbs arts) := by
  induction arts with
  | nil => simp [linuxDbs, KeysUniq]
  | cons a rest ih => simp only [linuxDbs]; exact keysUniq_mergeTmp _ _ ih

/-- `mentions d a`: some package of the layer is recorded in database `d`. -/
def mentions (d : String) (a : Layer) : Bool := a.pkgs.any fun q => q.db = d

/-- The newest (last) layer whose artifacts mention database `d`. -/
def lastMention (d : String) : List Layer → Option Layer
  | [] => none
  | a :: rest =>
    match lastMention d rest with
    | some x => some x
    | none => if mentions d a then some a else none

theorem lastMention_mem {d : String} {arts : List Layer} {a : Layer} (h : lastMention d arts = some a) :
    a ∈ arts ∧ mentions d a = true := by
  induction arts with
  | nil => simp [lastMention] at h
  | cons b rest ih =>
    simp only [lastMention] at h
    cases hr : lastMention d rest with
    | some x =>
      simp only [hr, Option.some.injEq] at h; subst h
      exact ⟨List.mem_cons_of_mem _ (ih hr).1, (ih hr).2⟩
    | none =>
      simp only [hr] at h
      by_cases hm : mentions d b = true
      · simp only [hm, if_true, Option.some.injEq] at h; subst h; exact ⟨List.mem_cons_self, hm⟩
      · simp [hm] at h

theorem dbFilter_eq_nil (d : String) (a : Layer) : dbFilter d a.pkgs = [] ↔ mentions d a = false := by
  simp [dbFilter, mentions, List.filter_eq_nil_iff]

theorem aget_linuxDbs (arts : List Layer) (d : String) :
    aget d (linuxDbs arts) = (lastMention d arts).map fun a => dbFilter d a.pkgs := by
  induction arts with
  | nil => simp [linuxDbs, lastMention]
  | cons a rest ih =>
    simp only [linuxDbs, lastMention]
    rw [aget_mergeTmp _ _ (keysUniq_groupNew _ _ _ (by simp [KeysUniq])), aget_groupNew, ih]
    cases hr : lastMention d rest with
    | some x => simp
    | none =>
      simp only [Option.map_none, Option.isSome_none, aget_nil, Option.getD_none, List.nil_append]
      by_cases hm : mentions d a = true
      · have : ¬ dbFilter d a.pkgs = [] := by rw [dbFilter_eq_nil]; simp [hm]
        simp [this, hm]
      · have : dbFilter d a.pkgs = [] := by rw [dbFilter_eq_nil]; simpa using hm
        simp [this, hm]

theorem mem_dbEntries {dbs : List (String × List Pkg)} {db : String} {p : Pkg} :
    (db, p) ∈ dbEntries dbs ↔ ∃ ps, (db, ps) ∈ dbs ∧ p ∈ ps := by
  simp only [dbEntries, List.mem_flatMap, List.mem_map]
  constructor
  · rintro ⟨⟨k, ps⟩, hm, q, hq, heq⟩
    cases heq
    exact ⟨ps, hm, hq⟩
  · rintro ⟨ps, hm, hq⟩
    exact ⟨(db, ps), hm, p, hq, rfl⟩

/-- Every (db, pkg) pair the coalescer walks over: `pkg` is recorded in `db` and sits in the newest layer mentioning `db`. -/
theorem mem_linux_entries {arts : List Layer} {db : String} {p : Pkg} :
    (db, p) ∈ dbEntries (linuxDbs arts) ↔ ∃ a, lastMention db arts = some a ∧ p ∈ a.pkgs ∧ p.db = db := by
  rw [mem_dbEntries]
  constructor
  · rintro ⟨ps, hm, hp⟩
    have := aget_of_mem_uniq (keysUniq_linuxDbs arts) hm
    rw [aget_linuxDbs] at this
    cases hl : lastMention db arts with
    | none => simp [hl] at this
    | some a =>
      simp [hl] at this; subst this
      simp [dbFilter] at hp
      exact ⟨a, rfl, hp.1, hp.2⟩
  · rintro ⟨a, hl, hp, hd⟩
    refine ⟨dbFilter db a.pkgs, mem_of_aget ?_, ?_⟩
    · rw [aget_linuxDbs, hl]; rfl
    · simp [dbFilter, hp, hd]

/-! ### linux: the report -/

/-- What the artifacts say about an environment of package `id` (identity by id):
    its `IntroducedIn` is the digest of a layer holding a package with that id in that database. -/
def BackedId (arts : List Layer) (id : String) (e : Env) : Prop :=
  ∃ a ∈ arts, a.hash = e.intro ∧ ∃ q ∈ a.pkgs, q.db = e.db ∧ q.id = id

/-- The same with the linux searcher's notion of identity: the layer holds a package with
    the name, version and database of an artifact package that carries the id. -/
def BackedKey (arts : List Layer) (id : String) (e : Env) : Prop :=
  ∃ a ∈ arts, a.hash = e.intro ∧ ∃ q ∈ a.pkgs, q.db = e.db ∧
    ∃ p ∈ allPkgs arts, p.id = id ∧ p.db = e.db ∧ p.name = q.name ∧ p.version = q.version

theorem BackedId.toKey {arts : List Layer} {id : String} {e : Env} (h : BackedId arts id e) : BackedKey arts id e := by
  obtain ⟨a, ha, hh, q, hq, hdb, hid⟩ := h
  exact ⟨a, ha, hh, q, hq, hdb, q, mem_allPkgs ha hq, hid, hdb, rfl, rfl⟩

theorem linuxEnv_db {arts : List Layer} {slots : List (Option Dist)} {db : String} {p : Pkg} {e : Env}
    (h : linuxEnv arts slots db p = .ok e) : e.db = db ∧ e.repoIds = [] := by
  unfold linuxEnv at h
  cases hs : pkgSearch arts p with
  | none => simp [hs] at h
  | some hi =>
    obtain ⟨hh, i⟩ := hi
    simp only [hs] at h
    cases hd : distSearch slots i with
    | none => simp [hd] at h
    | some d =>
      simp only [hd, Except.ok.injEq] at h
      subst h; exact ⟨rfl, rfl⟩

/-- For a package of the artifacts the coalescer always finds an introduction layer and a
    distribution slot: no nil dereference, no out-of-bounds error.  The environment names the
    *first* layer that holds a package with the same (name, database, version). -/
theorem linuxEnv_spec {arts : List Layer} {db : String} {p : Pkg} (hp : p ∈ allPkgs arts) :
    ∃ e, linuxEnv arts (distSlots arts) db p = .ok e ∧ e.db = db ∧ e.repoIds = [] ∧
      (∃ pre a post, arts = pre ++ a :: post ∧ a.hash = e.intro ∧ a.pkgs.any (sameKey p) = true ∧
        ∀ b ∈ pre, b.pkgs.any (sameKey p) = false) ∧
      (e.distId = "" ∨ ∃ x, some x ∈ distSlots arts ∧ x.id = e.distId) := by
  unfold linuxEnv
  have hs := pkgSearch_of_mem hp
  cases hq : pkgSearch arts p with
  | none => simp [hq] at hs
  | some hi =>
    obtain ⟨h, i⟩ := hi
    obtain ⟨pre, a, post, h1, h2, h3, h4, h5⟩ := pkgSearchFrom_some hq
    have hlen : i < (distSlots arts).length := by
      simp only [distSlots, List.length_map]
      rw [h1, h2]; simp
    obtain ⟨d, hd, hdm⟩ := distSearch_spec (distSlots arts) i hlen
    simp only [hd]
    refine ⟨_, rfl, rfl, rfl, ⟨pre, a, post, h1, h3, h4, h5⟩, ?_⟩
    cases d with
    | none => left; rfl
    | some x => right; exact ⟨x, hdm x rfl, rfl⟩

theorem linuxFill_inv {S : Prop} {arts : List Layer} (entries : List (String × Pkg)) (ir : Report)
    (hE : ∀ db p, (db, p) ∈ entries → p ∈ allPkgs arts ∧ p.db = db)
    (hI : Inv S (BackedKey arts) ir)
    (hd : ∀ x, some x ∈ distSlots arts → (aget x.id ir.dists).isSome) :
    ∃ r, linuxFill arts (distSlots arts) entries ir = .ok r ∧ Inv S (BackedKey arts) r ∧
      r.dists = ir.dists ∧ r.repos = ir.repos ∧ r.files = ir.files := by
  induction entries generalizing ir with
  | nil => exact ⟨ir, rfl, hI, rfl, rfl, rfl⟩
  | cons en rest ih =>
    obtain ⟨db, p⟩ := en
    obtain ⟨hp, hpdb⟩ := hE db p List.mem_cons_self
    obtain ⟨e, he, hedb, herepo, ⟨pre, a, post, h1, h3, h4, _⟩, hdist⟩ := linuxEnv_spec (db := db) hp
    simp only [linuxFill, he]
    have hB : BackedKey arts p.id e := by
      obtain ⟨q, hq, hk⟩ := List.any_eq_true.1 h4
      have hk' := (sameKey_iff p q).1 hk
      have ha : a ∈ arts := by rw [h1]; simp
      refine ⟨a, ha, h3, q, hq, ?_, p, hp, rfl, ?_, hk'.1, hk'.2.2⟩
      · rw [hedb, ← hpdb]; exact hk'.2.1.symm
      · rw [hedb]; exact hpdb
    have hR : EnvResolves S ir.dists ir.repos e := by
      refine ⟨?_, by simp [herepo]⟩
      rcases hdist with h | ⟨x, hx, hxe⟩
      · exact Or.inl h
      · right; rw [← hxe]; exact hd x hx
    obtain ⟨r, hr, hinv, hd', hr', hf'⟩ := ih (ir.addPkgEnv p e)
      (fun db' p' hm => hE db' p' (List.mem_cons_of_mem _ hm)) (inv_addPkgEnv hI p e hB hR) hd
    exact ⟨r, hr, hinv, hd', hr', hf'⟩

/-- environments only accumulate -/
theorem linuxFill_mono {arts : List Layer} {slots : List (Option Dist)} (entries : List (String × Pkg)) (ir r : Report)
    (h : linuxFill arts slots entries ir = .ok r) (id : String) (es0 : List Env) (h0 : aget id ir.envs = some es0) :
    ∃ es, aget id r.envs = some es ∧ ∀ e ∈ es0, e ∈ es := by
  induction entries generalizing ir es0 with
  | nil => simp only [linuxFill, Except.ok.injEq] at h; subst h; exact ⟨es0, h0, fun _ h => h⟩
  | cons en rest ih =>
    obtain ⟨db, p⟩ := en
    simp only [linuxFill] at h
    cases he : linuxEnv arts slots db p with
    | error f => simp [he] at h
    | ok e =>
      simp only [he] at h
      by_cases hk : p.id = id
      · have : aget id (ir.addPkgEnv p e).envs = some (es0 ++ [e]) := by
          simp [Report.addPkgEnv, aget_aappend, hk, h0]
        obtain ⟨es, h1, h2⟩ := ih _ h _ this
        exact ⟨es, h1, fun x hx => h2 x (List.mem_append_left _ hx)⟩
      · have : aget id (ir.addPkgEnv p e).envs = some es0 := by
          simp [Report.addPkgEnv, aget_aappend, hk, h0]
        exact ih _ h _ this

/-- every walked (db, pkg) pair leaves an environment with that database under the package's id -/
theorem linuxFill_has {arts : List Layer} {slots : List (Option Dist)} (entries : List (String × Pkg)) (ir r : Report)
    (h : linuxFill arts slots entries ir = .ok r) (db : String) (p : Pkg) (hm : (db, p) ∈ entries) :
    ∃ es, aget p.id r.envs = some es ∧ ∃ e ∈ es, e.db = db := by
  induction entries generalizing ir with
  | nil => simp at hm
  | cons en rest ih =>
    obtain ⟨db0, p0⟩ := en
    simp only [linuxFill] at h
    cases he : linuxEnv arts slots db0 p0 with
    | error f => simp [he] at h
    | ok e =>
      simp only [he] at h
      rcases List.mem_cons.1 hm with h1 | h1
      · cases h1
        have : aget p.id (ir.addPkgEnv p e).envs = some ((aget p.id ir.envs).getD [] ++ [e]) := by
          simp [Report.addPkgEnv, aget_aappend]
        obtain ⟨es, h2, h3⟩ := linuxFill_mono rest _ r h _ _ this
        exact ⟨es, h2, e, h3 e (by simp), (linuxEnv_db he).1⟩
      · exact ih _ h h1

/-- every environment of the result was there before or is the one built for a walked pair -/
theorem linuxFill_from {arts : List Layer} {slots : List (Option Dist)} (entries : List (String × Pkg)) (ir r : Report)
    (h : linuxFill arts slots entries ir = .ok r) (id : String) (es : List Env) (hes : aget id r.envs = some es)
    (e : Env) (hmem : e ∈ es) :
    (∃ es0, aget id ir.envs = some es0 ∧ e ∈ es0) ∨
      (∃ db p, (db, p) ∈ entries ∧ p.id = id ∧ linuxEnv arts slots db p = .ok e) := by
  induction entries generalizing ir with
  | nil => simp only [linuxFill, Except.ok.injEq] at h; subst h; exact Or.inl ⟨es, hes, hmem⟩
  | cons en rest ih =>
    obtain ⟨db0, p0⟩ := en
    simp only [linuxFill] at h
    cases he : linuxEnv arts slots db0 p0 with
    | error f => simp [he] at h
    | ok e0 =>
      simp only [he] at h
      rcases ih _ h with ⟨es0, h1, h2⟩ | ⟨db, p, h1, h2, h3⟩
      · simp only [Report.addPkgEnv, aget_aappend] at h1
        by_cases hk : p0.id = id
        · simp only [hk, if_true, Option.some.injEq] at h1
          rw [← h1] at h2
          rcases List.mem_append.1 h2 with h4 | h4
          · cases hg : aget id ir.envs with
            | none => simp [hg] at h4
            | some old => simp [hg] at h4; exact Or.inl ⟨old, rfl, h4⟩
          · simp at h4; subst h4
            exact Or.inr ⟨db0, p0, List.mem_cons_self, hk, he⟩
        · simp only [hk, if_false] at h1
          exact Or.inl ⟨es0, h1, h2⟩
      · exact Or.inr ⟨db, p, List.mem_cons_of_mem _ h1, h2, h3⟩

theorem linux_entries_ok {arts : List Layer} (db : String) (p : Pkg) (h : (db, p) ∈ dbEntries (linuxDbs arts)) :
    p ∈ allPkgs arts ∧ p.db = db := by
  obtain ⟨a, hl, hp, hd⟩ := mem_linux_entries.1 h
  exact ⟨mem_allPkgs (lastMention_mem hl).1 hp, hd⟩

theorem linuxCoalesce_ok {S : Prop} (arts : List Layer) :
    ∃ r, linuxCoalesce arts = .ok r ∧ Inv S (BackedKey arts) r ∧ r.repos = [] ∧ r.files = [] := by
  unfold linuxCoalesce
  obtain ⟨r, h1, h2, _, h4, h5⟩ := linuxFill_inv (arts := arts) (dbEntries (linuxDbs arts))
    { dists := setDists ((distSlots arts).filterMap id) [] }
    linux_entries_ok (inv_of_nil rfl rfl)
    (fun x hx => setDists_mem (List.mem_filterMap.2 ⟨some x, hx, rfl⟩))
  exact ⟨r, h1, h2, h4, h5⟩

/-! ### rhel: repository sharing touches only `repos` -/

/-- the parts of a layer's artifacts the sharing loops leave alone -/
def core (a : Layer) : String × List Pkg × List Dist := (a.hash, a.pkgs, a.dists)

theorem shareFwd_core (arts : List Layer) (prev : List Repo) : (shareFwd arts prev).1.map core = arts.map core := by
  induction arts generalizing prev with
  | nil => simp [shareFwd]
  | cons a rest ih =>
    simp only [shareFwd]
    by_cases h : filterRH a.repos ≠ []
    · rw [if_pos h]; simp only [List.map_cons]
      rw [ih]
    · rw [if_neg h]; simp only [List.map_cons]
      rw [ih]; simp [core]

theorem rhelShare_core (arts : List Layer) : (rhelShare arts).map core = arts.map core := by
  unfold rhelShare
  simp only [List.map_reverse, shareFwd_core]
  simp

theorem mem_of_core_eq {arts arts' : List Layer} (h : arts'.map core = arts.map core) {a' : Layer} (ha : a' ∈ arts') :
    ∃ a ∈ arts, core a = core a' := by
  have : core a' ∈ arts'.map core := List.mem_map.2 ⟨a', ha, rfl⟩
  rw [h] at this
  obtain ⟨a, ha, he⟩ := List.mem_map.1 this
  exact ⟨a, ha, he⟩

theorem BackedId.of_core {arts arts' : List Layer} (h : arts'.map core = arts.map core) {id : String} {e : Env}
    (hb : BackedId arts' id e) : BackedId arts id e := by
  obtain ⟨a', ha', hh, q, hq, hdb, hid⟩ := hb
  obtain ⟨a, ha, hc⟩ := mem_of_core_eq h ha'
  simp only [core, Prod.mk.injEq] at hc
  exact ⟨a, ha, hc.1.trans hh, q, hc.2.1 ▸ hq, hdb, hid⟩

/-! ### rhel: the forward walk -/

theorem penvGet_append (db id : String) (envs : List ((String × String) × Env)) (k : String × String) (e : Env) :
    penvGet db id (envs ++ [(k, e)]) =
      match penvGet db id envs with
      | some x => some x
      | none => if k.1 = db ∧ k.2 = id then some e else none := by
  induction envs with
  | nil => obtain ⟨d, i⟩ := k; simp [penvGet]
  | cons x envs ih =>
    obtain ⟨⟨d, i⟩, e0⟩ := x
    simp only [List.cons_append, penvGet]
    by_cases h : d = db ∧ i = id
    · simp [h]
    · simp only [h, if_false]; exact ih

/-- the environment the walk records for a package of layer `a` -/
def walkEnv (a : Layer) (distID : String) (db : String) : Env :=
  { db := db, intro := a.hash, distId := distID, repoIds := a.repos.map (·.id) }

theorem rhelWalkPkgs_spec (a : Layer) (distID : String) (pkgs : List Pkg) (envs : List ((String × String) × Env)) :
    (∀ db id e, penvGet db id (rhelWalkPkgs a distID pkgs envs) = some e →
        penvGet db id envs = some e ∨ (e = walkEnv a distID db ∧ ∃ p ∈ pkgs, p.db = db ∧ p.id = id)) ∧
    (∀ db id, (penvGet db id envs).isSome → (penvGet db id (rhelWalkPkgs a distID pkgs envs)).isSome) ∧
    (∀ p ∈ pkgs, (penvGet p.db p.id (rhelWalkPkgs a distID pkgs envs)).isSome) := by
  induction pkgs generalizing envs with
  | nil => simp [rhelWalkPkgs]
  | cons p rest ih =>
    simp only [rhelWalkPkgs]
    cases hg : penvGet p.db p.id envs with
    | some e0 =>
      simp only
      obtain ⟨h1, h2, h3⟩ := ih envs
      refine ⟨?_, h2, ?_⟩
      · intro db id e he
        rcases h1 db id e he with h | ⟨h, q, hq, hq2⟩
        · exact Or.inl h
        · exact Or.inr ⟨h, q, List.mem_cons_of_mem _ hq, hq2⟩
      · intro q hq
        rcases List.mem_cons.1 hq with h | h
        · subst h; apply h2; simp [hg]
        · exact h3 q h
    | none =>
      simp only
      obtain ⟨h1, h2, h3⟩ := ih (envs ++ [((p.db, p.id), walkEnv a distID p.db)])
      refine ⟨?_, ?_, ?_⟩
      · intro db id e he
        rcases h1 db id e he with h | ⟨h, q, hq, hq2⟩
        · rw [penvGet_append] at h
          cases hx : penvGet db id envs with
          | some x => simp [hx] at h; left; rw [h]
          | none =>
            simp only [hx] at h
            by_cases hk : p.db = db ∧ p.id = id
            · simp only [hk, and_self, if_true, Option.some.injEq] at h
              right; refine ⟨?_, p, List.mem_cons_self, hk.1, hk.2⟩
              rw [← h]
            · simp [hk] at h
        · exact Or.inr ⟨h, q, List.mem_cons_of_mem _ hq, hq2⟩
      · intro db id hs
        apply h2
        rw [penvGet_append]
        cases hx : penvGet db id envs with
        | some x => simp
        | none => simp [hx] at hs
      · intro q hq
        rcases List.mem_cons.1 hq with h | h
        · subst h; apply h2; rw [penvGet_append]; simp [hg]
        · exact h3 q h

/-- Invariant of the forward walk over the (shared) artifact list `arts`, with the
    repositories map `repos` the coalescer has already filled. -/
structure WalkInv (arts : List Layer) (repos : List (String × Repo)) (w : RhelWalk) : Prop where
  cur : ∀ d, w.cur = some d → (aget d.id w.dists).isSome
  envs : ∀ db id e, penvGet db id w.envs = some e →
    e.db = db ∧ BackedId arts id e ∧ (e.distId = "" ∨ (aget e.distId w.dists).isSome) ∧
      ∀ rid ∈ e.repoIds, (aget rid repos).isSome

theorem rhelWalk_spec (arts : List Layer) (repos : List (String × Repo)) (todo : List Layer) (w : RhelWalk)
    (hsub : ∀ a ∈ todo, a ∈ arts ∧ ∀ r ∈ a.repos, (aget r.id repos).isSome)
    (hw : WalkInv arts repos w) :
    WalkInv arts repos (rhelWalk todo w) ∧ Grows w.dists (rhelWalk todo w).dists ∧
    (∀ db id, (penvGet db id w.envs).isSome → (penvGet db id (rhelWalk todo w).envs).isSome) ∧
    (∀ a ∈ todo, ∀ p ∈ a.pkgs, (penvGet p.db p.id (rhelWalk todo w).envs).isSome) := by
  induction todo generalizing w with
  | nil => exact ⟨hw, Grows.refl _, fun _ _ h => h, by simp⟩
  | cons a rest ih =>
    obtain ⟨haA, haR⟩ := hsub a List.mem_cons_self
    -- the state after this layer
    have key : ∀ (cur : Option Dist) (dists : List (String × Dist)),
        (∀ d, cur = some d → (aget d.id dists).isSome) → Grows w.dists dists →
        WalkInv arts repos
          { cur := cur, dists := dists, envs := rhelWalkPkgs a ((cur.map (·.id)).getD "") a.pkgs w.envs } := by
      intro cur dists hcur hg
      obtain ⟨h1, _, _⟩ := rhelWalkPkgs_spec a ((cur.map (·.id)).getD "") a.pkgs w.envs
      refine ⟨hcur, ?_⟩
      intro db id e he
      rcases h1 db id e he with h | ⟨h, p, hp, hpdb, hpid⟩
      · obtain ⟨e1, e2, e3, e4⟩ := hw.envs db id e h
        exact ⟨e1, e2, e3.imp (fun x => x) (hg _), e4⟩
      · subst h
        refine ⟨rfl, ⟨a, haA, rfl, p, hp, hpdb, hpid⟩, ?_, ?_⟩
        · cases cur with
          | none => left; rfl
          | some d => right; exact hcur d rfl
        · intro rid hrid
          simp only [walkEnv, List.mem_map] at hrid
          obtain ⟨r, hr, hre⟩ := hrid
          rw [← hre]; exact haR r hr
    have hrest : ∀ b ∈ rest, b ∈ arts ∧ ∀ r ∈ b.repos, (aget r.id repos).isSome :=
      fun b hb => hsub b (List.mem_cons_of_mem _ hb)
    simp only [rhelWalk]
    cases hd : a.dists with
    | nil =>
      simp only
      have hk := key w.cur w.dists hw.cur (Grows.refl _)
      obtain ⟨i1, i2, i3, i4⟩ := ih _ hrest hk
      obtain ⟨_, s2, s3⟩ := rhelWalkPkgs_spec a ((w.cur.map (·.id)).getD "") a.pkgs w.envs
      refine ⟨i1, i2, fun db id h => i3 db id (s2 db id h), ?_⟩
      intro b hb p hp
      rcases List.mem_cons.1 hb with h | h
      · subst h; exact i3 _ _ (s3 p hp)
      · exact i4 b h p hp
    | cons d ds =>
      simp only
      have hk := key (some d) (aset d.id d w.dists)
        (by intro d' hd'; cases hd'; simp [aget_aset_self]) (grows_aset _ _ _)
      obtain ⟨i1, i2, i3, i4⟩ := ih _ hrest hk
      obtain ⟨_, s2, s3⟩ := rhelWalkPkgs_spec a (((some d).map (·.id)).getD "") a.pkgs w.envs
      refine ⟨i1, (grows_aset _ _ _).trans i2, fun db id h => i3 db id (s2 db id h), ?_⟩
      intro b hb p hp
      rcases List.mem_cons.1 hb with h | h
      · subst h; exact i3 _ _ (s3 p hp)
      · exact i4 b h p hp

/-! ### rhel: the final loop -/

theorem rhelFinalPkgs_inv {S : Prop} {B : String → Env → Prop} (envs : List ((String × String) × Env)) (later : List Layer)
    (pkgs : List Pkg) (ir : Report) (hI : Inv S B ir)
    (hG : ∀ p ∈ pkgs, ∃ e, penvGet p.db p.id envs = some e ∧ B p.id e ∧ EnvResolves S ir.dists ir.repos e) :
    ∃ r, rhelFinalPkgs envs later pkgs ir = .ok r ∧ Inv S B r ∧ r.dists = ir.dists ∧ r.repos = ir.repos := by
  induction pkgs generalizing ir with
  | nil => exact ⟨ir, rfl, hI, rfl, rfl⟩
  | cons p rest ih =>
    have hrest : ∀ ir' : Report, ir'.dists = ir.dists → ir'.repos = ir.repos →
        ∀ q ∈ rest, ∃ e, penvGet q.db q.id envs = some e ∧ B q.id e ∧ EnvResolves S ir'.dists ir'.repos e := by
      intro ir' h1 h2 q hq
      rw [h1, h2]; exact hG q (List.mem_cons_of_mem _ hq)
    simp only [rhelFinalPkgs]
    by_cases h1 : (aget p.id ir.pkgs).isSome = true
    · simp only [h1, if_true]
      exact ih ir hI (hrest ir rfl rfl)
    · simp only [h1, Bool.false_eq_true, if_false]
      by_cases h2 : rhelFound p later true = true
      · simp only [h2, if_true]
        obtain ⟨e, he, hb, hr⟩ := hG p List.mem_cons_self
        simp only [he]
        obtain ⟨r, h3, h4, h5, h6⟩ := ih (ir.addPkgEnv p e) (inv_addPkgEnv hI p e hb hr) (hrest _ rfl rfl)
        exact ⟨r, h3, h4, h5, h6⟩
      · simp only [h2, Bool.false_eq_true, if_false]
        exact ih ir hI (hrest ir rfl rfl)

theorem rhelFinal_inv {S : Prop} {B : String → Env → Prop} (envs : List ((String × String) × Env))
    (todo : List Layer) (ir : Report) (hI : Inv S B ir)
    (hG : ∀ a ∈ todo, ∀ p ∈ a.pkgs, ∃ e, penvGet p.db p.id envs = some e ∧ B p.id e ∧ EnvResolves S ir.dists ir.repos e) :
    ∃ r, rhelFinal envs todo ir = .ok r ∧ Inv S B r ∧ r.dists = ir.dists ∧ r.repos = ir.repos := by
  induction todo generalizing ir with
  | nil => exact ⟨ir, rfl, hI, rfl, rfl⟩
  | cons a rest ih =>
    simp only [rhelFinal]
    obtain ⟨r1, h1, h2, h3, h4⟩ := rhelFinalPkgs_inv envs rest a.pkgs ir hI (hG a List.mem_cons_self)
    simp only [h1]
    obtain ⟨r, h5, h6, h7, h8⟩ := ih r1 h2 (by
      intro b hb p hp
      rw [h3, h4]; exact hG b (List.mem_cons_of_mem _ hb) p hp)
    exact ⟨r, h5, h6, h7.trans h3, h8.trans h4⟩

theorem foldl_setRepos_keeps (arts : List Layer) (m : List (String × Repo)) (k : String) (h : (aget k m).isSome) :
    (aget k (arts.foldl (fun m a => setRepos a.repos m) m)).isSome := by
  induction arts generalizing m with
  | nil => exact h
  | cons a rest ih => exact ih _ (setRepos_keeps h)

theorem foldl_setRepos_mem (arts : List Layer) (m : List (String × Repo)) (a : Layer) (ha : a ∈ arts) (r : Repo) (hr : r ∈ a.repos) :
    (aget r.id (arts.foldl (fun m a => setRepos a.repos m) m)).isSome := by
  induction arts generalizing m with
  | nil => simp at ha
  | cons b rest ih =>
    simp only [List.foldl_cons]
    rcases List.mem_cons.1 ha with h | h
    · subst h; exact foldl_setRepos_keeps _ _ _ (setRepos_mem hr)
    · exact ih _ h

/-- The rhel coalescer never fails, and its report is well-formed with respect to the
    artifacts it was given (sharing Red Hat repositories between layers changes `Repos` only). -/
theorem rhelCoalesce_ok {S : Prop} (arts0 : List Layer) :
    ∃ r, rhelCoalesce arts0 = .ok r ∧ Inv S (BackedId arts0) r ∧ r.files = [] := by
  unfold rhelCoalesce
  generalize harts : rhelShare arts0 = arts
  have hcore : arts.map core = arts0.map core := by rw [← harts]; exact rhelShare_core arts0
  simp only
  generalize hrepos : arts.foldl (fun m a => setRepos a.repos m) [] = repos
  have hrp : ∀ a ∈ arts, a ∈ arts ∧ ∀ r ∈ a.repos, (aget r.id repos).isSome :=
    fun a ha => ⟨ha, fun r hr => by rw [← hrepos]; exact foldl_setRepos_mem arts [] a ha r hr⟩
  -- the walk
  have hw0 : WalkInv arts repos (rhelInit arts) := by
    unfold rhelInit
    cases firstDist arts with
    | none => exact ⟨by simp, by simp [penvGet]⟩
    | some d => exact ⟨by intro d' hd'; cases hd'; simp [aget_cons], by simp [penvGet]⟩
  obtain ⟨hw, _, _, hcov⟩ := rhelWalk_spec arts repos arts _ hrp hw0
  generalize hwd : rhelWalk arts (rhelInit arts) = w at hw hcov
  have hG : ∀ a ∈ arts, ∀ p ∈ a.pkgs, ∃ e, penvGet p.db p.id w.envs = some e ∧ BackedId arts p.id e ∧
      EnvResolves S w.dists repos e := by
    intro a ha p hp
    have := hcov a ha p hp
    cases hg : penvGet p.db p.id w.envs with
    | none => simp [hg] at this
    | some e =>
      obtain ⟨_, e2, e3, e4⟩ := hw.envs _ _ _ hg
      exact ⟨e, rfl, e2, e3, fun rid hr => Or.inr (e4 rid hr)⟩
  obtain ⟨r, h1, h2, _, _⟩ := rhelFinal_inv (B := BackedId arts) w.envs arts { repos := repos, dists := w.dists }
    (inv_of_nil rfl rfl) hG
  refine ⟨r, h1, inv_mono h2 (fun id e hb => BackedId.of_core hcore hb), ?_⟩
  -- files are never touched
  have hf : ∀ (todo : List Layer) (ir r : Report), rhelFinal w.envs todo ir = .ok r → r.files = ir.files := by
    intro todo
    induction todo with
    | nil => intro ir r h; simp only [rhelFinal, Except.ok.injEq] at h; rw [← h]
    | cons a rest ih =>
      intro ir r h
      simp only [rhelFinal] at h
      have hp : ∀ (pkgs : List Pkg) (ir r : Report), rhelFinalPkgs w.envs rest pkgs ir = .ok r → r.files = ir.files := by
        intro pkgs
        induction pkgs with
        | nil => intro ir r h; simp only [rhelFinalPkgs, Except.ok.injEq] at h; rw [← h]
        | cons p ps ihp =>
          intro ir r h
          simp only [rhelFinalPkgs] at h
          split at h
          · exact ihp _ _ h
          · split at h
            · split at h
              · simp at h
              · exact (ihp _ _ h).trans rfl
            · exact ihp _ _ h
      cases hx : rhelFinalPkgs w.envs rest a.pkgs ir with
      | error f => simp [hx] at h
      | ok ir' =>
        simp only [hx] at h
        exact (ih _ _ h).trans (hp _ _ _ hx)
  exact hf _ _ _ h1

/-! ### rhel: what survives is exactly the last package-bearing layer -/

/-- the packages of the last layer that has any (`[]` when no layer has packages) -/
def lastPkgs : List Layer → List Pkg
  | [] => []
  | a :: rest => if (lastPkgs rest).isEmpty then a.pkgs else lastPkgs rest

theorem lastPkgs_nil_iff (arts : List Layer) : lastPkgs arts = [] ↔ ∀ a ∈ arts, a.pkgs = [] := by
  induction arts with
  | nil => simp [lastPkgs]
  | cons a rest ih =>
    simp only [lastPkgs]
    by_cases h : (lastPkgs rest).isEmpty = true
    · simp only [h, if_true]
      have h' : lastPkgs rest = [] := by simpa using h
      constructor
      · intro ha b hb
        rcases List.mem_cons.1 hb with hb | hb
        · subst hb; exact ha
        · exact ih.1 h' b hb
      · intro hall; exact hall a List.mem_cons_self
    · simp only [h, Bool.false_eq_true, if_false]
      have h' : ¬ lastPkgs rest = [] := by simpa using h
      constructor
      · intro hx; exact absurd hx h'
      · intro hall; exact absurd (ih.2 fun b hb => hall b (List.mem_cons_of_mem _ hb)) h'

theorem lastPkgs_congr {arts arts' : List Layer} (h : arts.map core = arts'.map core) : lastPkgs arts = lastPkgs arts' := by
  induction arts generalizing arts' with
  | nil => cases arts' with
    | nil => rfl
    | cons b r => simp at h
  | cons a rest ih =>
    cases arts' with
    | nil => simp at h
    | cons b r =>
      simp only [List.map_cons, List.cons.injEq] at h
      simp only [lastPkgs, ih h.2]
      have : a.pkgs = b.pkgs := by have := h.1; simp only [core, Prod.mk.injEq] at this; exact this.2.1
      rw [this]

def sameIdDb (p q : Pkg) : Bool := p.id = q.id ∧ p.db = q.db

theorem rhelFound_eq (p : Pkg) (later : List Layer) (f : Bool) :
    rhelFound p later f = if (lastPkgs later).isEmpty then f else (lastPkgs later).any (sameIdDb p) := by
  induction later generalizing f with
  | nil => simp [rhelFound, lastPkgs]
  | cons a rest ih =>
    simp only [rhelFound, lastPkgs]
    by_cases ha : a.pkgs.isEmpty = true
    · simp only [ha, if_true]
      rw [ih]
      by_cases hr : (lastPkgs rest).isEmpty = true
      · simp [hr, ha]
      · simp [hr]
    · simp only [ha, Bool.false_eq_true, if_false]
      rw [ih]
      by_cases hr : (lastPkgs rest).isEmpty = true
      · simp only [hr, if_true, ha, Bool.false_eq_true, if_false]
        rfl
      · simp [hr]

/-- the packages the final loop accepts -/
def candidates : List Layer → List Pkg
  | [] => []
  | a :: rest => (a.pkgs.filter fun p => rhelFound p rest true) ++ candidates rest

theorem candidates_nil {arts : List Layer} (h : ∀ a ∈ arts, a.pkgs = []) : candidates arts = [] := by
  induction arts with
  | nil => rfl
  | cons a rest ih =>
    simp only [candidates, h a List.mem_cons_self, List.filter_nil, List.nil_append]
    exact ih fun b hb => h b (List.mem_cons_of_mem _ hb)

theorem candidates_ids (arts : List Layer) (id : String) :
    (∃ p ∈ candidates arts, p.id = id) ↔ ∃ q ∈ lastPkgs arts, q.id = id := by
  induction arts with
  | nil => simp [candidates, lastPkgs]
  | cons a rest ih =>
    simp only [candidates, lastPkgs]
    by_cases hr : (lastPkgs rest).isEmpty = true
    · have hr' : lastPkgs rest = [] := by simpa using hr
      have hall := (lastPkgs_nil_iff rest).1 hr'
      simp only [hr, if_true, candidates_nil hall, List.append_nil]
      constructor
      · rintro ⟨p, hp, hid⟩
        exact ⟨p, (List.mem_filter.1 hp).1, hid⟩
      · rintro ⟨q, hq, hid⟩
        refine ⟨q, List.mem_filter.2 ⟨hq, ?_⟩, hid⟩
        rw [rhelFound_eq]; simp [hr]
    · simp only [hr, Bool.false_eq_true, if_false]
      constructor
      · rintro ⟨p, hp, hid⟩
        rcases List.mem_append.1 hp with h | h
        · have hf := (List.mem_filter.1 h).2
          rw [rhelFound_eq] at hf
          simp only [hr, Bool.false_eq_true, if_false] at hf
          obtain ⟨q, hq, hm⟩ := List.any_eq_true.1 hf
          simp only [sameIdDb, decide_eq_true_eq] at hm
          exact ⟨q, hq, hm.1.symm.trans hid⟩
        · exact ih.1 ⟨p, h, hid⟩
      · intro h
        obtain ⟨p, hp, hid⟩ := ih.2 h
        exact ⟨p, List.mem_append_right _ hp, hid⟩

theorem rhelFinalPkgs_ids (envs : List ((String × String) × Env)) (later : List Layer) (pkgs : List Pkg) (ir r : Report)
    (h : rhelFinalPkgs envs later pkgs ir = .ok r) (id : String) :
    (aget id r.pkgs).isSome ↔ (aget id ir.pkgs).isSome ∨ ∃ p ∈ pkgs, p.id = id ∧ rhelFound p later true = true := by
  induction pkgs generalizing ir with
  | nil => simp only [rhelFinalPkgs, Except.ok.injEq] at h; subst h; simp
  | cons p rest ih =>
    simp only [rhelFinalPkgs] at h
    by_cases h1 : (aget p.id ir.pkgs).isSome = true
    · simp only [h1, if_true] at h
      rw [ih ir h]
      constructor
      · rintro (hx | ⟨q, hq, hq2⟩)
        · exact Or.inl hx
        · exact Or.inr ⟨q, List.mem_cons_of_mem _ hq, hq2⟩
      · rintro (hx | ⟨q, hq, hq2, hq3⟩)
        · exact Or.inl hx
        · rcases List.mem_cons.1 hq with hq | hq
          · subst hq; left; rw [← hq2]; exact h1
          · exact Or.inr ⟨q, hq, hq2, hq3⟩
    · simp only [h1, Bool.false_eq_true, if_false] at h
      by_cases h2 : rhelFound p later true = true
      · simp only [h2, if_true] at h
        cases hg : penvGet p.db p.id envs with
        | none => simp [hg] at h
        | some e =>
          simp only [hg] at h
          rw [ih _ h]
          simp only [Report.addPkgEnv, aget_aset]
          constructor
          · rintro (hx | ⟨q, hq, hq2⟩)
            · by_cases hk : p.id = id
              · exact Or.inr ⟨p, List.mem_cons_self, hk, h2⟩
              · simp only [hk, if_false] at hx; exact Or.inl hx
            · exact Or.inr ⟨q, List.mem_cons_of_mem _ hq, hq2⟩
          · rintro (hx | ⟨q, hq, hq2, hq3⟩)
            · left; by_cases hk : p.id = id <;> simp [hk, hx]
            · rcases List.mem_cons.1 hq with hq | hq
              · subst hq; left; simp [hq2]
              · exact Or.inr ⟨q, hq, hq2, hq3⟩
      · simp only [h2, Bool.false_eq_true, if_false] at h
        rw [ih ir h]
        constructor
        · rintro (hx | ⟨q, hq, hq2⟩)
          · exact Or.inl hx
          · exact Or.inr ⟨q, List.mem_cons_of_mem _ hq, hq2⟩
        · rintro (hx | ⟨q, hq, hq2, hq3⟩)
          · exact Or.inl hx
          · rcases List.mem_cons.1 hq with hq | hq
            · subst hq; exact absurd hq3 h2
            · exact Or.inr ⟨q, hq, hq2, hq3⟩

theorem rhelFinal_ids (envs : List ((String × String) × Env)) (todo : List Layer) (ir r : Report)
    (h : rhelFinal envs todo ir = .ok r) (id : String) :
    (aget id r.pkgs).isSome ↔ (aget id ir.pkgs).isSome ∨ ∃ p ∈ candidates todo, p.id = id := by
  induction todo generalizing ir with
  | nil => simp only [rhelFinal, Except.ok.injEq] at h; subst h; simp [candidates]
  | cons a rest ih =>
    simp only [rhelFinal] at h
    cases hx : rhelFinalPkgs envs rest a.pkgs ir with
    | error f => simp [hx] at h
    | ok ir' =>
      simp only [hx] at h
      rw [ih ir' h, rhelFinalPkgs_ids envs rest a.pkgs ir ir' hx]
      simp only [candidates, List.mem_append, List.mem_filter]
      constructor
      · rintro ((hx | ⟨p, hp, hid, hf⟩) | ⟨p, hp, hid⟩)
        · exact Or.inl hx
        · exact Or.inr ⟨p, Or.inl ⟨hp, hf⟩, hid⟩
        · exact Or.inr ⟨p, Or.inr hp, hid⟩
      · rintro (hx | ⟨p, (⟨hp, hf⟩ | hp), hid⟩)
        · exact Or.inl (Or.inl hx)
        · exact Or.inl (Or.inr ⟨p, hp, hid, hf⟩)
        · exact Or.inr ⟨p, hp, hid⟩

/-- The rhel coalescer reports exactly the ids of the last layer that has packages. -/
theorem rhelCoalesce_ids (arts0 : List Layer) (r : Report) (h : rhelCoalesce arts0 = .ok r) (id : String) :
    (aget id r.pkgs).isSome ↔ ∃ q ∈ lastPkgs arts0, q.id = id := by
  unfold rhelCoalesce at h
  simp only at h
  rw [rhelFinal_ids _ _ _ _ h id, candidates_ids, lastPkgs_congr (rhelShare_core arts0)]
  simp

/-! ### language coalescers, gobin, whiteout -/

theorem langLayerPkgs_inv {S : Prop} (arts : List Layer) (a : Layer) (rs : List String) (pkgs : List Pkg) (ir : Report)
    (ha : a ∈ arts) (hsub : ∀ p ∈ pkgs, p ∈ a.pkgs) (hrs : ∀ rid ∈ rs, (aget rid ir.repos).isSome)
    (hI : Inv S (BackedId arts) ir) :
    Inv S (BackedId arts) (langLayerPkgs a rs pkgs ir) ∧ (langLayerPkgs a rs pkgs ir).repos = ir.repos ∧
      (langLayerPkgs a rs pkgs ir).dists = ir.dists ∧ (langLayerPkgs a rs pkgs ir).files = ir.files := by
  induction pkgs generalizing ir with
  | nil => exact ⟨hI, rfl, rfl, rfl⟩
  | cons p rest ih =>
    simp only [langLayerPkgs]
    have hp := hsub p List.mem_cons_self
    have := ih (ir.setPkgEnv p { db := p.db, intro := a.hash, repoIds := rs })
      (fun q hq => hsub q (List.mem_cons_of_mem _ hq)) hrs
      (inv_setPkgEnv hI p _ ⟨a, ha, rfl, p, hp, rfl, rfl⟩ ⟨Or.inl rfl, fun rid hr => Or.inr (hrs rid hr)⟩)
    exact this

theorem langFold_inv {S : Prop} (arts : List Layer) (todo : List Layer) (ir : Report) (hsub : ∀ a ∈ todo, a ∈ arts)
    (hI : Inv S (BackedId arts) ir) :
    Inv S (BackedId arts) (langFold todo ir) ∧ (langFold todo ir).dists = ir.dists ∧ (langFold todo ir).files = ir.files := by
  induction todo generalizing ir with
  | nil => exact ⟨hI, rfl, rfl⟩
  | cons a rest ih =>
    simp only [langFold]
    have hrest : ∀ b ∈ rest, b ∈ arts := fun b hb => hsub b (List.mem_cons_of_mem _ hb)
    by_cases he : a.repos.isEmpty = true
    · simp only [he, if_true]; exact ih ir hrest hI
    · simp only [he, Bool.false_eq_true, if_false]
      have hI1 : Inv S (BackedId arts) { ir with repos := setRepos a.repos ir.repos } :=
        inv_grow (r := ir) hI (Grows.refl _) (grows_setRepos _ _)
      obtain ⟨h1, _, h3, h4⟩ := langLayerPkgs_inv arts a (a.repos.map (·.id)) a.pkgs
        { ir with repos := setRepos a.repos ir.repos } (hsub a List.mem_cons_self) (fun _ h => h)
        (by
          intro rid hr
          obtain ⟨r, hr1, hr2⟩ := List.mem_map.1 hr
          rw [← hr2]; exact setRepos_mem hr1) hI1
      obtain ⟨i1, i2, i3⟩ := ih _ hrest h1
      exact ⟨i1, i2.trans h3, i3.trans h4⟩

theorem langCoalesce_ok {S : Prop} (arts : List Layer) :
    ∃ r, langCoalesce arts = .ok r ∧ Inv S (BackedId arts) r ∧ r.dists = [] ∧ r.files = [] := by
  obtain ⟨h1, h2, h3⟩ := langFold_inv arts arts {} (fun _ h => h) (inv_of_nil rfl rfl)
  exact ⟨_, rfl, h1, h2, h3⟩

theorem gobinLayerPkgs_inv {S : Prop} (arts : List Layer) (a : Layer) (rid : String) (pkgs : List Pkg) (ir : Report)
    (ha : a ∈ arts) (hsub : ∀ p ∈ pkgs, p ∈ a.pkgs) (hrid : (¬ S ∧ rid = "") ∨ (aget rid ir.repos).isSome)
    (hI : Inv S (BackedId arts) ir) :
    Inv S (BackedId arts) (gobinLayerPkgs a rid pkgs ir) ∧ (gobinLayerPkgs a rid pkgs ir).repos = ir.repos ∧
      (gobinLayerPkgs a rid pkgs ir).dists = ir.dists ∧ (gobinLayerPkgs a rid pkgs ir).files = ir.files := by
  induction pkgs generalizing ir with
  | nil => exact ⟨hI, rfl, rfl, rfl⟩
  | cons p rest ih =>
    simp only [gobinLayerPkgs]
    have hp := hsub p List.mem_cons_self
    have hrest : ∀ q ∈ rest, q ∈ a.pkgs := fun q hq => hsub q (List.mem_cons_of_mem _ hq)
    by_cases hgo : hasGoPrefix p.db = true
    · simp only [hgo, if_true]
      exact ih (ir.setPkgEnv p { db := p.db, intro := a.hash, repoIds := [rid] }) hrest hrid
        (inv_setPkgEnv hI p _ ⟨a, ha, rfl, p, hp, rfl, rfl⟩
          ⟨Or.inl rfl, fun r hr => by simp at hr; subst hr; exact hrid⟩)
    · simp only [hgo, Bool.false_eq_true, if_false]
      exact ih ir hrest hrid hI

theorem gobinLayerPkgs_noop (a : Layer) (rid : String) (pkgs : List Pkg) (ir : Report)
    (h : ∀ p ∈ pkgs, ¬ hasGoPrefix p.db = true) : gobinLayerPkgs a rid pkgs ir = ir := by
  induction pkgs generalizing ir with
  | nil => rfl
  | cons p rest ih =>
    simp only [gobinLayerPkgs, h p List.mem_cons_self, Bool.false_eq_true, if_false]
    exact ih ir fun q hq => h q (List.mem_cons_of_mem _ hq)

/-- the scanner contract the strict reading needs: a layer with go packages carries the go repository -/
def GoRepoPresent (arts : List Layer) : Prop :=
  ∀ a ∈ arts, (∃ p ∈ a.pkgs, hasGoPrefix p.db = true) → (a.repos.find? isGoRepo).isSome

theorem gobinFold_inv {S : Prop} (arts : List Layer) (todo : List Layer) (ir : Report) (hsub : ∀ a ∈ todo, a ∈ arts)
    (hgo : S → GoRepoPresent todo)
    (hI : Inv S (BackedId arts) ir) :
    Inv S (BackedId arts) (gobinFold todo ir) ∧ (gobinFold todo ir).dists = ir.dists ∧ (gobinFold todo ir).files = ir.files := by
  induction todo generalizing ir with
  | nil => exact ⟨hI, rfl, rfl⟩
  | cons a rest ih =>
    simp only [gobinFold]
    have hrest : ∀ b ∈ rest, b ∈ arts := fun b hb => hsub b (List.mem_cons_of_mem _ hb)
    have hgo' : S → GoRepoPresent rest := fun hs b hb => hgo hs b (List.mem_cons_of_mem _ hb)
    cases hf : a.repos.find? isGoRepo with
    | none =>
      simp only
      by_cases hS : S
      · have hno : ∀ p ∈ a.pkgs, ¬ hasGoPrefix p.db = true := by
          intro p hp hpre
          have := hgo hS a List.mem_cons_self ⟨p, hp, hpre⟩
          rw [hf] at this; simp at this
        rw [gobinLayerPkgs_noop a "" a.pkgs ir hno]
        exact ih ir hrest hgo' hI
      · obtain ⟨h1, _, h3, h4⟩ := gobinLayerPkgs_inv arts a "" a.pkgs ir (hsub a List.mem_cons_self) (fun _ h => h) (Or.inl ⟨hS, rfl⟩) hI
        obtain ⟨i1, i2, i3⟩ := ih _ hrest hgo' h1
        exact ⟨i1, i2.trans h3, i3.trans h4⟩
    | some r =>
      simp only
      have hI1 : Inv S (BackedId arts) { ir with repos := aset r.id r ir.repos } :=
        inv_grow (r := ir) hI (Grows.refl _) (grows_aset _ _ _)
      obtain ⟨h1, _, h3, h4⟩ := gobinLayerPkgs_inv arts a r.id a.pkgs { ir with repos := aset r.id r ir.repos }
        (hsub a List.mem_cons_self) (fun _ h => h) (Or.inr (by simp [aget_aset_self])) hI1
      obtain ⟨i1, i2, i3⟩ := ih _ hrest hgo' h1
      exact ⟨i1, i2.trans h3, i3.trans h4⟩

theorem gobinCoalesce_ok {S : Prop} (arts : List Layer) (hgo : S → GoRepoPresent arts) :
    ∃ r, gobinCoalesce arts = .ok r ∧ Inv S (BackedId arts) r ∧ r.dists = [] ∧ r.files = [] := by
  obtain ⟨h1, h2, h3⟩ := gobinFold_inv (S := S) arts arts {} (fun _ h => h) hgo (inv_of_nil rfl rfl)
  exact ⟨_, rfl, h1, h2, h3⟩

/-- The hypothesis under which repository ids are read strictly: gobin artifacts satisfy the scanner contract. -/
def GoOk (k : Kind) (arts : List Layer) : Prop := k = .gobin → GoRepoPresent arts

/-- No coalescer ever returns an error or dereferences nil, and every report is well-formed
    (strictly so when `S → GoOk k arts`). -/
theorem coalesceKind_ok {S : Prop} (k : Kind) (arts : List Layer) (hS : S → GoOk k arts) :
    ∃ r, coalesceKind k arts = .ok r ∧ Inv S (BackedKey arts) r := by
  cases k with
  | linux => obtain ⟨r, h1, h2, _⟩ := linuxCoalesce_ok (S := S) arts; exact ⟨r, h1, h2⟩
  | rhel => obtain ⟨r, h1, h2, _⟩ := rhelCoalesce_ok (S := S) arts; exact ⟨r, h1, inv_mono h2 fun _ _ h => h.toKey⟩
  | lang => obtain ⟨r, h1, h2, _⟩ := langCoalesce_ok (S := S) arts; exact ⟨r, h1, inv_mono h2 fun _ _ h => h.toKey⟩
  | gobin =>
    obtain ⟨r, h1, h2, _⟩ := gobinCoalesce_ok (S := S) arts (fun hs => hS hs rfl)
    exact ⟨r, h1, inv_mono h2 fun _ _ h => h.toKey⟩
  | wh => exact ⟨_, rfl, inv_of_nil rfl rfl⟩

/-! ### MergeSR -/

section FoldAppend
variable {β : Type}

theorem foldl_aappend_src {xs : List (String × List β)} {src : List (String × List β)} {k : String} {es : List β}
    (h : aget k src = some es) :
    ∃ ws, aget k (xs.foldl (fun m e => aappend e.1 e.2 m) src) = some ws ∧ ∀ e ∈ es, e ∈ ws := by
  induction xs generalizing src es with
  | nil => exact ⟨es, h, fun _ h => h⟩
  | cons x xs ih =>
    simp only [List.foldl_cons]
    by_cases hk : x.1 = k
    · have : aget k (aappend x.1 x.2 src) = some (es ++ x.2) := by simp [aget_aappend, hk, h]
      obtain ⟨ws, h1, h2⟩ := ih this
      exact ⟨ws, h1, fun e he => h2 e (List.mem_append_left _ he)⟩
    · have : aget k (aappend x.1 x.2 src) = some es := by simp [aget_aappend, hk, h]
      exact ih this

theorem foldl_aappend_mem {xs : List (String × List β)} {src : List (String × List β)} {k : String} {vs : List β}
    (h : (k, vs) ∈ xs) :
    ∃ ws, aget k (xs.foldl (fun m e => aappend e.1 e.2 m) src) = some ws ∧ ∀ e ∈ vs, e ∈ ws := by
  induction xs generalizing src with
  | nil => simp at h
  | cons x xs ih =>
    simp only [List.foldl_cons]
    rcases List.mem_cons.1 h with h1 | h1
    · subst h1
      have : aget k (aappend k vs src) = some ((aget k src).getD [] ++ vs) := by simp [aget_aappend]
      obtain ⟨ws, h2, h3⟩ := foldl_aappend_src (xs := xs) this
      exact ⟨ws, h2, fun e he => h3 e (List.mem_append_right _ he)⟩
    · exact ih h1

theorem foldl_aappend_from {xs : List (String × List β)} {src : List (String × List β)} {k : String} {ws : List β}
    (h : (k, ws) ∈ xs.foldl (fun m e => aappend e.1 e.2 m) src) :
    ((aget k src).isSome ∨ ∃ vs, (k, vs) ∈ xs) ∧
    ∀ w ∈ ws, (∃ vs, (k, vs) ∈ src ∧ w ∈ vs) ∨ (∃ vs, (k, vs) ∈ xs ∧ w ∈ vs) := by
  induction xs generalizing src with
  | nil => exact ⟨Or.inl (aget_isSome_of_mem h), fun w hw => Or.inl ⟨ws, h, hw⟩⟩
  | cons x xs ih =>
    simp only [List.foldl_cons] at h
    obtain ⟨i1, i2⟩ := ih h
    constructor
    · rcases i1 with h1 | ⟨vs, h1⟩
      · rw [aget_aappend] at h1
        by_cases hk : x.1 = k
        · right; exact ⟨x.2, by rw [← hk]; exact List.mem_cons_self⟩
        · simp only [hk, if_false] at h1; exact Or.inl h1
      · right; exact ⟨vs, List.mem_cons_of_mem _ h1⟩
    · intro w hw
      rcases i2 w hw with ⟨vs, h1, h2⟩ | ⟨vs, h1, h2⟩
      · rcases mem_aappend h1 with ⟨hk, hv⟩ | hold
        · rw [hv] at h2
          rcases List.mem_append.1 h2 with h3 | h3
          · cases hg : aget x.1 src with
            | none => simp [hg] at h3
            | some old =>
              simp [hg] at h3
              left; exact ⟨old, by rw [hk]; exact mem_of_aget hg, h3⟩
          · right; exact ⟨x.2, by rw [hk]; exact List.mem_cons_self, h3⟩
        · exact Or.inl ⟨vs, hold, h2⟩
      · right; exact ⟨vs, List.mem_cons_of_mem _ h1, h2⟩

end FoldAppend

theorem grows_foldl_aset_src {β : Type} (xs src : List (String × β)) :
    Grows src (xs.foldl (fun m e => aset e.1 e.2 m) src) := fun _ h => isSome_foldl_aset_of_src h

theorem grows_foldl_aset_list {β : Type} (xs src : List (String × β)) :
    Grows xs (xs.foldl (fun m e => aset e.1 e.2 m) src) := by
  intro k h
  cases hg : aget k xs with
  | none => simp [hg] at h
  | some v => exact isSome_foldl_aset_of_mem (mem_of_aget hg)

theorem nonempty_of_superset {β : Type} {es ws : List β} (hne : es ≠ []) (h : ∀ e ∈ es, e ∈ ws) : ws ≠ [] := by
  cases es with
  | nil => exact absurd rfl hne
  | cons e es => intro hw; have := h e List.mem_cons_self; rw [hw] at this; simp at this

theorem inv_mergeOne {S : Prop} {B : String → Env → Prop} {src ir : Report} (hs : Inv S B src) (hi : Inv S B ir) :
    Inv S B (mergeOne src ir) := by
  constructor
  · intro id p hm
    simp only [mergeOne] at hm ⊢
    rcases mem_foldl_aset hm with h | h
    · obtain ⟨hid, es, hes, hne⟩ := hs.pkgEnv id p h
      obtain ⟨ws, h1, h2⟩ := foldl_aappend_src (xs := ir.envs) hes
      exact ⟨hid, ws, h1, nonempty_of_superset hne h2⟩
    · obtain ⟨hid, es, hes, hne⟩ := hi.pkgEnv id p h
      obtain ⟨ws, h1, h2⟩ := foldl_aappend_mem (src := src.envs) (mem_of_aget hes)
      exact ⟨hid, ws, h1, nonempty_of_superset hne h2⟩
  · intro id ws hm
    simp only [mergeOne] at hm ⊢
    obtain ⟨h1, h2⟩ := foldl_aappend_from hm
    constructor
    · rcases h1 with h | ⟨vs, h⟩
      · cases hg : aget id src.envs with
        | none => simp [hg] at h
        | some es => exact isSome_foldl_aset_of_src (hs.envOk id es (mem_of_aget hg)).1
      · have := (hi.envOk id vs h).1
        cases hg : aget id ir.pkgs with
        | none => simp [hg] at this
        | some p => exact isSome_foldl_aset_of_mem (mem_of_aget hg)
    · intro w hw
      rcases h2 w hw with ⟨vs, h3, h4⟩ | ⟨vs, h3, h4⟩
      · obtain ⟨hb, hr⟩ := (hs.envOk id vs h3).2 w h4
        exact ⟨hb, hr.mono (grows_foldl_aset_src _ _) (grows_foldl_aset_src _ _)⟩
      · obtain ⟨hb, hr⟩ := (hi.envOk id vs h3).2 w h4
        exact ⟨hb, hr.mono (grows_foldl_aset_list _ _) (grows_foldl_aset_list _ _)⟩

theorem inv_mergeSR {S : Prop} {B : String → Env → Prop} (rs : List Report) (src : Report) (hs : Inv S B src)
    (hr : ∀ r ∈ rs, Inv S B r) : Inv S B (mergeSR src rs) := by
  unfold mergeSR
  induction rs generalizing src with
  | nil => exact hs
  | cons r rs ih =>
    simp only [List.foldl_cons]
    exact ih _ (inv_mergeOne hs (hr r List.mem_cons_self)) (fun x hx => hr x (List.mem_cons_of_mem _ hx))

/-! ### whiteout.Resolver -/

theorem resolveLoop_spec {S : Prop} {B : String → Env → Prop} (layers : List String) (ir : Report) (hI : Inv S B ir)
    (todo : List (String × Pkg)) (acc : Report)
    (hsub : ∀ id p, (id, p) ∈ todo → (id, p) ∈ ir.pkgs)
    (hP : ∀ id p, (id, p) ∈ acc.pkgs → (id, p) ∈ ir.pkgs ∧ aget id acc.envs = aget id ir.envs)
    (hE : ∀ id es, (id, es) ∈ acc.envs → aget id ir.envs = some es ∧ (aget id acc.pkgs).isSome) :
    ∃ fin, resolveLoop layers ir todo acc = some fin ∧
      (∀ id p, (id, p) ∈ fin.pkgs → (id, p) ∈ ir.pkgs ∧ aget id fin.envs = aget id ir.envs) ∧
      (∀ id es, (id, es) ∈ fin.envs → aget id ir.envs = some es ∧ (aget id fin.pkgs).isSome) := by
  induction todo generalizing acc with
  | nil => exact ⟨acc, rfl, hP, hE⟩
  | cons x rest ih =>
    obtain ⟨id, p⟩ := x
    have hmem := hsub id p List.mem_cons_self
    have hrest : ∀ id p, (id, p) ∈ rest → (id, p) ∈ ir.pkgs := fun i q h => hsub i q (List.mem_cons_of_mem _ h)
    obtain ⟨_, es, hes, hne⟩ := hI.pkgEnv id p hmem
    cases es with
    | nil => exact absurd rfl hne
    | cons e0 es =>
      simp only [resolveLoop, hes]
      by_cases hd : pkgDeleted layers ir.files p (pkgLayer layers es e0.intro) = true
      · simp only [hd, if_true]
        exact ih acc hrest hP hE
      · simp only [hd, Bool.false_eq_true, if_false]
        apply ih _ hrest
        · intro id' p' hm
          simp only at hm ⊢
          rw [aget_aset]
          rcases mem_aset hm with ⟨hk, hv⟩ | hold
          · subst hk; subst hv; exact ⟨hmem, by simp [hes]⟩
          · by_cases hk : id = id'
            · subst hk; exact ⟨(hP _ _ hold).1, by simp [hes]⟩
            · simp only [hk, if_false]; exact hP _ _ hold
        · intro id' es' hm
          simp only at hm ⊢
          rcases mem_aset hm with ⟨hk, hv⟩ | hold
          · subst hk; subst hv; exact ⟨hes, by simp [aget_aset_self]⟩
          · exact ⟨(hE _ _ hold).1, aget_aset_isSome (hE _ _ hold).2⟩

/-- On a well-formed report the resolver never indexes an empty environment list, and what it
    returns is well-formed again. -/
theorem resolve_ok {S : Prop} {B : String → Env → Prop} (layers : List String) (ir : Report) (hI : Inv S B ir) :
    ∃ r, resolve layers ir = some r ∧ Inv S B r ∧ r.dists = ir.dists ∧ r.repos = ir.repos ∧ r.files = ir.files ∧
      ∀ id p, (id, p) ∈ r.pkgs → (id, p) ∈ ir.pkgs := by
  obtain ⟨fin, h1, h2, h3⟩ := resolveLoop_spec layers ir hI ir.pkgs {} (fun _ _ h => h) (by simp) (by simp)
  refine ⟨{ ir with pkgs := fin.pkgs, envs := fin.envs }, by simp [resolve, h1], ?_, rfl, rfl, rfl, fun id p h => (h2 id p h).1⟩
  constructor
  · intro id p hm
    simp only at hm ⊢
    obtain ⟨hm', he⟩ := h2 id p hm
    obtain ⟨hid, es, hes, hne⟩ := hI.pkgEnv id p hm'
    exact ⟨hid, es, he.trans hes, hne⟩
  · intro id es hm
    simp only at hm ⊢
    obtain ⟨he, hp⟩ := h3 id es hm
    exact ⟨hp, (hI.envOk id es (mem_of_aget he)).2⟩

/-- What the artifacts of the ecosystems say about an environment of the merged report. -/
def BackedAny (ecos : List (Kind × List Layer)) (id : String) (e : Env) : Prop :=
  ∃ ka ∈ ecos, BackedKey ka.2 id e

theorem coalesceAll_ok {S : Prop} (ecos : List (Kind × List Layer)) (hS : S → ∀ ka ∈ ecos, GoOk ka.1 ka.2) :
    ∃ rs, coalesceAll ecos = some rs ∧ ∀ r ∈ rs, Inv S (BackedAny ecos) r := by
  induction ecos with
  | nil => exact ⟨[], rfl, by simp⟩
  | cons ka rest ih =>
    obtain ⟨k, arts⟩ := ka
    obtain ⟨r, h1, h2⟩ := coalesceKind_ok (S := S) k arts (fun hs => hS hs (k, arts) List.mem_cons_self)
    obtain ⟨rs, h3, h4⟩ := ih (fun hs ka hka => hS hs ka (List.mem_cons_of_mem _ hka))
    refine ⟨r :: rs, by simp [coalesceAll, h1, h3], ?_⟩
    intro x hx
    rcases List.mem_cons.1 hx with hx | hx
    · subst hx
      exact inv_mono h2 fun id e hb => ⟨(k, arts), List.mem_cons_self, hb⟩
    · exact inv_mono (h4 x hx) fun id e ⟨ka, hka, hb⟩ => ⟨ka, List.mem_cons_of_mem _ hka, hb⟩

/-- The controller's coalesce step never fails in a coalescer or in the resolver, and the
    finished report is well-formed. -/
theorem indexCoalesce_ok {S : Prop} (layers : List String) (ecos : List (Kind × List Layer))
    (hS : S → ∀ ka ∈ ecos, GoOk ka.1 ka.2) :
    ∃ r, indexCoalesce layers ecos = some r ∧ Inv S (BackedAny ecos) r := by
  obtain ⟨rs, h1, h2⟩ := coalesceAll_ok (S := S) ecos hS
  obtain ⟨r, h3, h4, _⟩ := resolve_ok layers (mergeSR {} rs) (inv_mergeSR rs {} (inv_of_nil rfl rfl) h2)
  exact ⟨r, by simp [indexCoalesce, h1, h3], h4⟩

/-! ### IndexRecords -/

theorem indexRecords_spec {S : Prop} {B : String → Env → Prop} {r : Report} (h : Inv S B r) (x : Record)
    (hx : x ∈ indexRecords r) :
    ∃ id es e, (id, x.pkg) ∈ r.pkgs ∧ aget id r.envs = some es ∧ e ∈ es ∧
      (e.distId ≠ "" → x.dist.isSome) ∧ (e.repoIds = [] → x.repo = none) ∧
      (e.repoIds ≠ [] → ∃ rid ∈ e.repoIds, x.repo = aget rid r.repos ∧ (S → x.repo.isSome)) := by
  simp only [indexRecords, List.mem_flatMap] at hx
  obtain ⟨⟨k, p⟩, hkp, e, he, hxe⟩ := hx
  obtain ⟨hid, es, hes, _⟩ := h.pkgEnv k p hkp
  simp only at he hxe
  rw [hid, hes] at he
  simp only [Option.getD_some] at he
  obtain ⟨_, hres⟩ := (h.envOk k es (mem_of_aget hes)).2 e he
  unfold envRecords at hxe
  by_cases hemp : e.repoIds.isEmpty = true
  · simp only [hemp, if_true, List.mem_singleton] at hxe
    subst hxe
    refine ⟨k, es, e, hkp, hes, he, ?_, fun _ => rfl, ?_⟩
    · intro hne
      rcases hres.1 with h1 | h1
      · exact absurd h1 hne
      · exact h1
    · intro hne; simp at hemp; exact absurd hemp hne
  · simp only [hemp, Bool.false_eq_true, if_false, List.mem_map] at hxe
    obtain ⟨rid, hrid, hxe⟩ := hxe
    subst hxe
    refine ⟨k, es, e, hkp, hes, he, ?_, ?_, ?_⟩
    · intro hne
      rcases hres.1 with h1 | h1
      · exact absurd h1 hne
      · exact h1
    · intro hnil; simp [hnil] at hemp
    · intro _
      refine ⟨rid, hrid, rfl, ?_⟩
      intro hs
      rcases hres.2 rid hrid with ⟨hns, _⟩ | h1
      · exact absurd hs hns
      · exact h1

/-- `lastMention` really is the newest mentioning layer: nothing after it mentions `d`. -/
theorem lastMention_newest (d : String) (arts : List Layer) (a : Layer) (h : lastMention d arts = some a) :
    ∃ pre post, arts = pre ++ a :: post ∧ mentions d a = true ∧ ∀ b ∈ post, mentions d b = false := by
  induction arts with
  | nil => simp [lastMention] at h
  | cons b rest ih =>
    simp only [lastMention] at h
    cases hr : lastMention d rest with
    | some x =>
      simp only [hr, Option.some.injEq] at h; subst h
      obtain ⟨pre, post, h1, h2, h3⟩ := ih hr
      exact ⟨b :: pre, post, by simp [h1], h2, h3⟩
    | none =>
      simp only [hr] at h
      by_cases hm : mentions d b = true
      · simp only [hm, if_true, Option.some.injEq] at h; subst h
        refine ⟨[], rest, rfl, hm, ?_⟩
        intro c hc
        cases hmc : mentions d c with
        | false => rfl
        | true =>
          -- a mentioning layer in `rest` would have been found
          exfalso
          have : ∀ (l : List Layer), c ∈ l → lastMention d l ≠ none := by
            intro l
            induction l with
            | nil => intro hc; simp at hc
            | cons x l ihl =>
              intro hc
              simp only [lastMention]
              cases hl : lastMention d l with
              | some y => simp
              | none =>
                rcases List.mem_cons.1 hc with hc | hc
                · subst hc; simp [hmc]
                · exact absurd hl (ihl hc)
          exact this rest hc hr
      · simp [hm] at h


/-! ### linux report: unique keys, origin of the stored packages -/

theorem linuxFill_uniq {arts : List Layer} {slots : List (Option Dist)} (entries : List (String × Pkg)) (ir r : Report)
    (h : linuxFill arts slots entries ir = .ok r) (h1 : KeysUniq ir.pkgs) (h2 : KeysUniq ir.envs) :
    KeysUniq r.pkgs ∧ KeysUniq r.envs := by
  induction entries generalizing ir with
  | nil => simp only [linuxFill, Except.ok.injEq] at h; subst h; exact ⟨h1, h2⟩
  | cons en rest ih =>
    obtain ⟨db, p⟩ := en
    simp only [linuxFill] at h
    cases he : linuxEnv arts slots db p with
    | error f => simp [he] at h
    | ok e =>
      simp only [he] at h
      exact ih _ h (keysUniq_aset _ _ h1) (keysUniq_aset _ _ h2)

theorem linuxFill_pkgs_from {arts : List Layer} {slots : List (Option Dist)} (entries : List (String × Pkg)) (ir r : Report)
    (h : linuxFill arts slots entries ir = .ok r) (id : String) (p : Pkg) (hm : (id, p) ∈ r.pkgs) :
    (id, p) ∈ ir.pkgs ∨ ∃ db, (db, p) ∈ entries := by
  induction entries generalizing ir with
  | nil => simp only [linuxFill, Except.ok.injEq] at h; subst h; exact Or.inl hm
  | cons en rest ih =>
    obtain ⟨db, q⟩ := en
    simp only [linuxFill] at h
    cases he : linuxEnv arts slots db q with
    | error f => simp [he] at h
    | ok e =>
      simp only [he] at h
      rcases ih _ h with h1 | ⟨db', h1⟩
      · simp only [Report.addPkgEnv] at h1
        rcases mem_aset h1 with ⟨_, hv⟩ | hold
        · right; exact ⟨db, by rw [hv]; exact List.mem_cons_self⟩
        · exact Or.inl hold
      · exact Or.inr ⟨db', List.mem_cons_of_mem _ h1⟩

theorem linuxCoalesce_pkgs {arts : List Layer} {r : Report} (h : linuxCoalesce arts = .ok r) :
    KeysUniq r.pkgs ∧ KeysUniq r.envs ∧ ∀ id p, (id, p) ∈ r.pkgs → p ∈ allPkgs arts := by
  unfold linuxCoalesce at h
  obtain ⟨u1, u2⟩ := linuxFill_uniq _ _ _ h (by simp [KeysUniq]) (by simp [KeysUniq])
  refine ⟨u1, u2, fun id p hm => ?_⟩
  rcases linuxFill_pkgs_from _ _ _ h id p hm with h1 | ⟨db, h1⟩
  · simp at h1
  · exact (linux_entries_ok db p h1).1

/-! ### rhel report: unique keys, origin of the stored packages -/

theorem rhelFinalPkgs_from (envs : List ((String × String) × Env)) (later : List Layer) (pkgs : List Pkg) (ir r : Report)
    (h : rhelFinalPkgs envs later pkgs ir = .ok r) (h1 : KeysUniq ir.pkgs) (h2 : KeysUniq ir.envs) :
    KeysUniq r.pkgs ∧ KeysUniq r.envs ∧ ∀ id p, (id, p) ∈ r.pkgs → (id, p) ∈ ir.pkgs ∨ p ∈ pkgs := by
  induction pkgs generalizing ir with
  | nil => simp only [rhelFinalPkgs, Except.ok.injEq] at h; subst h; exact ⟨h1, h2, fun _ _ hm => Or.inl hm⟩
  | cons q rest ih =>
    simp only [rhelFinalPkgs] at h
    split at h
    · obtain ⟨u1, u2, u3⟩ := ih ir h h1 h2
      exact ⟨u1, u2, fun id p hm => (u3 id p hm).imp (fun x => x) (List.mem_cons_of_mem _)⟩
    · split at h
      · split at h
        · simp at h
        · obtain ⟨u1, u2, u3⟩ := ih _ h (keysUniq_aset _ _ h1) (keysUniq_aset _ _ h2)
          refine ⟨u1, u2, fun id p hm => ?_⟩
          rcases u3 id p hm with h3 | h3
          · simp only [Report.addPkgEnv] at h3
            rcases mem_aset h3 with ⟨_, hv⟩ | hold
            · right; rw [hv]; exact List.mem_cons_self
            · exact Or.inl hold
          · exact Or.inr (List.mem_cons_of_mem _ h3)
      · obtain ⟨u1, u2, u3⟩ := ih ir h h1 h2
        exact ⟨u1, u2, fun id p hm => (u3 id p hm).imp (fun x => x) (List.mem_cons_of_mem _)⟩

theorem rhelFinal_from (envs : List ((String × String) × Env)) (todo : List Layer) (ir r : Report)
    (h : rhelFinal envs todo ir = .ok r) (h1 : KeysUniq ir.pkgs) (h2 : KeysUniq ir.envs) :
    KeysUniq r.pkgs ∧ KeysUniq r.envs ∧ ∀ id p, (id, p) ∈ r.pkgs → (id, p) ∈ ir.pkgs ∨ p ∈ allPkgs todo := by
  induction todo generalizing ir with
  | nil => simp only [rhelFinal, Except.ok.injEq] at h; subst h; exact ⟨h1, h2, fun _ _ hm => Or.inl hm⟩
  | cons a rest ih =>
    simp only [rhelFinal] at h
    cases hx : rhelFinalPkgs envs rest a.pkgs ir with
    | error f => simp [hx] at h
    | ok ir' =>
      simp only [hx] at h
      obtain ⟨v1, v2, v3⟩ := rhelFinalPkgs_from envs rest a.pkgs ir ir' hx h1 h2
      obtain ⟨u1, u2, u3⟩ := ih ir' h v1 v2
      refine ⟨u1, u2, fun id p hm => ?_⟩
      rcases u3 id p hm with h3 | h3
      · rcases v3 id p h3 with h4 | h4
        · exact Or.inl h4
        · right; simp [allPkgs, h4]
      · right; simp only [allPkgs, List.flatMap_cons, List.mem_append]; exact Or.inr h3

theorem allPkgs_congr {arts arts' : List Layer} (h : arts.map core = arts'.map core) : allPkgs arts = allPkgs arts' := by
  have : ∀ (l : List Layer), allPkgs l = (l.map core).flatMap (fun c => c.2.1) := by
    intro l
    induction l with
    | nil => rfl
    | cons a l ih => simp [allPkgs, core] at ih ⊢; rw [ih]
  rw [this, this, h]

theorem rhelCoalesce_pkgs {arts : List Layer} {r : Report} (h : rhelCoalesce arts = .ok r) :
    KeysUniq r.pkgs ∧ KeysUniq r.envs ∧ ∀ id p, (id, p) ∈ r.pkgs → p ∈ allPkgs arts := by
  unfold rhelCoalesce at h
  simp only at h
  obtain ⟨u1, u2, u3⟩ := rhelFinal_from _ _ _ _ h (by simp [KeysUniq]) (by simp [KeysUniq])
  refine ⟨u1, u2, fun id p hm => ?_⟩
  rcases u3 id p hm with h1 | h1
  · simp at h1
  · rw [← allPkgs_congr (rhelShare_core arts)]; exact h1

/-- the last layer with packages, as a decomposition -/
theorem lastPkgs_decomp {arts pre post : List Layer} {a : Layer} (hdec : arts = pre ++ a :: post)
    (ha : a.pkgs ≠ []) (hpost : ∀ b ∈ post, b.pkgs = []) : lastPkgs arts = a.pkgs := by
  subst hdec
  have hp : lastPkgs post = [] := (lastPkgs_nil_iff post).2 hpost
  induction pre with
  | nil => simp [lastPkgs, hp]
  | cons x pre ih =>
    simp only [List.cons_append, lastPkgs, ih]
    have : ¬ a.pkgs.isEmpty = true := by simpa using ha
    simp [this]

theorem lastPkgs_spec {arts : List Layer} (h : lastPkgs arts ≠ []) :
    ∃ pre a post, arts = pre ++ a :: post ∧ lastPkgs arts = a.pkgs ∧ ∀ b ∈ post, b.pkgs = [] := by
  induction arts with
  | nil => simp [lastPkgs] at h
  | cons x rest ih =>
    simp only [lastPkgs] at h ⊢
    by_cases hr : (lastPkgs rest).isEmpty = true
    · simp only [hr, if_true] at h ⊢
      have hr' : lastPkgs rest = [] := by simpa using hr
      exact ⟨[], x, rest, rfl, rfl, (lastPkgs_nil_iff rest).1 hr'⟩
    · simp only [hr, Bool.false_eq_true, if_false] at h ⊢
      obtain ⟨pre, a, post, h1, h2, h3⟩ := ih h
      exact ⟨x :: pre, a, post, by simp [h1], h2, h3⟩

end ClairModel.Coalesce
