/-
  Lemmas about digest texts (C09). Core Lean only.
-/
import ClairModel.Model.FetchMisc

namespace ClairModel.FetchMisc
open ClairModel ClairModel.Bytes ClairModel.Codec

theorem cut_some {sep : Nat} : ∀ {t a b : Bytes}, cut sep t = some (a, b) → t = a ++ sep :: b ∧ sep ∉ a := by
  intro t
  induction t with
  | nil => intro a b h; simp [cut] at h
  | cons c cs ih =>
    intro a b h
    simp only [cut] at h
    split at h
    · rename_i hc
      simp only [Option.some.injEq, Prod.mk.injEq] at h
      obtain ⟨rfl, rfl⟩ := h
      simp [hc]
    · rename_i hc
      split at h
      · cases h
      · rename_i a' b' hcut
        simp only [Option.some.injEq, Prod.mk.injEq] at h
        obtain ⟨rfl, rfl⟩ := h
        obtain ⟨h1, h2⟩ := ih hcut
        refine ⟨by rw [h1]; rfl, ?_⟩
        simp only [List.mem_cons, not_or]
        exact ⟨fun e => hc e.symm, h2⟩

theorem cut_iff {sep : Nat} {t a b : Bytes} : cut sep t = some (a, b) ↔ (t = a ++ sep :: b ∧ sep ∉ a) :=
  ⟨cut_some, fun ⟨h1, h2⟩ => by rw [h1]; exact cut_append sep a b h2⟩

/-- A well-formed digest text: algorithm, the first colon, hex digits (either
    case) of exactly the algorithm's size. -/
def WellFormed (t : Bytes) (d : Digest) : Prop :=
  ∃ hx, t = d.algo ++ 58 :: hx ∧ 58 ∉ d.algo ∧ hexDecode hx = some d.checksum ∧
    digestSize d.algo = some d.checksum.length

theorem digestParse_iff (t : Bytes) (d : Digest) : digestParse t = some d ↔ WellFormed t d := by
  constructor
  · intro h
    unfold digestParse at h
    split at h
    · cases h
    · rename_i a hx hc
      split at h
      · cases h
      · rename_i b hb
        split at h
        · cases h
        · rename_i sz hsz
          split at h
          · rename_i hl
            simp only [Option.some.injEq] at h
            subst h
            obtain ⟨h1, h2⟩ := cut_some hc
            exact ⟨hx, h1, h2, hb, by simp only []; rw [hsz, hl]⟩
          · cases h
  · rintro ⟨hx, h1, h2, h3, h4⟩
    have hc := cut_append 58 d.algo hx h2
    unfold digestParse
    rw [h1, hc]
    simp only [h3, h4, if_true]

theorem unmarshal_ok (d : DVal) (t : Bytes) :
    (unmarshal d t).2 = (digestParse t).isSome ∧
    ∀ dg, digestParse t = some dg → (unmarshal d t).1 = ⟨dg.algo, dg.checksum, digestRepr dg⟩ := by
  unfold unmarshal digestParse
  cases hc : cut 58 t with
  | none => simp
  | some ab =>
    obtain ⟨a, hx⟩ := ab
    simp only []
    cases hb : hexDecode hx with
    | none => simp
    | some b =>
      simp only []
      cases hs : digestSize a with
      | none => simp
      | some sz =>
        simp only []
        by_cases hl : b.length = sz
        · simp [hl, digestRepr]
        · simp [hl]

theorem unmarshal_reject (d : DVal) (t : Bytes) (h : (unmarshal d t).2 = false) : (unmarshal d t).1 = d := by
  unfold unmarshal at h ⊢
  cases hc : cut 58 t with
  | none => rfl
  | some ab =>
    obtain ⟨a, hx⟩ := ab
    simp only [hc] at h ⊢
    cases hb : hexDecode hx with
    | none => rfl
    | some b =>
      simp only [hb] at h ⊢
      cases hs : digestSize a with
      | none => rfl
      | some sz =>
        simp only [hs] at h ⊢
        by_cases hl : b.length = sz
        · simp [hl] at h
        · simp [hl]

theorem algo_no_colon {a : Bytes} {n : Nat} (h : digestSize a = some n) : 58 ∉ a := by
  unfold digestSize at h
  split at h
  · rename_i ha; subst ha; decide
  · split at h
    · rename_i ha; subst ha; decide
    · cases h

end ClairModel.FetchMisc
