/-
  Helper lemmas about the tar segmenter model (Model/TarSeg.lean).
-/
import ClairModel.Model.TarSeg

namespace ClairModel.TarSeg

/-! ### parseNumber -/

theorem octLoop_le : ∀ (s : Bytes) (n v : Nat), octLoop s n = some v → n ≤ maxInt63 → v ≤ maxInt63 := by
  intro s
  induction s with
  | nil => intro n v h hn; simp [octLoop] at h; omega
  | cons c cs ih =>
    intro n v h hn
    simp only [octLoop] at h
    split at h
    · split at h
      · cases h
      · exact ih _ _ h (by omega)
    · cases h

theorem parseOctal_le (s : Bytes) (v : Nat) (h : parseOctal s = some v) : v ≤ maxInt63 := by
  unfold parseOctal at h
  split at h
  · cases h
  · exact octLoop_le s 0 v h (by decide)

theorem parseBinary_range (b : Bytes) (neg : Bool) (v : Int) (h : parseBinary b neg = some v) :
    -(two63 : Int) ≤ v ∧ v < (two63 : Int) := by
  unfold parseBinary at h
  split at h
  · cases h
  · split at h
    · cases h
    · split at h <;> (cases h; constructor <;> omega)

theorem parseText_range (b : Bytes) (v : Int) (h : parseText b = some v) :
    0 ≤ v ∧ v < (two63 : Int) := by
  unfold parseText at h
  split at h
  · cases h; simp [two63]
  · split at h
    · cases h
    · rename_i n ho
      have := parseOctal_le _ _ ho
      cases h
      simp only [maxInt63, two63] at *
      omega

/-- `parseNumber` returns an int64. -/
theorem parseNumber_range (b : Bytes) (v : Int) (h : parseNumber b = some v) :
    -(two63 : Int) ≤ v ∧ v < (two63 : Int) := by
  unfold parseNumber at h
  split at h
  · split at h
    · exact parseBinary_range _ _ _ h
    · have := parseText_range _ _ h
      constructor <;> omega
  · cases h; simp [two63]

/-- ... and a non-negative one unless the field is in the base-256 form (high
    bit of the first byte set). -/
theorem parseNumber_text_nonneg (c0 : UInt8) (rest : Bytes) (v : Int)
    (hb : (c0 &&& 0x80 != 0) = false) (h : parseNumber (c0 :: rest) = some v) : 0 ≤ v := by
  simp only [parseNumber, hb] at h
  exact (parseText_range _ _ h).1

/-! ### one header -/

theorem header_guard_nonneg (b : Bytes) (sz : Int) (cls : Cls)
    (h : header true b = .next sz cls) : 0 ≤ sz := by
  unfold header at h
  split at h
  · cases h
  · split at h
    · cases h
    · split at h
      · cases h
      · rename_i hg
        simp only [Bool.true_and, decide_eq_true_eq] at hg
        injection h with h1 _
        omega

theorem nBlkOf_nonneg (sz : Int) (h : 0 ≤ sz) : nBlkOf sz = (sz + 511) / 512 := by
  unfold nBlkOf
  rw [Int.tdiv_eq_ediv_of_nonneg h, Int.tmod_eq_emod_of_nonneg h]
  split
  · rename_i hm; simp at hm; omega
  · rename_i hm; simp at hm; omega

theorem nBlkOf_toNat (sz : Int) (h : 0 ≤ sz) : (nBlkOf sz).toNat = (sz.toNat + 511) / 512 := by
  rw [nBlkOf_nonneg sz h]
  omega

/-! ### the scan loop -/

@[simp] theorem Res.tick_out (r : Res) : r.tick.out = r.out := rfl
@[simp] theorem Res.tick_reads (r : Res) : r.tick.reads = r.reads + 1 := rfl
@[simp] theorem Res.ticks_out (n : Nat) (r : Res) : (r.ticks n).out = r.out := rfl
@[simp] theorem Res.ticks_reads (n : Nat) (r : Res) : (r.ticks n).reads = r.reads + n := rfl
@[simp] theorem Res.cons_reads (s : Segment) (r : Res) : (r.cons s).reads = r.reads := rfl

theorem Res.cons_out_ok (s : Segment) (r : Res) (ss : List Segment) :
    (r.cons s).out = .ok ss → ∃ t, r.out = .ok t ∧ ss = s :: t := by
  unfold Res.cons
  cases hr : r.out with
  | error e => simp [Except.map]
  | ok t => simp [Except.map]; intro h; exact h.symm

/-- Number of `ReadAt` calls: at most two per header block that is consumed
    (the block and the probe of its last content byte), one for the re-read of
    the first zero block, one for the final read. -/
theorem scan_reads_le (rest : Bytes) (blk cur : Nat) (z : Bool) :
    (scan rest blk cur z).reads ≤ 2 * (rest.length / 512) + (if z then 1 else 2) := by
  fun_induction scan rest blk cur z with
  | case1 => show 1 ≤ _; split <;> omega
  | case2 => show 1 ≤ _; split <;> omega
  | case3 => show 1 ≤ _; split <;> omega
  | case4 rest blk cur z _ b _ hz ih =>
    simp at hz
    simp [hz] at ih ⊢
    omega
  | case5 => show 1 ≤ _; split <;> omega
  | case6 => show 1 ≤ _; split <;> omega
  | case7 rest blk cur z h512 => show 2 ≤ _; split <;> omega
  | case8 rest blk cur z h512 b _ hz sz _ probe adv blk' rest' _ ih =>
    simp at hz; simp [hz] at ih ⊢
    have : rest'.length = rest.length - adv * 512 := by simp [rest']
    have : adv ≥ 1 := by simp [adv]
    have : probe ≤ 1 := by simp only [probe]; split <;> omega
    omega
  | case9 rest blk cur z h512 b _ hz sz _ probe adv blk' rest' _ ih =>
    simp at hz; simp [hz] at ih ⊢
    have : rest'.length = rest.length - adv * 512 := by simp [rest']
    have : adv ≥ 1 := by simp [adv]
    have : probe ≤ 1 := by simp only [probe]; split <;> omega
    omega
  | case10 rest blk cur z h512 b _ hz sz hnt probe adv blk' rest' seg hhdr ih =>
    simp at hz; simp [hz] at ih ⊢
    have : rest'.length = rest.length - adv * 512 := by simp [rest']
    have : adv ≥ 1 := by simp [adv]
    have : probe ≤ 1 := by simp only [probe]; split <;> omega
    omega

/-- At most one segment per 512-byte block of the input. -/
theorem scan_segs_le (rest : Bytes) (blk cur : Nat) (z : Bool) (ss : List Segment)
    (h : (scan rest blk cur z).out = .ok ss) : ss.length ≤ rest.length / 512 := by
  fun_induction scan rest blk cur z generalizing ss with
  | case1 => cases h; simp
  | case2 => cases h
  | case3 => cases h; simp
  | case4 rest blk cur z _ b _ hz ih => exact ih ss h
  | case5 => cases h
  | case6 => cases h
  | case7 => cases h
  | case8 rest blk cur z h512 b _ hz sz _ probe adv blk' rest' _ ih =>
    have := ih ss h
    have : rest'.length = rest.length - adv * 512 := by simp [rest']
    omega
  | case9 rest blk cur z h512 b _ hz sz _ probe adv blk' rest' _ ih =>
    have := ih ss h
    have : rest'.length = rest.length - adv * 512 := by simp [rest']
    omega
  | case10 rest blk cur z h512 b _ hz sz hnt probe adv blk' rest' seg hhdr ih =>
    obtain ⟨t, ht, rfl⟩ := Res.cons_out_ok _ _ _ h
    have := ih t ht
    have : rest'.length = rest.length - adv * 512 := by simp [rest']
    have : adv ≥ 1 := by simp [adv]
    simp only [List.length_cons]
    omega

-- omega turns the literal 512 next to `Int.toNat` into a unary cast; it needs a deeper recursion limit
set_option maxRecDepth 8000 in
/-- Every reported segment starts on a block boundary at or after the current
    segment start, has a positive size that is a multiple of the block size,
    and ends less than one block past the end of the input (the padding of the
    last entry may be missing, its contents may not). -/
theorem scan_within (rest : Bytes) (blk cur : Nat) (z : Bool) (ss : List Segment)
    (hc : cur ≤ blk) (h : (scan rest blk cur z).out = .ok ss) :
    ∀ s ∈ ss, cur * 512 ≤ s.start ∧ s.start % 512 = 0 ∧ 512 ≤ s.size ∧ s.size % 512 = 0
      ∧ blk * 512 + 512 ≤ s.start + s.size
      ∧ s.start + s.size < blk * 512 + rest.length + 512 := by
  fun_induction scan rest blk cur z generalizing ss with
  | case1 => cases h; simp
  | case2 => cases h
  | case3 => cases h; simp
  | case4 rest blk cur z _ b _ hz ih => exact ih ss hc h
  | case5 => cases h
  | case6 => cases h
  | case7 => cases h
  | case8 rest blk cur z h512 b _ hz sz _ probe adv blk' rest' _ ih =>
    intro s hs
    have hl : rest'.length = rest.length - adv * 512 := by simp [rest']
    have hb : blk' = blk + adv := rfl
    have hadv : adv ≥ 1 := by simp [adv]
    clear_value rest' blk' adv
    obtain ⟨h1, h2, h3, h4, h5, h6⟩ := ih ss (by omega) h s hs
    refine ⟨h1, h2, h3, h4, ?_, ?_⟩ <;> omega
  | case9 rest blk cur z h512 b _ hz sz _ probe adv blk' rest' _ ih =>
    intro s hs
    have hl : rest'.length = rest.length - adv * 512 := by simp [rest']
    have hb : blk' = blk + adv := rfl
    have hadv : adv ≥ 1 := by simp [adv]
    clear_value rest' blk' adv
    obtain ⟨h1, h2, h3, h4, h5, h6⟩ := ih ss (Nat.le_refl _) h s hs
    refine ⟨?_, h2, h3, h4, ?_, ?_⟩ <;> omega
  | case10 rest blk cur z h512 b _ hz sz hnt probe adv blk' rest' seg hhdr ih =>
    obtain ⟨t, ht, rfl⟩ := Res.cons_out_ok _ _ _ h
    intro s hs
    have h0 := header_guard_nonneg _ _ _ hhdr
    have hadv : adv = 1 + (sz.toNat + 511) / 512 := by simp only [adv, nBlkOf_toNat sz h0]
    have hl : rest'.length = rest.length - adv * 512 := by simp [rest']
    have hb : blk' = blk + adv := rfl
    have hseg : seg = ⟨cur * 512, (blk' - cur) * 512⟩ := rfl
    have hnt' : sz.toNat = 0 ∨ 512 + sz.toNat ≤ rest.length := by omega
    clear_value seg rest' blk' adv
    generalize sz.toNat = n at *
    rcases List.mem_cons.1 hs with rfl | hs
    · subst hseg
      refine ⟨Nat.le_refl _, ?_, ?_, ?_, ?_, ?_⟩ <;> simp only [] <;> omega
    · obtain ⟨h1, h2, h3, h4, h5, h6⟩ := ih t (Nat.le_refl _) ht s hs
      refine ⟨?_, h2, h3, h4, ?_, ?_⟩ <;> omega

/-- consecutive segments do not overlap -/
def Sorted : List Segment → Prop
  | [] => True
  | [_] => True
  | a :: b :: t => a.start + a.size ≤ b.start ∧ Sorted (b :: t)

theorem scan_sorted (rest : Bytes) (blk cur : Nat) (z : Bool) (ss : List Segment)
    (hc : cur ≤ blk) (h : (scan rest blk cur z).out = .ok ss) : Sorted ss := by
  fun_induction scan rest blk cur z generalizing ss with
  | case1 => cases h; trivial
  | case2 => cases h
  | case3 => cases h; trivial
  | case4 rest blk cur z _ b _ hz ih => exact ih ss hc h
  | case5 => cases h
  | case6 => cases h
  | case7 => cases h
  | case8 rest blk cur z h512 b _ hz sz _ probe adv blk' rest' _ ih =>
    have hb : blk' = blk + adv := rfl
    exact ih ss (by omega) h
  | case9 rest blk cur z h512 b _ hz sz _ probe adv blk' rest' _ ih =>
    exact ih ss (Nat.le_refl _) h
  | case10 rest blk cur z h512 b _ hz sz hnt probe adv blk' rest' seg hhdr ih =>
    obtain ⟨t, ht, rfl⟩ := Res.cons_out_ok _ _ _ h
    have hs := ih t (Nat.le_refl _) ht
    cases t with
    | nil => trivial
    | cons b2 t2 =>
      have hst := scan_within _ _ _ _ _ (Nat.le_refl _) ht b2 (List.mem_cons_self)
      have hb : blk' = blk + adv := rfl
      have hseg : seg = ⟨cur * 512, (blk' - cur) * 512⟩ := rfl
      clear_value seg rest' blk' adv
      subst hseg
      refine ⟨?_, hs⟩
      simp only []
      omega

end ClairModel.TarSeg
