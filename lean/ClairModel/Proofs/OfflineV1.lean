/-
  Lemmas about the zip-of-zips model (Model/OfflineV1.lean) for Props/C16.lean.
-/
import ClairModel.Model.OfflineV1

namespace ClairModel.OfflineV1

def DistinctNames (us : List Upd) : Prop := us.Pairwise fun a b => a.name ≠ b.name

theorem eq_of_name_eq (l : List Upd) (hd : DistinctNames l) (a b : Upd) (ha : a ∈ l) (hb : b ∈ l)
    (h : a.name = b.name) : a = b := by
  induction l with
  | nil => simp at ha
  | cons x l ih =>
    have hxl := (List.pairwise_cons.1 hd).1
    rcases List.mem_cons.1 ha with rfl | ha' <;> rcases List.mem_cons.1 hb with rfl | hb'
    · rfl
    · exact absurd h (hxl b hb')
    · exact absurd h.symm (hxl a ha')
    · exact ih (List.pairwise_cons.1 hd).2 ha' hb'

/-! ### `updaters` hands out pairwise different names -/

theorem dedup_spec (us : List Upd) : ∀ (seen : List String),
    DistinctNames (dedup us seen) ∧ (∀ u ∈ dedup us seen, u ∈ us ∧ u.name ∉ seen) := by
  induction us with
  | nil => intro seen; exact ⟨List.Pairwise.nil, by simp [dedup]⟩
  | cons a us ih =>
    intro seen
    by_cases h : seen.contains a.name = true
    · obtain ⟨h1, h2⟩ := ih seen
      simp only [dedup, h, if_true]
      exact ⟨h1, fun u hu => ⟨List.mem_cons_of_mem _ (h2 u hu).1, (h2 u hu).2⟩⟩
    · obtain ⟨h1, h2⟩ := ih (a.name :: seen)
      simp only [dedup, h]
      refine ⟨List.pairwise_cons.2 ⟨?_, h1⟩, ?_⟩
      · intro b hb hab
        have := (h2 b hb).2
        exact this (by simp [hab])
      · intro u hu
        rcases List.mem_cons.1 hu with rfl | hu
        · exact ⟨by simp, by simpa using h⟩
        · exact ⟨List.mem_cons_of_mem _ (h2 u hu).1, fun hm => (h2 u hu).2 (List.mem_cons_of_mem _ hm)⟩

theorem distinctNames_perm {l₁ l₂ : List Upd} (h : l₁.Perm l₂) (hd : DistinctNames l₂) : DistinctNames l₁ :=
  (h.pairwise_iff (fun hab => fun hba => hab hba.symm)).2 hd

theorem updaters_distinct (raw : List Upd) : DistinctNames (updaters raw) :=
  distinctNames_perm (List.mergeSort_perm _ _) (dedup_spec _ []).1

theorem updaters_mem (raw : List Upd) (u : Upd) (h : u ∈ updaters raw) : u ∈ raw ∧ hasSlash u.name = false := by
  have h1 : u ∈ dedup (raw.filter fun u => !hasSlash u.name) [] := (List.mergeSort_perm _ _).mem_iff.1 h
  have h2 := ((dedup_spec _ []).2 u h1).1
  have h3 := List.mem_filter.1 h2
  exact ⟨h3.1, by simpa using h3.2⟩

/-! ### Looking files up in what `writeAll` wrote -/

theorem fpOf_append (a b : Zip) (n : String) : fpOf (a ++ b) n = (fpOf a n).or (fpOf b n) := by
  simp [fpOf, List.findSome?_append]

theorem refOf_append (a b : Zip) (n : String) : refOf (a ++ b) n = (refOf a n).or (refOf b n) := by
  simp [refOf, List.findSome?_append]

theorem dataOf_append (a b : Zip) (n : String) : dataOf (a ++ b) n = (dataOf a n).or (dataOf b n) := by
  simp [dataOf, List.findSome?_append]

theorem hasDir_append (a b : Zip) (n : String) : hasDir (a ++ b) n = (hasDir a n || hasDir b n) := by
  simp [hasDir, List.any_append]

theorem lookup_addUpdater_self (u : Upd) (r : Nat) :
    hasDir (addUpdater u r) u.name = true ∧ fpOf (addUpdater u r) u.name = some u.fp ∧
    refOf (addUpdater u r) u.name = some r ∧ dataOf (addUpdater u r) u.name = some (u.vulns, u.enrich) := by
  simp [hasDir, fpOf, refOf, dataOf, addUpdater]

theorem lookup_addUpdater_other (u : Upd) (r : Nat) (n : String) (h : u.name ≠ n) :
    hasDir (addUpdater u r) n = false ∧ fpOf (addUpdater u r) n = none ∧
    refOf (addUpdater u r) n = none ∧ dataOf (addUpdater u r) n = none := by
  simp [hasDir, fpOf, refOf, dataOf, addUpdater, h]

/-- Every written updater is found with its own fingerprint, data and ref. -/
theorem lookup_writeAll (ord : List Upd) : ∀ (refs : List Nat), DistinctNames ord →
    ∀ p ∈ ord.zip refs,
      hasDir (writeAll ord refs) p.1.name = true ∧ fpOf (writeAll ord refs) p.1.name = some p.1.fp ∧
      refOf (writeAll ord refs) p.1.name = some p.2 ∧
      dataOf (writeAll ord refs) p.1.name = some (p.1.vulns, p.1.enrich) := by
  induction ord with
  | nil => intro refs _ p hp; simp at hp
  | cons a ord ih =>
    intro refs hd p hp
    cases refs with
    | nil => simp at hp
    | cons r rs =>
      simp only [List.zip_cons_cons, List.mem_cons] at hp
      simp only [writeAll, hasDir_append, fpOf_append, refOf_append, dataOf_append]
      rcases hp with rfl | hp
      · obtain ⟨h1, h2, h3, h4⟩ := lookup_addUpdater_self a r
        simp [h1, h2, h3, h4]
      · have hne : a.name ≠ p.1.name := (List.pairwise_cons.1 hd).1 p.1 (List.of_mem_zip hp).1
        obtain ⟨h1, h2, h3, h4⟩ := lookup_addUpdater_other a r p.1.name hne
        obtain ⟨i1, i2, i3, i4⟩ := ih rs (List.pairwise_cons.1 hd).2 p hp
        simp [h1, h2, h3, h4, i1, i2, i3, i4]

/-- A name no written updater carries has no directory. -/
theorem hasDir_writeAll_none (ord : List Upd) : ∀ (refs : List Nat) (n : String),
    (∀ u ∈ ord, u.name ≠ n) → hasDir (writeAll ord refs) n = false := by
  induction ord with
  | nil => intro refs n _; cases refs <;> simp [writeAll, hasDir]
  | cons a ord ih =>
    intro refs n h
    cases refs with
    | nil => simp [writeAll, hasDir]
    | cons r rs =>
      simp only [writeAll, hasDir_append]
      rw [(lookup_addUpdater_other a r n (h a (by simp))).1, ih rs n (fun u hu => h u (by simp [hu]))]
      rfl

theorem mem_zip_of_mem (ord : List Upd) : ∀ (refs : List Nat), ord.length ≤ refs.length →
    ∀ u ∈ ord, ∃ r, (u, r) ∈ ord.zip refs := by
  induction ord with
  | nil => intro _ _ u hu; simp at hu
  | cons a ord ih =>
    intro refs hl u hu
    cases refs with
    | nil => simp at hl
    | cons r rs =>
      rcases List.mem_cons.1 hu with rfl | hu
      · exact ⟨r, by simp⟩
      · obtain ⟨r', hr'⟩ := ih rs (by simpa using hl) u hu
        exact ⟨r', by simp [hr']⟩

/-! ### The order given to `exportV1` -/

theorem filter_name_ne_self (l : List Upd) (n : String) (h : ∀ x ∈ l, x.name ≠ n) :
    l.filter (fun x => !(x.name == n)) = l := by
  apply List.filter_eq_self.2
  intro x hx
  simp [h x hx]

theorem perm_cons_filter_name (l : List Upd) (e : Upd) (hd : DistinctNames l) (he : e ∈ l) :
    (e :: l.filter (fun x => !(x.name == e.name))).Perm l := by
  induction l with
  | nil => simp at he
  | cons a l ih =>
    have hal : ∀ x ∈ l, a.name ≠ x.name := (List.pairwise_cons.1 hd).1
    have hd' : DistinctNames l := (List.pairwise_cons.1 hd).2
    by_cases hae : a.name = e.name
    · have : e = a := by
        rcases List.mem_cons.1 he with h | h
        · exact h
        · exact absurd hae (hal e h)
      subst this
      have : (e :: l).filter (fun x => !(x.name == e.name)) = l := by
        simp only [List.filter, beq_self_eq_true, Bool.not_true]
        exact filter_name_ne_self l e.name (fun x hx => (hal x hx).symm)
      rw [this]
    · have hel : e ∈ l := by
        rcases List.mem_cons.1 he with h | h
        · exact absurd (h ▸ rfl) hae
        · exact h
      have hb : (!(a.name == e.name)) = true := by simp [hae]
      simp only [List.filter, hb]
      exact (List.Perm.swap a e _).trans ((ih hd' hel).cons a)

theorem arrangeU_perm (order : List String) : ∀ (us r : List Upd), DistinctNames us →
    arrangeU us order = some r → r.Perm us := by
  induction order with
  | nil =>
    intro us r _ h
    simp only [arrangeU] at h
    split at h
    · rename_i he
      cases h
      rw [List.isEmpty_iff.1 he]
    · cases h
  | cons n ns ih =>
    intro us r hd h
    simp only [arrangeU] at h
    split at h
    · cases h
    · rename_i e hf
      split at h
      · cases h
      · rename_i r' ha
        cases h
        have hmem : e ∈ us := List.mem_of_find?_eq_some hf
        have hname : e.name = n := by have := List.find?_some hf; simpa using this
        have hd' : DistinctNames (us.filter fun x => !(x.name == n)) := List.Pairwise.filter _ hd
        have h1 := ih _ _ hd' ha
        subst hname
        exact (h1.cons e).trans (perm_cons_filter_name us e hd hmem)

/-- The order of the list itself is accepted. -/
theorem arrangeU_self (us : List Upd) (hd : DistinctNames us) :
    arrangeU us (us.map (·.name)) = some us := by
  induction us with
  | nil => rfl
  | cons a l ih =>
    have hal : ∀ x ∈ l, a.name ≠ x.name := (List.pairwise_cons.1 hd).1
    have hd' : DistinctNames l := (List.pairwise_cons.1 hd).2
    have hf : (a :: l).filter (fun x => !(x.name == a.name)) = l := by
      simp only [List.filter, beq_self_eq_true, Bool.not_true]
      exact filter_name_ne_self l a.name (fun x hx => (hal x hx).symm)
    simp only [List.map_cons, arrangeU, List.find?_cons, beq_self_eq_true, hf, ih hd']

/-! ### Import of an export -/

/-- The store calls `importV1` makes for updater `u` whose files carry `ref`. -/
def callsFor (u : Upd) (ref : Nat) : List Call :=
  (if u.hasV && !u.vulns.isEmpty then [Call.vulns ref u.name u.fp u.vulns] else []) ++
  (if u.hasE && !u.enrich.isEmpty then [Call.enrich ref u.name u.fp u.enrich] else [])

/-- The ref `addUpdater` wrote for `name` (0 if the export has no such updater). -/
def refIn (z : Zip) (name : String) : Nat := (refOf z name).getD 0

theorem importOne_written (ord : List Upd) (refs : List Nat) (hd : DistinctNames ord)
    (hl : ord.length ≤ refs.length) (u : Upd) (hu : u ∈ ord) (hp : (u.hasV || u.hasE) = true) :
    importOne (writeAll ord refs) u = some (callsFor u (refIn (writeAll ord refs) u.name)) := by
  obtain ⟨r, hr⟩ := mem_zip_of_mem ord refs hl u hu
  obtain ⟨h1, h2, h3, h4⟩ := lookup_writeAll ord refs hd (u, r) hr
  simp only at h1 h2 h3 h4
  have hp' : (!u.hasV && !u.hasE) = false := by
    cases hv : u.hasV <;> cases he : u.hasE <;> simp_all
  simp [importOne, h1, h2, h3, h4, hp', callsFor, refIn]

theorem importOne_absent (ord : List Upd) (refs : List Nat) (u : Upd) (h : ∀ v ∈ ord, v.name ≠ u.name) :
    importOne (writeAll ord refs) u = some [] := by
  simp [importOne, hasDir_writeAll_none ord refs u.name h]

theorem importList_export (pf : String → String) (ord : List Upd) (refs : List Nat) (all : List Upd)
    (hdall : DistinctNames all) (hperm : ord.Perm (all.filter (exported pf)))
    (hl : ord.length ≤ refs.length) :
    ∀ (us : List Upd), (∀ u ∈ us, u ∈ all) → (∀ u ∈ us, (u.hasV || u.hasE) = true) →
      importList (writeAll ord refs) us =
        (us.flatMap (fun u => if exported pf u then callsFor u (refIn (writeAll ord refs) u.name) else []), true) := by
  have hdord : DistinctNames ord :=
    distinctNames_perm hperm (List.Pairwise.filter _ hdall)
  intro us
  induction us with
  | nil => intro _ _; rfl
  | cons u us ih =>
    intro hall hp
    have ih' := ih (fun x hx => hall x (by simp [hx])) (fun x hx => hp x (by simp [hx]))
    have hu : u ∈ all := hall u (by simp)
    by_cases hex : exported pf u = true
    · have hmem : u ∈ ord := hperm.mem_iff.2 (List.mem_filter.2 ⟨hu, hex⟩)
      simp [importList, importOne_written ord refs hdord hl u hmem (hp u (by simp)), ih', hex]
    · have habs : ∀ v ∈ ord, v.name ≠ u.name := by
        intro v hv hn
        have hv' := List.mem_filter.1 (hperm.mem_iff.1 hv)
        -- names are distinct in `all`, so v = u, which is not exported
        have : v = u := eq_of_name_eq all hdall v u hv'.1 hu hn
        subst this
        exact hex hv'.2
      simp [importList, importOne_absent ord refs u habs, ih', hex]

end ClairModel.OfflineV1
