/-
  Lemmas about the RubyGems model (Model/Gem.lean): the zero-padded numeric
  comparison is string comparison at a common width; segment comparison is a
  total preorder; trailing zero segments do not matter.
-/
import ClairModel.Model.Gem

set_option linter.unusedSimpArgs false

namespace ClairModel.Gem
open ClairModel.Order ClairModel.Version

def padTo (m : Nat) (a : List Char) : List Char := List.replicate (m - a.length) '0' ++ a

theorem replicate_split (k n : Nat) (c : Char) (h : k ≤ n) :
    List.replicate n c = List.replicate (n - k) c ++ List.replicate k c := by
  have : n = (n - k) + k := by omega
  conv => lhs; rw [this]
  exact List.replicate_append_replicate.symm

/-- The comparison pads to the longer length; padding both to any common
    width `m` gives the same answer. -/
theorem numCmp_eq_pad (a b : List Char) (m : Nat) (ha : a.length ≤ m) (hb : b.length ≤ m) :
    numCmp a b = strCmp (padTo m a) (padTo m b) := by
  have hr : ∀ c : Char, natCmp c.toNat c.toNat = .eq := fun c => natCmp_totalPre.refl _
  unfold numCmp padTo strCmp
  by_cases h : a.length ≥ b.length
  · simp only [h, if_true]
    have : List.replicate (m - b.length) '0' = List.replicate (m - a.length) '0' ++ List.replicate (a.length - b.length) '0' := by
      have := replicate_split (a.length - b.length) (m - b.length) '0' (by omega)
      rw [this]; congr 2; omega
    rw [this, List.append_assoc, lexCmp_append_left hr]
  · simp only [h, if_false]
    have : List.replicate (m - a.length) '0' = List.replicate (m - b.length) '0' ++ List.replicate (b.length - a.length) '0' := by
      have := replicate_split (b.length - a.length) (m - a.length) '0' (by omega)
      rw [this]; congr 2; omega
    rw [this, List.append_assoc, lexCmp_append_left hr]

theorem numCmp_totalPre : TotalPre numCmp where
  refl a := by
    rw [numCmp_eq_pad a a a.length (Nat.le_refl _) (Nat.le_refl _)]
    exact strCmp_totalPre.refl _
  swap a b := by
    have h₁ := numCmp_eq_pad a b (max a.length b.length) (Nat.le_max_left ..) (Nat.le_max_right ..)
    have h₂ := numCmp_eq_pad b a (max a.length b.length) (Nat.le_max_right ..) (Nat.le_max_left ..)
    rw [h₁, h₂]
    exact strCmp_totalPre.swap _ _
  trans a b d := by
    let m := max a.length (max b.length d.length)
    have ha : a.length ≤ m := Nat.le_max_left ..
    have hb : b.length ≤ m := Nat.le_trans (Nat.le_max_left ..) (Nat.le_max_right ..)
    have hd : d.length ≤ m := Nat.le_trans (Nat.le_max_right ..) (Nat.le_max_right ..)
    rw [numCmp_eq_pad a b m ha hb, numCmp_eq_pad b d m hb hd, numCmp_eq_pad a d m ha hd]
    exact strCmp_totalPre.trans _ _ _

theorem segCmp_totalPre : TotalPre segCmp where
  refl a := by
    cases a with
    | num d => exact numCmp_totalPre.refl d
    | str t => exact strCmp_totalPre.refl t
  swap a b := by
    cases a <;> cases b <;> simp only [segCmp, Ordering.swap]
    · exact numCmp_totalPre.swap _ _
    · exact strCmp_totalPre.swap _ _
  trans a b d := by
    cases a <;> cases b <;> cases d <;> simp only [segCmp] <;> intro h₁ h₂ <;> simp_all
    · exact numCmp_totalPre.trans _ _ _ h₁ h₂
    · exact strCmp_totalPre.trans _ _ _ h₁ h₂

/-- `Version.Compare` of gem versions is a total preorder on segment lists. -/
theorem cmp_totalPre : TotalPre cmp := lexCmpPad_totalPre zeroSeg segCmp_totalPre

/-- A numeric segment consisting of zeros is equivalent to the padding segment "0". -/
theorem zero_seg_eq_pad (d : List Char) (h : d.all (· = '0') = true) : segCmp (.num d) zeroSeg = .eq := by
  have hd : d = List.replicate d.length '0' := by
    apply List.eq_replicate_iff.2
    refine ⟨rfl, fun c hc => ?_⟩
    have := List.all_eq_true.1 h c hc
    simpa using this
  simp only [segCmp, zeroSeg]
  rw [numCmp_eq_pad d ['0'] (max d.length 1) (Nat.le_max_left ..) (Nat.le_max_right ..)]
  have : padTo (max d.length 1) d = padTo (max d.length 1) ['0'] := by
    unfold padTo
    rw [hd]
    simp only [List.length_replicate, List.length_cons, List.length_nil]
    have : ['0'] = List.replicate 1 '0' := rfl
    rw [this, List.replicate_append_replicate, List.replicate_append_replicate]
    congr 1
    omega
  rw [this]
  exact strCmp_totalPre.refl _

/-! ### canonicalisation -/

theorem dropTrailingZeros_append_zero (l : List Seg) (z : Seg) (hz : z.isZero = true) :
    dropTrailingZeros (l ++ [z]) = dropTrailingZeros l := by
  unfold dropTrailingZeros
  simp [List.reverse_append, List.dropWhile_cons, hz]

theorem isZero_not_str {z : Seg} (hz : z.isZero = true) : z.isStr = false := by
  cases z <;> simp_all [Seg.isZero, Seg.isStr]

/-- A trailing zero segment disappears in the canonical form. -/
theorem canonSegs_append_zero (l : List Seg) (z : Seg) (hz : z.isZero = true) :
    canonSegs (l ++ [z]) = canonSegs l := by
  unfold canonSegs
  simp only [dropTrailingZeros_append_zero l z hz, List.any_append, List.any_cons, List.any_nil,
    isZero_not_str hz, Bool.or_false]

theorem dropTrailingZeros_append_str (x : List Seg) (t : List Char) (rest : List Seg) :
    ∃ rest', dropTrailingZeros (x ++ Seg.str t :: rest) = x ++ Seg.str t :: rest' ∧
      dropTrailingZeros (Seg.str t :: rest) = Seg.str t :: rest' := by
  -- the scan from the end stops at the string segment at the latest
  have key : ∀ (pre : List Seg), ∃ rest', dropTrailingZeros (pre ++ Seg.str t :: rest) = pre ++ Seg.str t :: rest' ∧
      rest' = ((rest.reverse.dropWhile Seg.isZero).reverse) := by
    intro pre
    refine ⟨(rest.reverse.dropWhile Seg.isZero).reverse, ?_, rfl⟩
    unfold dropTrailingZeros
    simp only [List.reverse_append, List.reverse_cons, List.append_assoc, List.singleton_append]
    induction rest.reverse with
    | nil => simp [List.dropWhile_cons, Seg.isZero]
    | cons y ys ih =>
      by_cases hy : y.isZero = true
      · simp only [List.cons_append, List.dropWhile_cons, hy, if_true]; exact ih
      · simp [List.dropWhile_cons, hy]
  obtain ⟨r₁, h₁, e₁⟩ := key x
  obtain ⟨r₂, h₂, e₂⟩ := key []
  refine ⟨r₁, h₁, ?_⟩
  simpa [e₁, e₂] using h₂

theorem spanNoStr_append (pre : List Seg) (hpre : ∀ s ∈ pre, s.isStr = false) (t : List Char) (rest : List Seg) :
    spanNoStr (pre ++ Seg.str t :: rest) = (pre, Seg.str t :: rest) := by
  induction pre with
  | nil => simp [spanNoStr, Seg.isStr]
  | cons p ps ih =>
    have hp := hpre p List.mem_cons_self
    have := ih (fun s hs => hpre s (List.mem_cons_of_mem _ hs))
    simp [spanNoStr, hp, this]

/-- A zero segment directly before the first string segment of a prerelease
    version disappears in the canonical form ("1.0.a" and "1.a" are the same
    version). -/
theorem canonSegs_zero_before_str (pre : List Seg) (hpre : ∀ s ∈ pre, s.isStr = false) (z : Seg)
    (hz : z.isZero = true) (t : List Char) (rest : List Seg) :
    canonSegs (pre ++ z :: Seg.str t :: rest) = canonSegs (pre ++ Seg.str t :: rest) := by
  have hzs := isZero_not_str hz
  obtain ⟨r₁, h₁, _⟩ := dropTrailingZeros_append_str (pre ++ [z]) t rest
  obtain ⟨r₂, h₂, h₂'⟩ := dropTrailingZeros_append_str pre t rest
  have hr : r₁ = r₂ := by
    obtain ⟨r₃, h₃, h₃'⟩ := dropTrailingZeros_append_str (pre ++ [z]) t rest
    have : Seg.str t :: r₁ = Seg.str t :: r₂ := by
      have a := List.append_cancel_left (h₁.symm.trans h₃)
      rw [← h₃'] at a
      rw [← h₂', ← a]
    exact (List.cons.inj this).2
  subst hr
  have e₁ : pre ++ z :: Seg.str t :: rest = (pre ++ [z]) ++ Seg.str t :: rest := by simp
  unfold canonSegs
  rw [e₁, h₁, h₂]
  have hpz : ∀ s ∈ pre ++ [z], s.isStr = false := by
    intro s hs
    rcases List.mem_append.1 hs with hs | hs
    · exact hpre s hs
    · simp at hs; subst hs; exact hzs
  simp only [spanNoStr_append (pre ++ [z]) hpz, spanNoStr_append pre hpre]
  simp [List.any_append, Seg.isStr, dropTrailingZeros_append_zero pre z hz]

end ClairModel.Gem
