/-
  The ranges the OSV event machine produces for a list of intervals contain
  exactly the (projected) versions the intervals describe — for bounds and
  versions without pre-release whose numbers fit an int32 (`covers_exact`).
-/
import ClairModel.Proofs.OsvRange

set_option linter.unusedSimpArgs false
set_option linter.unusedVariables false

namespace ClairModel.OsvRange
open ClairModel.Order ClairModel.Version

/-- The explicit slots of `FromSemver` on small numbers. -/
def slots (a b c : Int) : Version := { kind := semverKind, v := [0, a, b, c, 0, 0, 0, 0, 0, 0] }

theorem small_spec {v : Semver.SV} (h : small v = true) :
    0 ≤ v.major ∧ v.major < 2147483647 ∧ 0 ≤ v.minor ∧ v.minor < 2147483647 ∧ 0 ≤ v.patch ∧ v.patch < 2147483647 := by
  unfold small at h
  simp only [Bool.and_eq_true, decide_eq_true_eq] at h
  omega

theorem fromSemver_small (a b c : Int) (ha : 0 ≤ a ∧ a < 2147483648) (hb : 0 ≤ b ∧ b < 2147483648)
    (hc : 0 ≤ c ∧ c < 2147483648) : fromSemver a b c = slots a b c := by
  have e : ∀ x : Int, 0 ≤ x → x < 2147483648 → ¬ x > maxInt32 := by
    intro x _ h; simp only [maxInt32]; omega
  unfold fromSemver slots
  rw [satSlots_small _ (e a ha.1 ha.2), satSlots_small _ (e b hb.1 hb.2), satSlots_small _ (e c hc.1 hc.2),
    toInt32_id (by omega) ha.2, toInt32_id (by omega) hb.2, toInt32_id (by omega) hc.2]
  simp [satSlots, semverKind]

theorem project_small {v : Semver.SV} (h : small v = true) : Semver.project v = slots v.major v.minor v.patch := by
  have := small_spec h
  exact fromSemver_small _ _ _ (by omega) (by omega) (by omega)

theorem slots_cmp (a1 a2 a3 b1 b2 b3 : Int) :
    Version.cmp (slots a1 a2 a3) (slots b1 b2 b3) = lexCmp intCmp [a1, a2, a3] [b1, b2, b3] := by
  simp [Version.cmp, slots, lexCmp, intCmp_totalPre.refl, Ordering.then]

/-- Without pre-releases Masterminds' `Compare` is the comparison of the cores. -/
theorem semver_cmp_nopre (a b : Semver.SV) (ha : a.pre.isEmpty = true) (hb : b.pre.isEmpty = true) :
    Semver.cmp a b = lexCmp intCmp [a.major, a.minor, a.patch] [b.major, b.minor, b.patch] := by
  unfold Semver.cmp semverCoreCmp Semver.core
  simp only [ha, hb, Bool.and_self, if_true]
  cases lexCmp intCmp [a.major, a.minor, a.patch] [b.major, b.minor, b.patch] <;> rfl

theorem zero_le_slots (a b c : Int) (ha : 0 ≤ a) (hb : 0 ≤ b) (hc : 0 ≤ c) :
    Version.cmp { kind := semverKind, v := zeroV.v } (slots a b c) ≠ .gt := by
  have e : ({ kind := semverKind, v := zeroV.v } : Version) = slots 0 0 0 := rfl
  rw [e, slots_cmp]
  simp only [lexCmp, intCmp]
  by_cases h1 : (0 : Int) < a
  · simp [h1, Ordering.then]
  · have : a = 0 := by omega
    subst this
    by_cases h2 : (0 : Int) < b
    · simp [h2, Ordering.then]
    · have : b = 0 := by omega
      subst this
      by_cases h3 : (0 : Int) < c
      · simp [h3, Ordering.then]
      · have : c = 0 := by omega
        subst this
        simp [Ordering.then]

theorem slots_lt_inf (a b c : Int) : Version.cmp (slots a b c) infV = .lt := by
  simp [Version.cmp, slots, infV, lexCmp, intCmp, Ordering.then]

theorem inf_gt_slots (a b c : Int) : Version.cmp infV (slots a b c) = .gt := by
  simp [Version.cmp, slots, infV, lexCmp, intCmp, Ordering.then]

theorem then_lt_iff (x y : Ordering) : x.then y = .lt ↔ x = .lt ∨ (x = .eq ∧ y = .lt) := by
  cases x <;> simp [Ordering.then]

theorem then_ne_gt_iff (x y : Ordering) : x.then y ≠ .gt ↔ x = .lt ∨ (x = .eq ∧ y ≠ .gt) := by
  cases x <;> simp [Ordering.then]

theorem lex3_lt (a1 a2 a3 b1 b2 b3 : Int) :
    lexCmp intCmp [a1, a2, a3] [b1, b2, b3] = .lt ↔ a1 < b1 ∨ (a1 = b1 ∧ (a2 < b2 ∨ (a2 = b2 ∧ a3 < b3))) := by
  simp only [lexCmp, then_lt_iff, intCmp_lt, intCmp_eq]
  simp

theorem lex3_ne_gt (a1 a2 a3 b1 b2 b3 : Int) :
    lexCmp intCmp [a1, a2, a3] [b1, b2, b3] ≠ .gt ↔ a1 < b1 ∨ (a1 = b1 ∧ (a2 < b2 ∨ (a2 = b2 ∧ a3 ≤ b3))) := by
  simp only [lexCmp, then_ne_gt_iff, intCmp_lt, intCmp_eq]
  have : (Ordering.eq ≠ Ordering.gt) = True := by simp
  rw [this]
  simp only [and_true]
  omega

/-- `v < (b1, b2, b3 + 1)` exactly when `v ≤ (b1, b2, b3)`. -/
theorem lex_lt_succ (a1 a2 a3 b1 b2 b3 : Int) :
    lexCmp intCmp [a1, a2, a3] [b1, b2, b3 + 1] = .lt ↔ lexCmp intCmp [a1, a2, a3] [b1, b2, b3] ≠ .gt := by
  rw [lex3_lt, lex3_ne_gt]
  omega

theorem inc64_small (p : Int) (h : 0 ≤ p ∧ p < 2147483647) : Semver.inc64 p = p + 1 := by
  unfold Semver.inc64; omega

/-- One finished cell against a version: the range as `finish` leaves it
    contains the version (a removed range contains nothing). -/
def cellCovers (c : Cell) (pv : Version) : Bool :=
  match finish c with
  | some c' => contains (cellRange c') pv
  | none => false

theorem covers_filterMap (cells : List Cell) (pv : Version) :
    covers (cells.filterMap finish) pv = cells.any fun c => cellCovers c pv := by
  induction cells with
  | nil => rfl
  | cons c cs ih =>
    unfold covers at ih ⊢
    simp only [List.filterMap_cons, List.any_cons]
    rw [← ih]
    unfold cellCovers
    cases finish c with
    | none => simp
    | some c' => simp

/-- A range whose lower bound is above its upper bound contains nothing, so
    removing it changes no membership. -/
theorem contains_of_inverted (L U pv : Version) (h : Version.cmp L U = .gt) :
    contains { lower := L, upper := U } pv = false := by
  cases hc : contains { lower := L, upper := U } pv with
  | false => rfl
  | true =>
    unfold contains at hc
    simp only [Bool.and_eq_true, bne_iff_ne, ne_eq, beq_iff_eq] at hc
    have h1 : Version.cmp L pv ≠ .gt := hc.1
    have h2 : Version.cmp pv U = .lt := by
      rw [cmp_totalPre.swap U pv, hc.2]; rfl
    have := cmp_totalPre.lt_of_le_of_lt h1 h2
    rw [this] at h; cases h

/-- `cellCovers` in terms of the final bounds. -/
theorem cellCovers_eq (L U0 : Version) (f : List Char) (pv : Version) :
    cellCovers { lower := L, upper := U0, fixedIn := f } pv =
      contains { lower := L,
                 upper := if U0.kind.isEmpty then { kind := L.kind, v := setV0 U0.v } else U0 } pv := by
  unfold cellCovers finish
  simp only
  by_cases hg : Version.cmp L (if U0.kind.isEmpty then { kind := L.kind, v := setV0 U0.v } else U0) = .gt
  · rw [if_pos hg, contains_of_inverted _ _ _ hg]
  · rw [if_neg hg]; rfl

theorem any_congr_mem {α : Type} (f g : α → Bool) : ∀ l : List α, (∀ x ∈ l, f x = g x) → l.any f = l.any g
  | [], _ => rfl
  | x :: xs, h => by
    simp only [List.any_cons, h x List.mem_cons_self,
      any_congr_mem f g xs fun y hy => h y (List.mem_cons_of_mem _ hy)]

theorem cleanText_spec {s : List Char} (h : cleanText s = true) :
    ∃ a, Semver.parse s = some a ∧ a.pre.isEmpty = true ∧ small a = true := by
  unfold cleanText at h
  cases hp : Semver.parse s with
  | none => rw [hp] at h; cases h
  | some a =>
    rw [hp] at h
    simp only [Bool.and_eq_true] at h
    exact ⟨a, rfl, h.1, h.2⟩

theorem upper_cmp (U pv : Version) : (Version.cmp U pv == .gt) = (Version.cmp pv U == .lt) := by
  rw [cmp_totalPre.swap pv U]
  cases Version.cmp pv U <;> rfl

theorem semverKind_nonempty : semverKind.isEmpty = false := rfl

/-- The lower bound of a clean interval against a clean version. -/
theorem lower_ok (intro : List Char) (hc : (intro = ['0'] || cleanText intro) = true) (v : Semver.SV)
    (hp : v.pre.isEmpty = true) (hs : small v = true) :
    (lowerOf intro).kind = semverKind ∧
    (Version.cmp (lowerOf intro) (Semver.project v) != .gt) = lowerAffected intro v := by
  have sv := small_spec hs
  rw [project_small hs]
  unfold lowerAffected
  by_cases h0 : intro = ['0']
  · subst h0
    have hz := zero_le_slots v.major v.minor v.patch sv.1 sv.2.2.1 sv.2.2.2.2.1
    constructor
    · rfl
    · simp only [lowerOf, if_true, decide_true, Bool.true_or]
      simpa using hz
  · have hct : cleanText intro = true := by simpa [h0] using hc
    obtain ⟨a, ha, hap, has⟩ := cleanText_spec hct
    constructor
    · simp only [lowerOf, h0, if_false, ha]
      rw [project_small has]; rfl
    · simp only [lowerOf, h0, if_false, ha, decide_false, Bool.false_or]
      rw [project_small has, slots_cmp, semver_cmp_nopre a v hap hp]

/-- **One interval**: the finished range of a clean interval contains the
    projection of a clean version exactly when the interval, read as the
    schema states it, contains the version. -/
theorem interval_covers (hv : Bool) (iv : Interval) (hcl : iv.clean = true)
    (hl : hv = false ∨ iv.close.isLastAffected = false) (v : Semver.SV)
    (hp : v.pre.isEmpty = true) (hs : small v = true) :
    cellCovers (cellOf hv iv) (Semver.project v) = affectedBy iv v := by
  obtain ⟨intro, c⟩ := iv
  unfold Interval.clean at hcl
  simp only [Bool.and_eq_true] at hcl
  obtain ⟨hci, hcc⟩ := hcl
  obtain ⟨hk, hlow⟩ := lower_ok intro hci v hp hs
  have sv := small_spec hs
  unfold affectedBy upperAffected
  simp only
  rw [← hlow]
  cases c with
  | none =>
    simp only [cellOf]
    rw [cellCovers_eq]
    have : (if zeroV.kind.isEmpty then ({ kind := (lowerOf intro).kind, v := setV0 zeroV.v } : Version) else zeroV) = infV := by
      rw [hk]; rfl
    rw [this]
    unfold contains
    simp only [upper_cmp, project_small hs, slots_lt_inf]
    simp
  | limitStar =>
    simp only [cellOf]
    rw [cellCovers_eq]
    have : (if infV.kind.isEmpty then ({ kind := (lowerOf intro).kind, v := setV0 infV.v } : Version) else infV) = infV := rfl
    rw [this]
    unfold contains
    simp only [upper_cmp, project_small hs, slots_lt_inf]
    simp
  | fixed s =>
    simp only at hcc
    obtain ⟨b, hb, hbp, hbs⟩ := cleanText_spec hcc
    simp only [cellOf, hb]
    rw [cellCovers_eq]
    have hkb : (Semver.project b).kind.isEmpty = false := by rw [project_small hbs]; rfl
    simp only [hkb, Bool.false_eq_true, if_false]
    unfold contains
    simp only [upper_cmp]
    rw [project_small hbs, project_small hs, slots_cmp, semver_cmp_nopre v b hp hbp]
  | lastAffected s =>
    simp only at hcc
    obtain ⟨b, hb, hbp, hbs⟩ := cleanText_spec hcc
    have hvf : hv = false := by
      rcases hl with h | h
      · exact h
      · simp [Close.isLastAffected] at h
    subst hvf
    have sb := small_spec hbs
    simp only [cellOf, hb, Bool.false_eq_true, if_false]
    rw [cellCovers_eq]
    have hinc : Semver.project (Semver.incPatch b) = slots b.major b.minor (b.patch + 1) := by
      unfold Semver.incPatch Semver.project
      simp only [hbp, if_true]
      rw [inc64_small b.patch ⟨sb.2.2.2.2.1, sb.2.2.2.2.2⟩]
      exact fromSemver_small _ _ _ (by omega) (by omega) (by omega)
    rw [hinc]
    have hkb : (slots b.major b.minor (b.patch + 1)).kind.isEmpty = false := rfl
    simp only [hkb, Bool.false_eq_true, if_false]
    unfold contains
    simp only [upper_cmp]
    rw [project_small hs, slots_cmp, semver_cmp_nopre v b hp hbp]
    congr 1
    have := lex_lt_succ v.major v.minor v.patch b.major b.minor b.patch
    cases h1 : lexCmp intCmp [v.major, v.minor, v.patch] [b.major, b.minor, b.patch + 1] <;>
      cases h2 : lexCmp intCmp [v.major, v.minor, v.patch] [b.major, b.minor, b.patch] <;>
      simp_all

/-- **Exact coverage.**  For a well-shaped list of clean intervals (in any
    order) the ranges `Insert` creates contain the projection of a clean
    version exactly when some interval, read as the schema states it, contains
    the version. -/
theorem covers_exact (hv : Bool) (ivs : List Interval) (v : Semver.SV)
    (hw : wellShaped ivs = true) (hc : ∀ iv ∈ ivs, iv.clean = true)
    (hl : hv = false ∨ ∀ iv ∈ ivs, iv.close.isLastAffected = false)
    (hp : v.pre.isEmpty = true) (hs : small v = true) :
    covers (ranges hv (eventsOf ivs)) (Semver.project v) = ivs.any fun iv => affectedBy iv v := by
  unfold ranges
  have hr := run_intervals hv ivs {} (Or.inl ⟨rfl, rfl, rfl⟩) hw
  have e0 : ({} : St).vers = [] := rfl
  rw [hr, e0, List.nil_append, covers_filterMap, List.any_map]
  apply any_congr_mem
  intro iv hiv
  exact interval_covers hv iv (hc iv hiv) (hl.elim Or.inl fun h => Or.inr (h iv hiv)) v hp hs

end ClairModel.OsvRange
