/-
  C19 — `patCompare` against the glob semantics of the matching specification
  (CpeSpec.glob): the generic lemmas about `glob` and the loop of `patCompare`
  (the theorem itself is in CpeClean.lean).
-/
import ClairModel.Proofs.Cpe

namespace ClairModel.Cpe
open ClairModel.CpeTypes ClairModel.CpeSpec

/-! ### the two ends of a pattern -/

def leadToks : Option Nat → List Tok
  | none => [.star]
  | some n => List.replicate n .q

theorem length_dropWhile_le' (p : Nat → Bool) (s : Str) : (s.dropWhile p).length ≤ s.length := by
  induction s with
  | nil => simp
  | cons c rest ih =>
    simp only [List.dropWhile_cons]
    split
    · simp only [List.length_cons]; omega
    · simp

theorem dropWhile_q_eq (s : Str) :
    s = List.replicate (s.length - (s.dropWhile (· == 63)).length) 63 ++ s.dropWhile (· == 63) := by
  induction s with
  | nil => rfl
  | cons c rest ih =>
    by_cases h : c = 63
    · subst h
      have hle : (rest.dropWhile (· == 63)).length ≤ rest.length := length_dropWhile_le' _ rest
      simp only [List.dropWhile_cons, beq_self_eq_true, if_true, List.length_cons]
      rw [show rest.length + 1 - (rest.dropWhile (· == 63)).length
            = (rest.length - (rest.dropWhile (· == 63)).length) + 1 by omega]
      rw [List.replicate_succ, List.cons_append, ← ih]
    · have : (c == 63) = false := by simp [h]
      simp [this]

theorem stripLead_eq (s : Str) : s = leadStr (stripLead s).1 ++ (stripLead s).2 := by
  unfold stripLead
  split
  · rfl
  · exact dropWhile_q_eq s

theorem leadStr_reverse (w : Option Nat) : (leadStr w).reverse = leadStr w := by
  cases w <;> simp [leadStr]

theorem stripTrail_eq (s : Str) : s = (stripTrail s).2 ++ leadStr (stripTrail s).1 := by
  have h := stripLead_eq s.reverse
  have h2 := congrArg List.reverse h
  simp only [List.reverse_reverse, List.reverse_append, leadStr_reverse] at h2
  simpa [stripTrail] using h2

/-! ### glob -/

theorem glob_lits (c : Str) (p : List Tok) (t : Str) :
    glob (c.map .lit ++ p) t = (c.isPrefixOf t && glob p (t.drop c.length)) := by
  induction c generalizing t with
  | nil => simp
  | cons x c ih =>
    cases t with
    | nil => simp [glob, List.isPrefixOf]
    | cons d t => simp [glob, List.isPrefixOf, ih, Bool.and_assoc]

theorem anySuffix_iff (f : Str → Bool) (t : Str) :
    anySuffix f t = true ↔ ∃ k, k ≤ t.length ∧ f (t.drop k) = true := by
  induction t with
  | nil => simp [anySuffix]
  | cons c t ih =>
    simp only [anySuffix, Bool.or_eq_true, ih, List.length_cons]
    constructor
    · rintro (h | ⟨k, hk, hf⟩)
      · exact ⟨0, by omega, by simpa using h⟩
      · exact ⟨k + 1, by omega, by simpa using hf⟩
    · rintro ⟨k, hk, hf⟩
      cases k with
      | zero => exact Or.inl (by simpa using hf)
      | succ k => exact Or.inr ⟨k, by omega, by simpa using hf⟩

theorem glob_star (p : List Tok) (t : Str) :
    glob (.star :: p) t = true ↔ ∃ k, k ≤ t.length ∧ glob p (t.drop k) = true := by
  simp [glob, anySuffix_iff]

theorem glob_qs (n : Nat) (p : List Tok) (t : Str) :
    glob (List.replicate n .q ++ p) t = true ↔ ∃ k, k ≤ n ∧ k ≤ t.length ∧ glob p (t.drop k) = true := by
  induction n generalizing t with
  | zero =>
    simp only [List.replicate_zero, List.nil_append]
    constructor
    · intro h; exact ⟨0, by omega, by omega, by simpa using h⟩
    · rintro ⟨k, hk, _, hg⟩
      have : k = 0 := by omega
      subst this; simpa using hg
  | succ n ih =>
    simp only [List.replicate_succ, List.cons_append, glob, Bool.or_eq_true]
    constructor
    · rintro (h | h)
      · obtain ⟨k, hk, hk2, hg⟩ := (ih t).1 h
        exact ⟨k, by omega, hk2, hg⟩
      · cases t with
        | nil => simp at h
        | cons c t =>
          obtain ⟨k, hk, hk2, hg⟩ := (ih t).1 h
          exact ⟨k + 1, by omega, by simp; omega, by simpa using hg⟩
    · rintro ⟨k, hk, hk2, hg⟩
      cases k with
      | zero => exact Or.inl ((ih t).2 ⟨0, by omega, by omega, hg⟩)
      | succ k =>
        cases t with
        | nil => simp at hk2
        | cons c t =>
          refine Or.inr ((ih t).2 ⟨k, by omega, ?_, by simpa using hg⟩)
          simp at hk2; omega

/-- `fits` as a proposition. -/
theorem fits_iff (w : Option Nat) (k : Nat) :
    fits w k = true ↔ match w with | none => True | some n => k ≤ n := by
  cases w <;> simp [fits]

theorem glob_lead (l : Option Nat) (p : List Tok) (t : Str) :
    glob (leadToks l ++ p) t = true ↔ ∃ k, fits l k = true ∧ k ≤ t.length ∧ glob p (t.drop k) = true := by
  cases l with
  | none => simp [leadToks, glob_star, fits]
  | some n =>
    simp only [leadToks, glob_qs, fits, decide_eq_true_eq]

theorem glob_trail (r : Option Nat) (t : Str) :
    glob (leadToks r) t = true ↔ fits r t.length = true := by
  have h := glob_lead r [] t
  simp only [List.append_nil] at h
  rw [h]
  constructor
  · rintro ⟨k, hf, hk, hg⟩
    have hlen : (t.drop k).length = 0 := by
      cases hd : t.drop k with
      | nil => rfl
      | cons _ _ => simp [glob, hd] at hg
    simp at hlen
    have : k = t.length := by omega
    subst this; exact hf
  · intro hf
    exact ⟨t.length, hf, by omega, by simp [glob]⟩

theorem isPrefixOf_length_le {c x : Str} (h : c.isPrefixOf x = true) : c.length ≤ x.length :=
  (List.isPrefixOf_iff_prefix.1 h).length_le

/-- The specification side: a pattern `lead · literal core · trail`. -/
theorem glob_pattern (l r : Option Nat) (core t : Str) :
    glob (leadToks l ++ (core.map .lit ++ leadToks r)) t = true ↔
      ∃ k, k ≤ t.length ∧ core.isPrefixOf (t.drop k) = true ∧ fits l k = true ∧
        fits r (t.length - k - core.length) = true := by
  rw [glob_lead]
  constructor
  · rintro ⟨k, hf, hk, hg⟩
    rw [glob_lits, Bool.and_eq_true, glob_trail] at hg
    refine ⟨k, hk, hg.1, hf, ?_⟩
    simpa [Nat.sub_sub] using hg.2
  · rintro ⟨k, hk, hp, hf, hr⟩
    refine ⟨k, hf, hk, ?_⟩
    rw [glob_lits, Bool.and_eq_true, glob_trail]
    exact ⟨hp, by simpa [Nat.sub_sub] using hr⟩

/-! ### the loop of patCompare -/

theorem patLoop_iff (l r : Option Nat) (core : Str) (idx : Nat) (t : Str) :
    patLoop l r core idx t = true ↔
      ∃ j, j ≤ t.length ∧ core.isPrefixOf (t.drop j) = true ∧ fits l (idx + j) = true ∧
        fits r (t.length - j - core.length) = true := by
  induction t generalizing idx with
  | nil =>
    unfold patLoop
    by_cases hc : core.length ≤ ([] : Str).length
    · simp only [hc, if_true, Bool.or_false, Bool.and_eq_true]
      constructor
      · rintro ⟨⟨hp, hl⟩, hr⟩
        exact ⟨0, by simp, by simpa using hp, by simpa using hl, by simpa using hr⟩
      · rintro ⟨j, hj, hp, hl, hr⟩
        have : j = 0 := by simpa using hj
        subst this
        exact ⟨⟨by simpa using hp, by simpa using hl⟩, by simpa using hr⟩
    · simp only [hc, if_false]
      constructor
      · intro h; cases h
      · rintro ⟨j, _, hp, _, _⟩
        have := isPrefixOf_length_le hp
        simp only [List.drop_nil, List.length_nil] at this hc
        omega
  | cons c t ih =>
    unfold patLoop
    by_cases hc : core.length ≤ (c :: t).length
    · simp only [hc, if_true, Bool.or_eq_true, Bool.and_eq_true, ih]
      constructor
      · rintro (⟨⟨hp, hl⟩, hr⟩ | ⟨j, hj, hp, hl, hr⟩)
        · exact ⟨0, by simp, by simpa using hp, by simpa using hl, by simpa using hr⟩
        · refine ⟨j + 1, by simp; omega, by simpa using hp, ?_, ?_⟩
          · rw [show idx + (j + 1) = idx + 1 + j by omega]; exact hl
          · rw [show (c :: t).length - (j + 1) - core.length = t.length - j - core.length by simp]
            exact hr
      · rintro ⟨j, hj, hp, hl, hr⟩
        cases j with
        | zero => exact Or.inl ⟨⟨by simpa using hp, by simpa using hl⟩, by simpa using hr⟩
        | succ j =>
          refine Or.inr ⟨j, by simp at hj; omega, by simpa using hp, ?_, ?_⟩
          · rw [show idx + 1 + j = idx + (j + 1) by omega]; exact hl
          · rw [show t.length - j - core.length = (c :: t).length - (j + 1) - core.length by simp]
            exact hr
    · simp only [hc, if_false]
      constructor
      · intro h; cases h
      · rintro ⟨j, hj, hp, _, _⟩
        have := isPrefixOf_length_le hp
        simp at this hc hj
        omega

theorem map_tokOf_leadStr (w : Option Nat) : (leadStr w).map tokOf = leadToks w := by
  cases w <;> simp [leadStr, leadToks, tokOf]

theorem lower_eq_map : lower = List.map CpeSpec.lowerC := by
  funext s; rfl

end ClairModel.Cpe
