/-
  C04 — lemmas for the statements about ALL releases of the distributions
  whose releases are discovered at run time (Alpine, Debian, Ubuntu): decimal
  rendering, and the injectivity of the Distribution constructors on the
  fields the matchers constrain.
-/
import ClairModel.Proofs.JoinTables

namespace ClairModel.Join
open ClairModel.Gen
open ClairModel.Bytes (showNat showInt parseNat parseInt32 isDigit inInt32)

/-! ### itoa = strconv.Itoa -/

theorem itoaAux_eq (fuel n : Nat) (acc : Bytes) (h : n < fuel) : itoaAux fuel n acc = showNat n ++ acc := by
  induction fuel generalizing n acc with
  | zero => omega
  | succ fuel ih =>
    simp only [itoaAux]
    split
    · rename_i hlt
      rw [showNat]; simp [hlt]
    · rename_i hge
      have hlt : n / 10 < fuel := by omega
      rw [ih (n / 10) _ hlt]
      rw [showNat.eq_1 n]; simp [hge]

theorem itoaNat_eq (n : Nat) : itoaNat n = showNat n := by
  simp [itoaNat, itoaAux_eq (n + 1) n [] (by omega)]

theorem itoa_eq (v : Int) : itoa v = showInt v := by
  simp [itoa, showInt, itoaNat_eq]

theorem itoa_ofNat (n : Nat) : itoa (n : Int) = itoaNat n := by
  have : ¬ ((n : Int) < 0) := by omega
  simp [itoa, this]

theorem itoaNat_digits (n : Nat) : ∀ c ∈ itoaNat n, isDigit c = true := by
  rw [itoaNat_eq]; exact ClairModel.Bytes.showNat_digits n

theorem itoaNat_ne_nil (n : Nat) : itoaNat n ≠ [] := by
  rw [itoaNat_eq]; exact ClairModel.Bytes.showNat_ne_nil n

theorem itoaNat_inj (a b : Nat) (h : itoaNat a = itoaNat b) : a = b := by
  rw [itoaNat_eq, itoaNat_eq] at h
  have ha := ClairModel.Bytes.parseNat_showNat a
  have hb := ClairModel.Bytes.parseNat_showNat b
  rw [h] at ha
  rw [ha] at hb
  exact Option.some.inj hb

theorem parseInt32_itoa (v : Int) (h : inInt32 v) : parseInt32 (itoa v) = some v := by
  rw [itoa_eq]; exact ClairModel.Bytes.parseInt32_showInt v h

theorem itoa_ne_nil (v : Int) : itoa v ≠ [] := by
  unfold itoa
  split
  · simp
  · exact itoaNat_ne_nil _

/-- Every byte of `itoa v` is a digit or `-`. -/
theorem itoa_bytes (v : Int) : ∀ c ∈ itoa v, isDigit c = true ∨ c = 45 := by
  intro c hc
  unfold itoa at hc
  split at hc
  · rcases List.mem_cons.1 hc with rfl | h
    · exact Or.inr rfl
    · exact Or.inl (itoaNat_digits _ c h)
  · exact Or.inl (itoaNat_digits _ c hc)

theorem itoa_inj (a b : Int) (h : itoa a = itoa b) : a = b := by
  unfold itoa at h
  split at h <;> split at h
  · rename_i ha hb
    have := itoaNat_inj _ _ (List.cons.inj h).2
    omega
  · rename_i ha hb
    -- "-…" against digits
    have hd := itoaNat_digits b.natAbs
    cases hb' : itoaNat b.natAbs with
    | nil => exact absurd hb' (itoaNat_ne_nil _)
    | cons c cs =>
      rw [hb'] at h
      have : c = 45 := ((List.cons.inj h).1).symm
      have := hd c (by rw [hb']; simp)
      subst c; simp [isDigit] at this
  · rename_i ha hb
    have hd := itoaNat_digits a.natAbs
    cases ha' : itoaNat a.natAbs with
    | nil => exact absurd ha' (itoaNat_ne_nil _)
    | cons c cs =>
      rw [ha'] at h
      have : c = 45 := (List.cons.inj h).1
      have := hd c (by rw [ha']; simp)
      subst c; simp [isDigit] at this
  · rename_i ha hb
    have := itoaNat_inj _ _ h
    omega

/-! ### splitting at a separator that neither prefix contains -/

theorem append_sep_inj (s : Nat) (a a' r r' : Bytes) (ha : ∀ c ∈ a, c ≠ s) (ha' : ∀ c ∈ a', c ≠ s)
    (h : a ++ s :: r = a' ++ s :: r') : a = a' ∧ r = r' := by
  induction a generalizing a' with
  | nil =>
    cases a' with
    | nil => simpa using h
    | cons c cs =>
      simp only [List.nil_append, List.cons_append, List.cons.injEq] at h
      exact absurd h.1.symm (ha' c (by simp))
  | cons x xs ih =>
    cases a' with
    | nil =>
      simp only [List.nil_append, List.cons_append, List.cons.injEq] at h
      exact absurd h.1 (ha x (by simp))
    | cons c cs =>
      simp only [List.cons_append, List.cons.injEq] at h
      obtain ⟨h1, h2⟩ := h
      have := ih cs (fun c hc => ha c (List.mem_cons_of_mem _ hc)) (fun c hc => ha' c (List.mem_cons_of_mem _ hc)) h2
      exact ⟨by rw [h1, this.1], this.2⟩

theorem itoa_no (s : Nat) (hs : isDigit s = false) (h45 : s ≠ 45) (v : Int) : ∀ c ∈ itoa v, c ≠ s := by
  intro c hc heq
  subst heq
  rcases itoa_bytes v c hc with h | h
  · rw [hs] at h; cases h
  · exact h45 h

theorem itoaNat_no (s : Nat) (hs : isDigit s = false) (n : Nat) : ∀ c ∈ itoaNat n, c ≠ s := by
  intro c hc heq
  subst heq
  have := itoaNat_digits n c hc
  rw [hs] at this; cases this

/-! ### the constructors, unfolded -/

theorem debian_version (n : Bytes) (v : Int) :
    (debianUpdDist n v).version = itoa v ++ 32 :: 40 :: (n ++ [41]) := by
  simp [debianUpdDist, JoinReleases.debian.mkDist, DistT.eval, SExpr.eval]

theorem alpine_pretty (a b : Nat) :
    (alpineStableDist a b).prettyName =
      [65, 108, 112, 105, 110, 101, 32, 76, 105, 110, 117, 120, 32, 118] ++ (itoaNat a ++ 46 :: itoaNat b) := by
  simp [alpineStableDist, JoinReleases.alpine.stableDist, DistT.eval, SExpr.eval, itoa_ofNat]

theorem ubuntu_version (ver name : Bytes) :
    (ubuntuUpdDist ver name).version = ver ++ 32 :: 40 :: (title name ++ [41]) := by
  simp [ubuntuUpdDist, JoinReleases.ubuntu.mkDist, DistT.eval, SExpr.eval]

theorem ubuntu_versionID (ver name : Bytes) : (ubuntuUpdDist ver name).versionID = ver := by
  simp [ubuntuUpdDist, JoinReleases.ubuntu.mkDist, DistT.eval, SExpr.eval]

/-- Debian: the Version field determines codename and number. -/
theorem debian_version_inj (n n' : Bytes) (v v' : Int)
    (h : (debianUpdDist n v).version = (debianUpdDist n' v').version) : n = n' ∧ v = v' := by
  rw [debian_version, debian_version] at h
  have := append_sep_inj 32 _ _ _ _ (itoa_no 32 (by decide) (by decide) v) (itoa_no 32 (by decide) (by decide) v') h
  obtain ⟨h1, h2⟩ := this
  have hv := itoa_inj _ _ h1
  simp only [List.cons.injEq, true_and] at h2
  have hn : n = n' := List.append_cancel_right h2
  exact ⟨hn, hv⟩

/-- Alpine: the PrettyName field determines major and minor. -/
theorem alpine_pretty_inj (a b a' b' : Nat)
    (h : (alpineStableDist a b).prettyName = (alpineStableDist a' b').prettyName) : a = a' ∧ b = b' := by
  rw [alpine_pretty, alpine_pretty] at h
  have h' := List.append_cancel_left h
  have := append_sep_inj 46 _ _ _ _ (itoaNat_no 46 (by decide) a) (itoaNat_no 46 (by decide) a') h'
  exact ⟨itoaNat_inj _ _ this.1, itoaNat_inj _ _ this.2⟩

/-! ### constraints of the three matchers, typed -/

theorem debian_query_typed :
    JoinMatchers.debian.query.map distConstraint = [some .did, some .name, some .version] := by decide

theorem ubuntu_query_typed :
    JoinMatchers.ubuntu.query.map distConstraint = [some .did, some .name, some .version] := by decide

theorem alpine_query_typed :
    JoinMatchers.alpine.query.map distConstraint = [some .did, some .name, some .prettyName] := by decide

/-- If every constraint of a list is a Distribution constraint, agreement of
    two Distributions is agreement on those fields. -/
theorem distAgree_iff (m : MatcherT) (fs : List DField) (hq : m.query.map distConstraint = fs.map some) (d u : Dist) :
    distAgree m d u = true ↔ ∀ f ∈ fs, f.get d = f.get u := by
  simp only [distAgree, List.all_eq_true]
  constructor
  · intro h f hf
    -- find the constraint with this field
    have hmem : some f ∈ m.query.map distConstraint := by rw [hq]; exact List.mem_map_of_mem hf
    obtain ⟨c, hc, hcf⟩ := List.mem_map.1 hmem
    have := h c hc
    rw [constraintAgree_dist c f hcf] at this
    simpa using this
  · intro h c hc
    have hmem : distConstraint c ∈ fs.map some := by rw [← hq]; exact List.mem_map_of_mem hc
    obtain ⟨f, hf, hcf⟩ := List.mem_map.1 hmem
    rw [constraintAgree_dist c f hcf.symm]
    simpa using h f hf

/-! ### verdicts from agreement / disagreement of two Distributions -/

theorem reported_of_agree (m : MatcherT) (hm : distroMatcher m = true) (d u : Dist)
    (hfil : m.filter.eval { dist := some d } = some true) (hag : distAgree m d u = true)
    (r : Rec) (v : Vuln) (hr : r.dist = some d) (hv : v.dist = u) (hn : nameJoins r v = true)
    (opt ir vulnerable : Bool) :
    reported m opt ir vulnerable r v = .reported vulnerable := by
  have hf := filter_lift m hm d hfil r hr
  have hq := distAgree_lift m hm d u hag r v hr hv
  have hm' := hm
  simp only [distroMatcher, Bool.and_eq_true, Bool.not_eq_true', List.isEmpty_iff] at hm'
  obtain ⟨⟨_, hvf⟩, hopt⟩ := hm'
  have hcs : (if opt = true then m.query ++ m.queryOpt else m.query) = m.query := by simp [hopt]
  have hg : getQuery m.query m.versionFilter ir r v = .ok true := by
    rw [getQuery_true_iff]
    exact ⟨hn, hq, by simp [versionOk, hvf]⟩
  rw [hvf] at hg
  simp [reported, hf, hcs, hg, hvf]

theorem not_reported_of_disagree (m : MatcherT) (hm : distroMatcher m = true) (d u : Dist)
    (hag : distAgree m d u = false)
    (r : Rec) (v : Vuln) (hr : r.dist = some d) (hv : v.dist = u) (opt ir vulnerable : Bool) :
    reported m opt ir vulnerable r v ≠ .reported true := by
  have hnq := distAgree_lift_false m hm d u hag r v hr hv
  have hm' := hm
  simp only [distroMatcher, Bool.and_eq_true, Bool.not_eq_true', List.isEmpty_iff] at hm'
  obtain ⟨⟨_, hvf⟩, hopt⟩ := hm'
  have hcs : (if opt = true then m.query ++ m.queryOpt else m.query) = m.query := by simp [hopt]
  have hg : getQuery m.query m.versionFilter ir r v ≠ .ok true := by
    intro h
    rw [getQuery_true_iff] at h
    exact hnq h.2.1
  rw [hvf] at hg
  unfold reported
  cases hfe : m.filter.eval r with
  | none => simp
  | some b =>
    cases b with
    | false => simp
    | true =>
      simp only [hcs, hvf]
      cases hq : getQuery m.query false ir r v with
      | err => simp
      | panic => simp
      | ok t =>
        cases t with
        | true => exact absurd hq hg
        | false => simp

end ClairModel.Join
