/-
  Lemmas about the path functions of Model/TarFSPath.lean, up to
  `validPath (normPath p) = true` (property C11, containment).
-/
import ClairModel.Model.TarFSPath

set_option linter.unusedSimpArgs false
namespace ClairModel.TarFS

/-! ### strings.Split / strings.Join on "/" -/

theorem splitSlash_ne_nil (p : Bytes) : splitSlash p ≠ [] := by
  induction p with
  | nil => simp [splitSlash]
  | cons c cs ih =>
    unfold splitSlash
    split
    · simp
    · split <;> simp

/-- No element of a split contains a slash. -/
theorem splitSlash_noSlash (p : Bytes) : ∀ e ∈ splitSlash p, SL ∉ e := by
  induction p with
  | nil => simp [splitSlash]
  | cons c cs ih =>
    unfold splitSlash
    split
    · intro e he
      simp at he
      rcases he with rfl | he
      · simp
      · exact ih e he
    · rename_i hc
      split
      · intro e he; simp at he; subst he; simp; exact fun h => hc h.symm
      · rename_i x xs hx
        intro e he
        simp at he
        rcases he with rfl | he
        · have := ih x (by rw [hx]; simp)
          simp
          exact ⟨fun h => hc h.symm, this⟩
        · exact ih e (by rw [hx]; simp [he])

/-- A prefix without slash lands in the first element. -/
theorem splitSlash_append_noSlash (a b : Bytes) (ha : SL ∉ a) :
    splitSlash (a ++ b) = (a ++ (splitSlash b).headD []) :: (splitSlash b).tail := by
  induction a with
  | nil =>
    have := splitSlash_ne_nil b
    cases h : splitSlash b with
    | nil => exact absurd h this
    | cons x xs => simp [h]
  | cons c cs ih =>
    have hc : c ≠ SL := fun h => ha (by simp [h])
    have hcs : SL ∉ cs := fun h => ha (by simp [h])
    simp only [List.cons_append]
    rw [splitSlash]
    simp only [hc, if_false]
    rw [ih hcs]

theorem splitSlash_slash (b : Bytes) : splitSlash (SL :: b) = [] :: splitSlash b := by
  rw [splitSlash]; simp

theorem splitSlash_joinSlash (cs : List Bytes) (hne : cs ≠ []) (h : ∀ c ∈ cs, SL ∉ c) :
    splitSlash (joinSlash cs) = cs := by
  induction cs with
  | nil => exact absurd rfl hne
  | cons c rest ih =>
    cases rest with
    | nil =>
      simp only [joinSlash]
      have := splitSlash_append_noSlash c [] (h c (by simp))
      simpa [splitSlash] using this
    | cons d rest' =>
      simp only [joinSlash]
      have hc := h c (by simp)
      rw [splitSlash_append_noSlash c _ hc, splitSlash_slash]
      have := ih (by simp) (fun x hx => h x (by simp [hx]))
      simp [this]

/-! ### path.Clean on a rooted path -/

/-- An element a cleaned, rooted path may keep. -/
def GoodElem (c : Bytes) : Prop := c ≠ [] ∧ c ≠ dotP ∧ c ≠ dotdotP

theorem cleanStep_rooted (st : List Bytes) (c : Bytes) (P : Bytes → Prop)
    (hst : ∀ x ∈ st, GoodElem x ∧ P x) (hc : P c) :
    ∀ x ∈ cleanStep true st c, GoodElem x ∧ P x := by
  unfold cleanStep
  split
  · exact hst
  · rename_i h1
    split
    · split
      · simp
      · rename_i t rest
        split
        · rename_i ht
          exact absurd ht (hst t (by simp)).1.2.2
        · intro x hx; exact hst x (by simp [hx])
    · rename_i h2
      intro x hx
      simp at hx
      rcases hx with rfl | hx
      · exact ⟨⟨fun h => h1 (Or.inl h), fun h => h1 (Or.inr h), h2⟩, hc⟩
      · exact hst x hx

theorem foldl_cleanStep_rooted (cs : List Bytes) (P : Bytes → Prop) :
    ∀ (st : List Bytes), (∀ x ∈ st, GoodElem x ∧ P x) → (∀ c ∈ cs, P c) →
      ∀ x ∈ cs.foldl (cleanStep true) st, GoodElem x ∧ P x := by
  induction cs with
  | nil => intro st hst _; simpa using hst
  | cons c rest ih =>
    intro st hst hcs
    simp only [List.foldl_cons]
    exact ih _ (cleanStep_rooted st c P hst (hcs c (by simp))) (fun x hx => hcs x (by simp [hx]))

theorem cleanComps_rooted (cs : List Bytes) (P : Bytes → Prop) (hcs : ∀ c ∈ cs, P c) :
    ∀ x ∈ cleanComps true cs, GoodElem x ∧ P x := by
  intro x hx
  unfold cleanComps at hx
  rw [List.mem_reverse] at hx
  exact foldl_cleanStep_rooted cs P [] (by simp) hcs x hx

theorem clean_rooted (q : Bytes) :
    clean (SL :: q) = SL :: joinSlash (cleanComps true (splitSlash (SL :: q))) := by
  simp [clean]

theorem joinSlash_eq_nil (cs : List Bytes) (h : ∀ c ∈ cs, c ≠ []) : joinSlash cs = [] ↔ cs = [] := by
  cases cs with
  | nil => simp [joinSlash]
  | cons c rest =>
    have hc := h c (by simp)
    cases rest with
    | nil => simp [joinSlash, hc]
    | cons d r => simp [joinSlash, hc]

/-- `path.Join("/", p)[1:]` is the join of good, slash-free elements. -/
theorem rootJoin_elems (p : Bytes) :
    ∃ cs : List Bytes, (pathJoin2 [SL] p).drop 1 = joinSlash cs ∧ ∀ c ∈ cs, GoodElem c ∧ SL ∉ c := by
  by_cases hp : p = []
  · subst hp
    refine ⟨cleanComps true (splitSlash [SL]), ?_, ?_⟩
    · simp [pathJoin2, clean_rooted]
    · exact cleanComps_rooted _ _ (splitSlash_noSlash _)
  · refine ⟨cleanComps true (splitSlash (SL :: SL :: p)), ?_, ?_⟩
    · simp [pathJoin2, hp, clean_rooted]
    · exact cleanComps_rooted _ _ (splitSlash_noSlash _)

/-! ### UTF-8 -/

theorem leadInfo_spec {b0 : UInt8} {n : Nat} {lo hi : UInt8} (h : leadInfo b0 = some (n, lo, hi)) :
    0x80 ≤ lo ∧ 1 ≤ n := by
  unfold leadInfo at h
  repeat' split at h
  all_goals first
    | (simp at h; obtain ⟨rfl, rfl, rfl⟩ := h; decide)
    | simp at h

theorem contOK_spec : ∀ (n : Nat) (lo hi : UInt8) (rest : Bytes), contOK n lo hi rest = true → 0x80 ≤ lo →
    n ≤ rest.length ∧ ∀ b ∈ rest.take n, 0x80 ≤ b := by
  intro n
  induction n with
  | zero => intro lo hi rest _ _; simp
  | succ n ih =>
    intro lo hi rest h hlo
    cases rest with
    | nil => simp [contOK] at h
    | cons b t =>
      simp only [contOK, Bool.and_eq_true, decide_eq_true_eq] at h
      obtain ⟨⟨h1, _⟩, h3⟩ := h
      have := ih 0x80 0xBF t h3 (by decide)
      refine ⟨by simp; omega, ?_⟩
      intro x hx
      simp at hx
      rcases hx with rfl | hx
      · exact UInt8.le_trans hlo h1
      · exact this.2 x hx

theorem contOK_prefix : ∀ (n : Nat) (lo hi : UInt8) (rest t : Bytes), contOK n lo hi rest = true →
    contOK n lo hi (rest.take n ++ t) = true := by
  intro n
  induction n with
  | zero => intro lo hi rest t _; simp [contOK]
  | succ n ih =>
    intro lo hi rest t h
    cases rest with
    | nil => simp [contOK] at h
    | cons b r =>
      simp only [contOK, Bool.and_eq_true] at h
      simp only [List.take_succ_cons, List.cons_append, contOK, Bool.and_eq_true]
      exact ⟨h.1, ih _ _ r t h.2⟩

/-- The bytes `utf8Width` accepted behind a non-ASCII lead byte. -/
theorem utf8Width_hi {c : UInt8} {cs : Bytes} {w : Nat} (h : utf8Width (c :: cs) = some w) (hc : ¬ c < 0x80) :
    2 ≤ w ∧ w ≤ (c :: cs).length ∧ ∀ b ∈ (c :: cs).take w, 0x80 ≤ b := by
  simp only [utf8Width, hc, if_false] at h
  split at h
  · rename_i n lo hi hl
    split at h
    · rename_i hok
      simp at h; subst h
      have ⟨hlo, hn⟩ := leadInfo_spec hl
      have ⟨h1, h2⟩ := contOK_spec n lo hi cs hok hlo
      refine ⟨by omega, by simp; omega, ?_⟩
      intro b hb
      simp at hb
      rcases hb with rfl | hb
      · exact UInt8.not_lt.mp hc
      · exact h2 b hb
    · simp at h
  · simp at h

/-- `utf8Width` looks only at the bytes it accepts. -/
theorem utf8Width_prefix {s : Bytes} {w : Nat} (h : utf8Width s = some w) (t : Bytes) :
    utf8Width (s.take w ++ t) = some w := by
  cases s with
  | nil => simp [utf8Width] at h
  | cons c cs =>
    by_cases hc : c < 0x80
    · simp [utf8Width, hc] at h; subst h
      simp [utf8Width, hc]
    · simp only [utf8Width, hc, if_false] at h
      split at h
      · rename_i n lo hi hl
        split at h
        · rename_i hok
          simp at h; subst h
          simp only [List.take_succ_cons, List.cons_append, utf8Width, hc, if_false, hl]
          simp [contOK_prefix n lo hi cs t hok]
        · simp at h
      · simp at h

/-- Valid UTF-8, as a derivation. -/
inductive ValidU : Bytes → Prop where
  | nil : ValidU []
  | step (s : Bytes) (w : Nat) : s ≠ [] → utf8Width s = some w → ValidU (s.drop w) → ValidU s

theorem utf8Width_pos {s : Bytes} {w : Nat} (h : utf8Width s = some w) : 1 ≤ w := by
  cases s with
  | nil => simp [utf8Width] at h
  | cons c cs =>
    by_cases hc : c < 0x80
    · simp [utf8Width, hc] at h; omega
    · have := (utf8Width_hi h hc).1; omega

theorem validUtf8Aux_of_ValidU {s : Bytes} (h : ValidU s) : ∀ n, s.length ≤ n → validUtf8Aux n s = true := by
  induction h with
  | nil => intro n _; cases n <;> simp [validUtf8Aux]
  | step s w hne hw _ ih =>
    intro n hn
    cases s with
    | nil => exact absurd rfl hne
    | cons c cs =>
      cases n with
      | zero => simp at hn
      | succ n =>
        simp only [validUtf8Aux, hw]
        apply ih
        have := utf8Width_pos hw
        simp at hn ⊢
        omega

theorem ValidU_of_validUtf8Aux : ∀ (n : Nat) (s : Bytes), validUtf8Aux n s = true → ValidU s := by
  intro n
  induction n with
  | zero =>
    intro s h
    cases s with
    | nil => exact .nil
    | cons c cs => simp [validUtf8Aux] at h
  | succ n ih =>
    intro s h
    cases s with
    | nil => exact .nil
    | cons c cs =>
      simp only [validUtf8Aux] at h
      split at h
      · rename_i w hw
        exact .step _ w (by simp) hw (ih _ h)
      · simp at h

theorem validUtf8_iff (s : Bytes) : validUtf8 s = true ↔ ValidU s :=
  ⟨ValidU_of_validUtf8Aux _ _, fun h => validUtf8Aux_of_ValidU h _ (Nat.le_refl _)⟩

/-- An accepted unit in front of valid UTF-8 is valid UTF-8. -/
theorem ValidU_unit {u t : Bytes} (hu : u ≠ []) (hw : utf8Width (u ++ t) = some u.length) (ht : ValidU t) :
    ValidU (u ++ t) :=
  .step _ u.length (by simp [hu]) hw (by simpa using ht)

theorem ValidU_ascii {c : UInt8} {t : Bytes} (hc : c < 0x80) (ht : ValidU t) : ValidU (c :: t) :=
  ValidU_unit (u := [c]) (by simp) (by simp [utf8Width, hc]) ht


/-! ### The slow path of normPath -/

theorem hexDigit_spec : ∀ n, n < 16 → hexDigit n < 0x80 ∧ hexDigit n ≠ SL ∧ hexDigit n ≠ DOT := by
  decide

theorem hexEsc_cons (b : UInt8) (bs : Bytes) :
    hexEsc (b :: bs) = BSL :: LX :: hexDigit (b.toNat / 16) :: hexDigit (b.toNat % 16) :: hexEsc bs := by
  simp [hexEsc]

theorem byte_div (b : UInt8) : b.toNat / 16 < 16 := by
  have := UInt8.toNat_lt b
  omega

theorem hexEsc_noSlash (bs : Bytes) : SL ∉ hexEsc bs := by
  induction bs with
  | nil => simp [hexEsc]
  | cons b bs ih =>
    rw [hexEsc_cons]
    have h1 := (hexDigit_spec _ (byte_div b)).2.1
    have h2 := (hexDigit_spec (b.toNat % 16) (Nat.mod_lt _ (by decide))).2.1
    simp only [List.mem_cons, not_or]
    exact ⟨by decide, by decide, fun h => h1 h.symm, fun h => h2 h.symm, ih⟩

theorem ValidU_hexEsc (bs t : Bytes) (ht : ValidU t) : ValidU (hexEsc bs ++ t) := by
  induction bs with
  | nil => simpa [hexEsc] using ht
  | cons b bs ih =>
    rw [hexEsc_cons]
    have h1 := (hexDigit_spec _ (byte_div b)).1
    have h2 := (hexDigit_spec (b.toNat % 16) (Nat.mod_lt _ (by decide))).1
    simp only [List.cons_append]
    exact ValidU_ascii (by decide) (ValidU_ascii (by decide) (ValidU_ascii h1 (ValidU_ascii h2 ih)))

theorem ValidU_escapeAux : ∀ (n : Nat) (s : Bytes), ValidU (escapeAux n s) := by
  intro n
  induction n with
  | zero => intro s; cases s <;> simp [escapeAux] <;> exact .nil
  | succ n ih =>
    intro s
    cases s with
    | nil => simp [escapeAux]; exact .nil
    | cons c cs =>
      simp only [escapeAux]
      split
      · rename_i hc; exact ValidU_ascii hc (ih _)
      · rename_i hc
        split
        · rename_i w hw
          split
          · exact ValidU_hexEsc _ _ (ih _)
          · have hspec := utf8Width_hi hw hc
            have hlen : ((c :: cs).take w).length = w := by
              rw [List.length_take]; exact Nat.min_eq_left hspec.2.1
            apply ValidU_unit
            · intro h; rw [h] at hlen; simp at hlen; omega
            · rw [hlen]; exact utf8Width_prefix hw _
            · exact ih _
        · exact ValidU_hexEsc _ _ (ih _)

/-- How an element of the path may change under escaping: it stays empty, ".",
    ".." exactly when it was. -/
def ElemRel (e e' : Bytes) : Prop :=
  (e' = [] ↔ e = []) ∧ (e' = dotP ↔ e = dotP) ∧ (e' = dotdotP ↔ e = dotdotP)

/-- Elementwise relation of two lists of the same length. -/
inductive All₂ {α β : Type} (R : α → β → Prop) : List α → List β → Prop where
  | nil : All₂ R [] []
  | cons {a b l l'} : R a b → All₂ R l l' → All₂ R (a :: l) (b :: l')

theorem All₂.right {α β : Type} {R : α → β → Prop} {l : List α} {l' : List β} (h : All₂ R l l') :
    ∀ b ∈ l', ∃ a ∈ l, R a b := by
  induction h with
  | nil => simp
  | cons hab _ ih =>
    intro x hx
    simp at hx
    rcases hx with rfl | hx
    · exact ⟨_, by simp, hab⟩
    · obtain ⟨a, ha, hr⟩ := ih x hx
      exact ⟨a, by simp [ha], hr⟩

theorem ElemRel.refl (e : Bytes) : ElemRel e e := ⟨Iff.rfl, Iff.rfl, Iff.rfl⟩

theorem ElemRel.cons {e e' : Bytes} (c : UInt8) (h : ElemRel e e') : ElemRel (c :: e) (c :: e') := by
  refine ⟨by simp, ?_, ?_⟩
  · simp only [dotP, List.cons.injEq]
    exact ⟨fun ⟨a, b⟩ => ⟨a, h.1.1 b⟩, fun ⟨a, b⟩ => ⟨a, h.1.2 b⟩⟩
  · simp only [dotdotP, List.cons.injEq]
    exact ⟨fun ⟨a, b⟩ => ⟨a, h.2.1.1 b⟩, fun ⟨a, b⟩ => ⟨a, h.2.1.2 b⟩⟩

/-- A block that cannot be (the start of) an empty, "." or ".." element. -/
def HiBlock (b : Bytes) : Prop := SL ∉ b ∧ ∃ h t, b = h :: t ∧ h ≠ DOT

theorem HiBlock.elemRel {b b' : Bytes} (hb : HiBlock b) (hb' : HiBlock b') (e e' : Bytes) :
    ElemRel (b ++ e) (b' ++ e') := by
  obtain ⟨_, h, t, rfl, hh⟩ := hb
  obtain ⟨_, h', t', rfl, hh'⟩ := hb'
  refine ⟨by simp, ?_, ?_⟩ <;> simp [dotP, dotdotP, hh, hh']

theorem forall₂_split_blocks {b b' r r' : Bytes} (hb : HiBlock b) (hb' : HiBlock b')
    (h : All₂ ElemRel (splitSlash r) (splitSlash r')) :
    All₂ ElemRel (splitSlash (b ++ r)) (splitSlash (b' ++ r')) := by
  rw [splitSlash_append_noSlash b r hb.1, splitSlash_append_noSlash b' r' hb'.1]
  generalize splitSlash r = l at h ⊢
  generalize splitSlash r' = l' at h ⊢
  cases h with
  | nil => exact .cons (hb.elemRel hb' _ _) .nil
  | cons h1 h2 =>
    simp only [List.headD_cons, List.tail_cons]
    exact .cons (hb.elemRel hb' _ _) h2

theorem forall₂_split_cons {c : UInt8} {r r' : Bytes}
    (h : All₂ ElemRel (splitSlash r) (splitSlash r')) :
    All₂ ElemRel (splitSlash (c :: r)) (splitSlash (c :: r')) := by
  by_cases hc : c = SL
  · subst hc; rw [splitSlash_slash, splitSlash_slash]; exact .cons (ElemRel.refl _) h
  · have hn : SL ∉ [c] := by simp; exact fun h => hc h.symm
    have e1 := splitSlash_append_noSlash [c] r hn
    have e2 := splitSlash_append_noSlash [c] r' hn
    simp only [List.cons_append, List.nil_append] at e1 e2
    rw [e1, e2]
    generalize splitSlash r = l at h ⊢
    generalize splitSlash r' = l' at h ⊢
    cases h with
    | nil => exact .cons (ElemRel.cons c (ElemRel.refl _)) .nil
    | cons h1 h2 =>
      simp only [List.headD_cons, List.tail_cons]
      exact .cons (ElemRel.cons c h1) h2

theorem hexEsc_hiBlock (b : UInt8) (bs : Bytes) : HiBlock (hexEsc (b :: bs)) :=
  ⟨hexEsc_noSlash _, BSL, _, hexEsc_cons b bs, by decide⟩

theorem hi_ne {b : UInt8} (h : 0x80 ≤ b) : b ≠ SL ∧ b ≠ DOT := by
  constructor <;> (intro e; subst e; revert h; decide)

theorem take_hiBlock {c : UInt8} {cs : Bytes} {w : Nat} (hw : 1 ≤ w)
    (h : ∀ b ∈ (c :: cs).take w, 0x80 ≤ b) : HiBlock ((c :: cs).take w) := by
  obtain ⟨w', rfl⟩ : ∃ w', w = w' + 1 := ⟨w - 1, by omega⟩
  refine ⟨fun hs => (hi_ne (h _ hs)).1 rfl, c, cs.take w', by simp, ?_⟩
  exact (hi_ne (h c (by simp))).2

theorem escapeAux_split : ∀ (n : Nat) (s : Bytes), s.length ≤ n →
    All₂ ElemRel (splitSlash s) (splitSlash (escapeAux n s)) := by
  intro n
  induction n with
  | zero =>
    intro s hs
    cases s with
    | nil => simp only [escapeAux, splitSlash]; exact .cons (ElemRel.refl _) .nil
    | cons c cs => simp at hs
  | succ n ih =>
    intro s hs
    cases s with
    | nil => simp only [escapeAux, splitSlash]; exact .cons (ElemRel.refl _) .nil
    | cons c cs =>
      simp only [List.length_cons] at hs
      simp only [escapeAux]
      split
      · exact forall₂_split_cons (ih cs (by omega))
      · rename_i hc
        have hchi : 0x80 ≤ c := UInt8.not_lt.mp hc
        split
        · rename_i w hw
          have hspec := utf8Width_hi hw hc
          split
          · rename_i hrep
            have h3 : HiBlock ((c :: cs).take 3) := by
              rw [hrep]; exact ⟨by decide, 0xEF, _, rfl, by decide⟩
            have := forall₂_split_blocks (r := (c :: cs).drop 3) (r' := escapeAux n ((c :: cs).drop 3)) h3
              (hexEsc_hiBlock 0xEF [0xBF, 0xBD]) (ih _ (by simp; omega))
            rw [List.take_append_drop] at this
            exact this
          · have hb := take_hiBlock (by omega) hspec.2.2
            have := forall₂_split_blocks (r := (c :: cs).drop w) (r' := escapeAux n ((c :: cs).drop w)) hb hb
              (ih _ (by simp; omega))
            rw [List.take_append_drop] at this
            exact this
        · have h1 : HiBlock [c] := ⟨by simp; exact fun h => (hi_ne hchi).1 h.symm, c, [], rfl, (hi_ne hchi).2⟩
          exact forall₂_split_blocks (r := cs) (r' := escapeAux n cs) h1 (hexEsc_hiBlock c []) (ih cs (by omega))


/-! ### normPath -/

theorem validPath_of {s : Bytes} (hu : ValidU s) (he : ∀ e ∈ splitSlash s, GoodElem e) : validPath s = true := by
  unfold validPath
  simp only [Bool.and_eq_true, Bool.or_eq_true, decide_eq_true_eq, List.all_eq_true]
  refine ⟨(validUtf8_iff s).2 hu, Or.inr ?_⟩
  intro e hm
  have := he e hm
  simp [this.1, this.2.1, this.2.2]

theorem validPath_dot : validPath dotP = true := by decide

/-- Containment: whatever bytes a member name or link target consists of,
    `normPath` returns a valid io/fs path — relative, without empty, "." or
    ".." elements, and valid UTF-8. -/
theorem normPath_valid (p : Bytes) : validPath (normPath p) = true := by
  obtain ⟨cs, hs, hcs⟩ := rootJoin_elems p
  unfold normPath
  simp only [hs]
  split
  · exact validPath_dot
  · rename_i hne
    have hcsne : cs ≠ [] := by
      intro h; subst h; exact hne (by simp [joinSlash])
    have hsplit := splitSlash_joinSlash cs hcsne (fun c hc => (hcs c hc).2)
    split
    · rename_i hv
      apply validPath_of ((validUtf8_iff _).1 hv)
      rw [hsplit]; exact fun e he => (hcs e he).1
    · apply validPath_of (ValidU_escapeAux _ _)
      intro e' he'
      obtain ⟨e, he, hr⟩ := (escapeAux_split _ (joinSlash cs) (Nat.le_refl _)).right e' he'
      rw [hsplit] at he
      have hg := (hcs e he).1
      exact ⟨fun h => hg.1 (hr.1.1 h), fun h => hg.2.1 (hr.2.1.1 h), fun h => hg.2.2 (hr.2.2.1 h)⟩


/-! ### Valid UTF-8 and "/" -/

theorem splitSlash_single {n : Bytes} (h : SL ∉ n) : splitSlash n = [n] := by
  have := splitSlash_append_noSlash n [] h
  simpa [splitSlash] using this

theorem ValidU_append {a b : Bytes} (ha : ValidU a) (hb : ValidU b) : ValidU (a ++ b) := by
  induction ha with
  | nil => simpa using hb
  | step s w hne hw _ ih =>
    have hpos := utf8Width_pos hw
    have hle : w ≤ s.length := by
      cases s with
      | nil => exact absurd rfl hne
      | cons c cs =>
        by_cases hc : c < 0x80
        · simp [utf8Width, hc] at hw; subst hw; simp
        · exact (utf8Width_hi hw hc).2.1
    have e : s ++ b = s.take w ++ (s.drop w ++ b) := by rw [← List.append_assoc, List.take_append_drop]
    have hlen : (s.take w).length = w := by rw [List.length_take]; exact Nat.min_eq_left hle
    rw [e]
    apply ValidU_unit
    · intro h; rw [h] at hlen; simp at hlen; omega
    · rw [hlen]; exact utf8Width_prefix hw _
    · exact ih

/-- The unit `utf8Width` accepts at the head of `a ++ '/' :: b` lies inside `a`. -/
theorem unit_before_slash {c : UInt8} {a b : Bytes} {w : Nat}
    (hw : utf8Width (c :: a ++ SL :: b) = some w) : w ≤ (c :: a).length := by
  by_cases hc : c < 0x80
  · simp [utf8Width, hc] at hw; subst hw; simp
  · have hs := utf8Width_hi (cs := a ++ SL :: b) hw hc
    apply Decidable.byContradiction
    intro hgt
    have hgt : (c :: a).length < w := by omega
    have hmem : SL ∈ (c :: (a ++ SL :: b)).take w := by
      have : c :: (a ++ SL :: b) = (c :: a) ++ SL :: b := by simp
      rw [this, List.take_append]
      apply List.mem_append_right
      obtain ⟨d, hd⟩ : ∃ d, w - (c :: a).length = d + 1 := ⟨w - (c :: a).length - 1, by omega⟩
      rw [hd]; simp
    have := hs.2.2 SL hmem
    revert this; decide

theorem ValidU_split_slash : ∀ (s : Bytes), ValidU s → ∀ (a b : Bytes), s = a ++ SL :: b → ValidU a ∧ ValidU b := by
  intro s h
  induction h with
  | nil => intro a b e; simp at e
  | step s w hne hw hrest ih =>
    intro a b e
    subst e
    cases a with
    | nil =>
      simp [utf8Width, show SL < 0x80 by decide] at hw
      subst hw
      exact ⟨.nil, by simpa using hrest⟩
    | cons c a =>
      have hle : w ≤ (c :: a).length := unit_before_slash (by simpa using hw)
      have hpos := utf8Width_pos hw
      have hdrop : ((c :: a) ++ SL :: b).drop w = (c :: a).drop w ++ SL :: b :=
        List.drop_append_of_le_length hle
      obtain ⟨h1, h2⟩ := ih _ b hdrop
      refine ⟨?_, h2⟩
      have htake : ((c :: a) ++ SL :: b).take w = (c :: a).take w := List.take_append_of_le_length hle
      have hw' : utf8Width ((c :: a).take w ++ (c :: a).drop w) = some w := by
        rw [← htake]; exact utf8Width_prefix hw _
      rw [List.take_append_drop] at hw'
      exact .step _ w (by simp) hw' h1

theorem splitSlash_append_slash (a b : Bytes) : splitSlash (a ++ SL :: b) = splitSlash a ++ splitSlash b := by
  induction a with
  | nil => simp [splitSlash_slash, splitSlash]
  | cons c cs ih =>
    simp only [List.cons_append]
    rw [splitSlash, splitSlash.eq_def (c :: cs)]
    split
    · rename_i hc; simp [ih, hc]
    · rename_i hc
      simp only [ih]
      have := splitSlash_ne_nil cs
      cases h : splitSlash cs with
      | nil => exact absurd h this
      | cons x xs => simp [hc]

/-- Every element of a valid UTF-8 path is valid UTF-8. -/
theorem ValidU_elems : ∀ (n : Nat) (s : Bytes), s.length ≤ n → ValidU s → ∀ e ∈ splitSlash s, ValidU e := by
  intro n
  induction n with
  | zero =>
    intro s hs _ e he
    have : s = [] := List.eq_nil_of_length_eq_zero (by omega)
    subst this
    simp [splitSlash] at he; subst he; exact .nil
  | succ n ih =>
    intro s hs hv e he
    by_cases hsl : SL ∈ s
    · obtain ⟨a, b, rfl⟩ := List.append_of_mem hsl
      obtain ⟨ha, hb⟩ := ValidU_split_slash _ hv a b rfl
      rw [splitSlash_append_slash] at he
      simp only [List.mem_append] at he
      simp at hs
      rcases he with he | he
      · exact ih a (by omega) ha e he
      · exact ih b (by omega) hb e he
    · rw [splitSlash_single hsl] at he
      simp at he; subst he; exact hv


end ClairModel.TarFS
