/-
  What the version parsers do with runes outside ASCII (the texts are lists of
  runes; ill-formed bytes are U+FFFD): RubyGems versions are rejected
  (`gem_reject`), Maven versions containing a decimal digit of another script
  are rejected (`maven_reject`).
-/
import ClairModel.Proofs.Gem
import ClairModel.Proofs.Maven
import ClairModel.Proofs.Semver

set_option linter.unusedSimpArgs false
set_option linter.unusedVariables false

namespace ClairModel.NonAscii
open ClairModel.Order ClairModel.Version

theorem le_of_char_le {c d : Char} (h : c ≤ d) : c.toNat ≤ d.toNat := by
  rw [Char.le_def] at h
  exact UInt32.le_iff_toNat_le.1 h

/-- A rune from U+0080 up is in none of the ASCII classes. -/
theorem facts {c : Char} (h : 128 ≤ c.toNat) :
    isDigit c = false ∧ isAlpha c = false ∧ c ≠ '-' ∧ c ≠ '.' ∧ Gem.isWs c = false := by
  have ne : ∀ d : Char, d.toNat < 128 → c ≠ d := by
    intro d hd e; rw [e] at h; omega
  refine ⟨?_, ?_, ne '-' (by decide), ne '.' (by decide), ?_⟩
  · unfold isDigit
    have : ¬ c ≤ '9' := fun hh => by
      have := le_of_char_le hh
      have e : ('9' : Char).toNat = 57 := by decide
      omega
    simp [this]
  · unfold isAlpha isLower isUpper
    have h1 : ¬ c ≤ 'z' := fun hh => by
      have := le_of_char_le hh
      have e : ('z' : Char).toNat = 122 := by decide
      omega
    have h2 : ¬ c ≤ 'Z' := fun hh => by
      have := le_of_char_le hh
      have e : ('Z' : Char).toNat = 90 := by decide
      omega
    simp [h1, h2]
  · unfold Gem.isWs
    simp [ne '\t' (by decide), ne '\n' (by decide), ne '\x0c' (by decide), ne '\r' (by decide), ne ' ' (by decide)]

/-! ### RubyGems -/

theorem mem_dropWs {c : Char} (hc : Gem.isWs c = false) : ∀ s : List Char, c ∈ s → c ∈ Gem.dropWs s
  | [], h => by cases h
  | x :: xs, h => by
    unfold Gem.dropWs
    by_cases hx : Gem.isWs x = true
    · rw [if_pos hx]
      rcases List.mem_cons.1 h with rfl | h
      · rw [hc] at hx; cases hx
      · exact mem_dropWs hc xs h
    · rw [if_neg hx]; exact h

theorem mem_trim {c : Char} (hc : Gem.isWs c = false) (s : List Char) (h : c ∈ s) : c ∈ Gem.trim s := by
  unfold Gem.trim
  exact List.mem_reverse.2 (mem_dropWs hc _ (List.mem_reverse.2 (mem_dropWs hc s h)))

theorem cutDash_cons_ne {c : Char} (cs : List Char) (h : c ≠ '-') :
    Gem.cutDash (c :: cs) = (c :: (Gem.cutDash cs).1, (Gem.cutDash cs).2) := by
  simp [Gem.cutDash, h]

theorem cutDash_cons_dash (cs : List Char) : Gem.cutDash ('-' :: cs) = ([], some cs) := by
  simp [Gem.cutDash]

theorem mem_cutDash {c : Char} (hc : c ≠ '-') : ∀ b : List Char, c ∈ b →
    c ∈ (Gem.cutDash b).1 ∨ ∃ t, (Gem.cutDash b).2 = some t ∧ c ∈ t
  | [], h => by cases h
  | x :: xs, h => by
    by_cases hx : x = '-'
    · subst hx
      rw [cutDash_cons_dash]
      rcases List.mem_cons.1 h with e | h
      · exact absurd e hc
      · exact Or.inr ⟨xs, rfl, h⟩
    · rw [cutDash_cons_ne xs hx]
      rcases List.mem_cons.1 h with rfl | h
      · exact Or.inl List.mem_cons_self
      · rcases mem_cutDash hc xs h with h1 | ⟨t, ht, hm⟩
        · exact Or.inl (List.mem_cons_of_mem _ h1)
        · exact Or.inr ⟨t, ht, hm⟩

theorem mem_splitOn {c sep : Char} (hc : c ≠ sep) : ∀ s : List Char, c ∈ s → ∃ p ∈ splitOn sep s, c ∈ p
  | [], h => by cases h
  | x :: xs, h => by
    unfold splitOn
    cases hs : splitOn sep xs with
    | nil =>
      -- `splitOn` never returns []; then c ∈ xs is impossible to place, but x = c may hold
      rcases List.mem_cons.1 h with rfl | h
      · exfalso
        cases xs with
        | nil => simp [splitOn] at hs
        | cons y ys =>
          unfold splitOn at hs
          cases h2 : splitOn sep ys with
          | nil => rw [h2] at hs; simp at hs
          | cons p ps => rw [h2] at hs; by_cases hy : y = sep <;> simp [hy] at hs
      · obtain ⟨p, hp, _⟩ := mem_splitOn hc xs h
        rw [hs] at hp; cases hp
    | cons p ps =>
      simp only
      by_cases hx : x = sep
      · rw [if_pos hx]
        rcases List.mem_cons.1 h with rfl | h
        · exact absurd hx hc
        · obtain ⟨q, hq, hm⟩ := mem_splitOn hc xs h
          rw [hs] at hq
          exact ⟨q, List.mem_cons_of_mem _ hq, hm⟩
      · rw [if_neg hx]
        rcases List.mem_cons.1 h with rfl | h
        · exact ⟨c :: p, List.mem_cons_self, List.mem_cons_self⟩
        · obtain ⟨q, hq, hm⟩ := mem_splitOn hc xs h
          rw [hs] at hq
          rcases List.mem_cons.1 hq with rfl | hq
          · exact ⟨x :: q, List.mem_cons_self, List.mem_cons_of_mem _ hm⟩
          · exact ⟨q, List.mem_cons_of_mem _ hq, hm⟩

theorem allNonEmpty_false {p : Char → Bool} {parts : List (List Char)} {q : List Char} {c : Char}
    (hq : q ∈ parts) (hc : c ∈ q) (hp : p c = false) : Gem.allNonEmpty p parts = false := by
  unfold Gem.allNonEmpty
  apply Bool.eq_false_iff.2
  intro hall
  have := List.all_eq_true.1 hall q hq
  simp only [Bool.and_eq_true] at this
  have := List.all_eq_true.1 this.2 c hc
  rw [hp] at this; cases this

theorem bodyOk_false {b : List Char} {c : Char} (hm : c ∈ b) (h : 128 ≤ c.toNat) : Gem.bodyOk b = false := by
  obtain ⟨hd, ha, hdash, hdot, _⟩ := facts h
  have halnum : isAlnum c = false := by simp [isAlnum, ha, hd]
  have halnumd : Gem.isAlnumDash c = false := by simp [Gem.isAlnumDash, halnum, hdash]
  unfold Gem.bodyOk
  cases hcd : Gem.cutDash b with
  | mk hh t =>
    simp only
    rcases mem_cutDash hdash b hm with h1 | ⟨t', ht', hmt⟩
    · rw [hcd] at h1
      simp only at h1
      obtain ⟨q, hq, hcq⟩ := mem_splitOn hdot hh h1
      cases hsp : splitOn '.' hh with
      | nil => simp
      | cons first rest =>
        rw [hsp] at hq
        simp only
        rcases List.mem_cons.1 hq with rfl | hq
        · have : q.all isDigit = false := by
            apply Bool.eq_false_iff.2
            intro hall
            have := List.all_eq_true.1 hall c hcq
            rw [hd] at this; cases this
          simp [this]
        · simp [allNonEmpty_false hq hcq halnum]
    · rw [hcd] at ht'
      simp only at ht'
      subst ht'
      obtain ⟨q, hq, hcq⟩ := mem_splitOn hdot t' hmt
      simp [allNonEmpty_false hq hcq halnumd]

/-- A RubyGems version text containing any rune from U+0080 up (so also any
    ill-formed byte) is rejected by `NewVersion`. -/
theorem gem_reject (s : List Char) (c : Char) (hm : c ∈ s) (h : 128 ≤ c.toNat) : Gem.parse s = none := by
  have hws := (facts h).2.2.2.2
  have hmt := mem_trim hws s hm
  have hne : (Gem.trim s).isEmpty = false := by
    cases ht : Gem.trim s with
    | nil => rw [ht] at hmt; cases hmt
    | cons _ _ => rfl
  unfold Gem.parse Gem.valid
  simp [hne, bodyOk_false hmt h]

/-! ### Maven -/

open Maven in
/-- The builder holds a rune that is not an ASCII digit while the parser is in
    a number: `appendInt` will fail. -/
def Bad (st : Maven.PState) : Prop :=
  st.isDigit = true ∧ st.atPos = false ∧ ∃ c ∈ st.buf, isDigit c = false

theorem flushInt_bad {st : Maven.PState} (h : ∃ c ∈ st.buf, isDigit c = false) : Maven.flushInt st = none := by
  obtain ⟨c, hc, hd⟩ := h
  unfold Maven.flushInt
  have : st.buf.all isDigit = false := by
    apply Bool.eq_false_iff.2
    intro hall
    have := List.all_eq_true.1 hall c hc
    rw [hd] at this; cases this
  simp [this]

theorem step_bad {st : Maven.PState} (hb : Bad st) (r : Char) :
    Maven.stepChar st r = none ∨ ∃ st', Maven.stepChar st r = some st' ∧ Bad st' := by
  obtain ⟨h1, h2, h3⟩ := hb
  have hf := flushInt_bad h3
  unfold Maven.stepChar
  by_cases hdot : r = '.'
  · left; simp [hdot, h2, Maven.flush, h1, hf]
  · by_cases hdash : r = '-'
    · left; simp [hdash, h2, Maven.flush, h1, hf]
    · by_cases hdig : Maven.uniIsDigit r = true
      · right
        simp only [hdot, hdash, if_false, hdig, if_true, h1, Bool.not_true, Bool.false_and, Bool.false_eq_true]
        refine ⟨_, rfl, rfl, rfl, ?_⟩
        obtain ⟨c, hc, hd⟩ := h3
        exact ⟨c, List.mem_append_left _ hc, hd⟩
      · left
        simp [hdot, hdash, hdig, h1, h2, hf]

theorem run_bad : ∀ (rs : List Char) {st : Maven.PState}, Bad st →
    Maven.runChars st rs = none ∨ ∃ st', Maven.runChars st rs = some st' ∧ Bad st'
  | [], st, hb => Or.inr ⟨st, rfl, hb⟩
  | r :: rs, st, hb => by
    unfold Maven.runChars
    rcases step_bad hb r with h | ⟨st', h, hb'⟩
    · left; rw [h]
    · rw [h]; exact run_bad rs hb'

theorem step_foreign (st : Maven.PState) (r : Char) (hu : Maven.uniIsDigit r = true) (hd : isDigit r = false) :
    ∃ st', Maven.stepChar st r = some st' ∧ Bad st' := by
  have h128 : 128 ≤ r.toNat := by
    unfold Maven.uniIsDigit at hu
    simp only [hd, Bool.false_or, Bool.and_eq_true, decide_eq_true_eq] at hu
    exact hu.1
  obtain ⟨_, _, hdash, hdot, _⟩ := facts h128
  unfold Maven.stepChar
  simp only [hdot, hdash, if_false, hu, if_true]
  by_cases hc : (!st.isDigit && !st.atPos) = true
  · rw [if_pos hc]
    exact ⟨_, rfl, rfl, rfl, r, by simp, hd⟩
  · rw [if_neg hc]
    exact ⟨_, rfl, rfl, rfl, r, by simp, hd⟩

theorem runChars_append : ∀ (a b : List Char) (st : Maven.PState),
    Maven.runChars st (a ++ b) = (Maven.runChars st a).bind fun st' => Maven.runChars st' b
  | [], b, st => rfl
  | x :: xs, b, st => by
    simp only [List.cons_append, Maven.runChars]
    cases Maven.stepChar st x with
    | none => rfl
    | some st' => exact runChars_append xs b st'

/-- A Maven version text containing a decimal digit of another script (a rune
    `unicode.IsDigit` accepts and `big.Int.SetString` does not) is rejected. -/
theorem maven_reject (pre post : List Char) (r : Char) (hu : Maven.uniIsDigit r = true) (hd : isDigit r = false) :
    Maven.parse (pre ++ r :: post) = none := by
  unfold Maven.parse
  rw [runChars_append]
  cases h1 : Maven.runChars {} pre with
  | none => rfl
  | some st =>
    simp only [Option.bind]
    unfold Maven.runChars
    obtain ⟨st', hs, hb⟩ := step_foreign st r hu hd
    rw [hs]
    simp only
    rcases run_bad post hb with h | ⟨st'', h, hb''⟩
    · rw [h]; rfl
    · rw [h]
      have : Maven.flush st'' = none := by
        unfold Maven.flush
        rw [hb''.1, if_pos rfl]
        exact flushInt_bad hb''.2.2
      simp [this]

/-! ### Masterminds/semver, gobin.ParseVersion -/

theorem ascii_of_isDigit {c : Char} (h : isDigit c = true) : c.toNat < 128 := by
  unfold isDigit at h
  simp only [Bool.and_eq_true, decide_eq_true_eq] at h
  have := le_of_char_le h.2
  have e : ('9' : Char).toNat = 57 := by decide
  omega

theorem ascii_of_isAlpha {c : Char} (h : isAlpha c = true) : c.toNat < 128 := by
  unfold isAlpha isLower isUpper at h
  simp only [Bool.or_eq_true, Bool.and_eq_true, decide_eq_true_eq] at h
  rcases h with h | h
  · have := le_of_char_le h.2
    have e : ('z' : Char).toNat = 122 := by decide
    omega
  · have := le_of_char_le h.2
    have e : ('Z' : Char).toNat = 90 := by decide
    omega

theorem ascii_of_isIdChar {c : Char} (h : Semver.isIdChar c = true) : c.toNat < 128 := by
  unfold Semver.isIdChar at h
  simp only [Bool.or_eq_true, decide_eq_true_eq] at h
  rcases h with (h | h) | h
  · exact ascii_of_isDigit h
  · exact ascii_of_isAlpha h
  · rw [h]; decide

def Ascii (l : List Char) : Prop := ∀ c ∈ l, c.toNat < 128

theorem ascii_append {a b : List Char} (ha : Ascii a) (hb : Ascii b) : Ascii (a ++ b) := by
  intro c hc
  rcases List.mem_append.1 hc with h | h
  · exact ha c h
  · exact hb c h

theorem ascii_cons {x : Char} {l : List Char} (hx : x.toNat < 128) (hl : Ascii l) : Ascii (x :: l) := by
  intro c hc
  rcases List.mem_cons.1 hc with rfl | h
  · exact hx
  · exact hl c h

theorem ascii_validIds {s : List Char} (h : Semver.validIds s = true) : Ascii s := by
  intro c hc
  by_cases hd : c = '.'
  · rw [hd]; decide
  · obtain ⟨p, hp, hcp⟩ := mem_splitOn hd s hc
    unfold Semver.validIds at h
    have := List.all_eq_true.1 h p hp
    simp only [Bool.and_eq_true] at this
    exact ascii_of_isIdChar (List.all_eq_true.1 this.2 c hcp)

theorem spanD_append : ∀ s : List Char, (Semver.spanD s).1 ++ (Semver.spanD s).2 = s
  | [] => rfl
  | c :: cs => by
    unfold Semver.spanD
    by_cases h : isDigit c = true
    · simp only [h, if_true, List.cons_append, spanD_append cs]
    · simp only [h]; rfl

theorem ascii_alldig {l : List Char} (h : AllDig l) : Ascii l := fun c hc => ascii_of_isDigit (h c hc)

/-- If the rest after a `(\.[0-9]+)?` group is ASCII, so is the text before it. -/
theorem ascii_dotNum (s : List Char) (h : Ascii (Semver.dotNum s).2) : Ascii s := by
  unfold Semver.dotNum at h
  split at h
  · rename_i r
    by_cases he : (Semver.spanD r).1.isEmpty = true
    · simpa [he] using h
    · simp only [he] at h
      have hs := spanD_append r
      rw [← hs]
      exact ascii_cons (by decide) (ascii_append (ascii_alldig (Semver.spanD_fst r)) h)
  · exact h

theorem cutPlus_append : ∀ r : List Char,
    r = (Semver.cutPlus r).1 ++ (match (Semver.cutPlus r).2 with | none => [] | some m => '+' :: m)
  | [] => rfl
  | c :: cs => by
    unfold Semver.cutPlus
    by_cases h : c = '+'
    · simp [h]
    · simp only [h, if_false, List.cons_append]
      congr 1
      exact cutPlus_append cs

theorem ascii_tailGroups {t : List Char} {pm : List Char × List Char} (h : Semver.tailGroups t = some pm) : Ascii t := by
  unfold Semver.tailGroups at h
  split at h
  · intro c hc; cases hc
  · rename_i r
    by_cases hv : Semver.validIds (Semver.cutPlus r).1 = true
    · simp only [hv, Bool.not_true, Bool.false_eq_true, if_false] at h
      have hr := cutPlus_append r
      refine ascii_cons (by decide) ?_
      rw [hr]
      apply ascii_append (ascii_validIds hv)
      split at h
      · rename_i hn; rw [hn]; intro c hc; cases hc
      · rename_i m hm
        rw [hm]
        by_cases hvm : Semver.validIds m = true
        · exact ascii_cons (by decide) (ascii_validIds hvm)
        · simp [hvm] at h
    · simp [hv] at h
  · rename_i m
    by_cases hvm : Semver.validIds m = true
    · exact ascii_cons (by decide) (ascii_validIds hvm)
    · simp [hvm] at h
  · cases h

/-- The expression of `semver.NewVersion` / `gobin.ParseVersion` matches ASCII
    texts only: a text containing a rune from U+0080 up (or an ill-formed
    byte) has no match. -/
theorem semver_ascii {s : List Char} {g : Semver.Groups} (h : Semver.groups s = some g) : Ascii s := by
  unfold Semver.groups at h
  simp only at h
  by_cases he : (Semver.spanD (Semver.stripV s)).1.isEmpty = true
  · rw [if_pos he] at h; cases h
  · rw [if_neg he] at h
    split at h
    · cases h
    · rename_i pm hpm
      have h3 := ascii_tailGroups hpm
      have h2 := ascii_dotNum _ h3
      have h1 := ascii_dotNum _ h2
      have hb : Ascii (Semver.stripV s) := by
        rw [← spanD_append (Semver.stripV s)]
        exact ascii_append (ascii_alldig (Semver.spanD_fst _)) h1
      unfold Semver.stripV at hb
      split at hb
      · exact ascii_cons (by decide) hb
      · exact hb

theorem semver_reject (s : List Char) (c : Char) (hm : c ∈ s) (h : 128 ≤ c.toNat) :
    Semver.parse s = none ∧ Semver.gobinParse s = none := by
  have hg : Semver.groups s = none := by
    cases hh : Semver.groups s with
    | none => rfl
    | some g => have := semver_ascii hh c hm; omega
  simp [Semver.parse, Semver.gobinParse, hg]

end ClairModel.NonAscii
