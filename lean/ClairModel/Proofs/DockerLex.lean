/-
  C06 — lemmas about the Dockerfile lexer model (Model/DockerLex.lean).
-/
import ClairModel.Model.DockerLex

namespace ClairModel.DockerLex

/-- `collectLine` writes at most one rune per rune it consumes (the escape
    rune it writes back stands for the escape rune it consumed) -/
theorem collectLine_written (escc : Nat) (rs : List Rune) (s : CL) :
    (collectLine escc rs s).1.sb.length + (collectLine escc rs s).2.length + (collectLine escc rs s).1.esc.toNat
      ≤ s.sb.length + rs.length + s.esc.toNat := by
  induction rs generalizing s with
  | nil => simp [collectLine]
  | cons r rs ih =>
    unfold collectLine
    repeat' split
    all_goals first
      | (refine Nat.le_trans (ih _) ?_; cases hs : s.esc <;> simp_all [Bool.toNat] <;> omega)
      | (cases hs : s.esc <;> simp_all [Bool.toNat] <;> omega)

theorem collectLine_written' (escc : Nat) (rs : List Rune) (pos : Nat) :
    (collectLine escc rs { pos := pos }).1.sb.length + (collectLine escc rs { pos := pos }).2.length ≤ rs.length := by
  have := collectLine_written escc rs { pos := pos }
  simp [Bool.toNat] at this
  omega

theorem dropWhile_length_le {α} (p : α → Bool) (l : List α) : (l.dropWhile p).length ≤ l.length := by
  induction l with
  | nil => simp
  | cons x xs ih => simp only [List.dropWhile]; split <;> simp <;> omega

theorem trimSpace_length_le (l : List Nat) : (trimSpace l).length ≤ l.length := by
  unfold trimSpace trimLeft
  have h1 := dropWhile_length_le isSpace l
  have h2 := dropWhile_length_le isSpace (l.dropWhile isSpace).reverse
  simp at h2 ⊢
  omega

theorem instructionItem_val_le (ln : List Nat) (pos : Nat) (it : Item) (h : instructionItem ln pos = some it) :
    it.val.length ≤ ln.length := by
  unfold instructionItem at h
  simp only at h
  split at h
  · cases h
  · have ht := trimSpace_length_le (ln.drop (ln.takeWhile fun c => !isSpace c).length)
    simp only [List.length_drop] at ht
    repeat' split at h
    all_goals (injection h with h; subst h; simp; try omega)

def written (items : List Item) : Nat := (items.map (·.val.length)).sum

/-- items and runes written, against the runes of the input -/
theorem lexAll_bounds (escc : Nat) (rs : List Rune) (pos : Nat) :
    (lexAll escc rs pos).length ≤ rs.length + 1 ∧ written (lexAll escc rs pos) ≤ rs.length := by
  generalize hn : rs.length = n
  induction n using Nat.strongRecOn generalizing rs pos with
  | ind n ih =>
    unfold lexAll
    split
    · simp [written]
    · rename_i r rest pos1 hw
      have h1 := consumeWS_length rs pos
      rw [hw] at h1
      simp only [List.length_cons] at h1
      split
      · -- a comment
        have h2 := consumeWS_length rest pos1
        have h3 := collectLine_written' escc (consumeWS rest pos1).1 (consumeWS rest pos1).2
        have hlt : (collectLine escc (consumeWS rest pos1).1 { pos := (consumeWS rest pos1).2 }).2.length < n := by omega
        have := ih _ hlt _ (collectLine escc (consumeWS rest pos1).1 { pos := (consumeWS rest pos1).2 }).1.pos rfl
        simp only [List.length_cons, written, List.map_cons, List.sum_cons, List.length_reverse] at this ⊢
        constructor <;> omega
      · split
        · -- an instruction
          rename_i hlet
          have h10 : r.cp ≠ 10 := by
            intro h; rw [h] at hlet; exact absurd hlet (by decide)
          have h3 := collectLine_written' escc (r :: rest) pos1
          have h5 := collectLine_first escc r rest { pos := pos1 } h10
          simp only [List.length_cons] at h3
          split
          rename_i s rs3 heq
          rw [heq] at h3 h5
          simp only at h3 h5
          split
          · simp [written, lostError]
          · rename_i it hsome
            have h4 := instructionItem_val_le _ _ _ hsome
            simp only [List.length_reverse] at h4
            have hlt : rs3.length < n := by omega
            have := ih _ hlt rs3 s.pos rfl
            simp only [List.length_cons, written, List.map_cons, List.sum_cons] at this ⊢
            constructor <;> omega
        · simp [written, lostError]

theorem decodeAll_length_le (b : Bytes) : (decodeAll b).length ≤ b.length := by
  induction b using decodeAll.induct with
  | case1 => simp [decodeAll]
  | case2 b0 rest ih =>
    unfold decodeAll
    simp only [List.length_cons, List.length_drop] at ih ⊢
    omega

end ClairModel.DockerLex
