/-
  C14 — OVAL criteria trees read with their operators: which module streams a
  package criterion stands in the scope of, and when the flat reading of
  `RPMDefsToVulns` (every package criterion × every module comment of the
  definition) coincides with it.
-/
import ClairModel.Proofs.Feeds
import ClairModel.Model.FeedOvalScope

namespace ClairModel.Feeds

mutual
theorem inScope_fst (ctx : List String) : ∀ t : STree, (inScope ctx t).map (·.1) = walk t.erase
  | .node op subs leaves => by
    simp only [inScope, STree.erase, walk, List.map_append, List.map_map]
    rw [inScopeList_fst]
    congr 1
    simp [Function.comp_def]
theorem inScopeList_fst (ctx : List String) : ∀ ts : List STree, (inScopeList ctx ts).map (·.1) = walkList (eraseList ts)
  | [] => rfl
  | t :: ts => by simp [inScopeList, eraseList, walkList, inScope_fst ctx t, inScopeList_fst ctx ts]
end

theorem enabledModules_append (a b : List Criterion) : enabledModules (a ++ b) = enabledModules a ++ enabledModules b := by
  simp [enabledModules, List.filterMap_append]

mutual
/-- Every module in a criterion's scope is named by the prefix context or by a
    criterion of the tree. -/
theorem inScope_ctx_sub (ctx : List String) : ∀ (t : STree) (x : Criterion × List String), x ∈ inScope ctx t →
    ∀ m ∈ x.2, m ∈ ctx ∨ m ∈ enabledModules (walk t.erase)
  | .node op subs leaves, x, hx, m, hm => by
    simp only [inScope, List.mem_append, List.mem_map] at hx
    simp only [STree.erase, walk, enabledModules_append, List.mem_append]
    have hctx' : ∀ m, m ∈ (if op = "AND" then ctx ++ leafModules leaves else ctx) → m ∈ ctx ∨ m ∈ enabledModules leaves := by
      intro m hm
      split at hm
      · simpa [leafModules] using hm
      · exact Or.inl hm
    rcases hx with hx | ⟨c, _, rfl⟩
    · rcases inScopeList_ctx_sub _ subs x hx m hm with h | h
      · rcases hctx' m h with h | h
        · exact Or.inl h
        · exact Or.inr (Or.inr h)
      · exact Or.inr (Or.inl h)
    · rcases hctx' m hm with h | h
      · exact Or.inl h
      · exact Or.inr (Or.inr h)
theorem inScopeList_ctx_sub (ctx : List String) : ∀ (ts : List STree) (x : Criterion × List String), x ∈ inScopeList ctx ts →
    ∀ m ∈ x.2, m ∈ ctx ∨ m ∈ enabledModules (walkList (eraseList ts))
  | [], x, hx, _, _ => by simp [inScopeList] at hx
  | t :: ts, x, hx, m, hm => by
    simp only [inScopeList, List.mem_append] at hx
    simp only [eraseList, walkList, enabledModules_append, List.mem_append]
    rcases hx with hx | hx
    · rcases inScope_ctx_sub ctx t x hx m hm with h | h
      · exact Or.inl h
      · exact Or.inr (Or.inl h)
    · rcases inScopeList_ctx_sub ctx ts x hx m hm with h | h
      · exact Or.inl h
      · exact Or.inr (Or.inr h)
end

mutual
/-- Below a node without module criterions the context does not change. -/
theorem inScope_noMods (ctx : List String) : ∀ (t : STree), enabledModules (walk t.erase) = [] →
    ∀ x ∈ inScope ctx t, x.2 = ctx
  | .node op subs leaves, h, x, hx => by
    simp only [STree.erase, walk, enabledModules_append, List.append_eq_nil_iff] at h
    simp only [inScope, leafModules, h.2, List.append_nil, ite_self, List.mem_append, List.mem_map] at hx
    rcases hx with hx | ⟨c, _, rfl⟩
    · exact inScopeList_noMods ctx subs h.1 x hx
    · rfl
theorem inScopeList_noMods (ctx : List String) : ∀ (ts : List STree), enabledModules (walkList (eraseList ts)) = [] →
    ∀ x ∈ inScopeList ctx ts, x.2 = ctx
  | [], _, x, hx => by simp [inScopeList] at hx
  | t :: ts, h, x, hx => by
    simp only [eraseList, walkList, enabledModules_append, List.append_eq_nil_iff] at h
    simp only [inScopeList, List.mem_append] at hx
    rcases hx with hx | hx
    · exact inScope_noMods ctx t h.1 x hx
    · exact inScopeList_noMods ctx ts h.2 x hx
end

theorem flatMap_congr' {α β : Type} (l : List α) (f g : α → List β) (h : ∀ a ∈ l, f a = g a) : l.flatMap f = l.flatMap g := by
  induction l with
  | nil => rfl
  | cons a l ih =>
    simp only [List.flatMap_cons]
    rw [h a (List.mem_cons_self ..), ih (fun b hb => h b (List.mem_cons_of_mem _ hb))]

theorem flatMap_filterMap' {α β γ : Type} (f : α → Option β) (g : β → List γ) (l : List α) :
    (l.filterMap f).flatMap g = l.flatMap (fun a => match f a with | some b => g b | none => []) := by
  induction l with
  | nil => rfl
  | cons a l ih =>
    simp only [List.filterMap_cons, List.flatMap_cons]
    cases f a <;> simp [ih]

/-- Uniformly inScope: every criterion stands in the scope of all module criterions of the definition. -/
def UniformScope (t : STree) : Prop := ∀ x ∈ inScope [] t, x.2 = enabledModules (walk t.erase)

theorem rpmDefSpec_eq_scoped (root : OvalRoot) (proto : ProtoFn) (d : OvalDef) (t : STree)
    (hd : d.criteria = t.erase) (hu : UniformScope t) :
    rpmDefSpec root proto d = rpmDefScoped root proto d t := by
  unfold rpmDefSpec rpmDefScoped
  cases proto d with
  | none => rfl
  | some ps =>
    simp only [hd, resolvedLeaves]
    rw [flatMap_filterMap', ← inScope_fst [] t, List.flatMap_map]
    apply flatMap_congr'
    intro x hx
    cases hr : resolveLeaf "rpminfo_test" "rpminfo_object" "rpminfo_state" root x.1 with
    | pkg n st vr =>
      simp only
      have : modulesOf (List.map (fun x => x.1) (inScope [] t)) = scopeMods x.2 := by
        rw [inScope_fst, hu x hx]; rfl
      rw [this]
    | skip => rfl
    | malformed => rfl

theorem uniform_of_noModules (t : STree) (h : enabledModules (walk t.erase) = []) : UniformScope t := by
  intro x hx
  rw [h]
  exact inScope_noMods [] t h x hx

theorem uniform_of_rootAnd (subs : List STree) (leaves : List Criterion)
    (h : enabledModules (walkList (eraseList subs)) = []) : UniformScope (.node "AND" subs leaves) := by
  intro x hx
  simp only [STree.erase, walk, enabledModules_append, h, List.nil_append]
  simp only [inScope, if_true, List.nil_append, leafModules, List.mem_append, List.mem_map] at hx
  rcases hx with hx | ⟨c, _, rfl⟩
  · exact inScopeList_noMods _ subs h x hx
  · rfl

end ClairModel.Feeds
