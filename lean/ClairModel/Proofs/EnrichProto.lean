/-
  Helper lemmas for C05 (enrichment-phase protocol): inductive invariant of
  the machine in Model/EnrichProto.lean and its consequences.
-/
import ClairModel.Lib.Sm
import ClairModel.Model.EnrichProto

namespace ClairModel.EnrichProto

theorem mem_set_cases {α : Type} {l : List α} {i : Nat} {x a : α} (h : a ∈ l.set i x) : a = x ∨ a ∈ l := by
  rcases List.mem_or_eq_of_mem_set h with h | h
  · exact Or.inr h
  · exact Or.inl h

theorem sumW_set {ws : List WPhase} {i : Nat} {old new : WPhase} (h : ws[i]? = some old) :
    sumW (ws.set i new) + wWeight old = sumW ws + wWeight new := by
  induction ws generalizing i with
  | nil => simp at h
  | cons w ws ih =>
    cases i with
    | zero =>
      simp only [List.getElem?_cons_zero, Option.some.injEq] at h
      subst h
      simp only [List.set_cons_zero, sumW]
      omega
    | succ i =>
      simp only [List.getElem?_cons_succ] at h
      have := ih h
      simp only [List.set_cons_succ, sumW]
      omega

theorem count_held_set {ws : List WPhase} {i : Nat} {old new : WPhase} (h : ws[i]? = some old) (a : Nat) :
    (held (ws.set i new)).count a + (heldOf old).count a = (held ws).count a + (heldOf new).count a := by
  induction ws generalizing i with
  | nil => simp at h
  | cons w ws ih =>
    cases i with
    | zero =>
      simp only [List.getElem?_cons_zero, Option.some.injEq] at h
      subst h
      simp only [List.set_cons_zero, held, List.count_append]
      omega
    | succ i =>
      simp only [List.getElem?_cons_succ] at h
      have := ih h
      simp only [List.set_cons_succ, held, List.count_append]
      omega

theorem notRet_set {ws : List WPhase} {i : Nat} {old new : WPhase} (h : ws[i]? = some old) :
    notRet (ws.set i new) + (if returned old then 0 else 1) = notRet ws + (if returned new then 0 else 1) := by
  induction ws generalizing i with
  | nil => simp at h
  | cons w ws ih =>
    cases i with
    | zero =>
      simp only [List.getElem?_cons_zero, Option.some.injEq] at h
      subst h
      simp only [List.set_cons_zero, notRet]
      omega
    | succ i =>
      simp only [List.getElem?_cons_succ] at h
      have := ih h
      simp only [List.set_cons_succ, notRet]
      omega

theorem notRet_zero_iff {ws : List WPhase} : notRet ws = 0 ↔ allReturned ws = true := by
  induction ws with
  | nil => simp [notRet, allReturned]
  | cons w ws ih =>
    unfold allReturned at ih ⊢
    simp only [notRet, List.all_cons, Bool.and_eq_true]
    cases hr : returned w with
    | true => simp [ih]
    | false => simp

theorem notRet_pos_of_mem {ws : List WPhase} {i : Nat} {p : WPhase} (h : ws[i]? = some p)
    (hp : returned p = false) : 0 < notRet ws := by
  cases hz : notRet ws with
  | succ n => omega
  | zero =>
    have hall := notRet_zero_iff.1 hz
    unfold allReturned at hall
    rw [List.all_eq_true] at hall
    have := hall p (List.mem_of_getElem? h)
    rw [hp] at this; cases this

theorem allReturned_held {ws : List WPhase} (hall : allReturned ws = true) : held ws = [] := by
  induction ws with
  | nil => rfl
  | cons w ws ih =>
    unfold allReturned at hall ih
    simp only [List.all_cons, Bool.and_eq_true] at hall
    simp only [held, ih hall.2, List.append_nil]
    cases w <;> simp_all [returned, heldOf]

theorem exists_index {ws : List WPhase} {p : WPhase} (h : p ∈ ws) : ∃ i : Nat, ws[i]? = some p := by
  obtain ⟨i, hi, he⟩ := List.getElem_of_mem h
  exact ⟨i, by rw [List.getElem?_eq_getElem hi, he]⟩

/-! ### the invariant -/

structure Inv (es : List Nat) (s : State) : Prop where
  nworkers : s.workers.length = s.lim
  noPanic : s.panicked = false
  eBefore : s.senderDone = false → s.eCloses = 0
  eAfter : s.senderDone = true → s.eCloses = 1
  ctEq : s.ct = notRet s.workers
  rOpen : notRet s.workers ≠ 0 → s.rCloses = 0
  rClosed : notRet s.workers = 0 → 0 < s.lim → s.rCloses = 1
  rZero : s.lim = 0 → s.rCloses = 0
  nilNeedsClose : s.eCloses = 0 → .retNil ∉ s.workers
  errNeedsCancel : .retErr ∈ s.workers → s.cancelled = true
  workerErrWhy : s.workerErr = true → s.cancelled = true
  collDone : s.collectorDone = true → s.rCloses = 1 ∧ s.buf = []
  leftLoop : s.senderDone = true → s.toSend = [] ∨ s.broke = true
  brokeWhy : s.broke = true → s.cancelled = true
  conserve : s.cancelled = false → ∀ a,
    s.toSend.count a + (held s.workers).count a + s.buf.count a + s.collected.count a + s.skipped.count a
      = es.count a

theorem held_replicate_idle (n : Nat) : held (List.replicate n WPhase.idle) = [] := by
  induction n with
  | zero => rfl
  | succ n ih => simp [List.replicate_succ, held, heldOf, ih]

theorem notRet_replicate_idle (n : Nat) : notRet (List.replicate n WPhase.idle) = n := by
  induction n with
  | zero => rfl
  | succ n ih =>
    rw [List.replicate_succ]
    simp only [notRet, returned]
    rw [ih]; simp; omega

theorem inv_init (lim : Nat) (es : List Nat) : Inv es (init lim es) := by
  constructor <;> simp [init, held_replicate_idle, notRet_replicate_idle]

/-- A worker moves between two phases in which it has not returned. -/
theorem inv_worker {es : List Nat} {s : State} (h : Inv es s) {w : Nat} {old new : WPhase}
    (hw : s.workers[w]? = some old) (hold : returned old = false) (hnew : returned new = false)
    (s' : State)
    (hws : s'.workers = s.workers.set w new)
    (hlim : s'.lim = s.lim) (hsend : s'.toSend = s.toSend) (hsd : s'.senderDone = s.senderDone)
    (hbroke : s'.broke = s.broke) (he : s'.eCloses = s.eCloses) (hr : s'.rCloses = s.rCloses)
    (hct : s'.ct = s.ct) (hcd : s'.collectorDone = s.collectorDone) (hc : s'.cancelled = s.cancelled)
    (hwe : s'.workerErr = s.workerErr) (hp : s'.panicked = s.panicked)
    (hbuf : s.collectorDone = true → s'.buf = s.buf)
    (hcons : ∀ a,
      (held s'.workers).count a + s'.buf.count a + s'.collected.count a + s'.skipped.count a
        = (held s.workers).count a + s.buf.count a + s.collected.count a + s.skipped.count a) :
    Inv es s' := by
  have hnr : notRet s'.workers = notRet s.workers := by
    have := notRet_set (new := new) hw
    rw [hws]; simp [hold, hnew] at this; omega
  have hne : new ≠ .retNil ∧ new ≠ .retErr := by
    constructor <;> (intro hx; rw [hx] at hnew; cases hnew)
  constructor
  · rw [hws, hlim, List.length_set]; exact h.nworkers
  · rw [hp]; exact h.noPanic
  · rw [hsd, he]; exact h.eBefore
  · rw [hsd, he]; exact h.eAfter
  · rw [hct, hnr]; exact h.ctEq
  · rw [hnr, hr]; exact h.rOpen
  · rw [hnr, hr, hlim]; exact h.rClosed
  · rw [hlim, hr]; exact h.rZero
  · rw [he, hws]
    intro h0 hx
    rcases mem_set_cases hx with hx | hx
    · exact hne.1 hx.symm
    · exact h.nilNeedsClose h0 hx
  · rw [hws, hc]
    intro hx
    rcases mem_set_cases hx with hx | hx
    · exact absurd hx.symm hne.2
    · exact h.errNeedsCancel hx
  · rw [hwe, hc]; exact h.workerErrWhy
  · rw [hcd, hr]
    intro hd
    rw [hbuf hd]
    exact h.collDone hd
  · rw [hsd, hsend, hbroke]; exact h.leftLoop
  · rw [hbroke, hc]; exact h.brokeWhy
  · rw [hc]
    intro hcf a
    have := h.conserve hcf a
    have h2 := hcons a
    rw [hsend]
    omega

/-- A worker returns (deferred decrement, close at zero). -/
theorem inv_return {es : List Nat} {s : State} (h : Inv es s) {w : Nat} {old : WPhase}
    (hw : s.workers[w]? = some old) (hold : returned old = false) (p : WPhase) (err : Bool)
    (hp : returned p = true)
    (hnil : p = .retNil → s.eCloses ≠ 0)
    (hcan : p = .retErr ∨ err = true → s.cancelled = true)
    (hheld : s.cancelled = false → heldOf old = []) :
    Inv es (workerReturns s w p err).1 ∧ (workerReturns s w p err).2 = .ok := by
  have hpos := notRet_pos_of_mem hw hold
  have hr0 := h.rOpen (by omega)
  have hnr : notRet (s.workers.set w p) = notRet s.workers - 1 := by
    have := notRet_set (new := p) hw
    simp [hold, hp] at this; omega
  have hlimpos : 0 < s.lim := by
    rw [← h.nworkers]
    cases hws : s.workers with
    | nil => rw [hws] at hw; simp at hw
    | cons _ _ => simp
  have hcd : s.collectorDone = false := by
    cases hcd : s.collectorDone with
    | false => rfl
    | true => have := (h.collDone hcd).1; omega
  have base : ∀ (rc : Nat), (notRet s.workers - 1 ≠ 0 → rc = 0) → (notRet s.workers - 1 = 0 → rc = 1) →
      Inv es { s with workers := s.workers.set w p, ct := s.ct - 1, workerErr := s.workerErr || err, rCloses := rc } := by
    intro rc hrc0 hrc1
    constructor <;> simp only []
    · rw [List.length_set]; exact h.nworkers
    · exact h.noPanic
    · exact h.eBefore
    · exact h.eAfter
    · rw [hnr, h.ctEq]
    · rw [hnr]; exact hrc0
    · rw [hnr]; intro h0 _; exact hrc1 h0
    · intro hl0; omega
    · intro h0 hx
      rcases mem_set_cases hx with hx | hx
      · exact hnil hx.symm h0
      · exact h.nilNeedsClose h0 hx
    · intro hx
      rcases mem_set_cases hx with hx | hx
      · exact hcan (Or.inl hx.symm)
      · exact h.errNeedsCancel hx
    · intro hwe
      cases hs : s.workerErr with
      | true => exact h.workerErrWhy hs
      | false =>
        rw [hs] at hwe
        exact hcan (Or.inr (by simpa using hwe))
    · intro hd; rw [hcd] at hd; cases hd
    · exact h.leftLoop
    · exact h.brokeWhy
    · intro hcf a
      have := h.conserve hcf a
      have h2 := count_held_set (new := p) hw a
      have hp0 : (heldOf p).count a = 0 := by cases p <;> simp_all [returned, heldOf]
      have hold0 : (heldOf old).count a = 0 := by rw [hheld hcf]; rfl
      omega
  have hcz : (s.ct - 1 = 0) ↔ (notRet s.workers - 1 = 0) := by rw [h.ctEq]
  unfold workerReturns
  by_cases hz : s.ct - 1 = 0
  · rw [if_pos hz, if_pos hr0]
    exact ⟨base 1 (fun hne => absurd (hcz.1 hz) hne) (fun _ => rfl), rfl⟩
  · rw [if_neg hz]
    exact ⟨base s.rCloses (fun _ => hr0) (fun h0 => absurd (hcz.2 h0) hz), rfl⟩

theorem inv_step {es : List Nat} {s : State} (h : Inv es s) (op : Op) : Inv es (step s op).1 := by
  cases op with
  | handoff w =>
    simp only [step]
    split
    · rename_i e rest hsd hb hts hw
      have hnr : notRet (s.workers.set w (.running e)) = notRet s.workers := by
        have := notRet_set (new := WPhase.running e) hw
        simp [returned] at this; omega
      constructor <;> simp only []
      · rw [List.length_set]; exact h.nworkers
      · exact h.noPanic
      · exact h.eBefore
      · exact h.eAfter
      · rw [hnr]; exact h.ctEq
      · rw [hnr]; exact h.rOpen
      · rw [hnr]; exact h.rClosed
      · exact h.rZero
      · intro h0 hx
        rcases mem_set_cases hx with hx | hx
        · cases hx
        · exact h.nilNeedsClose h0 hx
      · intro hx
        rcases mem_set_cases hx with hx | hx
        · cases hx
        · exact h.errNeedsCancel hx
      · exact h.workerErrWhy
      · exact h.collDone
      · intro hd; rw [hsd] at hd; cases hd
      · exact h.brokeWhy
      · intro hcf a
        have := h.conserve hcf a
        have h2 := count_held_set (new := WPhase.running e) hw a
        rw [hts] at this
        simp only [heldOf, List.count_nil, List.count_cons] at this h2 ⊢
        omega
    · exact h
  | senderBreak =>
    simp only [step]
    split
    · rename_i hsd hb hts hc
      constructor <;> simp only []
      · exact h.nworkers
      · exact h.noPanic
      · exact h.eBefore
      · exact h.eAfter
      · exact h.ctEq
      · exact h.rOpen
      · exact h.rClosed
      · exact h.rZero
      · exact h.nilNeedsClose
      · exact h.errNeedsCancel
      · exact h.workerErrWhy
      · exact h.collDone
      · intro hd; rw [hsd] at hd; cases hd
      · intro _; exact hc
      · exact h.conserve
    · exact h
  | closeE =>
    simp only [step]
    split
    · rename_i hcond
      obtain ⟨hsd, hleft⟩ := hcond
      have he0 := h.eBefore hsd
      simp only [he0, if_true]
      constructor <;> simp only []
      · exact h.nworkers
      · exact h.noPanic
      · intro x; cases x
      · intro _; trivial
      · exact h.ctEq
      · exact h.rOpen
      · exact h.rClosed
      · exact h.rZero
      · intro x; cases x
      · exact h.errNeedsCancel
      · exact h.workerErrWhy
      · exact h.collDone
      · intro _; exact hleft
      · exact h.brokeWhy
      · exact h.conserve
    · exact h
  | enrich w res =>
    simp only [step]
    split
    · rename_i e hw
      cases res with
      | true =>
        simp only [if_true]
        refine inv_worker h hw rfl rfl _ rfl rfl rfl rfl rfl rfl rfl rfl rfl rfl rfl rfl ?_ ?_
        · intro _; rfl
        · intro a
          have := count_held_set (new := WPhase.sending e) hw a
          simp only [heldOf] at this ⊢
          omega
      | false =>
        simp only [Bool.false_eq_true, if_false]
        refine inv_worker h hw rfl rfl _ rfl rfl rfl rfl rfl rfl rfl rfl rfl rfl rfl rfl ?_ ?_
        · intro _; rfl
        · intro a
          have := count_held_set (new := WPhase.idle) hw a
          simp only [heldOf, List.count_append, List.count_nil] at this ⊢
          omega
    · exact h
  | sendR w =>
    simp only [step]
    split
    · rename_i e hw
      have hr0 := h.rOpen (by have := notRet_pos_of_mem hw rfl; omega)
      simp only [hr0, ne_eq, not_true_eq_false, if_false]
      split
      · refine inv_worker h hw rfl rfl _ rfl rfl rfl rfl rfl rfl hr0.symm rfl rfl rfl rfl rfl ?_ ?_
        · intro hd
          have := (h.collDone hd).1
          omega
        · intro a
          have := count_held_set (new := WPhase.idle) hw a
          simp only [heldOf, List.count_append, List.count_nil] at this ⊢
          omega
      · exact h
    · exact h
  | workerCancel w =>
    simp only [step]
    split
    · rename_i e hw
      split
      · rename_i hc
        exact (inv_return h hw rfl .retErr true rfl (by intro x; cases x) (fun _ => hc)
          (by intro hcf; rw [hc] at hcf; cases hcf)).1
      · exact h
    · exact h
  | workerExit w =>
    simp only [step]
    split
    · rename_i hw
      split
      · rename_i he
        exact (inv_return h hw rfl .retNil false rfl (fun _ => he)
          (by rintro (x | x) <;> cases x) (fun _ => rfl)).1
      · exact h
    · exact h
  | collect =>
    simp only [step]
    split
    · rename_i e rest hcd hbuf
      constructor <;> simp only []
      · exact h.nworkers
      · exact h.noPanic
      · exact h.eBefore
      · exact h.eAfter
      · exact h.ctEq
      · exact h.rOpen
      · exact h.rClosed
      · exact h.rZero
      · exact h.nilNeedsClose
      · exact h.errNeedsCancel
      · exact h.workerErrWhy
      · intro hd; rw [hcd] at hd; cases hd
      · exact h.leftLoop
      · exact h.brokeWhy
      · intro hcf a
        have := h.conserve hcf a
        rw [hbuf] at this
        simp only [List.count_cons, List.count_append, List.count_nil] at this ⊢
        omega
    · exact h
  | collectorEnd =>
    simp only [step]
    split
    · rename_i hcond
      obtain ⟨hcd, hbuf, hr⟩ := hcond
      constructor <;> simp only []
      · exact h.nworkers
      · exact h.noPanic
      · exact h.eBefore
      · exact h.eAfter
      · exact h.ctEq
      · exact h.rOpen
      · exact h.rClosed
      · exact h.rZero
      · exact h.nilNeedsClose
      · exact h.errNeedsCancel
      · exact h.workerErrWhy
      · intro _
        refine ⟨?_, hbuf⟩
        by_cases hz : notRet s.workers = 0
        · by_cases hl : 0 < s.lim
          · exact h.rClosed hz hl
          · exact absurd (h.rZero (by omega)) hr
        · exact absurd (h.rOpen hz) hr
      · exact h.leftLoop
      · exact h.brokeWhy
      · exact h.conserve
    · exact h
  | cancelParent =>
    simp only [step]
    split
    · exact h
    · constructor <;> simp only []
      · exact h.nworkers
      · exact h.noPanic
      · exact h.eBefore
      · exact h.eAfter
      · exact h.ctEq
      · exact h.rOpen
      · exact h.rClosed
      · exact h.rZero
      · exact h.nilNeedsClose
      · intro _; trivial
      · intro _; trivial
      · exact h.collDone
      · exact h.leftLoop
      · intro _; trivial
      · intro hcf; cases hcf

/-! ### consequences -/

theorem reachable_inv (lim : Nat) (es : List Nat) (ops : List Op) :
    Inv es (Sm.run step (init lim es) ops) :=
  Sm.invariant_run (Inv := Inv es) (fun _ op h => inv_step h op) ops _ (inv_init lim es)

theorem panic_sets_flag (s : State) (op : Op) (h : (step s op).2 = .panic) : (step s op).1.panicked = true := by
  cases op <;> simp only [step, workerReturns] at h ⊢ <;> (repeat' split at h) <;> simp_all

theorem step_never_panics {es : List Nat} {s : State} (h : Inv es s) (op : Op) : (step s op).2 ≠ .panic := by
  intro hp
  have := (inv_step h op).noPanic
  rw [panic_sets_flag s op hp] at this
  cases this

theorem lim_const (s : State) (op : Op) : (step s op).1.lim = s.lim := by
  cases op <;> simp only [step, workerReturns] <;> (repeat' split) <;> rfl

theorem workerReturns_measure (s : State) (w : Nat) (old p : WPhase) (err : Bool)
    (hw : s.workers[w]? = some old) (hold : 0 < wWeight old) (hp : wWeight p = 0) :
    measure (workerReturns s w p err).1 < measure s := by
  have := sumW_set (new := p) hw
  unfold workerReturns
  split
  · split <;> simp [measure] <;> omega
  · simp [measure]; omega

theorem step_decreases (s : State) (op : Op) (h : (step s op).2 = .ok) :
    measure (step s op).1 < measure s := by
  cases op with
  | handoff w =>
    simp only [step] at h ⊢
    split at h
    · rename_i e rest hsd hb hts hw
      have := sumW_set (new := WPhase.running e) hw
      simp [measure, hsd, hb, hts, hw, wWeight] at this ⊢
      omega
    · cases h
  | senderBreak =>
    simp only [step] at h ⊢
    split at h
    · rename_i hsd hb hts hc
      simp [measure, hsd, hb, hts, hc]
    · cases h
  | closeE =>
    simp only [step] at h ⊢
    split at h
    · rename_i hcond
      split at h
      · rename_i hm
        simp [measure, hcond, hm]
      · cases h
    · cases h
  | enrich w res =>
    simp only [step] at h ⊢
    split at h
    · rename_i e hw
      cases res with
      | true =>
        have := sumW_set (new := WPhase.sending e) hw
        simp [measure, hw, wWeight] at this ⊢
        omega
      | false =>
        have := sumW_set (new := WPhase.idle) hw
        simp [measure, hw, wWeight] at this ⊢
        omega
    · cases h
  | sendR w =>
    simp only [step] at h ⊢
    split at h
    · rename_i e hw
      split at h
      · cases h
      · rename_i hv
        split at h
        · rename_i hlt
          have := sumW_set (new := WPhase.idle) hw
          simp [measure, hw, hv, hlt, wWeight] at this ⊢
          omega
        · cases h
    · cases h
  | workerCancel w =>
    simp only [step] at h ⊢
    split at h
    · rename_i e hw
      split at h
      · rename_i hc
        simp only [hw, hc, if_true]
        exact workerReturns_measure s w _ _ _ hw (by simp [wWeight]) rfl
      · cases h
    · cases h
  | workerExit w =>
    simp only [step] at h ⊢
    split at h
    · rename_i hw
      split at h
      · rename_i he
        simp only [hw, ne_eq, he, not_false_eq_true, if_true]
        exact workerReturns_measure s w _ _ _ hw (by simp [wWeight]) rfl
      · cases h
    · cases h
  | collect =>
    simp only [step] at h ⊢
    split at h
    · rename_i e rest hcd hbuf
      simp [measure, hcd, hbuf]
    · cases h
  | collectorEnd =>
    simp only [step] at h ⊢
    split at h
    · rename_i hcond
      simp [measure, hcond]
    · cases h
  | cancelParent =>
    simp only [step] at h ⊢
    split at h
    · cases h
    · rename_i hp
      simp [measure, hp]

def allOk (s : State) : List Op → Bool
  | [] => true
  | op :: ops => (step s op).2 == .ok && allOk (step s op).1 ops

theorem run_length_bound (s : State) (ops : List Op) (h : allOk s ops = true) :
    ops.length + measure (Sm.run step s ops) ≤ measure s := by
  induction ops generalizing s with
  | nil => simp
  | cons op ops ih =>
    simp only [allOk, Bool.and_eq_true, beq_iff_eq] at h
    have h1 := step_decreases s op h.1
    have h2 := ih _ h.2
    simp only [Sm.run_cons, List.length_cons]
    omega

theorem sumW_replicate_idle (n : Nat) : sumW (List.replicate n WPhase.idle) = n := by
  induction n with
  | zero => rfl
  | succ n ih => simp only [List.replicate_succ, sumW, wWeight, ih]; omega

theorem measure_init (lim : Nat) (es : List Nat) : measure (init lim es) = 5 * es.length + lim + 4 := by
  simp [measure, init, sumW_replicate_idle]

theorem returned_of_all {ws : List WPhase} {i : Nat} {p : WPhase} (hall : allReturned ws = true)
    (h : ws[i]? = some p) : returned p = true := by
  unfold allReturned at hall
  rw [List.all_eq_true] at hall
  exact hall p (List.mem_of_getElem? h)

/-- Deadlock freedom of the enrichment phase. -/
theorem exists_enabled {es : List Nat} {s : State} (h : Inv es s) (hlim : 0 < s.lim) (hnf : final s = false) :
    ∃ op, internal op = true ∧ (step s op).2 = .ok := by
  cases hall : allReturned s.workers with
  | false =>
    unfold allReturned at hall
    rw [List.all_eq_false] at hall
    obtain ⟨p, hp, hret⟩ := hall
    obtain ⟨i, hi⟩ := exists_index hp
    have hpos : notRet s.workers ≠ 0 := by
      have := notRet_pos_of_mem hi (by simpa using hret)
      omega
    have hr0 := h.rOpen hpos
    have hret_ok : ∀ (p' : WPhase) (err : Bool), (workerReturns s i p' err).2 = .ok := by
      intro p' err
      unfold workerReturns
      split
      · simp [hr0]
      · rfl
    cases p with
    | retNil => simp [returned] at hret
    | retErr => simp [returned] at hret
    | running e => exact ⟨.enrich i true, rfl, by simp [step, hi]⟩
    | sending e =>
      by_cases hlt : s.buf.length < s.lim
      · exact ⟨.sendR i, rfl, by simp [step, hi, hr0, hlt]⟩
      · cases hbuf : s.buf with
        | nil => rw [hbuf] at hlt; simp at hlt; omega
        | cons b rest =>
          cases hcd : s.collectorDone with
          | true =>
            have := (h.collDone hcd).2
            rw [hbuf] at this; cases this
          | false => exact ⟨.collect, rfl, by simp [step, hcd, hbuf]⟩
    | idle =>
      by_cases he : s.eCloses = 0
      · have hsd : s.senderDone = false := by
          cases hs : s.senderDone with
          | false => rfl
          | true => have := h.eAfter hs; omega
        cases hb : s.broke with
        | true => exact ⟨.closeE, rfl, by simp [step, hsd, hb, he]⟩
        | false =>
          cases hts : s.toSend with
          | nil => exact ⟨.closeE, rfl, by simp [step, hsd, hts, he]⟩
          | cons e rest => exact ⟨.handoff i, rfl, by simp [step, hsd, hb, hts, hi]⟩
      · refine ⟨.workerExit i, rfl, ?_⟩
        simp only [step, hi, ne_eq, he, not_false_eq_true, if_true]
        exact hret_ok _ _
  | true =>
    have hz := notRet_zero_iff.2 hall
    have hr1 := h.rClosed hz hlim
    cases hs : s.senderDone with
    | false =>
      have he := h.eBefore hs
      cases hb : s.broke with
      | true => exact ⟨.closeE, rfl, by simp [step, hs, hb, he]⟩
      | false =>
        cases hts : s.toSend with
        | nil => exact ⟨.closeE, rfl, by simp [step, hs, hts, he]⟩
        | cons e rest =>
          have hne : 0 < s.workers.length := by rw [h.nworkers]; exact hlim
          obtain ⟨p, hp⟩ := List.exists_mem_of_length_pos hne
          obtain ⟨i, hi⟩ := exists_index hp
          have hret := returned_of_all hall hi
          have hc : s.cancelled = true := by
            cases p with
            | retNil => exact absurd hp (h.nilNeedsClose he)
            | retErr => exact h.errNeedsCancel hp
            | idle => cases hret
            | running _ => cases hret
            | sending _ => cases hret
          exact ⟨.senderBreak, rfl, by simp [step, hs, hb, hts, hc]⟩
    | true =>
      cases hcd : s.collectorDone with
      | true => simp [final, hs, hcd, hall] at hnf
      | false =>
        cases hbuf : s.buf with
        | nil => exact ⟨.collectorEnd, rfl, by simp [step, hcd, hbuf, hr1]⟩
        | cons b rest => exact ⟨.collect, rfl, by simp [step, hcd, hbuf]⟩

/-- In a final state reached without cancellation no worker returned an
    error and every enricher was either skipped (error / nothing to report)
    or had its entry collected, exactly once. -/
theorem final_uncancelled {es : List Nat} {s : State} (h : Inv es s) (hf : final s = true)
    (hc : s.cancelled = false) : s.workerErr = false ∧ (s.collected ++ s.skipped).Perm es := by
  simp only [final, Bool.and_eq_true] at hf
  obtain ⟨⟨hsd, hcd⟩, hall⟩ := hf
  constructor
  · cases hw : s.workerErr with
    | false => rfl
    | true => have := h.workerErrWhy hw; rw [hc] at this; cases this
  · rw [List.perm_iff_count]
    intro a
    have := h.conserve hc a
    have hts : s.toSend = [] := by
      rcases h.leftLoop hsd with h1 | h1
      · exact h1
      · have := h.brokeWhy h1; rw [hc] at this; cases this
    rw [hts, allReturned_held hall, (h.collDone hcd).2] at this
    simpa [List.count_append] using this

end ClairModel.EnrichProto
