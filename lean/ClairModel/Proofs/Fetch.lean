/-
  Helper lemmas for C09 (model: Model/Fetch.lean).  Core Lean only.
-/
import ClairModel.Model.Fetch
import ClairModel.Lib.Sm

namespace ClairModel.Fetch
open ClairModel ClairModel.Bytes ClairModel.Codec

/-! ### fetchCoreH: when is a fresh download published -/

/-- Everything `fetchUnlinkedFile` requires before it stores a new file. -/
structure Accept (P : Params) (drain : Bool) (arena : Arena) (key uri : Bytes) (r : Resp)
    (hashed payload : Bytes) : Prop where
  uri_nonempty : uri ≠ []
  uri_ok : P.uriOK uri = true
  miss : arena.lookup key = none
  not_refused : r.refused = false
  status_ok : Gen.Fetch.acceptStatus.contains r.status = true
  drained : drain = true → r.term = .eof
  rest : ∃ dg k ct, digestParse key = some dg ∧ detect r.body r.term = some k ∧
      effectiveCT r.ctype k = some ct ∧ wantKind ct = some k ∧
      spool P k r = some payload ∧ P.hash dg.algo hashed = dg.checksum

theorem spool_some {P : Params} {k : Kind} {r : Resp} {payload : Bytes} (h : spool P k r = some payload) :
    decompress P k r.body r.term = some payload ∧ fits r.disk payload = true := by
  unfold spool at h
  split at h
  · cases h
  · rename_i p hp
    split at h
    · rename_i hf
      simp only [Option.some.injEq] at h
      subst h
      exact ⟨hp, hf⟩
    · cases h

theorem publish_iff (P : Params) (drain : Bool) (arena : Arena) (key uri : Bytes) (r : Resp)
    (hashed k' payload : Bytes) :
    .publish k' payload ∈ (fetchCoreH P drain arena key uri r hashed).effs ↔
      (k' = key ∧ Accept P drain arena key uri r hashed payload) := by
  constructor
  · intro h
    unfold fetchCoreH at h
    repeat' split at h
    all_goals (first | (simp at h; done) | skip)
    rename_i hu _ dg hd huri _ hmiss href hst _ k hk _ ct hct _ w hw hkw _ pl hdec hdr hh
    simp only [List.mem_cons, List.not_mem_nil, or_false, reduceCtorEq, false_or, Eff.publish.injEq] at h
    obtain ⟨rfl, rfl⟩ := h
    have hkw' : k = w := by simpa using hkw
    subst hkw'
    refine ⟨rfl, ⟨hu, by simpa using huri, hmiss, by simpa using href, by simpa using hst, ?_, dg, k, ct, hd, hk, hct, hw, hdec, by simpa using hh⟩⟩
    intro hd1
    subst hd1
    simpa using hdr
  · rintro ⟨rfl, ha⟩
    obtain ⟨dg, k, ct, hd, hk, hct, hw, hdec, hh⟩ := ha.rest
    have hdr : ¬(drain = true ∧ ¬r.term = Term.eof) := fun ⟨h1, h2⟩ => h2 (ha.drained h1)
    have hs : r.status ∈ Gen.Fetch.acceptStatus := by simpa using ha.status_ok
    unfold fetchCoreH
    simp [ha.uri_nonempty, hd, ha.uri_ok, ha.miss, ha.not_refused, hs, hk, hct, hw, hdec, hdr, hh]

/-- The result of `fetchUnlinkedFile`: a file already in the arena under the
    same digest string, or a freshly published one. -/
theorem out_some_iff (P : Params) (drain : Bool) (arena : Arena) (key uri : Bytes) (r : Resp)
    (hashed payload : Bytes) :
    (fetchCoreH P drain arena key uri r hashed).out = some payload ↔
      ((uri ≠ [] ∧ (digestParse key).isSome ∧ P.uriOK uri = true ∧
          ∃ e, arena.lookup key = some e ∧ e.payload = payload) ∨
        Accept P drain arena key uri r hashed payload) := by
  constructor
  · intro h
    unfold fetchCoreH at h
    repeat' split at h
    all_goals (first | (simp at h; done) | skip)
    · rename_i hu _ dg hd huri _ e he
      simp only [Option.some.injEq] at h
      exact Or.inl ⟨hu, by simp [hd], by simpa using huri, e, he, h⟩
    · rename_i hu _ dg hd huri _ hmiss href hst _ k hk _ ct hct _ w hw hkw _ pl hdec hdr hh
      simp only [Option.some.injEq] at h
      subst h
      have hkw' : k = w := by simpa using hkw
      subst hkw'
      refine Or.inr ⟨hu, by simpa using huri, hmiss, by simpa using href, by simpa using hst, ?_, dg, k, ct, hd, hk, hct, hw, hdec, by simpa using hh⟩
      intro hd1
      subst hd1
      simpa using hdr
  · rintro (⟨hu, hd, huri, e, he, rfl⟩ | ha)
    · obtain ⟨dg, hd⟩ := Option.isSome_iff_exists.1 hd
      unfold fetchCoreH
      simp [hu, hd, huri, he]
    · obtain ⟨dg, k, ct, hd, hk, hct, hw, hdec, hh⟩ := ha.rest
      have hdr : ¬(drain = true ∧ ¬r.term = Term.eof) := fun ⟨h1, h2⟩ => h2 (ha.drained h1)
      have hs : r.status ∈ Gen.Fetch.acceptStatus := by simpa using ha.status_ok
      unfold fetchCoreH
      simp [ha.uri_nonempty, hd, ha.uri_ok, ha.miss, ha.not_refused, hs, hk, hct, hw, hdec, hdr, hh]

/-- `publish` is the last effect and comes directly after the successful comparison. -/
theorem publish_shape (P : Params) (drain : Bool) (arena : Arena) (key uri : Bytes) (r : Resp)
    (hashed k' payload : Bytes)
    (h : .publish k' payload ∈ (fetchCoreH P drain arena key uri r hashed).effs) :
    ∃ pre, (fetchCoreH P drain arena key uri r hashed).effs = pre ++ [.compare true, .publish k' payload] ∧
      ∀ e ∈ pre, (∀ a b, e ≠ .publish a b) := by
  unfold fetchCoreH at h ⊢
  repeat' split at h
  all_goals (first | (simp at h; done) | skip)
  rename_i hu _ dg hd huri _ hmiss href hst _ k hk _ ct hct _ w hw hkw _ pl hdec hdr hh
  simp only [List.mem_cons, List.not_mem_nil, or_false, reduceCtorEq, false_or, Eff.publish.injEq] at h
  obtain ⟨rfl, rfl⟩ := h
  have hkw' : k = w := by simpa using hkw
  subst hkw'
  have hs : r.status ∈ Gen.Fetch.acceptStatus := by simpa using hst
  have hdr' : ¬(drain = true ∧ ¬r.term = Term.eof) := by simpa using hdr
  have hh' : P.hash dg.algo hashed = dg.checksum := by simpa using hh
  refine ⟨[.lookup false, .request, .status true, .detect (some k), .ctype (some ct), .want (some k), .copy true, .drain true], ?_, ?_⟩
  · simp [hu, huri, href, hs, hdr', hh']
  · intro e he a b
    simp only [List.mem_cons, List.not_mem_nil, or_false] at he
    rcases he with rfl | rfl | rfl | rfl | rfl | rfl | rfl | rfl <;> simp

/-! ### the reader stack -/

theorem Tee.read_inv (t : Tee) (n : Nat) :
    (t.read n).2.hashed ++ (t.read n).2.rest.flatten = t.hashed ++ t.rest.flatten ∧
    (t.read n).2.hashed = t.hashed ++ (t.read n).1 := by
  unfold Tee.read
  cases h : t.rest with
  | nil => simp [h]
  | cons c cs =>
    simp only []
    have htd := List.take_append_drop (n + 1) c
    refine ⟨?_, trivial⟩
    split
    · rename_i hd
      rw [hd, List.append_nil] at htd
      simp [htd]
    · simp only [List.flatten_cons, List.append_assoc]
      rw [← List.append_assoc (List.take (n + 1) c), htd]

theorem Tee.readMany_inv (t : Tee) (ns : List Nat) :
    (t.readMany ns).2.hashed ++ (t.readMany ns).2.rest.flatten = t.hashed ++ t.rest.flatten ∧
    (t.readMany ns).2.hashed = t.hashed ++ (t.readMany ns).1 := by
  induction ns generalizing t with
  | nil => simp [Tee.readMany]
  | cons n ns ih =>
    simp only [Tee.readMany]
    have h1 := Tee.read_inv t n
    have h2 := ih (t.read n).2
    refine ⟨by rw [h2.1, h1.1], ?_⟩
    rw [h2.2, h1.2, List.append_assoc]

theorem Tee.read_size (t : Tee) (n : Nat) (h : t.rest ≠ []) : (t.read n).2.size < t.size := by
  unfold Tee.read Tee.size
  cases hr : t.rest with
  | nil => exact absurd hr h
  | cons c cs =>
    simp only [List.flatten_cons, List.length_append, List.length_cons]
    split
    · omega
    · rename_i hd
      simp only [List.flatten_cons, List.length_append, List.length_cons, List.length_drop]
      have : n + 1 < c.length := by
        rcases Nat.lt_or_ge (n + 1) c.length with h | h
        · exact h
        · exact absurd (List.drop_eq_nil_of_le h) hd
      omega

theorem Tee.drainFuel_inv (fuel : Nat) (t : Tee) :
    (Tee.drainFuel fuel t).hashed ++ (Tee.drainFuel fuel t).rest.flatten = t.hashed ++ t.rest.flatten := by
  induction fuel generalizing t with
  | zero => rfl
  | succ f ih =>
    simp only [Tee.drainFuel]
    split
    · rfl
    · rw [ih, (Tee.read_inv t 8191).1]

theorem Tee.drainFuel_done (fuel : Nat) (t : Tee) (h : t.size ≤ fuel) : (Tee.drainFuel fuel t).rest = [] := by
  induction fuel generalizing t with
  | zero =>
    simp only [Tee.drainFuel]
    cases hr : t.rest with
    | nil => rfl
    | cons c cs => simp [Tee.size, hr] at h
  | succ f ih =>
    simp only [Tee.drainFuel]
    split
    · assumption
    · rename_i hne
      exact ih _ (by have := Tee.read_size t 8191 hne; omega)

/-- After the drain nothing is left in the transport and the hash has seen
    everything that was there. -/
theorem Tee.drain_all (t : Tee) : t.drain.rest = [] ∧ t.drain.hashed = t.hashed ++ t.rest.flatten := by
  have h1 := Tee.drainFuel_done t.size t (Nat.le_refl _)
  have h2 := Tee.drainFuel_inv t.size t
  unfold Tee.drain
  rw [h1] at h2
  exact ⟨h1, by simpa using h2⟩

/-! ### arena bookkeeping: entries keep their (key, payload) -/

theorem Arena.mem_ref {a : Arena} {key payload : Bytes} {x : Entry} (h : x ∈ a.ref key payload) :
    (∃ e ∈ a, x.key = e.key ∧ x.payload = e.payload) ∨ (x.key = key ∧ x.payload = payload) := by
  induction a with
  | nil =>
    simp only [Arena.ref, List.mem_cons, List.not_mem_nil, or_false] at h
    subst h; exact Or.inr ⟨rfl, rfl⟩
  | cons e es ih =>
    simp only [Arena.ref] at h
    split at h
    · rcases List.mem_cons.1 h with rfl | h
      · exact Or.inl ⟨e, by simp, rfl, rfl⟩
      · exact Or.inl ⟨x, by simp [h], rfl, rfl⟩
    · rcases List.mem_cons.1 h with rfl | h
      · exact Or.inl ⟨x, by simp, rfl, rfl⟩
      · rcases ih h with ⟨e', he', hk⟩ | hk
        · exact Or.inl ⟨e', by simp [he'], hk⟩
        · exact Or.inr hk

theorem Arena.mem_unref {a : Arena} {key : Bytes} {x : Entry} (h : x ∈ a.unref key) :
    ∃ e ∈ a, x.key = e.key ∧ x.payload = e.payload := by
  induction a with
  | nil => simp [Arena.unref] at h
  | cons e es ih =>
    simp only [Arena.unref] at h
    split at h
    · split at h
      · exact ⟨x, by simp [h], rfl, rfl⟩
      · rcases List.mem_cons.1 h with rfl | h
        · exact ⟨e, by simp, rfl, rfl⟩
        · exact ⟨x, by simp [h], rfl, rfl⟩
    · rcases List.mem_cons.1 h with rfl | h
      · exact ⟨x, by simp, rfl, rfl⟩
      · obtain ⟨e', he', hk⟩ := ih h
        exact ⟨e', by simp [he'], hk⟩

theorem mem_unrefAll {ks : List Bytes} {a : Arena} {x : Entry} (h : x ∈ unrefAll a ks) :
    ∃ e ∈ a, x.key = e.key ∧ x.payload = e.payload := by
  induction ks generalizing a with
  | nil => exact ⟨x, h, rfl, rfl⟩
  | cons k ks ih =>
    simp only [unrefAll, List.foldl_cons] at h
    obtain ⟨e, he, hk⟩ := ih (a := a.unref k) h
    obtain ⟨e', he', hk'⟩ := Arena.mem_unref he
    exact ⟨e', he', hk.1.trans hk'.1, hk.2.trans hk'.2⟩

theorem Arena.lookup_mem {a : Arena} {key : Bytes} {e : Entry} (h : a.lookup key = some e) :
    e ∈ a ∧ e.key = key := by
  unfold Arena.lookup at h
  exact ⟨List.mem_of_find?_eq_some h, by simpa using List.find?_some h⟩

/-! ### facts about the generated tables used by the invariants -/

theorem ctCases_supported :
    ∀ c ∈ Gen.Fetch.ctCases, Kind.ofName c.2.2 = .gzip ∨ Kind.ofName c.2.2 = .zstd ∨ Kind.ofName c.2.2 = .none := by
  decide

theorem wantKind_supported {ct : String} {k : Kind} (h : wantKind ct = some k) :
    k = .gzip ∨ k = .zstd ∨ k = .none := by
  unfold wantKind at h
  cases hf : Gen.Fetch.ctCases.find? (caseMatches · ct) with
  | none => simp [hf] at h
  | some c =>
    simp only [hf, Option.map_some, Option.some.injEq] at h
    subst h
    exact ctCases_supported c (List.mem_of_find?_eq_some hf)

/-! ### what may be shown to scanners -/

/-- `payload` is the decompression, by the decoder the magic selects (gzip,
    zstd or none), of bytes that hash to the digest `key` names. -/
def Verified (P : Params) (key payload : Bytes) : Prop :=
  ∃ dg body k, digestParse key = some dg ∧ P.hash dg.algo body = dg.checksum ∧
    detect body .eof = some k ∧ (k = .gzip ∨ k = .zstd ∨ k = .none) ∧
    decompress P k body .eof = some payload

def ArenaInv (P : Params) (a : Arena) : Prop := ∀ e ∈ a, Verified P e.key e.payload

theorem accept_verified {P : Params} {arena : Arena} {key uri : Bytes} {r : Resp} {payload : Bytes}
    (h : Accept P true arena key uri r r.body payload) : Verified P key payload := by
  obtain ⟨dg, k, ct, hd, hk, _, hw, hsp, hh⟩ := h.rest
  have hdec := (spool_some hsp).1
  have ht := h.drained rfl
  rw [ht] at hk hdec
  exact ⟨dg, r.body, k, hd, hh, hk, wantKind_supported hw, hdec⟩

theorem fetchUnlinked_out_verified {P : Params} {a : Arena} {key uri : Bytes} {r : Resp} {payload : Bytes}
    (hinv : ArenaInv P a) (h : (fetchUnlinked P a key uri r).out = some payload) : Verified P key payload := by
  rcases (out_some_iff P true a key uri r r.body payload).1 h with ⟨_, _, _, e, he, rfl⟩ | ha
  · obtain ⟨hm, hk⟩ := Arena.lookup_mem he
    have := hinv e hm
    rwa [hk] at this
  · exact accept_verified ha

theorem initLayer_tar {P : Params} {mt : String} {payload p : Bytes} (h : initLayer P mt payload = some (.tar p)) :
    p = payload := by
  unfold initLayer at h
  split at h
  · split at h
    · simp only [Option.some.injEq, View.tar.injEq] at h; exact h.symm
    · cases h
  · split at h <;> simp at h

theorem ArenaInv.ref {P : Params} {a : Arena} {key payload : Bytes} (hinv : ArenaInv P a)
    (hv : Verified P key payload) : ArenaInv P (a.ref key payload) := by
  intro x hx
  rcases Arena.mem_ref hx with ⟨e, he, hk, hp⟩ | ⟨hk, hp⟩
  · rw [hk, hp]; exact hinv e he
  · rw [hk, hp]; exact hv

theorem ArenaInv.unref {P : Params} {a : Arena} {key : Bytes} (hinv : ArenaInv P a) : ArenaInv P (a.unref key) := by
  intro x hx
  obtain ⟨e, he, hk, hp⟩ := Arena.mem_unref hx
  rw [hk, hp]; exact hinv e he

theorem ArenaInv.unrefAll {P : Params} {a : Arena} {ks : List Bytes} (hinv : ArenaInv P a) : ArenaInv P (unrefAll a ks) := by
  intro x hx
  obtain ⟨e, he, hk, hp⟩ := mem_unrefAll hx
  rw [hk, hp]; exact hinv e he

/-- One layer: the arena stays verified and a tar view shows verified bytes. -/
theorem fetchInto_inv {P : Params} {a : Arena} (rq : Req) (hinv : ArenaInv P a) :
    ArenaInv P (fetchInto P a rq).1 ∧ ∀ p, (fetchInto P a rq).2 = some (.tar p) → Verified P rq.key p := by
  unfold fetchInto
  cases ho : (fetchUnlinked P a rq.key rq.uri rq.resp).out with
  | none => exact ⟨hinv, by simp⟩
  | some payload =>
    have hv := fetchUnlinked_out_verified hinv ho
    simp only []
    cases hi : initLayer P rq.mt payload with
    | none => exact ⟨(hinv.ref hv).unref, by simp⟩
    | some v =>
      refine ⟨hinv.ref hv, ?_⟩
      intro p hp
      simp only [Option.some.injEq] at hp
      subst hp
      rw [initLayer_tar hi]; exact hv

/-- The views of a call that succeeded, layer by layer. -/
theorem realizeLoop_inv {P : Params} (reqs : List Req) : ∀ (a : Arena), ArenaInv P a →
    ArenaInv P (realizeLoop P a reqs).1 ∧
    ((realizeLoop P a reqs).2.2.2 = true →
      (realizeLoop P a reqs).2.2.1.length = reqs.length ∧
      ∀ rv ∈ reqs.zip (realizeLoop P a reqs).2.2.1, ∀ p, rv.2 = .tar p → Verified P rv.1.key p) := by
  induction reqs with
  | nil => intro a h; exact ⟨h, fun _ => ⟨rfl, by simp [realizeLoop]⟩⟩
  | cons rq rest ih =>
    intro a hinv
    have h1 := fetchInto_inv rq hinv
    simp only [realizeLoop]
    cases hf : fetchInto P a rq with
    | mk a' ov =>
      rw [hf] at h1
      cases ov with
      | none => exact ⟨h1.1, by simp⟩
      | some v =>
        have h2 := ih a' h1.1
        simp only []
        cases hl : realizeLoop P a' rest with
        | mk a'' r1 =>
          obtain ⟨ks, vs, ok⟩ := r1
          rw [hl] at h2
          refine ⟨h2.1, ?_⟩
          intro hok
          obtain ⟨hlen, hall⟩ := h2.2 hok
          refine ⟨by simp at hlen ⊢; exact hlen, ?_⟩
          intro rv hrv p hp
          simp only [List.zip_cons_cons, List.mem_cons] at hrv
          rcases hrv with rfl | hrv
          · exact h1.2 p (by simpa using congrArg some hp)
          · exact hall rv hrv p hp

/-- Every step of the arena machine keeps the arena verified. -/
theorem step_inv (P : Params) (s : State) (op : Op) (h : ArenaInv P s.arena) : ArenaInv P (step P s op).1.arena := by
  cases op with
  | realize id reqs hold =>
    have hl := (realizeLoop_inv (P := P) reqs s.arena h).1
    simp only [step]
    cases hr : realizeLoop P s.arena reqs with
    | mk a r1 =>
      obtain ⟨ks, vs, ok⟩ := r1
      rw [hr] at hl
      cases ok with
      | false => exact hl.unrefAll
      | true =>
        simp only []
        split
        · exact hl
        · exact hl.unrefAll
  | close id =>
    simp only [step]
    split
    · exact h
    · exact h.unrefAll

/-! ### rejections -/

theorem not_accept_rejects {P : Params} {drain : Bool} {arena : Arena} {key uri : Bytes} {r : Resp} {hashed : Bytes}
    (hmiss : arena.lookup key = none) (h : ∀ payload, ¬Accept P drain arena key uri r hashed payload) :
    (fetchCoreH P drain arena key uri r hashed).out = none ∧
      ∀ k p, .publish k p ∉ (fetchCoreH P drain arena key uri r hashed).effs := by
  constructor
  · cases ho : (fetchCoreH P drain arena key uri r hashed).out with
    | none => rfl
    | some p =>
      rcases (out_some_iff _ _ _ _ _ _ _ _).1 ho with ⟨_, _, _, e, he, _⟩ | ha
      · rw [hmiss] at he; cases he
      · exact absurd ha (h p)
  · intro k p hp
    exact h p ((publish_iff _ _ _ _ _ _ _ _ _).1 hp).2

/-- Failures that come before the arena is consulted. -/
theorem invalid_rejects {P : Params} {drain : Bool} {arena : Arena} {key uri : Bytes} {r : Resp} {hashed : Bytes}
    (h : uri = [] ∨ digestParse key = none ∨ P.uriOK uri = false) :
    (fetchCoreH P drain arena key uri r hashed) = ⟨[], none⟩ := by
  unfold fetchCoreH
  rcases h with h | h | h
  · simp [h]
  · simp [h]
  · split
    · rfl
    · split
      · rfl
      · simp [h]

/-! ### digest strings -/

theorem digestParse_sound {t : Bytes} {d : Digest} (h : digestParse t = some d) :
    (d.algo = sha256 ∧ d.checksum.length = 32) ∨ (d.algo = sha512 ∧ d.checksum.length = 64) := by
  unfold digestParse at h
  split at h
  · cases h
  · split at h
    · cases h
    · split at h
      · cases h
      · rename_i algo hx _ b _ _ sz hsz
        split at h
        · rename_i hl
          simp only [Option.some.injEq] at h
          subst h
          unfold digestSize at hsz
          split at hsz
          · rename_i ha; simp only [Option.some.injEq] at hsz; subst hsz; exact Or.inl ⟨ha, hl⟩
          · split at hsz
            · rename_i ha; simp only [Option.some.injEq] at hsz; subst hsz; exact Or.inr ⟨ha, hl⟩
            · cases hsz
        · cases h

end ClairModel.Fetch
