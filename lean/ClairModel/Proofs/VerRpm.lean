/-
  go-rpm-version's comparison is a total preorder: it is the lexicographic
  comparison of (epoch, segments of version ++ [END], segments of release ++ [END])
  with segment order  ~ < END < letters < digits.
-/
import ClairModel.Lib.OrderC03
import ClairModel.Model.VerRpm

namespace ClairModel.VerRpm
open ClairModel.Order ClairModel.OrderC03 ClairModel.VerCommon

/-- Sort key of a segment, `none` being the end of the list. -/
def segKey : Option Seg → Nat × (Nat × Str)
  | some .tilde => (0, (0, []))
  | none => (1, (0, []))
  | some (.alpha s) => (2, (0, s))
  | some (.num s) => (3, ((trimZeros s).length, trimZeros s))

def keyOrd : Nat × (Nat × Str) → Nat × (Nat × Str) → Ordering :=
  prodCmp natCmp (prodCmp natCmp strCmp)

theorem keyOrd_totalPre : TotalPre keyOrd :=
  prodCmp_totalPre natCmp_totalPre (prodCmp_totalPre natCmp_totalPre strCmp_totalPre)

/-- Segments and the end marker, compared. -/
def optCmp : Option Seg → Option Seg → Ordering := keyCmp keyOrd segKey

theorem optCmp_totalPre : TotalPre optCmp := keyCmp_totalPre keyOrd_totalPre segKey

theorem strCmp_refl (s : Str) : strCmp s s = .eq := strCmp_totalPre.refl s

theorem segStep_eq_optCmp (a b : Seg) : segStep a b = optCmp (some a) (some b) := by
  cases a <;> cases b <;> first
    | rfl
    | simp [segStep, optCmp, keyCmp, keyOrd, prodCmp, segKey, natCmp, Ordering.then, strCmp_refl]

theorem optCmp_none_some (b : Seg) :
    optCmp none (some b) = if b = .tilde then .gt else .lt := by
  cases b <;> simp [optCmp, keyCmp, keyOrd, prodCmp, segKey, natCmp, Ordering.then]

theorem optCmp_some_none (a : Seg) :
    optCmp (some a) none = if a = .tilde then .lt else .gt := by
  cases a <;> simp [optCmp, keyCmp, keyOrd, prodCmp, segKey, natCmp, Ordering.then]

theorem optCmp_none_none : optCmp none none = .eq := optCmp_totalPre.refl none

/-- The key of a version / release string: its segments followed by END. -/
def segsKey (s : Str) : List (Option Seg) := (segments s).map some ++ [none]

theorem then_of_ne_eq {x y : Ordering} (h : x ≠ .eq) : x.then y = x := by
  cases x <;> simp_all [Ordering.then]

theorem segLoop_eq_lex : ∀ as bs : List Seg,
    segLoop as bs = lexCmp optCmp (as.map some ++ [none]) (bs.map some ++ [none])
  | [], [] => by simp [segLoop, lexCmp, optCmp_none_none, Ordering.then]
  | a :: as, [] => by
    have h : optCmp (some a) none ≠ .eq := by rw [optCmp_some_none]; split <;> simp
    simp only [segLoop, List.map_cons, List.cons_append, List.map_nil, List.nil_append, lexCmp]
    rw [then_of_ne_eq h, optCmp_some_none]
  | [], b :: bs => by
    have h : optCmp none (some b) ≠ .eq := by rw [optCmp_none_some]; split <;> simp
    simp only [segLoop, List.map_cons, List.cons_append, List.map_nil, List.nil_append, lexCmp]
    rw [then_of_ne_eq h, optCmp_none_some]
  | a :: as, b :: bs => by
    simp only [segLoop, List.map_cons, List.cons_append, lexCmp, segStep_eq_optCmp, segLoop_eq_lex as bs]

/-- The order on version / release strings. -/
def verOrd : Str → Str → Ordering := keyCmp (lexCmp optCmp) segsKey

theorem verOrd_totalPre : TotalPre verOrd := keyCmp_totalPre (lexCmp_totalPre optCmp_totalPre) segsKey

theorem rpmvercmp_eq_verOrd (a b : Str) : rpmvercmp a b = verOrd a b := by
  unfold rpmvercmp
  split
  · next h => subst h; exact (verOrd_totalPre.refl a).symm
  · simp [verOrd, keyCmp, segsKey, segLoop_eq_lex]

/-- The order on parsed versions. -/
def evrOrd : Version → Version → Ordering :=
  keyCmp (prodCmp intCmp (prodCmp verOrd verOrd)) (fun v => (v.epoch, (v.version, v.release)))

theorem evrOrd_totalPre : TotalPre evrOrd :=
  keyCmp_totalPre (prodCmp_totalPre intCmp_totalPre (prodCmp_totalPre verOrd_totalPre verOrd_totalPre)) _

theorem compare_eq_evrOrd (v1 v2 : Version) : compare v1 v2 = evrOrd v1 v2 := by
  unfold compare
  split
  · next h => subst h; exact (evrOrd_totalPre.refl v1).symm
  · simp only [evrOrd, keyCmp, prodCmp, rpmvercmp_eq_verOrd]
    by_cases h₁ : v1.epoch > v2.epoch
    · have : intCmp v1.epoch v2.epoch = .gt := intCmp_gt.2 h₁
      simp [h₁, this, Ordering.then]
    · by_cases h₂ : v1.epoch < v2.epoch
      · have : intCmp v1.epoch v2.epoch = .lt := intCmp_lt.2 h₂
        simp [h₁, h₂, this, Ordering.then]
      · have : intCmp v1.epoch v2.epoch = .eq := intCmp_eq.2 (by omega)
        simp only [h₁, h₂, if_false, this, Ordering.then]
        cases verOrd v1.version v2.version <;> rfl

theorem compare_totalPre : TotalPre compare := by
  have : compare = evrOrd := by funext a b; exact compare_eq_evrOrd a b
  rw [this]; exact evrOrd_totalPre

theorem cmpStr_totalPre : TotalPre cmpStr := keyCmp_totalPre compare_totalPre newVersion

end ClairModel.VerRpm
