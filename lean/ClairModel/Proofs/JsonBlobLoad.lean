/-
  What `Loader.Next` yields on an ARBITRARY file (Model/JsonBlob.lean: `loop`,
  `Loader.step`, `drain`, `loadAll`), stated without the loader's registers:

    * the lines up to the first one the loop cannot digest (`goodPrefix`,
      `stopOf`) are cut into maximal runs of consecutive lines carrying the
      same ref (`runs`);
    * each run becomes one entry: updater and fingerprint of the run's first
      line, the vulnerability payloads of the run in order, the enrichment
      payloads of the run in order (`entryOfRun`);
    * how the iteration ends depends on what stopped it (`finish`).

  `loadSpec` is that description; `loadAll_eq_spec` proves it is what the
  model of the loader computes, for every file.
-/
import ClairModel.Proofs.JsonBlob

namespace ClairModel.JsonBlob

/-! ### The declarative description -/

/-- A line the loop body runs through: the `diskEntry` decodes and its payload
    (if its Kind has a case in the switch) unmarshals. -/
def Body.good : Body → Bool
  | .vuln _ => true
  | .enrich _ => true
  | .other => true
  | .bad => false
  | .garbage => false

def Body.vuln? : Body → Option Rec
  | .vuln r => some r
  | _ => none

def Body.enrich? : Body → Option Rec
  | .enrich r => some r
  | _ => none

/-- A vulnerability or enrichment payload (what gets appended to `l.next`). -/
def Body.isRec : Body → Bool
  | .vuln _ => true
  | .enrich _ => true
  | _ => false

/-- The lines before the first one that stops the loop. -/
def goodPrefix (ls : List Line) : List Line := ls.takeWhile (·.body.good)

/-- What stopped the loop. -/
inductive Stop where
  | eof       -- the file ended
  | garbage   -- a line that is not a `diskEntry` (`dec.Decode` fails)
  | bad       -- a payload that does not unmarshal
deriving DecidableEq, Repr

def stopOf (ls : List Line) : Stop :=
  match ls.dropWhile (·.body.good) with
  | [] => .eof
  | ln :: _ => if ln.body = .garbage then .garbage else .bad

theorem length_dropWhile_le' {α : Type} (p : α → Bool) (l : List α) : (l.dropWhile p).length ≤ l.length := by
  induction l with
  | nil => simp
  | cons a l ih =>
    rw [List.dropWhile_cons]
    split
    · simp only [List.length_cons]; omega
    · simp

theorem dropWhile_head_false {α : Type} (p : α → Bool) (l : List α) (x : α) (xs : List α)
    (h : l.dropWhile p = x :: xs) : p x = false := by
  induction l with
  | nil => simp at h
  | cons a l ih =>
    rw [List.dropWhile_cons] at h
    split at h
    · exact ih h
    · rename_i hp
      cases h
      simpa using hp

theorem takeWhile_all {α : Type} (p : α → Bool) (l : List α) : ∀ x ∈ l.takeWhile p, p x = true := by
  induction l with
  | nil => intro x hx; simp at hx
  | cons a l ih =>
    intro x hx
    rw [List.takeWhile_cons] at hx
    split at hx
    · rename_i hp
      rcases List.mem_cons.1 hx with rfl | hx
      · exact hp
      · exact ih x hx
    · simp at hx

/-- Maximal runs of consecutive lines with the same ref. -/
def runs : List Line → List (List Line)
  | [] => []
  | ln :: rest => (ln :: rest.takeWhile (·.ref == ln.ref)) :: runs (rest.dropWhile (·.ref == ln.ref))
termination_by ls => ls.length
decreasing_by
  simp only [List.length_cons]
  have := length_dropWhile_le' (fun (x : Line) => x.ref == ln.ref) rest
  omega

/-- The `Entry` assembled from one run. -/
def entryOfRun : List Line → Option LEntry
  | [] => none
  | f :: rest =>
    some { updater := f.updater, fp := f.fp,
           vuln := (f :: rest).filterMap (·.body.vuln?),
           enrich := (f :: rest).filterMap (·.body.enrich?) }

/-- How the iteration over the entries `es` (one per run) ends.
    * end of file: every entry is reported, `Err()` is nil;
    * a line that does not decode: every entry is reported — the one being
      assembled too, as if it were complete — then `Err()` is the error;
    * a payload that does not unmarshal: `Next` returns false at once; the last
      entry (being assembled, or just completed by this very line) is NOT
      reported; `Err()` is the error. -/
def finish (es : List LEntry) : Stop → List (Option LEntry) × Fin
  | .eof => (es.map some, .ok)
  | .garbage => (es.map some, .err)
  | .bad => (es.dropLast.map some, .err)

/-- Leading lines with ref uuid.Nil and a Kind the switch ignores leave every
    register as it was (`id != l.cur` is false, nothing is appended). -/
def skipped (l : Line) : Bool := l.ref == 0 && l.body == .other

/-- What `for l.Next() { l.Entry() }; l.Err()` yields on the file `ls`. -/
def loadSpec (ls : List Line) : List (Option LEntry) × Fin :=
  match ls.dropWhile skipped with
  | [] => ([], .ok)
  | ln :: rest =>
    if ln.ref = 0 ∧ ln.body.isRec = true then
      -- `l.next` is still nil when the payload is appended: nil pointer dereference
      ([], .panic)
    else finish ((runs (goodPrefix (ln :: rest))).filterMap entryOfRun) (stopOf (ln :: rest))

/-! ### `runs` really is "maximal runs of equal ref" -/

theorem runs_nil : runs [] = [] := by rw [runs]

theorem runs_cons (ln : Line) (rest : List Line) :
    runs (ln :: rest) =
      (ln :: rest.takeWhile (·.ref == ln.ref)) :: runs (rest.dropWhile (·.ref == ln.ref)) := by
  rw [runs]

/-- Nothing is dropped or reordered. -/
theorem runs_flatten (ls : List Line) : (runs ls).flatten = ls := by
  generalize hn : ls.length = n
  induction n using Nat.strongRecOn generalizing ls with
  | _ n ih =>
    cases ls with
    | nil => simp [runs_nil]
    | cons ln rest =>
      rw [runs_cons, List.flatten_cons]
      have hle := length_dropWhile_le' (fun (x : Line) => x.ref == ln.ref) rest
      rw [ih (rest.dropWhile (·.ref == ln.ref)).length (by simp at hn; omega) _ rfl]
      simp [List.takeWhile_append_dropWhile]

/-- Every run is non-empty and all its lines carry the ref of its first line. -/
theorem runs_uniform (ls : List Line) :
    ∀ r ∈ runs ls, ∃ f tl, r = f :: tl ∧ ∀ l ∈ tl, l.ref = f.ref := by
  generalize hn : ls.length = n
  induction n using Nat.strongRecOn generalizing ls with
  | _ n ih =>
    cases ls with
    | nil => intro r hr; simp [runs_nil] at hr
    | cons ln rest =>
      intro r hr
      rw [runs_cons] at hr
      have hle := length_dropWhile_le' (fun (x : Line) => x.ref == ln.ref) rest
      rcases List.mem_cons.1 hr with rfl | hr
      · refine ⟨ln, _, rfl, ?_⟩
        intro l hl
        have := takeWhile_all _ _ l hl
        simpa using this
      · exact ih (rest.dropWhile (·.ref == ln.ref)).length (by simp at hn; omega) _ rfl r hr

/-- A run ends only where the ref changes: the line after a run (the first line
    of the next run) has a different ref. -/
theorem runs_maximal (ls : List Line) :
    ∀ (pre : List (List Line)) (a b : List Line) (post : List (List Line)),
      runs ls = pre ++ a :: b :: post → a.head?.map (·.ref) ≠ b.head?.map (·.ref) := by
  generalize hn : ls.length = n
  induction n using Nat.strongRecOn generalizing ls with
  | _ n ih =>
    cases ls with
    | nil => intro pre a b post h; simp [runs_nil] at h
    | cons ln rest =>
      intro pre a b post h
      rw [runs_cons] at h
      have hle := length_dropWhile_le' (fun (x : Line) => x.ref == ln.ref) rest
      cases pre with
      | nil =>
        simp only [List.nil_append, List.cons.injEq] at h
        obtain ⟨ha, hb⟩ := h
        subst ha
        -- b is the first run of the rest, which starts with a line of another ref
        cases hd : rest.dropWhile (·.ref == ln.ref) with
        | nil => rw [hd, runs_nil] at hb; cases hb
        | cons x xs =>
          rw [hd, runs_cons] at hb
          simp only [List.cons.injEq] at hb
          obtain ⟨hb, _⟩ := hb
          subst hb
          have hx : ¬ ((x.ref == ln.ref) = true) := by
            have := dropWhile_head_false (fun (y : Line) => y.ref == ln.ref) rest x xs hd
            simp [this]
          simp only [List.head?_cons, Option.map_some, ne_eq, Option.some.injEq]
          intro heq
          exact hx (by simp [heq])
      | cons p pre =>
        simp only [List.cons_append, List.cons.injEq] at h
        exact ih (rest.dropWhile (·.ref == ln.ref)).length (by simp at hn; omega) _ rfl pre a b post h.2

/-! ### The loader's registers against the description -/

/-- `l.next` after one more good line of the current run. -/
def LEntry.addLine (p : LEntry) (ln : Line) : LEntry :=
  match ln.body with
  | .vuln r => p.addVuln r
  | .enrich r => p.addEnrich r
  | _ => p

def LEntry.addLines (p : LEntry) (ls : List Line) : LEntry := ls.foldl LEntry.addLine p

theorem addLines_cons (p : LEntry) (ln : Line) (ls : List Line) :
    p.addLines (ln :: ls) = (p.addLine ln).addLines ls := rfl

theorem addLines_fields (ls : List Line) : ∀ (p : LEntry),
    (p.addLines ls).updater = p.updater ∧ (p.addLines ls).fp = p.fp ∧
    (p.addLines ls).vuln = p.vuln ++ ls.filterMap (·.body.vuln?) ∧
    (p.addLines ls).enrich = p.enrich ++ ls.filterMap (·.body.enrich?) := by
  induction ls with
  | nil => intro p; simp [LEntry.addLines]
  | cons ln ls ih =>
    intro p
    rw [addLines_cons]
    obtain ⟨h1, h2, h3, h4⟩ := ih (p.addLine ln)
    rw [h1, h2, h3, h4]
    cases hb : ln.body <;>
      simp [LEntry.addLine, hb, LEntry.addVuln, LEntry.addEnrich, Body.vuln?, Body.enrich?]

/-- The entry of a run is what the registers hold after its lines. -/
theorem entryOfRun_eq (ln : Line) (tl : List Line) :
    entryOfRun (ln :: tl) = some ((LEntry.new ln).addLines (ln :: tl)) := by
  obtain ⟨h1, h2, h3, h4⟩ := addLines_fields (ln :: tl) (LEntry.new ln)
  simp only [entryOfRun, Option.some.injEq]
  generalize (LEntry.new ln).addLines (ln :: tl) = q at h1 h2 h3 h4
  cases q
  simp only [LEntry.new] at h1 h2 h3 h4
  simp only [List.nil_append] at h3 h4
  simp_all

/-- A good line of the current run is appended to `l.next`; the loop goes on. -/
theorem loop_good_same (e0 : Option LEntry) (p : LEntry) (cur : Nat) (ln : Line) (rest : List Line)
    (hg : ln.body.good = true) (hr : ln.ref = cur) :
    loop e0 (some p) cur (ln :: rest) = loop e0 (some (p.addLine ln)) cur rest := by
  rw [loop]
  have hb : (ln.ref != cur) = false := by simp [hr]
  cases hbody : ln.body <;> simp_all [Body.good, LEntry.addLine]

/-- A good line of another ref: the entry assembled so far is reported. -/
theorem loop_good_new (e0 : Option LEntry) (p : LEntry) (cur : Nat) (ln : Line) (rest : List Line)
    (hg : ln.body.good = true) (hr : ln.ref ≠ cur) :
    loop e0 (some p) cur (ln :: rest) =
      (Loader.mid (some p) ((LEntry.new ln).addLine ln) ln.ref rest, .yes) := by
  rw [loop]
  have hb : (ln.ref != cur) = true := by simp [hr]
  cases hbody : ln.body <;> simp_all [Body.good, LEntry.addLine, Loader.mid]

theorem finish_cons (p : LEntry) (x : LEntry) (xs : List LEntry) (st : Stop) :
    finish (p :: x :: xs) st = (some p :: (finish (x :: xs) st).1, (finish (x :: xs) st).2) := by
  cases st <;> simp [finish, List.dropLast]

/-- From inside a run (`l.next` = `p`, `l.cur` = `cur`), on ANY rest of file. -/
theorem drain_mid_any (ls : List Line) :
    ∀ (fuel : Nat) (e0 : Option LEntry) (p : LEntry) (cur : Nat), ls.length + 2 ≤ fuel →
      drain fuel (Loader.mid e0 p cur ls) =
        finish (p.addLines ((goodPrefix ls).takeWhile (·.ref == cur)) ::
                (runs ((goodPrefix ls).dropWhile (·.ref == cur))).filterMap entryOfRun) (stopOf ls) := by
  induction ls with
  | nil =>
    intro fuel e0 p cur hf
    obtain ⟨f, rfl⟩ : ∃ f, fuel = f + 2 := ⟨fuel - 2, by simp at hf; omega⟩
    have h1 : (Loader.mid e0 p cur []).step =
        ({ err := .eof, e := some p, next := some p, cur := cur, rest := [] }, .yes) := by
      rw [step_mid]; exact loop_end e0 p cur
    rw [drain, h1]
    simp only
    rw [drain]
    simp [Loader.step, LErr.fin, goodPrefix, stopOf, runs_nil, finish, LEntry.addLines]
  | cons ln rest ih =>
    intro fuel e0 p cur hf
    by_cases hg : ln.body.good = true
    · by_cases hr : ln.ref = cur
      · -- the run goes on
        have hstep : (Loader.mid e0 p cur (ln :: rest)).step = (Loader.mid e0 (p.addLine ln) cur rest).step := by
          rw [step_mid, step_mid, loop_good_same e0 p cur ln rest hg hr]
        rw [drain_congr _ _ _ hstep, ih fuel e0 (p.addLine ln) cur (by simp at hf ⊢; omega)]
        have hb : (ln.ref == cur) = true := by simp [hr]
        simp [goodPrefix, stopOf, hg, hb, addLines_cons]
      · -- a new run starts: `p` is reported
        obtain ⟨f, rfl⟩ : ∃ f, fuel = f + 1 := ⟨fuel - 1, by simp at hf; omega⟩
        have hstep : (Loader.mid e0 p cur (ln :: rest)).step =
            (Loader.mid (some p) ((LEntry.new ln).addLine ln) ln.ref rest, .yes) := by
          rw [step_mid, loop_good_new e0 p cur ln rest hg hr]
        rw [drain, hstep]
        simp only
        rw [ih f (some p) ((LEntry.new ln).addLine ln) ln.ref (by simp at hf ⊢; omega)]
        have hb : (ln.ref == cur) = false := by simp [hr]
        have hgp : goodPrefix (ln :: rest) = ln :: goodPrefix rest := by simp [goodPrefix, hg]
        have hst : stopOf (ln :: rest) = stopOf rest := by simp [stopOf, hg]
        rw [hgp, hst, List.takeWhile_cons, List.dropWhile_cons, hb]
        simp only [Bool.false_eq_true, if_false]
        rw [runs_cons, List.filterMap_cons, entryOfRun_eq]
        simp only [LEntry.addLines, List.foldl_nil]
        rw [finish_cons]
        simp [Loader.mid, List.foldl_cons]
    · -- the loop stops at `ln`
      have hgp : goodPrefix (ln :: rest) = [] := by simp [goodPrefix, hg]
      obtain ⟨f, rfl⟩ : ∃ f, fuel = f + 2 := ⟨fuel - 2, by simp at hf; omega⟩
      by_cases hgar : ln.body = .garbage
      · have hst : stopOf (ln :: rest) = .garbage := by simp [stopOf, hgar, Body.good]
        have h1 : (Loader.mid e0 p cur (ln :: rest)).step =
            ({ err := .decode, e := some p, next := some p, cur := cur, rest := rest }, .yes) := by
          rw [step_mid, loop]; simp [hgar, boolOut]
        rw [drain, h1]
        simp only
        rw [drain, hgp, hst]
        simp [Loader.step, LErr.fin, runs_nil, finish, LEntry.addLines]
      · have hbad : ln.body = .bad := by
          cases hb : ln.body <;> simp_all [Body.good]
        have hst : stopOf (ln :: rest) = .bad := by simp [stopOf, hbad, Body.good]
        have h1 : ((Loader.mid e0 p cur (ln :: rest)).step).2 = .no ∧
            ((Loader.mid e0 p cur (ln :: rest)).step).1.err = .unmarshal := by
          rw [step_mid, loop]; simp [hbad]
        rw [drain]
        revert h1
        generalize (Loader.mid e0 p cur (ln :: rest)).step = st
        obtain ⟨l', o⟩ := st
        rintro ⟨ho, he⟩
        simp only at ho he
        subst ho
        simp only [he, hgp, hst]
        simp [LErr.fin, runs_nil, finish, LEntry.addLines]

/-- Leading lines with a Nil ref and an ignored Kind change nothing. -/
theorem loop_skip (ln : Line) (rest : List Line) (h : skipped ln = true) :
    loop none none 0 (ln :: rest) = loop none none 0 rest := by
  simp only [skipped, Bool.and_eq_true, beq_iff_eq] at h
  rw [loop]
  simp [h.1, h.2]

theorem drain_init_any (ls : List Line) :
    ∀ (fuel : Nat), ls.length + 2 ≤ fuel → drain fuel (Loader.init ls) = loadSpec ls := by
  induction ls with
  | nil =>
    intro fuel hf
    obtain ⟨f, rfl⟩ : ∃ f, fuel = f + 1 := ⟨fuel - 1, by simp at hf; omega⟩
    simp [drain, Loader.step, Loader.init, loop, boolOut, LErr.fin, loadSpec]
  | cons ln rest ih =>
    intro fuel hf
    by_cases hs : skipped ln = true
    · have hstep : (Loader.init (ln :: rest)).step = (Loader.init rest).step := by
        simp only [Loader.step, Loader.init, ne_eq, not_true_eq_false, if_false]
        exact loop_skip ln rest hs
      rw [drain_congr _ _ _ hstep, ih fuel (by simp at hf ⊢; omega)]
      simp [loadSpec, hs]
    · have hdw : (ln :: rest).dropWhile skipped = ln :: rest := by simp [hs]
      unfold loadSpec
      rw [hdw]
      simp only
      obtain ⟨f, rfl⟩ : ∃ f, fuel = f + 1 := ⟨fuel - 1, by simp at hf; omega⟩
      have hinit : (Loader.init (ln :: rest)).step = loop none none 0 (ln :: rest) := by
        simp [Loader.step, Loader.init]
      by_cases hg : ln.body.good = true
      · by_cases hr : ln.ref = 0
        · -- Nil ref
          have hrec : ln.body.isRec = true := by
            cases hb : ln.body <;> simp_all [Body.good, Body.isRec, skipped]
          have hp : (loop none none 0 (ln :: rest)).2 = .panic := by
            rw [loop]
            cases hb : ln.body <;> simp_all [Body.isRec]
          rw [drain, hinit]
          revert hp
          generalize loop none none 0 (ln :: rest) = st
          obtain ⟨l', o⟩ := st
          intro ho
          simp only at ho
          subst ho
          simp [hr, hrec]
        · -- the first run starts
          have hstep : (Loader.init (ln :: rest)).step =
              (Loader.mid none ((LEntry.new ln).addLine ln) ln.ref rest).step := by
            rw [hinit, step_mid, loop]
            have hb : (ln.ref != 0) = true := by simp [hr]
            cases hbody : ln.body <;> simp_all [Body.good, LEntry.addLine]
          rw [drain_congr _ _ _ hstep,
            drain_mid_any rest (f + 1) none _ ln.ref (by simp at hf ⊢; omega)]
          have hgp : goodPrefix (ln :: rest) = ln :: goodPrefix rest := by simp [goodPrefix, hg]
          have hst : stopOf (ln :: rest) = stopOf rest := by simp [stopOf, hg]
          simp only [hr, false_and, if_false]
          rw [hgp, hst, runs_cons, List.filterMap_cons, entryOfRun_eq]
          simp [LEntry.addLines, List.foldl_cons]
      · have hgp : goodPrefix (ln :: rest) = [] := by simp [goodPrefix, hg]
        have hnrec : ln.body.isRec = false := by
          cases hb : ln.body <;> simp_all [Body.good, Body.isRec]
        simp only [hnrec, Bool.false_eq_true, and_false, if_false, hgp, runs_nil, List.filterMap_nil]
        by_cases hgar : ln.body = .garbage
        · have hst : stopOf (ln :: rest) = .garbage := by simp [stopOf, hgar, Body.good]
          have h1 : loop none none 0 (ln :: rest) =
              ({ err := .decode, e := none, next := none, cur := 0, rest := rest }, .no) := by
            rw [loop]; simp [hgar, boolOut]
          rw [drain, hinit, h1, hst]
          simp [LErr.fin, finish]
        · have hbad : ln.body = .bad := by
            cases hb : ln.body <;> simp_all [Body.good]
          have hst : stopOf (ln :: rest) = .bad := by simp [stopOf, hbad, Body.good]
          have h1 : (loop none none 0 (ln :: rest)).2 = .no ∧
              (loop none none 0 (ln :: rest)).1.err = .unmarshal := by
            rw [loop]; simp [hbad]
          rw [drain, hinit, hst]
          revert h1
          generalize loop none none 0 (ln :: rest) = st
          obtain ⟨l', o⟩ := st
          rintro ⟨ho, he⟩
          simp only at ho he
          subst ho
          simp [he, LErr.fin, finish]

/-- The loader on any file. -/
theorem loadAll_eq_spec (ls : List Line) : loadAll ls = loadSpec ls :=
  drain_init_any ls _ (Nat.le_refl _)

theorem takeWhile_all_self {α : Type} (p : α → Bool) (l : List α) (h : ∀ x ∈ l, p x = true) :
    l.takeWhile p = l := by
  induction l with
  | nil => rfl
  | cons a l ih =>
    rw [List.takeWhile_cons, h a (by simp)]
    simp [ih (fun x hx => h x (by simp [hx]))]

theorem dropWhile_all_nil {α : Type} (p : α → Bool) (l : List α) (h : ∀ x ∈ l, p x = true) :
    l.dropWhile p = [] := by
  induction l with
  | nil => rfl
  | cons a l ih =>
    rw [List.dropWhile_cons, h a (by simp)]
    simp [ih (fun x hx => h x (by simp [hx]))]

/-- A file of decodable lines whose first ref is not Nil. -/
theorem loadAll_good (ln : Line) (rest : List Line) (hg : ∀ l ∈ ln :: rest, l.body.good = true)
    (h0 : ln.ref ≠ 0) :
    loadAll (ln :: rest) = (((runs (ln :: rest)).filterMap entryOfRun).map some, .ok) := by
  rw [loadAll_eq_spec, loadSpec]
  have hs : skipped ln = false := by simp [skipped, h0]
  have hgp : goodPrefix (ln :: rest) = ln :: rest := takeWhile_all_self _ _ hg
  have hst : stopOf (ln :: rest) = .eof := by
    simp only [stopOf, dropWhile_all_nil (fun (l : Line) => l.body.good) _ hg]
  rw [List.dropWhile_cons]
  simp only [hs, Bool.false_eq_true, if_false, h0, false_and, hgp, hst, finish]

/-- The line a writer that failed in the middle of a `Write` leaves behind. -/
def tornLine : Line := { ref := 0, updater := "", fp := "", body := .garbage }

theorem takeWhile_append_stop {α : Type} (p : α → Bool) (l : List α) (x : α) (h : ∀ y ∈ l, p y = true)
    (hx : p x = false) : (l ++ [x]).takeWhile p = l ∧ (l ++ [x]).dropWhile p = [x] := by
  induction l with
  | nil => simp [hx]
  | cons a l ih =>
    obtain ⟨h1, h2⟩ := ih (fun y hy => h y (by simp [hy]))
    simp [h a (by simp), h1, h2]

/-- A file `Store` could have written (decodable lines, first ref not Nil, or no
    line at all) followed by a torn line: every entry is reported — the last
    one as if it were complete — and the iteration ends with an error. -/
theorem loadAll_torn (ls : List Line) (hg : ∀ l ∈ ls, l.body.good = true)
    (h0 : ∀ ln rest, ls = ln :: rest → ln.ref ≠ 0) :
    loadAll (ls ++ [tornLine]) = (((runs ls).filterMap entryOfRun).map some, .err) := by
  rw [loadAll_eq_spec, loadSpec]
  have hx : tornLine.body.good = false := rfl
  obtain ⟨htw, hdw⟩ := takeWhile_append_stop (fun (l : Line) => l.body.good) ls tornLine hg hx
  cases ls with
  | nil => simp [tornLine, skipped, Body.isRec, goodPrefix, stopOf, Body.good, runs_nil, finish]
  | cons ln rest =>
    have hr := h0 ln rest rfl
    have hs : skipped ln = false := by simp [skipped, hr]
    simp only [List.cons_append, List.dropWhile_cons, hs, Bool.false_eq_true, if_false, hr, false_and]
    have hgp : goodPrefix (ln :: (rest ++ [tornLine])) = ln :: rest := by
      simpa [goodPrefix] using htw
    have hst : stopOf (ln :: (rest ++ [tornLine])) = .garbage := by
      have : (ln :: (rest ++ [tornLine])).dropWhile (·.body.good) = [tornLine] := by simpa using hdw
      unfold stopOf
      rw [this]
      rfl
    rw [hgp, hst, finish]

end ClairModel.JsonBlob
