/-
  go-deb-version: whenever `Compare` returns, it returns the dpkg order, which
  is a total preorder; it fails to return exactly on different spellings of
  dpkg-equal upstream versions / revisions.
-/
import ClairModel.Lib.OrderC03
import ClairModel.Model.VerDeb

namespace ClairModel.VerDeb
open ClairModel.Order ClairModel.OrderC03 ClairModel.VerCommon

/-! ### compareString -/

/-- The order on non-digit strings. -/
def strOrd : Str → Str → Ordering := keyCmp (lexCmpPad intCmp 0) (fun s => s.map order)

theorem strOrd_totalPre : TotalPre strOrd :=
  keyCmp_totalPre (lexCmpPad_totalPre 0 intCmp_totalPre) _

theorem compareString_eq_strOrd (a b : Str) : compareString a b = strOrd a b := by
  unfold compareString
  split
  · next h => subst h; exact (strOrd_totalPre.refl a).symm
  · rfl

theorem isLetter_bounds {c : Char} (h : isLetter c = true) : 65 ≤ c.toNat ∧ c.toNat ≤ 122 := by
  simp only [isLetter, isLower, isUpper, Bool.or_eq_true, Bool.and_eq_true, decide_eq_true_eq] at h
  have h1 : 'a'.toNat = 97 := by decide
  have h2 : 'z'.toNat = 122 := by decide
  have h3 : 'A'.toNat = 65 := by decide
  have h4 : 'Z'.toNat = 90 := by decide
  omega

theorem order_ne_zero (c : Char) : order c ≠ 0 := by
  unfold order
  split
  · next h => have := isLetter_bounds h; omega
  · split <;> omega

theorem order_inj {a b : Char} (h : order a = order b) : a = b := by
  unfold order at h
  by_cases ha : isLetter a = true <;> by_cases hb : isLetter b = true
  · rw [if_pos ha, if_pos hb] at h
    exact Char.toNat_inj.1 (by omega)
  · have := isLetter_bounds ha
    rw [if_pos ha, if_neg hb] at h
    exfalso
    split at h <;> omega
  · have := isLetter_bounds hb
    rw [if_neg ha, if_pos hb] at h
    exfalso
    split at h <;> omega
  · rw [if_neg ha, if_neg hb] at h
    by_cases ta : a = '~' <;> by_cases tb : b = '~'
    · rw [ta, tb]
    · rw [if_pos ta, if_neg tb] at h; exfalso; omega
    · rw [if_neg ta, if_pos tb] at h; exfalso; omega
    · rw [if_neg ta, if_neg tb] at h
      exact Char.toNat_inj.1 (by omega)

theorem cmpPadL_ne_eq {l : List Int} (hl : l ≠ []) (hz : ∀ x ∈ l, x ≠ 0) : cmpPadL intCmp 0 l ≠ .eq := by
  cases l with
  | nil => exact absurd rfl hl
  | cons x xs =>
    have hx : x ≠ 0 := hz x (by simp)
    have : intCmp 0 x ≠ .eq := fun h => hx (intCmp_eq.1 h).symm
    simp only [cmpPadL]
    intro h
    exact this (then_eq_eq.1 h).1

theorem cmpPadR_ne_eq {l : List Int} (hl : l ≠ []) (hz : ∀ x ∈ l, x ≠ 0) : cmpPadR intCmp 0 l ≠ .eq := by
  cases l with
  | nil => exact absurd rfl hl
  | cons x xs =>
    have hx : x ≠ 0 := hz x (by simp)
    have : intCmp x 0 ≠ .eq := fun h => hx (intCmp_eq.1 h)
    simp only [cmpPadR]
    intro h
    exact this (then_eq_eq.1 h).1

theorem lexCmpPad_eq_nonzero : ∀ (l m : List Int), (∀ x ∈ l, x ≠ 0) → (∀ x ∈ m, x ≠ 0) →
    lexCmpPad intCmp 0 l m = .eq → l = m
  | [], [], _, _, _ => rfl
  | [], b :: bs, _, hm, h => by
    rw [lexCmpPad_nil_left] at h
    exact absurd h (cmpPadL_ne_eq (by simp) hm)
  | a :: as, [], hl, _, h => by
    rw [lexCmpPad_nil_right] at h
    exact absurd h (cmpPadR_ne_eq (by simp) hl)
  | a :: as, b :: bs, hl, hm, h => by
    simp only [lexCmpPad] at h
    obtain ⟨h1, h2⟩ := then_eq_eq.1 h
    have := lexCmpPad_eq_nonzero as bs (fun x hx => hl x (by simp [hx])) (fun x hx => hm x (by simp [hx])) h2
    rw [intCmp_eq.1 h1, this]

theorem map_order_inj : ∀ {a b : Str}, a.map order = b.map order → a = b
  | [], [], _ => rfl
  | [], _ :: _, h => by simp at h
  | _ :: _, [], h => by simp at h
  | x :: xs, y :: ys, h => by
    simp only [List.map_cons, List.cons.injEq] at h
    rw [order_inj h.1, map_order_inj h.2]

/-- `compareString` answers 0 only for identical strings: its Go loop, which
    exits only on a difference, always terminates. -/
theorem compareString_eq {a b : Str} : compareString a b = .eq ↔ a = b := by
  constructor
  · intro h
    rw [compareString_eq_strOrd] at h
    apply map_order_inj
    apply lexCmpPad_eq_nonzero _ _ _ _ h
    · intro x hx
      obtain ⟨c, _, rfl⟩ := List.mem_map.1 hx
      exact order_ne_zero c
    · intro x hx
      obtain ⟨c, _, rfl⟩ := List.mem_map.1 hx
      exact order_ne_zero c
  · intro h; subst h; simp [compareString]

/-! ### the comparison loop -/

/-- `strings.get(i)` / `numbers.get(i)` paired up, missing ones defaulted. -/
def zipPad : List Str → List Nat → List (Str × Nat)
  | [], ns => ns.map fun n => ([], n)
  | ss@(_ :: _), [] => ss.map fun s => (s, 0)
  | s :: ss, n :: ns => (s, n) :: zipPad ss ns

def pairCmp : Str × Nat → Str × Nat → Ordering := prodCmp strOrd natCmp
def pairPad : Str × Nat := ([], 0)

theorem pairCmp_totalPre : TotalPre pairCmp := prodCmp_totalPre strOrd_totalPre natCmp_totalPre

theorem hdPad_zipPad (ss : List Str) (ns : List Nat) :
    hdPad pairPad (zipPad ss ns) = (ss.headD [], ns.headD 0) := by
  cases ss <;> cases ns <;> simp [zipPad, hdPad, pairPad]

theorem tail_zipPad (ss : List Str) (ns : List Nat) :
    (zipPad ss ns).tail = zipPad ss.tail ns.tail := by
  cases ss with
  | nil => cases ns <;> simp [zipPad]
  | cons s ss =>
    cases ns with
    | nil => cases ss <;> simp [zipPad]
    | cons n ns => simp [zipPad]

/-- The order the loop computes when it terminates. -/
def loopOrd (s1 s2 : List Str) (n1 n2 : List Nat) : Ordering :=
  lexCmpPad pairCmp pairPad (zipPad s1 n1) (zipPad s2 n2)

theorem loopOrd_unfold (s1 s2 : List Str) (n1 n2 : List Nat) :
    loopOrd s1 s2 n1 n2 =
      ((strOrd (s1.headD []) (s2.headD [])).then (natCmp (n1.headD 0) (n2.headD 0))).then
        (loopOrd s1.tail s2.tail n1.tail n2.tail) := by
  unfold loopOrd
  rw [lexCmpPad_unfold pairPad (pairCmp_totalPre.refl _), hdPad_zipPad, hdPad_zipPad, tail_zipPad, tail_zipPad]
  rfl

theorem cmpLoop_nil : ∀ fuel, cmpLoop fuel [] [] [] [] = none
  | 0 => rfl
  | fuel + 1 => by
    simp [cmpLoop, compareString, natCmp, cmpLoop_nil fuel]

theorem cmpLoop_spec : ∀ (fuel : Nat) (s1 s2 : List Str) (n1 n2 : List Nat),
    s1.length + s2.length + n1.length + n2.length < fuel →
    cmpLoop fuel s1 s2 n1 n2 =
      (if loopOrd s1 s2 n1 n2 = .eq then none else some (loopOrd s1 s2 n1 n2))
  | 0, _, _, _, _, h => by omega
  | fuel + 1, s1, s2, n1, n2, h => by
    rw [loopOrd_unfold]
    simp only [cmpLoop, compareString_eq_strOrd]
    cases hs : strOrd (s1.headD []) (s2.headD []) with
    | lt => simp [Ordering.then]
    | gt => simp [Ordering.then]
    | eq =>
      cases hn : natCmp (n1.headD 0) (n2.headD 0) with
      | lt => simp [Ordering.then]
      | gt => simp [Ordering.then]
      | eq =>
        simp only [Ordering.then]
        by_cases hall : s1 = [] ∧ s2 = [] ∧ n1 = [] ∧ n2 = []
        · obtain ⟨rfl, rfl, rfl, rfl⟩ := hall
          simp [cmpLoop_nil, loopOrd, zipPad, lexCmpPad, cmpPadL]
        · apply cmpLoop_spec fuel
          have : s1.tail.length + s2.tail.length + n1.tail.length + n2.tail.length
              < s1.length + s2.length + n1.length + n2.length := by
            cases s1 <;> cases s2 <;> cases n1 <;> cases n2 <;> simp_all <;> omega
          omega

/-- When all positions agree the loop finds no exit, however long it runs. -/
theorem cmpLoop_none_of_eq : ∀ (fuel : Nat) (s1 s2 : List Str) (n1 n2 : List Nat),
    loopOrd s1 s2 n1 n2 = .eq → cmpLoop fuel s1 s2 n1 n2 = none
  | 0, _, _, _, _, _ => rfl
  | fuel + 1, s1, s2, n1, n2, h => by
    rw [loopOrd_unfold] at h
    obtain ⟨h12, h3⟩ := then_eq_eq.1 h
    obtain ⟨h1, h2⟩ := then_eq_eq.1 h12
    simp only [cmpLoop, compareString_eq_strOrd, h1, h2]
    exact cmpLoop_none_of_eq fuel _ _ _ _ h3

/-! ### the order on upstream versions / revisions -/

def partKey (s : Str) : List (Str × Nat) := zipPad (strings s) (numbers s)

/-- dpkg's order on an upstream version or a revision. -/
def partOrd : Str → Str → Ordering := keyCmp (lexCmpPad pairCmp pairPad) partKey

theorem partOrd_totalPre : TotalPre partOrd := keyCmp_totalPre (lexCmpPad_totalPre pairPad pairCmp_totalPre) _

theorem comparePart_spec (a b : Str) :
    comparePart a b =
      (if a = b then some .eq else if partOrd a b = .eq then none else some (partOrd a b)) := by
  unfold comparePart
  split
  · rfl
  · simp only []
    rw [cmpLoop_spec _ _ _ _ _ (by omega)]
    rfl

/-- `comparePart a b = none` really means that no number of iterations ends the loop. -/
theorem comparePart_none_forever {a b : Str} (h : comparePart a b = none) (fuel : Nat) :
    cmpLoop fuel (strings a) (strings b) (numbers a) (numbers b) = none := by
  rw [comparePart_spec] at h
  split at h
  · simp at h
  · split at h
    · next he => exact cmpLoop_none_of_eq fuel _ _ _ _ he
    · simp at h

theorem comparePart_some {a b : Str} {o : Ordering} (h : comparePart a b = some o) : o = partOrd a b := by
  rw [comparePart_spec] at h
  split at h
  · next e => subst e; simp at h; rw [← h]; exact (partOrd_totalPre.refl a).symm
  · split at h
    · simp at h
    · simp at h; exact h.symm

/-! ### versions -/

/-- dpkg's order on parsed versions. -/
def debOrd : Version → Version → Ordering :=
  keyCmp (prodCmp intCmp (prodCmp partOrd partOrd)) (fun v => (v.epoch, (v.upstream, v.revision)))

theorem debOrd_totalPre : TotalPre debOrd :=
  keyCmp_totalPre (prodCmp_totalPre intCmp_totalPre (prodCmp_totalPre partOrd_totalPre partOrd_totalPre)) _

/-- Whenever `Compare` returns, it returns the dpkg order. -/
theorem compare_some {v1 v2 : Version} {o : Ordering} (h : compare v1 v2 = some o) : o = debOrd v1 v2 := by
  unfold compare at h
  split at h
  · next e => subst e; simp at h; rw [← h]; exact (debOrd_totalPre.refl v1).symm
  · simp only [debOrd, keyCmp, prodCmp]
    by_cases h₁ : v1.epoch > v2.epoch
    · have : intCmp v1.epoch v2.epoch = .gt := intCmp_gt.2 h₁
      simp [h₁] at h
      subst h
      simp [this, Ordering.then]
    · by_cases h₂ : v1.epoch < v2.epoch
      · have : intCmp v1.epoch v2.epoch = .lt := intCmp_lt.2 h₂
        simp [h₁, h₂] at h
        subst h
        simp [this, Ordering.then]
      · have : intCmp v1.epoch v2.epoch = .eq := intCmp_eq.2 (by omega)
        simp only [h₁, h₂, if_false] at h
        simp only [this, Ordering.then]
        cases hu : comparePart v1.upstream v2.upstream with
        | none => simp [hu] at h
        | some r =>
          have hr := comparePart_some hu
          cases r with
          | eq =>
            simp only [hu] at h
            rw [← hr]
            exact comparePart_some h
          | lt => simp [hu] at h; rw [← hr, ← h]
          | gt => simp [hu] at h; rw [← hr, ← h]

/-- `Compare` fails to return exactly when, the epochs being equal, the
    upstream versions (or, these being identical, the revisions) are
    different strings that are equal in dpkg's order. -/
theorem compare_none_iff (v1 v2 : Version) :
    compare v1 v2 = none ↔
      v1.epoch = v2.epoch ∧
      ((v1.upstream ≠ v2.upstream ∧ partOrd v1.upstream v2.upstream = .eq) ∨
       (v1.upstream = v2.upstream ∧ v1.revision ≠ v2.revision ∧ partOrd v1.revision v2.revision = .eq)) := by
  unfold compare
  by_cases he : v1 = v2
  · subst he; simp
  · simp only [he, if_false]
    by_cases h₁ : v1.epoch > v2.epoch
    · simp [h₁]; omega
    · by_cases h₂ : v1.epoch < v2.epoch
      · simp [h₁, h₂]; omega
      · have hep : v1.epoch = v2.epoch := by omega
        simp only [hep, true_and]
        rw [comparePart_spec v1.upstream v2.upstream]
        by_cases hu : v1.upstream = v2.upstream
        · have hrev : v1.revision ≠ v2.revision := by
            intro hr; apply he
            cases v1; cases v2; simp_all
          simp only [hu, if_true, ne_eq, not_true_eq_false, false_and, true_and, false_or]
          rw [comparePart_spec]
          simp only [hrev, if_false, not_false_eq_true, true_and]
          split <;> simp_all
        · simp only [hu, if_false, ne_eq, not_false_eq_true, true_and, false_and, or_false]
          by_cases hp : partOrd v1.upstream v2.upstream = .eq
          · simp [hp]
          · simp only [hp, if_false]
            cases hpo : partOrd v1.upstream v2.upstream <;> simp_all

end ClairModel.VerDeb
