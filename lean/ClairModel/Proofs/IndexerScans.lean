/-
  The log of scanner invocations: it changes only in the scanLayers state, a
  pair is logged only when it is not recorded as scanned, and when scanLayers
  returns without error every logged pair is recorded as scanned.
-/
import ClairModel.Lib.Sm
import ClairModel.Proofs.IndexerRun

namespace ClairModel.Indexer

variable {sem : Sem} {o : Oracle} {cfg : Cfg} {m : Manifest}

/-- The scan log has no repeats and every logged pair is recorded as scanned. -/
structure ScansOK (st : Store) (scans : List (Layer × Scanner)) : Prop where
  nodup : scans.Nodup
  marked : ∀ x, x ∈ scans → x ∈ st.scannedLayer

theorem ScansOK.mono {st st' : Store} {sc : List (Layer × Scanner)} (h : ScansOK st sc) (hle : Le st st') : ScansOK st' sc :=
  ⟨h.nodup, fun x hx => hle.scannedLayer x (h.marked x hx)⟩

theorem call_scans (o : Oracle) (w : W) (ch : Char) : (w.call o ch).1.e.scans = w.e.scans := by
  obtain ⟨e, v, hc, hs⟩ := call_spec o w ch
  rw [hc]; exact hs.scans

theorem checkManifest_scans (o : Oracle) (m : Manifest) (w : W) (c : Ctl) :
    (checkManifest o m w c).1.e.scans = w.e.scans := by
  obtain ⟨e, v, hc, hs⟩ := call_spec o w 'M'
  unfold checkManifest
  simp only [hc]
  cases v.err with
  | some cl => exact hs.scans
  | none =>
    simp only []
    split
    · obtain ⟨e2, v2, hc2, hs2⟩ := call_spec o ⟨w.st, e⟩ 'G'
      simp only [hc2]
      cases v2.err with
      | some cl => exact hs2.scans.trans hs.scans
      | none =>
        simp only []
        cases w.st.report? m <;> exact hs2.scans.trans hs.scans
    · have hro := filterUnscanned_ro o m c.vs ⟨w.st, e⟩
      generalize filterUnscanned o m c.vs ⟨w.st, e⟩ = res at hro ⊢
      obtain ⟨w2, r2⟩ := res
      cases r2 with
      | error cl => exact hro.scans.trans hs.scans
      | ok vs' =>
        simp only []
        obtain ⟨e3, v3, hc3, hs3⟩ := call_spec o w2 'P'
        simp only [hc3]
        have : e3.scans = w.e.scans := (hs3.scans.trans hro.scans).trans hs.scans
        cases v3.err <;> cases v3.effect <;> exact this

theorem fetchLayers_scans (o : Oracle) (m : Manifest) (w : W) (c : Ctl) :
    (fetchLayers o m w c).1.e.scans = w.e.scans := by
  have h1 := reduce_ro o c.vs m w
  unfold fetchLayers
  generalize reduce o c.vs m w = res at h1 ⊢
  obtain ⟨w1, r1⟩ := res
  cases r1 with
  | error cl => exact h1.scans
  | ok toFetch =>
    simp only []
    obtain ⟨e, v, hc, hs⟩ := call_spec o w1 'Z'
    simp only [hc]
    have : e.scans = w.e.scans := hs.scans.trans h1.scans
    cases v.err <;> cases v.effect <;> exact this

theorem coalesce_scans (sem : Sem) (o : Oracle) (cfg : Cfg) (m : Manifest) (w : W) (c : Ctl) :
    (coalesce sem o cfg m w c).1.e.scans = w.e.scans := by
  obtain ⟨h1, _⟩ := gatherAll_ro sem o m cfg w
  unfold coalesce
  generalize gatherAll sem o m cfg w = r1 at h1 ⊢
  obtain ⟨w1, e1⟩ := r1
  cases e1 with
  | error cl => exact h1.scans
  | ok bodies =>
    simp only []
    have h2 := coalCalls_ro sem o cfg w1
    generalize coalCalls sem o cfg w1 = r2 at h2 ⊢
    obtain ⟨w2, e2⟩ := r2
    cases e2 <;> exact h2.scans.trans h1.scans

theorem indexManifest_scans (o : Oracle) (m : Manifest) (w : W) (c : Ctl) :
    (indexManifest o m w c).1.e.scans = w.e.scans := by
  obtain ⟨e, v, hc, hs⟩ := call_spec o w 'X'
  unfold indexManifest
  simp only [hc]
  cases v.err <;> cases v.effect <;> exact hs.scans

theorem indexFinished_scans (o : Oracle) (m : Manifest) (w : W) (c : Ctl) :
    (indexFinished o m w c).1.e.scans = w.e.scans := by
  obtain ⟨e, v, hc, hs⟩ := call_spec o w 'Y'
  unfold indexFinished
  simp only [hc]
  cases v.effect with
  | false => exact hs.scans
  | true =>
    simp only [if_true]
    cases w.st.setIndexFinished m c.vs { c.report with success := true } <;> exact hs.scans

theorem persistAndAdvance_scans (o : Oracle) (m : Manifest) (w : W) (c : Ctl) (next : CState) (carry : Option ErrClass) :
    (persistAndAdvance o m w c next carry).1.e.scans = w.e.scans := by
  obtain ⟨e, v, hc, hs⟩ := call_spec o w 'R'
  unfold persistAndAdvance
  simp only [hc]
  cases v.effect with
  | false =>
    simp only [Bool.false_eq_true, if_false]
    cases v.err with
    | none => simp only []; split <;> exact hs.scans
    | some cl => exact hs.scans
  | true =>
    simp only [if_true]
    cases w.st.setIndexReport m c.report with
    | none => exact hs.scans
    | some st' =>
      simp only []
      cases v.err with
      | none => simp only []; split <;> exact hs.scans
      | some cl => exact hs.scans

theorem storeGroups_scans (o : Oracle) (l : Layer) (s : Scanner) : ∀ (gs : List (List Row)) (w : W),
    (storeGroups o l s gs w).1.e.scans = w.e.scans
  | [], w => rfl
  | g :: gs, w => by
    obtain ⟨e, v, hc, hs⟩ := call_spec o w 'I'
    simp only [storeGroups, hc]
    cases v.err with
    | some c => cases v.effect <;> exact hs.scans
    | none =>
      simp only []
      cases v.effect with
      | false => exact (storeGroups_scans o l s gs _).trans hs.scans
      | true => exact (storeGroups_scans o l s gs _).trans hs.scans

theorem doScan_scans (sem : Sem) (o : Oracle) (l : Layer) (s : Scanner) (w : W) :
    (doScan sem o l s w).1.e.scans = w.e.scans ∨ (doScan sem o l s w).1.e.scans = (l, s) :: w.e.scans := by
  unfold doScan
  split
  · split <;> exact Or.inl rfl
  · obtain ⟨e, v, hc, hs⟩ := call_spec o w 'S'
    simp only [hc]
    split
    · exact Or.inl hs.scans
    · split
      · exact Or.inr (by simp [hs.scans])
      · exact Or.inl hs.scans

/-- One pair: the log is unchanged, or the pair — not recorded as scanned
    before — was logged; if the pair completed, it is recorded as scanned. -/
theorem scanLayer_scans (sem : Sem) (o : Oracle) (l : Layer) (s : Scanner) (w : W) :
    (scanLayer sem o l s w).1.e.scans = w.e.scans ∨
    ((scanLayer sem o l s w).1.e.scans = (l, s) :: w.e.scans ∧ (l, s) ∉ w.st.scannedLayer) := by
  obtain ⟨e, v, hc, hs⟩ := call_spec o w 'L'
  unfold scanLayer
  simp only [hc]
  cases v.err with
  | some c => exact Or.inl hs.scans
  | none =>
    simp only []
    by_cases hsc : w.st.layerScanned l s = true
    · simp only [hsc, if_true]; exact Or.inl hs.scans
    · have hsc' : w.st.layerScanned l s = false := by simpa using hsc
      have hun : (l, s) ∉ w.st.scannedLayer := fun h => hsc ((Store.layerScanned_iff _ _ _).2 h)
      simp only [hsc', Bool.false_eq_true, if_false]
      have h2 := doScan_scans sem o l s ⟨w.st, e⟩
      generalize doScan sem o l s ⟨w.st, e⟩ = res2 at h2 ⊢
      obtain ⟨w2, r2⟩ := res2
      simp only at h2
      have h2' : w2.e.scans = w.e.scans ∨ (w2.e.scans = (l, s) :: w.e.scans ∧ (l, s) ∉ w.st.scannedLayer) := by
        rcases h2 with h2 | h2
        · exact Or.inl (h2.trans hs.scans)
        · exact Or.inr ⟨by rw [h2, hs.scans], hun⟩
      cases r2 with
      | some c => exact h2'
      | none =>
        simp only []
        have h3 := storeGroups_scans o l s (toStore sem s l) w2
        generalize storeGroups o l s (toStore sem s l) w2 = res3 at h3 ⊢
        obtain ⟨w3, r3⟩ := res3
        simp only at h3
        cases r3 with
        | some c => simp only []; rw [h3]; exact h2'
        | none =>
          simp only []
          obtain ⟨e4, v4, hc4, hs4⟩ := call_spec o w3 'K'
          simp only [hc4]
          have : e4.scans = w2.e.scans := hs4.scans.trans h3
          cases v4.effect <;> (simp only [Bool.false_eq_true, if_false, if_true]; rw [this]; exact h2')

theorem scanPairs_scansOK (sem : Sem) (o : Oracle) (m : Manifest) : ∀ (ps : List (Layer × Scanner)) (w : W),
    (scanPairs sem o ps w).2 = none → ScansOK w.st w.e.scans →
      ScansOK (scanPairs sem o ps w).1.st (scanPairs sem o ps w).1.e.scans
  | [], w, _, h => h
  | (l, s) :: rest, w, hnone, h => by
    simp only [scanPairs] at hnone ⊢
    split at hnone
    · cases hnone
    · rename_i hd
      simp only [hd, if_false]
      have hsc := scanLayer_scans sem o l s w
      obtain ⟨hstep, hmark⟩ := scanLayer_step sem o m l s w
      generalize scanLayer sem o l s w = res at hsc hstep hmark hnone ⊢
      obtain ⟨w1, r1⟩ := res
      cases r1 with
      | some c => simp only at hnone; cases hnone
      | none =>
        simp only at hnone hsc hmark ⊢
        apply scanPairs_scansOK sem o m rest w1 hnone
        rcases hsc with hsc | ⟨hsc, hun⟩
        · rw [hsc]; exact h.mono hstep.le
        · rw [hsc]
          refine ⟨List.nodup_cons.2 ⟨fun hin => hun (h.marked _ hin), h.nodup⟩, ?_⟩
          intro x hx
          rcases List.mem_cons.1 hx with rfl | hx
          · exact hmark trivial
          · exact hstep.le.scannedLayer x (h.marked x hx)

/-- A state function that returns without error keeps the scan log consistent. -/
theorem stateFn_scansOK (w : W) (c : Ctl) (hi : Inv sem w.st) (h : HeadCore sem cfg m st0 w.st c)
    (hnone : (stateFn sem o cfg m c.cur w c).2.2.2 = none) (hs : ScansOK w.st w.e.scans) :
    ScansOK (stateFn sem o cfg m c.cur w c).1.st (stateFn sem o cfg m c.cur w c).1.e.scans := by
  have fp := stateFn_post (o := o) w c hi h
  rcases h.curFn with hc | hc | hc | hc | hc | hc
  · rw [hc] at fp hnone ⊢; simp only [stateFn] at fp hnone ⊢
    rw [checkManifest_scans]; exact hs.mono fp.step.le
  · rw [hc] at fp hnone ⊢; simp only [stateFn] at fp hnone ⊢
    rw [fetchLayers_scans]; exact hs.mono fp.step.le
  · rw [hc] at fp hnone ⊢; simp only [stateFn] at fp hnone ⊢
    unfold scanLayers at hnone ⊢
    have := scanPairs_scansOK sem o m (pairs cfg m) w
    generalize scanPairs sem o (pairs cfg m) w = res at this hnone ⊢
    obtain ⟨w1, r1⟩ := res
    cases r1 with
    | some cl => simp only at hnone; cases hnone
    | none => exact this rfl hs
  · rw [hc] at fp hnone ⊢; simp only [stateFn] at fp hnone ⊢
    rw [coalesce_scans]; exact hs.mono fp.step.le
  · rw [hc] at fp hnone ⊢; simp only [stateFn] at fp hnone ⊢
    rw [indexManifest_scans]; exact hs.mono fp.step.le
  · rw [hc] at fp hnone ⊢; simp only [stateFn] at fp hnone ⊢
    rw [indexFinished_scans]; exact hs.mono fp.step.le

end ClairModel.Indexer
