import ClairModel.Proofs.Locks
import ClairModel.Model.LockCallers

set_option autoImplicit false

namespace ClairModel.LockCallers
open ClairModel ClairModel.Locks

/-- Who is parked, without the runnable flags. -/
def pids (lk : Locks.State) : List (Nat × Nat × Nat) := lk.parked.map fun w => (w.tid, w.key, w.parent)

/-- The invariant of the caller machine. -/
structure CInv (s : State) : Prop where
  lk : Locks.Inv s.lk
  /-- a caller parked inside Lock has its entry in the lock source's wait list -/
  waitHas : ∀ c, s.pc c = .waiting → (2 * c, s.key c, s.parent c) ∈ pids s.lk
  /-- a caller with a release pending owns a live grant on its own key -/
  holdHas : ∀ c g, (s.pc c).gid? = some g →
    s.owner g = some c ∧ ∃ gr ∈ s.lk.active, gr.gid = g ∧ gr.key = s.key c ∧ gr.parent = s.parent c
  /-- the bracket: a live grant that was handed to a caller still has that caller's release pending -/
  ownHeld : ∀ gr ∈ s.lk.active, ∀ c, s.owner gr.gid = some c → (s.pc c).gid? = some gr.gid
  ownLt : ∀ g c, s.owner g = some c → g < s.lk.issued
  fresh : ∀ c, s.n ≤ c → s.pc c = .none
  parkedCaller : ∀ x ∈ pids s.lk, ∀ c, x.1 = 2 * c → s.pc c = .waiting

theorem cinv_init : CInv init := by
  constructor
  · exact inv_init
  · intro c h; simp [init] at h
  · intro c g h; simp [init, Pc.gid?] at h
  · intro gr h; simp [init] at h
  · intro g c h; simp [init] at h
  · intro c _; rfl
  · intro x h; simp [init, pids] at h

@[simp] theorem upd_same {α : Type} (f : Nat → α) (i : Nat) (v : α) : upd f i v i = v := by simp [upd]
theorem upd_other {α : Type} (f : Nat → α) (i j : Nat) (v : α) (h : j ≠ i) : upd f i v j = f j := by
  simp [upd, h]

/-- Lemma A: a lock-machine step that leaves grants, the grant counter and the
    wait list (up to flags) alone preserves the caller invariant. -/
theorem cinv_frame {s : State} (h : CInv s) (lk' : Locks.State) (hinv : Locks.Inv lk')
    (hact : lk'.active = s.lk.active) (hiss : lk'.issued = s.lk.issued) (hp : pids lk' = pids s.lk) :
    CInv { s with lk := lk' } := by
  constructor
  · exact hinv
  · intro c hc; simp only [hp]; exact h.waitHas c hc
  · intro c g hc; simp only [hact]; exact h.holdHas c g hc
  · intro gr hgr c hc; simp only [hact] at hgr; exact h.ownHeld gr hgr c hc
  · intro g c hc; simp only [hiss]; exact h.ownLt g c hc
  · exact h.fresh
  · intro x hx c hc; simp only [hp] at hx; exact h.parkedCaller x hx c hc

/-- Lemma E: moving a caller between program counters that agree on the grant
    they answer for, none of them `waiting`, preserves the invariant. -/
theorem cinv_pc {s : State} (h : CInv s) (c : Nat) (p' : Pc)
    (hg : p'.gid? = (s.pc c).gid?) (hw : s.pc c ≠ .waiting) (hw' : p' ≠ .waiting) (hex : s.pc c ≠ .none) :
    CInv { s with pc := upd s.pc c p' } := by
  constructor
  · exact h.lk
  · intro c' hc'
    by_cases hcc : c' = c
    · subst hcc; simp at hc'; exact absurd hc' hw'
    · simp only [upd_other _ _ _ _ hcc] at hc'; exact h.waitHas c' hc'
  · intro c' g hc'
    by_cases hcc : c' = c
    · subst hcc; simp only [upd_same, hg] at hc'; exact h.holdHas c' g hc'
    · simp only [upd_other _ _ _ _ hcc] at hc'; exact h.holdHas c' g hc'
  · intro gr hgr c' hc'
    have := h.ownHeld gr hgr c' hc'
    by_cases hcc : c' = c
    · subst hcc; simp only [upd_same, hg]; exact this
    · simp only [upd_other _ _ _ _ hcc]; exact this
  · exact h.ownLt
  · intro c' hc'
    by_cases hcc : c' = c
    · subst hcc; exact absurd (h.fresh c' hc') hex
    · simp only [upd_other _ _ _ _ hcc]; exact h.fresh c' hc'
  · intro x hx c' hc'
    have := h.parkedCaller x hx c' hc'
    by_cases hcc : c' = c
    · subst hcc; exact absurd this hw
    · simp only [upd_other _ _ _ _ hcc]; exact this

/-! ### What a release does to the lock machine -/

theorem release_issued (lk : Locks.State) (g : Nat) : (Locks.step lk (.release g)).1.issued = lk.issued := by
  simp only [Locks.step]; split <;> rfl

theorem release_pids (lk : Locks.State) (g : Nat) : pids (Locks.step lk (.release g)).1 = pids lk := by
  simp only [Locks.step]
  split
  · rfl
  · simp [pids, List.map_map, Function.comp_def]

theorem release_dead (lk : Locks.State) (g : Nat) :
    (Locks.step lk (.release g)).1.deadParents = lk.deadParents := by
  simp only [Locks.step]; split <;> rfl

theorem release_active (lk : Locks.State) (g : Nat) (gr : Grant) :
    gr ∈ (Locks.step lk (.release g)).1.active ↔ gr ∈ lk.active ∧ gr.gid ≠ g := by
  simp only [Locks.step]
  split
  · rename_i hf
    constructor
    · intro hm
      refine ⟨hm, ?_⟩
      have := List.find?_eq_none.1 hf gr hm
      simpa using this
    · exact fun h => h.1
  · simp [List.mem_filter]

/-- Lemma B (caller): the pending release of caller `c` fires. -/
theorem cinv_done {s : State} (h : CInv s) (c g : Nat) (hpc : s.pc c = .mustRelease g) :
    CInv { s with lk := (Locks.step s.lk (.release g)).1, pc := upd s.pc c .finished } := by
  have hown := (h.holdHas c g (by simp [hpc, Pc.gid?])).1
  constructor
  · exact inv_step h.lk _
  · intro c' hc'
    by_cases hcc : c' = c
    · subst hcc; simp at hc'
    · simp only [upd_other _ _ _ _ hcc] at hc'
      simp only [release_pids]; exact h.waitHas c' hc'
  · intro c' g' hc'
    by_cases hcc : c' = c
    · subst hcc; simp [Pc.gid?] at hc'
    · simp only [upd_other _ _ _ _ hcc] at hc'
      obtain ⟨ho, gr, hgr, hgid, hk⟩ := h.holdHas c' g' hc'
      refine ⟨ho, gr, (release_active _ _ _).2 ⟨hgr, ?_⟩, hgid, hk⟩
      intro hgg
      rw [hgid] at hgg; subst hgg
      rw [hown] at ho
      exact hcc (Option.some.inj ho).symm
  · intro gr hgr c' hc'
    obtain ⟨hgr, hne⟩ := (release_active _ _ _).1 hgr
    have := h.ownHeld gr hgr c' hc'
    by_cases hcc : c' = c
    · subst hcc
      simp only [hpc, Pc.gid?] at this
      exact absurd (Option.some.inj this).symm hne
    · simp only [upd_other _ _ _ _ hcc]; exact this
  · intro g' c' hc'; simp only [release_issued]; exact h.ownLt g' c' hc'
  · intro c' hc'
    by_cases hcc : c' = c
    · subst hcc; have := h.fresh c' hc'; simp [hpc] at this
    · simp only [upd_other _ _ _ _ hcc]; exact h.fresh c' hc'
  · intro x hx c' hc'
    simp only [release_pids] at hx
    have := h.parkedCaller x hx c' hc'
    by_cases hcc : c' = c
    · subst hcc; simp [hpc] at this
    · simp only [upd_other _ _ _ _ hcc]; exact this

/-- Lemma B (raw): somebody who is not a caller releases a grant no caller answers for. -/
theorem cinv_raw_release {s : State} (h : CInv s) (g : Nat) (hown : s.owner g = none) :
    CInv { s with lk := (Locks.step s.lk (.release g)).1 } := by
  constructor
  · exact inv_step h.lk _
  · intro c' hc'; simp only [release_pids]; exact h.waitHas c' hc'
  · intro c' g' hc'
    obtain ⟨ho, gr, hgr, hgid, hk⟩ := h.holdHas c' g' hc'
    refine ⟨ho, gr, (release_active _ _ _).2 ⟨hgr, ?_⟩, hgid, hk⟩
    intro hgg
    rw [hgid] at hgg; subst hgg
    rw [hown] at ho; cases ho
  · intro gr hgr c' hc'
    exact h.ownHeld gr ((release_active _ _ _).1 hgr).1 c' hc'
  · intro g' c' hc'; simp only [release_issued]; exact h.ownLt g' c' hc'
  · exact h.fresh
  · intro x hx c' hc'
    simp only [release_pids] at hx
    exact h.parkedCaller x hx c' hc'

/-! ### Acquisition and parking -/

/-- Lemma C (caller): caller `c` (not parked any more in `lk0`) is handed the next grant. -/
theorem cinv_granted {s : State} (h : CInv s) (c : Nat) (lk0 : Locks.State)
    (hinv : Locks.Inv (Locks.acquire lk0 (s.key c) (s.parent c)).1)
    (hact : lk0.active = s.lk.active) (hiss : lk0.issued = s.lk.issued)
    (hp1 : ∀ x ∈ pids lk0, x ∈ pids s.lk ∧ x.1 ≠ 2 * c)
    (hp2 : ∀ x ∈ pids s.lk, x.1 ≠ 2 * c → x ∈ pids lk0)
    (hnone : (s.pc c).gid? = none) (hex : s.pc c ≠ .none) :
    CInv { s with lk := (Locks.acquire lk0 (s.key c) (s.parent c)).1,
                  pc := upd s.pc c (.granted s.lk.issued),
                  owner := upd s.owner s.lk.issued (some c) } := by
  constructor
  · exact hinv
  · intro c' hc'
    by_cases hcc : c' = c
    · subst hcc; simp at hc'
    · simp only [upd_other _ _ _ _ hcc] at hc'
      have := hp2 _ (h.waitHas c' hc') (by simp; omega)
      simpa [pids, Locks.acquire] using this
  · intro c' g' hc'
    by_cases hcc : c' = c
    · subst hcc
      simp only [upd_same, Pc.gid?] at hc'
      have hg : g' = s.lk.issued := (Option.some.inj hc').symm
      subst hg
      refine ⟨by simp, ⟨lk0.issued, s.key c', s.parent c'⟩, ?_, ?_, rfl, rfl⟩
      · simp [Locks.acquire]
      · exact hiss
    · simp only [upd_other _ _ _ _ hcc] at hc'
      obtain ⟨ho, gr, hgr, hgid, hk⟩ := h.holdHas c' g' hc'
      have hlt := h.ownLt g' c' ho
      refine ⟨?_, gr, ?_, hgid, hk⟩
      · simp only [upd_other _ _ _ _ (show g' ≠ s.lk.issued by omega)]; exact ho
      · simp only [Locks.acquire, hact]; exact List.mem_cons_of_mem _ hgr
  · intro gr hgr c' hc'
    simp only [Locks.acquire, hact, hiss, List.mem_cons] at hgr
    rcases hgr with rfl | hgr
    · simp only [upd_same] at hc'
      have : c' = c := (Option.some.inj hc').symm
      subst this; simp [Pc.gid?]
    · have hlt := h.lk.gidLt gr hgr
      simp only [upd_other _ _ _ _ (show gr.gid ≠ s.lk.issued by omega)] at hc'
      have := h.ownHeld gr hgr c' hc'
      by_cases hcc : c' = c
      · subst hcc; rw [hnone] at this; cases this
      · simp only [upd_other _ _ _ _ hcc]; exact this
  · intro g' c' hc'
    simp only [Locks.acquire, hiss]
    by_cases hg : g' = s.lk.issued
    · omega
    · simp only [upd_other _ _ _ _ hg] at hc'
      have := h.ownLt g' c' hc'; omega
  · intro c' hc'
    by_cases hcc : c' = c
    · subst hcc; exact absurd (h.fresh c' hc') hex
    · simp only [upd_other _ _ _ _ hcc]; exact h.fresh c' hc'
  · intro x hx c' hc'
    have hx' : x ∈ pids lk0 := by simpa [pids, Locks.acquire] using hx
    obtain ⟨hin, hne⟩ := hp1 x hx'
    have := h.parkedCaller x hin c' hc'
    have hcc : c' ≠ c := by intro e; subst e; exact hne hc'
    simp only [upd_other _ _ _ _ hcc]; exact this

/-- Lemma C (raw): a thread that is not a caller (odd id `t`) is handed the next grant. -/
theorem cinv_raw_granted {s : State} (h : CInv s) (lk0 : Locks.State) (k p t : Nat)
    (hinv : Locks.Inv (Locks.acquire lk0 k p).1)
    (hact : lk0.active = s.lk.active) (hiss : lk0.issued = s.lk.issued)
    (hp1 : ∀ x ∈ pids lk0, x ∈ pids s.lk)
    (hp2 : ∀ x ∈ pids s.lk, x.1 ≠ t → x ∈ pids lk0)
    (ht : ∀ c, t ≠ 2 * c) :
    CInv { s with lk := (Locks.acquire lk0 k p).1 } := by
  constructor
  · exact hinv
  · intro c' hc'
    have := hp2 _ (h.waitHas c' hc') (by simp; exact fun e => ht c' e.symm)
    simpa [pids, Locks.acquire] using this
  · intro c' g' hc'
    obtain ⟨ho, gr, hgr, hgid, hk⟩ := h.holdHas c' g' hc'
    refine ⟨ho, gr, ?_, hgid, hk⟩
    simp only [Locks.acquire, hact]; exact List.mem_cons_of_mem _ hgr
  · intro gr hgr c' hc'
    simp only [Locks.acquire, hact, hiss, List.mem_cons] at hgr
    rcases hgr with rfl | hgr
    · have := h.ownLt _ _ hc'; simp at this
    · exact h.ownHeld gr hgr c' hc'
  · intro g' c' hc'
    simp only [Locks.acquire, hiss]
    have := h.ownLt g' c' hc'; omega
  · exact h.fresh
  · intro x hx c' hc'
    have hx' : x ∈ pids lk0 := by simpa [pids, Locks.acquire] using hx
    exact h.parkedCaller x (hp1 x hx') c' hc'

/-- Lemma D (caller): caller `c` parks inside Lock. -/
theorem cinv_parks {s : State} (h : CInv s) (c : Nat) (lk' : Locks.State) (hinv : Locks.Inv lk')
    (hact : lk'.active = s.lk.active) (hiss : lk'.issued = s.lk.issued)
    (hp : pids lk' = pids s.lk ++ [(2 * c, s.key c, s.parent c)])
    (hnone : (s.pc c).gid? = none) (hex : s.pc c ≠ .none) :
    CInv { s with lk := lk', pc := upd s.pc c .waiting } := by
  constructor
  · exact hinv
  · intro c' hc'
    simp only [hp, List.mem_append, List.mem_singleton]
    by_cases hcc : c' = c
    · subst hcc; exact Or.inr rfl
    · simp only [upd_other _ _ _ _ hcc] at hc'; exact Or.inl (h.waitHas c' hc')
  · intro c' g' hc'
    by_cases hcc : c' = c
    · subst hcc; simp [Pc.gid?] at hc'
    · simp only [upd_other _ _ _ _ hcc] at hc'
      simp only [hact]; exact h.holdHas c' g' hc'
  · intro gr hgr c' hc'
    simp only [hact] at hgr
    have := h.ownHeld gr hgr c' hc'
    by_cases hcc : c' = c
    · subst hcc; rw [hnone] at this; cases this
    · simp only [upd_other _ _ _ _ hcc]; exact this
  · intro g' c' hc'; simp only [hiss]; exact h.ownLt g' c' hc'
  · intro c' hc'
    by_cases hcc : c' = c
    · subst hcc; exact absurd (h.fresh c' hc') hex
    · simp only [upd_other _ _ _ _ hcc]; exact h.fresh c' hc'
  · intro x hx c' hc'
    by_cases hcc : c' = c
    · subst hcc; simp
    · simp only [upd_other _ _ _ _ hcc]
      simp only [hp, List.mem_append, List.mem_singleton] at hx
      rcases hx with hx | rfl
      · exact h.parkedCaller x hx c' hc'
      · simp at hc'; omega

/-- Lemma D (raw): a thread that is not a caller parks. -/
theorem cinv_raw_parks {s : State} (h : CInv s) (lk' : Locks.State) (hinv : Locks.Inv lk') (t k p : Nat)
    (hact : lk'.active = s.lk.active) (hiss : lk'.issued = s.lk.issued)
    (hp : pids lk' = pids s.lk ++ [(t, k, p)]) (ht : ∀ c, t ≠ 2 * c) :
    CInv { s with lk := lk' } := by
  constructor
  · exact hinv
  · intro c' hc'
    simp only [hp, List.mem_append]; exact Or.inl (h.waitHas c' hc')
  · intro c' g' hc'; simp only [hact]; exact h.holdHas c' g' hc'
  · intro gr hgr c' hc'; simp only [hact] at hgr; exact h.ownHeld gr hgr c' hc'
  · intro g' c' hc'; simp only [hiss]; exact h.ownLt g' c' hc'
  · exact h.fresh
  · intro x hx c' hc'
    simp only [hp, List.mem_append, List.mem_singleton] at hx
    rcases hx with hx | rfl
    · exact h.parkedCaller x hx c' hc'
    · exact absurd hc' (ht c')

theorem cinv_begin {s : State} (h : CInv s) (kd : Kind) (k p : Nat) :
    CInv (step s (.begin kd k p)).1 := by
  simp only [step]
  have hn := h.fresh s.n (Nat.le_refl _)
  constructor
  · exact h.lk
  · intro c hc
    by_cases hcc : c = s.n
    · subst hcc; simp at hc
    · simp only [upd_other _ _ _ _ hcc] at hc ⊢; exact h.waitHas c hc
  · intro c g hc
    by_cases hcc : c = s.n
    · subst hcc; simp [Pc.gid?] at hc
    · simp only [upd_other _ _ _ _ hcc] at hc ⊢; exact h.holdHas c g hc
  · intro gr hgr c hc
    have := h.ownHeld gr hgr c hc
    by_cases hcc : c = s.n
    · subst hcc; rw [hn] at this; cases this
    · simp only [upd_other _ _ _ _ hcc]; exact this
  · exact h.ownLt
  · intro c hc
    have hc' : s.n + 1 ≤ c := hc
    have : c ≠ s.n := by omega
    simp only [upd_other _ _ _ _ this]; exact h.fresh c (by omega)
  · intro x hx c hc
    have := h.parkedCaller x hx c hc
    by_cases hcc : c = s.n
    · subst hcc; rw [hn] at this; cases this
    · simp only [upd_other _ _ _ _ hcc]; exact this

/-! ### One step -/

theorem upd_id {α : Type} (f : Nat → α) (i : Nat) (v : α) (h : f i = v) : upd f i v = f := by
  funext j; simp only [upd]; split
  · rename_i e; rw [e, h]
  · rfl

theorem not_parked_of_pc {s : State} (h : CInv s) (c : Nat) (hpc : s.pc c ≠ .waiting) :
    ∀ x ∈ pids s.lk, x.1 ≠ 2 * c := fun x hx e => hpc (h.parkedCaller x hx c e)

theorem any_tid_false_of {s : State} (h : CInv s) (c : Nat) (hpc : s.pc c ≠ .waiting) :
    (s.lk.parked.any fun w => w.tid == 2 * c) = false := by
  cases hany : s.lk.parked.any fun w => w.tid == 2 * c with
  | false => rfl
  | true =>
    rcases List.any_eq_true.1 hany with ⟨w, hw, hwt⟩
    have : (w.tid, w.key, w.parent) ∈ pids s.lk := List.mem_map.2 ⟨w, hw, rfl⟩
    exact absurd (by simpa using hwt) (not_parked_of_pc h c hpc _ this)

theorem cinv_acquire_op {s : State} (h : CInv s) (c : Nat) : CInv (step s (.acquire c)).1 := by
  simp only [step]
  split
  · rename_i hpc
    have hnw : s.pc c ≠ .waiting := by rw [hpc]; simp
    have hex : s.pc c ≠ .none := by rw [hpc]; simp
    have hnone : (s.pc c).gid? = none := by rw [hpc]; rfl
    have hnp := not_parked_of_pc h c hnw
    cases hk : s.kind c with
    | index =>
      simp only [lockCall, hk, Locks.step, any_tid_false_of h c hnw]
      by_cases hheld : s.key c ∈ s.lk.held
      · simp only [hheld, if_true, settle, Bool.false_eq_true, if_false]
        refine cinv_parks h c _ ?_ rfl rfl ?_ hnone hex
        · have := inv_step h.lk (.lock (2 * c) (s.key c) (s.parent c))
          simpa [Locks.step, any_tid_false_of h c hnw, hheld] using this
        · simp [pids]
      · simp only [hheld, if_false, settle, Locks.acquire, Bool.false_eq_true]
        refine cinv_granted h c s.lk ?_ rfl rfl (fun x hx => ⟨hx, hnp x hx⟩) (fun x hx _ => hx) hnone hex
        have := inv_step h.lk (.lock (2 * c) (s.key c) (s.parent c))
        simpa [Locks.step, any_tid_false_of h c hnw, hheld] using this
    | tryer =>
      simp only [lockCall, hk, Locks.step]
      by_cases hheld : s.key c ∈ s.lk.held
      · simp only [hheld, if_true, settle]
        exact cinv_pc h c .refused (by rw [hnone]; rfl) hnw (by simp) hex
      · simp only [hheld, if_false, settle, Locks.acquire]
        refine cinv_granted h c s.lk ?_ rfl rfl (fun x hx => ⟨hx, hnp x hx⟩) (fun x hx _ => hx) hnone hex
        have := inv_step h.lk (.tryLock (s.key c) (s.parent c))
        simpa [Locks.step, hheld] using this
  · exact h

/-- The wait-list entry of a parked caller, found by thread id, is the caller's own. -/
theorem found_waiter {s : State} (h : CInv s) (c : Nat) (hpc : s.pc c = .waiting) (w : Waiter)
    (hw : w ∈ s.lk.parked) (ht : w.tid = 2 * c) : w.key = s.key c ∧ w.parent = s.parent c := by
  rcases List.mem_map.1 (h.waitHas c hpc) with ⟨w0, hw0, he⟩
  have h1 : w0.tid = 2 * c := by have := congrArg Prod.fst he; simpa using this
  have h2 : w0.key = s.key c := by have := congrArg (fun x => x.2.1) he; simpa using this
  have h3 : w0.parent = s.parent c := by have := congrArg (fun x => x.2.2) he; simpa using this
  have : w = w0 := eq_of_nodup_map (·.tid) _ h.lk.tidNodup hw hw0 (by simp [ht, h1])
  subst this; exact ⟨h2, h3⟩

theorem cinv_retest_op {s : State} (h : CInv s) (c : Nat) : CInv (step s (.retest c)).1 := by
  simp only [step]
  split
  · rename_i hpc
    have hex : s.pc c ≠ .none := by rw [hpc]; simp
    have hnone : (s.pc c).gid? = none := by rw [hpc]; rfl
    have hinv := inv_step h.lk (.retest (2 * c))
    simp only [Locks.step] at hinv ⊢
    split
    · exact h
    · rename_i w hf
      have hwm := List.mem_of_find?_eq_some hf
      have hwt : w.tid = 2 * c := by have := List.find?_some hf; simp at this; exact this.1
      obtain ⟨hkey, hpar⟩ := found_waiter h c hpc w hwm hwt
      simp only [hf] at hinv
      by_cases hheld : w.key ∈ s.lk.held
      · simp only [hheld, if_true, settle] at hinv ⊢
        rw [upd_id _ _ _ hpc]
        refine cinv_frame h _ hinv rfl rfl ?_
        simp only [pids, List.map_map]
        apply List.map_congr_left
        intro a _; simp only [Function.comp]; split <;> rfl
      · simp only [hheld, if_false, settle, Locks.acquire] at hinv ⊢
        rw [hkey, hpar] at hinv ⊢
        refine cinv_granted h c { s.lk with parked := s.lk.parked.filter fun w' => !(w'.tid == 2 * c) }
          hinv rfl rfl ?_ ?_ hnone hex
        · intro x hx
          rcases List.mem_map.1 hx with ⟨w', hw', rfl⟩
          obtain ⟨hm, hne⟩ := List.mem_filter.1 hw'
          exact ⟨List.mem_map.2 ⟨w', hm, rfl⟩, by simpa using hne⟩
        · intro x hx hne
          rcases List.mem_map.1 hx with ⟨w', hw', rfl⟩
          exact List.mem_map.2 ⟨w', List.mem_filter.2 ⟨hw', by simpa using hne⟩, rfl⟩
  · exact h

theorem cinv_res {s : State} (h : CInv s) (r : Nat → Nat) : CInv { s with res := r } :=
  ⟨h.lk, h.waitHas, h.holdHas, h.ownHeld, h.ownLt, h.fresh, h.parkedCaller⟩

theorem odd_ne_even (t c : Nat) : 2 * t + 1 ≠ 2 * c := by omega

theorem cinv_raw_op {s : State} (h : CInv s) (op : Locks.Op) : CInv (step s (.raw op)).1 := by
  cases op with
  | release g =>
    simp only [step]
    split
    · exact h
    · rename_i ho
      exact cinv_raw_release h g (by cases hh : s.owner g <;> simp_all)
  | tryLock k p =>
    simp only [step, rawOp, Locks.step]
    have hinv := inv_step h.lk (.tryLock k p)
    simp only [Locks.step] at hinv
    by_cases hheld : k ∈ s.lk.held
    · simp only [hheld, if_true]; exact h
    · simp only [hheld, if_false] at hinv ⊢
      exact cinv_raw_granted h s.lk k p 1 hinv rfl rfl (fun x hx => hx) (fun x hx _ => hx) (by intro c; omega)
  | lock t k p =>
    simp only [step, rawOp, Locks.step]
    have hinv := inv_step h.lk (.lock (2 * t + 1) k p)
    simp only [Locks.step] at hinv
    split
    · exact h
    · rename_i hany
      simp only [hany] at hinv
      by_cases hheld : k ∈ s.lk.held
      · simp only [hheld, if_true] at hinv ⊢
        exact cinv_raw_parks h _ hinv (2 * t + 1) k p rfl rfl (by simp [pids]) (odd_ne_even t)
      · simp only [hheld, if_false] at hinv ⊢
        exact cinv_raw_granted h s.lk k p (2 * t + 1) hinv rfl rfl (fun x hx => hx) (fun x hx _ => hx)
          (odd_ne_even t)
  | retest t =>
    simp only [step, rawOp, Locks.step]
    have hinv := inv_step h.lk (.retest (2 * t + 1))
    simp only [Locks.step] at hinv
    split
    · exact h
    · rename_i w hf
      simp only [hf] at hinv
      by_cases hheld : w.key ∈ s.lk.held
      · simp only [hheld, if_true] at hinv ⊢
        refine cinv_frame h _ hinv rfl rfl ?_
        simp only [pids, List.map_map]
        apply List.map_congr_left
        intro a _; simp only [Function.comp]; split <;> rfl
      · simp only [hheld, if_false] at hinv ⊢
        refine cinv_raw_granted h { s.lk with parked := s.lk.parked.filter fun w' => !(w'.tid == 2 * t + 1) }
          w.key w.parent (2 * t + 1) hinv rfl rfl ?_ ?_ (odd_ne_even t)
        · intro x hx
          rcases List.mem_map.1 hx with ⟨w', hw', rfl⟩
          exact List.mem_map.2 ⟨w', (List.mem_filter.1 hw').1, rfl⟩
        · intro x hx hne
          rcases List.mem_map.1 hx with ⟨w', hw', rfl⟩
          exact List.mem_map.2 ⟨w', List.mem_filter.2 ⟨hw', by simpa using hne⟩, rfl⟩
  | cancelParent p =>
    simp only [step, rawOp, Locks.step]
    exact cinv_frame h _ (inv_step h.lk (.cancelParent p)) rfl rfl rfl
  | ctx g => simp only [step, rawOp, Locks.step]; exact h
  | close => simp only [step, rawOp, Locks.step]; exact h

theorem cinv_step {s : State} (h : CInv s) (op : Op) : CInv (step s op).1 := by
  cases op with
  | begin kd k p => exact cinv_begin h kd k p
  | acquire c => exact cinv_acquire_op h c
  | retest c => exact cinv_retest_op h c
  | check c =>
    simp only [step]
    split
    · rename_i g hpc
      split
      · exact cinv_res (cinv_pc h c (.mustRelease g) (by rw [hpc]; rfl) (by rw [hpc]; simp) (by simp) (by rw [hpc]; simp)) _
      · exact cinv_pc h c (.body g) (by rw [hpc]; rfl) (by rw [hpc]; simp) (by simp) (by rw [hpc]; simp)
    · exact h
  | leave c r =>
    simp only [step]
    split
    · rename_i g hpc
      exact cinv_res (cinv_pc h c (.mustRelease g) (by rw [hpc]; rfl) (by rw [hpc]; simp) (by simp) (by rw [hpc]; simp)) _
    · exact h
  | done c =>
    simp only [step]
    split
    · rename_i g hpc; exact cinv_done h c g hpc
    · rename_i hpc
      exact cinv_pc h c .finished (by rw [hpc]; rfl) (by rw [hpc]; simp) (by simp) (by rw [hpc]; simp)
    · exact h
    · exact h
    · exact h
  | ret c =>
    simp only [step]
    split
    · rename_i hpc
      exact cinv_pc h c .returned (by rw [hpc]; rfl) (by rw [hpc]; simp) (by simp) (by rw [hpc]; simp)
    · rename_i hpc
      exact cinv_pc h c .returned (by rw [hpc]; rfl) (by rw [hpc]; simp) (by simp) (by rw [hpc]; simp)
    · exact h
  | bctx c => simp only [step]; split <;> exact h
  | raw op => exact cinv_raw_op h op

/-! ### Progress measure -/

/-- How far a call is from being over. -/
def weight : Pc → Nat
  | .none => 0
  | .start => 7
  | .waiting => 6
  | .granted _ => 5
  | .body _ => 4
  | .mustRelease _ => 3
  | .refused => 3
  | .finished => 1
  | .returned => 0

def sumTo (f : Nat → Nat) : Nat → Nat
  | 0 => 0
  | n + 1 => sumTo f n + f n

def mu (s : State) : Nat := sumTo (fun c => weight (s.pc c)) s.n

theorem sumTo_congr (f g : Nat → Nat) (n : Nat) (h : ∀ j, j < n → f j = g j) : sumTo f n = sumTo g n := by
  induction n with
  | zero => rfl
  | succ n ih =>
    simp only [sumTo]
    rw [ih (fun j hj => h j (by omega)), h n (by omega)]

theorem sumTo_upd (f : Nat → Nat) (n c v : Nat) (hc : c < n) :
    sumTo (upd f c v) n + f c = sumTo f n + v := by
  induction n with
  | zero => omega
  | succ n ih =>
    simp only [sumTo]
    by_cases hcn : c = n
    · subst hcn
      have : sumTo (upd f c v) c = sumTo f c :=
        sumTo_congr _ _ _ (fun j hj => upd_other _ _ _ _ (by omega))
      rw [this, upd_same]; omega
    · have := ih (by omega)
      rw [upd_other _ _ _ _ (Ne.symm hcn)]; omega

theorem sumTo_upd_ge (f : Nat → Nat) (n c v : Nat) (hc : n ≤ c) : sumTo (upd f c v) n = sumTo f n :=
  sumTo_congr _ _ _ (fun j hj => upd_other _ _ _ _ (by omega))

theorem sumTo_pos (f : Nat → Nat) (n : Nat) (h : 0 < sumTo f n) : ∃ c, c < n ∧ 0 < f c := by
  induction n with
  | zero => simp [sumTo] at h
  | succ n ih =>
    simp only [sumTo] at h
    by_cases hn : 0 < f n
    · exact ⟨n, by omega, hn⟩
    · obtain ⟨c, hc, hf⟩ := ih (by omega)
      exact ⟨c, by omega, hf⟩

theorem sumTo_zero (f : Nat → Nat) (n : Nat) (h : sumTo f n = 0) : ∀ c, c < n → f c = 0 := by
  intro c hc
  cases hf : f c with
  | zero => rfl
  | succ k =>
    have : sumTo (upd f c 0) n + f c = sumTo f n + 0 := sumTo_upd f n c 0 hc
    omega

theorem weight_upd (pc : Nat → Pc) (c : Nat) (p : Pc) :
    (fun j => weight (upd pc c p j)) = upd (fun j => weight (pc j)) c (weight p) := by
  funext j; simp only [upd]; split <;> rfl

/-- Moving call `c` to a pc of smaller-or-equal weight does not increase the measure. -/
theorem mu_pc_le (s s' : State) (c : Nat) (p : Pc) (hn : s'.n = s.n) (hpc : s'.pc = upd s.pc c p)
    (hw : weight p ≤ weight (s.pc c)) : mu s' ≤ mu s := by
  simp only [mu, hn, hpc, weight_upd]
  by_cases hc : c < s.n
  · have := sumTo_upd (fun j => weight (s.pc j)) s.n c (weight p) hc
    omega
  · rw [sumTo_upd_ge _ _ _ _ (by omega)]; exact Nat.le_refl _

/-- Moving an existing call to a pc of smaller weight decreases the measure. -/
theorem mu_pc_lt (s s' : State) (c : Nat) (p : Pc) (hn : s'.n = s.n) (hpc : s'.pc = upd s.pc c p)
    (hc : c < s.n) (hw : weight p < weight (s.pc c)) : mu s' < mu s := by
  simp only [mu, hn, hpc, weight_upd]
  have := sumTo_upd (fun j => weight (s.pc j)) s.n c (weight p) hc
  omega

theorem lt_n_of_pc {s : State} (h : CInv s) (c : Nat) (hpc : s.pc c ≠ .none) : c < s.n := by
  cases Nat.lt_or_ge c s.n with
  | inl hlt => exact hlt
  | inr hge => exact absurd (h.fresh c hge) hpc

/-- Operations the callers perform themselves (as opposed to new calls arriving,
    observations, and the lock operations of outsiders). -/
def internal : Op → Bool
  | .acquire _ => true
  | .retest _ => true
  | .check _ => true
  | .leave _ _ => true
  | .done _ => true
  | .ret _ => true
  | _ => false

/-- Nobody but the callers holds a key. -/
def ownedAll (s : State) : Prop := ∀ gr ∈ s.lk.active, (s.owner gr.gid).isSome = true

theorem settle_mu_le (s : State) (c : Nat) (r : Locks.State × Locks.Out) (h6 : 6 ≤ weight (s.pc c)) :
    mu (settle s c r).1 ≤ mu s := by
  simp only [settle]
  split
  · exact mu_pc_le s _ c _ rfl rfl (Nat.le_trans (by simp [weight]) h6)
  · exact mu_pc_le s _ c _ rfl rfl (Nat.le_trans (by simp [weight]) h6)
  · exact mu_pc_le s _ c _ rfl rfl (Nat.le_trans (by simp [weight]) h6)
  · exact Nat.le_refl _

/-- No step of a caller moves the callers away from completion. -/
theorem mu_le_internal (s : State) (op : Op) (hop : internal op = true) : mu (step s op).1 ≤ mu s := by
  cases op with
  | begin kd k p => simp [internal] at hop
  | bctx c => simp [internal] at hop
  | raw op => simp [internal] at hop
  | acquire c =>
    simp only [step]; split
    · rename_i hpc; exact settle_mu_le s c _ (by rw [hpc]; simp [weight])
    · exact Nat.le_refl _
  | retest c =>
    simp only [step]; split
    · rename_i hpc; exact settle_mu_le s c _ (by rw [hpc]; simp [weight])
    · exact Nat.le_refl _
  | check c =>
    simp only [step]; split
    · rename_i g hpc
      split
      · exact mu_pc_le s _ c _ rfl rfl (by rw [hpc]; simp [weight])
      · exact mu_pc_le s _ c _ rfl rfl (by rw [hpc]; simp [weight])
    · exact Nat.le_refl _
  | leave c r =>
    simp only [step]; split
    · rename_i g hpc; exact mu_pc_le s _ c _ rfl rfl (by rw [hpc]; simp [weight])
    · exact Nat.le_refl _
  | done c =>
    simp only [step]; split
    · rename_i g hpc; exact mu_pc_le s _ c _ rfl rfl (by rw [hpc]; simp [weight])
    · rename_i hpc; exact mu_pc_le s _ c _ rfl rfl (by rw [hpc]; simp [weight])
    · exact Nat.le_refl _
    · exact Nat.le_refl _
    · exact Nat.le_refl _
  | ret c =>
    simp only [step]; split
    · rename_i hpc; exact mu_pc_le s _ c _ rfl rfl (by rw [hpc]; simp [weight])
    · rename_i hpc; exact mu_pc_le s _ c _ rfl rfl (by rw [hpc]; simp [weight])
    · exact Nat.le_refl _

theorem settle_owned (s : State) (h : CInv s) (c : Nat) (op : Locks.Op) (ho : ownedAll s)
    (hact : ∀ g, (Locks.step s.lk op).2 = .acquired g →
      g = s.lk.issued ∧ ∀ gr ∈ (Locks.step s.lk op).1.active, gr.gid = g ∨ gr ∈ s.lk.active)
    (hsame : (∀ g, (Locks.step s.lk op).2 ≠ .acquired g) → (Locks.step s.lk op).1.active = s.lk.active) :
    ownedAll (settle s c (Locks.step s.lk op)).1 := by
  simp only [settle]
  split
  · rename_i g hg
    obtain ⟨hgi, hall⟩ := hact g hg
    intro gr hgr
    rcases hall gr hgr with e | hm
    · simp [e]
    · have hlt := h.lk.gidLt gr hm
      have : gr.gid ≠ g := by omega
      simp only [upd_other _ _ _ _ this]; exact ho gr hm
  · rename_i hg
    intro gr hgr
    have : (Locks.step s.lk op).1.active = s.lk.active := hsame (by intro g e; rw [hg] at e; cases e)
    exact ho gr (by simpa [this] using hgr)
  · rename_i hg
    intro gr hgr
    have : (Locks.step s.lk op).1.active = s.lk.active := hsame (by intro g e; rw [hg] at e; cases e)
    exact ho gr (by simpa [this] using hgr)
  · exact ho

/-- Shape of the three lock operations a caller issues: either the answer is
    `acquired issued` and the grants are the old ones plus the new one, or the grants are untouched. -/
theorem lockop_shape (lk : Locks.State) (op : Locks.Op)
    (hop : (∃ t k p, op = .lock t k p) ∨ (∃ k p, op = .tryLock k p) ∨ (∃ t, op = .retest t)) :
    (∀ g, (Locks.step lk op).2 = .acquired g →
      g = lk.issued ∧ ∀ gr ∈ (Locks.step lk op).1.active, gr.gid = g ∨ gr ∈ lk.active) ∧
    ((∀ g, (Locks.step lk op).2 ≠ .acquired g) → (Locks.step lk op).1.active = lk.active) := by
  rcases hop with ⟨t, k, p, rfl⟩ | ⟨k, p, rfl⟩ | ⟨t, rfl⟩
  · simp only [Locks.step]
    split
    · exact ⟨(by intro g e; cases e), fun _ => rfl⟩
    · split
      · exact ⟨(by intro g e; cases e), fun _ => rfl⟩
      · refine ⟨?_, fun hne => absurd rfl (hne lk.issued)⟩
        intro g e
        simp only [Locks.acquire] at e ⊢
        have : lk.issued = g := by injection e
        subst this
        refine ⟨rfl, ?_⟩
        intro gr hgr
        rcases List.mem_cons.1 hgr with rfl | hm
        · exact Or.inl rfl
        · exact Or.inr hm
  · simp only [Locks.step]
    split
    · exact ⟨(by intro g e; cases e), fun _ => rfl⟩
    · refine ⟨?_, fun hne => absurd rfl (hne lk.issued)⟩
      intro g e
      simp only [Locks.acquire] at e ⊢
      have : lk.issued = g := by injection e
      subst this
      refine ⟨rfl, ?_⟩
      intro gr hgr
      rcases List.mem_cons.1 hgr with rfl | hm
      · exact Or.inl rfl
      · exact Or.inr hm
  · simp only [Locks.step]
    split
    · exact ⟨(by intro g e; cases e), fun _ => rfl⟩
    · split
      · exact ⟨(by intro g e; cases e), fun _ => rfl⟩
      · refine ⟨?_, fun hne => absurd rfl (hne lk.issued)⟩
        intro g e
        simp only [Locks.acquire] at e ⊢
        have : lk.issued = g := by injection e
        subst this
        refine ⟨rfl, ?_⟩
        intro gr hgr
        rcases List.mem_cons.1 hgr with rfl | hm
        · exact Or.inl rfl
        · exact Or.inr hm

/-- While only the callers act, every held key stays in a caller's hands. -/
theorem ownedAll_internal {s : State} (h : CInv s) (ho : ownedAll s) (op : Op) (hop : internal op = true) :
    ownedAll (step s op).1 := by
  cases op with
  | begin kd k p => simp [internal] at hop
  | bctx c => simp [internal] at hop
  | raw op => simp [internal] at hop
  | acquire c =>
    simp only [step]; split
    · have hs := lockop_shape s.lk (lockCall s c) (by
        simp only [lockCall]; split
        · exact Or.inl ⟨_, _, _, rfl⟩
        · exact Or.inr (Or.inl ⟨_, _, rfl⟩))
      exact settle_owned s h c _ ho hs.1 hs.2
    · exact ho
  | retest c =>
    simp only [step]; split
    · have hs := lockop_shape s.lk (.retest (2 * c)) (Or.inr (Or.inr ⟨_, rfl⟩))
      exact settle_owned s h c _ ho hs.1 hs.2
    · exact ho
  | check c =>
    simp only [step]; split
    · split <;> exact ho
    · exact ho
  | leave c r => simp only [step]; split <;> exact ho
  | done c =>
    simp only [step]; split
    · intro gr hgr
      exact ho gr ((release_active _ _ _).1 hgr).1
    · exact ho
    · exact ho
    · exact ho
    · exact ho
  | ret c => simp only [step]; split <;> exact ho

theorem lockCall_out {s : State} (h : CInv s) (c : Nat) (hpc : s.pc c = .start) :
    (∃ g, (Locks.step s.lk (lockCall s c)).2 = .acquired g) ∨
    (Locks.step s.lk (lockCall s c)).2 = .parked ∨ (Locks.step s.lk (lockCall s c)).2 = .busy := by
  have hnw : s.pc c ≠ .waiting := by rw [hpc]; simp
  simp only [lockCall]
  split
  · simp only [Locks.step, any_tid_false_of h c hnw]
    by_cases hheld : s.key c ∈ s.lk.held
    · simp [hheld]
    · simp [hheld, Locks.acquire]
  · simp only [Locks.step]
    by_cases hheld : s.key c ∈ s.lk.held
    · simp [hheld]
    · simp [hheld, Locks.acquire]

theorem settle_mu_lt (s : State) (c : Nat) (r : Locks.State × Locks.Out) (hc : c < s.n)
    (h7 : weight (s.pc c) = 7)
    (hr : (∃ g, r.2 = .acquired g) ∨ r.2 = .parked ∨ r.2 = .busy) : mu (settle s c r).1 < mu s := by
  simp only [settle]
  rcases hr with ⟨g, hg⟩ | hg | hg <;> simp only [hg]
  · exact mu_pc_lt s _ c _ rfl rfl hc (by rw [h7]; simp [weight])
  · exact mu_pc_lt s _ c _ rfl rfl hc (by rw [h7]; simp [weight])
  · exact mu_pc_lt s _ c _ rfl rfl hc (by rw [h7]; simp [weight])

/-- A parked caller whose key is free is runnable, and its re-test is granted the key. -/
theorem waiting_free_retest {s : State} (h : CInv s) (c : Nat) (hpc : s.pc c = .waiting)
    (hfree : s.key c ∉ s.lk.held) :
    ∃ lk', Locks.step s.lk (.retest (2 * c)) = (lk', .acquired s.lk.issued) := by
  rcases List.mem_map.1 (h.waitHas c hpc) with ⟨w0, hw0, he⟩
  have h1 : w0.tid = 2 * c := by have := congrArg Prod.fst he; simpa using this
  have h2 : w0.key = s.key c := by have := congrArg (fun x => x.2.1) he; simpa using this
  have hrun : w0.runnable = true := by
    cases hr : w0.runnable with
    | true => rfl
    | false => exact absurd (h2 ▸ h.lk.noLostWake w0 hw0 hr) hfree
  simp only [Locks.step]
  cases hf : s.lk.parked.find? (fun w => w.tid == 2 * c && w.runnable) with
  | none =>
    have := List.find?_eq_none.1 hf w0 hw0
    simp [h1, hrun] at this
  | some w =>
    have hwm := List.mem_of_find?_eq_some hf
    have hwt : w.tid = 2 * c := by have := List.find?_some hf; simp at this; exact this.1
    have : w = w0 := eq_of_nodup_map (·.tid) _ h.lk.tidNodup hwm hw0 (by simp [hwt, h1])
    subst this
    simp only [h2, hfree, if_false, Locks.acquire]
    exact ⟨_, rfl⟩

/-- Deadlock freedom of the callers: while some call is not over and only
    callers hold keys, some caller has a step that brings the callers strictly
    closer to completion. -/
theorem progress {s : State} (h : CInv s) (ho : ownedAll s) (hpos : 0 < mu s) :
    ∃ op, internal op = true ∧ mu (step s op).1 < mu s := by
  obtain ⟨c0, hc0, hw0⟩ := sumTo_pos _ _ hpos
  by_cases hex : ∃ c, c < s.n ∧ 0 < weight (s.pc c) ∧ s.pc c ≠ .waiting
  · obtain ⟨c, hc, hw, hnw⟩ := hex
    cases hpc : s.pc c with
    | none => rw [hpc] at hw; simp [weight] at hw
    | returned => rw [hpc] at hw; simp [weight] at hw
    | waiting => exact absurd hpc hnw
    | start =>
      refine ⟨.acquire c, rfl, ?_⟩
      simp only [step, hpc]
      exact settle_mu_lt s c _ hc (by rw [hpc]; rfl) (lockCall_out h c hpc)
    | granted g =>
      refine ⟨.check c, rfl, ?_⟩
      simp only [step, hpc]
      split
      · exact mu_pc_lt s _ c _ rfl rfl hc (by rw [hpc]; simp [weight])
      · exact mu_pc_lt s _ c _ rfl rfl hc (by rw [hpc]; simp [weight])
    | body g =>
      refine ⟨.leave c 0, rfl, ?_⟩
      simp only [step, hpc]
      exact mu_pc_lt s _ c _ rfl rfl hc (by rw [hpc]; simp [weight])
    | mustRelease g =>
      refine ⟨.done c, rfl, ?_⟩
      simp only [step, hpc]
      exact mu_pc_lt s _ c _ rfl rfl hc (by rw [hpc]; simp [weight])
    | refused =>
      refine ⟨.done c, rfl, ?_⟩
      simp only [step, hpc]
      exact mu_pc_lt s _ c _ rfl rfl hc (by rw [hpc]; simp [weight])
    | finished =>
      refine ⟨.ret c, rfl, ?_⟩
      simp only [step, hpc]
      exact mu_pc_lt s _ c _ rfl rfl hc (by rw [hpc]; simp [weight])
  · -- every unfinished call is parked: the key of the first one is free, so its re-test is granted
    have hall : ∀ c, c < s.n → 0 < weight (s.pc c) → s.pc c = .waiting := by
      intro c hc hw
      cases hp : s.pc c with
      | waiting => rfl
      | _ => exact absurd ⟨c, hc, hw, by rw [hp]; simp⟩ hex
    have hpc := hall c0 hc0 hw0
    have hfree : s.key c0 ∉ s.lk.held := by
      intro hheld
      rcases List.mem_map.1 ((h.lk.heldIff _).1 hheld) with ⟨gr, hgr, _⟩
      have hsome := ho gr hgr
      cases hown : s.owner gr.gid with
      | none => rw [hown] at hsome; cases hsome
      | some c' =>
        have hg := h.ownHeld gr hgr c' hown
        have hne : s.pc c' ≠ .none := by intro e; rw [e] at hg; cases hg
        have hw' : 0 < weight (s.pc c') := by
          cases hp : s.pc c' <;> rw [hp] at hg <;> simp [Pc.gid?] at hg <;> simp [weight]
        have := hall c' (lt_n_of_pc h c' hne) hw'
        rw [this] at hg; cases hg
    obtain ⟨lk', hstep⟩ := waiting_free_retest h c0 hpc hfree
    refine ⟨.retest c0, rfl, ?_⟩
    simp only [step, hpc, hstep, settle]
    exact mu_pc_lt s _ c0 _ rfl rfl hc0 (by rw [hpc]; simp [weight])

/-- When every call is over and only callers were given keys, nothing is held. -/
theorem mu_zero_free {s : State} (h : CInv s) (ho : ownedAll s) (hz : mu s = 0) :
    s.lk.active = [] ∧ s.lk.held = [] := by
  have hact : s.lk.active = [] := by
    cases ha : s.lk.active with
    | nil => rfl
    | cons gr rest =>
      have hgr : gr ∈ s.lk.active := by rw [ha]; exact List.mem_cons_self
      have hsome := ho gr hgr
      cases hown : s.owner gr.gid with
      | none => rw [hown] at hsome; cases hsome
      | some c' =>
        have hg := h.ownHeld gr hgr c' hown
        have hne : s.pc c' ≠ .none := by intro e; rw [e] at hg; cases hg
        have hw' : 0 < weight (s.pc c') := by
          cases hp : s.pc c' <;> rw [hp] at hg <;> simp [Pc.gid?] at hg <;> simp [weight]
        have := sumTo_zero _ _ hz c' (lt_n_of_pc h c' hne)
        omega
  refine ⟨hact, ?_⟩
  cases hh : s.lk.held with
  | nil => rfl
  | cons k rest =>
    have : k ∈ s.lk.held := by rw [hh]; exact List.mem_cons_self
    have := (h.lk.heldIff k).1 this
    rw [hact] at this; cases this

/-- Liveness: from any state in which only callers hold keys, the callers
    themselves (no outside help) can run every call to completion, after which
    no key is held. -/
theorem drain : ∀ (m : Nat) (s : State), CInv s → ownedAll s → mu s ≤ m →
    ∃ ops, (∀ op ∈ ops, internal op = true) ∧ mu (Sm.run step s ops) = 0 ∧
      CInv (Sm.run step s ops) ∧ ownedAll (Sm.run step s ops) := by
  intro m
  induction m with
  | zero =>
    intro s h ho hm
    exact ⟨[], by simp, by simpa using Nat.le_zero.1 hm, h, ho⟩
  | succ m ih =>
    intro s h ho hm
    by_cases hz : mu s = 0
    · exact ⟨[], by simp, by simpa using hz, h, ho⟩
    · obtain ⟨op, hint, hlt⟩ := progress h ho (Nat.pos_of_ne_zero hz)
      obtain ⟨ops, hall, hfin, hci, hoi⟩ :=
        ih (step s op).1 (cinv_step h op) (ownedAll_internal h ho op hint) (by omega)
      refine ⟨op :: ops, ?_, by simpa using hfin, by simpa using hci, by simpa using hoi⟩
      intro o hoo
      rcases List.mem_cons.1 hoo with rfl | hm'
      · exact hint
      · exact hall o hm'

end ClairModel.LockCallers
