/-
  Basic lemmas about the indexer model: the call primitive, the store
  operations, the monotonicity order on stores, the store invariant.
-/
import ClairModel.Model.Indexer

namespace ClairModel.Indexer
open ClairModel.SortDedup

/-! ## Oracles -/

/-- No call is answered with a DeadlineExceeded-class error. -/
def NoDeadline (o : Oracle) : Prop := ∀ p, o p ≠ .deadline
/-- No call commits its effect and then reports an error. -/
def NoCommitErr (o : Oracle) : Prop := ∀ p, o p ≠ .commitErr
/-- Fault-free. -/
def FF (o : Oracle) : Prop := ∀ p, o p = .ok

theorem FF.noDeadline {o : Oracle} (h : FF o) : NoDeadline o := by
  intro p hp; rw [h p] at hp; cases hp
theorem FF.noCommitErr {o : Oracle} (h : FF o) : NoCommitErr o := by
  intro p hp; rw [h p] at hp; cases hp

/-- Context live and process alive. -/
def Clean (e : Env) : Prop := e.dead = false ∧ e.crashed = false

/-! ## The call primitive -/

/-- Everything the rest of the development needs to know about one call. -/
structure CallSpec (o : Oracle) (w : W) (e : Env) (v : Verdict) : Prop where
  fetched : e.fetched = w.e.fetched
  scans : e.scans = w.e.scans
  dead : w.e.dead = true → e.dead = true
  crashed : w.e.crashed = true → e.crashed = true
  okEffect : v.err = none → v.effect = true
  failedMono : w.e.failed = true → e.failed = true
  errFailed : v.err ≠ none → e.failed = true
  okFailed : v.err = none → e.failed = w.e.failed
  noDl : NoDeadline o → v.err ≠ some .dl
  noCommit : NoCommitErr o → v.err ≠ none → v.effect = false
  ff : FF o → Clean w.e → v = ⟨true, none⟩ ∧ Clean e
  okClean : v.err = none → w.e.crashed = false ∧ w.e.dead = false
  crashedFail : w.e.crashed = true → v.err ≠ none ∧ v.effect = false
  deadFail : w.e.dead = true → v.err ≠ none ∧ v.effect = false

theorem call_spec (o : Oracle) (w : W) (ch : Char) :
    ∃ e v, w.call o ch = (⟨w.st, e⟩, v) ∧ CallSpec o w e v := by
  refine ⟨(enter o w.e ch).1, (enter o w.e ch).2, rfl, ?_⟩
  unfold enter
  cases hc : w.e.crashed <;> cases hd : w.e.dead <;> simp only [Bool.false_eq_true, if_false, if_true]
  · cases ho : o w.e.pos <;>
      constructor <;> simp_all [NoDeadline, NoCommitErr, FF, Clean] <;>
      (try exact ⟨w.e.pos, by simp [ho]⟩)
  all_goals
    constructor <;> simp_all [NoDeadline, NoCommitErr, FF, Clean]

@[simp] theorem call_st (o : Oracle) (w : W) (ch : Char) : (w.call o ch).1.st = w.st := rfl

/-! ## Order on stores: everything only grows -/

structure Le (a b : Store) : Prop where
  manifests : ∀ m, m ∈ a.manifests → m ∈ b.manifests
  scannedLayer : ∀ x, x ∈ a.scannedLayer → x ∈ b.scannedLayer
  rows : ∀ x, x ∈ a.rows → x ∈ b.rows
  scannedManifest : ∀ x, x ∈ a.scannedManifest → x ∈ b.scannedManifest
  reports : ∀ m, (a.report? m).isSome → (b.report? m).isSome
  index : ∀ m, (∃ b', (m, b') ∈ a.index) → ∃ b', (m, b') ∈ b.index

theorem Le.refl (a : Store) : Le a a := ⟨fun _ h => h, fun _ h => h, fun _ h => h, fun _ h => h, fun _ h => h, fun _ h => h⟩

theorem Le.trans {a b c : Store} (h₁ : Le a b) (h₂ : Le b c) : Le a c :=
  ⟨fun x h => h₂.manifests x (h₁.manifests x h), fun x h => h₂.scannedLayer x (h₁.scannedLayer x h),
   fun x h => h₂.rows x (h₁.rows x h), fun x h => h₂.scannedManifest x (h₁.scannedManifest x h),
   fun m h => h₂.reports m (h₁.reports m h), fun m h => h₂.index m (h₁.index m h)⟩

/-- What indexing manifest `m` may touch of other manifests: nothing. -/
structure Frame (m : Manifest) (a b : Store) : Prop where
  report : ∀ m', m' ≠ m → b.report? m' = a.report? m'
  scanned : ∀ m' s, m' ≠ m → ((m', s) ∈ b.scannedManifest ↔ (m', s) ∈ a.scannedManifest)

theorem Frame.refl (m : Manifest) (a : Store) : Frame m a a := ⟨fun _ _ => rfl, fun _ _ _ => Iff.rfl⟩

theorem Frame.trans {m : Manifest} {a b c : Store} (h₁ : Frame m a b) (h₂ : Frame m b c) : Frame m a c :=
  ⟨fun m' h => (h₂.report m' h).trans (h₁.report m' h), fun m' s h => (h₂.scanned m' s h).trans (h₁.scanned m' s h)⟩

/-! ## The store invariant -/

/-- What the store's records mean (C07): stored rows are scanner output; a layer
    recorded as scanned by a scanner has all of that scanner's output stored; a
    manifest recorded as scanned by a scanner has every layer recorded as
    scanned by it, is persisted, indexed, and has a report. -/
structure Inv (sem : Sem) (st : Store) : Prop where
  rowsSound : ∀ r, r ∈ st.rows → r.row ∈ sem.scan r.scanner r.layer
  layerComplete : ∀ l s, (l, s) ∈ st.scannedLayer → ∀ r, r ∈ sem.scan s l → (⟨l, s, r⟩ : ArtRow) ∈ st.rows
  manifestLayers : ∀ m s, (m, s) ∈ st.scannedManifest → ∀ l, l ∈ m → (l, s) ∈ st.scannedLayer
  manifestPersisted : ∀ m s, (m, s) ∈ st.scannedManifest → m ∈ st.manifests
  manifestReport : ∀ m s, (m, s) ∈ st.scannedManifest → (st.report? m).isSome
  manifestIndexed : ∀ m s, (m, s) ∈ st.scannedManifest → ∃ b, (m, b) ∈ st.index

theorem inv_empty (sem : Sem) : Inv sem {} := by
  constructor <;> simp

/-! ## Store operations -/

namespace Store

theorem report?_cons (st : Store) (m m' : Manifest) (r : Report) (rest : List (Manifest × Report)) :
    (({ st with reports := (m, r) :: rest } : Store).report? m') =
      if m = m' then some r else ({ st with reports := rest } : Store).report? m' := by
  simp only [report?, List.find?_cons]
  by_cases h : m = m'
  · simp [h]
  · have hb : (m == m') = false := beq_eq_false_iff_ne.2 h
    simp [h, hb]

theorem report?_cons' (a b c d : _) (e : List (Manifest × Report)) (f : _) (m m' : Manifest) (r : Report) :
    ((⟨a, b, c, d, (m, r) :: e, f⟩ : Store).report? m') =
      if m = m' then some r else (⟨a, b, c, d, e, f⟩ : Store).report? m' :=
  report?_cons ⟨a, b, c, d, e, f⟩ m m' r e

theorem le_persistManifest (st : Store) (m : Manifest) : Le st (st.persistManifest m) := by
  unfold persistManifest
  split
  · exact Le.refl _
  · exact ⟨fun x h => List.mem_cons_of_mem _ h, fun _ h => h, fun _ h => h, fun _ h => h, fun _ h => h, fun _ h => h⟩

theorem mem_persistManifest (st : Store) (m : Manifest) : m ∈ (st.persistManifest m).manifests := by
  unfold persistManifest
  split
  · assumption
  · simp

theorem inv_persistManifest {sem : Sem} {st : Store} (h : Inv sem st) (m : Manifest) : Inv sem (st.persistManifest m) := by
  unfold persistManifest
  split
  · exact h
  · exact ⟨h.rowsSound, h.layerComplete, h.manifestLayers, fun m' s hm => List.mem_cons_of_mem _ (h.manifestPersisted m' s hm),
      h.manifestReport, h.manifestIndexed⟩

theorem frame_persistManifest (st : Store) (m m0 : Manifest) : Frame m0 st (st.persistManifest m) := by
  unfold persistManifest
  split
  · exact Frame.refl _ _
  · exact ⟨fun _ _ => rfl, fun _ _ _ => Iff.rfl⟩

theorem le_insertRows (st : Store) (l : Layer) (s : Scanner) (g : List Row) : Le st (st.insertRows l s g) :=
  ⟨fun _ h => h, fun _ h => h, fun _ h => List.mem_append_right _ h, fun _ h => h, fun _ h => h, fun _ h => h⟩

theorem inv_insertRows {sem : Sem} {st : Store} (h : Inv sem st) (l : Layer) (s : Scanner) (g : List Row)
    (hg : ∀ r, r ∈ g → r ∈ sem.scan s l) : Inv sem (st.insertRows l s g) := by
  refine ⟨?_, ?_, h.manifestLayers, h.manifestPersisted, h.manifestReport, h.manifestIndexed⟩
  · intro r hr
    simp only [insertRows, List.mem_append, List.mem_map] at hr
    rcases hr with ⟨r', hr', rfl⟩ | hr
    · exact hg r' hr'
    · exact h.rowsSound r hr
  · intro l' s' hls r hr
    simp only [insertRows, List.mem_append]
    exact Or.inr (h.layerComplete l' s' hls r hr)

theorem frame_insertRows (st : Store) (l : Layer) (s : Scanner) (g : List Row) (m0 : Manifest) :
    Frame m0 st (st.insertRows l s g) := ⟨fun _ _ => rfl, fun _ _ _ => Iff.rfl⟩

theorem mem_insertRows (st : Store) (l : Layer) (s : Scanner) (g : List Row) (r : Row) (hr : r ∈ g) :
    (⟨l, s, r⟩ : ArtRow) ∈ (st.insertRows l s g).rows := by
  simp only [insertRows, List.mem_append, List.mem_map]
  exact Or.inl ⟨r, hr, rfl⟩

theorem le_setLayerScanned (st : Store) (l : Layer) (s : Scanner) : Le st (st.setLayerScanned l s) :=
  ⟨fun _ h => h, fun _ h => List.mem_cons_of_mem _ h, fun _ h => h, fun _ h => h, fun _ h => h, fun _ h => h⟩

theorem inv_setLayerScanned {sem : Sem} {st : Store} (h : Inv sem st) (l : Layer) (s : Scanner)
    (hc : ∀ r, r ∈ sem.scan s l → (⟨l, s, r⟩ : ArtRow) ∈ st.rows) : Inv sem (st.setLayerScanned l s) := by
  refine ⟨h.rowsSound, ?_, ?_, h.manifestPersisted, h.manifestReport, h.manifestIndexed⟩
  · intro l' s' hls r hr
    simp only [setLayerScanned, List.mem_cons] at hls
    rcases hls with heq | hls
    · cases heq; exact hc r hr
    · exact h.layerComplete l' s' hls r hr
  · intro m s' hm l' hl'
    exact List.mem_cons_of_mem _ (h.manifestLayers m s' hm l' hl')

theorem frame_setLayerScanned (st : Store) (l : Layer) (s : Scanner) (m0 : Manifest) :
    Frame m0 st (st.setLayerScanned l s) := ⟨fun _ _ => rfl, fun _ _ _ => Iff.rfl⟩

theorem le_indexManifest (st : Store) (m : Manifest) (b : Body) : Le st (st.indexManifest m b) :=
  ⟨fun _ h => h, fun _ h => h, fun _ h => h, fun _ h => h, fun _ h => h,
   fun m' ⟨b', h⟩ => ⟨b', List.mem_cons_of_mem _ h⟩⟩

theorem inv_indexManifest {sem : Sem} {st : Store} (h : Inv sem st) (m : Manifest) (b : Body) : Inv sem (st.indexManifest m b) :=
  ⟨h.rowsSound, h.layerComplete, h.manifestLayers, h.manifestPersisted, h.manifestReport,
   fun m' s hm => let ⟨b', hb⟩ := h.manifestIndexed m' s hm; ⟨b', List.mem_cons_of_mem _ hb⟩⟩

theorem frame_indexManifest (st : Store) (m : Manifest) (b : Body) (m0 : Manifest) :
    Frame m0 st (st.indexManifest m b) := ⟨fun _ _ => rfl, fun _ _ _ => Iff.rfl⟩

theorem setIndexReport_eq {st st' : Store} {m : Manifest} {r : Report} (h : st.setIndexReport m r = some st') :
    m ∈ st.manifests ∧ st' = { st with reports := (m, r) :: st.reports } := by
  unfold setIndexReport at h
  split at h
  · rename_i hm; cases h; exact ⟨hm, rfl⟩
  · cases h

theorem le_setIndexReport {st st' : Store} {m : Manifest} {r : Report} (h : st.setIndexReport m r = some st') : Le st st' := by
  obtain ⟨_, rfl⟩ := setIndexReport_eq h
  refine ⟨fun _ h => h, fun _ h => h, fun _ h => h, fun _ h => h, ?_, fun _ h => h⟩
  intro m' hm'
  rw [report?_cons]
  split
  · rfl
  · exact hm'

theorem inv_setIndexReport {sem : Sem} {st st' : Store} {m : Manifest} {r : Report} (hi : Inv sem st)
    (h : st.setIndexReport m r = some st') : Inv sem st' := by
  have hle := le_setIndexReport h
  obtain ⟨_, rfl⟩ := setIndexReport_eq h
  exact ⟨hi.rowsSound, hi.layerComplete, hi.manifestLayers, hi.manifestPersisted,
    fun m' s hm => hle.reports m' (hi.manifestReport m' s hm), hi.manifestIndexed⟩

theorem frame_setIndexReport {st st' : Store} {m : Manifest} {r : Report} (h : st.setIndexReport m r = some st') : Frame m st st' := by
  obtain ⟨_, rfl⟩ := setIndexReport_eq h
  refine ⟨?_, fun _ _ _ => Iff.rfl⟩
  intro m' hne
  rw [report?_cons]
  simp [Ne.symm hne]

theorem report?_setIndexReport {st st' : Store} {m : Manifest} {r : Report} (h : st.setIndexReport m r = some st') :
    st'.report? m = some r := by
  obtain ⟨_, rfl⟩ := setIndexReport_eq h
  rw [report?_cons]; simp

theorem setIndexFinished_eq {st st' : Store} {m : Manifest} {vs : List Scanner} {r : Report}
    (h : st.setIndexFinished m vs r = some st') :
    m ∈ st.manifests ∧ st' = { st with scannedManifest := (vs.map fun s => (m, s)) ++ st.scannedManifest, reports := (m, r) :: st.reports } := by
  unfold setIndexFinished at h
  split at h
  · rename_i hm; cases h; exact ⟨hm, rfl⟩
  · cases h

theorem le_setIndexFinished {st st' : Store} {m : Manifest} {vs : List Scanner} {r : Report}
    (h : st.setIndexFinished m vs r = some st') : Le st st' := by
  obtain ⟨_, rfl⟩ := setIndexFinished_eq h
  refine ⟨fun _ h => h, fun _ h => h, fun _ h => h, fun _ h => List.mem_append_right _ h, ?_, fun _ h => h⟩
  intro m' hm'
  rw [report?_cons']
  split
  · rfl
  · exact hm'

theorem mem_setIndexFinished {st st' : Store} {m : Manifest} {vs : List Scanner} {r : Report}
    (h : st.setIndexFinished m vs r = some st') (x : Manifest × Scanner) :
    x ∈ st'.scannedManifest ↔ (x.1 = m ∧ x.2 ∈ vs) ∨ x ∈ st.scannedManifest := by
  obtain ⟨_, rfl⟩ := setIndexFinished_eq h
  simp only [List.mem_append, List.mem_map]
  constructor
  · rintro (⟨s, hs, rfl⟩ | h)
    · exact Or.inl ⟨rfl, hs⟩
    · exact Or.inr h
  · rintro (⟨h1, h2⟩ | h)
    · exact Or.inl ⟨x.2, h2, by rw [← h1]⟩
    · exact Or.inr h

theorem inv_setIndexFinished {sem : Sem} {st st' : Store} {m : Manifest} {vs : List Scanner} {r : Report}
    (hi : Inv sem st) (h : st.setIndexFinished m vs r = some st')
    (hl : ∀ s, s ∈ vs → ∀ l, l ∈ m → (l, s) ∈ st.scannedLayer)
    (hx : ∃ b, (m, b) ∈ st.index) : Inv sem st' := by
  have hle := le_setIndexFinished h
  have hmem := mem_setIndexFinished h
  obtain ⟨hm, heq⟩ := setIndexFinished_eq h
  have hrows : st'.rows = st.rows := by rw [heq]
  have hsl : st'.scannedLayer = st.scannedLayer := by rw [heq]
  have hman : st'.manifests = st.manifests := by rw [heq]
  have hidx : st'.index = st.index := by rw [heq]
  refine ⟨?_, ?_, ?_, ?_, ?_, ?_⟩
  · rw [hrows]; exact hi.rowsSound
  · rw [hrows, hsl]; exact hi.layerComplete
  · intro m' s hms l hlm
    rw [hsl]
    rcases (hmem (m', s)).1 hms with ⟨h1, h2⟩ | h'
    · simp only at h1 h2; subst h1; exact hl s h2 l hlm
    · exact hi.manifestLayers m' s h' l hlm
  · intro m' s hms
    rw [hman]
    rcases (hmem (m', s)).1 hms with ⟨h1, _⟩ | h'
    · simp only at h1; subst h1; exact hm
    · exact hi.manifestPersisted m' s h'
  · intro m' s hms
    rcases (hmem (m', s)).1 hms with ⟨h1, _⟩ | h'
    · simp only at h1; subst h1
      rw [heq, report?_cons']; simp
    · exact hle.reports m' (hi.manifestReport m' s h')
  · intro m' s hms
    rw [hidx]
    rcases (hmem (m', s)).1 hms with ⟨h1, _⟩ | h'
    · simp only at h1; subst h1; exact hx
    · exact hi.manifestIndexed m' s h'

theorem frame_setIndexFinished {st st' : Store} {m : Manifest} {vs : List Scanner} {r : Report}
    (h : st.setIndexFinished m vs r = some st') : Frame m st st' := by
  have hmem := mem_setIndexFinished h
  obtain ⟨_, heq⟩ := setIndexFinished_eq h
  refine ⟨?_, ?_⟩
  · intro m' hne
    rw [heq, report?_cons']
    simp only [Ne.symm hne, if_false]
    rfl
  · intro m' s hne
    rw [hmem (m', s)]
    simp [hne]

theorem report?_setIndexFinished {st st' : Store} {m : Manifest} {vs : List Scanner} {r : Report}
    (h : st.setIndexFinished m vs r = some st') : st'.report? m = some r := by
  obtain ⟨_, rfl⟩ := setIndexFinished_eq h
  rw [report?_cons']; simp

theorem manifestScanned_iff (st : Store) (m : Manifest) (vs : List Scanner) :
    st.manifestScanned m vs = true ↔ ∀ s, s ∈ vs → (m, s) ∈ st.scannedManifest := by
  simp [manifestScanned, List.all_eq_true]

theorem layerScanned_iff (st : Store) (l : Layer) (s : Scanner) :
    st.layerScanned l s = true ↔ (l, s) ∈ st.scannedLayer := by
  simp [layerScanned]

end Store

/-! ## What a fault-free run on an empty store reports -/

/-- The items of kind `t` the scanners `ss` find in layer `l`, canonically. -/
def idealItems (sem : Sem) (l : Layer) (ss : List Scanner) (t : Tag) : List Item :=
  canon (((ss.flatMap fun s => sem.scan s l).filter fun r => r.tag == t).map (·.item))

def idealArts (sem : Sem) (eco : Eco) (l : Layer) : LayerArts :=
  { layer := l
    pkgs := idealItems sem l eco.ps .pkg
    pkgRepos := idealItems sem l eco.ps .repo
    dists := idealItems sem l eco.ds .dist
    repos := idealItems sem l eco.rs .repo
    files := idealItems sem l eco.fs .file }

/-- Report content determined by the manifest and the configuration alone. -/
def freshBody (sem : Sem) (cfg : Cfg) (m : Manifest) : Body :=
  sem.merge (cfg.map fun eco => sem.coal eco (m.map (idealArts sem eco)))

/-- The report of a fault-free run (theorem `index_fresh`). -/
def freshReport (sem : Sem) (cfg : Cfg) (m : Manifest) : Report :=
  { success := true, state := some .indexFinished, err := false, body := freshBody sem cfg m }

/-- With the invariant, a query over scanners that all scanned the layer
    returns exactly what they find in it. -/
theorem itemsBy_ideal {sem : Sem} {st : Store} (hi : Inv sem st) (l : Layer) (ss : List Scanner) (t : Tag)
    (hm : ∀ s, s ∈ ss → (l, s) ∈ st.scannedLayer) : st.itemsBy l ss t = idealItems sem l ss t := by
  unfold Store.itemsBy idealItems
  apply canon_congr
  intro x
  simp only [List.mem_map, List.mem_filter, List.mem_flatMap, Bool.and_eq_true, beq_iff_eq, decide_eq_true_eq]
  constructor
  · rintro ⟨r, ⟨hr, ⟨hl, hs⟩, ht⟩, rfl⟩
    refine ⟨r.row, ⟨⟨r.scanner, hs, ?_⟩, ht⟩, rfl⟩
    have := hi.rowsSound r hr
    rw [hl] at this
    exact this
  · rintro ⟨row, ⟨⟨s, hs, hrow⟩, ht⟩, rfl⟩
    exact ⟨⟨l, s, row⟩, ⟨hi.layerComplete l s (hm s hs) row hrow, ⟨rfl, hs⟩, ht⟩, rfl⟩

theorem mem_dedupS {s : Scanner} : ∀ {l : List Scanner}, s ∈ dedupS l ↔ s ∈ l
  | [] => by simp [dedupS]
  | x :: rest => by
    simp only [dedupS, List.mem_cons, List.mem_filter, mem_dedupS (l := rest)]
    constructor
    · rintro (h | ⟨h, _⟩)
      · exact Or.inl h
      · exact Or.inr h
    · intro h
      by_cases hx : s = x
      · exact Or.inl hx
      · rcases h with h | h
        · exact absurd h hx
        · exact Or.inr ⟨h, by simpa using hx⟩

theorem mem_scanners (cfg : Cfg) (s : Scanner) :
    s ∈ cfg.scanners ↔ ∃ eco, eco ∈ cfg ∧ (s ∈ eco.ps ∨ s ∈ eco.ds ∨ s ∈ eco.rs ∨ s ∈ eco.fs) := by
  simp only [Cfg.scanners, mem_dedupS, List.mem_append, List.mem_flatMap]
  constructor
  · rintro (((⟨e, he, h⟩ | ⟨e, he, h⟩) | ⟨e, he, h⟩) | ⟨e, he, h⟩)
    · exact ⟨e, he, Or.inl h⟩
    · exact ⟨e, he, Or.inr (Or.inl h)⟩
    · exact ⟨e, he, Or.inr (Or.inr (Or.inl h))⟩
    · exact ⟨e, he, Or.inr (Or.inr (Or.inr h))⟩
  · rintro ⟨e, he, h | h | h | h⟩
    · exact Or.inl (Or.inl (Or.inl ⟨e, he, h⟩))
    · exact Or.inl (Or.inl (Or.inr ⟨e, he, h⟩))
    · exact Or.inl (Or.inr ⟨e, he, h⟩)
    · exact Or.inr ⟨e, he, h⟩

end ClairModel.Indexer
