import ClairModel.Lib.Sm
import ClairModel.Model.Arena

/-!
  Invariant of the fetch-arena machine (the code as it is now, `step = stepG true`)
  and its preservation by every transition.
-/
set_option linter.unusedSimpArgs false

namespace ClairModel.Arena

/-! ### small facts about `upd` and lists -/

@[simp] theorem upd_same {α : Type} (f : Nat → α) (k : Nat) (v : α) : upd f k v k = v := by
  simp [upd]

theorem upd_other {α : Type} (f : Nat → α) (k : Nat) (v : α) (x : Nat) (h : x ≠ k) :
    upd f k v x = f x := by
  simp [upd, h]

/-- Replacing element `a` at position `i` by `b` moves the count by their difference. -/
theorem countP_set {α : Type} (f : α → Bool) :
    ∀ (l : List α) (i : Nat) (a b : α), l[i]? = some a →
      (l.set i b).countP f + (if f a then 1 else 0) = l.countP f + (if f b then 1 else 0) := by
  intro l
  induction l with
  | nil => intro i a b h; simp at h
  | cons x xs ih =>
    intro i a b h
    cases i with
    | zero =>
      simp only [List.getElem?_cons_zero, Option.some.injEq] at h
      subst h
      simp only [List.set_cons_zero, List.countP_cons]
      omega
    | succ j =>
      simp only [List.getElem?_cons_succ] at h
      have := ih j a b h
      simp only [List.set_cons_succ, List.countP_cons]
      omega

theorem mem_set_of_ne {α : Type} {l : List α} {t : Nat} {p q b : α}
    (hp : p ∈ l) (hq : l[t]? = some q) (hne : p ≠ q) : p ∈ l.set t b := by
  obtain ⟨i, hi⟩ := List.mem_iff_getElem?.1 hp
  have hit : t ≠ i := by
    intro h; subst h; rw [hq] at hi; exact hne (Option.some.inj hi).symm
  exact List.mem_of_getElem? (by rw [List.getElem?_set_ne hit]; exact hi)

theorem set_mem_new {α : Type} {l : List α} {t : Nat} {q b : α} (hq : l[t]? = some q) :
    b ∈ l.set t b := by
  have hlt : t < l.length := by
    rcases Nat.lt_or_ge t l.length with h | h
    · exact h
    · rw [List.getElem?_eq_none h] at hq; cases hq
  exact List.mem_of_getElem? (List.getElem?_set_self hlt)

/-! ### what a program counter refers to -/

/-- The key and rc a task has in hand. -/
def Pc.rcOf : Pc → Option (Nat × Nat)
  | .got k r => some (k, r)
  | .reffed k r => some (k, r)
  | .opened k r => some (k, r)
  | .staleRef k r => some (k, r)
  | .holding k r => some (k, r)
  | _ => none

/-- The rc whose file a task reads through a private descriptor. -/
def Pc.usesFile : Pc → Option Nat
  | .opened _ r => some r
  | .holding _ r => some r
  | _ => none

theorem refOn_rcOf {p : Pc} {r : Nat} (h : p.refOn r = true) : ∃ k, p.rcOf = some (k, r) := by
  cases p <;> simp [Pc.refOn, Pc.rcOf] at h ⊢ <;> exact h

theorem refOn_unique {p : Pc} {r r' : Nat} (h : p.refOn r = true) (h' : p.refOn r' = true) : r = r' := by
  cases p <;> simp [Pc.refOn] at h h' <;> omega

theorem usesFile_refOn {p : Pc} {r : Nat} (h : p.usesFile = some r) : p.refOn r = true := by
  cases p <;> simp [Pc.usesFile, Pc.refOn] at h ⊢ <;> exact h

theorem refOn_not_got {p : Pc} {r k r' : Nat} (h : p.refOn r = true) : p ≠ .got k r' := by
  intro hp; subst hp; simp [Pc.refOn] at h

/-! ### the invariant -/

structure Inv (s : State) : Prop where
  /-- the reference count is the number of open references -/
  cnt : ∀ r, (s.rc r).count = refsOn s r
  /-- the repaired code never abandons a reference -/
  noLeak : s.leaked = []
  /-- rc ids not yet handed out are untouched -/
  fresh : ∀ r, s.nrc ≤ r → s.rc r = {}
  /-- an arena entry is a created rc of that key whose file is open -/
  arenaOk : ∀ k r, s.arena k = some r → r < s.nrc ∧ (s.rc r).key = k ∧ (s.rc r).fileOpen = true
  /-- an open file is the arena entry of its key, unless the arena was Closed under it -/
  openIn : ∀ r, (s.rc r).fileOpen = true → s.arena (s.rc r).key = some r ∨ s.detached r = true
  /-- a flight that is past a Load miss owns its key: nothing is stored under it -/
  missNone : ∀ k f, s.flight k = some f →
    (f.phase = .missed ∨ f.phase = .requesting ∨ f.phase = .fetched) → s.arena k = none
  flightRes : ∀ k f r, s.flight k = some f → resultOf f.phase = some (some r) →
    r < s.nrc ∧ (s.rc r).key = k
  taskKey : ∀ p ∈ s.tasks, ∀ k r, p.rcOf = some (k, r) → r < s.nrc ∧ (s.rc r).key = k
  /-- whoever reads through a private descriptor reads an open file -/
  openHeld : ∀ p ∈ s.tasks, ∀ r, p.usesFile = some r → (s.rc r).fileOpen = true
  /-- a task blocked in the select waits for a flight that exists -/
  waitFlight : ∀ p ∈ s.tasks, ∀ k, p = .waiting k → s.flight k ≠ none
  /-- a stored file nobody references yet is on its way to a waiter, or was orphaned -/
  zeroIn : ∀ r, r < s.nrc → (s.rc r).fileOpen = true → (s.rc r).count = 0 →
    (∃ f, s.flight (s.rc r).key = some f ∧ resultOf f.phase = some (some r)) ∨
      .got (s.rc r).key r ∈ s.tasks ∨ r ∈ s.orphans

theorem inv_init : Inv init := by
  constructor <;> simp [init, refsOn]

/-! ### transitions that only move one task -/

theorem refsOn_setTask {s : State} {t : Nat} {q p' : Pc} (ht : s.tasks[t]? = some q) (r : Nat) :
    refsOn (setTask s t p') r + (if q.refOn r then 1 else 0) = refsOn s r + (if p'.refOn r then 1 else 0) := by
  have := countP_set (Pc.refOn r) s.tasks t q p' ht
  simp only [refsOn, setTask]
  omega

/-- A task moves from `q` to `p'`; nothing else changes. -/
theorem inv_setTask {s : State} (h : Inv s) {t : Nat} {q p' : Pc} (ht : s.tasks[t]? = some q)
    (href : ∀ r, p'.refOn r = q.refOn r)
    (hrc : ∀ k r, p'.rcOf = some (k, r) → q.rcOf = some (k, r))
    (hfile : ∀ r, p'.usesFile = some r → (s.rc r).fileOpen = true)
    (hwait : ∀ k, p' = .waiting k → s.flight k ≠ none)
    (hgot : ∀ k r, q = .got k r → (s.rc r).count ≠ 0) :
    Inv (setTask s t p') := by
  have hq : q ∈ s.tasks := List.mem_of_getElem? ht
  constructor
  · intro r
    have := refsOn_setTask (p' := p') ht r
    have hc := h.cnt r
    rw [href r] at this
    show (s.rc r).count = _
    omega
  · exact h.noLeak
  · exact h.fresh
  · exact h.arenaOk
  · exact h.openIn
  · exact h.missNone
  · exact h.flightRes
  · intro p hp k r hpr
    rcases List.mem_or_eq_of_mem_set hp with hp | rfl
    · exact h.taskKey p hp k r hpr
    · exact h.taskKey q hq k r (hrc k r hpr)
  · intro p hp r hpr
    rcases List.mem_or_eq_of_mem_set hp with hp | rfl
    · exact h.openHeld p hp r hpr
    · exact hfile r hpr
  · intro p hp k hpk
    rcases List.mem_or_eq_of_mem_set hp with hp | rfl
    · exact h.waitFlight p hp k hpk
    · exact hwait k hpk
  · intro r hlt ho hc
    rcases h.zeroIn r hlt ho hc with hf | hg | ho'
    · exact Or.inl hf
    · refine Or.inr (Or.inl ?_)
      apply mem_set_of_ne hg ht
      intro he
      exact hgot _ r he.symm hc
    · exact Or.inr (Or.inr ho')

/-! ### transitions that only change one flight -/

theorem inv_setFlight {s : State} (h : Inv s) (k : Nat) (f' : Flight) (hits' : Nat → Nat)
    (c1 : (f'.phase = .missed ∨ f'.phase = .requesting ∨ f'.phase = .fetched) → s.arena k = none)
    (c2 : ∀ r, resultOf f'.phase = some (some r) → r < s.nrc ∧ (s.rc r).key = k)
    (c3 : ∀ f r, s.flight k = some f → resultOf f.phase = some (some r) →
      resultOf f'.phase = some (some r)) :
    Inv { s with flight := upd s.flight k (some f'), hits := hits' } := by
  constructor
  · exact h.cnt
  · exact h.noLeak
  · exact h.fresh
  · exact h.arenaOk
  · exact h.openIn
  · intro k' f hf hp
    by_cases hk : k' = k
    · subst hk
      simp only [upd_same, Option.some.injEq] at hf
      subst hf
      exact c1 hp
    · simp only [upd_other _ _ _ _ hk] at hf
      exact h.missNone k' f hf hp
  · intro k' f r hf hr
    by_cases hk : k' = k
    · subst hk
      simp only [upd_same, Option.some.injEq] at hf
      subst hf
      exact c2 r hr
    · simp only [upd_other _ _ _ _ hk] at hf
      exact h.flightRes k' f r hf hr
  · exact h.taskKey
  · exact h.openHeld
  · intro p hp k' hpk
    by_cases hk : k' = k
    · subst hk; simp
    · simp only [upd_other _ _ _ _ hk]
      exact h.waitFlight p hp k' hpk
  · intro r hlt ho hc
    rcases h.zeroIn r hlt ho hc with ⟨f, hf, hr⟩ | hg | ho'
    · left
      by_cases hk : (s.rc r).key = k
      · rw [hk] at hf
        exact ⟨f', by simp only [hk, upd_same], c3 f r hf hr⟩
      · exact ⟨f, by simp only [upd_other _ _ _ _ hk]; exact hf, hr⟩
    · exact Or.inr (Or.inl hg)
    · exact Or.inr (Or.inr ho')

/-! ### releasing a reference: `rc.dec` together with the owner's move -/

theorem dec_one {s : State} {r : Nat} (h1 : (s.rc r).count = 1) :
    dec true s r =
      ({ s with rc := upd s.rc r { s.rc r with count := 0, fileOpen := false },
                arena := if s.arena (s.rc r).key = some r then upd s.arena (s.rc r).key none else s.arena,
                deaths := if (s.rc r).fileOpen then upd s.deaths (s.rc r).key (s.deaths (s.rc r).key + 1)
                          else s.deaths },
       false) := by
  have h0 : (s.rc r).count ≠ 0 := by omega
  simp only [dec, if_neg h0, if_pos h1, if_true]

theorem dec_many {s : State} {r : Nat} (h0 : (s.rc r).count ≠ 0) (h1 : (s.rc r).count ≠ 1) :
    dec true s r = ({ s with rc := upd s.rc r { s.rc r with count := (s.rc r).count - 1 } }, false) := by
  simp only [dec, if_neg h0, if_neg h1]

/-- Task `t` owns a reference on `r` (`q.refOn r`), releases it and moves to a state `p'`
    that owns nothing (`ready`, `failed`, `closed`). -/
theorem inv_dec_task {s : State} (h : Inv s) {t : Nat} {q p' : Pc} {r : Nat}
    (ht : s.tasks[t]? = some q) (hq : q.refOn r = true)
    (href : ∀ r', p'.refOn r' = false) (hrc : p'.rcOf = none) (hfile : p'.usesFile = none)
    (hwait : ∀ k, p' ≠ .waiting k) :
    Inv (setTask (dec true s r).1 t p') ∧ (dec true s r).2 = false := by
  have hqm : q ∈ s.tasks := List.mem_of_getElem? ht
  obtain ⟨kq, hkq⟩ := refOn_rcOf hq
  have hrlt : r < s.nrc := (h.taskKey q hqm kq r hkq).1
  -- the owner is counted
  have hpos : 0 < s.tasks.countP (Pc.refOn r) := List.countP_pos_iff.2 ⟨q, hqm, hq⟩
  have hcnt := h.cnt r
  have hcpos : 1 ≤ (s.rc r).count := by simp only [refsOn] at hcnt; omega
  have hset := fun r' => countP_set (Pc.refOn r') s.tasks t q p' ht
  have hother : ∀ r', r' ≠ r → q.refOn r' = false := by
    intro r' hne
    cases hb : q.refOn r' with
    | false => rfl
    | true => exact absurd (refOn_unique hb hq) hne
  have hgotq : ∀ k r', q ≠ .got k r' := fun k r' => refOn_not_got hq
  by_cases h1 : (s.rc r).count = 1
  · -- the count reaches zero: forget the key (if it is ours) and close the file
    rw [dec_one h1]
    refine ⟨?_, rfl⟩
    -- nobody else owns a reference on r
    have hnone : ∀ p ∈ s.tasks.set t p', p.refOn r = false := by
      have := hset r
      simp only [hq, href r, if_true] at this
      simp only [refsOn, h.noLeak] at hcnt
      have hz : (s.tasks.set t p').countP (Pc.refOn r) = 0 := by
        simp at this hcnt; omega
      intro p hp
      have := List.countP_eq_zero.1 hz p hp
      simpa using this
    -- arena after the release
    have harena : ∀ k r', (if s.arena (s.rc r).key = some r then upd s.arena (s.rc r).key none else s.arena) k = some r' →
        s.arena k = some r' ∧ r' ≠ r := by
      intro k r' hk
      split at hk
      · rename_i hin
        by_cases hkk : k = (s.rc r).key
        · subst hkk; simp at hk
        · rw [upd_other _ _ _ _ hkk] at hk
          refine ⟨hk, ?_⟩
          intro he; subst he
          exact hkk (h.arenaOk k r' hk).2.1.symm
      · rename_i hin
        refine ⟨hk, ?_⟩
        intro he; subst he
        have := (h.arenaOk k r' hk).2.1
        subst this
        exact hin hk
    constructor
    · intro r'
      by_cases hr : r' = r
      · subst hr
        have := hset r'
        simp only [hq, href r', if_true] at this
        simp only [refsOn, setTask, upd_same, h.noLeak] at hcnt ⊢
        simp at this hcnt ⊢
        omega
      · have := hset r'
        simp only [hother r' hr, href r'] at this
        have hc' := h.cnt r'
        simp only [refsOn, setTask, upd_other _ _ _ _ hr] at hc' ⊢
        simp at this
        omega
    · exact h.noLeak
    · intro r' hr'
      have hr'' : s.nrc ≤ r' := hr'
      have : r' ≠ r := by omega
      simp only [setTask, upd_other _ _ _ _ this]
      exact h.fresh r' hr''
    · intro k r' hk
      obtain ⟨hk', hne⟩ := harena k r' hk
      simp only [setTask, upd_other _ _ _ _ hne]
      exact h.arenaOk k r' hk'
    · intro r' ho
      by_cases hr : r' = r
      · subst hr; simp [setTask] at ho
      · simp only [setTask, upd_other _ _ _ _ hr] at ho ⊢
        rcases h.openIn r' ho with hin | hd
        · left
          split
          · rename_i hrin
            by_cases hkk : (s.rc r').key = (s.rc r).key
            · rw [hkk] at hin; rw [hrin] at hin; exact absurd (Option.some.inj hin).symm hr
            · rw [upd_other _ _ _ _ hkk]; exact hin
          · exact hin
        · exact Or.inr hd
    · intro k f hf hp
      have := h.missNone k f hf hp
      show (if s.arena (s.rc r).key = some r then upd s.arena (s.rc r).key none else s.arena) k = none
      split
      · by_cases hkk : k = (s.rc r).key
        · subst hkk; simp
        · rw [upd_other _ _ _ _ hkk]; exact this
      · exact this
    · intro k f r' hf hr
      have := h.flightRes k f r' hf hr
      refine ⟨this.1, ?_⟩
      by_cases hrr : r' = r
      · subst hrr; simp [setTask]; exact this.2
      · simp only [setTask, upd_other _ _ _ _ hrr]; exact this.2
    · intro p hp k r' hpr
      have hold : r' < s.nrc ∧ (s.rc r').key = k := by
        rcases List.mem_or_eq_of_mem_set hp with hp | rfl
        · exact h.taskKey p hp k r' hpr
        · rw [hrc] at hpr; cases hpr
      refine ⟨hold.1, ?_⟩
      by_cases hrr : r' = r
      · subst hrr; simp [setTask]; exact hold.2
      · simp only [setTask, upd_other _ _ _ _ hrr]; exact hold.2
    · intro p hp r' hpr
      have hne : r' ≠ r := by
        intro he; subst he
        have := hnone p hp
        rw [usesFile_refOn hpr] at this
        cases this
      simp only [setTask, upd_other _ _ _ _ hne]
      rcases List.mem_or_eq_of_mem_set hp with hp | rfl
      · exact h.openHeld p hp r' hpr
      · rw [hfile] at hpr; cases hpr
    · intro p hp k hpk
      rcases List.mem_or_eq_of_mem_set hp with hp | rfl
      · exact h.waitFlight p hp k hpk
      · exact absurd hpk (hwait k)
    · intro r' hlt ho hc
      have hne : r' ≠ r := by
        intro he; subst he; simp [setTask] at ho
      simp only [setTask, upd_other _ _ _ _ hne] at ho hc ⊢
      rcases h.zeroIn r' hlt ho hc with hf | hg | ho'
      · exact Or.inl hf
      · exact Or.inr (Or.inl (mem_set_of_ne hg ht (fun he => hgotq _ r' he.symm)))
      · exact Or.inr (Or.inr ho')
  · -- other references remain
    have hne0 : (s.rc r).count ≠ 0 := by omega
    have h2 : 2 ≤ (s.rc r).count := by omega
    rw [dec_many hne0 h1]
    refine ⟨?_, rfl⟩
    constructor
    · intro r'
      by_cases hr : r' = r
      · subst hr
        have := hset r'
        simp only [hq, href r', if_true] at this
        simp only [refsOn, setTask, upd_same, h.noLeak] at hcnt ⊢
        simp at this hcnt ⊢
        omega
      · have := hset r'
        simp only [hother r' hr, href r'] at this
        have hc' := h.cnt r'
        simp only [refsOn, setTask, upd_other _ _ _ _ hr] at hc' ⊢
        simp at this
        omega
    · exact h.noLeak
    · intro r' hr'
      have hr'' : s.nrc ≤ r' := hr'
      have : r' ≠ r := by omega
      simp only [setTask, upd_other _ _ _ _ this]
      exact h.fresh r' hr''
    · intro k r' hk
      have := h.arenaOk k r' hk
      by_cases hrr : r' = r
      · subst hrr; simp [setTask]; exact this
      · simp only [setTask, upd_other _ _ _ _ hrr]; exact this
    · intro r' ho
      by_cases hrr : r' = r
      · subst hrr
        simp [setTask] at ho ⊢
        exact h.openIn r' ho
      · simp only [setTask, upd_other _ _ _ _ hrr] at ho ⊢
        exact h.openIn r' ho
    · exact h.missNone
    · intro k f r' hf hr
      have := h.flightRes k f r' hf hr
      refine ⟨this.1, ?_⟩
      by_cases hrr : r' = r
      · subst hrr; simp [setTask]; exact this.2
      · simp only [setTask, upd_other _ _ _ _ hrr]; exact this.2
    · intro p hp k r' hpr
      have hold : r' < s.nrc ∧ (s.rc r').key = k := by
        rcases List.mem_or_eq_of_mem_set hp with hp | rfl
        · exact h.taskKey p hp k r' hpr
        · rw [hrc] at hpr; cases hpr
      refine ⟨hold.1, ?_⟩
      by_cases hrr : r' = r
      · subst hrr; simp [setTask]; exact hold.2
      · simp only [setTask, upd_other _ _ _ _ hrr]; exact hold.2
    · intro p hp r' hpr
      have hold : (s.rc r').fileOpen = true := by
        rcases List.mem_or_eq_of_mem_set hp with hp | rfl
        · exact h.openHeld p hp r' hpr
        · rw [hfile] at hpr; cases hpr
      by_cases hrr : r' = r
      · subst hrr; simp [setTask]; exact hold
      · simp only [setTask, upd_other _ _ _ _ hrr]; exact hold
    · intro p hp k hpk
      rcases List.mem_or_eq_of_mem_set hp with hp | rfl
      · exact h.waitFlight p hp k hpk
      · exact absurd hpk (hwait k)
    · intro r' hlt ho hc
      have hne : r' ≠ r := by
        intro he; subst he
        simp [setTask] at hc
        omega
      simp only [setTask, upd_other _ _ _ _ hne] at ho hc ⊢
      rcases h.zeroIn r' hlt ho hc with hf | hg | ho'
      · exact Or.inl hf
      · exact Or.inr (Or.inl (mem_set_of_ne hg ht (fun he => hgotq _ r' he.symm)))
      · exact Or.inr (Or.inr ho')

/-! ### `c.Ref()` -/

theorem inv_ref {s : State} (h : Inv s) {t k r : Nat} (ht : s.tasks[t]? = some (.got k r)) :
    Inv { setTask s t (.reffed k r) with rc := upd s.rc r { s.rc r with count := (s.rc r).count + 1 } } := by
  have hqm : Pc.got k r ∈ s.tasks := List.mem_of_getElem? ht
  have hkr := h.taskKey _ hqm k r rfl
  have hset := fun r' => countP_set (Pc.refOn r') s.tasks t (.got k r) (.reffed k r) ht
  constructor
  · intro r'
    have := hset r'
    have hc := h.cnt r'
    by_cases hr : r' = r
    · subst hr
      simp only [refsOn, setTask, upd_same, Pc.refOn] at this hc ⊢
      simp at this
      omega
    · have hb : (r == r') = false := by simp; omega
      simp only [refsOn, setTask, upd_other _ _ _ _ hr, Pc.refOn, hb] at this hc ⊢
      simp at this
      omega
  · exact h.noLeak
  · intro r' hr'
    have hr'' : s.nrc ≤ r' := hr'
    have : r' ≠ r := by omega
    simp only [setTask, upd_other _ _ _ _ this]
    exact h.fresh r' hr''
  · intro k' r' hk
    have := h.arenaOk k' r' hk
    by_cases hrr : r' = r
    · subst hrr; simp [setTask]; exact this
    · simp only [setTask, upd_other _ _ _ _ hrr]; exact this
  · intro r' ho
    by_cases hrr : r' = r
    · subst hrr
      simp [setTask] at ho ⊢
      exact h.openIn r' ho
    · simp only [setTask, upd_other _ _ _ _ hrr] at ho ⊢
      exact h.openIn r' ho
  · exact h.missNone
  · intro k' f r' hf hr
    have := h.flightRes k' f r' hf hr
    refine ⟨this.1, ?_⟩
    by_cases hrr : r' = r
    · subst hrr; simp [setTask]; exact this.2
    · simp only [setTask, upd_other _ _ _ _ hrr]; exact this.2
  · intro p hp k' r' hpr
    have hold : r' < s.nrc ∧ (s.rc r').key = k' := by
      rcases List.mem_or_eq_of_mem_set hp with hp | rfl
      · exact h.taskKey p hp k' r' hpr
      · exact h.taskKey _ hqm k' r' hpr
    refine ⟨hold.1, ?_⟩
    by_cases hrr : r' = r
    · subst hrr; simp [setTask]; exact hold.2
    · simp only [setTask, upd_other _ _ _ _ hrr]; exact hold.2
  · intro p hp r' hpr
    have hold : (s.rc r').fileOpen = true := by
      rcases List.mem_or_eq_of_mem_set hp with hp | rfl
      · exact h.openHeld p hp r' hpr
      · simp [Pc.usesFile] at hpr
    by_cases hrr : r' = r
    · subst hrr; simp [setTask]; exact hold
    · simp only [setTask, upd_other _ _ _ _ hrr]; exact hold
  · intro p hp k' hpk
    rcases List.mem_or_eq_of_mem_set hp with hp | rfl
    · exact h.waitFlight p hp k' hpk
    · cases hpk
  · intro r' hlt ho hc
    have hne : r' ≠ r := by
      intro he; subst he
      simp [setTask] at hc
    simp only [setTask, upd_other _ _ _ _ hne] at ho hc ⊢
    rcases h.zeroIn r' hlt ho hc with hf | hg | ho'
    · exact Or.inl hf
    · refine Or.inr (Or.inl (mem_set_of_ne hg ht ?_))
      intro he
      injection he with _ he2
      exact hne he2
    · exact Or.inr (Or.inr ho')

/-! ### the flight stores a new file -/

theorem inv_fstore {s : State} (h : Inv s) {k : Nat} {f : Flight} (hf : s.flight k = some f)
    (hph : f.phase = .fetched) :
    s.arena k = none ∧
    Inv { setPhase s k f (.stored s.nrc) with
            nrc := s.nrc + 1, rc := upd s.rc s.nrc ⟨k, 0, true⟩, arena := upd s.arena k (some s.nrc) } := by
  have hnone : s.arena k = none := h.missNone k f hf (Or.inr (Or.inr hph))
  refine ⟨hnone, ?_⟩
  have hnoref : ∀ p ∈ s.tasks, p.refOn s.nrc = false := by
    intro p hp
    cases hb : p.refOn s.nrc with
    | false => rfl
    | true =>
      obtain ⟨k', hk'⟩ := refOn_rcOf hb
      have := (h.taskKey p hp k' s.nrc hk').1
      omega
  constructor
  · intro r
    by_cases hr : r = s.nrc
    · subst hr
      have hz : s.tasks.countP (Pc.refOn s.nrc) = 0 :=
        List.countP_eq_zero.2 (fun p hp => by simp [hnoref p hp])
      simp [refsOn, setPhase, h.noLeak, hz]
    · have := h.cnt r
      simp only [refsOn, setPhase, upd_other _ _ _ _ hr] at this ⊢
      exact this
  · exact h.noLeak
  · intro r hr
    have hr' : s.nrc + 1 ≤ r := hr
    have : r ≠ s.nrc := by omega
    simp only [setPhase, upd_other _ _ _ _ this]
    exact h.fresh r (by omega)
  · intro k' r hk
    by_cases hkk : k' = k
    · subst hkk
      simp only [setPhase, upd_same, Option.some.injEq] at hk
      subst hk
      simp [setPhase]
    · simp only [setPhase, upd_other _ _ _ _ hkk] at hk
      have := h.arenaOk k' r hk
      have hne : r ≠ s.nrc := by omega
      simp only [setPhase, upd_other _ _ _ _ hne]
      exact ⟨by omega, this.2⟩
  · intro r ho
    by_cases hr : r = s.nrc
    · subst hr; simp [setPhase]
    · simp only [setPhase, upd_other _ _ _ _ hr] at ho ⊢
      rcases h.openIn r ho with hin | hd
      · left
        have hkk : (s.rc r).key ≠ k := by
          intro he; rw [he, hnone] at hin; cases hin
        rw [upd_other _ _ _ _ hkk]
        exact hin
      · exact Or.inr hd
  · intro k' f' hf' hp
    by_cases hkk : k' = k
    · subst hkk
      simp only [setPhase, upd_same, Option.some.injEq] at hf'
      subst hf'
      simp at hp
    · simp only [setPhase, upd_other _ _ _ _ hkk] at hf' ⊢
      exact h.missNone k' f' hf' hp
  · intro k' f' r hf' hr
    by_cases hkk : k' = k
    · subst hkk
      simp only [setPhase, upd_same, Option.some.injEq] at hf'
      subst hf'
      simp only [resultOf, Option.some.injEq] at hr
      subst hr
      simp [setPhase]
    · simp only [setPhase, upd_other _ _ _ _ hkk] at hf'
      have := h.flightRes k' f' r hf' hr
      have hne : r ≠ s.nrc := by omega
      simp only [setPhase, upd_other _ _ _ _ hne]
      exact ⟨by omega, this.2⟩
  · intro p hp k' r hpr
    have := h.taskKey p hp k' r hpr
    have hne : r ≠ s.nrc := by omega
    simp only [setPhase, upd_other _ _ _ _ hne]
    exact ⟨by omega, this.2⟩
  · intro p hp r hpr
    obtain ⟨k', hk'⟩ := refOn_rcOf (usesFile_refOn hpr)
    have := h.taskKey p hp k' r hk'
    have hne : r ≠ s.nrc := by omega
    simp only [setPhase, upd_other _ _ _ _ hne]
    exact h.openHeld p hp r hpr
  · intro p hp k' hpk
    by_cases hkk : k' = k
    · subst hkk; simp [setPhase]
    · simp only [setPhase, upd_other _ _ _ _ hkk]
      exact h.waitFlight p hp k' hpk
  · intro r hlt ho hc
    by_cases hr : r = s.nrc
    · subst hr
      exact Or.inl ⟨{ f with phase := .stored s.nrc }, by simp [setPhase], by simp [resultOf]⟩
    · have hlt' : r < s.nrc := by
        have : r < s.nrc + 1 := hlt
        omega
      simp only [setPhase, upd_other _ _ _ _ hr] at ho hc ⊢
      rcases h.zeroIn r hlt' ho hc with ⟨f', hf', hrs⟩ | hg | ho'
      · by_cases hkk : (s.rc r).key = k
        · rw [hkk, hf] at hf'
          cases hf'
          rw [hph] at hrs
          simp [resultOf] at hrs
        · exact Or.inl ⟨f', by rw [upd_other _ _ _ _ hkk]; exact hf', hrs⟩
      · exact Or.inr (Or.inl hg)
      · exact Or.inr (Or.inr ho')

/-! ### the flight ends: singleflight hands the result to the waiters -/

theorem refOn_deliver (r k : Nat) (res : Option Nat) (p : Pc) :
    (deliver k res p).refOn r = p.refOn r := by
  unfold deliver
  split
  · rename_i hp; subst hp; cases res <;> simp [Pc.refOn]
  · rfl

theorem inv_fend {s : State} (h : Inv s) {k : Nat} {f : Flight} {res : Option Nat}
    (hf : s.flight k = some f) (hres : resultOf f.phase = some res) :
    Inv { s with flight := upd s.flight k none,
                 tasks := s.tasks.map (deliver k res),
                 orphans := orphansAfter s k res } := by
  have hdel : ∀ p', p' ∈ s.tasks.map (deliver k res) → ∃ p ∈ s.tasks, p' = deliver k res p := by
    intro p' hp'
    obtain ⟨p, hp, he⟩ := List.mem_map.1 hp'
    exact ⟨p, hp, he.symm⟩
  constructor
  · intro r
    have := h.cnt r
    simp only [refsOn, List.countP_map] at this ⊢
    rw [this]
    congr 1
    apply List.countP_congr
    intro p _
    simp [refOn_deliver]
  · exact h.noLeak
  · exact h.fresh
  · exact h.arenaOk
  · exact h.openIn
  · intro k' f' hf' hp
    by_cases hkk : k' = k
    · subst hkk; simp at hf'
    · simp only [upd_other _ _ _ _ hkk] at hf'
      exact h.missNone k' f' hf' hp
  · intro k' f' r hf' hr
    by_cases hkk : k' = k
    · subst hkk; simp at hf'
    · simp only [upd_other _ _ _ _ hkk] at hf'
      exact h.flightRes k' f' r hf' hr
  · intro p' hp' k' r hpr
    obtain ⟨p, hp, rfl⟩ := hdel p' hp'
    unfold deliver at hpr
    split at hpr
    · cases res with
      | none => simp [Pc.rcOf] at hpr
      | some r0 =>
        simp only [Pc.rcOf, Option.some.injEq, Prod.mk.injEq] at hpr
        obtain ⟨rfl, rfl⟩ := hpr
        exact h.flightRes _ f _ hf hres
    · exact h.taskKey p hp k' r hpr
  · intro p' hp' r hpr
    obtain ⟨p, hp, rfl⟩ := hdel p' hp'
    unfold deliver at hpr
    split at hpr
    · cases res <;> simp [Pc.usesFile] at hpr
    · exact h.openHeld p hp r hpr
  · intro p' hp' k' hpk
    obtain ⟨p, hp, rfl⟩ := hdel p' hp'
    unfold deliver at hpk
    split at hpk
    · cases res <;> simp at hpk
    · rename_i hne
      subst hpk
      have hkk : k' ≠ k := by intro he; subst he; exact hne rfl
      simp only [upd_other _ _ _ _ hkk]
      exact h.waitFlight _ hp k' rfl
  · intro r hlt ho hc
    have hgotmap : ∀ k'' r'', Pc.got k'' r'' ∈ s.tasks → Pc.got k'' r'' ∈ s.tasks.map (deliver k res) := by
      intro k'' r'' hg
      refine List.mem_map.2 ⟨_, hg, ?_⟩
      simp [deliver]
    rcases h.zeroIn r hlt ho hc with ⟨f', hf', hr⟩ | hg | ho'
    · by_cases hkk : (s.rc r).key = k
      · rw [hkk, hf] at hf'
        cases hf'
        rw [hres] at hr
        cases hr
        by_cases hn : s.tasks.countP (· = .waiting k) = 0
        · right; right
          have hc' : (s.rc r).count = 0 := hc
          simp [orphansAfter, hn, hc']
        · right; left
          have hpos : 0 < s.tasks.countP (· = .waiting k) := by omega
          obtain ⟨p, hp, hpw⟩ := List.countP_pos_iff.1 hpos
          have hpw' : p = .waiting k := by simpa using hpw
          subst hpw'
          refine List.mem_map.2 ⟨_, hp, ?_⟩
          show deliver k (some r) (.waiting k) = .got (s.rc r).key r
          rw [hkk]
          simp [deliver]
      · exact Or.inl ⟨f', by simp only [upd_other _ _ _ _ hkk]; exact hf', hr⟩
    · exact Or.inr (Or.inl (hgotmap _ r hg))
    · right; right
      cases res with
      | none => exact ho'
      | some r0 =>
        show r ∈ orphansAfter s k (some r0)
        simp only [orphansAfter]
        split
        · exact List.mem_cons_of_mem _ ho'
        · exact ho'

/-! ### a new task -/

theorem inv_spawn {s : State} (h : Inv s) (k : Nat) :
    Inv { s with tasks := s.tasks ++ [.ready k], skeys := s.skeys ++ [k] } := by
  have hmem : ∀ p, p ∈ s.tasks ++ [Pc.ready k] → p ∈ s.tasks ∨ p = .ready k := by
    intro p hp
    rcases List.mem_append.1 hp with hp | hp
    · exact Or.inl hp
    · exact Or.inr (by simpa using hp)
  constructor
  · intro r
    have := h.cnt r
    simp only [refsOn, List.countP_append] at this ⊢
    simp [Pc.refOn, this]
  · exact h.noLeak
  · exact h.fresh
  · exact h.arenaOk
  · exact h.openIn
  · exact h.missNone
  · exact h.flightRes
  · intro p hp k' r hpr
    rcases hmem p hp with hp | rfl
    · exact h.taskKey p hp k' r hpr
    · simp [Pc.rcOf] at hpr
  · intro p hp r hpr
    rcases hmem p hp with hp | rfl
    · exact h.openHeld p hp r hpr
    · simp [Pc.usesFile] at hpr
  · intro p hp k' hpk
    rcases hmem p hp with hp | rfl
    · exact h.waitFlight p hp k' hpk
    · cases hpk
  · intro r hlt ho hc
    rcases h.zeroIn r hlt ho hc with hf | hg | ho'
    · exact Or.inl hf
    · exact Or.inr (Or.inl (List.mem_append_left _ hg))
    · exact Or.inr (Or.inr ho')

/-- The ghost counters are not mentioned by the invariant. -/
theorem inv_ghost {s : State} (h : Inv s) (st de : Nat → Nat) (sk : List Nat) :
    Inv { s with stales := st, deaths := de, skeys := sk } :=
  ⟨h.cnt, h.noLeak, h.fresh, h.arenaOk, h.openIn, h.missNone, h.flightRes, h.taskKey, h.openHeld,
    h.waitFlight, h.zeroIn⟩

/-! ### every transition preserves the invariant -/

theorem inv_step {s : State} (h : Inv s) (op : Op) : Inv (step s op).1 := by
  cases op with
  | spawn k => exact inv_spawn h k
  | enter t =>
    simp only [step, stepG]
    split
    · rename_i k ht
      split
      · rename_i f hf
        exact inv_setTask h ht (by intro r; rfl) (by intro k r hp; cases hp) (by intro r hp; cases hp)
          (by intro k' hk'; cases hk'; rw [hf]; simp) (by intro k r hq; cases hq)
      · rename_i hf
        have h1 : Inv { s with flight := upd s.flight k (some ⟨t, .begun, false⟩), hits := s.hits } :=
          inv_setFlight h k ⟨t, .begun, false⟩ s.hits (by intro hp; rcases hp with hp | hp | hp <;> cases hp)
            (by intro r hr; simp [resultOf] at hr) (by intro f r hf'; rw [hf] at hf'; cases hf')
        exact inv_setTask (s := { s with flight := upd s.flight k (some ⟨t, .begun, false⟩), hits := s.hits })
          h1 ht (by intro r; rfl) (by intro k r hp; cases hp) (by intro r hp; cases hp)
          (by intro k' hk'; cases hk'; simp) (by intro k r hq; cases hq)
    · exact h
  | fload k valid =>
    simp only [step, stepG]
    split
    · rename_i f hf
      split
      · rename_i hph
        have c3 : ∀ (f' : Flight) (r : Nat), s.flight k = some f' → resultOf f'.phase = some (some r) → False := by
          intro f' r hf' hr
          rw [hf] at hf'; cases hf'
          rw [hph] at hr; simp [resultOf] at hr
        split
        · split
          · rename_i r ha
            exact inv_setFlight h k { f with phase := .hit r } s.hits
              (by intro hp; rcases hp with hp | hp | hp <;> cases hp)
              (by intro r' hr; simp only [resultOf, Option.some.injEq] at hr; subst hr
                  exact ⟨(h.arenaOk k r ha).1, (h.arenaOk k r ha).2.1⟩)
              (by intro f' r' hf' hr; exact absurd (c3 f' r' hf' hr) id)
          · rename_i ha
            exact inv_setFlight h k { f with phase := .missed } s.hits
              (by intro _; exact ha)
              (by intro r' hr; simp [resultOf] at hr)
              (by intro f' r' hf' hr; exact absurd (c3 f' r' hf' hr) id)
        · exact inv_setFlight h k { f with phase := .failed } s.hits
            (by intro hp; rcases hp with hp | hp | hp <;> cases hp)
            (by intro r' hr; simp [resultOf] at hr)
            (by intro f' r' hf' hr; exact absurd (c3 f' r' hf' hr) id)
      · exact h
    · exact h
  | fnet k srvOk =>
    simp only [step, stepG]
    split
    · rename_i f hf
      split
      · rename_i hph
        have hnone : s.arena k = none := h.missNone k f hf (Or.inl hph)
        have c3 : ∀ (f' : Flight) (r : Nat), s.flight k = some f' → resultOf f'.phase = some (some r) → False := by
          intro f' r hf' hr
          rw [hf] at hf'; cases hf'
          rw [hph] at hr; simp [resultOf] at hr
        split
        · exact inv_setFlight h k { f with phase := .failed } s.hits
            (by intro hp; rcases hp with hp | hp | hp <;> cases hp)
            (by intro r' hr; simp [resultOf] at hr)
            (by intro f' r' hf' hr; exact absurd (c3 f' r' hf' hr) id)
        · split
          · exact inv_setFlight h k { f with phase := .fetched } (upd s.hits k (s.hits k + 1))
              (by intro _; exact hnone)
              (by intro r' hr; simp [resultOf] at hr)
              (by intro f' r' hf' hr; exact absurd (c3 f' r' hf' hr) id)
          · exact inv_setFlight h k { f with phase := .failed } (upd s.hits k (s.hits k + 1))
              (by intro hp; rcases hp with hp | hp | hp <;> cases hp)
              (by intro r' hr; simp [resultOf] at hr)
              (by intro f' r' hf' hr; exact absurd (c3 f' r' hf' hr) id)
      · exact h
    · exact h
  | freq k =>
    simp only [step, stepG]
    split
    · rename_i f hf
      split
      · rename_i hph
        have hnone : s.arena k = none := h.missNone k f hf (Or.inl hph)
        have c3 : ∀ (f' : Flight) (r : Nat), s.flight k = some f' → resultOf f'.phase = some (some r) → False := by
          intro f' r hf' hr
          rw [hf] at hf'; cases hf'
          rw [hph] at hr; simp [resultOf] at hr
        split
        · exact inv_setFlight h k { f with phase := .failed } s.hits
            (by intro hp; rcases hp with hp | hp | hp <;> cases hp)
            (by intro r' hr; simp [resultOf] at hr)
            (by intro f' r' hf' hr; exact absurd (c3 f' r' hf' hr) id)
        · exact inv_setFlight h k { f with phase := .requesting } (upd s.hits k (s.hits k + 1))
            (by intro _; exact hnone)
            (by intro r' hr; simp [resultOf] at hr)
            (by intro f' r' hf' hr; exact absurd (c3 f' r' hf' hr) id)
      · exact h
    · exact h
  | fbody k srvOk =>
    simp only [step, stepG]
    split
    · rename_i f hf
      split
      · rename_i hph
        have hnone : s.arena k = none := h.missNone k f hf (Or.inr (Or.inl hph))
        have c3 : ∀ (f' : Flight) (r : Nat), s.flight k = some f' → resultOf f'.phase = some (some r) → False := by
          intro f' r hf' hr
          rw [hf] at hf'; cases hf'
          rw [hph] at hr; simp [resultOf] at hr
        split
        · exact inv_setFlight h k { f with phase := .failed } s.hits
            (by intro hp; rcases hp with hp | hp | hp <;> cases hp)
            (by intro r' hr; simp [resultOf] at hr)
            (by intro f' r' hf' hr; exact absurd (c3 f' r' hf' hr) id)
        · split
          · exact inv_setFlight h k { f with phase := .fetched } s.hits
              (by intro _; exact hnone)
              (by intro r' hr; simp [resultOf] at hr)
              (by intro f' r' hf' hr; exact absurd (c3 f' r' hf' hr) id)
          · exact inv_setFlight h k { f with phase := .failed } s.hits
              (by intro hp; rcases hp with hp | hp | hp <;> cases hp)
              (by intro r' hr; simp [resultOf] at hr)
              (by intro f' r' hf' hr; exact absurd (c3 f' r' hf' hr) id)
      · exact h
    · exact h
  | fstore k =>
    simp only [step, stepG]
    split
    · rename_i f hf
      split
      · rename_i hph
        obtain ⟨hnone, hinv⟩ := inv_fstore h hf hph
        split
        · exact hinv
        · rename_i r ha
          rw [hnone] at ha; cases ha
      · exact h
    · exact h
  | fend k =>
    simp only [step, stepG]
    split
    · rename_i f hf
      split
      · rename_i res hres
        exact inv_fend h hf hres
      · exact h
    · exact h
  | cancel t =>
    simp only [step, stepG]
    split
    · rename_i k ht
      have h1 : Inv (setTask s t .failed) :=
        inv_setTask h ht (by intro r; rfl) (by intro k r hp; cases hp) (by intro r hp; cases hp)
          (by intro k' hk'; cases hk') (by intro k r hq; cases hq)
      split
      · rename_i f hf
        split
        · by_cases hreq : f.phase = .requesting
          · simp only [hreq, if_true]
            exact inv_setFlight (s := setTask s t .failed) h1 k { f with ctxDead := true, phase := .failed } s.hits
              (by intro hp; rcases hp with hp | hp | hp <;> cases hp)
              (by intro r hr; simp [resultOf] at hr)
              (by intro f' r hf' hr
                  have : s.flight k = some f' := hf'
                  rw [hf] at this; cases this
                  rw [hreq] at hr; simp [resultOf] at hr)
          · simp only [hreq, if_false]
            exact inv_setFlight (s := setTask s t .failed) h1 k { f with ctxDead := true } s.hits
              (by intro hp; exact h.missNone k f hf hp)
              (by intro r hr; exact h.flightRes k f r hf hr)
              (by intro f' r hf' hr
                  have : s.flight k = some f' := hf'
                  rw [hf] at this; cases this; exact hr)
        · exact h1
      · exact h1
    · exact h
    · exact h
    · exact h
  | ref t =>
    simp only [step, stepG]
    split
    · rename_i k r ht
      exact inv_ref h ht
    · exact h
  | val t =>
    simp only [step, stepG]
    split
    · rename_i k r ht
      split
      · rename_i ho
        exact inv_setTask h ht (by intro r'; rfl) (by intro k' r' hp; exact hp)
          (by intro r' hp; simp only [Pc.usesFile, Option.some.injEq] at hp; subst hp; exact ho)
          (by intro k' hk'; cases hk') (by intro k' r' hq; cases hq)
      · exact inv_ghost (inv_setTask h ht (by intro r'; rfl) (by intro k' r' hp; exact hp)
          (by intro r' hp; cases hp)
          (by intro k' hk'; cases hk') (by intro k' r' hq; cases hq)) _ _ _
    · exact h
  | retry t =>
    simp only [step, stepG]
    split
    · rename_i k r ht
      simp only [if_true]
      exact (inv_dec_task h ht (by simp [Pc.refOn]) (by intro r'; rfl) rfl rfl (by intro k' hk'; cases hk')).1
    · exact h
  | init t ok =>
    simp only [step, stepG]
    split
    · rename_i k r ht
      split
      · have hopen := h.openHeld _ (List.mem_of_getElem? ht) r rfl
        exact inv_setTask h ht (by intro r'; rfl) (by intro k' r' hp; exact hp)
          (by intro r' hp; simp only [Pc.usesFile, Option.some.injEq] at hp; subst hp; exact hopen)
          (by intro k' hk'; cases hk') (by intro k' r' hq; cases hq)
      · exact (inv_dec_task h ht (by simp [Pc.refOn]) (by intro r'; rfl) rfl rfl (by intro k' hk'; cases hk')).1
    · exact h
  | close t =>
    simp only [step, stepG]
    split
    · rename_i k r ht
      exact (inv_dec_task h ht (by simp [Pc.refOn]) (by intro r'; rfl) rfl rfl (by intro k' hk'; cases hk')).1
    · exact h
  | finalize i =>
    simp only [step, stepG]
    split
    · rename_i r hr
      rw [h.noLeak] at hr
      simp at hr
    · exact h
  | query k => exact h
  | ftmpfail k =>
    simp only [step, stepG]
    split
    · rename_i f hf
      split
      · rename_i hph
        have c3 : ∀ (f' : Flight) (r : Nat), s.flight k = some f' → resultOf f'.phase = some (some r) → False := by
          intro f' r hf' hr
          rw [hf] at hf'; cases hf'
          rw [hph] at hr; simp [resultOf] at hr
        exact inv_setFlight h k { f with phase := .failed } s.hits
          (by intro hp; rcases hp with hp | hp | hp <;> cases hp)
          (by intro r' hr; simp [resultOf] at hr)
          (by intro f' r' hf' hr; exact absurd (c3 f' r' hf' hr) id)
      · exact h
    · exact h
  | aclose =>
    simp only [step, stepG]
    constructor
    · exact h.cnt
    · exact h.noLeak
    · exact h.fresh
    · intro k r hk; cases hk
    · intro r ho
      right
      have ho' : (s.rc r).fileOpen = true := ho
      simp [ho']
    · intro k f _ _; rfl
    · exact h.flightRes
    · exact h.taskKey
    · exact h.openHeld
    · exact h.waitFlight
    · exact h.zeroIn

theorem reachable_inv (ops : List Op) : Inv (Sm.run step init ops) :=
  Sm.invariant_run (Inv := Inv) (fun _ op h => inv_step h op) ops init inv_init

end ClairModel.Arena
