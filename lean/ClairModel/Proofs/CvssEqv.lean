/-
  C18 — equality of the exact rationals `Q` as numbers (`Q.Eqv`): the arithmetic,
  the comparisons and every rounding function of the model depend on the value
  of their arguments only, not on the (never normalised) representation.
-/
import ClairModel.Proofs.CvssRange
namespace ClairModel.Cvss
open ClairModel.CvssSpec

/-- equal as rational numbers (both denominators positive) -/
structure Q.Eqv (a b : Q) : Prop where
  pa : 0 < a.d
  pb : 0 < b.d
  eq : a.n * (b.d : Int) = b.n * (a.d : Int)

theorem Q.Eqv.rfl' {a : Q} (h : 0 < a.d) : Q.Eqv a a := ⟨h, h, rfl⟩
theorem Q.Eqv.symm {a b : Q} (h : Q.Eqv a b) : Q.Eqv b a := ⟨h.pb, h.pa, h.eq.symm⟩

theorem Q.Eqv.trans {a b c : Q} (h1 : Q.Eqv a b) (h2 : Q.Eqv b c) : Q.Eqv a c := by
  refine ⟨h1.pa, h2.pb, ?_⟩
  have e1 := h1.eq; have e2 := h2.eq
  have hb : (b.d : Int) ≠ 0 := by have := h1.pb; omega
  apply Int.eq_of_mul_eq_mul_right hb
  grind

theorem Q.Eqv.add {a a' b b' : Q} (h1 : Q.Eqv a a') (h2 : Q.Eqv b b') : Q.Eqv (a + b) (a' + b') := by
  refine ⟨Nat.mul_pos h1.pa h2.pa, Nat.mul_pos h1.pb h2.pb, ?_⟩
  have e1 := h1.eq; have e2 := h2.eq
  simp only [Q.add_def, Int.natCast_mul]
  grind

theorem Q.Eqv.mul {a a' b b' : Q} (h1 : Q.Eqv a a') (h2 : Q.Eqv b b') : Q.Eqv (a * b) (a' * b') := by
  refine ⟨Nat.mul_pos h1.pa h2.pa, Nat.mul_pos h1.pb h2.pb, ?_⟩
  have e1 := h1.eq; have e2 := h2.eq
  simp only [Q.mul_def, Int.natCast_mul]
  grind

theorem Q.Eqv.one_mul {a b : Q} (h : Q.Eqv a b) : Q.Eqv (one * a) b := by
  refine ⟨by show 0 < 1 * a.d; have := h.pa; omega, h.pb, ?_⟩
  have e := h.eq
  show (1 * a.n) * (b.d : Int) = b.n * ((1 * a.d : Nat) : Int)
  simp only [Int.one_mul, Nat.one_mul]; exact e

/-- the floor of a rational depends on its value only -/
theorem ediv_congr {a d a' d' : Int} (hd : 0 < d) (hd' : 0 < d') (h1 : a * d' = a' * d) : a / d = a' / d' := by
  have : a / d = (a * d') / (d * d') := by rw [Int.mul_ediv_mul_of_pos_left _ _ hd']
  rw [this, h1, Int.mul_comm d d', Int.mul_ediv_mul_of_pos_left _ _ hd]

theorem Q.Eqv.sign {a b : Q} (h : Q.Eqv a b) : 0 ≤ a.n ↔ 0 ≤ b.n := by
  have pa : (0 : Int) < (a.d : Int) := by have := h.pa; omega
  have pb : (0 : Int) < (b.d : Int) := by have := h.pb; omega
  have e := h.eq
  constructor
  · intro h0
    have : 0 ≤ b.n * (a.d : Int) := by rw [← e]; exact Int.mul_nonneg h0 (Int.le_of_lt pb)
    exact Int.nonneg_of_mul_nonneg_left this pa
  · intro h0
    have : 0 ≤ a.n * (b.d : Int) := by rw [e]; exact Int.mul_nonneg h0 (Int.le_of_lt pa)
    exact Int.nonneg_of_mul_nonneg_left this pb

theorem Q.Eqv.le {a a' b b' : Q} (h1 : Q.Eqv a a') (h2 : Q.Eqv b b') : Q.le a b = Q.le a' b' := by
  have pa : (0 : Int) < (a.d : Int) := by have := h1.pa; omega
  have pa' : (0 : Int) < (a'.d : Int) := by have := h1.pb; omega
  have pb : (0 : Int) < (b.d : Int) := by have := h2.pa; omega
  have pb' : (0 : Int) < (b'.d : Int) := by have := h2.pb; omega
  have e1 := h1.eq; have e2 := h2.eq
  -- compare a - b and a' - b' through their signs
  have hs : Q.Eqv (b - a) (b' - a') := by
    refine ⟨Nat.mul_pos h2.pa h1.pa, Nat.mul_pos h2.pb h1.pb, ?_⟩
    simp only [Q.sub_def, Int.natCast_mul]
    grind
  have := hs.sign
  simp only [Q.sub_def] at this
  simp only [Q.le]
  have l : (a.n * (b.d : Int) ≤ b.n * (a.d : Int)) ↔ (a'.n * (b'.d : Int) ≤ b'.n * (a'.d : Int)) := by
    constructor <;> intro h <;> omega
  exact decide_eq_decide.2 l

theorem Q.Eqv.min {a a' b b' : Q} (h1 : Q.Eqv a a') (h2 : Q.Eqv b b') : Q.Eqv (Q.min a b) (Q.min a' b') := by
  unfold Q.min
  rw [Q.Eqv.le h1 h2]
  split
  · exact h1
  · exact h2

theorem Q.Eqv.floor {a b : Q} (h : Q.Eqv a b) : a.n / (a.d : Int) = b.n / (b.d : Int) :=
  ediv_congr (by have := h.pa; omega) (by have := h.pb; omega) h.eq

theorem Q.Eqv.neg {a b : Q} (h : Q.Eqv a b) : Q.Eqv ⟨-a.n, a.d⟩ ⟨-b.n, b.d⟩ :=
  ⟨h.pa, h.pb, by have := h.eq; show -a.n * (b.d : Int) = -b.n * (a.d : Int); grind⟩

theorem Q.Eqv.ceil {a b : Q} (h : Q.Eqv a b) : Q.ceil a = Q.ceil b := by
  unfold Q.ceil
  rw [h.neg.floor]

theorem Q.Eqv.trunc {a b : Q} (h : Q.Eqv a b) : Q.trunc a = Q.trunc b := by
  unfold Q.trunc
  by_cases h0 : 0 ≤ a.n
  · rw [if_pos h0, if_pos (h.sign.1 h0), h.floor]
  · rw [if_neg h0, if_neg (fun x => h0 (h.sign.2 x)), h.neg.floor]

theorem Q.Eqv.roundHalfAway {a b : Q} (h : Q.Eqv a b) : Q.roundHalfAway a = Q.roundHalfAway b := by
  have e := h.eq
  unfold Q.roundHalfAway
  have p1 : Q.Eqv ⟨2 * a.n + a.d, 2 * a.d⟩ ⟨2 * b.n + b.d, 2 * b.d⟩ :=
    ⟨by have := h.pa; show 0 < 2 * a.d; omega, by have := h.pb; show 0 < 2 * b.d; omega, by simp only [Int.natCast_mul]; grind⟩
  have p2 : Q.Eqv ⟨2 * (-a.n) + a.d, 2 * a.d⟩ ⟨2 * (-b.n) + b.d, 2 * b.d⟩ :=
    ⟨by have := h.pa; show 0 < 2 * a.d; omega, by have := h.pb; show 0 < 2 * b.d; omega, by simp only [Int.natCast_mul]; grind⟩
  have f1 := p1.floor
  have f2 := p2.floor
  have c2 : ((2 : Nat) : Int) = 2 := rfl
  simp only [Int.natCast_mul, c2] at f1 f2
  by_cases h0 : 0 ≤ a.n
  · rw [if_pos h0, if_pos (h.sign.1 h0)]; exact f1
  · rw [if_neg h0, if_neg (fun x => h0 (h.sign.2 x))]; rw [f2]

theorem Q.Eqv.mul_right {a b : Q} (h : Q.Eqv a b) (c : Q) (hc : 0 < c.d) : Q.Eqv (a * c) (b * c) :=
  Q.Eqv.mul h (Q.Eqv.rfl' hc)

/-- both Roundup variants of the code, and both of the specification, depend
    on the value of their argument only -/
theorem v3Roundup10_congr (ver : Nat) {a b : Q} (h : Q.Eqv a b) : v3Roundup10 ver a = v3Roundup10 ver b := by
  unfold v3Roundup10 v30Roundup10 v31Roundup10
  rw [(h.mul_right ten (by decide)).ceil, (h.mul_right (Q.ofInt 100000) (by decide)).trunc]

theorem roundup30_congr {a b : Q} (h : Q.Eqv a b) : roundup30 a = roundup30 b := by
  unfold roundup30; rw [(h.mul_right ten (by decide)).ceil]

theorem roundup31_congr {a b : Q} (h : Q.Eqv a b) : roundup31 a = roundup31 b := by
  unfold roundup31; rw [(h.mul_right (Q.ofInt 100000) (by decide)).roundHalfAway]

end ClairModel.Cvss
