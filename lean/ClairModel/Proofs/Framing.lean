/-
  Helper lemmas for C15 (framing scanners and read loops).  Core Lean only.
-/
import ClairModel.Model.Framing

namespace ClairModel.Framing

variable {σ α : Type}

/-! ### scanners -/

/-- A verdict's offset lies inside the input that was scanned. -/
theorem scanFrom_complete_bounds (step : σ → Byte → Step σ) (s : σ) (p : Nat) (d : Bytes) (n : Nat)
    (h : scanFrom step s p d = .complete n) : p < n ∧ n ≤ p + d.length := by
  induction d generalizing s p with
  | nil => simp [scanFrom] at h
  | cons b bs ih =>
    simp only [scanFrom] at h
    split at h
    · have := ih _ _ h
      simp only [List.length_cons]; omega
    · simp only [Scan.complete.injEq] at h; simp only [List.length_cons]; omega
    · simp at h

theorem scanFrom_invalid_bounds (step : σ → Byte → Step σ) (s : σ) (p : Nat) (d : Bytes) (n : Nat)
    (h : scanFrom step s p d = .invalid n) : p < n ∧ n ≤ p + d.length := by
  induction d generalizing s p with
  | nil => simp [scanFrom] at h
  | cons b bs ih =>
    simp only [scanFrom] at h
    split at h
    · have := ih _ _ h
      simp only [List.length_cons]; omega
    · simp at h
    · simp only [Scan.invalid.injEq] at h; simp only [List.length_cons]; omega

/-- What a scanner says about the first `k` bytes of an input, in terms of what
    it says about the whole input: before the verdict's offset the value is
    still open, from the offset on the verdict is the same. -/
def cutVerdict (whole : Scan) (p k : Nat) : Scan :=
  match whole with
  | .complete n => if n ≤ p + k then .complete n else .incomplete
  | .invalid n => if n ≤ p + k then .invalid n else .incomplete
  | .incomplete => .incomplete

theorem scanFrom_take (step : σ → Byte → Step σ) (s : σ) (p : Nat) (d : Bytes) (k : Nat) :
    scanFrom step s p (d.take k) = cutVerdict (scanFrom step s p d) p k := by
  induction d generalizing s p k with
  | nil => simp [scanFrom, cutVerdict]
  | cons b bs ih =>
    cases k with
    | zero =>
      have h0 : scanFrom step s p ((b :: bs).take 0) = .incomplete := rfl
      rw [h0]
      cases hw : scanFrom step s p (b :: bs) with
      | incomplete => simp [cutVerdict]
      | complete n =>
        have := scanFrom_complete_bounds step s p _ n hw
        simp only [cutVerdict, Nat.add_zero]
        rw [if_neg (by omega)]
      | invalid n =>
        have := scanFrom_invalid_bounds step s p _ n hw
        simp only [cutVerdict, Nat.add_zero]
        rw [if_neg (by omega)]
    | succ k =>
      simp only [List.take_succ_cons, scanFrom]
      cases hs : step s b with
      | next s' =>
        simp only []
        rw [ih s' (p + 1) k]
        have : p + 1 + k = p + (k + 1) := by omega
        cases scanFrom step s' (p + 1) bs <;> simp [cutVerdict, this]
      | done => simp [cutVerdict]
      | bad => simp [cutVerdict]

/-- Bytes after the closing byte are never looked at. -/
theorem scanFrom_append (step : σ → Byte → Step σ) (s : σ) (p : Nat) (d e : Bytes) (n : Nat)
    (h : scanFrom step s p d = .complete n) : scanFrom step s p (d ++ e) = .complete n := by
  induction d generalizing s p with
  | nil => simp [scanFrom] at h
  | cons b bs ih =>
    simp only [List.cons_append, scanFrom] at h ⊢
    split at h <;> rename_i hs
    · exact ih _ _ h
    · exact h
    · simp at h

/-- Reading chunk by chunk is scanning the concatenation. -/
theorem scanChunk_inl (step : σ → Byte → Step σ) (s : σ) (p : Nat) (c : Bytes) (s' : σ) (p' : Nat)
    (h : scanChunk step s p c = .inl (s', p')) (rest : Bytes) :
    scanFrom step s p (c ++ rest) = scanFrom step s' p' rest := by
  induction c generalizing s p with
  | nil => simp only [scanChunk, Sum.inl.injEq, Prod.mk.injEq] at h; simp [h.1, h.2]
  | cons b bs ih =>
    simp only [scanChunk] at h
    simp only [List.cons_append, scanFrom]
    split at h <;> rename_i hs
    · exact ih _ _ h
    · simp at h
    · simp at h

theorem scanChunk_inr (step : σ → Byte → Step σ) (s : σ) (p : Nat) (c : Bytes) (r : Scan)
    (h : scanChunk step s p c = .inr r) (rest : Bytes) :
    scanFrom step s p (c ++ rest) = r := by
  induction c generalizing s p with
  | nil => simp [scanChunk] at h
  | cons b bs ih =>
    simp only [scanChunk] at h
    simp only [List.cons_append, scanFrom]
    split at h <;> rename_i hs
    · exact ih _ _ h
    · simpa using h
    · simpa using h

theorem scanChunks_eq (step : σ → Byte → Step σ) (s : σ) (p : Nat) (cs : List Bytes) :
    scanChunks step s p cs = scanFrom step s p cs.flatten := by
  induction cs generalizing s p with
  | nil => simp [scanChunks, scanFrom]
  | cons c cs ih =>
    simp only [scanChunks, List.flatten_cons]
    cases h : scanChunk step s p c with
    | inl sp =>
      obtain ⟨s', p'⟩ := sp
      simp only []
      rw [ih, scanChunk_inl step s p c s' p' h]
    | inr r =>
      simp only []
      rw [scanChunk_inr step s p c r h]

/-! ### lines -/

theorem splitLines_flatten (d : Bytes) : (splitLines d).1.flatten ++ (splitLines d).2 = d := by
  induction d with
  | nil => simp [splitLines]
  | cons b bs ih =>
    simp only [splitLines]
    split
    · simp [ih]
    · rcases h : splitLines bs with ⟨ls, rest⟩
      rw [h] at ih
      cases ls with
      | nil => simpa using ih
      | cons l ls' => simpa using ih

theorem mapAll_append {β : Type} (sem : β → Option α) (xs ys : List β) (vs : List α)
    (h : mapAll sem (xs ++ ys) = some vs) :
    mapAll sem xs = some (vs.take xs.length) := by
  induction xs generalizing vs with
  | nil => simp [mapAll]
  | cons x xs ih =>
    simp only [List.cons_append, mapAll] at h ⊢
    cases hx : sem x with
    | none => simp [hx] at h
    | some v =>
      simp only [hx] at h ⊢
      cases hr : mapAll sem (xs ++ ys) with
      | none => simp [hr] at h
      | some ws =>
        simp only [hr, Option.some.injEq] at h
        rw [ih ws hr]
        subst h
        simp

theorem mapAll_length {β : Type} (sem : β → Option α) (xs : List β) (vs : List α)
    (h : mapAll sem xs = some vs) : vs.length = xs.length := by
  induction xs generalizing vs with
  | nil => simp [mapAll] at h; simp [← h]
  | cons x xs ih =>
    simp only [mapAll] at h
    cases hx : sem x with
    | none => simp [hx] at h
    | some v =>
      simp only [hx] at h
      cases hr : mapAll sem xs with
      | none => simp [hr] at h
      | some ws =>
        simp only [hr, Option.some.injEq] at h
        subst h
        simp [ih ws hr]

/-- The complete lines of a prefix are a prefix of the complete lines. -/
theorem splitLines_take (d : Bytes) (k : Nat) :
    ∃ more, (splitLines d).1 = (splitLines (d.take k)).1 ++ more := by
  induction d generalizing k with
  | nil => exact ⟨[], by simp [splitLines]⟩
  | cons b bs ih =>
    cases k with
    | zero => exact ⟨(splitLines (b :: bs)).1, by simp [splitLines]⟩
    | succ k =>
      obtain ⟨more, hm⟩ := ih k
      simp only [List.take_succ_cons, splitLines]
      rcases h1 : splitLines bs with ⟨ls, rest⟩
      rcases h2 : splitLines (bs.take k) with ⟨ls2, rest2⟩
      rw [h1, h2] at hm
      simp only at hm
      by_cases hb : b = nl
      · simp only [hb, if_true]
        exact ⟨more, by simp [hm]⟩
      · simp only [hb, if_false]
        cases ls2 with
        | nil => exact ⟨_, (List.nil_append _).symm⟩
        | cons l2 ls2' =>
          subst hm
          exact ⟨more, by simp⟩

/-- Lines that end in a newline and contain no other one are recovered exactly. -/
def IsLine (l : Bytes) : Prop := ∃ body, l = body ++ [nl] ∧ nl ∉ body

theorem splitLines_of_line (body : Bytes) (hb : nl ∉ body) (tail : Bytes) :
    splitLines (body ++ nl :: tail) = ((body ++ [nl]) :: (splitLines tail).1, (splitLines tail).2) := by
  induction body with
  | nil => simp [splitLines]
  | cons c cs ih =>
    have hc : c ≠ nl := fun h => hb (by simp [h])
    have hcs : nl ∉ cs := fun h => hb (by simp [h])
    simp only [List.cons_append, splitLines, ih hcs, hc, if_false]

theorem splitLines_lines (ls : List Bytes) (h : ∀ l ∈ ls, IsLine l) :
    splitLines ls.flatten = (ls, []) := by
  induction ls with
  | nil => simp [splitLines]
  | cons l ls ih =>
    obtain ⟨body, rfl, hb⟩ := h l (by simp)
    have := ih (fun l' hl' => h l' (by simp [hl']))
    simp only [List.flatten_cons, List.append_assoc, List.singleton_append]
    rw [splitLines_of_line body hb, this]

end ClairModel.Framing

namespace ClairModel.Framing

variable {σ α : Type}

/-! ### records -/

theorem dropWs_length (d : Bytes) : (dropWs d).length ≤ d.length := by
  induction d with
  | nil => simp [dropWs]
  | cons b bs ih =>
    simp only [dropWs]
    split
    · simp only [List.length_cons]; omega
    · simp

theorem dropWs_take (d : Bytes) (k : Nat) : ∃ k', dropWs (d.take k) = (dropWs d).take k' := by
  induction d generalizing k with
  | nil => exact ⟨0, by simp [dropWs]⟩
  | cons b bs ih =>
    cases k with
    | zero => exact ⟨0, by simp [dropWs]⟩
    | succ k =>
      simp only [List.take_succ_cons, dropWs]
      by_cases hb : isWs b = true
      · simp only [hb, if_true]; exact ih k
      · simp only [hb, if_false, Bool.false_eq_true]
        exact ⟨k + 1, by simp⟩

/-- The complete values of a prefix are a prefix of the complete values. -/
theorem splitValues_take (step : σ → Byte → Step σ) (init : σ) (f' : Nat) :
    ∀ (f : Nat) (d : Bytes) (k : Nat), d.length < f → (d.take k).length < f' →
      ∃ more, (splitValues step init f d).1 = (splitValues step init f' (d.take k)).1 ++ more := by
  induction f' with
  | zero => intro f d k _ h; omega
  | succ f' ih =>
    intro f d k hf hf'
    cases f with
    | zero => omega
    | succ g =>
      obtain ⟨k', hk'⟩ := dropWs_take d k
      have hl := dropWs_length d
      have hl' := dropWs_length (d.take k)
      simp only [splitValues]
      rw [hk']
      cases hr : dropWs d with
      | nil => simp
      | cons b rest =>
        cases k' with
        | zero => simp
        | succ k'' =>
          simp only [List.take_succ_cons]
          have hscan := scanFrom_take step init 0 (b :: rest) (k'' + 1)
          simp only [List.take_succ_cons] at hscan
          rw [hscan]
          cases hw : scanFrom step init 0 (b :: rest) with
          | incomplete => simp [cutVerdict]
          | invalid m =>
            simp only [cutVerdict, Nat.zero_add]
            by_cases hm : m ≤ k'' + 1 <;> simp [hm]
          | complete n =>
            have hb := scanFrom_complete_bounds step init 0 _ n hw
            simp only [cutVerdict, Nat.zero_add]
            by_cases hn : n ≤ k'' + 1
            · rw [if_pos hn]
              simp only
              have htk : (b :: rest.take k'') = (b :: rest).take (k'' + 1) := by simp
              rw [htk, List.take_take, Nat.min_eq_left hn, List.drop_take]
              have h1 : (b :: rest).length ≤ d.length := by rw [← hr]; exact hl
              have h2 : ((b :: rest).take (k'' + 1)).length ≤ (d.take k).length := by
                rw [← hr, ← hk']; exact hl'
              have h3 : ((b :: rest).take (k'' + 1)).length = min (k'' + 1) (b :: rest).length :=
                List.length_take
              obtain ⟨more, hm⟩ := ih g ((b :: rest).drop n) (k'' + 1 - n)
                (by simp only [List.length_drop]; omega)
                (by rw [← List.drop_take]; simp only [List.length_drop]; omega)
              exact ⟨more, by rw [hm]; simp⟩
            · rw [if_neg hn]; simp

end ClairModel.Framing
