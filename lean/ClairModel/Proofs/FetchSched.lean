/-
  Helper lemmas for the concurrent-users model of C09 (Model/FetchSched.lean). Core Lean only.
-/
import ClairModel.Model.FetchSched
import ClairModel.Proofs.Fetch

namespace ClairModel.FetchSched
open ClairModel ClairModel.Bytes ClairModel.Codec ClairModel.Fetch

/-- The results of a finished flight: every layer handed out shows bytes
    verified for the flight's key. -/
def ResultsOK (P : Params) (key : Bytes) (ws : List Task) (rs : List (Nat × Res)) : Prop :=
  ∀ id p, (id, Res.ok (.tar p)) ∈ rs → (∃ t ∈ ws, t.id = id) ∧ Verified P key p

theorem deliver_inv {P : Params} {key : Bytes} {out : Option Bytes}
    (hout : ∀ payload, out = some payload → Verified P key payload) (ws : List Task) :
    ∀ (a : Arena) (alive : Bool), ArenaInv P a →
      ArenaInv P (deliver P key out a alive ws).1 ∧ ResultsOK P key ws (deliver P key out a alive ws).2 := by
  induction ws with
  | nil => intro a alive h; exact ⟨h, by intro id p hm; simp [deliver] at hm⟩
  | cons t ts ih =>
    intro a alive hinv
    cases out with
    | none =>
      have h := ih a alive hinv
      simp only [deliver]
      refine ⟨h.1, ?_⟩
      intro id p hm
      simp only [List.mem_cons, Prod.mk.injEq, reduceCtorEq, and_false, false_or] at hm
      obtain ⟨⟨t', ht', hid⟩, hv⟩ := h.2 id p hm
      exact ⟨⟨t', by simp [ht'], hid⟩, hv⟩
    | some payload =>
      have hv := hout payload rfl
      simp only [deliver]
      have hone : ArenaInv P (deliverOne P a key payload alive t).1 ∧
          ∀ p, (deliverOne P a key payload alive t).2.2 = .ok (.tar p) → p = payload := by
        unfold deliverOne
        split
        · exact ⟨hinv, by simp⟩
        · split
          · rename_i v hi
            refine ⟨hinv.ref hv, ?_⟩
            intro p hp
            simp only [Res.ok.injEq] at hp
            subst hp
            exact initLayer_tar hi
          · exact ⟨(hinv.ref hv).unref, by simp⟩
      have h := ih (deliverOne P a key payload alive t).1 (deliverOne P a key payload alive t).2.1 hone.1
      refine ⟨h.1, ?_⟩
      intro id p hm
      simp only [List.mem_cons, Prod.mk.injEq] at hm
      rcases hm with ⟨hid, hr⟩ | hm
      · have := hone.2 p hr.symm
        subst this
        exact ⟨⟨t, by simp, hid.symm⟩, hv⟩
      · obtain ⟨⟨t', ht', hid⟩, hv'⟩ := h.2 id p hm
        exact ⟨⟨t', by simp [ht'], hid⟩, hv'⟩

theorem findTask_mem {s : SState} {id : Nat} {t : Task} (h : findTask s id = some t) : t ∈ s.tasks ∧ t.id = id := by
  unfold findTask at h
  exact ⟨List.mem_of_find?_eq_some h, by simpa using List.find?_some h⟩

/-- What a step hands out. `key id` is the digest string of task `id`. -/
def StepOK (P : Params) (s : SState) (o : SOut) : Prop :=
  ∀ rs, o = .results rs → ∀ id p, (id, Res.ok (.tar p)) ∈ rs → ∃ t ∈ s.tasks, t.id = id ∧ Verified P t.req.key p

theorem step_inv (P : Params) (s : SState) (op : SOp) (h : ArenaInv P s.arena) :
    ArenaInv P (step P s op).1.arena ∧ StepOK P s (step P s op).2 := by
  cases op with
  | spawn id rq =>
    simp only [step]
    split
    · exact ⟨h, by intro rs hr; cases hr⟩
    · exact ⟨h, by intro rs hr; cases hr⟩
  | enter id =>
    simp only [step]
    split
    · exact ⟨h, by intro rs hr; cases hr⟩
    · rename_i t ht
      obtain ⟨htm, hid⟩ := findTask_mem ht
      split
      · exact ⟨h, by intro rs hr; cases hr⟩
      · split
        · exact ⟨h, by intro rs hr; cases hr⟩
        · split
          · have hout : ∀ payload, (fetchUnlinked P s.arena t.req.key t.req.uri t.req.resp).out = some payload →
                Verified P t.req.key payload := fun payload ho => fetchUnlinked_out_verified h ho
            have hd := deliver_inv (P := P) hout [t] s.arena true h
            refine ⟨hd.1, ?_⟩
            intro rs hr id' p hm
            simp only [SOut.results.injEq] at hr
            subst hr
            obtain ⟨⟨t', ht', hid'⟩, hv⟩ := hd.2 id' p hm
            simp only [List.mem_cons, List.not_mem_nil, or_false] at ht'
            subst ht'
            exact ⟨t', htm, hid', hv⟩
          · exact ⟨h, by intro rs hr; cases hr⟩
  | serve id =>
    simp only [step]
    split
    · exact ⟨h, by intro rs hr; cases hr⟩
    · rename_i f hf
      have hout : ∀ payload, (fetchUnlinked P [] f.key f.uri f.resp).out = some payload →
          Verified P f.key payload :=
        fun payload ho => fetchUnlinked_out_verified (a := []) (by intro e he; cases he) ho
      have hd := deliver_inv (P := P) hout
        (s.tasks.filter (fun t => t.st == .waiting && t.req.key == f.key)) s.arena true h
      refine ⟨hd.1, ?_⟩
      intro rs hr id' p hm
      simp only [SOut.results.injEq] at hr
      subst hr
      obtain ⟨⟨t', ht', hid'⟩, hv⟩ := hd.2 id' p hm
      have hmem := List.mem_filter.1 ht'
      have hk : t'.req.key = f.key := by
        have := hmem.2
        simp only [Bool.and_eq_true, beq_iff_eq] at this
        exact this.2
      exact ⟨t', hmem.1, hid', by rw [hk]; exact hv⟩
  | close id =>
    simp only [step]
    split
    · exact ⟨h, by intro rs hr; cases hr⟩
    · split
      · exact ⟨h.unref, by intro rs hr; cases hr⟩
      · exact ⟨h, by intro rs hr; cases hr⟩

/-- A task joins a flight only under its own digest string. -/
theorem join_same_key (P : Params) (s : SState) (id : Nat) (h : (step P s (.enter id)).2 = .join) :
    ∃ t f, findTask s id = some t ∧ f ∈ s.flights ∧ f.key = t.req.key := by
  simp only [step] at h
  split at h
  · cases h
  · rename_i t ht
    split at h
    · cases h
    · split at h
      · rename_i f hf
        exact ⟨t, f, ht, List.mem_of_find?_eq_some hf, by simpa using List.find?_some hf⟩
      · split at h <;> cases h

end ClairModel.FetchSched
