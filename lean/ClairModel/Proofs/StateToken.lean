/-
  The state token pre-image is injective on scanner sets: proofs.
-/
import ClairModel.Model.StateToken

namespace ClairModel.StateToken

/-! ## lexLt is a strict total order -/

theorem lexLt_irrefl : ∀ a : Bytes, lexLt a a = false
  | [] => rfl
  | x :: xs => by simp [lexLt, lexLt_irrefl xs]

theorem lexLt_trans : ∀ {a b c : Bytes}, lexLt a b = true → lexLt b c = true → lexLt a c = true
  | [], [], _, h, _ => by simp [lexLt] at h
  | [], _ :: _, [], _, h => by simp [lexLt] at h
  | [], _ :: _, _ :: _, _, _ => by simp [lexLt]
  | _ :: _, [], _, h, _ => by simp [lexLt] at h
  | _ :: _, _ :: _, [], _, h => by simp [lexLt] at h
  | x :: xs, y :: ys, z :: zs, h₁, h₂ => by
    simp only [lexLt] at h₁ h₂ ⊢
    by_cases hxy : x < y
    · by_cases hyz : y < z
      · have : x < z := Nat.lt_trans hxy hyz
        simp [this]
      · simp only [hyz, if_false] at h₂
        by_cases hzy : z < y
        · simp [hzy] at h₂
        · have : y = z := by omega
          subst this; simp [hxy]
    · simp only [hxy, if_false] at h₁
      by_cases hyx : y < x
      · simp [hyx] at h₁
      · simp only [hyx, if_false] at h₁
        have hxy' : x = y := by omega
        subst hxy'
        by_cases hxz : x < z
        · simp [hxz]
        · simp only [hxz, if_false] at h₂ ⊢
          by_cases hzx : z < x
          · simp [hzx] at h₂
          · simp only [hzx, if_false] at h₂ ⊢
            exact lexLt_trans h₁ h₂

theorem lexLt_total : ∀ {a b : Bytes}, a ≠ b → lexLt a b = true ∨ lexLt b a = true
  | [], [], h => absurd rfl h
  | [], _ :: _, _ => Or.inl (by simp [lexLt])
  | _ :: _, [], _ => Or.inr (by simp [lexLt])
  | x :: xs, y :: ys, h => by
    simp only [lexLt]
    by_cases hxy : x < y
    · simp [hxy]
    · by_cases hyx : y < x
      · simp [hyx]
      · have : x = y := by omega
        subst this
        simp only [Nat.lt_irrefl, if_false]
        exact lexLt_total (fun hh => h (by rw [hh]))

theorem lexLt_asymm {a b : Bytes} (h : lexLt a b = true) : lexLt b a = false := by
  cases hb : lexLt b a with
  | false => rfl
  | true => have := lexLt_trans h hb; rw [lexLt_irrefl] at this; cases this

/-! ## Sorting scanners by key -/

def lt (kf : TScanner → Bytes) (x y : TScanner) : Prop := lexLt (kf x) (kf y) = true

def insS (kf : TScanner → Bytes) (s : TScanner) : List TScanner → List TScanner
  | [] => [s]
  | x :: xs => if lexLt (kf x) (kf s) then x :: insS kf s xs else s :: x :: xs

def sortS (kf : TScanner → Bytes) : List TScanner → List TScanner
  | [] => []
  | s :: ss => insS kf s (sortS kf ss)

theorem map_insS (kf : TScanner → Bytes) (s : TScanner) : ∀ l, (insS kf s l).map kf = insKey (kf s) (l.map kf)
  | [] => rfl
  | x :: xs => by
    simp only [insS, List.map_cons, insKey]
    split
    · simp [map_insS kf s xs]
    · simp

theorem map_sortS (kf : TScanner → Bytes) : ∀ l, (sortS kf l).map kf = sortKeys (l.map kf)
  | [] => rfl
  | s :: ss => by simp [sortS, sortKeys, map_insS, map_sortS kf ss]

theorem perm_insS (kf : TScanner → Bytes) (s : TScanner) : ∀ l, (insS kf s l).Perm (s :: l)
  | [] => List.Perm.refl _
  | x :: xs => by
    simp only [insS]
    split
    · exact ((perm_insS kf s xs).cons x).trans (List.Perm.swap s x xs)
    · exact List.Perm.refl _

theorem perm_sortS (kf : TScanner → Bytes) : ∀ l, (sortS kf l).Perm l
  | [] => List.Perm.refl _
  | s :: ss => (perm_insS kf s _).trans ((perm_sortS kf ss).cons s)

theorem mem_sortS (kf : TScanner → Bytes) (l : List TScanner) (s : TScanner) : s ∈ sortS kf l ↔ s ∈ l :=
  (perm_sortS kf l).mem_iff

theorem sorted_insS (kf : TScanner → Bytes) (s : TScanner) : ∀ l, l.Pairwise (lt kf) → (∀ x, x ∈ l → kf x ≠ kf s) →
    (insS kf s l).Pairwise (lt kf)
  | [], _, _ => by simp [insS]
  | x :: xs, hp, hne => by
    simp only [List.pairwise_cons] at hp
    simp only [insS]
    split
    · rename_i hlt
      simp only [List.pairwise_cons]
      refine ⟨?_, sorted_insS kf s xs hp.2 (fun y hy => hne y (List.mem_cons_of_mem _ hy))⟩
      intro y hy
      rcases List.mem_cons.1 ((perm_insS kf s xs).mem_iff.1 hy) with rfl | hy'
      · exact hlt
      · exact hp.1 y hy'
    · rename_i hnlt
      have hsx : lt kf s x := by
        rcases lexLt_total (hne x (by simp)) with h | h
        · exact absurd h hnlt
        · exact h
      simp only [List.pairwise_cons]
      refine ⟨?_, hp⟩
      intro y hy
      rcases List.mem_cons.1 hy with rfl | hy
      · exact hsx
      · exact lexLt_trans hsx (hp.1 y hy)

theorem sorted_sortS (kf : TScanner → Bytes) : ∀ l, (l.map kf).Nodup → (sortS kf l).Pairwise (lt kf)
  | [], _ => by simp [sortS]
  | s :: ss, hn => by
    simp only [List.map_cons, List.nodup_cons] at hn
    apply sorted_insS kf s _ (sorted_sortS kf ss hn.2)
    intro x hx heq
    exact hn.1 (heq ▸ List.mem_map_of_mem ((mem_sortS kf ss x).1 hx))

/-- Two key-sorted lists with the same members are equal. -/
theorem eq_of_sorted (kf : TScanner → Bytes) : ∀ {a b : List TScanner}, a.Pairwise (lt kf) → b.Pairwise (lt kf) →
    (∀ x, x ∈ a ↔ x ∈ b) → a = b
  | [], [], _, _, _ => rfl
  | [], y :: _, _, _, h => by have := (h y).2 (by simp); cases this
  | x :: _, [], _, _, h => by have := (h x).1 (by simp); cases this
  | x :: xs, y :: ys, ha, hb, h => by
    simp only [List.pairwise_cons] at ha hb
    have hx := (h x).1 (by simp)
    have hy := (h y).2 (by simp)
    have hxy : x = y := by
      rcases List.mem_cons.1 hx with hx | hx
      · exact hx
      · rcases List.mem_cons.1 hy with hy | hy
        · exact hy.symm
        · have h1 : lt kf y x := hb.1 x hx
          have h2 : lt kf x y := ha.1 y hy
          have := lexLt_asymm h1
          rw [h2] at this; cases this
    subst hxy
    congr 1
    apply eq_of_sorted kf ha.2 hb.2
    intro z
    constructor
    · intro hz
      rcases List.mem_cons.1 ((h z).1 (List.mem_cons_of_mem _ hz)) with rfl | h'
      · have := ha.1 z hz; unfold lt at this; rw [lexLt_irrefl] at this; cases this
      · exact h'
    · intro hz
      rcases List.mem_cons.1 ((h z).2 (List.mem_cons_of_mem _ hz)) with rfl | h'
      · have := hb.1 z hz; unfold lt at this; rw [lexLt_irrefl] at this; cases this
      · exact h'

/-! ## The map of the loop -/

theorem lookupLast_of_mem (kf ef : TScanner → Bytes) : ∀ (vs : List TScanner), (vs.map kf).Nodup → ∀ s, s ∈ vs →
    lookupLast kf ef (kf s) vs = some (ef s)
  | [], _, s, hs => by cases hs
  | x :: xs, hn, s, hs => by
    simp only [List.map_cons, List.nodup_cons] at hn
    simp only [lookupLast]
    rcases List.mem_cons.1 hs with rfl | hs
    · have : lookupLast kf ef (kf s) xs = none := by
        cases hl : lookupLast kf ef (kf s) xs with
        | none => rfl
        | some e =>
          exfalso
          -- a hit in xs means some element of xs has this key
          have : ∀ (l : List TScanner) (k e), lookupLast kf ef k l = some e → k ∈ l.map kf := by
            intro l
            induction l with
            | nil => intro k e h; simp [lookupLast] at h
            | cons y ys ih =>
              intro k e h
              simp only [lookupLast] at h
              cases hy : lookupLast kf ef k ys with
              | some e' => exact List.mem_cons_of_mem _ (ih k e' hy)
              | none =>
                rw [hy] at h
                simp only at h
                split at h
                · rename_i hk; simp [hk]
                · cases h
          exact hn.1 (this xs (kf s) e hl)
      simp [this]
    · rw [lookupLast_of_mem kf ef xs hn.2 s hs]

theorem preimageWith_eq (kf ef : TScanner → Bytes) (vs : List TScanner) (hn : (vs.map kf).Nodup) :
    preimageWith kf ef vs = magic ++ ((sortS kf vs).map ef).flatten := by
  unfold preimageWith
  congr 1
  rw [← map_sortS, List.flatMap_def, List.map_map]
  congr 1
  apply List.map_congr_left
  intro s hs
  simp only [Function.comp]
  rw [lookupLast_of_mem kf ef vs hn s ((mem_sortS kf vs s).1 hs)]
  rfl

/-! ## Self-delimiting entries -/

theorem split_sep (sep : Nat) : ∀ {b b' r r' : Bytes}, sep ∉ b → sep ∉ b' → b ++ sep :: r = b' ++ sep :: r' → b = b' ∧ r = r'
  | [], [], _, _, _, _, h => by simp at h; exact ⟨rfl, h⟩
  | [], y :: ys, _, _, _, h', h => by
    simp only [List.nil_append, List.cons_append, List.cons.injEq] at h
    exact absurd (by rw [← h.1]; simp) h'
  | x :: xs, [], _, _, h', _, h => by
    simp only [List.nil_append, List.cons_append, List.cons.injEq] at h
    exact absurd (by rw [h.1]; simp) h'
  | x :: xs, y :: ys, r, r', hb, hb', h => by
    simp only [List.cons_append, List.cons.injEq] at h
    simp only [List.mem_cons, not_or] at hb hb'
    obtain ⟨h1, h2⟩ := split_sep sep hb.2 hb'.2 h.2
    exact ⟨by rw [h.1, h1], h2⟩

/-- No field contains the separators. -/
def CleanS (s : TScanner) : Prop :=
  (0 ∉ s.name ∧ 10 ∉ s.name) ∧ (0 ∉ s.version ∧ 10 ∉ s.version) ∧ (0 ∉ s.kind ∧ 10 ∉ s.kind)

theorem entry_shape (s : TScanner) (h : CleanS s) : ∃ b, entry s = b ++ [10] ∧ 10 ∉ b := by
  refine ⟨s.name ++ [0] ++ s.version ++ [0] ++ s.kind, by simp [entry], ?_⟩
  obtain ⟨⟨_, h1⟩, ⟨_, h2⟩, ⟨_, h3⟩⟩ := h
  simp [h1, h2, h3]

theorem entry_inj {s s' : TScanner} (h : CleanS s) (h' : CleanS s') (he : entry s = entry s') : s = s' := by
  obtain ⟨⟨a1, _⟩, ⟨a2, _⟩, ⟨a3, _⟩⟩ := h
  obtain ⟨⟨b1, _⟩, ⟨b2, _⟩, ⟨b3, _⟩⟩ := h'
  simp only [entry, List.append_assoc, List.cons_append, List.nil_append] at he
  obtain ⟨hn, he⟩ := split_sep 0 a1 b1 he
  obtain ⟨hv, he⟩ := split_sep 0 a2 b2 he
  have hk : s.kind = s'.kind := List.append_cancel_right he
  cases s; cases s'; simp_all

theorem flatten_inj : ∀ {E E' : List Bytes}, (∀ e, e ∈ E → ∃ b, e = b ++ [10] ∧ 10 ∉ b) →
    (∀ e, e ∈ E' → ∃ b, e = b ++ [10] ∧ 10 ∉ b) → E.flatten = E'.flatten → E = E'
  | [], [], _, _, _ => rfl
  | [], e :: _, _, h', h => by
    obtain ⟨b, rfl, _⟩ := h' e (by simp)
    simp at h
  | e :: _, [], h', _, h => by
    obtain ⟨b, rfl, _⟩ := h' e (by simp)
    simp at h
  | e :: es, e' :: es', hE, hE', h => by
    obtain ⟨b, rfl, hb⟩ := hE e (by simp)
    obtain ⟨b', rfl, hb'⟩ := hE' e' (by simp)
    simp only [List.flatten_cons, List.append_assoc, List.cons_append, List.nil_append] at h
    obtain ⟨h1, h2⟩ := split_sep 10 hb hb' h
    rw [h1, flatten_inj (fun e he => hE e (List.mem_cons_of_mem _ he)) (fun e he => hE' e (List.mem_cons_of_mem _ he)) h2]

theorem map_entry_inj : ∀ {a b : List TScanner}, (∀ s, s ∈ a → CleanS s) → (∀ s, s ∈ b → CleanS s) →
    a.map entry = b.map entry → a = b
  | [], [], _, _, _ => rfl
  | [], _ :: _, _, _, h => by simp at h
  | _ :: _, [], _, _, h => by simp at h
  | x :: xs, y :: ys, ha, hb, h => by
    simp only [List.map_cons, List.cons.injEq] at h
    rw [entry_inj (ha x (by simp)) (hb y (by simp)) h.1,
        map_entry_inj (fun s hs => ha s (List.mem_cons_of_mem _ hs)) (fun s hs => hb s (List.mem_cons_of_mem _ hs)) h.2]

/-- The token pre-image determines the scanner set, and only it. -/
theorem preimage_eq_iff (vs vs' : List TScanner) (hc : ∀ s, s ∈ vs → CleanS s) (hc' : ∀ s, s ∈ vs' → CleanS s)
    (hn : (vs.map key).Nodup) (hn' : (vs'.map key).Nodup) :
    preimage vs = preimage vs' ↔ ∀ s, s ∈ vs ↔ s ∈ vs' := by
  unfold preimage
  rw [preimageWith_eq key entry vs hn, preimageWith_eq key entry vs' hn']
  constructor
  · intro h
    have h1 := List.append_cancel_left h
    have h2 := flatten_inj
      (fun e he => by
        obtain ⟨s, hs, rfl⟩ := List.mem_map.1 he
        exact entry_shape s (hc s ((mem_sortS key vs s).1 hs)))
      (fun e he => by
        obtain ⟨s, hs, rfl⟩ := List.mem_map.1 he
        exact entry_shape s (hc' s ((mem_sortS key vs' s).1 hs))) h1
    have h3 := map_entry_inj (fun s hs => hc s ((mem_sortS key vs s).1 hs)) (fun s hs => hc' s ((mem_sortS key vs' s).1 hs)) h2
    intro s
    rw [← mem_sortS key vs s, ← mem_sortS key vs' s, h3]
  · intro h
    have : sortS key vs = sortS key vs' :=
      eq_of_sorted key (sorted_sortS key vs hn) (sorted_sortS key vs' hn') (by
        intro s; rw [mem_sortS, mem_sortS]; exact h s)
    rw [this]

end ClairModel.StateToken
