/-
  C11: the view New builds from a link-free archive presents exactly the
  sequential extraction (Model/TarFSExtract.lean), and what the queries answer
  on such a view.
-/
import ClairModel.Proofs.TarFSMember
set_option linter.unusedSimpArgs false
set_option linter.unusedVariables false
namespace ClairModel.TarFS

/-! ### The whole archive -/

theorem prefixesAux_snoc' : ∀ (l done : List Bytes) (c : Bytes),
    prefixesAux (joinSlash done) done.isEmpty (l ++ [c]) =
      prefixesAux (joinSlash done) done.isEmpty l ++ [joinSlash (done ++ l ++ [c])] := by
  intro l
  induction l with
  | nil => intro done c; simp only [List.nil_append, prefixesAux, joinSlash_done, List.append_nil]
  | cons x xs ih =>
    intro done c
    have hempty : (done ++ [x]).isEmpty = false := by simp
    have := ih (done ++ [x]) c
    rw [hempty] at this
    simp only [List.cons_append, prefixesAux, joinSlash_done, this]
    simp

theorem xMkdirs_append : ∀ (a b : List Bytes) (t : XTree),
    xMkdirs t (a ++ b) = (xMkdirs t a).bind fun ta => xMkdirs ta b := by
  intro a
  induction a with
  | nil => intro b t; simp [xMkdirs]
  | cons d ds ih =>
    intro b t
    simp only [List.cons_append, xMkdirs]
    split
    · exact ih b _
    · exact ih b _
    · rfl

theorem prefixesOf_eq {init : List Bytes} {c : Bytes} (hg : GoodComps (init ++ [c])) :
    prefixesOf (joinSlash (init ++ [c])) = prefixesAux [] true init ++ [joinSlash (init ++ [c])] := by
  unfold prefixesOf
  rw [splitSlash_joinSlash _ (by simp) (fun x hx => (hg x hx).2)]
  have := prefixesAux_snoc' init [] c
  simpa [joinSlash] using this

theorem not_mem_prefixes {init : List Bytes} {c : Bytes} (hg : GoodComps (init ++ [c])) :
    joinSlash (init ++ [c]) ∉ prefixesAux [] true init := by
  intro hm
  obtain ⟨pre, suf, e, hp, hd⟩ := mem_prefixesAux init [] _ (by simpa [joinSlash] using hm)
  simp only [List.nil_append] at hd
  exact prefix_ne_self hg e hp hd.symm

theorem contained_comps {n : Bytes} (hn : Contained n) (hd : n ≠ dotP) :
    ∃ init c, GoodComps (init ++ [c]) ∧ (∀ x ∈ init ++ [c], ValidU x) ∧ n = joinSlash (init ++ [c]) := by
  obtain ⟨init, c, hg, rfl⟩ := contained_decompose hn hd
  obtain ⟨hu, _⟩ := contained_iff.1 hn
  refine ⟨init, c, hg, ?_, rfl⟩
  intro x hx
  have := ValidU_elems _ _ (Nat.le_refl _) hu x
  rw [splitSlash_joinSlash _ (by simp) (fun y hy => (hg y hy).2)] at this
  exact this hx

theorem node?_none {fs : FS} {k : Bytes} (h : fs.node? k = none) : fs.get? k = none := by
  unfold FS.node? at h
  cases hg : fs.get? k with
  | none => rfl
  | some i => simp [hg] at h

theorem node?_some {fs : FS} {k : Bytes} {x : XNode} (h : fs.node? k = some x) : ∃ i, fs.get? k = some i := by
  unfold FS.node? at h
  cases hg : fs.get? k with
  | none => simp [hg] at h
  | some i => exact ⟨i, rfl⟩

theorem node?_dir {fs : FS} {k : Bytes} (h : fs.node? k = some .dir) : ∃ i, fs.get? k = some i ∧ (fs.ino i).kind = .dir := by
  unfold FS.node? at h
  cases hg : fs.get? k with
  | none => simp [hg] at h
  | some i =>
    refine ⟨i, rfl, ?_⟩
    simp only [hg, Option.some.injEq, inoNode] at h
    cases hk : (fs.ino i).kind <;> simp [hk] at h
    rfl

theorem node?_file {fs : FS} (hp : TreeOK [] fs) {k : Bytes} {d : Bytes} (h : fs.node? k = some (.file d)) :
    ∃ i, fs.get? k = some i ∧ (fs.ino i).kind = .reg ∧ (fs.ino i).data = some d := by
  unfold FS.node? at h
  cases hg : fs.get? k with
  | none => simp [hg] at h
  | some i =>
    simp only [hg, Option.some.injEq, inoNode] at h
    rcases hp.kinds k i hg with ⟨hk, _⟩ | ⟨_, _, hdata⟩
    · simp [hk] at h
    · cases hkk : (fs.ino i).kind <;> simp [hkk] at h
      obtain ⟨d', hd'⟩ := hdata hkk
      simp [hd'] at h
      subst h
      exact ⟨i, rfl, hkk, hd'⟩

theorem node?_sym {fs : FS} {k tgt : Bytes} (h : fs.node? k = some (.sym tgt)) :
    ∃ i, fs.get? k = some i ∧ (fs.ino i).kind = .sym ∧ (fs.ino i).link = tgt := by
  unfold FS.node? at h
  cases hg : fs.get? k with
  | none => simp [hg] at h
  | some i =>
    simp only [hg, Option.some.injEq, inoNode] at h
    cases hkk : (fs.ino i).kind <;> simp [hkk] at h
    exact ⟨i, rfl, hkk, h⟩

theorem node?_hard {fs : FS} {k tgt : Bytes} (h : fs.node? k = some (.hard tgt)) :
    ∃ i, fs.get? k = some i ∧ (fs.ino i).kind = .link ∧ (fs.ino i).link = tgt := by
  unfold FS.node? at h
  cases hg : fs.get? k with
  | none => simp [hg] at h
  | some i =>
    simp only [hg, Option.some.injEq, inoNode] at h
    cases hkk : (fs.ino i).kind <;> simp [hkk] at h
    exact ⟨i, rfl, hkk, h⟩

theorem node?_special {fs : FS} {k : Bytes} (h : fs.node? k = some .special) :
    ∃ i, fs.get? k = some i ∧ (fs.ino i).kind = .special := by
  unfold FS.node? at h
  cases hg : fs.get? k with
  | none => simp [hg] at h
  | some i =>
    simp only [hg, Option.some.injEq, inoNode] at h
    cases hkk : (fs.ino i).kind <;> simp [hkk] at h
    exact ⟨i, rfl, hkk⟩

theorem addFuel_eq : addFuel = 4094 + 2 := rfl

/-- `mkdir -p` makes directories only: a regular file of the result was there before. -/
theorem xMkdirs_file_back : ∀ (ds : List Bytes) (t t1 : XTree), xMkdirs t ds = some t1 →
    ∀ k d, alGet t1 k = some (.file d) → alGet t k = some (.file d) ∨ alGet t k = some (.file d) := by
  intro ds
  induction ds with
  | nil => intro t t1 h k d hk; simp [xMkdirs] at h; subst h; exact Or.inl hk
  | cons d0 ds ih =>
    intro t t1 h k d hk
    simp only [xMkdirs] at h
    split at h
    · rcases ih _ _ h k d hk with h' | h'
      · rw [alGet_alSet] at h'
        split at h'
        · cases h'
        · exact Or.inl h'
      · rw [alGet_alSet] at h'
        split at h'
        · cases h'
        · exact Or.inl h'
    · exact ih _ _ h k d hk
    · cases h

/-! ### Hard links of the reference name regular files of the reference -/

/-- Every hard link of the reference names a regular file of the reference. -/
def XBound (t : XTree) : Prop := ∀ k tg, alGet t k = some (.hard tg) → ∃ d, alGet t tg = some (.file d)

/-- `mkdir -p` keeps every existing entry. -/
theorem xMkdirs_keep : ∀ (ds : List Bytes) (t t1 : XTree), xMkdirs t ds = some t1 →
    ∀ k x, alGet t k = some x → alGet t1 k = some x := by
  intro ds
  induction ds with
  | nil => intro t t1 h k x hk; simp [xMkdirs] at h; subst h; exact hk
  | cons d0 ds ih =>
    intro t t1 h k x hk
    simp only [xMkdirs] at h
    split at h
    · rename_i hnone
      refine ih _ _ h k x ?_
      rw [alGet_alSet]
      split
      · rename_i e; subst e; rw [hk] at hnone; cases hnone
      · exact hk
    · exact ih _ _ h k x hk
    · cases h

/-- What `mkdir -p` adds are directories. -/
theorem xMkdirs_back : ∀ (ds : List Bytes) (t t1 : XTree), xMkdirs t ds = some t1 →
    ∀ k x, alGet t1 k = some x → x = .dir ∨ alGet t k = some x := by
  intro ds
  induction ds with
  | nil => intro t t1 h k x hk; simp [xMkdirs] at h; subst h; exact Or.inr hk
  | cons d0 ds ih =>
    intro t t1 h k x hk
    simp only [xMkdirs] at h
    split at h
    · rcases ih _ _ h k x hk with h' | h'
      · exact Or.inl h'
      · rw [alGet_alSet] at h'
        split at h'
        · cases h'; exact Or.inl rfl
        · exact Or.inr h'
    · exact ih _ _ h k x hk
    · cases h

theorem xMkdirs_bound (ds : List Bytes) (t t1 : XTree) (hb : XBound t) (h : xMkdirs t ds = some t1) : XBound t1 := by
  intro k tg hk
  rcases xMkdirs_back ds t t1 h k _ hk with h' | h'
  · cases h'
  · obtain ⟨d, hd⟩ := hb k tg h'
    exact ⟨d, xMkdirs_keep ds t t1 h tg _ hd⟩

theorem XBound.set {t : XTree} (hb : XBound t) (n : Bytes) (x : XNode)
    (hn : (∃ d, x = .file d) ∨ ∀ d, alGet t n ≠ some (.file d))
    (hx : ∀ tg, x = .hard tg → tg ≠ n ∧ ∃ d, alGet t tg = some (.file d)) : XBound (alSet t n x) := by
  intro k tg hk
  rw [alGet_alSet] at hk
  split at hk
  · simp only [Option.some.injEq] at hk
    obtain ⟨hne, d, hd⟩ := hx tg hk
    refine ⟨d, ?_⟩
    rw [alGet_alSet, if_neg (fun e => hne e.symm)]
    exact hd
  · obtain ⟨d, hd⟩ := hb k tg hk
    rw [alGet_alSet]
    split
    · rename_i e
      rcases hn with ⟨d', rfl⟩ | hn
      · exact ⟨d', rfl⟩
      · subst e; exact absurd hd (hn d)
    · exact ⟨d, hd⟩

/-- A name that is new is, after `mkdir -p` of other names, not a regular file. -/
theorem xMkdirs_fresh_nofile (ds : List Bytes) (t t1 : XTree) (h : xMkdirs t ds = some t1) (n : Bytes)
    (hn : alGet t n = none) : ∀ d, alGet t1 n ≠ some (.file d) := by
  intro d hd
  rcases xMkdirs_back ds t t1 h n _ hd with h' | h'
  · cases h'
  · rw [hn] at h'; cases h'

theorem xInsert_bound (t t2 : XTree) (m : Member) (hb : XBound t) (h : xInsert t m = some t2) : XBound t2 := by
  unfold xInsert at h
  simp only at h
  generalize normPath m.name = n at h
  cases hk : m.kind with
  | dir =>
    simp only [hk] at h
    cases hget : alGet t n with
    | some node => simp only [hget, Option.some.injEq] at h; subst h; exact hb
    | none => simp only [hget] at h; exact xMkdirs_bound _ _ _ hb h
  | reg =>
    simp only [hk] at h
    split at h
    · cases h
    · cases hA : xMkdirs t (prefixesOf n).dropLast with
      | none => simp [hA] at h
      | some t1 =>
        simp only [hA] at h
        have hb1 := xMkdirs_bound _ _ _ hb hA
        split at h
        · cases h; exact hb1.set n _ (Or.inl ⟨_, rfl⟩) (by intro tg e; cases e)
        · cases h; exact hb1.set n _ (Or.inl ⟨_, rfl⟩) (by intro tg e; cases e)
        · cases h
  | sym =>
    simp only [hk] at h
    cases hget : alGet t n with
    | some node => simp [hget] at h
    | none =>
      simp only [hget] at h
      cases hA : xMkdirs t (prefixesOf n).dropLast with
      | none => simp [hA] at h
      | some t1 =>
        simp only [hA, Option.map, Option.some.injEq] at h
        subst h
        exact (xMkdirs_bound _ _ _ hb hA).set n _ (Or.inr (xMkdirs_fresh_nofile _ _ _ hA n hget)) (by intro tg e; cases e)
  | special =>
    simp only [hk] at h
    cases hget : alGet t n with
    | some node => simp [hget] at h
    | none =>
      simp only [hget] at h
      cases hA : xMkdirs t (prefixesOf n).dropLast with
      | none => simp [hA] at h
      | some t1 =>
        simp only [hA, Option.map, Option.some.injEq] at h
        subst h
        exact (xMkdirs_bound _ _ _ hb hA).set n _ (Or.inr (xMkdirs_fresh_nofile _ _ _ hA n hget)) (by intro tg e; cases e)
  | link =>
    simp only [hk] at h
    cases hget : alGet t n with
    | some node => simp [hget] at h
    | none =>
      simp only [hget] at h
      cases hA : xMkdirs t (prefixesOf n).dropLast with
      | none => simp [hA] at h
      | some t1 =>
        simp only [hA] at h
        have hnf := xMkdirs_fresh_nofile _ _ _ hA n hget
        cases htgt : alGet t1 (normLink .link n m.link) with
        | none => simp [htgt] at h
        | some node =>
          cases node with
          | file d =>
            simp only [htgt, Option.some.injEq] at h
            subst h
            refine (xMkdirs_bound _ _ _ hb hA).set n _ (Or.inr hnf) ?_
            intro tg e
            cases e
            refine ⟨?_, d, htgt⟩
            intro e
            rw [e] at htgt
            exact hnf d htgt
          | dir => simp [htgt] at h
          | sym x => simp [htgt] at h
          | hard x => simp [htgt] at h
          | special => simp [htgt] at h

theorem xRoot_bound : XBound xRoot := by
  intro k tg hk
  simp only [xRoot, alGet] at hk
  split at hk <;> cases hk

/-- In a view that presents a reference whose hard links are bound, a
    directory member over an existing name changes nothing. -/
theorem dirOverLink_id {fs : FS} {t : XTree} (hrep : Rep [] fs t) (hb : XBound t) (m : Member) :
    dirOverLink fs m = fs := by
  unfold dirOverLink
  split
  · rename_i idx hkind hidx
    split
    · rename_i hc
      obtain ⟨hl, hnone⟩ := hc
      have hnode : fs.node? (normPath m.name) = some (.hard (fs.ino idx).link) := by
        simp [FS.node?, hidx, inoNode, hl]
      rw [hrep _ (by simp)] at hnode
      obtain ⟨d, hd⟩ := hb _ _ hnode
      rw [← hrep _ (by simp)] at hd
      obtain ⟨j, hj⟩ := node?_some hd
      simp [hj] at hnone
    · rfl
  · rfl

/-- One member with a defined extraction: `addMembers` goes on from a
    tree-consistent view that presents the reference with the member inserted. -/
theorem member_step (m : Member) (ms : List Member) (fs : FS) (t t2 : XTree)
    (h : TreeOK [] fs) (hrep : Rep [] fs t) (hxb : XBound t) (hins : xInsert t m = some t2) :
    ∃ fs2, addMembers fs [] (m :: ms) = addMembers fs2 [] ms ∧ TreeOK [] fs2 ∧ Rep [] fs2 t2 := by
  have hn : Contained (normPath m.name) := contained_normPath _
  have hnode := hrep (normPath m.name) (by simp)
  unfold xInsert at hins
  simp only at hins
  generalize hnn : normPath m.name = n at hins hn hnode
  cases hk : m.kind with
  | dir =>
    simp only [hk] at hins
    cases hget : alGet t n with
    | some node =>
      simp only [hget, Option.some.injEq] at hins
      subst hins
      rw [hget] at hnode
      obtain ⟨i, hi⟩ := node?_some hnode
      refine ⟨fs, ?_, h, hrep⟩
      simp [addMembers, prepMember, hk, hnn, hi, dirOverLink_id hrep hxb m]
    | none =>
      simp only [hget] at hins
      rw [hget] at hnode
      have hfresh := node?_none hnode
      have hnd : n ≠ dotP := by
        intro e; rw [e, h.root] at hfresh; cases hfresh
      obtain ⟨init, c, hg, hu, rfl⟩ := contained_comps hn hnd
      rw [prefixesOf_eq hg, xMkdirs_append] at hins
      cases hA : xMkdirs t (prefixesAux [] true init) with
      | none => simp [hA] at hins
      | some tA =>
        simp only [hA, Option.bind] at hins
        have hfr : alGet tA (joinSlash (init ++ [c])) = none := by
          rw [xMkdirs_frame _ _ _ hA _ (not_mem_prefixes hg), hget]
        simp only [xMkdirs, hfr, Option.some.injEq] at hins
        subst hins
        obtain ⟨fs', hadd, hT, hR⟩ := add_member_fresh 4094 (fs := fs) (t := t) (t1 := tA)
          (ino := { kind := .dir, name := joinSlash (init ++ [c]), link := m.link, children := some [], data := some [], md := m.imd })
          [] true h hrep hg hu hfresh (Or.inl ⟨rfl, rfl⟩) (by simp) (by simp) hA
        refine ⟨fs', ?_, hT, hR⟩
        have hprep : prepMember fs m = some { kind := .dir, name := joinSlash (init ++ [c]), link := m.link, children := some [], data := some [], md := m.imd } := by
          simp [prepMember, hk, hnn, hfresh]
        rw [addMembers, hprep]
        simp only
        rw [addFuel_eq, hadd]
        simp [alDel]
  | reg =>
    simp only [hk] at hins
    split at hins
    · cases hins
    · rename_i hnd
      obtain ⟨init, c, hg, hu, rfl⟩ := contained_comps hn hnd
      rw [prefixesOf_dropLast hg] at hins
      cases hA : xMkdirs t (prefixesAux [] true init) with
      | none => simp [hA] at hins
      | some tA =>
        simp only [hA] at hins
        have hfr : alGet tA (joinSlash (init ++ [c])) = alGet t (joinSlash (init ++ [c])) :=
          xMkdirs_frame _ _ _ hA _ (not_mem_prefixes hg)
        have hprep : prepMember fs m = some { kind := .reg, name := joinSlash (init ++ [c]), link := m.link, children := none, data := some m.data, md := m.imd } := by
          simp [prepMember, hk, hnn]
        cases hget : alGet t (joinSlash (init ++ [c])) with
        | none =>
          rw [hfr, hget] at hins
          simp only [Option.some.injEq] at hins
          subst hins
          rw [hget] at hnode
          have hfresh := node?_none hnode
          obtain ⟨fs', hadd, hT, hR⟩ := add_member_fresh 4094 (fs := fs) (t := t) (t1 := tA)
            (ino := { kind := .reg, name := joinSlash (init ++ [c]), link := m.link, children := none, data := some m.data, md := m.imd })
            [] true h hrep hg hu hfresh (Or.inr ⟨by simp, rfl, fun _ => ⟨m.data, rfl⟩⟩) (by simp) (by simp) hA
          refine ⟨fs', ?_, hT, hR⟩
          rw [addMembers, hprep]
          simp only
          rw [addFuel_eq, hadd]
          simp [alDel]
        | some node =>
          rw [hfr, hget] at hins
          cases node with
          | dir => simp at hins
          | sym x => simp at hins
          | hard x => simp at hins
          | special => simp at hins
          | file d =>
            simp only [Option.some.injEq] at hins
            subst hins
            rw [hget] at hnode
            obtain ⟨i, hi, hik, _⟩ := node?_file h hnode
            have hAt := xMkdirs_existing h hrep hg hi
            rw [hAt] at hA
            cases hA
            obtain ⟨fs', hadd, hT, hR⟩ := add_member_replace 4095 (fs := fs) (t := t)
              (ino := { kind := .reg, name := joinSlash (init ++ [c]), link := m.link, children := none, data := some m.data, md := m.imd })
              [] true h hrep hg hu hi hik ⟨rfl, rfl, m.data, rfl⟩
            refine ⟨fs', ?_, hT, hR⟩
            rw [addMembers, hprep]
            simp only
            rw [show addFuel = 4095 + 1 from rfl, hadd]
  | sym =>
    simp only [hk] at hins
    cases hget : alGet t n with
    | some node => simp [hget] at hins
    | none =>
      simp only [hget] at hins
      rw [hget] at hnode
      have hfresh := node?_none hnode
      have hnd : n ≠ dotP := by
        intro e; rw [e, h.root] at hfresh; cases hfresh
      obtain ⟨init, c, hg, hu, rfl⟩ := contained_comps hn hnd
      rw [prefixesOf_dropLast hg] at hins
      cases hA : xMkdirs t (prefixesAux [] true init) with
      | none => simp [hA] at hins
      | some tA =>
        simp only [hA, Option.map, Option.some.injEq] at hins
        subst hins
        have hlc : Contained (normLink .sym (joinSlash (init ++ [c])) m.link) := by
          simp only [normLink]
          split
          · exact contained_normPath _
          · exact contained_normPath _
        obtain ⟨fs', hadd, hT, hR⟩ := add_member_fresh 4094 (fs := fs) (t := t) (t1 := tA)
          (ino := { kind := .sym, name := joinSlash (init ++ [c]), link := normLink .sym (joinSlash (init ++ [c])) m.link, children := none, data := some [], md := m.imd })
          [] true h hrep hg hu hfresh (Or.inr ⟨by simp, rfl, by simp⟩) (fun _ => hlc) (by simp) hA
        refine ⟨fs', ?_, hT, hR⟩
        have hprep : prepMember fs m = some { kind := .sym, name := joinSlash (init ++ [c]), link := normLink .sym (joinSlash (init ++ [c])) m.link, children := none, data := some [], md := m.imd } := by
          simp [prepMember, hk, hnn]
        rw [addMembers, hprep]
        simp only
        rw [addFuel_eq, hadd]
        simp [alDel]
  | link =>
    simp only [hk] at hins
    cases hget : alGet t n with
    | some node => simp [hget] at hins
    | none =>
      simp only [hget] at hins
      rw [hget] at hnode
      have hfresh := node?_none hnode
      have hnd : n ≠ dotP := by
        intro e; rw [e, h.root] at hfresh; cases hfresh
      obtain ⟨init, c, hg, hu, rfl⟩ := contained_comps hn hnd
      rw [prefixesOf_dropLast hg] at hins
      cases hA : xMkdirs t (prefixesAux [] true init) with
      | none => simp [hA] at hins
      | some tA =>
        simp only [hA] at hins
        have hlc : Contained (normLink .link (joinSlash (init ++ [c])) m.link) := by
          simp only [normLink]
          split
          · exact contained_normPath _
          · exact contained_normPath _
        cases htgt : alGet tA (normLink .link (joinSlash (init ++ [c])) m.link) with
        | none => simp [htgt] at hins
        | some node =>
          cases node with
          | file d =>
            simp only [htgt, Option.some.injEq] at hins
            subst hins
            -- the target is a regular file of the view already
            have htgt0 : alGet t (normLink .link (joinSlash (init ++ [c])) m.link) = some (.file d) := by
              rcases xMkdirs_file_back _ _ _ hA _ d htgt with h' | h'
              · exact h'
              · exact h'
            have hkey : (fs.get? (normLink .link (joinSlash (init ++ [c])) m.link)).isSome = true := by
              have := hrep (normLink .link (joinSlash (init ++ [c])) m.link) (by simp)
              rw [htgt0] at this
              obtain ⟨i, hi⟩ := node?_some this
              simp [hi]
            obtain ⟨fs', hadd, hT, hR⟩ := add_member_fresh 4094 (fs := fs) (t := t) (t1 := tA)
              (ino := { kind := .link, name := joinSlash (init ++ [c]), link := normLink .link (joinSlash (init ++ [c])) m.link, children := none, data := some [], md := m.imd })
              [] true h hrep hg hu hfresh (Or.inr ⟨by simp, rfl, by simp⟩) (fun _ => hlc) (fun _ => hkey) hA
            refine ⟨fs', ?_, hT, hR⟩
            have hprep : prepMember fs m = some { kind := .link, name := joinSlash (init ++ [c]), link := normLink .link (joinSlash (init ++ [c])) m.link, children := none, data := some [], md := m.imd } := by
              simp [prepMember, hk, hnn]
            rw [addMembers, hprep]
            simp only
            rw [addFuel_eq, hadd]
            simp [alDel]
          | dir => simp [htgt] at hins
          | sym x => simp [htgt] at hins
          | hard x => simp [htgt] at hins
          | special => simp [htgt] at hins
  | special =>
    simp only [hk] at hins
    cases hget : alGet t n with
    | some node => simp [hget] at hins
    | none =>
      simp only [hget] at hins
      rw [hget] at hnode
      have hfresh := node?_none hnode
      have hnd : n ≠ dotP := by
        intro e; rw [e, h.root] at hfresh; cases hfresh
      obtain ⟨init, c, hg, hu, rfl⟩ := contained_comps hn hnd
      rw [prefixesOf_dropLast hg] at hins
      cases hA : xMkdirs t (prefixesAux [] true init) with
      | none => simp [hA] at hins
      | some tA =>
        simp only [hA, Option.map, Option.some.injEq] at hins
        subst hins
        obtain ⟨fs', hadd, hT, hR⟩ := add_member_fresh 4094 (fs := fs) (t := t) (t1 := tA)
          (ino := { kind := .special, name := joinSlash (init ++ [c]), link := m.link, children := none, data := some [], md := m.imd })
          [] true h hrep hg hu hfresh (Or.inr ⟨by simp, rfl, by simp⟩) (by simp) (by simp) hA
        refine ⟨fs', ?_, hT, hR⟩
        have hprep : prepMember fs m = some { kind := .special, name := joinSlash (init ++ [c]), link := m.link, children := none, data := some [], md := m.imd } := by
          simp [prepMember, hk, hnn]
        rw [addMembers, hprep]
        simp only
        rw [addFuel_eq, hadd]
        simp [alDel]

/-- The members of a link-free archive, one after the other. -/
theorem addMembers_plain : ∀ (ms : List Member) (fs : FS) (t t' : XTree),
    TreeOK [] fs → Rep [] fs t → XBound t → extractFrom t ms = some t' →
    ∃ fs', addMembers fs [] ms = .ok (fs', []) ∧ TreeOK [] fs' ∧ Rep [] fs' t' := by
  intro ms
  induction ms with
  | nil =>
    intro fs t t' h hrep hxb hx
    simp only [extractFrom, Option.some.injEq] at hx
    subst hx
    exact ⟨fs, rfl, h, hrep⟩
  | cons m ms ih =>
    intro fs t t' h hrep hxb hx
    simp only [extractFrom] at hx
    cases hins : xInsert t m with
    | none => simp [hins] at hx
    | some t2 =>
      simp only [hins] at hx
      obtain ⟨fs2, he, h2, hrep2⟩ := member_step m ms fs t t2 h hrep hxb hins
      obtain ⟨fs', hfs', hT, hR⟩ := ih fs2 t2 t' h2 hrep2 (xInsert_bound t t2 m hxb hins) hx
      exact ⟨fs', by rw [he, hfs'], hT, hR⟩

theorem rootFS_treeOK : TreeOK [] rootFS := by
  have hget : ∀ k i, rootFS.get? k = some i → k = dotP ∧ i = 0 := by
    intro k i hk
    simp only [rootFS, FS.get?, alGet] at hk
    split at hk
    · rename_i e; simp at hk; exact ⟨e.symm, hk.symm⟩
    · cases hk
  have hino0 : rootFS.ino 0 = newDir dotP := rfl
  constructor
  · exact rootFS_inv
  · rfl
  · rfl
  · intro i hi
    have : i = 0 := by simp [rootFS] at hi; omega
    subst this
    exact ⟨dotP, rfl⟩
  · intro k i hk
    obtain ⟨rfl, rfl⟩ := hget k i hk
    exact ⟨rfl, by simp [rootFS]⟩
  · intro k i hk
    obtain ⟨rfl, rfl⟩ := hget k i hk
    exact Or.inl ⟨rfl, [], rfl⟩
  · intro k i hk hkd
    exact absurd (hget k i hk).1 hkd
  · intro k j cs hk hcs c hc
    obtain ⟨rfl, rfl⟩ := hget k j hk
    rw [hino0] at hcs
    simp [newDir] at hcs
    subst hcs
    simp at hc

theorem rootFS_rep : Rep [] rootFS xRoot := by
  intro k _
  simp only [FS.node?, rootFS, FS.get?, xRoot, alGet]
  by_cases hk : dotP = k
  · simp only [hk, if_true]; rfl
  · simp only [hk, if_false]

/-- On a link-free archive with a defined extraction, New succeeds, the view
    is tree-consistent and presents exactly the extracted tree. -/
theorem newFS_plain (ms : List Member) (t : XTree) (hx : extract ms = some t) :
    ∃ fs, newFS ms = .ok fs ∧ TreeOK [] fs ∧ Rep [] fs t := by
  obtain ⟨fs, hadd, hT, hR⟩ := addMembers_plain ms rootFS xRoot t rootFS_treeOK rootFS_rep xRoot_bound hx
  refine ⟨fs, ?_, hT, hR⟩
  simp [newFS, hadd, cleanup]

/-! ### Queries on a tree-consistent view -/

theorem TreeOK.stat {fs : FS} (h : TreeOK [] fs) {p : Bytes} (hp : validPath p = true) (hns : NoLinkOnPath fs p) :
    statFS fs p = match fs.get? p with
      | some i => .ok (fs.info i)
      | none => .error .notexist := by
  unfold statFS
  rw [h.getInode_eq' hp hns]
  cases fs.get? p <;> rfl

theorem TreeOK.readDir {fs : FS} (h : TreeOK [] fs) {p : Bytes} (hp : validPath p = true) (hns : NoLinkOnPath fs p) :
    readDirFS fs p = match fs.get? p with
      | some i => .ok (fs.entries i)
      | none => .error .notexist := by
  unfold readDirFS
  rw [h.getInode_eq' hp hns]
  cases fs.get? p <;> rfl

theorem TreeOK.open {fs : FS} (h : TreeOK [] fs) {p : Bytes} (hp : validPath p = true) (hns : NoLinkOnPath fs p) :
    openFS fs p = match fs.get? p with
      | none => .err .notexist
      | some i =>
        match (fs.ino i).kind with
        | .dir => .dir (fs.info i) (fs.entries i)
        | .reg =>
          match readSeg (fs.ino i) with
          | .ok d => .file (fs.info i) d
          | .error e => .err e
        | .special => .err .exist
        | .sym => openAux fs fs.inodes.length (fs.ino i).link
        | .link =>
          match linkChain fs fs.inodes.length (getInode fs (fs.ino i).link) with
          | .error e => .err e
          | .ok t =>
            match readSeg (fs.ino t) with
            | .ok d => .file (fs.info i) d
            | .error e => .err e := by
  unfold openFS
  rw [openAux, h.getInode_eq' hp hns]
  cases hg : fs.get? p with
  | none => rfl
  | some i =>
    simp only
    cases hkk : (fs.ino i).kind <;> simp [hkk]
    · cases readSeg (fs.ino i) <;> rfl
    · cases linkChain fs fs.inodes.length (getInode fs (fs.ino i).link) with
      | error e => rfl
      | ok t =>
        simp only
        cases readSeg (fs.ino t) <;> rfl

/-- A member that fits its segment reads what the segment holds. -/
theorem readSeg_fits {n : Inode} {d : Bytes} (hd : n.data = some d) (hs : n.md.hsize ≤ n.md.seg) :
    readSeg n = .ok d := by
  simp [readSeg, hd, Nat.not_lt.2 hs]

/-- `checkSize`: a member whose header size exceeds its segment is refused. -/
theorem readSeg_oversize {n : Inode} (hs : n.md.seg < n.md.hsize) : readSeg n = .error .invalid := by
  simp [readSeg, hs]

/-- A path that is not a valid io/fs path is refused. -/
theorem getInode_invalid (fs : FS) {p : Bytes} (hp : validPath p = false) : getInode fs p = .error .invalid := by
  simp [getInode, hp]

/-- The entries of a directory are exactly its connected children. -/
theorem TreeOK.mem_entries {fs : FS} (h : TreeOK [] fs) {p : Bytes} {j : Nat} (hj : fs.get? p = some j) (e : Entry) :
    e ∈ fs.entries j ↔ ∃ k i, fs.get? k = some i ∧ k ≠ dotP ∧ dirOf k = p ∧
      e = { name := baseOf k, mtype := (fs.ino i).kind.mtype } := by
  unfold FS.entries
  rw [List.mem_mergeSort, List.mem_map]
  constructor
  · rintro ⟨c, hc, rfl⟩
    cases hcs : (fs.ino j).children with
    | none => simp [hcs] at hc
    | some cs =>
      simp only [hcs, Option.getD_some] at hc
      obtain ⟨k', hk', hk'd, _, hk'dir⟩ := h.down p j cs hj hcs c hc
      exact ⟨k', c, hk', hk'd, hk'dir, by rw [(h.named k' c hk').1]⟩
  · rintro ⟨k, i, hk, hkd, hdir, rfl⟩
    obtain ⟨j', cs, hj', _, _, hcs, hm⟩ := h.up k i hk hkd (by simp)
    rw [hdir, hj] at hj'
    cases hj'
    refine ⟨i, by simp [hcs, hm], ?_⟩
    rw [(h.named k i hk).1]

theorem bytesLe_total : ∀ a b : Bytes, (bytesLe a b || bytesLe b a) = true := by
  intro a
  induction a with
  | nil => intro b; simp [bytesLe]
  | cons x xs ih =>
    intro b
    cases b with
    | nil => simp [bytesLe]
    | cons y ys =>
      simp only [bytesLe]
      by_cases h1 : x < y
      · simp [h1]
      · by_cases h2 : y < x
        · simp [h1, h2]
        · simp [h1, h2, ih ys]

theorem bytesLe_trans : ∀ a b c : Bytes, bytesLe a b = true → bytesLe b c = true → bytesLe a c = true := by
  intro a
  induction a with
  | nil => intro b c _ _; simp [bytesLe]
  | cons x xs ih =>
    intro b c hab hbc
    cases b with
    | nil => simp [bytesLe] at hab
    | cons y ys =>
      cases c with
      | nil => simp [bytesLe] at hbc
      | cons z zs =>
        simp only [bytesLe] at hab hbc ⊢
        by_cases hxy : x < y
        · by_cases hyz : y < z
          · simp [UInt8.lt_trans hxy hyz]
          · by_cases hzy : z < y
            · simp [hyz, hzy] at hbc
            · have : y = z := UInt8.le_antisymm (UInt8.not_lt.mp hzy) (UInt8.not_lt.mp hyz)
              subst this; simp [hxy]
        · by_cases hyx : y < x
          · simp [hxy, hyx] at hab
          · have : x = y := UInt8.le_antisymm (UInt8.not_lt.mp hyx) (UInt8.not_lt.mp hxy)
            subst this
            simp only [hxy, if_false] at hab
            by_cases hxz : x < z
            · simp [hxz]
            · by_cases hzx : z < x
              · simp [hxz, hzx] at hbc
              · simp only [hxz, hzx, if_false] at hbc ⊢
                exact ih ys zs hab hbc


/-- Directory listings are sorted by name. -/
theorem entries_sorted (fs : FS) (j : Nat) :
    (fs.entries j).Pairwise (fun a b => bytesLe a.name b.name = true) := by
  unfold FS.entries
  exact List.pairwise_mergeSort (le := entryLe)
    (fun a b c hab hbc => bytesLe_trans _ _ _ hab hbc) (fun a b => bytesLe_total _ _) _


/-- Glob returns the keys that match, each once per table entry. -/
theorem mem_globFS (fs : FS) (pat n : Bytes) :
    n ∈ globFS fs pat ↔ (∃ i, (n, i) ∈ fs.lookup) ∧ matchPat (pat.length + 2) pat n = true := by
  unfold globFS
  rw [List.mem_mergeSort, List.mem_filter, List.mem_map]
  constructor
  · rintro ⟨⟨⟨k, i⟩, hm, rfl⟩, hp⟩
    exact ⟨⟨i, hm⟩, hp⟩
  · rintro ⟨⟨i, hm⟩, hp⟩
    exact ⟨⟨(n, i), hm, rfl⟩, hp⟩

theorem globFS_sorted (fs : FS) (pat : Bytes) :
    (globFS fs pat).Pairwise (fun a b => bytesLe a b = true) := by
  unfold globFS
  exact List.pairwise_mergeSort (le := bytesLe) bytesLe_trans bytesLe_total _


/-- A hard link to a regular file reads the bytes that file holds (if the file
    fits its segment; `checkSize` refuses it otherwise). -/
theorem TreeOK.open_hardlink {fs : FS} (h : TreeOK [] fs) {p : Bytes} {i j : Nat} {d : Bytes}
    (hp : validPath p = true) (hns : NoLinkOnPath fs p)
    (hi : fs.get? p = some i) (hk : (fs.ino i).kind = .link)
    (hns' : NoLinkOnPath fs (fs.ino i).link)
    (hj : fs.get? (fs.ino i).link = some j) (hjk : (fs.ino j).kind = .reg) (hd : (fs.ino j).data = some d)
    (hfit : (fs.ino j).md.hsize ≤ (fs.ino j).md.seg) :
    openFS fs p = .file (fs.info i) d := by
  rw [h.open hp hns]
  simp only [hi, hk]
  have htc : Contained (fs.ino i).link := (h.inv.ino i).2 (Or.inr hk)
  rw [h.getInode_eq' htc hns', hj]
  cases hl : fs.inodes.length with
  | zero => simp [linkChain, hjk, readSeg_fits hd hfit]
  | succ n => simp [linkChain, hjk, readSeg_fits hd hfit]

/-- A hard link to a regular file that does not fit its segment is refused
    like the file itself. -/
theorem TreeOK.open_hardlink_oversize {fs : FS} (h : TreeOK [] fs) {p : Bytes} {i j : Nat}
    (hp : validPath p = true) (hns : NoLinkOnPath fs p)
    (hi : fs.get? p = some i) (hk : (fs.ino i).kind = .link)
    (hns' : NoLinkOnPath fs (fs.ino i).link)
    (hj : fs.get? (fs.ino i).link = some j) (hjk : (fs.ino j).kind = .reg)
    (hbig : (fs.ino j).md.seg < (fs.ino j).md.hsize) :
    openFS fs p = .err .invalid := by
  rw [h.open hp hns]
  simp only [hi, hk]
  have htc : Contained (fs.ino i).link := (h.inv.ino i).2 (Or.inr hk)
  rw [h.getInode_eq' htc hns', hj]
  cases hl : fs.inodes.length with
  | zero => simp [linkChain, hjk, readSeg_oversize hbig]
  | succ n => simp [linkChain, hjk, readSeg_oversize hbig]

end ClairModel.TarFS
