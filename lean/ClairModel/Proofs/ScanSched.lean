/-
  Any schedule of `LayerScanner.Scan` (main loop with `SetLimit`, closures,
  errgroup cancellation) keeps the store invariant, and records never go away.
-/
import ClairModel.Model.ScanSched
import ClairModel.Proofs.ScanPar

namespace ClairModel.ScanSched
open ClairModel ClairModel.Indexer ClairModel.ScanPar

theorem doScan_st (sem : Sem) (o : Oracle) (l : Layer) (s : Scanner) (w : W) : (doScan sem o l s w).1.st = w.st := by
  unfold doScan
  split
  · split <;> rfl
  · obtain ⟨e, v, hc, _⟩ := call_spec o w 'S'
    simp only [hc]
    split
    · rfl
    · split <;> rfl

/-- `storing k` with no k-th slice: everything the scanner found is stored. -/
theorem localOK_marking_of_storing {sem : Sem} {st : Store} (hi : Inv sem st) (l : Layer) (s : Scanner) (k : Nat)
    (hg : (toStore sem s l)[k]? = none)
    (h : LocalOK sem st ({ l := l, s := s, pc := .storing k } : ScanPar.Thread)) :
    LocalOK sem st ({ l := l, s := s, pc := .marking } : ScanPar.Thread) := by
  have := (tstep_spec sem st { l := l, s := s, pc := .storing k } .ok hi h).2.2
  unfold tstep at this
  simp only [hg] at this
  exact this

/-- What a closure knows, kept by `settle`. -/
theorem settle_local {sem : Sem} {st : Store} (hi : Inv sem st) (t : Thread) (h : LocalOK sem st t.par) :
    LocalOK sem st (settle sem t).par := by
  unfold settle
  cases hp : t.pc with
  | storing k =>
    simp only []
    cases hg : (toStore sem t.s t.l)[k]? with
    | some g => simp only [Option.isNone_some]; simpa [Thread.par, hp] using h
    | none =>
      simp only [Option.isNone_none, if_true]
      exact localOK_marking_of_storing hi t.l t.s k hg (by simpa [Thread.par, hp] using h)
  | start => simp only []; simpa [Thread.par, hp] using h
  | scanning => simp only []; simpa [Thread.par, hp] using h
  | marking => simp only []; simpa [Thread.par, hp] using h
  | finished => simp only []; simpa [Thread.par, hp] using h

theorem localOK_finished (sem : Sem) (st : Store) (l : Layer) (s : Scanner) :
    LocalOK sem st ({ l := l, s := s, pc := .finished } : ScanPar.Thread) := by simp [LocalOK]

theorem localOK_storing0 (sem : Sem) (st : Store) (l : Layer) (s : Scanner) :
    LocalOK sem st ({ l := l, s := s, pc := .storing 0 } : ScanPar.Thread) := by
  simp only [LocalOK]; intro j hj; omega

/-- One granted call of a closure: the invariant is kept, nothing is removed,
    the closure's knowledge stays true. -/
theorem thCall_spec (sem : Sem) (gdead : Bool) (w : W) (t : Thread) (f : Fault) (hi : Inv sem w.st)
    (hl : LocalOK sem w.st t.par) :
    Inv sem (thCall sem gdead w t f).1.st ∧ Le w.st (thCall sem gdead w t f).1.st ∧
    LocalOK sem (thCall sem gdead w t f).1.st (thCall sem gdead w t f).2.1.par := by
  unfold thCall
  cases hp : t.pc with
  | finished => simp only []; exact ⟨hi, Le.refl _, hl⟩
  | start =>
    simp only []
    obtain ⟨e, v, hc, _⟩ := call_spec (oneCall gdead f) w 'L'
    simp only [hc]
    cases v.err with
    | some c => exact ⟨hi, Le.refl _, localOK_finished _ _ _ _⟩
    | none =>
      simp only []
      split
      · exact ⟨hi, Le.refl _, localOK_finished _ _ _ _⟩
      · split
        · have hst := doScan_st sem (oneCall gdead f) t.l t.s ⟨w.st, e⟩
          generalize doScan sem (oneCall gdead f) t.l t.s ⟨w.st, e⟩ = r at hst
          obtain ⟨w1, r1⟩ := r
          simp only at hst
          cases r1 with
          | some c => simp only []; rw [hst]; exact ⟨hi, Le.refl _, localOK_finished _ _ _ _⟩
          | none =>
            simp only []; rw [hst]
            exact ⟨hi, Le.refl _, settle_local hi { t with pc := .storing 0 } (localOK_storing0 _ _ _ _)⟩
        · exact ⟨hi, Le.refl _, by simp [LocalOK, Thread.par]⟩
  | scanning =>
    simp only []
    have hst := doScan_st sem (oneCall gdead f) t.l t.s w
    generalize doScan sem (oneCall gdead f) t.l t.s w = r at hst
    obtain ⟨w1, r1⟩ := r
    simp only at hst
    cases r1 with
    | some c => simp only []; rw [hst]; exact ⟨hi, Le.refl _, localOK_finished _ _ _ _⟩
    | none =>
      simp only []; rw [hst]
      exact ⟨hi, Le.refl _, settle_local hi { t with pc := .storing 0 } (localOK_storing0 _ _ _ _)⟩
  | marking =>
    simp only []
    obtain ⟨e, v, hc, _⟩ := call_spec (oneCall gdead f) w 'K'
    simp only [hc]
    have hcpl : ∀ r, r ∈ sem.scan t.s t.l → (⟨t.l, t.s, r⟩ : ArtRow) ∈ w.st.rows := by
      have := hl; simp only [LocalOK, Thread.par, hp] at this; exact this
    cases v.effect with
    | false => simp only [Bool.false_eq_true, if_false]; exact ⟨hi, Le.refl _, localOK_finished _ _ _ _⟩
    | true =>
      simp only [if_true]
      exact ⟨Store.inv_setLayerScanned hi t.l t.s hcpl, Store.le_setLayerScanned _ _ _, localOK_finished _ _ _ _⟩
  | storing k =>
    simp only []
    have hk : ∀ j, j < k → ∀ g, (toStore sem t.s t.l)[j]? = some g → ∀ r, r ∈ g → (⟨t.l, t.s, r⟩ : ArtRow) ∈ w.st.rows := by
      have := hl; simp only [LocalOK, Thread.par, hp] at this; exact this
    cases hg : (toStore sem t.s t.l)[k]? with
    | none =>
      simp only []
      exact ⟨hi, Le.refl _, localOK_marking_of_storing hi t.l t.s k hg (by simpa [Thread.par, hp] using hl)⟩
    | some g =>
      simp only []
      obtain ⟨e, v, hc, hs⟩ := call_spec (oneCall gdead f) w 'I'
      simp only [hc]
      have hgs : ∀ r, r ∈ g → r ∈ sem.scan t.s t.l := mem_toStore_sound sem t.s t.l g (List.mem_of_getElem? hg)
      have hinv := Store.inv_insertRows hi t.l t.s g hgs
      have hle := Store.le_insertRows w.st t.l t.s g
      cases hverr : v.err with
      | some c =>
        cases v.effect with
        | false => simp only [Bool.false_eq_true, if_false]; exact ⟨hi, Le.refl _, localOK_finished _ _ _ _⟩
        | true => simp only [if_true]; exact ⟨hinv, hle, localOK_finished _ _ _ _⟩
      | none =>
        have heff := hs.okEffect hverr
        simp only [heff, if_true]
        refine ⟨hinv, hle, settle_local hinv { t with pc := .storing (k + 1) } ?_⟩
        simp only [LocalOK, Thread.par]
        intro j hj g' hg' r hr
        rcases Nat.lt_or_ge j k with h | h
        · exact hle.rows _ (hk j h g' hg' r hr)
        · have : j = k := by omega
          subst this
          rw [hg] at hg'; cases hg'
          exact Store.mem_insertRows _ _ _ _ _ hr

/-! ## The machine -/

structure SInv (sem : Sem) (ss : SState) : Prop where
  inv : Inv sem ss.w.st
  loc : ∀ t, t ∈ ss.ths → LocalOK sem ss.w.st t.par

theorem advance_w (limit : Nat) : ∀ (fuel : Nat) (ss : SState), (advance limit fuel ss).w = ss.w
  | 0, _ => rfl
  | fuel + 1, ss => by
    unfold advance
    split
    · rfl
    · split
      · rw [advance_w limit fuel]
      · rfl

theorem advance_sinv (sem : Sem) (limit : Nat) : ∀ (fuel : Nat) (ss : SState), SInv sem ss → SInv sem (advance limit fuel ss)
  | 0, _, h => h
  | fuel + 1, ss, h => by
    unfold advance
    split
    · exact h
    · split
      · apply advance_sinv sem limit fuel
        refine ⟨h.inv, ?_⟩
        intro t ht
        rcases List.mem_append.1 ht with ht | ht
        · exact h.loc t ht
        · simp only [List.mem_singleton] at ht
          subst ht
          simp [LocalOK, Thread.par]
      · exact h

theorem ended_sinv {sem : Sem} {ss : SState} (h : SInv sem ss) (r : Option ErrClass) : SInv sem (ended ss r) := by
  unfold ended
  cases r <;> exact ⟨h.inv, h.loc⟩

theorem ended_w (ss : SState) (r : Option ErrClass) : (ended ss r).w = ss.w := by
  unfold ended; cases r <;> rfl

/-- One step of the schedule keeps the invariant and only adds records. -/
theorem step_spec (sem : Sem) (run : List Scanner) (limit : Nat) (ss : SState) (g : Grant) (h : SInv sem ss) :
    SInv sem (step sem run limit ss g).1 ∧ Le ss.w.st (step sem run limit ss g).1.w.st := by
  unfold step
  cases g.who with
  | main =>
    simp only []
    split
    · split
      · exact ⟨⟨h.inv, h.loc⟩, Le.refl _⟩
      · split
        · exact ⟨⟨h.inv, h.loc⟩, Le.refl _⟩
        · refine ⟨advance_sinv sem limit _ _ ⟨h.inv, h.loc⟩, ?_⟩
          rw [advance_w]; exact Le.refl _
    · exact ⟨⟨h.inv, h.loc⟩, Le.refl _⟩
  | th i =>
    simp only []
    cases hi : ss.ths[i]? with
    | none => exact ⟨⟨h.inv, h.loc⟩, Le.refl _⟩
    | some t =>
      simp only []
      have ht : t ∈ ss.ths := List.mem_of_getElem? hi
      split
      · exact ⟨⟨h.inv, h.loc⟩, Le.refl _⟩
      · split
        · split
          · have hb : SInv sem { ss with ths := ss.ths.set i { t with started := true, pc := .finished } } := by
              refine ⟨h.inv, ?_⟩
              intro t' ht'
              rcases List.mem_or_eq_of_mem_set ht' with hm | rfl
              · exact h.loc t' hm
              · simp [LocalOK, Thread.par]
            refine ⟨advance_sinv sem limit _ _ (ended_sinv hb _), ?_⟩
            show Le ss.w.st (advance limit _ (ended _ _)).w.st
            rw [advance_w, ended_w]; exact Le.refl _
          · refine ⟨⟨h.inv, ?_⟩, Le.refl _⟩
            intro t' ht'
            rcases List.mem_or_eq_of_mem_set ht' with hm | rfl
            · exact h.loc t' hm
            · exact h.loc t ht
        · obtain ⟨h1, h2, h3⟩ := thCall_spec sem (ss.gdead || ss.w.e.dead) ss.w t g.f h.inv (h.loc t ht)
          generalize thCall sem (ss.gdead || ss.w.e.dead) ss.w t g.f = res at h1 h2 h3
          obtain ⟨w', t', r⟩ := res
          simp only at h1 h2 h3 ⊢
          have hbase : SInv sem { ss with w := w', ths := ss.ths.set i t' } := by
            refine ⟨h1, ?_⟩
            intro t'' ht''
            rcases List.mem_or_eq_of_mem_set ht'' with hm | rfl
            · exact (h.loc t'' hm).mono h2
            · exact h3
          split
          · refine ⟨advance_sinv sem limit _ _ (ended_sinv hbase _), ?_⟩
            rw [advance_w, ended_w]; exact h2
          · exact ⟨hbase, h2⟩

theorem runSched_spec (sem : Sem) (run : List Scanner) (limit : Nat) : ∀ (sched : List Grant) (ss : SState), SInv sem ss →
    SInv sem (runSched sem run limit ss sched) ∧ Le ss.w.st (runSched sem run limit ss sched).w.st
  | [], ss, h => ⟨h, Le.refl _⟩
  | g :: rest, ss, h => by
    obtain ⟨h1, h2⟩ := step_spec sem run limit ss g h
    obtain ⟨h3, h4⟩ := runSched_spec sem run limit rest _ h1
    exact ⟨h3, h2.trans h4⟩

theorem init_sinv {sem : Sem} {w : W} (hi : Inv sem w.st) (m : Manifest) : SInv sem (init w m) :=
  ⟨hi, fun _ ht => by cases ht⟩

end ClairModel.ScanSched
