/-
  C18 — the v2 base space: `score2` on base-only vectors against the published
  base equation and against `fromCVSS2`, exhaustively (729 vectors).
-/
import ClairModel.Proofs.Cvss
namespace ClairModel.Cvss
open ClairModel.Gen.Cvss ClairModel.CvssSpec

/-- the (one-letter) values the v2 grammar allows for base metric `m` -/
def g2 (m : Nat) : List Nat := (v2GrammarValues.getD m []).map (·.headD 0)

def lk2 (m : Nat) (val : Bytes) : Option Q :=
  match indexOf val (v2Valid.getD m []) with
  | none => none
  | some idx => weightAt v2Weights m idx

def nd : Bytes := [cN, cD]

def valsW2 (L : Nat → Bytes → Option Q) (av ac au c i a : Nat) : Option V2Vals :=
  match L 0 [av], L 1 [ac], L 2 [au], L 3 [c], L 4 [i], L 5 [a], L 6 nd, L 7 nd,
        L 8 nd, L 9 nd, L 10 nd, L 11 nd, L 12 nd, L 13 nd with
  | some av, some ac, some au, some c, some i, some a, some e, some rl, some rc, some cdp, some td,
    some cr, some ir, some ar => some ⟨av, ac, au, c, i, a, e, rl, rc, cdp, td, cr, ir, ar⟩
  | _, _, _, _, _, _, _, _, _, _, _, _, _, _ => none

def fastW2 (L : Nat → Bytes → Option Q) (av ac au c i a : Nat) : Option Int :=
  match valsW2 L av ac au c i a with
  | none => none
  | some w => some (v2Env10 w (v2Temporal10 w (v2Base10 w false)))

theorem v2Val_mk2 (av ac au c i a : Nat) :
    v2Val (mk2 av ac au c i a) 0 = lk2 0 [av] ∧ v2Val (mk2 av ac au c i a) 1 = lk2 1 [ac] ∧
    v2Val (mk2 av ac au c i a) 2 = lk2 2 [au] ∧ v2Val (mk2 av ac au c i a) 3 = lk2 3 [c] ∧
    v2Val (mk2 av ac au c i a) 4 = lk2 4 [i] ∧ v2Val (mk2 av ac au c i a) 5 = lk2 5 [a] ∧
    v2Val (mk2 av ac au c i a) 6 = lk2 6 nd ∧ v2Val (mk2 av ac au c i a) 7 = lk2 7 nd ∧
    v2Val (mk2 av ac au c i a) 8 = lk2 8 nd ∧ v2Val (mk2 av ac au c i a) 9 = lk2 9 nd ∧
    v2Val (mk2 av ac au c i a) 10 = lk2 10 nd ∧ v2Val (mk2 av ac au c i a) 11 = lk2 11 nd ∧
    v2Val (mk2 av ac au c i a) 12 = lk2 12 nd ∧ v2Val (mk2 av ac au c i a) 13 = lk2 13 nd :=
  ⟨rfl, rfl, rfl, rfl, rfl, rfl, rfl, rfl, rfl, rfl, rfl, rfl, rfl, rfl⟩

theorem score2_mk2 (av ac au c i a : Nat) : score2 (mk2 av ac au c i a) = fastW2 lk2 av ac au c i a := by
  obtain ⟨h0, h1, h2, h3, h4, h5, h6, h7, h8, h9, h10, h11, h12, h13⟩ := v2Val_mk2 av ac au c i a
  have he : v2Environmental (mk2 av ac au c i a) = false := rfl
  simp only [score2, v2Vals, fastW2, valsW2, h0, h1, h2, h3, h4, h5, h6, h7, h8, h9, h10, h11, h12, h13, he]
  rfl

def sweep2 (P : (av ac au c i a : Nat) → Bool) : Bool :=
  (g2 0).all fun av => (g2 1).all fun ac => (g2 2).all fun au => (g2 3).all fun c => (g2 4).all fun i =>
  (g2 5).all fun a => P av ac au c i a

theorem sweep2_spec {P : (av ac au c i a : Nat) → Bool} (h : sweep2 P = true) {av ac au c i a : Nat}
    (hav : av ∈ g2 0) (hac : ac ∈ g2 1) (hau : au ∈ g2 2) (hc : c ∈ g2 3) (hi : i ∈ g2 4) (ha : a ∈ g2 5) :
    P av ac au c i a = true := by
  simp only [sweep2, List.all_eq_true] at h
  exact h av hav ac hac au hau c hc i hi a ha

/-- weight*1000 of the v2 specification table -/
def t2 (m : Nat) (val : Bytes) : Option Int := lookupB (v2Table.getD m ([], [])).2 val

def specNs2 (av ac au c i a : Nat) : Option (List Int) :=
  match t2 0 [av], t2 1 [ac], t2 2 [au], t2 3 [c], t2 4 [i], t2 5 [a] with
  | some w0, some w1, some w2, some w3, some w4, some w5 => some [w0, w1, w2, w3, w4, w5]
  | _, _, _, _, _, _ => none

/-- the severity `fromCVSS2` derives from these stored weights -/
def osvSevW2 (ns : List Int) : Option Nat := bandOfQ osv2Cases osv2Default (osv2Core ns)

/-- per vector: model score = published base score, and the OSV severity = the documented band -/
def facts2 (av ac au c i a : Nat) : Bool :=
  match valsW2 w2 av ac au c i a, specNs2 av ac au c i a with
  | some w, some ns =>
    forceInt (v2Base10 w false) fun b => forceInt (v2Temporal10 w b) fun t => forceInt (v2Env10 w t) fun k =>
      decide (base2 [av] [ac] [au] [c] [i] [a] = some k) &&
      forceQ (osv2Core ns) fun o => decide (bandOfQ osv2Cases osv2Default o = inBands osvDocV2 k)
  | _, _ => false

theorem print2_mk2 (av ac au c i a : Nat)
    (h0 : av ≠ 0) (h1 : ac ≠ 0) (h2 : au ≠ 0) (h3 : c ≠ 0) (h4 : i ≠ 0) (h5 : a ≠ 0) :
    print2 (mk2 av ac au c i a) =
      [65, 86, 58, av, 47, 65, 67, 58, ac, 47, 65, 117, 58, au, 47, 67, 58, c, 47, 73, 58, i, 47, 65, 58, a] := by
  have u0 : v2Unparse 0 av = [av] := rfl
  have u1 : v2Unparse 1 ac = [ac] := rfl
  have u2 : v2Unparse 2 au = [au] := rfl
  have u3 : v2Unparse 3 c = [c] := rfl
  have u4 : v2Unparse 4 i = [i] := rfl
  have u5 : v2Unparse 5 a = [a] := rfl
  simp [print2, marshalGroups, groupText, v2GetString, mk2, Vec.get, nameOf, v2Names, List.range',
    h0, h1, h2, h3, h4, h5, cSlash, cColon, u0, u1, u2, u3, u4, u5, cN, cD]

theorem split2_base (av ac au c i a : Nat)
    (h0 : av ≠ 47) (h1 : ac ≠ 47) (h2 : au ≠ 47) (h3 : c ≠ 47) (h4 : i ≠ 47) (h5 : a ≠ 47) :
    splitOn cSlash
      [65, 86, 58, av, 47, 65, 67, 58, ac, 47, 65, 117, 58, au, 47, 67, 58, c, 47, 73, 58, i, 47, 65, 58, a] =
      [[65, 86, 58, av], [65, 67, 58, ac], [65, 117, 58, au], [67, 58, c], [73, 58, i], [65, 58, a]] := by
  simp [splitOn, cSlash, h0, h1, h2, h3, h4, h5]

/-- the value switch of `fromCVSS2` for base metric `k` -/
def osvVals2 (k : Nat) : List (Bytes × Int) := (osv2Weights.getD k ([], 0, [])).2.2

def osvW2 (k b : Nat) : Option Int := lookupBytes (osvVals2 k) [b]

theorem osvFill2_base (av ac au c i a : Nat) :
    osvFill osv2Weights osv2Ignored
      [[65, 86, 58, av], [65, 67, 58, ac], [65, 117, 58, au], [67, 58, c], [73, 58, i], [65, 58, a]]
      (List.replicate 6 0) =
    (osvW2 0 av).bind fun w0 => (osvW2 1 ac).bind fun w1 => (osvW2 2 au).bind fun w2 => (osvW2 3 c).bind fun w3 =>
    (osvW2 4 i).bind fun w4 => (osvW2 5 a).bind fun w5 => some [w0, w1, w2, w3, w4, w5] := by
  have n0 : lookupBytes osv2Weights [65, 86] = some (0, osvVals2 0) := rfl
  have n1 : lookupBytes osv2Weights [65, 67] = some (1, osvVals2 1) := rfl
  have n2 : lookupBytes osv2Weights [65, 117] = some (2, osvVals2 2) := rfl
  have n3 : lookupBytes osv2Weights [67] = some (3, osvVals2 3) := rfl
  have n4 : lookupBytes osv2Weights [73] = some (4, osvVals2 4) := rfl
  have n5 : lookupBytes osv2Weights [65] = some (5, osvVals2 5) := rfl
  simp only [osvFill, cut, cColon, n0, n1, n2, n3, n4, n5, Nat.reduceEqDiff, ↓reduceIte, osvW2,
    List.replicate, List.set]
  generalize lookupBytes (osvVals2 0) [av] = o0
  generalize lookupBytes (osvVals2 1) [ac] = o1
  generalize lookupBytes (osvVals2 2) [au] = o2
  generalize lookupBytes (osvVals2 3) [c] = o3
  generalize lookupBytes (osvVals2 4) [i] = o4
  generalize lookupBytes (osvVals2 5) [a] = o5
  cases o0 <;> cases o1 <;> cases o2 <;> cases o3 <;> cases o4 <;> cases o5 <;> rfl

/-- `fromCVSS2` on the printed form of a base-only vector -/
theorem osv2_print2_mk2 (av ac au c i a : Nat)
    (h0 : av ≠ 0 ∧ av ≠ 47) (h1 : ac ≠ 0 ∧ ac ≠ 47) (h2 : au ≠ 0 ∧ au ≠ 47) (h3 : c ≠ 0 ∧ c ≠ 47)
    (h4 : i ≠ 0 ∧ i ≠ 47) (h5 : a ≠ 0 ∧ a ≠ 47) :
    osv2 (print2 (mk2 av ac au c i a)) =
    (osvW2 0 av).bind fun w0 => (osvW2 1 ac).bind fun w1 => (osvW2 2 au).bind fun w2 => (osvW2 3 c).bind fun w3 =>
    (osvW2 4 i).bind fun w4 => (osvW2 5 a).bind fun w5 =>
      bandOfQ osv2Cases osv2Default (osv2Core [w0, w1, w2, w3, w4, w5]) := by
  rw [print2_mk2 av ac au c i a h0.1 h1.1 h2.1 h3.1 h4.1 h5.1]
  simp only [osv2, osv2Score, split2_base av ac au c i a h0.2 h1.2 h2.2 h3.2 h4.2 h5.2, osvFill2_base,
    List.length_cons, List.length_nil, Nat.reduceAdd, Nat.lt_irrefl, ↓reduceIte]
  generalize osvW2 0 av = o0
  generalize osvW2 1 ac = o1
  generalize osvW2 2 au = o2
  generalize osvW2 3 c = o3
  generalize osvW2 4 i = o4
  generalize osvW2 5 a = o5
  cases o0 <;> cases o1 <;> cases o2 <;> cases o3 <;> cases o4 <;> cases o5 <;> rfl

theorem lk2_eq_w2 : ∀ m < 14, ∀ val ∈ v2GrammarValues.getD m [], lk2 m val = w2 m val := by decide +kernel

theorem g2_single : ∀ m < 6, ∀ b ∈ g2 m, [b] ∈ v2GrammarValues.getD m [] ∧ b ≠ 0 ∧ b ≠ 47 := by decide +kernel

theorem nd_mem : ∀ m < 14, 6 ≤ m → nd ∈ v2GrammarValues.getD m [] := by decide +kernel

theorem osvW2_eq_t2 : ∀ k < 6, ∀ b ∈ g2 k, osvW2 k b = t2 k [b] := by decide +kernel

theorem fastW2_lk2_eq_w2 {av ac au c i a : Nat}
    (hav : av ∈ g2 0) (hac : ac ∈ g2 1) (hau : au ∈ g2 2) (hc : c ∈ g2 3) (hi : i ∈ g2 4) (ha : a ∈ g2 5) :
    fastW2 lk2 av ac au c i a = fastW2 w2 av ac au c i a := by
  simp only [fastW2, valsW2,
    lk2_eq_w2 0 (by decide) [av] (g2_single 0 (by decide) av hav).1,
    lk2_eq_w2 1 (by decide) [ac] (g2_single 1 (by decide) ac hac).1,
    lk2_eq_w2 2 (by decide) [au] (g2_single 2 (by decide) au hau).1,
    lk2_eq_w2 3 (by decide) [c] (g2_single 3 (by decide) c hc).1,
    lk2_eq_w2 4 (by decide) [i] (g2_single 4 (by decide) i hi).1,
    lk2_eq_w2 5 (by decide) [a] (g2_single 5 (by decide) a ha).1,
    lk2_eq_w2 6 (by decide) nd (nd_mem 6 (by decide) (by decide)),
    lk2_eq_w2 7 (by decide) nd (nd_mem 7 (by decide) (by decide)),
    lk2_eq_w2 8 (by decide) nd (nd_mem 8 (by decide) (by decide)),
    lk2_eq_w2 9 (by decide) nd (nd_mem 9 (by decide) (by decide)),
    lk2_eq_w2 10 (by decide) nd (nd_mem 10 (by decide) (by decide)),
    lk2_eq_w2 11 (by decide) nd (nd_mem 11 (by decide) (by decide)),
    lk2_eq_w2 12 (by decide) nd (nd_mem 12 (by decide) (by decide)),
    lk2_eq_w2 13 (by decide) nd (nd_mem 13 (by decide) (by decide))]

set_option maxRecDepth 100000 in
theorem sweep_v2 : sweep2 facts2 = true := by decide +kernel

/-- everything the sweep establishes about one v2 base vector -/
theorem v2_base_facts {av ac au c i a : Nat}
    (hav : av ∈ g2 0) (hac : ac ∈ g2 1) (hau : au ∈ g2 2) (hc : c ∈ g2 3) (hi : i ∈ g2 4) (ha : a ∈ g2 5) :
    score2 (mk2 av ac au c i a) = base2 [av] [ac] [au] [c] [i] [a] ∧
    ∃ k, score2 (mk2 av ac au c i a) = some k ∧ osv2 (print2 (mk2 av ac au c i a)) = inBands osvDocV2 k := by
  have h := sweep2_spec sweep_v2 hav hac hau hc hi ha
  have hsc : score2 (mk2 av ac au c i a) = fastW2 w2 av ac au c i a := by
    rw [score2_mk2, fastW2_lk2_eq_w2 hav hac hau hc hi ha]
  unfold facts2 at h
  split at h
  · rename_i w ns hw hns
    simp only [forceInt_eq, forceQ_eq, Bool.and_eq_true, decide_eq_true_eq] at h
    obtain ⟨hb, ho⟩ := h
    have hk : fastW2 w2 av ac au c i a = some (v2Env10 w (v2Temporal10 w (v2Base10 w false))) := by
      simp only [fastW2, hw]
    refine ⟨by rw [hsc, hk, hb], _, hsc.trans hk, ?_⟩
    have b0 := g2_single 0 (by decide) av hav
    have b1 := g2_single 1 (by decide) ac hac
    have b2 := g2_single 2 (by decide) au hau
    have b3 := g2_single 3 (by decide) c hc
    have b4 := g2_single 4 (by decide) i hi
    have b5 := g2_single 5 (by decide) a ha
    rw [osv2_print2_mk2 av ac au c i a b0.2 b1.2 b2.2 b3.2 b4.2 b5.2]
    unfold specNs2 at hns
    split at hns
    · rename_i w0 w1 w2' w3 w4 w5 f0 f1 f2 f3 f4 f5
      simp only [Option.some.injEq] at hns
      subst hns
      simp only [osvW2_eq_t2 0 (by decide) av hav, osvW2_eq_t2 1 (by decide) ac hac, osvW2_eq_t2 2 (by decide) au hau,
        osvW2_eq_t2 3 (by decide) c hc, osvW2_eq_t2 4 (by decide) i hi, osvW2_eq_t2 5 (by decide) a ha,
        f0, f1, f2, f3, f4, f5, Option.bind_some]
      exact ho
    · simp at hns
  · simp at h

end ClairModel.Cvss
