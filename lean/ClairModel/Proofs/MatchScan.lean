/-
  Lemmas about the scan-level model (Model/MatchScan.lean).
-/
import ClairModel.Model.MatchScan

namespace ClairModel.MatchScan
open ClairModel.Matchers ClairModel.VerCommon

theorem mem_fetched {cs : List Constraint} {vf : Bool} {recs : List Rec} {advs : List Adv} {pid : Str} {a : Adv} :
    a ∈ fetched cs vf recs advs pid ↔
      a ∈ advs ∧ ∃ r ∈ recs, r.pkgID = pid ∧ buildable cs r = true ∧ rowMatches cs vf r a = true := by
  simp only [fetched, List.mem_filter, List.any_eq_true, Bool.and_eq_true, decide_eq_true_eq]
  constructor
  · rintro ⟨ha, r, hr, ⟨h1, h2⟩, h3⟩
    exact ⟨ha, r, hr, h1, h2, h3⟩
  · rintro ⟨ha, r, hr, h1, h2, h3⟩
    exact ⟨ha, r, hr, ⟨h1, h2⟩, h3⟩

theorem mem_filterVulns {m : MatcherId} {r : Rec} : ∀ {vs : List Adv} {l : List (Str × Str)},
    filterVulns m r vs = .ok l → ∀ p, (p ∈ l ↔ ∃ a ∈ vs, p = (r.pkgID, a.id) ∧ vulnerableOf m r a = .ok true)
  | [], l, h, p => by
    simp only [filterVulns, Res.ok.injEq] at h
    subst h
    simp
  | a :: rest, l, h, p => by
    simp only [filterVulns] at h
    cases hv : vulnerableOf m r a with
    | err => simp [hv] at h
    | hang => simp [hv] at h
    | ok b =>
      simp only [hv] at h
      cases hr : filterVulns m r rest with
      | err => simp [hr] at h
      | hang => simp [hr] at h
      | ok l' =>
        simp only [hr, Res.ok.injEq] at h
        have ih := mem_filterVulns hr p
        subst h
        cases b with
        | true =>
          simp only [if_true, List.mem_cons, ih]
          constructor
          · rintro (h | ⟨x, hx, hp, hvx⟩)
            · exact ⟨a, Or.inl rfl, h, hv⟩
            · exact ⟨x, Or.inr hx, hp, hvx⟩
          · rintro ⟨x, (hx | hx), hp, hvx⟩
            · subst hx; exact Or.inl hp
            · exact Or.inr ⟨x, hx, hp, hvx⟩
        | false =>
          simp only [Bool.false_eq_true, if_false, ih, List.mem_cons]
          constructor
          · rintro ⟨x, hx, hp, hvx⟩
            exact ⟨x, Or.inr hx, hp, hvx⟩
          · rintro ⟨x, (hx | hx), hp, hvx⟩
            · subst hx; rw [hv] at hvx; simp at hvx
            · exact ⟨x, hx, hp, hvx⟩

theorem mem_filterRecs {m : MatcherId} {fetch : Str → List Adv} : ∀ {rs : List Rec} {l : List (Str × Str)},
    filterRecs m fetch rs = .ok l →
      ∀ p, (p ∈ l ↔ ∃ r ∈ rs, ∃ a ∈ fetch r.pkgID, p = (r.pkgID, a.id) ∧ vulnerableOf m r a = .ok true)
  | [], l, h, p => by
    simp only [filterRecs, Res.ok.injEq] at h
    subst h
    simp
  | r :: rest, l, h, p => by
    simp only [filterRecs] at h
    cases h1 : filterVulns m r (fetch r.pkgID) with
    | err => simp [h1] at h
    | hang => simp [h1] at h
    | ok l1 =>
      simp only [h1] at h
      cases h2 : filterRecs m fetch rest with
      | err => simp [h2] at h
      | hang => simp [h2] at h
      | ok l2 =>
        simp only [h2, Res.ok.injEq] at h
        subst h
        rw [List.mem_append, mem_filterVulns h1 p, mem_filterRecs h2 p]
        constructor
        · rintro (⟨a, ha, hp, hv⟩ | ⟨x, hx, a, ha, hp, hv⟩)
          · exact ⟨r, List.mem_cons_self, a, ha, hp, hv⟩
          · exact ⟨x, List.mem_cons_of_mem _ hx, a, ha, hp, hv⟩
        · rintro ⟨x, hx, a, ha, hp, hv⟩
          rcases List.mem_cons.mp hx with hx | hx
          · subst hx; exact Or.inl ⟨a, ha, hp, hv⟩
          · exact Or.inr ⟨x, hx, a, ha, hp, hv⟩

/-- A failing controller: some `Vulnerable` call on an interested record failed. -/
theorem filterVulns_err {m : MatcherId} {r : Rec} : ∀ {vs : List Adv},
    filterVulns m r vs = .err → ∃ a ∈ vs, vulnerableOf m r a = .err
  | [], h => by simp [filterVulns] at h
  | a :: rest, h => by
    simp only [filterVulns] at h
    cases hv : vulnerableOf m r a with
    | err => exact ⟨a, List.mem_cons_self, hv⟩
    | hang => simp [hv] at h
    | ok b =>
      simp only [hv] at h
      cases hr : filterVulns m r rest with
      | err =>
        obtain ⟨x, hx, hxe⟩ := filterVulns_err hr
        exact ⟨x, List.mem_cons_of_mem _ hx, hxe⟩
      | hang => simp [hr] at h
      | ok l' => simp [hr] at h

theorem filterRecs_err {m : MatcherId} {fetch : Str → List Adv} : ∀ {rs : List Rec},
    filterRecs m fetch rs = .err → ∃ r ∈ rs, ∃ a ∈ fetch r.pkgID, vulnerableOf m r a = .err
  | [], h => by simp [filterRecs] at h
  | r :: rest, h => by
    simp only [filterRecs] at h
    cases h1 : filterVulns m r (fetch r.pkgID) with
    | err =>
      obtain ⟨a, ha, hae⟩ := filterVulns_err h1
      exact ⟨r, List.mem_cons_self, a, ha, hae⟩
    | hang => simp [h1] at h
    | ok l1 =>
      simp only [h1] at h
      cases h2 : filterRecs m fetch rest with
      | err =>
        obtain ⟨x, hx, a, ha, hae⟩ := filterRecs_err h2
        exact ⟨x, List.mem_cons_of_mem _ hx, a, ha, hae⟩
      | hang => simp [h2] at h
      | ok l2 => simp [h2] at h

theorem mem_dedup : ∀ {l : List Str} {x : Str}, x ∈ dedup l ↔ x ∈ l
  | [], x => by simp [dedup]
  | y :: ys, x => by
    simp only [dedup]
    split
    · next hc =>
      rw [mem_dedup, List.mem_cons]
      constructor
      · exact Or.inr
      · rintro (h | h)
        · subst h; simpa using hc
        · exact h
    · rw [List.mem_cons, List.mem_cons, mem_dedup]

/-- `matchOne` of a matcher that is not authoritative. -/
theorem matchOne_nonauth {m : MatcherId} {recs : List Rec} {advs : List Adv} (hm : authoritative m = false) :
    matchOne m recs advs =
      if (recs.filter (filter m)).isEmpty then .ok []
      else filterRecs m (fetched (query m) (versionFilter m) (recs.filter (filter m)) advs) (recs.filter (filter m)) := by
  simp [matchOne, hm]

theorem matchOne_auth {m : MatcherId} {recs : List Rec} {advs : List Adv} (hm : authoritative m = true) :
    matchOne m recs advs =
      if (recs.filter (filter m)).isEmpty then .ok []
      else .ok ((dedup (((recs.filter (filter m)).filter (buildable (query m))).map (·.pkgID))).flatMap fun pid =>
        (fetched (query m) (versionFilter m) (recs.filter (filter m)) advs pid).map fun a => (pid, a.id)) := by
  simp [matchOne, hm]

end ClairModel.MatchScan
