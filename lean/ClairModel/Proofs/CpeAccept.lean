/-
  C19 — the formatted strings `UnbindFS` accepts, exactly.
-/
import ClairModel.Proofs.CpeBind
import ClairModel.Proofs.CpeFS

namespace ClairModel.Cpe
open ClairModel.CpeTypes ClairModel.CpeSpec

/-! ### splitting, read backwards -/

/-- No unquoted colon, scanning from escape state `e` (the scan may end
    inside a quoting). -/
def noColonAux (e : Bool) : Str → Bool
  | [] => true
  | c :: rest =>
    if c = 92 ∧ e = false then noColonAux true rest
    else if c = 58 ∧ e = false then false
    else noColonAux false rest

/-- Escape state at the end of the scan. -/
def endsEsc (e : Bool) : Str → Bool
  | [] => e
  | c :: rest => if c = 92 ∧ e = false then endsEsc true rest else endsEsc false rest

theorem closed_iff (e : Bool) (x : Str) : closedAux e x = (noColonAux e x && !endsEsc e x) := by
  induction x generalizing e with
  | nil => simp [closedAux, noColonAux, endsEsc]
  | cons c x ih =>
    simp only [closedAux, noColonAux, endsEsc]
    by_cases h1 : c = 92 ∧ e = false
    · simp only [h1, and_self, if_true, ih]
    · simp only [h1, if_false]
      by_cases h2 : c = 58 ∧ e = false
      · simp [h2]
      · simp only [h2, if_false, ih]

/-- The segments of a split: all but the last are closed, the last has no
    unquoted colon; the first is scanned from state `e`. -/
def segsOk (e : Bool) : List Str → Prop
  | [] => False
  | [x] => noColonAux e x = true
  | x :: y :: ys => closedAux e x = true ∧ segsOk false (y :: ys)

def joinColon : List Str → Str
  | [] => []
  | [x] => x
  | x :: y :: ys => x ++ 58 :: joinColon (y :: ys)

theorem segsOk_consHead (e e' : Bool) (c : Nat) (L : List Str) (h : segsOk e' L)
    (hn : ∀ x, noColonAux e' x = true → noColonAux e (c :: x) = true)
    (hc : ∀ x, closedAux e' x = true → closedAux e (c :: x) = true) :
    segsOk e (consHead c L) := by
  cases L with
  | nil => exact absurd h (by simp [segsOk])
  | cons x xs =>
    cases xs with
    | nil => simpa [consHead, segsOk] using hn x h
    | cons y ys =>
      simp only [segsOk] at h
      simp only [consHead, segsOk]
      exact ⟨hc x h.1, h.2⟩

theorem joinColon_consHead (c : Nat) (L : List Str) (h : L ≠ []) :
    joinColon (consHead c L) = c :: joinColon L := by
  cases L with
  | nil => exact absurd rfl h
  | cons x xs =>
    cases xs with
    | nil => rfl
    | cons y ys => rfl

theorem segsOk_ne_nil (e : Bool) (L : List Str) (h : segsOk e L) : L ≠ [] := by
  intro hl; subst hl; exact h

theorem split_spec (e : Bool) (s : Str) :
    segsOk e (splitFSAux e s) ∧ joinColon (splitFSAux e s) = s := by
  induction s generalizing e with
  | nil => simp [splitFSAux, segsOk, joinColon, noColonAux]
  | cons c s ih =>
    simp only [splitFSAux]
    by_cases h1 : c = 92 ∧ e = false
    · simp only [h1, and_self, if_true]
      obtain ⟨hs, hj⟩ := ih true
      refine ⟨segsOk_consHead false true 92 _ hs ?_ ?_, ?_⟩
      · intro x hx; simpa [noColonAux] using hx
      · intro x hx; simpa [closedAux] using hx
      · rw [joinColon_consHead _ _ (segsOk_ne_nil _ _ hs), hj]
    · simp only [h1, if_false]
      by_cases h2 : c = 58 ∧ e = false
      · simp only [h2, and_self, if_true]
        obtain ⟨hs, hj⟩ := ih false
        cases hL : splitFSAux false s with
        | nil => rw [hL] at hs; exact absurd hs (by simp [segsOk])
        | cons x xs =>
          rw [hL] at hs hj
          refine ⟨⟨by simp [closedAux], hs⟩, ?_⟩
          simp [joinColon, hj]
      · simp only [h2, if_false]
        obtain ⟨hs, hj⟩ := ih false
        refine ⟨segsOk_consHead e false c _ hs ?_ ?_, ?_⟩
        · intro x hx; simp only [noColonAux, h1, h2, if_false]; exact hx
        · intro x hx; simp only [closedAux, h1, h2, if_false]; exact hx
        · rw [joinColon_consHead _ _ (segsOk_ne_nil _ _ hs), hj]

theorem flatMap_joinColon (L : List Str) (h : L ≠ []) :
    (L.flatMap fun c => 58 :: c) = 58 :: joinColon L := by
  induction L with
  | nil => exact absurd rfl h
  | cons x xs ih =>
    cases xs with
    | nil => simp [joinColon]
    | cons y ys =>
      have := ih (by simp)
      simp only [List.flatMap_cons] at this ⊢
      rw [this]
      simp [joinColon]

theorem segsOk_closed_init (L : List Str) (h : segsOk false L) :
    ∀ c ∈ L.dropLast, closedAux false c = true := by
  induction L with
  | nil => intro c hc; cases hc
  | cons x xs ih =>
    cases xs with
    | nil => intro c hc; simp at hc
    | cons y ys =>
      simp only [segsOk] at h
      intro c hc
      simp only [List.dropLast_cons_cons, List.mem_cons] at hc
      rcases hc with rfl | hc
      · exact h.1
      · exact ih h.2 c hc

theorem segsOk_last (L : List Str) (h : segsOk false L) :
    ∀ c, L.getLast? = some c → noColonAux false c = true := by
  induction L with
  | nil => intro c hc; cases hc
  | cons x xs ih =>
    cases xs with
    | nil => intro c hc; simp at hc; subst hc; exact h
    | cons y ys =>
      simp only [segsOk] at h
      intro c hc
      rw [List.getLast?_cons_cons] at hc
      exact ih h.2 c hc

/-! ### what a valid unbound value says about the component -/

theorem wfq_unbind_ends (e : Bool) (c : Str) (h : wfqAux e (unbindFSValAux e c) = true) :
    endsEsc e c = false := by
  induction c generalizing e with
  | nil => simpa [unbindFSValAux, wfqAux, endsEsc] using h
  | cons d c ih =>
    simp only [unbindFSValAux] at h
    simp only [endsEsc]
    by_cases h1 : d = 92 ∧ e = false
    · obtain ⟨rfl, rfl⟩ := h1
      simp only [and_self, if_true, wfqAux, Bool.false_eq_true, if_false] at h ⊢
      exact ih true h
    · simp only [h1, if_false] at h ⊢
      apply ih false
      cases e with
      | true =>
        split at h
        · simpa [wfqAux] using h
        · simpa [wfqAux] using h
      | false =>
        have hd : d ≠ 92 := by intro hd; exact h1 ⟨hd, rfl⟩
        split at h
        · simp only [wfqAux, Bool.false_eq_true, if_false, hd, Bool.and_eq_true] at h; exact h.2
        · split at h
          · simp only [wfqAux, Bool.false_eq_true, if_false, hd, Bool.and_eq_true] at h; exact h.2
          · simpa [wfqAux] using h

theorem unbindFSVal_eq_single (p : Str) (k : Nat) (hk : reserved k = false) (h : unbindFSVal p = [k]) : p = [k] := by
  cases p with
  | nil => simp [unbindFSVal, unbindFSValAux] at h
  | cons c rest =>
    simp only [unbindFSVal, unbindFSValAux] at h
    have h92 : k ≠ 92 := by intro hh; subst hh; simp [reserved] at hk
    split at h
    · have := (List.cons.inj h).1; exact absurd this.symm h92
    · split at h
      · obtain ⟨h1, h2⟩ := List.cons.inj h
        rw [h1, unbindFSValAux_nil false rest h2]
      · split at h
        · obtain ⟨h1, h2⟩ := List.cons.inj h
          rw [h1, unbindFSValAux_nil false rest h2]
        · have := (List.cons.inj h).1; exact absurd this.symm h92

/-! ### the theorem -/

def logicalComp (c : Str) : Prop := c = [] ∨ c = [45] ∨ c = [42]

instance (c : Str) : Decidable (logicalComp c) := by unfold logicalComp; infer_instance

/-- The formatted strings `UnbindFS` accepts: the prefix, then between one
    and eleven components separated by unquoted colons, none ending inside a
    quoting; each component is empty (unset), `-`, `*`, or unbinds
    (`unbindFSVal` quotes what is unquoted) to a value string `validate`
    accepts; not all components are empty; the part is empty, `-`, `*`, `a`,
    `o` or `h`. -/
def AcceptedFS (s : Str) : Prop :=
  ∃ comps : List Str, comps ≠ [] ∧ comps.length ≤ 11 ∧
    s = fsHead ++ comps.flatMap (fun c => 58 :: c) ∧
    (∀ c ∈ comps, closedAux false c = true) ∧
    (∀ c ∈ comps, logicalComp c ∨ validate (unbindFSVal c) = true) ∧
    (∃ c ∈ comps, c ≠ []) ∧
    (∀ p, comps.head? = some p → logicalComp p ∨ p = [97] ∨ p = [111] ∨ p = [104])

theorem unbindFSAttr_logical (c : Str) (h : logicalComp c) : (unbindFSAttr c).v = [] := by
  rcases h with rfl | rfl | rfl <;> rfl

theorem unbindFSAttr_set (c : Str) (h : ¬ logicalComp c) : unbindFSAttr c = ⟨.set, unbindFSVal c⟩ := by
  simp only [logicalComp, not_or] at h
  simp [unbindFSAttr, h.1, h.2.1, h.2.2]

theorem unbindFSAttr_kind_unset (c : Str) : ((unbindFSAttr c).kind == Kind.unset) = decide (c = []) := by
  by_cases h0 : c = []
  · subst h0; rfl
  by_cases h1 : c = [45]
  · subst h1; rfl
  by_cases h2 : c = [42]
  · subst h2; rfl
  simp [unbindFSAttr, h0, h1, h2]

theorem accepted_unbindFS (s : Str) (h : AcceptedFS s) : (unbindFS s).isSome = true := by
  obtain ⟨comps, hne, hlen, hs, hclosed, hval, ⟨c0, hc0, hc0ne⟩, hpart⟩ := h
  have hs' : s = segCpe ++ (seg23 :: comps).flatMap fun y => 58 :: y := by
    rw [hs]; simp [segCpe, seg23, fsHead]
  have hsplit : splitFS s = segCpe :: seg23 :: comps := by
    rw [hs', splitFS]
    apply split_join
    · decide
    · intro y hy
      rcases List.mem_cons.1 hy with rfl | hy
      · decide
      · exact hclosed y hy
  have hpre : Gen.Cpe.cpe23Prefix.isPrefixOf s = true := by
    cases comps with
    | nil => exact absurd rfl hne
    | cons a w => rw [hs]; simp [fsHead, Gen.Cpe.cpe23Prefix, List.isPrefixOf]
  obtain ⟨w, hw⟩ : ∃ w : WFN, w = comps.map unbindFSAttr ++
      List.replicate (Gen.Cpe.numAttr - comps.length) unsetValue := ⟨_, rfl⟩
  have h1 : w.all attrOk = true := by
    rw [hw]
    simp only [List.all_append, List.all_map, Bool.and_eq_true, List.all_eq_true]
    refine ⟨?_, ?_⟩
    · intro c hc
      simp only [Function.comp]
      apply attrOk_unbindFSAttr
      rcases hval c hc with hl | hv
      · rw [unbindFSAttr_logical c hl]; exact validate_nil
      · by_cases hl : logicalComp c
        · rw [unbindFSAttr_logical c hl]; exact validate_nil
        · rw [unbindFSAttr_set c hl]; exact hv
    · intro a ha
      rw [List.eq_of_mem_replicate ha]; rfl
  have h2 : w.all (fun a => a.kind == Kind.unset) = false := by
    rw [hw]
    simp only [List.all_append, List.all_map, Bool.and_eq_false_iff]
    left
    rw [List.all_eq_false]
    refine ⟨c0, hc0, ?_⟩
    simp only [Function.comp, unbindFSAttr_kind_unset, decide_eq_true_eq]
    exact hc0ne
  have hvalid : valid w = .ok := by
    cases hcomps : comps with
    | nil => exact absurd hcomps hne
    | cons p rest =>
      have hhead : w.head? = some (unbindFSAttr p) := by rw [hw, hcomps]; rfl
      unfold valid
      rw [h1, h2, hhead]
      simp only [Bool.not_true, Bool.false_eq_true, if_false]
      rcases hpart p (by rw [hcomps]; rfl) with hl | rfl | rfl | rfl
      · rcases hl with rfl | rfl | rfl <;> rfl
      · rfl
      · rfl
      · rfl
  unfold unbindFS
  have hl : ¬ comps.length > Gen.Cpe.numAttr := by simp [Gen.Cpe.numAttr]; omega
  simp only [hpre, Bool.not_true, Bool.false_eq_true, if_false, hsplit, List.drop_succ_cons, List.drop_zero,
    hl, ← hw, hvalid]
  rfl

theorem unbindFS_accepted (s : Str) (h : (unbindFS s).isSome = true) : AcceptedFS s := by
  unfold unbindFS at h
  have hpre : Gen.Cpe.cpe23Prefix.isPrefixOf s = true := by
    cases hp : Gen.Cpe.cpe23Prefix.isPrefixOf s with
    | true => rfl
    | false => simp [hp] at h
  simp only [hpre, Bool.not_true, Bool.false_eq_true, if_false] at h
  obtain ⟨s', hs'⟩ := List.isPrefixOf_iff_prefix.1 hpre
  have hsplit : splitFS s = segCpe :: seg23 :: splitFSAux false s' := by
    rw [← hs', splitFS]
    have e1 : Gen.Cpe.cpe23Prefix ++ s' = segCpe ++ 58 :: (seg23 ++ 58 :: s') := by
      simp [Gen.Cpe.cpe23Prefix, segCpe, seg23]
    rw [e1, split_closed_append false segCpe _ (by decide), split_closed_append false seg23 _ (by decide)]
  obtain ⟨hsegs, hjoin⟩ := split_spec false s'
  generalize hcomps : splitFSAux false s' = comps at hsplit hsegs hjoin
  have hne : comps ≠ [] := segsOk_ne_nil _ _ hsegs
  rw [hsplit] at h
  simp only [List.drop_succ_cons, List.drop_zero] at h
  by_cases hlen : comps.length > Gen.Cpe.numAttr
  · simp [hlen] at h
  simp only [hlen, if_false] at h
  obtain ⟨w, hw⟩ : ∃ w : WFN, w = comps.map unbindFSAttr ++
      List.replicate (Gen.Cpe.numAttr - comps.length) unsetValue := ⟨_, rfl⟩
  rw [← hw] at h
  have hvalid : valid w = .ok := by
    cases hv : valid w <;> simp [hv] at h
    rfl
  have hall := valid_all w hvalid
  have hmem : ∀ c ∈ comps, unbindFSAttr c ∈ w := by
    intro c hc; rw [hw]; exact List.mem_append_left _ (List.mem_map.2 ⟨c, hc, rfl⟩)
  have hval : ∀ c ∈ comps, logicalComp c ∨ validate (unbindFSVal c) = true := by
    intro c hc
    by_cases hl : logicalComp c
    · exact Or.inl hl
    · right
      have := hall _ (hmem c hc)
      rw [unbindFSAttr_set c hl] at this
      exact this
  -- every component ends outside a quoting
  have hclosed : ∀ c ∈ comps, closedAux false c = true := by
    intro c hc
    have hinit := segsOk_closed_init comps hsegs
    have hlast := segsOk_last comps hsegs
    rcases List.eq_nil_or_concat comps with hnil | ⟨init, lst, hconc⟩
    · exact absurd hnil hne
    · rw [hconc] at hc hinit hlast
      simp only [List.concat_eq_append, List.mem_append, List.mem_singleton] at hc
      rcases hc with hc | rfl
      · exact hinit c (by simpa using hc)
      · have hnc := hlast c (by simp)
        rw [closed_iff, hnc, Bool.true_and]
        by_cases hl : logicalComp c
        · rcases hl with rfl | rfl | rfl <;> rfl
        · have hv : validate (unbindFSVal c) = true := by
            rcases hval c (by rw [hconc]; simp) with h' | h'
            · exact absurd h' hl
            · exact h'
          have := wfq_unbind_ends false c (validate_wfq _ hv)
          simp [this]
  refine ⟨comps, hne, by simp [Gen.Cpe.numAttr] at hlen; omega, ?_, hclosed, hval, ?_, ?_⟩
  · rw [← hs', flatMap_joinColon comps hne, hjoin]
    simp [Gen.Cpe.cpe23Prefix, fsHead]
  · -- not all unset
    have hnot : w.all (fun a => a.kind == Kind.unset) = false := by
      unfold valid at hvalid
      split at hvalid
      · cases hvalid
      · split at hvalid
        · cases hvalid
        · rename_i hh; simpa using hh
    rw [List.all_eq_false] at hnot
    obtain ⟨a, ha, hk⟩ := hnot
    rw [hw, List.mem_append] at ha
    rcases ha with ha | ha
    · obtain ⟨c, hc, rfl⟩ := List.mem_map.1 ha
      refine ⟨c, hc, ?_⟩
      intro h0; subst h0; simp [unbindFSAttr] at hk
    · rw [List.eq_of_mem_replicate ha] at hk
      simp [unsetValue] at hk
  · intro p hp
    cases hcs : comps with
    | nil => exact absurd hcs hne
    | cons p' rest =>
      rw [hcs] at hp
      simp only [List.head?_cons, Option.some.injEq] at hp
      subst hp
      by_cases hl : logicalComp p'
      · exact Or.inl hl
      · right
        have hhead : w.head? = some (unbindFSAttr p') := by rw [hw, hcs]; rfl
        unfold valid at hvalid
        split at hvalid
        · cases hvalid
        · split at hvalid
          · cases hvalid
          · rw [hhead, unbindFSAttr_set p' hl] at hvalid
            simp only [beq_self_eq_true, Bool.true_and] at hvalid
            split at hvalid
            · cases hvalid
            · rename_i hh
              simp only [Bool.not_eq_true', Bool.not_eq_false, Bool.or_eq_true, beq_iff_eq] at hh
              rcases hh with (hh | hh) | hh
              · exact Or.inl (unbindFSVal_eq_single p' 97 (by decide) hh)
              · exact Or.inr (Or.inl (unbindFSVal_eq_single p' 111 (by decide) hh))
              · exact Or.inr (Or.inr (unbindFSVal_eq_single p' 104 (by decide) hh))

theorem unbindFS_accepts_iff' (s : Str) : (unbindFS s).isSome = true ↔ AcceptedFS s :=
  ⟨unbindFS_accepted s, accepted_unbindFS s⟩

end ClairModel.Cpe
