import ClairModel.Proofs.Arena

/-!
  Consequences of the arena invariant used by the C10 property theorems.
-/
set_option linter.unusedSimpArgs false

namespace ClairModel.Arena

/-- What the invariant says about a task that reads through a private descriptor. -/
theorem holder_facts' {s : State} (h : Inv s) {t k r : Nat}
    (ht : s.tasks[t]? = some (.holding k r) ∨ s.tasks[t]? = some (.opened k r)) :
    (s.rc r).fileOpen = true ∧ 1 ≤ (s.rc r).count ∧ (s.arena k = some r ∨ s.detached r = true) := by
  obtain ⟨p, hp, hfile, hrc⟩ : ∃ p, s.tasks[t]? = some p ∧ p.usesFile = some r ∧ p.rcOf = some (k, r) := by
    rcases ht with ht | ht
    · exact ⟨_, ht, rfl, rfl⟩
    · exact ⟨_, ht, rfl, rfl⟩
  have hm : p ∈ s.tasks := List.mem_of_getElem? hp
  have ho := h.openHeld p hm r hfile
  have hk := (h.taskKey p hm k r hrc).2
  have hin := h.openIn r ho
  rw [hk] at hin
  refine ⟨ho, ?_, hin⟩
  have hpos : 0 < s.tasks.countP (Pc.refOn r) :=
    List.countP_pos_iff.2 ⟨p, hm, usesFile_refOn hfile⟩
  have := h.cnt r
  simp only [refsOn] at this
  omega

/-- The same for a file the arena was not Closed under: it is still the arena's entry. -/
theorem holder_facts {s : State} (h : Inv s) {t k r : Nat}
    (ht : s.tasks[t]? = some (.holding k r) ∨ s.tasks[t]? = some (.opened k r))
    (hd : s.detached r = false) :
    (s.rc r).fileOpen = true ∧ 1 ≤ (s.rc r).count ∧ s.arena k = some r := by
  obtain ⟨ho, hc, ha⟩ := holder_facts' h ht
  refine ⟨ho, hc, ?_⟩
  rcases ha with ha | ha
  · exact ha
  · rw [hd] at ha; cases ha

/-- Only `RemoteFetchArena.Close` detaches a file. -/
theorem detached_step (s : State) (op : Op) (hop : op ≠ .aclose) : (step s op).1.detached = s.detached := by
  have hdec : ∀ r, (dec true s r).1.detached = s.detached := by
    intro r
    simp only [dec]
    split
    · rfl
    · split <;> rfl
  cases op <;> simp only [step, stepG] <;> (try (exact absurd rfl hop)) <;>
    (repeat' split) <;> (first | rfl | simp only [setTask, setPhase, hdec])

theorem close_other_task (s : State) (t t' : Nat) (hne : t' ≠ t) :
    (step s (.close t)).1.tasks[t']? = s.tasks[t']? := by
  simp only [step, stepG]
  split
  · rename_i k r ht
    have hd : (dec true s r).1.tasks = s.tasks := by
      simp only [dec]
      split
      · rfl
      · split <;> rfl
    simp only [setTask, hd]
    exact List.getElem?_set_ne (Ne.symm hne)
  · rfl

theorem close_ok {s : State} (h : Inv s) {t k r : Nat} (ht : s.tasks[t]? = some (.holding k r)) :
    (step s (.close t)).2 = .closedOk := by
  have := (inv_dec_task (p' := .closed) (q := .holding k r) (r := r) h ht (by simp [Pc.refOn]) (by intro r'; rfl) rfl rfl
    (by intro k' hk'; cases hk')).2
  simp only [step, stepG, ht, this]
  rfl

theorem no_double_store {s : State} (h : Inv s) (k : Nat) : (step s (.fstore k)).2 ≠ .double := by
  simp only [step, stepG]
  split
  · rename_i f hf
    split
    · rename_i hph
      have hnone := h.missNone k f hf (Or.inr (Or.inr hph))
      rw [hnone]
      simp
    · simp
  · simp

/-! ### nothing is downloaded for a digest somebody holds -/

theorem dec_tasks (s : State) (r : Nat) : (dec true s r).1.tasks = s.tasks := by
  simp only [dec]
  split
  · rfl
  · split <;> rfl

theorem dec_hits (s : State) (r : Nat) : (dec true s r).1.hits = s.hits := by
  simp only [dec]
  split
  · rfl
  · split <;> rfl

/-- One step: a holder other than the closing task keeps holding, and no request for its
    digest reaches the server. -/
theorem held_step {s : State} (h : Inv s) {t k r : Nat} (ht : s.tasks[t]? = some (.holding k r))
    (hd : s.detached r = false)
    (op : Op) (hop : op ≠ .close t) (hop' : op ≠ .aclose) :
    (step s op).1.tasks[t]? = some (.holding k r) ∧ (step s op).1.hits k = s.hits k := by
  have harena : s.arena k = some r := (holder_facts h (Or.inl ht) hd).2.2
  have hlt : t < s.tasks.length := by
    rcases Nat.lt_or_ge t s.tasks.length with hl | hl
    · exact hl
    · rw [List.getElem?_eq_none hl] at ht; cases ht
  -- a transition of task `t'` whose pattern is not `holding` is a transition of another task
  have other : ∀ {t' : Nat} {q : Pc}, s.tasks[t']? = some q → (∀ k' r', q ≠ .holding k' r') → t ≠ t' := by
    intro t' q hq hne he
    subst he
    rw [ht] at hq
    cases hq
    exact hne k r rfl
  have setOther : ∀ {t' : Nat} {q : Pc} (p' : Pc), s.tasks[t']? = some q → (∀ k' r', q ≠ .holding k' r') →
      (s.tasks.set t' p')[t]? = some (.holding k r) := by
    intro t' q p' hq hne
    rw [List.getElem?_set_ne (Ne.symm (other hq hne))]
    exact ht
  cases op with
  | spawn k' =>
    simp only [step, stepG]
    refine ⟨?_, by first | rfl | trivial⟩
    rw [List.getElem?_append_left hlt]
    exact ht
  | enter t' =>
    simp only [step, stepG]
    split
    · rename_i k' hq
      split
      · exact ⟨setOther _ hq (by intro _ _ he; cases he), by first | rfl | trivial⟩
      · exact ⟨setOther _ hq (by intro _ _ he; cases he), by first | rfl | trivial⟩
    · exact ⟨ht, by first | rfl | trivial⟩
  | fload k' valid =>
    simp only [step, stepG]
    split
    · split
      · split
        · split <;> exact ⟨ht, by first | rfl | trivial⟩
        · exact ⟨ht, by first | rfl | trivial⟩
      · exact ⟨ht, by first | rfl | trivial⟩
    · exact ⟨ht, by first | rfl | trivial⟩
  | fnet k' srvOk =>
    simp only [step, stepG]
    split
    · rename_i f hf
      split
      · rename_i hph
        -- a flight past its Load miss owns the key: it cannot be the held digest
        have hkk : k ≠ k' := by
          intro he
          subst he
          have := h.missNone k f hf (Or.inl hph)
          rw [harena] at this
          cases this
        split
        · exact ⟨ht, by first | rfl | trivial⟩
        · split
          · exact ⟨ht, by simp only [setPhase]; exact upd_other _ _ _ _ hkk⟩
          · exact ⟨ht, by simp only [setPhase]; exact upd_other _ _ _ _ hkk⟩
      · exact ⟨ht, by first | rfl | trivial⟩
    · exact ⟨ht, by first | rfl | trivial⟩
  | freq k' =>
    simp only [step, stepG]
    split
    · rename_i f hf
      split
      · rename_i hph
        have hkk : k ≠ k' := by
          intro he
          subst he
          have := h.missNone k f hf (Or.inl hph)
          rw [harena] at this
          cases this
        split
        · exact ⟨ht, by first | rfl | trivial⟩
        · exact ⟨ht, by simp only [setPhase]; exact upd_other _ _ _ _ hkk⟩
      · exact ⟨ht, by first | rfl | trivial⟩
    · exact ⟨ht, by first | rfl | trivial⟩
  | fbody k' srvOk =>
    simp only [step, stepG]
    split
    · split
      · split
        · exact ⟨ht, by first | rfl | trivial⟩
        · split <;> exact ⟨ht, by first | rfl | trivial⟩
      · exact ⟨ht, by first | rfl | trivial⟩
    · exact ⟨ht, by first | rfl | trivial⟩
  | fstore k' =>
    simp only [step, stepG]
    split
    · split
      · split <;> exact ⟨ht, by first | rfl | trivial⟩
      · exact ⟨ht, by first | rfl | trivial⟩
    · exact ⟨ht, by first | rfl | trivial⟩
  | fend k' =>
    simp only [step, stepG]
    split
    · split
      · refine ⟨?_, by first | rfl | trivial⟩
        simp only [List.getElem?_map, ht, Option.map_some, deliver]
        simp
      · exact ⟨ht, by first | rfl | trivial⟩
    · exact ⟨ht, by first | rfl | trivial⟩
  | cancel t' =>
    simp only [step, stepG]
    split
    · rename_i k' hq
      split
      · split
        · exact ⟨setOther _ hq (by intro _ _ he; cases he), by first | rfl | trivial⟩
        · exact ⟨setOther _ hq (by intro _ _ he; cases he), by first | rfl | trivial⟩
      · exact ⟨setOther _ hq (by intro _ _ he; cases he), by first | rfl | trivial⟩
    · exact ⟨ht, by first | rfl | trivial⟩
    · exact ⟨ht, by first | rfl | trivial⟩
    · exact ⟨ht, by first | rfl | trivial⟩
  | ref t' =>
    simp only [step, stepG]
    split
    · rename_i k' r' hq
      exact ⟨setOther _ hq (by intro _ _ he; cases he), by first | rfl | trivial⟩
    · exact ⟨ht, by first | rfl | trivial⟩
  | val t' =>
    simp only [step, stepG]
    split
    · rename_i k' r' hq
      split
      · exact ⟨setOther _ hq (by intro _ _ he; cases he), by first | rfl | trivial⟩
      · exact ⟨setOther _ hq (by intro _ _ he; cases he), by first | rfl | trivial⟩
    · exact ⟨ht, by first | rfl | trivial⟩
  | retry t' =>
    simp only [step, stepG]
    split
    · rename_i k' r' hq
      simp only [if_true, setTask, dec_tasks, dec_hits]
      exact ⟨setOther _ hq (by intro _ _ he; cases he), by first | rfl | trivial⟩
    · exact ⟨ht, by first | rfl | trivial⟩
  | init t' ok =>
    simp only [step, stepG]
    split
    · rename_i k' r' hq
      split
      · exact ⟨setOther _ hq (by intro _ _ he; cases he), by first | rfl | trivial⟩
      · simp only [setTask, dec_tasks, dec_hits]
        exact ⟨setOther _ hq (by intro _ _ he; cases he), by first | rfl | trivial⟩
    · exact ⟨ht, by first | rfl | trivial⟩
  | close t' =>
    have hne : t ≠ t' := by intro he; subst he; exact hop rfl
    refine ⟨?_, ?_⟩
    · rw [close_other_task s t' t hne]; exact ht
    · simp only [step, stepG]
      split
      · simp only [setTask, dec_hits]
      · rfl
  | finalize i =>
    simp only [step, stepG]
    split
    · rename_i r' hr
      rw [h.noLeak] at hr
      simp at hr
    · exact ⟨ht, by first | rfl | trivial⟩
  | query k' => exact ⟨ht, by first | rfl | trivial⟩
  | aclose => exact absurd rfl hop'
  | ftmpfail k' =>
    simp only [step, stepG]
    split
    · split <;> exact ⟨ht, by first | rfl | trivial⟩
    · exact ⟨ht, by first | rfl | trivial⟩

theorem held_run : ∀ (ops : List Op) (s : State), Inv s → ∀ {t k r : Nat},
    s.tasks[t]? = some (.holding k r) → s.detached r = false →
    (∀ op ∈ ops, op ≠ .close t ∧ op ≠ .aclose) →
    (Sm.run step s ops).tasks[t]? = some (.holding k r) ∧ (Sm.run step s ops).hits k = s.hits k := by
  intro ops
  induction ops with
  | nil => intro s _ t k r ht _ _; exact ⟨ht, rfl⟩
  | cons op ops ih =>
    intro s h t k r ht hd hops
    have hop := hops op (List.mem_cons_self)
    have h1 := held_step h ht hd op hop.1 hop.2
    have hd' : (step s op).1.detached r = false := by rw [detached_step s op hop.2]; exact hd
    have := ih (step s op).1 (inv_step h op) h1.1 hd' (fun o ho => hops o (List.mem_cons_of_mem _ ho))
    simp only [Sm.run_cons]
    exact ⟨this.1, by rw [this.2, h1.2]⟩

/-- A history without `RemoteFetchArena.Close` detaches nothing. -/
theorem no_aclose_no_detached (ops : List Op) (hn : ∀ op ∈ ops, op ≠ .aclose) (r : Nat) :
    (Sm.run step init ops).detached r = false := by
  have key : ∀ (ops : List Op) (s : State), (∀ op ∈ ops, op ≠ .aclose) →
      (Sm.run step s ops).detached = s.detached := by
    intro ops
    induction ops with
    | nil => intro s _; rfl
    | cons op ops ih =>
      intro s hn
      simp only [Sm.run_cons]
      rw [ih _ (fun o ho => hn o (List.mem_cons_of_mem _ ho)), detached_step s op (hn op List.mem_cons_self)]
  rw [key ops init hn]
  rfl

/-! ### quiescence -/

theorem quiescent_facts {s : State} (h : Inv s) (hq : Quiescent s) (ho : s.orphans = []) :
    (∀ k, s.arena k = none) ∧ (∀ r, (s.rc r).fileOpen = false) ∧ (∀ r, (s.rc r).count = 0) := by
  obtain ⟨htasks, hfl, hleak⟩ := hq
  have hcount : ∀ r, (s.rc r).count = 0 := by
    intro r
    rw [h.cnt r]
    simp only [refsOn, hleak]
    have : s.tasks.countP (Pc.refOn r) = 0 := by
      apply List.countP_eq_zero.2
      intro p hp
      rcases htasks p hp with rfl | rfl <;> simp [Pc.refOn]
    simp [this]
  have hclosed : ∀ r, (s.rc r).fileOpen = false := by
    intro r
    cases hb : (s.rc r).fileOpen with
    | false => rfl
    | true =>
      have hlt : r < s.nrc := by
        rcases Nat.lt_or_ge r s.nrc with hl | hl
        · exact hl
        · rw [h.fresh r hl] at hb; cases hb
      rcases h.zeroIn r hlt hb (hcount r) with ⟨f, hf, _⟩ | hg | hor
      · rw [hfl _] at hf; cases hf
      · rcases htasks _ hg with he | he <;> cases he
      · rw [ho] at hor; cases hor
  refine ⟨?_, hclosed, hcount⟩
  intro k
  cases ha : s.arena k with
  | none => rfl
  | some r =>
    have := (h.arenaOk k r ha).2.2
    rw [hclosed r] at this
    cases this

/-- Without cancellations the leader of every flight is still waiting for it, so a flight
    never ends with nobody to hand its result to. -/
structure LeaderWaits (s : State) : Prop where
  leader : ∀ k f, s.flight k = some f → s.tasks[f.leader]? = some (.waiting k)
  noOrphan : s.orphans = []

theorem dec_flight (s : State) (r : Nat) : (dec true s r).1.flight = s.flight := by
  simp only [dec]
  split
  · rfl
  · split <;> rfl

theorem dec_orphans (s : State) (r : Nat) : (dec true s r).1.orphans = s.orphans := by
  simp only [dec]
  split
  · rfl
  · split <;> rfl

theorem leaderWaits_step {s : State} (h : LeaderWaits s) (op : Op) (hop : ∀ t, op ≠ .cancel t) :
    LeaderWaits (step s op).1 := by
  -- moving a task that is not waiting does not touch any leader
  have setKeep : ∀ {t' : Nat} {q : Pc} (p' : Pc), s.tasks[t']? = some q → (∀ k', q ≠ .waiting k') →
      ∀ k f, s.flight k = some f → (s.tasks.set t' p')[f.leader]? = some (.waiting k) := by
    intro t' q p' hq hne k f hf
    have hl := h.leader k f hf
    have : t' ≠ f.leader := by
      intro he; subst he; rw [hq] at hl; cases hl; exact hne k rfl
    rw [List.getElem?_set_ne this]
    exact hl
  cases op with
  | spawn k' =>
    simp only [step, stepG]
    refine ⟨?_, h.noOrphan⟩
    intro k f hf
    have hl := h.leader k f hf
    have hlt : f.leader < s.tasks.length := by
      rcases Nat.lt_or_ge f.leader s.tasks.length with hl' | hl'
      · exact hl'
      · rw [List.getElem?_eq_none hl'] at hl; cases hl
    rw [List.getElem?_append_left hlt]
    exact hl
  | enter t' =>
    simp only [step, stepG]
    split
    · rename_i k' hq
      have hlt : t' < s.tasks.length := by
        rcases Nat.lt_or_ge t' s.tasks.length with hl' | hl'
        · exact hl'
        · rw [List.getElem?_eq_none hl'] at hq; cases hq
      split
      · exact ⟨fun k f hf => setKeep _ hq (by intro _ he; cases he) k f hf, h.noOrphan⟩
      · refine ⟨?_, h.noOrphan⟩
        intro k f hf
        by_cases hk : k = k'
        · subst hk
          simp only [setTask, upd_same, Option.some.injEq] at hf
          subst hf
          exact List.getElem?_set_self hlt
        · simp only [setTask, upd_other _ _ _ _ hk] at hf
          exact setKeep _ hq (by intro _ he; cases he) k f hf
    · exact h
  | fload k' valid =>
    simp only [step, stepG]
    split
    · rename_i f0 hf0
      have key : ∀ ph, LeaderWaits (setPhase s k' f0 ph) := by
        intro ph
        refine ⟨?_, h.noOrphan⟩
        intro k f hf
        by_cases hk : k = k'
        · subst hk
          simp only [setPhase, upd_same, Option.some.injEq] at hf
          subst hf
          exact h.leader k f0 hf0
        · simp only [setPhase, upd_other _ _ _ _ hk] at hf
          exact h.leader k f hf
      split
      · split
        · split <;> exact key _
        · exact key _
      · exact h
    · exact h
  | fnet k' srvOk =>
    simp only [step, stepG]
    split
    · rename_i f0 hf0
      have key : ∀ ph hits', LeaderWaits { setPhase s k' f0 ph with hits := hits' } := by
        intro ph hits'
        refine ⟨?_, h.noOrphan⟩
        intro k f hf
        by_cases hk : k = k'
        · subst hk
          simp only [setPhase, upd_same, Option.some.injEq] at hf
          subst hf
          exact h.leader k f0 hf0
        · simp only [setPhase, upd_other _ _ _ _ hk] at hf
          exact h.leader k f hf
      split
      · split
        · exact key _ s.hits
        · split <;> exact key _ _
      · exact h
    · exact h
  | freq k' =>
    simp only [step, stepG]
    split
    · rename_i f0 hf0
      have key : ∀ ph hits', LeaderWaits { setPhase s k' f0 ph with hits := hits' } := by
        intro ph hits'
        refine ⟨?_, h.noOrphan⟩
        intro k f hf
        by_cases hk : k = k'
        · subst hk
          simp only [setPhase, upd_same, Option.some.injEq] at hf
          subst hf
          exact h.leader k f0 hf0
        · simp only [setPhase, upd_other _ _ _ _ hk] at hf
          exact h.leader k f hf
      split
      · split
        · exact key _ s.hits
        · exact key _ _
      · exact h
    · exact h
  | fbody k' srvOk =>
    simp only [step, stepG]
    split
    · rename_i f0 hf0
      have key : ∀ ph, LeaderWaits (setPhase s k' f0 ph) := by
        intro ph
        refine ⟨?_, h.noOrphan⟩
        intro k f hf
        by_cases hk : k = k'
        · subst hk
          simp only [setPhase, upd_same, Option.some.injEq] at hf
          subst hf
          exact h.leader k f0 hf0
        · simp only [setPhase, upd_other _ _ _ _ hk] at hf
          exact h.leader k f hf
      split
      · split
        · exact key _
        · split <;> exact key _
      · exact h
    · exact h
  | fstore k' =>
    simp only [step, stepG]
    split
    · rename_i f0 hf0
      have key : ∀ ph nrc' rc' arena' de,
          LeaderWaits { setPhase s k' f0 ph with nrc := nrc', rc := rc', arena := arena', deaths := de } := by
        intro ph nrc' rc' arena' de
        refine ⟨?_, h.noOrphan⟩
        intro k f hf
        by_cases hk : k = k'
        · subst hk
          simp only [setPhase, upd_same, Option.some.injEq] at hf
          subst hf
          exact h.leader k f0 hf0
        · simp only [setPhase, upd_other _ _ _ _ hk] at hf
          exact h.leader k f hf
      split
      · split <;> exact key _ _ _ _ _
      · exact h
    · exact h
  | fend k' =>
    simp only [step, stepG]
    split
    · rename_i f0 hf0
      split
      · rename_i res hres
        constructor
        · intro k f hf
          by_cases hk : k = k'
          · subst hk; simp at hf
          · simp only [upd_other _ _ _ _ hk] at hf
            have hl := h.leader k f hf
            simp only [List.getElem?_map, hl, Option.map_some, deliver]
            have : Pc.waiting k ≠ Pc.waiting k' := by intro he; cases he; exact hk rfl
            simp [this]
        · show orphansAfter s k' res = []
          have hl := h.leader k' f0 hf0
          have hpos : 0 < s.tasks.countP (· = .waiting k') :=
            List.countP_pos_iff.2 ⟨_, List.mem_of_getElem? hl, by simp⟩
          cases res with
          | none => exact h.noOrphan
          | some r =>
            simp only [orphansAfter]
            have : ¬ (s.tasks.countP (· = .waiting k') = 0 ∧ (s.rc r).count = 0) := by
              intro hh; omega
            simp only [if_neg this]
            exact h.noOrphan
      · exact h
    · exact h
  | cancel t' => exact absurd rfl (hop t')
  | ref t' =>
    simp only [step, stepG]
    split
    · rename_i k' r' hq
      exact ⟨fun k f hf => setKeep _ hq (by intro _ he; cases he) k f hf, h.noOrphan⟩
    · exact h
  | val t' =>
    simp only [step, stepG]
    split
    · rename_i k' r' hq
      split
      · exact ⟨fun k f hf => setKeep _ hq (by intro _ he; cases he) k f hf, h.noOrphan⟩
      · exact ⟨fun k f hf => setKeep _ hq (by intro _ he; cases he) k f hf, h.noOrphan⟩
    · exact h
  | retry t' =>
    simp only [step, stepG]
    split
    · rename_i k' r' hq
      simp only [if_true]
      refine ⟨?_, ?_⟩
      · intro k f hf
        simp only [setTask, dec_flight, dec_tasks] at hf ⊢
        exact setKeep _ hq (by intro _ he; cases he) k f hf
      · simp only [setTask, dec_orphans]; exact h.noOrphan
    · exact h
  | init t' ok =>
    simp only [step, stepG]
    split
    · rename_i k' r' hq
      split
      · exact ⟨fun k f hf => setKeep _ hq (by intro _ he; cases he) k f hf, h.noOrphan⟩
      · refine ⟨?_, ?_⟩
        · intro k f hf
          simp only [setTask, dec_flight, dec_tasks] at hf ⊢
          exact setKeep _ hq (by intro _ he; cases he) k f hf
        · simp only [setTask, dec_orphans]; exact h.noOrphan
    · exact h
  | close t' =>
    simp only [step, stepG]
    split
    · rename_i k' r' hq
      refine ⟨?_, ?_⟩
      · intro k f hf
        simp only [setTask, dec_flight, dec_tasks] at hf ⊢
        exact setKeep _ hq (by intro _ he; cases he) k f hf
      · simp only [setTask, dec_orphans]; exact h.noOrphan
    · exact h
  | finalize i =>
    simp only [step, stepG]
    split
    · rename_i r' hr
      refine ⟨?_, ?_⟩
      · intro k f hf
        simp only [dec_flight, dec_tasks] at hf ⊢
        exact h.leader k f hf
      · simp only [dec_orphans]; exact h.noOrphan
    · exact h
  | query k' => exact h
  | aclose => exact ⟨h.leader, h.noOrphan⟩
  | ftmpfail k' =>
    simp only [step, stepG]
    split
    · rename_i f0 hf0
      split
      · refine ⟨?_, h.noOrphan⟩
        intro k f hf
        by_cases hk : k = k'
        · subst hk
          simp only [setPhase, upd_same, Option.some.injEq] at hf
          subst hf
          exact h.leader k f0 hf0
        · simp only [setPhase, upd_other _ _ _ _ hk] at hf
          exact h.leader k f hf
      · exact h
    · exact h

theorem no_cancel_no_orphans (ops : List Op) (hnc : ∀ op ∈ ops, ∀ t, op ≠ .cancel t) :
    (Sm.run step init ops).orphans = [] := by
  have key : ∀ (ops : List Op) (s : State), LeaderWaits s → (∀ op ∈ ops, ∀ t, op ≠ .cancel t) →
      LeaderWaits (Sm.run step s ops) := by
    intro ops
    induction ops with
    | nil => intro s h _; exact h
    | cons op ops ih =>
      intro s h hn
      exact ih _ (leaderWaits_step h op (hn op List.mem_cons_self)) (fun o ho => hn o (List.mem_cons_of_mem _ ho))
  exact (key ops init ⟨by intro k f hf; simp [init] at hf, rfl⟩ hnc).noOrphan

/-! ### witnesses -/

theorem orphan_witness :
    let ops : List Op := [.spawn 0, .enter 0, .fload 0 true, .fnet 0 true, .cancel 0, .fstore 0, .fend 0]
    Quiescent (Sm.run step init ops) ∧ (Sm.run step init ops).arena 0 = some 0 ∧
      ((Sm.run step init ops).rc 0).fileOpen = true ∧ ((Sm.run step init ops).rc 0).count = 0 := by
  refine ⟨⟨by decide, ?_, by decide⟩, by decide, by decide, by decide⟩
  intro k
  by_cases hk : k = 0 <;> simp [Sm.run, step, stepG, init, setTask, setPhase, resultOf, upd, hk]

theorem refetch (s : State) (k : Nat) (ha : s.arena k = none) (hf : s.flight k = none) :
    Sm.trace step s [.spawn k, .enter s.tasks.length, .fload k true, .fnet k true]
      = [.spawned s.tasks.length, .lead, .miss, .fetched] ∧
    (Sm.run step s [.spawn k, .enter s.tasks.length, .fload k true, .fnet k true]).hits k = s.hits k + 1 := by
  simp [Sm.trace, Sm.run, step, stepG, setTask, setPhase, ha, hf, upd]

end ClairModel.Arena
