/-
  C18 — environmental scores of v3: the symbolic reduction of `score3` on a
  vector with environmental metrics to a function of the effective bytes
  (`fastEnv`), and the staged kernel sweep that compares the code's truncating
  v3.1 Roundup with the specification's round-to-nearest Roundup on the inner
  argument min(ScopeFactor × (ModifiedImpact + ModifiedExploitability), 10)
  for every combination of Modified Scope, the 84 multisets of three
  requirement×impact products and the 48 exploitability values.  The impacts
  are computed once (forced), reduced to lowest terms (the reduction is
  checked to preserve the value) and handed to the inner loops as literals.
-/
import ClairModel.Proofs.CvssTemporalTab
import ClairModel.Proofs.CvssEqv
namespace ClairModel.Cvss
open ClairModel.Gen.Cvss ClairModel.CvssSpec

def envIss (p1 p2 p3 : Q) : Q := Q.min (Q.dec 915 1000) (one - ((one - p1) * (one - p2) * (one - p3)))

/-- the exploitability of `V3.Score` in the environmental case -/
def explE (L : Nat → Nat → Option Q) (ms mav mac mpr mui : Nat) : Option Q :=
  match L 14 mav, L 15 mac,
        (if ms = cC ∧ mpr = cL then some (Q.dec 68 100)
         else if ms = cC ∧ mpr = cH then some (Q.dec 50 100) else L 16 mpr),
        L 17 mui with
  | some av, some ac, some pr, some ui => some (av * ac * pr * ui * Q.dec 822 100)
  | _, _, _, _ => none

/-- `score3` in the environmental case, as a function of the effective bytes -/
def fastEnv (L : Nat → Nat → Option Q) (minor mav mac mpr mui ms mc mi ma cr ir ar e rl rc : Nat) : Option Int :=
  if minor ≠ 0 ∧ minor ≠ 1 then none else
  match L 11 cr, L 12 ir, L 13 ar, L 19 mc, L 20 mi, L 21 ma with
  | some cr, some ir, some ar, some mc, some mi, some ma =>
    match v3Impact minor true ms (envIss (cr * mc) (ir * mi) (ar * ma)), explE L ms mav mac mpr mui,
          L 8 e, L 9 rl, L 10 rc with
    | some impact, some expl, some e, some rl, some rc => some (v3Finish minor ms impact expl e rl rc)
    | _, _, _, _, _ => none
  | _, _, _, _, _, _ => none

theorem sb_mod (v : Vec) (m : Nat) (hm : 14 ≤ m) : v3ScoreByte v m = modified3 (v.get m) (v.get (m - 14)) := by
  unfold v3ScoreByte modified3
  simp only [hm, true_and]
  split
  · rfl
  · rename_i h
    have : ¬ v.get m = 0 := fun e => h (Or.inl e)
    simp [this]

theorem sb_low (v : Vec) (m : Nat) (hm : m < 14) : v3ScoreByte v m = orX (v.get m) := by
  unfold v3ScoreByte orX
  have : ¬ 14 ≤ m := by omega
  simp [this]

theorem score3_env (v : Vec) (he : v3Environmental v = true)
    (hms : modified3 (v.get 18) (v.get 4) ≠ cX) :
    score3 v = fastEnv lk3 v.ver (modified3 (v.get 14) (v.get 0)) (modified3 (v.get 15) (v.get 1))
      (modified3 (v.get 16) (v.get 2)) (modified3 (v.get 17) (v.get 3)) (modified3 (v.get 18) (v.get 4))
      (modified3 (v.get 19) (v.get 5)) (modified3 (v.get 20) (v.get 6)) (modified3 (v.get 21) (v.get 7))
      (orX (v.get 11)) (orX (v.get 12)) (orX (v.get 13)) (orX (v.get 8)) (orX (v.get 9)) (orX (v.get 10)) := by
  have s14 := sb_mod v 14 (by decide)
  have s15 := sb_mod v 15 (by decide)
  have s16 := sb_mod v 16 (by decide)
  have s17 := sb_mod v 17 (by decide)
  have s18 := sb_mod v 18 (by decide)
  have s19 := sb_mod v 19 (by decide)
  have s20 := sb_mod v 20 (by decide)
  have s21 := sb_mod v 21 (by decide)
  have s8 := sb_low v 8 (by decide)
  have s9 := sb_low v 9 (by decide)
  have s10 := sb_low v 10 (by decide)
  have s11 := sb_low v 11 (by decide)
  have s12 := sb_low v 12 (by decide)
  have s13 := sb_low v 13 (by decide)
  simp only [Nat.reduceSub] at s14 s15 s16 s17 s18 s19 s20 s21
  simp only [score3, fastEnv, explE, he, v3Scope, v3Iss, v3Exploitability, v3PrVal, v3Val_eq,
    s8, s9, s10, s11, s12, s13, s14, s15, s16, s17, s18, s19, s20, s21, envIss, if_true, hms, ne_eq, not_false_eq_true]
  generalize lk3 11 (orX (v.get 11)) = o11
  generalize lk3 12 (orX (v.get 12)) = o12
  generalize lk3 13 (orX (v.get 13)) = o13
  generalize lk3 19 (modified3 (v.get 19) (v.get 5)) = o19
  generalize lk3 20 (modified3 (v.get 20) (v.get 6)) = o20
  generalize lk3 21 (modified3 (v.get 21) (v.get 7)) = o21
  generalize lk3 14 (modified3 (v.get 14) (v.get 0)) = o14
  generalize lk3 15 (modified3 (v.get 15) (v.get 1)) = o15
  generalize (if modified3 (v.get 18) (v.get 4) = cC ∧ modified3 (v.get 16) (v.get 2) = cL then some (Q.dec 68 100)
            else if modified3 (v.get 18) (v.get 4) = cC ∧ modified3 (v.get 16) (v.get 2) = cH then some (Q.dec 50 100)
              else lk3 16 (modified3 (v.get 16) (v.get 2))) = o16
  generalize lk3 17 (modified3 (v.get 17) (v.get 3)) = o17
  generalize lk3 8 (orX (v.get 8)) = o8
  generalize lk3 9 (orX (v.get 9)) = o9
  generalize lk3 10 (orX (v.get 10)) = o10
  split
  · rfl
  · cases o11 <;> cases o12 <;> cases o13 <;> cases o19 <;> cases o20 <;> cases o21 <;> try rfl

/-! ### the sweep -/

def P7 : List Q := [⟨0, 1000000⟩, ⟨110000, 1000000⟩, ⟨220000, 1000000⟩, ⟨330000, 1000000⟩, ⟨280000, 1000000⟩,
  ⟨560000, 1000000⟩, ⟨840000, 1000000⟩]

def forceList {α : Type} : List Q → (List Q → α) → α
  | [], k => k []
  | q :: qs, k => forceQ q fun q => forceList qs fun qs => k (q :: qs)

theorem forceList_eq {α : Type} : ∀ (l : List Q) (k : List Q → α), forceList l k = k l
  | [], k => rfl
  | q :: qs, k => by simp only [forceList, forceQ_eq]; exact forceList_eq qs _

def pv (i : Nat) : Q := P7.getD i ⟨0, 1000000⟩

def triples : List (Nat × Nat × Nat) :=
  (List.range 7).flatMap fun i => (List.range' i (7 - i)).flatMap fun j => (List.range' j (7 - j)).map fun k => (i, j, k)

/-- the impact sub-scores of all 84 multisets of three requirement×impact products -/
def issVals : List Q := triples.map fun t => envIss (pv t.1) (pv t.2.1) (pv t.2.2)

theorem Q.mul_comm' (a b : Q) : a * b = b * a := by
  simp only [Q.mul_def, Int.mul_comm a.n, Nat.mul_comm a.d]

theorem Q.mul_assoc' (a b c : Q) : a * b * c = a * (b * c) := by
  simp only [Q.mul_def, Int.mul_assoc, Nat.mul_assoc]

theorem envIss_swap12 (a b c : Q) : envIss a b c = envIss b a c := by
  simp only [envIss, Q.mul_comm' (one - a) (one - b)]

theorem envIss_swap23 (a b c : Q) : envIss a b c = envIss a c b := by
  simp only [envIss, Q.mul_assoc', Q.mul_comm' (one - b) (one - c)]

theorem mem_triples {a b c : Nat} (h1 : a ≤ b) (h2 : b ≤ c) (h3 : c < 7) : (a, b, c) ∈ triples := by
  simp only [triples, List.mem_flatMap, List.mem_map, List.mem_range, List.mem_range', Prod.mk.injEq]
  exact ⟨a, by omega, b, ⟨b - a, by omega, by omega⟩, c, ⟨c - b, by omega, by omega⟩, rfl, rfl, rfl⟩

theorem mem_issVals_idx {i j k : Nat} (hi : i < 7) (hj : j < 7) (hk : k < 7) :
    envIss (pv i) (pv j) (pv k) ∈ issVals := by
  have key : ∀ a b c : Nat, a ≤ b → b ≤ c → c < 7 → envIss (pv a) (pv b) (pv c) ∈ issVals := by
    intro a b c h1 h2 h3
    exact List.mem_map.2 ⟨(a, b, c), mem_triples h1 h2 h3, rfl⟩
  rcases Nat.le_total i j with hij | hij
  · rcases Nat.le_total j k with hjk | hjk
    · exact key i j k hij hjk hk
    · rcases Nat.le_total i k with hik | hik
      · rw [envIss_swap23]; exact key i k j hik hjk hj
      · rw [envIss_swap23, envIss_swap12]; exact key k i j hik hij hj
  · rcases Nat.le_total i k with hik | hik
    · rw [envIss_swap12]; exact key j i k hij hik hk
    · rcases Nat.le_total j k with hjk | hjk
      · rw [envIss_swap12, envIss_swap23]; exact key j k i hjk hik hi
      · rw [envIss_swap12, envIss_swap23, envIss_swap12]; exact key k j i hjk hij hi

theorem P7_idx {p : Q} (h : p ∈ P7) : ∃ i, i < 7 ∧ p = pv i := by
  simp only [P7, List.mem_cons, List.mem_nil_iff, or_false] at h
  rcases h with rfl | rfl | rfl | rfl | rfl | rfl | rfl
  · exact ⟨0, by decide, rfl⟩
  · exact ⟨1, by decide, rfl⟩
  · exact ⟨2, by decide, rfl⟩
  · exact ⟨3, by decide, rfl⟩
  · exact ⟨4, by decide, rfl⟩
  · exact ⟨5, by decide, rfl⟩
  · exact ⟨6, by decide, rfl⟩

theorem mem_issVals {p1 p2 p3 : Q} (h1 : p1 ∈ P7) (h2 : p2 ∈ P7) (h3 : p3 ∈ P7) : envIss p1 p2 p3 ∈ issVals := by
  obtain ⟨i, hi, rfl⟩ := P7_idx h1
  obtain ⟨j, hj, rfl⟩ := P7_idx h2
  obtain ⟨k, hk, rfl⟩ := P7_idx h3
  exact mem_issVals_idx hi hj hk

def powF (a : Q) : Nat → Q
  | 0 => ⟨1, 1⟩
  | k + 1 => forceQ (powF a k) fun p => Q.mul p a

theorem powF_eq (a : Q) : ∀ k, powF a k = Q.pow a k
  | 0 => rfl
  | k + 1 => by simp only [powF, forceQ_eq, Q.pow, powF_eq a k]

/-- `v3Impact minor true ms iss` with forced intermediate results -/
def impactF (minor ms : Nat) (iss : Q) : Q :=
  forceQ iss fun iss =>
  if ms = cU then Q.dec 642 100 * iss
  else if ms = cC then
    forceQ ((iss * (if minor = 1 then Q.dec 9731 10000 else one)) - Q.dec 2 100) fun a =>
      Q.dec 752 100 * (iss - Q.dec 29 1000) - (Q.dec 325 100 * powF a (if minor = 1 then 13 else 15))
  else Q.ofInt 0

theorem impactF_eq (minor ms : Nat) (iss : Q) : impactF minor ms iss = (v3Impact minor true ms iss).getD (Q.ofInt 0) := by
  simp only [impactF, forceQ_eq, powF_eq, v3Impact]
  by_cases h1 : minor = 1 <;> by_cases hu : ms = cU <;> by_cases hc : ms = cC <;> simp [h1, hu, hc, (by decide : cC ≠ cU)]


/-- the representation with the common factor of numerator and denominator removed -/
def normQ (q : Q) : Q := forceNat (Nat.gcd q.n.natAbs q.d) fun g => ⟨q.n / (g : Int), q.d / g⟩

def eqvB (a b : Q) : Bool := decide (0 < a.d) && decide (0 < b.d) && decide (a.n * (b.d : Int) = b.n * (a.d : Int))

theorem eqvB_spec {a b : Q} (h : eqvB a b = true) : Q.Eqv a b := by
  simp only [eqvB, Bool.and_eq_true, decide_eq_true_eq] at h
  exact ⟨h.1.1, h.1.2, h.2⟩

/-- v3.1, one (impact, exploitability) pair: the impact is not positive, or
    the code's truncating Roundup and the specification's round-to-nearest
    Roundup agree on the inner argument, with a result in 0..100 -/
def okInner31 (ms : Nat) (imp ey : Q) : Bool :=
  Q.le imp (Q.ofInt 0) ||
  forceQ (Q.min (minner3 ms imp ey) ten) fun x =>
  forceInt (v31Roundup10 x) fun r => decide (r = roundup31 x) && decide (0 ≤ r) && decide (r ≤ 100)

/-- the normalised impacts are the impacts (as numbers) -/
def envNormOk (ms : Nat) : Bool :=
  issVals.all fun iss => forceQ (impactF 1 ms iss) fun imp => eqvB imp (normQ imp)

/-- the model's exploitability and the specification's are equal numbers, for both minors' scopes -/
def envExplOk (ms : Nat) : Bool :=
  (g3 0).all fun av => (g3 1).all fun ac => (g3 2).all fun pr => (g3 3).all fun ui =>
    match explW w3 ms av ac pr ui, exploitability3 ms av ac pr ui with
    | some ex, some ey => eqvB ex ey
    | _, _ => false

def envSweep31 (ms : Nat) (avs : List Nat) : Bool :=
  forceList (issVals.map fun iss => normQ (impactF 1 ms iss)) fun imps =>
   avs.all fun av => (g3 1).all fun ac => (g3 2).all fun pr => (g3 3).all fun ui =>
     match exploitability3 ms av ac pr ui with
     | some ey => forceQ ey fun ey => imps.all fun imp => okInner31 ms imp ey
     | none => false

theorem envExplOk_spec {ms : Nat} (h : envExplOk ms = true) {av ac pr ui : Nat}
    (hav : av ∈ g3 0) (hac : ac ∈ g3 1) (hpr : pr ∈ g3 2) (hui : ui ∈ g3 3) :
    ∃ ex ey, explW w3 ms av ac pr ui = some ex ∧ exploitability3 ms av ac pr ui = some ey ∧ Q.Eqv ex ey := by
  simp only [envExplOk, List.all_eq_true] at h
  have h' := h av hav ac hac pr hpr ui hui
  split at h'
  · rename_i ex ey e1 e2
    exact ⟨ex, ey, e1, e2, eqvB_spec h'⟩
  · simp at h'

theorem envSweep31_spec {ms : Nat} {avs : List Nat} (hn : envNormOk ms = true) (h : envSweep31 ms avs = true)
    {p1 p2 p3 : Q} (h1 : p1 ∈ P7) (h2 : p2 ∈ P7) (h3 : p3 ∈ P7) {av ac pr ui : Nat}
    (hav : av ∈ avs) (hac : ac ∈ g3 1) (hpr : pr ∈ g3 2) (hui : ui ∈ g3 3) :
    ∃ imp' ey, Q.Eqv ((v3Impact 1 true ms (envIss p1 p2 p3)).getD (Q.ofInt 0)) imp' ∧
      exploitability3 ms av ac pr ui = some ey ∧ okInner31 ms imp' ey = true := by
  have hm := mem_issVals h1 h2 h3
  simp only [envNormOk, List.all_eq_true, forceQ_eq] at hn
  have he := eqvB_spec (hn _ hm)
  simp only [envSweep31, forceList_eq, List.all_eq_true] at h
  have h' := h av hav ac hac pr hpr ui hui
  split at h'
  · rename_i ey e2
    simp only [forceQ_eq, List.all_eq_true] at h'
    refine ⟨normQ (impactF 1 ms (envIss p1 p2 p3)), ey, ?_, e2, ?_⟩
    · rw [← impactF_eq]; exact he
    · exact h' _ (List.mem_map.2 ⟨_, hm, rfl⟩)
  · simp at h'



end ClairModel.Cvss
