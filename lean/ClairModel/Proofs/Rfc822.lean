/-
  The writer side of the RFC822-style formats (dpkg status, python METADATA):
  what a legal serialisation of a list of fields is, and the proof that the
  `ReadMIMEHeader` model reads back exactly the written fields.
-/
import ClairModel.Model.Rfc822

namespace ClairModel.Rfc822
open ClairModel.Bytes

/-- bytes of an ASCII string literal (reduces in the kernel, unlike `String.toUTF8`) -/
def asc (s : String) : Bytes := s.toList.map Char.toNat

/-! ### small list/byte lemmas -/

theorem trimRight_append_nonws (a : Bytes) (c : Nat) (b : Bytes) (hc : isWs c = false) :
    trimRight (a ++ c :: b) = a ++ c :: trimRight b := by
  have hne : ∀ a : Bytes, trimRight (a ++ c :: b) ≠ [] → True := fun _ _ => trivial
  induction a with
  | nil =>
    simp only [List.nil_append, trimRight]
    cases h : trimRight b with
    | nil => simp [hc]
    | cons x xs => simp
  | cons x xs ih =>
    simp only [List.cons_append, trimRight, ih]
    cases xs <;> simp

theorem trimLeft_of_not_ws (c : Nat) (s : Bytes) (hc : isWs c = false) : trimLeft (c :: s) = c :: s := by
  simp [trimLeft, hc]

theorem trimLeft_ws_append (w s : Bytes) (hw : ∀ c ∈ w, isWs c = true) : trimLeft (w ++ s) = trimLeft s := by
  induction w with
  | nil => rfl
  | cons c cs ih =>
    have := hw c (by simp)
    simp only [List.cons_append, trimLeft, this, if_true]
    exact ih (fun x hx => hw x (List.mem_cons_of_mem _ hx))

theorem mem_trimLeft {s : Bytes} {c : Nat} (h : c ∈ trimLeft s) : c ∈ s := by
  induction s with
  | nil => simp [trimLeft] at h
  | cons x xs ih =>
    simp only [trimLeft] at h
    split at h
    · exact List.mem_cons_of_mem _ (ih h)
    · exact h

theorem mem_trimRight {s : Bytes} {c : Nat} (h : c ∈ trimRight s) : c ∈ s := by
  induction s generalizing c with
  | nil => simp [trimRight] at h
  | cons x xs ih =>
    simp only [trimRight] at h
    split at h
    · rename_i heq
      split at h
      · simp at h
      · simp at h; simp [h]
    · rename_i r hr
      rcases List.mem_cons.1 h with h | h
      · simp [h]
      · exact List.mem_cons_of_mem _ (ih h)

theorem mem_trim {s : Bytes} {c : Nat} (h : c ∈ trim s) : c ∈ s := mem_trimLeft (mem_trimRight h)

theorem validFieldByte_not_ws {c : Nat} (h : validFieldByte c = true) : isWs c = false := by
  unfold isWs
  cases h32 : (c == 32) <;> cases h9 : (c == 9) <;> simp_all [validFieldByte, isLower, isUpper]

theorem validFieldByte_not_colon {c : Nat} (h : validFieldByte c = true) : c ≠ 58 := by
  intro e; subst e; simp [validFieldByte, isLower, isUpper] at h

theorem validFieldByte_not_space {c : Nat} (h : validFieldByte c = true) : c ≠ 32 := by
  intro e; subst e; simp [validFieldByte, isLower, isUpper] at h

theorem validValueByte_not_nl {c : Nat} (h : validValueByte c = true) : c ≠ 10 ∧ c ≠ 13 := by
  constructor <;> (intro e; subst e; simp [validValueByte] at h)

theorem validFieldByte_value {c : Nat} (h : validFieldByte c = true) : validValueByte c = true := by
  simp only [validFieldByte, isLower, isUpper, Bool.or_eq_true, Bool.and_eq_true, decide_eq_true_eq, beq_iff_eq] at h
  simp only [validValueByte, Bool.or_eq_true, Bool.and_eq_true, decide_eq_true_eq, beq_iff_eq]
  omega

theorem isWs_value {c : Nat} (h : isWs c = true) : validValueByte c = true := by
  simp only [isWs, Bool.or_eq_true, beq_iff_eq] at h
  rcases h with h | h <;> subst h <;> decide

/-! ### stripCR / splitLines -/

theorem stripCR_of_no_cr (l : Bytes) (h : 13 ∉ l) : stripCR l = l := by
  match l with
  | [] => rfl
  | [c] =>
    have : c ≠ 13 := fun e => h (by simp [e])
    simp [stripCR, this]
  | c :: d :: cs =>
    simp only [stripCR]
    rw [stripCR_of_no_cr (d :: cs) (fun hm => h (List.mem_cons_of_mem _ hm))]

theorem initLast_cons (p : Bytes) (q : List Bytes) (hq : q ≠ []) :
    initLast (p :: q) = (p :: (initLast q).1, (initLast q).2) := by
  cases q with
  | nil => exact absurd rfl hq
  | cons a b => simp [initLast]

theorem splitLines_line (l rest : Bytes) (h : 10 ∉ l) :
    splitLines (l ++ 10 :: rest) = stripCR l :: splitLines rest := by
  simp only [splitLines, splitOn_append_sep 10 l rest h, initLast_cons _ _ (splitOn_ne_nil 10 rest)]
  simp

theorem splitLines_nil : splitLines [] = [] := by
  simp [splitLines, splitOn, initLast]

theorem splitLines_last (l : Bytes) (h : 10 ∉ l) (hne : l ≠ []) : splitLines l = [l] := by
  simp only [splitLines, splitOn_no_sep 10 l h, initLast]
  cases l with
  | nil => exact absurd rfl hne
  | cons c cs => simp

/-- newline-terminated lines -/
def joinLines (ls : List Bytes) : Bytes := ls.flatMap (fun l => l ++ [10])

theorem splitLines_joinLines (ls : List Bytes) (tail : Bytes)
    (h : ∀ l ∈ ls, 10 ∉ l ∧ 13 ∉ l) :
    splitLines (joinLines ls ++ tail) = ls ++ splitLines tail := by
  induction ls with
  | nil => simp [joinLines]
  | cons l ls ih =>
    have hl := h l (by simp)
    have : joinLines (l :: ls) ++ tail = l ++ 10 :: (joinLines ls ++ tail) := by
      simp [joinLines]
    rw [this, splitLines_line _ _ hl.1, stripCR_of_no_cr _ hl.2, ih (fun x hx => h x (List.mem_cons_of_mem _ hx))]
    simp

/-! ### fields as written -/

/-- One field as a writer emits it: `key:` `sep` `first` newline, then complete
    continuation lines (each starting with a space or a tab). -/
structure Field where
  key : Bytes
  sep : Bytes
  first : Bytes
  conts : List Bytes
  deriving Repr

/-- legal: the key is a non-empty RFC 7230 token, the separator is spaces/tabs,
    value bytes are printable/space/tab/high, continuation lines start with
    white space. -/
structure Field.WF (f : Field) : Prop where
  key_ne : f.key ≠ []
  key_tok : ∀ c ∈ f.key, validFieldByte c = true
  sep_ws : ∀ c ∈ f.sep, isWs c = true
  first_ok : ∀ c ∈ f.first, validValueByte c = true
  conts_ws : ∀ l ∈ f.conts, startsWs l = true
  conts_ok : ∀ l ∈ f.conts, ∀ c ∈ l, validValueByte c = true

def Field.firstLine (f : Field) : Bytes := f.key ++ 58 :: (f.sep ++ f.first)
def Field.lines (f : Field) : List Bytes := f.firstLine :: f.conts
def contText (conts : List Bytes) : Bytes := conts.flatMap (fun l => 32 :: trim l)
/-- what follows the colon of the continued line -/
def Field.raw (f : Field) : Bytes := trimRight (f.sep ++ f.first) ++ contText f.conts
/-- the value the field denotes: continuation lines folded with single spaces -/
def Field.value (f : Field) : Bytes := trimLeft f.raw
def Field.kv (f : Field) : Bytes := f.key ++ 58 :: f.raw
def Field.entry (f : Field) : Bytes × Bytes := (canonLoop true f.key, f.value)

/-- the header a list of written fields denotes -/
def hdrOf (fs : List Field) : Hdr := fs.map Field.entry

theorem Field.WF.lines_clean {f : Field} (w : f.WF) : ∀ l ∈ f.lines, 10 ∉ l ∧ 13 ∉ l := by
  have hv : ∀ l : Bytes, (∀ c ∈ l, validValueByte c = true) → 10 ∉ l ∧ 13 ∉ l := fun l h =>
    ⟨fun hm => (validValueByte_not_nl (h _ hm)).1 rfl, fun hm => (validValueByte_not_nl (h _ hm)).2 rfl⟩
  intro l hl
  rcases List.mem_cons.1 hl with rfl | hl
  · apply hv
    intro c hc
    simp only [Field.firstLine, List.mem_append, List.mem_cons] at hc
    rcases hc with hc | rfl | hc | hc
    · exact validFieldByte_value (w.key_tok c hc)
    · decide
    · exact isWs_value (w.sep_ws c hc)
    · exact w.first_ok c hc
  · exact hv l (w.conts_ok l hl)

theorem cut_key (f : Field) (w : f.WF) (r : Bytes) : cut 58 (f.key ++ 58 :: r) = some (f.key, r) :=
  cut_append 58 f.key r (fun hm => validFieldByte_not_colon (w.key_tok _ hm) rfl)

theorem canonKey_token (k : Bytes) (hne : k ≠ []) (ht : ∀ c ∈ k, validFieldByte c = true) :
    canonKey k = some (canonLoop true k) := by
  unfold canonKey
  have h1 : k.isEmpty = false := by cases k <;> simp_all
  have h2 : k.any (fun c => !validFieldByte c && c != 32) = false := by
    rw [List.any_eq_false]; intro c hc; simp [ht c hc]
  have h3 : k.any (· == 32) = false := by
    rw [List.any_eq_false]; intro c hc; simpa using validFieldByte_not_space (ht c hc)
  simp [h1, h2, h3]

theorem contText_valid (conts : List Bytes) (h : ∀ l ∈ conts, ∀ c ∈ l, validValueByte c = true) :
    ∀ c ∈ contText conts, validValueByte c = true := by
  intro c hc
  simp only [contText, List.mem_flatMap] at hc
  obtain ⟨l, hl, hc⟩ := hc
  rcases List.mem_cons.1 hc with rfl | hc
  · decide
  · exact h l hl c (mem_trim hc)

theorem Field.WF.raw_valid {f : Field} (w : f.WF) : ∀ c ∈ f.raw, validValueByte c = true := by
  intro c hc
  simp only [Field.raw, List.mem_append] at hc
  rcases hc with hc | hc
  · have := mem_trimRight hc
    rcases List.mem_append.1 this with h | h
    · exact isWs_value (w.sep_ws c h)
    · exact w.first_ok c h
  · exact contText_valid _ w.conts_ok c hc

theorem addKV_field (h : Hdr) (f : Field) (w : f.WF) : addKV h f.kv = some (h ++ [f.entry]) := by
  have hall : f.raw.all validValueByte = true := by
    rw [List.all_eq_true]; exact w.raw_valid
  simp [addKV, Field.kv, cut_key f w, canonKey_token f.key w.key_ne w.key_tok, hall, Field.entry, Field.value]

theorem Field.WF.firstLine_props {f : Field} (w : f.WF) :
    startsWs f.firstLine = false ∧ f.firstLine.isEmpty = false ∧ 58 ∈ f.firstLine ∧
    trim f.firstLine = f.key ++ 58 :: trimRight (f.sep ++ f.first) := by
  obtain ⟨k, ks, hk⟩ : ∃ k ks, f.key = k :: ks := by
    cases h : f.key with
    | nil => exact absurd h w.key_ne
    | cons k ks => exact ⟨k, ks, rfl⟩
  have hk0 : isWs k = false := validFieldByte_not_ws (w.key_tok k (by simp [hk]))
  refine ⟨?_, ?_, ?_, ?_⟩
  · simp [Field.firstLine, hk, startsWs, hk0]
  · simp [Field.firstLine, hk]
  · simp [Field.firstLine]
  · have : trimLeft f.firstLine = f.firstLine := by
      simp only [Field.firstLine, hk, List.cons_append]; exact trimLeft_of_not_ws _ _ hk0
    rw [trim, this, Field.firstLine, trimRight_append_nonws _ 58 _ (by decide)]

/-! ### the reader on written fields -/

/-- the reader is at a key/value boundary of a call whose header so far is `h` -/
def AtBoundary (rd : Rd) (h : Hdr) : Prop :=
  (rd = .start ∧ h = []) ∨ ∃ h0 buf, rd = .pend h0 buf ∧ addKV h0 buf = some h

theorem callsFrom_conts (h : Hdr) (buf : Bytes) (conts rest : List Bytes)
    (hc : ∀ l ∈ conts, startsWs l = true) :
    callsFrom (.pend h buf) (conts ++ rest) = callsFrom (.pend h (buf ++ contText conts)) rest := by
  induction conts generalizing buf with
  | nil => simp [contText]
  | cons l ls ih =>
    have hl := hc l (by simp)
    simp only [List.cons_append, callsFrom, stepRd, hl, if_true, List.nil_append]
    rw [ih _ (fun x hx => hc x (List.mem_cons_of_mem _ hx))]
    simp [contText, List.append_assoc]

theorem stepRd_boundary_first (rd : Rd) (h : Hdr) (hb : AtBoundary rd h) (l : Bytes)
    (h1 : startsWs l = false) (h2 : l.isEmpty = false) (h3 : 58 ∈ l) :
    stepRd rd l = (.pend h (trim l), []) := by
  rcases hb with ⟨rfl, rfl⟩ | ⟨h0, buf, rfl, hk⟩
  · simp [stepRd, freshLine, kvLine, h1, h2, h3]
  · simp [stepRd, kvLine, h1, h2, h3, hk]

theorem callsFrom_field (rd : Rd) (h : Hdr) (hb : AtBoundary rd h) (f : Field) (w : f.WF) (rest : List Bytes) :
    callsFrom rd (f.lines ++ rest) = callsFrom (.pend h f.kv) rest := by
  obtain ⟨h1, h2, h3, h4⟩ := w.firstLine_props
  simp only [Field.lines, List.cons_append, callsFrom, stepRd_boundary_first rd h hb _ h1 h2 h3, List.nil_append]
  rw [callsFrom_conts _ _ _ _ w.conts_ws, h4]
  simp [Field.kv, Field.raw]

theorem boundary_after_field (h : Hdr) (f : Field) (w : f.WF) : AtBoundary (.pend h f.kv) (h ++ [f.entry]) :=
  Or.inr ⟨h, f.kv, rfl, addKV_field h f w⟩

def fieldsLines (fs : List Field) : List Bytes := fs.flatMap Field.lines

theorem callsFrom_fields (fs : List Field) (hw : ∀ f ∈ fs, f.WF) (rd : Rd) (h : Hdr) (hb : AtBoundary rd h) :
    ∃ rd', AtBoundary rd' (h ++ hdrOf fs) ∧
      ∀ rest, callsFrom rd (fieldsLines fs ++ rest) = callsFrom rd' rest := by
  induction fs generalizing rd h with
  | nil => exact ⟨rd, by simpa [hdrOf] using hb, fun rest => by simp [fieldsLines]⟩
  | cons f fs ih =>
    have wf := hw f (by simp)
    obtain ⟨rd', hb', hr⟩ := ih (fun x hx => hw x (List.mem_cons_of_mem _ hx)) _ _ (boundary_after_field h f wf)
    refine ⟨rd', by simpa [hdrOf, List.append_assoc] using hb', fun rest => ?_⟩
    have : fieldsLines (f :: fs) ++ rest = f.lines ++ (fieldsLines fs ++ rest) := by
      simp [fieldsLines, List.append_assoc]
    rw [this, callsFrom_field rd h hb f wf, hr]

theorem callsFrom_blank (rd : Rd) (h : Hdr) (hb : AtBoundary rd h) (rest : List Bytes) :
    callsFrom rd ([] :: rest) = ⟨h, .ok⟩ :: callsFrom .start rest := by
  rcases hb with ⟨rfl, rfl⟩ | ⟨h0, buf, rfl, hk⟩
  · simp [callsFrom, stepRd, freshLine, kvLine, startsWs]
  · simp [callsFrom, stepRd, kvLine, startsWs, hk]

theorem callsFrom_eof (rd : Rd) (h : Hdr) (hb : AtBoundary rd h) :
    callsFrom rd [] = [⟨h, .eof⟩] := by
  rcases hb with ⟨rfl, rfl⟩ | ⟨h0, buf, rfl, hk⟩
  · simp [callsFrom, finishRd]
  · simp [callsFrom, finishRd, hk]

/-- blank lines between calls: each is an empty header with a nil error -/
theorem callsFrom_blanks (n : Nat) (rest : List Bytes) :
    callsFrom .start (List.replicate n [] ++ rest) =
      List.replicate n ⟨[], .ok⟩ ++ callsFrom .start rest := by
  induction n with
  | zero => simp
  | succ n ih =>
    simp only [List.replicate_succ, List.cons_append]
    rw [callsFrom_blank .start [] (Or.inl ⟨rfl, rfl⟩), ih]

/-- One stanza (a non-empty list of legal fields) followed by `gap + 1` empty
    lines is read as its header with a nil error, then `gap` empty headers. -/
theorem callsFrom_stanza (fs : List Field) (hw : ∀ f ∈ fs, f.WF) (gap : Nat) (rest : List Bytes) :
    callsFrom .start (fieldsLines fs ++ List.replicate (gap + 1) [] ++ rest) =
      ⟨hdrOf fs, .ok⟩ :: (List.replicate gap ⟨[], .ok⟩ ++ callsFrom .start rest) := by
  obtain ⟨rd', hb', hr⟩ := callsFrom_fields fs hw .start [] (Or.inl ⟨rfl, rfl⟩)
  rw [List.append_assoc, hr, List.replicate_succ, List.cons_append, callsFrom_blank rd' _ hb', callsFrom_blanks]
  simp

/-- The last stanza without a blank line after it is returned together with EOF. -/
theorem callsFrom_last_stanza (fs : List Field) (hw : ∀ f ∈ fs, f.WF) :
    callsFrom .start (fieldsLines fs) = [⟨hdrOf fs, .eof⟩] := by
  obtain ⟨rd', hb', hr⟩ := callsFrom_fields fs hw .start [] (Or.inl ⟨rfl, rfl⟩)
  have := hr []
  rw [List.append_nil] at this
  rw [this, callsFrom_eof rd' _ hb']
  simp

end ClairModel.Rfc822
