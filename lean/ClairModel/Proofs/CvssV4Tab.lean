/-
  C18 — the v4 MacroVector lookup table: the extracted table is the published
  one row by row, its keys are exactly the 270 consistent macrovectors, and
  `macrovector()` of any vector is one of them (the lookup never misses).
-/
import ClairModel.Proofs.CvssRange
import ClairModel.Proofs.Cvss
namespace ClairModel.Cvss
open ClairModel.Gen.Cvss ClairModel.CvssSpec

/-! ### the macrovector lookup table -/

/-- the extracted table is the published table, row by row -/
theorem v4_table_ok : v4MacrovectorScore = v4LookupPublished := by decide +kernel

/-- the consistent macrovectors: levels in range, and EQ3 = 2 (no H among VC, VI, VA) forces EQ6 = 1 -/
def v4KeyOk (k : List Nat) : Bool :=
  match k with
  | [e1, e2, e3, e4, e5, e6] => decide (e1 ≤ 2 ∧ e2 ≤ 1 ∧ e3 ≤ 2 ∧ e4 ≤ 2 ∧ e5 ≤ 2 ∧ e6 ≤ 1 ∧ (e3 = 2 → e6 = 1))
  | _ => false

def v4AllKeys : List (List Nat) :=
  (List.range 3).flatMap fun e1 => (List.range 2).flatMap fun e2 => (List.range 3).flatMap fun e3 =>
  (List.range 3).flatMap fun e4 => (List.range 3).flatMap fun e5 => (List.range 2).map fun e6 => [e1, e2, e3, e4, e5, e6]

/-- the keys of the table are exactly the consistent macrovectors (270 of the
    324 level combinations), in lexicographic order -/
theorem v4_keys_exact : v4MacrovectorScore.map (·.1) = v4AllKeys.filter v4KeyOk := by decide +kernel

theorem lookupMv_of_mem : ∀ (T : List (List Nat × Int)) (k : List Nat), k ∈ T.map (·.1) → (lookupMv T k).isSome = true
  | [], k, h => by simp at h
  | (k', s) :: rest, k, h => by
    simp only [lookupMv]
    by_cases e : k' = k
    · simp [e]
    · simp only [e, if_false]
      apply lookupMv_of_mem rest k
      simp only [List.map_cons, List.mem_cons] at h
      rcases h with h | h
      · exact absurd h.symm e
      · exact h

/-- every score of the table is in 0.1 … 10.0 -/
theorem v4_table_range : v4MacrovectorScore.all (fun e => decide (1 ≤ e.2 ∧ e.2 ≤ 100)) = true := by decide +kernel

/-! ### `macrovector()` always returns a key of the table -/

theorem v4Macro_keyOk (v : Vec) : v4KeyOk (v4Macro v) = true := by
  unfold v4Macro
  simp only [v4KeyOk, decide_eq_true_eq]
  refine ⟨?_, ?_, ?_, ?_, ?_, ?_, ?_⟩
  · split <;> (try split) <;> omega
  · split <;> omega
  · split <;> (try split) <;> omega
  · split <;> (try split) <;> omega
  · split <;> (try split) <;> omega
  · split <;> omega
  · intro h3
    by_cases a : v4ScoreByte v 5 = cH ∧ v4ScoreByte v 6 = cH
    · simp [a] at h3
    · by_cases b : v4ScoreByte v 5 = cH ∨ v4ScoreByte v 6 = cH ∨ v4ScoreByte v 7 = cH
      · simp [a, b] at h3
      · have n5 : v4ScoreByte v 5 ≠ cH := fun e => b (Or.inl e)
        have n6 : v4ScoreByte v 6 ≠ cH := fun e => b (Or.inr (Or.inl e))
        have n7 : v4ScoreByte v 7 ≠ cH := fun e => b (Or.inr (Or.inr e))
        simp [n5, n6, n7]

theorem keyOk_mem (k : List Nat) (h : v4KeyOk k = true) : k ∈ v4AllKeys := by
  unfold v4KeyOk at h
  split at h
  · rename_i e1 e2 e3 e4 e5 e6
    simp only [decide_eq_true_eq] at h
    simp only [v4AllKeys, List.mem_flatMap, List.mem_map, List.mem_range]
    exact ⟨e1, by omega, e2, by omega, e3, by omega, e4, by omega, e5, by omega, e6, by omega, rfl⟩
  · simp at h

/-- the lookup of `V4.Score` never misses: the macrovector of any vector is a row of the table -/
theorem v4_lookup_total (v : Vec) : (v4MvScore (v4Macro v)).isSome = true := by
  apply lookupMv_of_mem
  rw [v4_keys_exact]
  exact List.mem_filter.2 ⟨keyOk_mem _ (v4Macro_keyOk v), v4Macro_keyOk v⟩

end ClairModel.Cvss
