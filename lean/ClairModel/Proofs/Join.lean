/-
  C04 — helper definitions and lemmas about the join model:
  what the WHERE clause of `buildGetQuery` means, constraint by constraint.
-/
import ClairModel.Model.Join
import ClairModel.Model.JoinScan

namespace ClairModel.Join
open ClairModel.Gen

/-- The predicate one constraint contributes to the query: the record field
    named by the switch case equals the value in the switch case's column. -/
def constraintAgree (c : Bytes) (r : Rec) (v : Vuln) : Bool :=
  match findCase c JoinQuery.switchCases with
  | none => false
  | some q =>
    match q.field with
    | none => (match rowCol q.column v with
      | some x => !x.isEmpty
      | none => false)
    | some f => (match recField f r, rowCol q.column v with
      | .val a, some b => a == b
      | _, _ => false)

/-- The package clause: the advisory names the package (name and kind), or,
    when the package has a source, the source package (name and kind). -/
def nameJoins (r : Rec) (v : Vuln) : Bool :=
  match r.pkg.src with
  | none => !r.pkg.name.isEmpty && (r.pkg.name == v.pkgName && r.pkg.kind == v.pkgKind)
  | some (sn, sk) =>
    !r.pkg.name.isEmpty &&
      ((r.pkg.name == v.pkgName && r.pkg.kind == v.pkgKind) ||
        (!sn.isEmpty && (sn == v.pkgName && sk == v.pkgKind)))

def versionOk (vf inRange : Bool) (r : Rec) (v : Vuln) : Bool :=
  if vf then (v.versionKind == some r.pkg.normKind && inRange) else true

/-! ### the constraint loop -/

theorem constraintsHold_cons (r : Rec) (v : Vuln) (c : Bytes) (cs seen : List Bytes) :
    constraintsHold r v (c :: cs) seen =
      if seen.contains c then constraintsHold r v cs seen else
      match hereOut c r v with
      | .ok t => (match constraintsHold r v cs (c :: seen) with
        | .ok t' => .ok (t && t')
        | o => o)
      | o => o := by
  rfl

/-- A guarded constraint compares a field of the guarded part of the record. -/
def guardOk (g : Bytes × Bytes) : Bool :=
  match findCase g.1 JoinQuery.switchCases with
  | none => false
  | some q =>
    match q.field with
    | none => false
    | some f =>
      match decodeRec f with
      | some (.dist _) => g.2 == [68, 105, 115, 116, 114, 105, 98, 117, 116, 105, 111, 110]
      | some (.repo _) => g.2 == [82, 101, 112, 111, 115, 105, 116, 111, 114, 121]
      | _ => false

theorem guards_ok : JoinQuery.nilGuards.all guardOk = true := by decide

theorem guardedNil_agree_false (c : Bytes) (r : Rec) (v : Vuln) (h : guardedNil c r = true) :
    constraintAgree c r v = false := by
  simp only [guardedNil, List.any_eq_true, Bool.and_eq_true, Bool.or_eq_true, beq_iff_eq, Option.isNone_iff_eq_none] at h
  obtain ⟨g, hg, hc, hnil⟩ := h
  have hok := List.all_eq_true.1 guards_ok g hg
  subst hc
  unfold guardOk at hok
  unfold constraintAgree
  cases hq : findCase g.1 JoinQuery.switchCases with
  | none => rfl
  | some q =>
    simp only [hq] at hok ⊢
    cases hf : q.field with
    | none => simp [hf] at hok
    | some f =>
      simp only [hf] at hok ⊢
      cases hd : decodeRec f with
      | none => simp [hd] at hok
      | some rf =>
        cases rf with
        | dist df =>
          simp only [hd, beq_iff_eq] at hok
          rcases hnil with ⟨_, hn⟩ | ⟨hp', _⟩
          · simp [recField, hd, RField.get, hn]
          · rw [hok] at hp'; cases hp'
        | repo rpf =>
          simp only [hd, beq_iff_eq] at hok
          rcases hnil with ⟨hp', _⟩ | ⟨_, hn⟩
          · rw [hok] at hp'; cases hp'
          · simp [recField, hd, RField.get, hn]
        | _ => simp [hd] at hok

theorem hereOut_true_iff (c : Bytes) (r : Rec) (v : Vuln) :
    hereOut c r v = .ok true ↔ constraintAgree c r v = true := by
  by_cases hgn : guardedNil c r = true
  · have := guardedNil_agree_false c r v hgn
    simp [hereOut, hgn, this]
  have hgn' : guardedNil c r = false := by simpa using hgn
  unfold hereOut constraintAgree
  simp only [hgn', Bool.false_eq_true, if_false]
  cases findCase c JoinQuery.switchCases with
  | none => simp
  | some q =>
    simp only
    cases q.field with
    | none =>
      simp only
      cases rowCol q.column v <;> simp
    | some f =>
      simp only
      cases recField f r <;> cases rowCol q.column v <;> simp

/-- The loop yields `true` exactly when every listed constraint that was not
    already handled agrees. -/
theorem constraintsHold_true_iff (r : Rec) (v : Vuln) (cs : List Bytes) :
    ∀ seen, constraintsHold r v cs seen = .ok true ↔
      ∀ c ∈ cs, seen.contains c = true ∨ constraintAgree c r v = true := by
  induction cs with
  | nil => intro seen; simp [constraintsHold]
  | cons c cs ih =>
    intro seen
    rw [constraintsHold_cons]
    by_cases hs : seen.contains c = true
    · simp only [hs, if_true]
      rw [ih seen]
      constructor
      · intro h c' hc'
        rcases List.mem_cons.1 hc' with rfl | hm
        · exact Or.inl hs
        · exact h c' hm
      · intro h c' hc'
        exact h c' (List.mem_cons_of_mem _ hc')
    · simp only [hs]
      have hs' : seen.contains c = false := by simpa using hs
      constructor
      · intro h
        -- the body was ok true and the rest was ok true
        cases hh : hereOut c r v with
        | err => simp [hh] at h
        | panic => simp [hh] at h
        | ok t =>
          simp only [hh] at h
          cases hr : constraintsHold r v cs (c :: seen) with
          | err => simp [hr] at h
          | panic => simp [hr] at h
          | ok t' =>
            simp only [hr] at h
            have htt : t = true ∧ t' = true := by
              cases t <;> cases t' <;> simp at h ⊢
            obtain ⟨ht, ht'⟩ := htt
            subst ht; subst ht'
            have hc : constraintAgree c r v = true := (hereOut_true_iff c r v).1 hh
            have hrest := (ih (c :: seen)).1 hr
            intro c' hc'
            rcases List.mem_cons.1 hc' with rfl | hm
            · exact Or.inr hc
            · rcases hrest c' hm with h1 | h2
              · simp only [List.contains_cons, Bool.or_eq_true, beq_iff_eq] at h1
                rcases h1 with rfl | h1
                · exact Or.inr hc
                · exact Or.inl h1
              · exact Or.inr h2
      · intro h
        have hc : constraintAgree c r v = true := by
          rcases h c (List.mem_cons_self ..) with h1 | h2
          · rw [hs'] at h1; cases h1
          · exact h2
        have hh : hereOut c r v = .ok true := (hereOut_true_iff c r v).2 hc
        have hr : constraintsHold r v cs (c :: seen) = .ok true := by
          rw [ih (c :: seen)]
          intro c' hc'
          rcases h c' (List.mem_cons_of_mem _ hc') with h1 | h2
          · left
            simp only [List.contains_cons, Bool.or_eq_true, beq_iff_eq]
            exact Or.inr h1
          · exact Or.inr h2
        simp [hh, hr]

/-! ### the package clause over the generated tables -/

theorem decode_nameGuard : decodeRec JoinQuery.nameGuard = some .pkgName := by decide
theorem decode_srcGuard : decodeRec JoinQuery.srcGuard = some .srcName := by decide

theorem pkgClause_eq (r : Rec) (v : Vuln) :
    clauseHolds JoinQuery.pkgClause r v = .ok (r.pkg.name == v.pkgName && r.pkg.kind == v.pkgKind) := by
  have h1 : decodeRec [80, 97, 99, 107, 97, 103, 101, 46, 78, 97, 109, 101] = some .pkgName := by decide
  have h2 : decodeRec [80, 97, 99, 107, 97, 103, 101, 46, 75, 105, 110, 100] = some .pkgKind := by decide
  have c1 : colField [112, 97, 99, 107, 97, 103, 101, 95, 110, 97, 109, 101] = some .pkgName := by decide
  have c2 : colField [112, 97, 99, 107, 97, 103, 101, 95, 107, 105, 110, 100] = some .pkgKind := by decide
  simp [JoinQuery.pkgClause, clauseHolds, recField, rowCol, h1, h2, c1, c2, RField.get, VField.get]

theorem srcClause_eq (r : Rec) (v : Vuln) (sn sk : Bytes) (h : r.pkg.src = some (sn, sk)) :
    clauseHolds JoinQuery.srcClause r v = .ok (sn == v.pkgName && sk == v.pkgKind) := by
  have h1 : decodeRec [80, 97, 99, 107, 97, 103, 101, 46, 83, 111, 117, 114, 99, 101, 46, 78, 97, 109, 101] = some .srcName := by decide
  have h2 : decodeRec [80, 97, 99, 107, 97, 103, 101, 46, 83, 111, 117, 114, 99, 101, 46, 75, 105, 110, 100] = some .srcKind := by decide
  have c1 : colField [112, 97, 99, 107, 97, 103, 101, 95, 110, 97, 109, 101] = some .pkgName := by decide
  have c2 : colField [112, 97, 99, 107, 97, 103, 101, 95, 107, 105, 110, 100] = some .pkgKind := by decide
  simp [JoinQuery.srcClause, clauseHolds, recField, rowCol, h1, h2, c1, c2, RField.get, VField.get, h]

theorem srcNilGuard_true : JoinQuery.srcNilGuard = true := by decide

/-- The tail of `getQuery` after the package clause has been decided. -/
theorem tail_true_iff (pk : Bool) (cs : List Bytes) (vf ir : Bool) (r : Rec) (v : Vuln) :
    (match constraintsHold r v cs [] with
      | .ok t => QOut.ok (pk && t && (if vf then (v.versionKind == some r.pkg.normKind && ir) else true))
      | o => o) = .ok true ↔
      pk = true ∧ (∀ c ∈ cs, constraintAgree c r v = true) ∧ versionOk vf ir r v = true := by
  have hcs := constraintsHold_true_iff r v cs []
  simp only [List.contains_nil, Bool.false_eq_true, false_or] at hcs
  cases hc : constraintsHold r v cs [] with
  | err =>
    have : ¬ (∀ c ∈ cs, constraintAgree c r v = true) := fun h => by
      have := hcs.2 h; rw [hc] at this; cases this
    simp [this]
  | panic =>
    have : ¬ (∀ c ∈ cs, constraintAgree c r v = true) := fun h => by
      have := hcs.2 h; rw [hc] at this; cases this
    simp [this]
  | ok t =>
    cases t with
    | false =>
      have : ¬ (∀ c ∈ cs, constraintAgree c r v = true) := fun h => by
        have := hcs.2 h; rw [hc] at this; cases this
      simp [this]
    | true =>
      have hall := hcs.1 hc
      simp only [QOut.ok.injEq, Bool.and_true, versionOk]
      constructor
      · intro h
        simp only [Bool.and_eq_true] at h
        exact ⟨h.1, hall, h.2⟩
      · rintro ⟨h1, _, h3⟩
        simp [h1, h3]

/-- The WHERE clause of `buildGetQuery` holds for a row exactly when the
    package clause, every listed constraint and (if requested) the version
    filter hold. -/
theorem getQuery_true_iff (cs : List Bytes) (vf ir : Bool) (r : Rec) (v : Vuln) :
    getQuery cs vf ir r v = .ok true ↔
      nameJoins r v = true ∧ (∀ c ∈ cs, constraintAgree c r v = true) ∧ versionOk vf ir r v = true := by
  unfold getQuery
  simp only [recField, decode_nameGuard, decode_srcGuard, RField.get, pkgClause_eq, srcNilGuard_true, if_true]
  cases hn : r.pkg.name with
  | nil =>
    cases hsrc : r.pkg.src with
    | none => simp [nameJoins, hsrc, hn]
    | some p => obtain ⟨sn, sk⟩ := p; simp [nameJoins, hsrc, hn]
  | cons a as =>
    simp only
    cases hsrc : r.pkg.src with
    | none =>
      simp only [nameJoins, hsrc, hn]
      refine (tail_true_iff _ cs vf ir r v).trans ?_
      simp
    | some p =>
      obtain ⟨sn, sk⟩ := p
      simp only [nameJoins, hsrc, hn, srcClause_eq r v sn sk hsrc]
      by_cases hg : sn.isEmpty = true
      · simp only [hg, if_true]
        refine (tail_true_iff _ cs vf ir r v).trans ?_
        simp
      · have hg' : sn.isEmpty = false := by simpa using hg
        simp only [hg', Bool.false_eq_true, if_false]
        refine (tail_true_iff _ cs vf ir r v).trans ?_
        simp

end ClairModel.Join
