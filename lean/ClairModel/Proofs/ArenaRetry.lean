import ClairModel.Proofs.ArenaHeld

/-!
  The stale-reference retry loop of fetchInto (`errStale` -> `r.Close()` -> `do()` again) is
  bounded: a task sees `errStale` at most twice for every file of its digest that has been
  closed (once for an rc it was handed before the file was closed, once more if the flight it
  then joins had loaded that rc before it was closed).  `RInv` is the potential argument.
  And it makes progress: a task that retries and is not overtaken by another release ends
  with a descriptor (`retry_progress`).
-/
set_option linter.unusedSimpArgs false
namespace ClairModel.Arena

/-- A task in one of these states may still run into `errStale`. -/
def Pc.canRetry : Pc → Bool
  | .ready _ | .waiting _ | .got _ _ | .reffed _ _ | .staleRef _ _ => true
  | _ => false

/-- 1 if the file of rc `r` has been closed. -/
def deadRc (s : State) (r : Nat) : Nat := if (s.rc r).fileOpen then 0 else 1

/-- 1 if the flight of `k` is about to hand out an rc whose file has been closed. -/
def deadRes (s : State) (k : Nat) : Nat :=
  match s.flight k with
  | some f =>
    match resultOf f.phase with
    | some (some r) => deadRc s r
    | _ => 0
  | none => 0

/-- 1 if the task has been handed an rc whose file has been closed and has not noticed yet. -/
def inHand (s : State) : Pc → Nat
  | .got _ r => deadRc s r
  | .reffed _ r => deadRc s r
  | _ => 0

/-- The stale results a task can still run into without another file being closed. -/
def slack (s : State) (p : Pc) (k : Nat) : Nat := inHand s p + (if p.canRetry then deadRes s k else 0)

structure RInv (s : State) : Prop where
  skeysLen : s.skeys.length = s.tasks.length
  keyS : ∀ (t : Nat) (p : Pc) (k : Nat), s.tasks[t]? = some p → p.key? = some k → s.skeys[t]? = some k
  stale0 : ∀ t, s.tasks.length ≤ t → s.stales t = 0
  deadDeaths : ∀ r, r < s.nrc → (s.rc r).fileOpen = false → 1 ≤ s.deaths (s.rc r).key
  /-- every `errStale` a task has seen or can still see is paid for by a closed file of its digest -/
  bound : ∀ (t : Nat) (p : Pc) (k : Nat), s.tasks[t]? = some p → s.skeys[t]? = some k → s.stales t + slack s p k ≤ 2 * s.deaths k

theorem rinv_init : RInv init := by
  refine ⟨rfl, ?_, ?_, ?_, ?_⟩ <;> simp [init]

theorem deadRc_le (s : State) (r : Nat) : deadRc s r ≤ 1 := by
  simp only [deadRc]; split <;> omega

theorem deadRes_le (s : State) (k : Nat) : deadRes s k ≤ 1 := by
  simp only [deadRes]
  split
  · split
    · exact deadRc_le _ _
    · omega
  · omega

theorem slack_congr {s s' : State} (hrc : ∀ r, (s'.rc r).fileOpen = (s.rc r).fileOpen)
    (hfl : s'.flight = s.flight) (p : Pc) (k : Nat) : slack s' p k = slack s p k := by
  have hd : ∀ r, deadRc s' r = deadRc s r := by intro r; simp [deadRc, hrc r]
  have hres : deadRes s' k = deadRes s k := by
    simp only [deadRes, hfl]
    split
    · split
      · exact hd _
      · rfl
    · rfl
  simp only [slack, hres]
  cases p <;> simp [inHand, hd]


theorem slack_mono {s s' : State} (hrc : ∀ r, (s'.rc r).fileOpen = (s.rc r).fileOpen)
    (hres : ∀ k, deadRes s' k ≤ deadRes s k) (p : Pc) (k : Nat) : slack s' p k ≤ slack s p k := by
  have hd : ∀ r, deadRc s' r = deadRc s r := by intro r; simp [deadRc, hrc r]
  have := hres k
  simp only [slack]
  have hin : inHand s' p = inHand s p := by cases p <;> simp [inHand, hd]
  rw [hin]
  split <;> omega

/-- Transitions that close no file, create no rc and keep the set of tasks. -/
theorem rinv_simple {s s' : State} (h : RInv s)
    (hsk : s'.skeys = s.skeys) (hlen : s'.tasks.length = s.tasks.length)
    (hnrc : s'.nrc = s.nrc) (hkey : ∀ r, (s'.rc r).key = (s.rc r).key)
    (hrc : ∀ r, (s'.rc r).fileOpen = (s.rc r).fileOpen) (hde : s'.deaths = s.deaths)
    (hst0 : ∀ t, s.tasks.length ≤ t → s'.stales t = 0)
    (htask : ∀ t p', s'.tasks[t]? = some p' → ∃ p, s.tasks[t]? = some p ∧
      (∀ k, p'.key? = some k → p.key? = some k) ∧
      (∀ k, s'.stales t + slack s' p' k ≤ s.stales t + slack s p k)) :
    RInv s' := by
  refine ⟨by rw [hsk, hlen]; exact h.skeysLen, ?_, ?_, ?_, ?_⟩
  · intro t p' k hp' hk
    obtain ⟨p, hp, hkk, _⟩ := htask t p' hp'
    rw [hsk]; exact h.keyS t p k hp (hkk k hk)
  · intro t ht; exact hst0 t (by omega)
  · intro r hr ho
    rw [hde, hkey r]
    exact h.deadDeaths r (by omega) (by rw [← hrc r]; exact ho)
  · intro t p' k hp' hk
    obtain ⟨p, hp, _, hb⟩ := htask t p' hp'
    rw [hsk] at hk
    have := h.bound t p k hp hk
    have := hb k
    rw [hde]; omega

/-- Only the flights change, and none of them gets a dead result it did not have. -/
theorem rinv_flight {s : State} (h : RInv s) (fl : Nat → Option Flight) (hits' : Nat → Nat)
    (hres : ∀ k, deadRes { s with flight := fl, hits := hits' } k ≤ deadRes s k) :
    RInv { s with flight := fl, hits := hits' } := by
  refine rinv_simple h rfl rfl rfl (fun _ => rfl) (fun _ => rfl) rfl h.stale0 ?_
  intro t p' hp'
  refine ⟨p', hp', fun k hk => hk, fun k => ?_⟩
  have := slack_mono (s := s) (s' := { s with flight := fl, hits := hits' }) (fun _ => rfl) hres p' k
  show s.stales t + _ ≤ _
  omega

theorem deadRes_upd_le {s : State} {k : Nat} {f' : Flight} {hits' : Nat → Nat}
    (hnew : ∀ r, resultOf f'.phase = some (some r) →
      (s.rc r).fileOpen = true ∨ (∃ f, s.flight k = some f ∧ resultOf f.phase = some (some r))) :
    ∀ k', deadRes { s with flight := upd s.flight k (some f'), hits := hits' } k' ≤ deadRes s k' := by
  intro k'
  by_cases hk : k' = k
  · subst hk
    simp only [deadRes, upd_same]
    cases hr : resultOf f'.phase with
    | none => simp
    | some res =>
      cases res with
      | none => simp
      | some r =>
        rcases hnew r hr with ho | ⟨f, hf, hfr⟩
        · simp [deadRc, ho]
        · simp only [hf, hfr]
          exact Nat.le_refl _
  · simp only [deadRes, upd_other _ _ _ _ hk]
    exact Nat.le_refl _


/-- One task moves; no file is closed, the flights stay. -/
theorem rinv_setTask {s : State} (h : RInv s) {t0 : Nat} {p0 p' : Pc} (ht0 : s.tasks[t0]? = some p0)
    (hkey : ∀ k, p'.key? = some k → p0.key? = some k)
    (hsl : ∀ k, slack s p' k ≤ slack s p0 k) : RInv (setTask s t0 p') := by
  refine rinv_simple h rfl (by simp [setTask]) rfl (fun _ => rfl) (fun _ => rfl) rfl h.stale0 ?_
  intro t q hq
  have hcong : ∀ p k, slack (setTask s t0 p') p k = slack s p k :=
    fun p k => slack_congr (fun _ => rfl) rfl p k
  by_cases ht : t = t0
  · subst ht
    have hlt : t < s.tasks.length := by
      rcases Nat.lt_or_ge t s.tasks.length with hl | hl
      · exact hl
      · rw [List.getElem?_eq_none hl] at ht0; cases ht0
    simp only [setTask, List.getElem?_set_self hlt, Option.some.injEq] at hq
    subst hq
    refine ⟨p0, ht0, hkey, fun k => ?_⟩
    rw [hcong]
    have := hsl k
    show s.stales t + _ ≤ _
    omega
  · simp only [setTask] at hq
    rw [List.getElem?_set_ne (Ne.symm ht)] at hq
    refine ⟨q, hq, fun k hk => hk, fun k => ?_⟩
    rw [hcong]
    exact Nat.le_refl _

theorem rinv_of_step {s : State} (op : Op)
    (H : ∀ s' out, step s op = (s', out) → RInv s') : RInv (step s op).1 := by
  generalize hst : step s op = res
  obtain ⟨s', out⟩ := res
  exact H s' out hst


/-- The reference count of one rc changes, nothing else. -/
theorem rinv_rcCount {s : State} (h : RInv s) (r : Nat) (x : Rc) (hk : x.key = (s.rc r).key)
    (ho : x.fileOpen = (s.rc r).fileOpen) : RInv { s with rc := upd s.rc r x } := by
  have hrc : ∀ r', (upd s.rc r x r').fileOpen = (s.rc r').fileOpen := by
    intro r'; by_cases he : r' = r
    · subst he; simp [ho]
    · simp [upd_other _ _ _ _ he]
  have hkey : ∀ r', (upd s.rc r x r').key = (s.rc r').key := by
    intro r'; by_cases he : r' = r
    · subst he; simp [hk]
    · simp [upd_other _ _ _ _ he]
  refine rinv_simple h rfl rfl rfl hkey hrc rfl h.stale0 ?_
  intro t p' hp'
  refine ⟨p', hp', fun k hk => hk, fun k => ?_⟩
  rw [slack_congr (s := s) (s' := { s with rc := upd s.rc r x }) hrc rfl]
  exact Nat.le_refl _

theorem deadRes_le_of_deaths {s : State} (hi : Inv s) (h : RInv s) (k : Nat) : deadRes s k ≤ 2 * s.deaths k := by
  simp only [deadRes]
  split
  · rename_i f hf
    split
    · rename_i r hr
      simp only [deadRc]
      split
      · omega
      · rename_i hc
        have hfr := hi.flightRes k f r hf hr
        have := h.deadDeaths r hfr.1 (by simpa using hc)
        rw [hfr.2] at this
        omega
    · omega
  · omega

theorem rinv_spawn {s : State} (hi : Inv s) (h : RInv s) (k : Nat) :
    RInv { s with tasks := s.tasks ++ [.ready k], skeys := s.skeys ++ [k] } := by
  have hslack : ∀ p kk, slack { s with tasks := s.tasks ++ [.ready k], skeys := s.skeys ++ [k] } p kk = slack s p kk :=
    fun p kk => slack_congr (fun _ => rfl) rfl p kk
  refine ⟨by simp [h.skeysLen], ?_, ?_, h.deadDeaths, ?_⟩
  · intro t p kk hp hk
    rcases Nat.lt_or_ge t s.tasks.length with hl | hl
    · rw [List.getElem?_append_left hl] at hp
      rw [List.getElem?_append_left (by rw [h.skeysLen]; exact hl)]
      exact h.keyS t p kk hp hk
    · rcases Nat.lt_or_ge s.tasks.length t with hl' | hl'
      · have : (s.tasks ++ [Pc.ready k])[t]? = none := by
          apply List.getElem?_eq_none; simp; omega
        rw [this] at hp; cases hp
      · have he : t = s.tasks.length := by omega
        subst he
        simp at hp
        subst hp
        simp only [Pc.key?, Option.some.injEq] at hk
        subst hk
        rw [← h.skeysLen]; simp
  · intro t ht
    exact h.stale0 t (by simp at ht; omega)
  · intro t p kk hp hk
    rw [hslack]
    rcases Nat.lt_or_ge t s.tasks.length with hl | hl
    · rw [List.getElem?_append_left hl] at hp
      rw [List.getElem?_append_left (by rw [h.skeysLen]; exact hl)] at hk
      exact h.bound t p kk hp hk
    · rcases Nat.lt_or_ge s.tasks.length t with hl' | hl'
      · have : (s.tasks ++ [Pc.ready k])[t]? = none := by
          apply List.getElem?_eq_none; simp; omega
        rw [this] at hp; cases hp
      · have he : t = s.tasks.length := by omega
        subst he
        simp at hp
        subst hp
        have hkk : kk = k := by
          rw [← h.skeysLen] at hk; simp at hk; exact hk.symm
        subst hkk
        show s.stales s.tasks.length + slack s (.ready kk) kk ≤ _
        rw [h.stale0 _ (Nat.le_refl _)]
        simp only [slack, inHand, Pc.canRetry, if_true]
        have := deadRes_le_of_deaths hi h kk
        omega


theorem rinv_fend {s s' : State} (h : RInv s) {k : Nat} {f : Flight} {res : Option Nat}
    (hf : s.flight k = some f) (hres : resultOf f.phase = some res)
    (hfl : s'.flight = upd s.flight k none) (htk : s'.tasks = s.tasks.map (deliver k res))
    (hrc : s'.rc = s.rc) (hnrc : s'.nrc = s.nrc) (hsk : s'.skeys = s.skeys) (hst : s'.stales = s.stales)
    (hde : s'.deaths = s.deaths) : RInv s' := by
  have hdr : ∀ r, deadRc s' r = deadRc s r := fun r => by simp [deadRc, hrc]
  have hres' : ∀ kk, deadRes s' kk = if kk = k then 0 else deadRes s kk := by
    intro kk
    by_cases hk : kk = k
    · subst hk; simp [deadRes, hfl]
    · simp only [deadRes, hfl, upd_other _ _ _ _ hk, hk, if_false, hdr]
  refine ⟨by rw [hsk, htk]; simp [h.skeysLen], ?_, ?_, ?_, ?_⟩
  · intro t p' kk hp' hk
    rw [htk, List.getElem?_map] at hp'
    cases hp : s.tasks[t]? with
    | none => simp [hp] at hp'
    | some p =>
      simp only [hp, Option.map_some, Option.some.injEq] at hp'
      subst hp'
      rw [hsk]
      apply h.keyS t p kk hp
      unfold deliver at hk
      split at hk
      · rename_i hw; subst hw
        cases res <;> simp [Pc.key?] at hk ⊢
        exact hk
      · exact hk
  · intro t ht
    rw [hst]; exact h.stale0 t (by rw [htk] at ht; simpa using ht)
  · intro r hr ho
    rw [hde, hrc]; rw [hrc] at ho
    exact h.deadDeaths r (by omega) ho
  · intro t p' kk hp' hk
    rw [htk, List.getElem?_map] at hp'
    rw [hsk] at hk
    cases hp : s.tasks[t]? with
    | none => simp [hp] at hp'
    | some p =>
      simp only [hp, Option.map_some, Option.some.injEq] at hp'
      subst hp'
      have hb := h.bound t p kk hp hk
      rw [hst, hde]
      have hsl : slack s' (deliver k res p) kk ≤ slack s p kk := by
        unfold deliver
        split
        · rename_i hw; subst hw
          have hkk : kk = k := by
            have := h.keyS t _ k hp rfl
            rw [hk] at this; exact Option.some.inj this
          subst hkk
          cases res with
          | none => simp [slack, inHand, Pc.canRetry]
          | some r =>
            simp only [slack, inHand, Pc.canRetry, if_true, hres', hdr]
            simp only [deadRes, hf, hres]
            omega
        · simp only [slack, hres']
          have hin : inHand s' p = inHand s p := by
            cases p <;> simp [inHand, hdr]
          rw [hin]
          split
          · split <;> omega
          · omega
      omega

theorem rinv_fstore {s s' : State} (hi : Inv s) (h : RInv s) {k : Nat} {f : Flight}
    (hf : s.flight k = some f)
    (hfl : s'.flight = upd s.flight k (some { f with phase := .stored s.nrc })) (htk : s'.tasks = s.tasks)
    (hrc : s'.rc = upd s.rc s.nrc ⟨k, 0, true⟩) (hnrc : s'.nrc = s.nrc + 1) (hsk : s'.skeys = s.skeys)
    (hst : s'.stales = s.stales) (hde : s'.deaths = s.deaths) : RInv s' := by
  have hdr : ∀ r, r ≠ s.nrc → deadRc s' r = deadRc s r := by
    intro r hr; simp [deadRc, hrc, upd_other _ _ _ _ hr]
  have hdn : deadRc s' s.nrc = 0 := by simp [deadRc, hrc]
  refine ⟨by rw [hsk, htk]; exact h.skeysLen, by rw [hsk, htk]; exact h.keyS,
    by rw [hst, htk]; exact h.stale0, ?_, ?_⟩
  · intro r hr ho
    have hne : r ≠ s.nrc := by
      intro he; subst he; simp [hrc] at ho
    rw [hde, hrc]; rw [hrc] at ho
    simp only [upd_other _ _ _ _ hne] at ho ⊢
    exact h.deadDeaths r (by omega) ho
  · intro t p kk hp hk
    rw [htk] at hp; rw [hsk] at hk
    have hb := h.bound t p kk hp hk
    rw [hst, hde]
    have hm : p ∈ s.tasks := List.mem_of_getElem? hp
    have hin : inHand s' p = inHand s p := by
      cases p with
      | got k' r =>
        have := (hi.taskKey _ hm k' r rfl).1
        simp only [inHand]; exact hdr r (by omega)
      | reffed k' r =>
        have := (hi.taskKey _ hm k' r rfl).1
        simp only [inHand]; exact hdr r (by omega)
      | _ => rfl
    have hre : deadRes s' kk ≤ deadRes s kk := by
      by_cases hkk : kk = k
      · subst hkk
        simp only [deadRes, hfl, upd_same, resultOf, hdn]
        omega
      · simp only [deadRes, hfl, upd_other _ _ _ _ hkk]
        split
        · rename_i f' hf'
          split
          · rename_i r hr
            have := (hi.flightRes kk f' r hf' hr).1
            rw [hdr r (by omega)]
            exact Nat.le_refl _
          · omega
        · omega
    simp only [slack, hin] at hb ⊢
    split <;> rename_i hc <;> simp only [hc, if_true, if_false] at hb <;> omega


theorem rinv_arena {s : State} (h : RInv s) (a : Nat → Option Nat) : RInv { s with arena := a } :=
  ⟨h.skeysLen, h.keyS, h.stale0, h.deadDeaths, h.bound⟩

theorem rinv_deaths_ghost {s : State} (h : RInv s) : RInv { s with deaths := s.deaths } := h

/-- The last reference on `r` is given up by task `t0` and the file of `r` is closed. -/
theorem rinv_death {s s' : State} (hi : Inv s) (h : RInv s) {t0 r : Nat} {p0 p' : Pc}
    (ht0 : s.tasks[t0]? = some p0)
    (hkey : ∀ k, p'.key? = some k → p0.key? = some k)
    (hin' : ∀ x : State, inHand x p' = 0) (hin0 : ∀ x : State, inHand x p0 = 0)
    (hcr : p'.canRetry = true → p0.canRetry = true)
    (hopen : (s.rc r).fileOpen = true)
    (hfl : s'.flight = s.flight) (htk : s'.tasks = s.tasks.set t0 p')
    (hrc : s'.rc = upd s.rc r { s.rc r with count := 0, fileOpen := false }) (hnrc : s'.nrc = s.nrc)
    (hsk : s'.skeys = s.skeys) (hst : s'.stales = s.stales)
    (hde : s'.deaths = upd s.deaths (s.rc r).key (s.deaths (s.rc r).key + 1)) : RInv s' := by
  have hlt0 : t0 < s.tasks.length := by
    rcases Nat.lt_or_ge t0 s.tasks.length with hl | hl
    · exact hl
    · rw [List.getElem?_eq_none hl] at ht0; cases ht0
  have hdr : ∀ r', r' ≠ r → deadRc s' r' = deadRc s r' := by
    intro r' hr; simp [deadRc, hrc, upd_other _ _ _ _ hr]
  have hdr_le : ∀ r', deadRc s' r' ≤ deadRc s r' + (if r' = r then 1 else 0) := by
    intro r'
    by_cases hr : r' = r
    · subst hr; simp [deadRc, hrc]
    · rw [hdr r' hr]; simp [hr]
  have hde_ge : ∀ kk, s'.deaths kk = s.deaths kk + (if kk = (s.rc r).key then 1 else 0) := by
    intro kk
    rw [hde]
    by_cases hk : kk = (s.rc r).key
    · subst hk; simp
    · simp [upd_other _ _ _ _ hk, hk]
  have hres : ∀ kk, deadRes s' kk ≤ deadRes s kk + (if kk = (s.rc r).key then 1 else 0) := by
    intro kk
    simp only [deadRes, hfl]
    split
    · rename_i f hf
      split
      · rename_i r' hr'
        have := hdr_le r'
        by_cases he : r' = r
        · subst he
          have hk := (hi.flightRes kk f r' hf hr').2
          simp [hk] at this ⊢
          omega
        · simp [he] at this
          omega
      · omega
    · omega
  refine ⟨by rw [hsk, htk]; simp [h.skeysLen], ?_, ?_, ?_, ?_⟩
  · intro t q kk hq hk
    rw [hsk]
    rw [htk] at hq
    by_cases ht : t = t0
    · subst ht
      rw [List.getElem?_set_self hlt0] at hq
      cases hq
      exact h.keyS t p0 kk ht0 (hkey kk hk)
    · rw [List.getElem?_set_ne (Ne.symm ht)] at hq
      exact h.keyS t q kk hq hk
  · intro t ht
    rw [hst]; exact h.stale0 t (by rw [htk] at ht; simpa using ht)
  · intro r' hr' ho
    rw [hde_ge]
    by_cases he : r' = r
    · subst he
      simp [hrc]
    · rw [hrc] at ho ⊢
      simp only [upd_other _ _ _ _ he] at ho ⊢
      have := h.deadDeaths r' (by omega) ho
      omega
  · intro t q kk hq hk
    rw [hsk] at hk
    rw [hst, hde_ge]
    rw [htk] at hq
    by_cases ht : t = t0
    · subst ht
      rw [List.getElem?_set_self hlt0] at hq
      cases hq
      have hb := h.bound t p0 kk ht0 hk
      have hr2 := hres kk
      simp only [slack, hin', hin0] at hb ⊢
      cases hc : p'.canRetry with
      | false =>
        simp only [Bool.false_eq_true, if_false]
        by_cases hkr : kk = (s.rc r).key
        · simp only [if_pos hkr] at hr2 ⊢; split at hb <;> omega
        · simp only [if_neg hkr] at hr2 ⊢; split at hb <;> omega
      | true =>
        simp only [hcr hc, if_true] at hb
        simp only [if_true]
        by_cases hkr : kk = (s.rc r).key
        · simp only [if_pos hkr] at hr2 ⊢; omega
        · simp only [if_neg hkr] at hr2 ⊢; omega
    · rw [List.getElem?_set_ne (Ne.symm ht)] at hq
      have hb := h.bound t q kk hq hk
      have hm : q ∈ s.tasks := List.mem_of_getElem? hq
      have hkq : ∀ k', q.key? = some k' → k' = kk := by
        intro k' hk'
        have := h.keyS t q k' hq hk'
        rw [hk] at this; exact (Option.some.inj this).symm
      have hin : inHand s' q ≤ inHand s q + (if kk = (s.rc r).key then 1 else 0) := by
        cases q with
        | got k' r' =>
          have hkr := (hi.taskKey _ hm k' r' rfl).2
          have hk' := hkq k' rfl
          have := hdr_le r'
          simp only [inHand]
          by_cases he : r' = r
          · subst he; rw [← hk', hkr]; simp at this ⊢; exact this
          · simp [he] at this; omega
        | reffed k' r' =>
          have hkr := (hi.taskKey _ hm k' r' rfl).2
          have hk' := hkq k' rfl
          have := hdr_le r'
          simp only [inHand]
          by_cases he : r' = r
          · subst he; rw [← hk', hkr]; simp at this ⊢; exact this
          · simp [he] at this; omega
        | _ => simp [inHand]
      have hr2 := hres kk
      simp only [slack] at hb ⊢
      by_cases hkr : kk = (s.rc r).key
      · simp only [if_pos hkr] at hr2 hin ⊢
        split <;> rename_i hc <;> simp only [hc, if_true, if_false] at hb <;> omega
      · simp only [if_neg hkr] at hr2 hin ⊢
        split <;> rename_i hc <;> simp only [hc, if_true, if_false] at hb <;> omega


theorem slack_release_le (s : State) {p0 p' : Pc} (hin' : ∀ x : State, inHand x p' = 0)
    (hcr : p'.canRetry = true → p0.canRetry = true) (k : Nat) : slack s p' k ≤ slack s p0 k := by
  simp only [slack, hin']
  cases hc : p'.canRetry with
  | false => simp
  | true => simp only [hcr hc, if_true]; omega

/-- A task gives up its reference on `r` (`rc.dec`) and moves on without one. -/
theorem rinv_release {s : State} (hi : Inv s) (h : RInv s) {t0 r : Nat} {p0 p' : Pc}
    (ht0 : s.tasks[t0]? = some p0)
    (hkey : ∀ k, p'.key? = some k → p0.key? = some k)
    (hin' : ∀ x : State, inHand x p' = 0) (hin0 : ∀ x : State, inHand x p0 = 0)
    (hcr : p'.canRetry = true → p0.canRetry = true) :
    RInv (setTask (dec true s r).1 t0 p') := by
  by_cases h0 : (s.rc r).count = 0
  · have : dec true s r = (s, true) := by simp [dec, h0]
    rw [this]
    exact rinv_setTask h ht0 hkey (slack_release_le s hin' hcr)
  · by_cases h1 : (s.rc r).count = 1
    · rw [dec_one h1]
      cases hopen : (s.rc r).fileOpen with
      | true =>
        simp only [if_true]
        exact rinv_death (s' := setTask _ t0 p') hi h ht0 hkey hin' hin0 hcr hopen rfl rfl rfl rfl rfl rfl rfl
      | false =>
        simp only [Bool.false_eq_true, if_false]
        have h2 : RInv { s with rc := upd s.rc r { s.rc r with count := 0, fileOpen := false } } :=
          rinv_rcCount h r _ rfl (by simp [hopen])
        have h3 := rinv_arena h2 (if s.arena (s.rc r).key = some r then upd s.arena (s.rc r).key none else s.arena)
        exact rinv_setTask h3 ht0 hkey (slack_release_le _ hin' hcr)
    · rw [dec_many h0 h1]
      have h2 : RInv { s with rc := upd s.rc r { s.rc r with count := (s.rc r).count - 1 } } :=
        rinv_rcCount h r _ rfl rfl
      exact rinv_setTask h2 ht0 hkey (slack_release_le _ hin' hcr)

/-- Every transition preserves the retry bound. -/
theorem rinv_step {s : State} (hi : Inv s) (h : RInv s) (op : Op) : RInv (step s op).1 := by
  cases op with
  | spawn k => exact rinv_spawn hi h k
  | enter t =>
    simp only [step, stepG]
    split
    · rename_i k ht
      have h1 : RInv (setTask s t (.waiting k)) :=
        rinv_setTask h ht (fun _ hk => hk) (fun kk => by simp [slack, inHand, Pc.canRetry])
      split
      · exact h1
      · exact rinv_flight h1 _ (setTask s t (.waiting k)).hits
          (deadRes_upd_le (s := setTask s t (.waiting k)) (by intro r hr; simp [resultOf] at hr))
    · exact h
  | fload k v =>
    simp only [step, stepG]
    split
    · rename_i f hf
      split
      · split
        · split
          · rename_i r ha
            exact rinv_flight h _ s.hits (deadRes_upd_le (by
              intro r' hr; simp only [resultOf, Option.some.injEq] at hr; subst hr
              exact Or.inl (hi.arenaOk k r ha).2.2))
          · exact rinv_flight h _ s.hits (deadRes_upd_le (by intro r hr; simp [resultOf] at hr))
        · exact rinv_flight h _ s.hits (deadRes_upd_le (by intro r hr; simp [resultOf] at hr))
      · exact h
    · exact h
  | fnet k ok =>
    simp only [step, stepG]
    split
    · split
      · split
        · exact rinv_flight h _ s.hits (deadRes_upd_le (by intro r hr; simp [resultOf] at hr))
        · split
          · exact rinv_flight h _ _ (deadRes_upd_le (by intro r hr; simp [resultOf] at hr))
          · exact rinv_flight h _ _ (deadRes_upd_le (by intro r hr; simp [resultOf] at hr))
      · exact h
    · exact h
  | freq k =>
    simp only [step, stepG]
    split
    · split
      · split
        · exact rinv_flight h _ s.hits (deadRes_upd_le (by intro r hr; simp [resultOf] at hr))
        · exact rinv_flight h _ _ (deadRes_upd_le (by intro r hr; simp [resultOf] at hr))
      · exact h
    · exact h
  | fbody k ok =>
    simp only [step, stepG]
    split
    · split
      · split
        · exact rinv_flight h _ s.hits (deadRes_upd_le (by intro r hr; simp [resultOf] at hr))
        · split
          · exact rinv_flight h _ s.hits (deadRes_upd_le (by intro r hr; simp [resultOf] at hr))
          · exact rinv_flight h _ s.hits (deadRes_upd_le (by intro r hr; simp [resultOf] at hr))
      · exact h
    · exact h
  | ftmpfail k =>
    simp only [step, stepG]
    split
    · split
      · exact rinv_flight h _ s.hits (deadRes_upd_le (by intro r hr; simp [resultOf] at hr))
      · exact h
    · exact h
  | fstore k =>
    simp only [step, stepG]
    split
    · rename_i f hf
      split
      · rename_i hph
        have hnone := (inv_fstore hi hf hph).1
        rw [hnone]
        exact rinv_fstore hi h hf rfl rfl rfl rfl rfl rfl rfl
      · exact h
    · exact h
  | fend k =>
    simp only [step, stepG]
    split
    · rename_i f hf
      split
      · rename_i res hres
        exact rinv_fend h hf hres rfl rfl rfl rfl rfl rfl rfl
      · exact h
    · exact h
  | cancel t =>
    simp only [step, stepG]
    split
    · rename_i k ht
      have h1 : RInv (setTask s t .failed) :=
        rinv_setTask h ht (fun _ hk => by simp [Pc.key?] at hk) (fun kk => by simp [slack, inHand, Pc.canRetry])
      split
      · rename_i f hf
        split
        · exact rinv_flight h1 _ (setTask s t .failed).hits
            (deadRes_upd_le (s := setTask s t .failed) (by
              intro r hr
              refine Or.inr ⟨f, hf, ?_⟩
              by_cases hq : f.phase = .requesting
              · simp [hq, resultOf] at hr
              · simpa [hq] using hr))
        · exact h1
      · exact h1
    · exact h
    · exact h
    · exact h
  | ref t =>
    simp only [step, stepG]
    split
    · rename_i k r ht
      have h1 : RInv (setTask s t (.reffed k r)) :=
        rinv_setTask h ht (fun _ hk => hk) (fun kk => by simp [slack, inHand, Pc.canRetry])
      exact rinv_rcCount h1 r _ rfl rfl
    · exact h
  | val t =>
    simp only [step, stepG]
    split
    · rename_i k r ht
      split
      · rename_i ho
        exact rinv_setTask h ht (fun _ hk => hk) (fun kk => by simp [slack, inHand, Pc.canRetry, deadRc, ho])
      · rename_i ho
        have hlt : t < s.tasks.length := by
          rcases Nat.lt_or_ge t s.tasks.length with hl | hl
          · exact hl
          · rw [List.getElem?_eq_none hl] at ht; cases ht
        refine rinv_simple h rfl (by simp [setTask]) rfl (fun _ => rfl) (fun _ => rfl) rfl ?_ ?_
        · intro t' ht'
          have : t' ≠ t := by omega
          simp only [upd_other _ _ _ _ this]
          exact h.stale0 t' ht'
        · intro t' q hq
          have hcong : ∀ p kk, slack { setTask s t (.staleRef k r) with stales := upd s.stales t (s.stales t + 1) } p kk
              = slack s p kk := fun p kk => slack_congr (fun _ => rfl) rfl p kk
          by_cases he : t' = t
          · subst he
            simp only [setTask, List.getElem?_set_self hlt, Option.some.injEq] at hq
            subst hq
            refine ⟨_, ht, fun _ hk => hk, fun kk => ?_⟩
            rw [hcong]
            simp only [upd_same, slack, inHand, Pc.canRetry, if_true, deadRc]
            simp [ho]
            omega
          · simp only [setTask] at hq
            rw [List.getElem?_set_ne (Ne.symm he)] at hq
            refine ⟨q, hq, fun _ hk => hk, fun kk => ?_⟩
            rw [hcong]
            simp only [upd_other _ _ _ _ he]
            exact Nat.le_refl _
    · exact h
  | retry t =>
    simp only [step, stepG]
    split
    · rename_i k r ht
      simp only [if_true]
      exact rinv_release hi h ht (fun _ hk => hk) (fun _ => rfl) (fun _ => rfl) (fun _ => rfl)
    · exact h
  | init t ok =>
    simp only [step, stepG]
    split
    · rename_i k r ht
      split
      · exact rinv_setTask h ht (fun _ hk => hk) (fun kk => by simp [slack, inHand, Pc.canRetry])
      · exact rinv_release hi h ht (fun _ hk => by simp [Pc.key?] at hk) (fun _ => rfl) (fun _ => rfl)
          (fun hc => by simp [Pc.canRetry] at hc)
    · exact h
  | close t =>
    simp only [step, stepG]
    split
    · rename_i k r ht
      exact rinv_release hi h ht (fun _ hk => by simp [Pc.key?] at hk) (fun _ => rfl) (fun _ => rfl)
        (fun hc => by simp [Pc.canRetry] at hc)
    · exact h
  | finalize i =>
    simp only [step, stepG, hi.noLeak]
    simp
    exact h
  | query k => exact h
  | aclose =>
    simp only [step, stepG]
    refine rinv_simple h rfl rfl rfl (fun _ => rfl) (fun _ => rfl) rfl h.stale0 ?_
    intro t p' hp'
    refine ⟨p', hp', fun _ hk => hk, fun kk => ?_⟩
    rw [slack_congr (s := s) (fun _ => rfl) rfl]
    exact Nat.le_refl _

theorem reachable_rinv (ops : List Op) : RInv (Sm.run step init ops) := by
  have : ∀ (ops : List Op) (s : State), Inv s → RInv s → RInv (Sm.run step s ops) := by
    intro ops
    induction ops with
    | nil => intro s _ h; exact h
    | cons op ops ih =>
      intro s hi h
      exact ih _ (inv_step hi op) (rinv_step hi h op)
  exact this ops init inv_init rinv_init


/-- The bound, for every task of every reachable state. -/
theorem stales_le_deaths (ops : List Op) (t k : Nat) (hk : (Sm.run step init ops).skeys[t]? = some k) :
    (Sm.run step init ops).stales t ≤ 2 * (Sm.run step init ops).deaths k := by
  have h := reachable_rinv ops
  have hlt : t < (Sm.run step init ops).tasks.length := by
    rw [← h.skeysLen]
    rcases Nat.lt_or_ge t (Sm.run step init ops).skeys.length with hl | hl
    · exact hl
    · rw [List.getElem?_eq_none hl] at hk; cases hk
  have := h.bound t _ k (List.getElem?_eq_getElem hlt) hk
  omega

/-- The schedule in which a task that is about to (re)enter runs alone with its flight. -/
def soloOps (s : State) (t k : Nat) : List Op :=
  match s.arena k with
  | some _ => [.enter t, .fload k true, .fend k, .ref t, .val t]
  | none => [.enter t, .fload k true, .fnet k true, .fstore k, .fend k, .ref t, .val t]

/-- Progress: from any state that satisfies the invariant, a task at the start of `do()` whose
    digest has no flight in progress reaches `Val = ok` when it and its flight run without
    another task's release in between: the retry loop ends as soon as the task is not
    overtaken. -/
theorem retry_progress {s : State} (hi : Inv s) {t k : Nat} (ht : s.tasks[t]? = some (.ready k))
    (hf : s.flight k = none) :
    (Sm.trace step s (soloOps s t k)).getLast? = some .valOk := by
  have hlt : t < s.tasks.length := by
    rcases Nat.lt_or_ge t s.tasks.length with hl | hl
    · exact hl
    · rw [List.getElem?_eq_none hl] at ht; cases ht
  simp only [soloOps]
  cases ha : s.arena k with
  | some r =>
    have ho := (hi.arenaOk k r ha).2.2
    have hlt2 : t < (List.map (deliver k (some r)) s.tasks).length := by simpa using hlt
    simp [Sm.trace, step, stepG, ht, hf, ha, setTask, setPhase, upd, resultOf, deliver,
      List.getElem?_set_self hlt, List.getElem?_set_self hlt2, List.getElem?_map, ho]
  | none =>
    have hlt2 : t < (List.map (deliver k (some s.nrc)) s.tasks).length := by simpa using hlt
    simp [Sm.trace, step, stepG, ht, hf, ha, setTask, setPhase, upd, resultOf, deliver,
      List.getElem?_set_self hlt, List.getElem?_set_self hlt2, List.getElem?_map]

/-- How often `Val` of task `t` answered `errStale` along a history. -/
def staleCount (t : Nat) : State → List Op → Nat
  | _, [] => 0
  | s, op :: ops =>
    (if op = .val t ∧ (step s op).2 = .valStale then 1 else 0) + staleCount t (step s op).1 ops

theorem dec_stales (s : State) (r : Nat) : (dec true s r).1.stales = s.stales := by
  simp only [dec]
  split
  · rfl
  · split <;> rfl

theorem step_stales (s : State) (op : Op) (t : Nat) :
    (step s op).1.stales t = s.stales t + (if op = .val t ∧ (step s op).2 = .valStale then 1 else 0) := by
  cases op
  case val t' =>
    simp only [step, stepG]
    split
    · rename_i k r ht
      split
      · simp [setTask]
      · by_cases he : t' = t
        · subst he; simp
        · have : t ≠ t' := Ne.symm he
          simp [upd_other _ _ _ _ this, he]
    · simp
  all_goals (
    rw [if_neg (by intro h; cases h.1)]
    simp only [step, stepG, Nat.add_zero]
    repeat' split
    all_goals (first | rfl | simp [setTask, setPhase, dec_stales]))

/-- The ghost counter `stales t` is exactly the number of `errStale` answers task `t` got. -/
theorem stales_eq_count (t : Nat) : ∀ (ops : List Op) (s : State),
    (Sm.run step s ops).stales t = s.stales t + staleCount t s ops := by
  intro ops
  induction ops with
  | nil => intro s; simp [staleCount]
  | cons op ops ih =>
    intro s
    simp only [Sm.run_cons, staleCount]
    rw [ih, step_stales]
    omega

end ClairModel.Arena
