/-
  rpm: what a header's information states, and the lemmas behind the C02
  theorems about `RpmPkg.scan`.
-/
import ClairModel.Model.RpmPkg

namespace ClairModel.RpmPkg
open ClairModel.Bytes

/-! ### string helpers -/

theorem isPrefix_append (a b : Bytes) : isPrefix a (a ++ b) = true := by
  induction a with
  | nil => rfl
  | cons c cs ih => simp [isPrefix, ih]

theorem trimSuffix_append (x suf : Bytes) : trimSuffix suf (x ++ suf) = x := by
  unfold trimSuffix
  simp [List.reverse_append, isPrefix_append, List.drop_left']

theorem cutLast_none (c : Nat) (s : Bytes) (h : c ∉ s) : cutLast c s = none := by
  induction s with
  | nil => rfl
  | cons x xs ih =>
    simp only [List.mem_cons, not_or] at h
    have hx : ¬ x = c := fun e => h.1 e.symm
    simp [cutLast, ih h.2, hx]

theorem cutLast_append (c : Nat) (a b : Bytes) (h : c ∉ b) : cutLast c (a ++ c :: b) = some (a, b) := by
  induction a with
  | nil => simp [cutLast, cutLast_none c b h]
  | cons x xs ih => simp [cutLast, ih]

/-- `name-version-release.src.rpm` is split back into name and `version-release` -/
theorem splitNEVR_written (n v r : Bytes) (hv : 45 ∉ v) (hr : 45 ∉ r) :
    splitNEVR (n ++ 45 :: (v ++ 45 :: r) ++ sSrcRpm) = some (n, trimPrefix [48, 58] (v ++ 45 :: r)) := by
  unfold splitNEVR
  rw [trimSuffix_append]
  have h1 : cutLast 45 (n ++ 45 :: (v ++ 45 :: r)) = some (n ++ 45 :: v, r) := by
    have : n ++ 45 :: (v ++ 45 :: r) = (n ++ 45 :: v) ++ 45 :: r := by simp
    rw [this, cutLast_append 45 _ r hr]
  simp only [h1, cutLast_append 45 n v hv]

theorem uptoSecondColon_seen (s rest : Bytes) (hs : 58 ∉ s) :
    uptoSecondColon (s ++ 58 :: rest) true = s := by
  induction s with
  | nil => simp [uptoSecondColon]
  | cons c cs ih =>
    simp only [List.mem_cons, not_or] at hs
    have hc : ¬ c = 58 := fun e => hs.1 e.symm
    simp [uptoSecondColon, hc, ih hs.2]

theorem uptoSecondColon_label (m s rest : Bytes) (hm : 58 ∉ m) (hs : 58 ∉ s) :
    uptoSecondColon (m ++ 58 :: (s ++ 58 :: rest)) false = m ++ 58 :: s := by
  induction m with
  | nil => simp [uptoSecondColon, uptoSecondColon_seen s rest hs]
  | cons c cs ih =>
    simp only [List.mem_cons, not_or] at hm
    have hc : ¬ c = 58 := fun e => hm.1 e.symm
    simp [uptoSecondColon, hc, ih hm.2]

theorem countByte_append (c : Nat) (a b : Bytes) : countByte c (a ++ b) = countByte c a + countByte c b := by
  simp [countByte, List.filter_append]

theorem countByte_cons_self (c : Nat) (b : Bytes) : countByte c (c :: b) = countByte c b + 1 := by
  simp [countByte]

/-- a modularity label `name:stream:version:context` yields `name:stream` -/
theorem moduleStream_label (m s rest : Bytes) (hm : 58 ∉ m) (hs : 58 ∉ s) :
    moduleStream (m ++ 58 :: (s ++ 58 :: rest)) = m ++ 58 :: s := by
  unfold moduleStream
  have : countByte 58 (m ++ 58 :: (s ++ 58 :: rest)) > 1 := by
    rw [countByte_append, countByte_cons_self, countByte_append, countByte_cons_self]
    omega
  simp only [this, if_true]
  exact uptoSecondColon_label m s rest hm hs

theorem moduleStream_empty : moduleStream [] = [] := by decide

/-! ### ground truth -/

/-- what one header states -/
structure Entry where
  name : Bytes
  epoch : Int
  version : Bytes
  release : Bytes
  arch : Bytes
  /-- source rpm: name, version, release; `none` = `(none)` -/
  source : Option (Bytes × Bytes × Bytes)
  /-- modularity label: module name, stream, the rest (`version:context`) -/
  label : Option (Bytes × Bytes × Bytes)

def Entry.sourceNEVR (e : Entry) : Bytes :=
  match e.source with
  | none => sNone
  | some (n, v, r) => n ++ 45 :: (v ++ 45 :: r) ++ sSrcRpm

def Entry.moduleText (e : Entry) : Bytes :=
  match e.label with
  | none => []
  | some (m, s, rest) => m ++ 58 :: (s ++ 58 :: rest)

def Entry.stream (e : Entry) : Bytes :=
  match e.label with
  | none => []
  | some (m, s, _) => m ++ 58 :: s

/-- the information `Info.Load` extracts from the header of `e` -/
def Entry.info (e : Entry) : Info :=
  ⟨e.name, e.epoch, e.version, e.release, e.sourceNEVR, e.moduleText, e.arch⟩

def Entry.evr (e : Entry) : Bytes :=
  (if e.epoch ≠ 0 then showInt e.epoch ++ [58] else []) ++ e.version ++ 45 :: e.release

/-- the package that should be reported -/
def Entry.pkg (e : Entry) : Pkg :=
  ⟨e.name, e.evr, e.arch, e.stream,
    match e.source with
    | none => none
    | some (n, v, r) => some ⟨n, trimPrefix [48, 58] (v ++ 45 :: r), e.stream⟩⟩

structure Entry.WF (e : Entry) : Prop where
  src_ok : ∀ n v r, e.source = some (n, v, r) → 45 ∉ v ∧ 45 ∉ r
  label_ok : ∀ m s rest, e.label = some (m, s, rest) → 58 ∉ m ∧ 58 ∉ s

theorem Entry.WF.stream_eq {e : Entry} (w : e.WF) : moduleStream e.info.module = e.stream := by
  unfold Entry.info Entry.moduleText Entry.stream
  cases hl : e.label with
  | none => simp [moduleStream_empty]
  | some x =>
    obtain ⟨m, s, rest⟩ := x
    obtain ⟨hm, hs⟩ := w.label_ok m s rest hl
    simp [moduleStream_label m s rest hm hs]

theorem sourceNEVR_ne_none (n v r : Bytes) : n ++ 45 :: (v ++ 45 :: r) ++ sSrcRpm ≠ sNone := by
  intro h
  have h1 : n ++ 45 :: (v ++ 45 :: r) ++ sSrcRpm = (n ++ 45 :: (v ++ 45 :: r) ++ [46, 115, 114, 99, 46, 114, 112]) ++ [109] := by
    simp [sSrcRpm]
  have h2 : sNone = [40, 110, 111, 110, 101] ++ [41] := rfl
  rw [h1, h2] at h
  have hl := congrArg List.getLast? h
  rw [List.getLast?_concat, List.getLast?_concat] at hl
  cases hl

/-- the source map agrees with the entries still to come: a stored source for a NEVR text
    is the source those entries state -/
def SrcsOk (srcs : List (Bytes × Option Src)) (es : List Entry) : Prop :=
  ∀ e ∈ es, ∀ s, lookup srcs e.sourceNEVR = some s → s = e.pkg.src

/-- binaries of one source rpm belong to one module stream -/
def ModulesAgree (es : List Entry) : Prop :=
  es.Pairwise (fun a b => a.sourceNEVR = b.sourceNEVR → a.stream = b.stream)

theorem lookup_append (srcs : List (Bytes × Option Src)) (k : Bytes) (v : Option Src) (q : Bytes) :
    lookup (srcs ++ [(k, v)]) q = match lookup srcs q with
      | some x => some x
      | none => if k = q then some v else none := by
  induction srcs with
  | nil => simp [lookup]
  | cons a r ih =>
    obtain ⟨a1, a2⟩ := a
    simp only [List.cons_append, lookup]
    split
    · rfl
    · exact ih

theorem pkg_src_eq_of_same_nevr (a b : Entry) (wa : a.WF) (wb : b.WF)
    (h : a.sourceNEVR = b.sourceNEVR) (hs : a.stream = b.stream) : a.pkg.src = b.pkg.src := by
  -- the parsed source is a function of the NEVR text and the stream
  have key : ∀ e : Entry, e.WF → e.pkg.src =
      (if e.sourceNEVR = sNone then none else (splitNEVR e.sourceNEVR).map (fun nv => ⟨nv.1, nv.2, e.stream⟩)) := by
    intro e w
    unfold Entry.pkg Entry.sourceNEVR
    cases hsrc : e.source with
    | none => simp
    | some x =>
      obtain ⟨n, v, r⟩ := x
      obtain ⟨hv, hr⟩ := w.src_ok n v r hsrc
      simp only
      rw [if_neg (sourceNEVR_ne_none n v r), splitNEVR_written n v r hv hr]
      rfl
  rw [key a wa, key b wb, h, hs]

theorem packages_exact (es : List Entry) (hw : ∀ e ∈ es, e.WF) (hag : ModulesAgree es)
    (srcs : List (Bytes × Option Src)) (hs : SrcsOk srcs es) (hnone : lookup srcs sNone = some none) :
    packages srcs (es.map Entry.info) = some ((es.filter (fun e => e.name ≠ sGpgPubkey)).map Entry.pkg) := by
  induction es generalizing srcs with
  | nil => rfl
  | cons e es ih =>
    have hag' := List.pairwise_cons.1 hag
    have we := hw e (by simp)
    have ih' := fun srcs hs hn => ih (fun x hx => hw x (List.mem_cons_of_mem _ hx)) hag'.2 srcs hs hn
    simp only [List.map_cons, packages]
    by_cases hk : e.name = sGpgPubkey
    · have : e.info.name = sGpgPubkey := hk
      simp only [this, if_true]
      rw [ih' srcs (fun x hx => hs x (List.mem_cons_of_mem _ hx)) hnone]
      simp [hk]
    · have : ¬ e.info.name = sGpgPubkey := hk
      simp only [this, if_false, we.stream_eq]
      have hinfo : e.info.sourceNEVR = e.sourceNEVR := rfl
      have hpk : ∀ s, s = e.pkg.src → (⟨e.info.name, evr e.info, e.info.arch, e.stream, s⟩ : Pkg) = e.pkg := by
        intro s hs'; subst hs'; rfl
      rw [hinfo]
      cases hl : lookup srcs e.sourceNEVR with
      | some s =>
        have hse := hs e (by simp) s hl
        simp only
        rw [ih' srcs (fun x hx => hs x (List.mem_cons_of_mem _ hx)) hnone]
        simp [hk, hpk s hse]
      | none =>
        simp only
        -- not `(none)`: that key is in the map
        cases hsrc : e.source with
        | none =>
          have : e.sourceNEVR = sNone := by simp [Entry.sourceNEVR, hsrc]
          rw [this, hnone] at hl; cases hl
        | some x =>
          obtain ⟨n, v, r⟩ := x
          obtain ⟨hv, hr⟩ := we.src_ok n v r hsrc
          have hnevr : e.sourceNEVR = n ++ 45 :: (v ++ 45 :: r) ++ sSrcRpm := by simp [Entry.sourceNEVR, hsrc]
          have hsplit := splitNEVR_written n v r hv hr
          rw [← hnevr] at hsplit
          simp only [hsplit]
          have hsrcpkg : e.pkg.src = some ⟨n, trimPrefix [48, 58] (v ++ 45 :: r), e.stream⟩ := by
            simp [Entry.pkg, hsrc]
          rw [ih' _ ?_ ?_]
          · simp [hk, hpk _ hsrcpkg.symm]
          · intro x hx s hlx
            rw [lookup_append] at hlx
            cases hl0 : lookup srcs x.sourceNEVR with
            | some y => rw [hl0] at hlx; simp only [Option.some.injEq] at hlx; subst hlx; exact hs x (List.mem_cons_of_mem _ hx) _ hl0
            | none =>
              rw [hl0] at hlx
              simp only at hlx
              split at hlx
              · rename_i heq
                simp only [Option.some.injEq] at hlx
                subst hlx
                rw [← hsrcpkg]
                exact pkg_src_eq_of_same_nevr e x we (hw x (List.mem_cons_of_mem _ hx)) heq (hag'.1 x hx heq)
              · cases hlx
          · rw [lookup_append, hnone]

end ClairModel.RpmPkg
