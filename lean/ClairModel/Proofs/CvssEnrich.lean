/-
  C18 — what enricher/cvss forwards: the matches of the CVE pattern are CVE
  ids, the query is exactly the ids of the three texts, the cache key
  determines the query (so the per-call cache is transparent), `Enrich` with
  the cache equals its cache-free description, `WriteCVSS` selects exactly the
  items with a `cvssV3` member.
-/
import ClairModel.Model.CvssEnrich
namespace ClairModel.CvssEnrich

/-! ### matches are CVE ids -/

/-- `m` has the form `(?i:cve)[-_][0-9]{4}[-_][0-9]{4,}` -/
def IsCve (m : Bytes) : Prop :=
  ∃ c v e s1 d1 d2 d3 d4 s2 ds, m = c :: v :: e :: s1 :: d1 :: d2 :: d3 :: d4 :: s2 :: ds ∧
    isLetter 99 c = true ∧ isLetter 118 v = true ∧ isLetter 101 e = true ∧ isSep s1 = true ∧
    isDigit d1 = true ∧ isDigit d2 = true ∧ isDigit d3 = true ∧ isDigit d4 = true ∧ isSep s2 = true ∧
    (∀ d ∈ ds, isDigit d = true) ∧ 4 ≤ ds.length

theorem mem_takeWhile' (p : Nat → Bool) : ∀ (l : List Nat) (d : Nat), d ∈ l.takeWhile p → p d = true
  | [], d, h => by simp at h
  | x :: xs, d, h => by
    rw [List.takeWhile_cons] at h
    split at h
    · rename_i hx
      rcases List.mem_cons.1 h with rfl | h
      · exact hx
      · exact mem_takeWhile' p xs d h
    · simp at h

theorem head_dropWhile' (p : Nat → Bool) : ∀ (l : List Nat) (x : Nat), (l.dropWhile p).head? = some x → p x = false
  | [], x, h => by simp at h
  | y :: ys, x, h => by
    rw [List.dropWhile_cons] at h
    split at h
    · exact head_dropWhile' p ys x h
    · rename_i hy
      have : y = x := by simpa using h
      subst this
      simpa using hy

theorem cveAt_sound {s m rest : Bytes} (h : cveAt s = some (m, rest)) :
    IsCve m ∧ s = m ++ rest ∧ (∀ x, rest.head? = some x → isDigit x = false) := by
  unfold cveAt at h
  split at h
  · rename_i c v e s1 d1 d2 d3 d4 s2 r
    split at h
    · rename_i hc
      simp only [Bool.and_eq_true, decide_eq_true_eq] at hc
      simp only [Option.some.injEq, Prod.mk.injEq] at h
      obtain ⟨rfl, rfl⟩ := h
      obtain ⟨⟨⟨⟨⟨⟨⟨⟨⟨h1, h2⟩, h3⟩, h4⟩, h5⟩, h6⟩, h7⟩, h8⟩, h9⟩, h10⟩ := hc
      refine ⟨⟨c, v, e, s1, d1, d2, d3, d4, s2, r.takeWhile isDigit, rfl, h1, h2, h3, h4, h5, h6, h7, h8, h9, ?_, h10⟩, ?_, ?_⟩
      · intro d hd
        exact mem_takeWhile' isDigit r d hd
      · simp [List.takeWhile_append_dropWhile]
      · intro x hx
        exact head_dropWhile' isDigit r x hx
    · simp at h
  · simp at h

/-- every string `FindAllString` reports has the form of the pattern -/
theorem findAllFuel_sound : ∀ (fuel : Nat) (s : Bytes), ∀ m ∈ findAllFuel fuel s, IsCve m
  | 0, _, m, h => by simp [findAllFuel] at h
  | _ + 1, [], m, h => by simp [findAllFuel] at h
  | fuel + 1, c :: cs, m, h => by
    unfold findAllFuel at h
    split at h
    · rename_i m' rest hat
      rcases List.mem_cons.1 h with rfl | h
      · exact (cveAt_sound hat).1
      · exact findAllFuel_sound fuel rest m h
    · exact findAllFuel_sound fuel cs m h

theorem findAll_sound (s : Bytes) : ∀ m ∈ findAll s, IsCve m := findAllFuel_sound _ s

/-! ### the query: sorted, no duplicates, only ids of the text -/

theorem mem_insertSorted (x y : Bytes) : ∀ l : List Bytes, y ∈ insertSorted x l ↔ y = x ∨ y ∈ l
  | [] => by simp [insertSorted]
  | z :: zs => by
    unfold insertSorted
    split
    · rename_i e
      subst e
      simp only [List.mem_cons]
      constructor
      · intro h; exact Or.inr h
      · intro h
        rcases h with h | h
        · exact Or.inl h
        · exact h
    · split
      · simp [List.mem_cons]
      · simp only [List.mem_cons, mem_insertSorted x y zs]
        constructor
        · rintro (h | h | h)
          · exact Or.inr (Or.inl h)
          · exact Or.inl h
          · exact Or.inr (Or.inr h)
        · rintro (h | h | h)
          · exact Or.inr (Or.inl h)
          · exact Or.inl h
          · exact Or.inr (Or.inr h)

theorem mem_foldl_insert (y : Bytes) : ∀ (xs acc : List Bytes),
    y ∈ xs.foldl (fun acc x => insertSorted x acc) acc ↔ y ∈ xs ∨ y ∈ acc
  | [], acc => by simp
  | x :: xs, acc => by
    simp only [List.foldl_cons, mem_foldl_insert y xs, mem_insertSorted, List.mem_cons]
    constructor
    · rintro (h | h | h)
      · exact Or.inl (Or.inr h)
      · exact Or.inl (Or.inl h)
      · exact Or.inr h
    · rintro ((h | h) | h)
      · exact Or.inr (Or.inl h)
      · exact Or.inl h
      · exact Or.inr (Or.inr h)

/-- the query holds exactly the ids found in the three texts -/
theorem mem_tagsOf (v : Vuln) (t : Bytes) : t ∈ tagsOf v ↔ ∃ txt ∈ v.texts, t ∈ findAll txt := by
  simp [tagsOf, sortDedup, mem_foldl_insert, List.mem_flatMap]

theorem tagsOf_isCve (v : Vuln) : ∀ t ∈ tagsOf v, IsCve t := by
  intro t ht
  obtain ⟨txt, _, h⟩ := (mem_tagsOf v t).1 ht
  exact findAll_sound txt t h

/-! ### the cache key determines the query -/

theorem isCve_split {t : Bytes} (h : IsCve t) : ∃ h9 ds, t = h9 ++ ds ∧ h9.length = 9 ∧ (∀ d ∈ ds, isDigit d = true) ∧ ds ≠ [] := by
  obtain ⟨c, v, e, s1, d1, d2, d3, d4, s2, ds, rfl, _, _, _, _, _, _, _, _, _, hd, hl⟩ := h
  refine ⟨[c, v, e, s1, d1, d2, d3, d4, s2], ds, rfl, rfl, hd, ?_⟩
  intro e; rw [e] at hl; simp at hl

/-- the first id of a key: nine bytes and the digits that follow -/
def firstTag (key : Bytes) : Bytes := key.take 9 ++ (key.drop 9).takeWhile isDigit

theorem firstTag_alone {t : Bytes} (h : IsCve t) : firstTag t = t := by
  obtain ⟨h9, ds, rfl, hl, hd, _⟩ := isCve_split h
  have h1 : (h9 ++ ds).take 9 = h9 := by rw [← hl]; simp
  have h2 : (h9 ++ ds).drop 9 = ds := by rw [← hl]; simp
  rw [firstTag, h1, h2]
  have : ds.takeWhile isDigit = ds := by
    have := List.takeWhile_append_of_pos (p := isDigit) (l₁ := ds) (l₂ := []) hd
    simpa using this
  rw [this]

theorem firstTag_joined {t : Bytes} (h : IsCve t) (r : Bytes) : firstTag (t ++ 95 :: r) = t := by
  obtain ⟨h9, ds, rfl, hl, hd, _⟩ := isCve_split h
  have h1 : (h9 ++ ds ++ 95 :: r).take 9 = h9 := by rw [List.append_assoc, ← hl]; simp
  have h2 : (h9 ++ ds ++ 95 :: r).drop 9 = ds ++ 95 :: r := by rw [List.append_assoc, ← hl]; simp
  rw [firstTag, h1, h2, List.takeWhile_append_of_pos hd]
  have : (95 :: r).takeWhile isDigit = [] := by simp [isDigit]
  rw [this]; simp

theorem joinKey_cons (t : Bytes) (r : List Bytes) : joinKey (t :: r) = if r = [] then t else t ++ 95 :: joinKey r := by
  cases r <;> simp [joinKey]

theorem joinKey_cons_ne_nil {t : Bytes} (ht : IsCve t) (r : List Bytes) : joinKey (t :: r) ≠ [] := by
  obtain ⟨h9, ds, rfl, hl, _, hne⟩ := isCve_split ht
  rw [joinKey_cons]
  split <;> simp [hne]

/-- `strings.Join(ts, "_")` is injective on lists of CVE ids: an underscore
    inside an id is followed by a digit, the joining one by a letter -/
theorem joinKey_inj : ∀ (a b : List Bytes), (∀ t ∈ a, IsCve t) → (∀ t ∈ b, IsCve t) → joinKey a = joinKey b → a = b
  | [], [], _, _, _ => rfl
  | [], t :: r, _, hb, h => absurd h.symm (joinKey_cons_ne_nil (hb t (by simp)) r)
  | t :: r, [], ha, _, h => absurd h (joinKey_cons_ne_nil (ha t (by simp)) r)
  | t :: r, t' :: r', ha, hb, h => by
    have ht := ha t (by simp)
    have ht' := hb t' (by simp)
    have f1 : firstTag (joinKey (t :: r)) = t := by
      rw [joinKey_cons]; split
      · exact firstTag_alone ht
      · exact firstTag_joined ht _
    have f2 : firstTag (joinKey (t' :: r')) = t' := by
      rw [joinKey_cons]; split
      · exact firstTag_alone ht'
      · exact firstTag_joined ht' _
    have e : t = t' := by rw [← f1, ← f2, h]
    subst e
    rw [joinKey_cons, joinKey_cons] at h
    by_cases hr : r = [] <;> by_cases hr' : r' = []
    · rw [hr, hr']
    · exfalso
      simp only [hr, hr', if_true, if_false] at h
      have := congrArg List.length h
      simp at this
    · exfalso
      simp only [hr, hr', if_true, if_false] at h
      have := congrArg List.length h
      simp at this
    · simp only [hr, hr', if_false] at h
      have h' := List.append_cancel_left h
      have h'' : joinKey r = joinKey r' := by simpa using h'
      rw [joinKey_inj r r' (fun x hx => ha x (List.mem_cons_of_mem _ hx)) (fun x hx => hb x (List.mem_cons_of_mem _ hx)) h'']

/-! ### the per-call cache is transparent -/

/-- every cached answer is the getter's answer to the query the key stands for -/
def CacheOk (g : Getter) (cache : List (Bytes × List Rec)) : Prop :=
  ∀ ts recs, (∀ t ∈ ts, IsCve t) → lookupKey cache (joinKey ts) = some recs → g ts = some recs

theorem enrichLoop_spec (g : Getter) : ∀ (vs : List Vuln) (st : EnrichState), CacheOk g st.cache →
    (enrichLoop g vs st).map (·.out) = (enrichSpec g vs).map (st.out ++ ·)
  | [], st, _ => by simp [enrichLoop, enrichSpec]
  | v :: vs, st, hc => by
    unfold enrichLoop enrichSpec enrichStep
    simp only []
    by_cases he : (tagsOf v).isEmpty = true
    · simp only [he, if_true]
      exact enrichLoop_spec g vs st hc
    · simp only [he, if_false, Bool.false_eq_true]
      have hcve := tagsOf_isCve v
      cases hl : lookupKey st.cache (joinKey (tagsOf v)) with
      | some recs =>
        have hg := hc _ _ hcve hl
        simp only [hg]
        have ih := enrichLoop_spec g vs { st with out := if recs.isEmpty then st.out else st.out ++ [(v.id, recs.map (·.blob))] } hc
        rw [ih]
        cases enrichSpec g vs with
        | none => rfl
        | some rest =>
          by_cases hr : recs.isEmpty = true <;> simp [hr]
      | none =>
        cases hg : g (tagsOf v) with
        | none => simp
        | some recs =>
          have hc' : CacheOk g ((joinKey (tagsOf v), recs) :: st.cache) := by
            intro ts recs' hts hlk
            unfold lookupKey at hlk
            split at hlk
            · rename_i e
              have := joinKey_inj _ _ hcve hts e
              rw [← this, hg, ← Option.some.inj hlk]
            · exact hc ts recs' hts hlk
          have ih := enrichLoop_spec g vs
            { cache := (joinKey (tagsOf v), recs) :: st.cache, calls := st.calls ++ [joinKey (tagsOf v)],
              out := if recs.isEmpty then st.out else st.out ++ [(v.id, recs.map (·.blob))] } hc'
          simp only []
          rw [ih]
          cases enrichSpec g vs with
          | none => rfl
          | some rest =>
            by_cases hr : recs.isEmpty = true <;> simp [hr]

/-- `Enrich` with its per-call cache forwards exactly what the cache-free
    description says: under every vulnerability id the blobs of the getter's
    answer to the sorted, duplicate-free CVE ids of its Description, Name and
    Links; nothing for a vulnerability without an id or an empty answer; an
    error iff some query fails -/
theorem enrich_eq_spec (g : Getter) (vs : List Vuln) : (enrich g vs).map (·.out) = enrichSpec g vs := by
  have := enrichLoop_spec g vs ⟨[], [], []⟩ (by intro ts recs _ h; simp [lookupKey] at h)
  rw [enrich, this]
  cases enrichSpec g vs <;> simp

/-! ### the feed -/

/-- `WriteCVSS` forwards exactly the items that carry a `cvssV3` member, with
    that member as the enrichment and the item's id as its tag; an item with
    v2 metrics only contributes nothing -/
theorem mem_writeCVSS (items : List Item) (id raw : Bytes) :
    (id, raw) ∈ writeCVSS items ↔ ∃ it ∈ items, it.id = id ∧ it.v3 = some raw := by
  simp only [writeCVSS, List.mem_filterMap]
  constructor
  · rintro ⟨it, hit, h⟩
    cases hv : it.v3 with
    | none => simp [hv] at h
    | some r =>
      simp only [hv, Option.map_some, Option.some.injEq, Prod.mk.injEq] at h
      exact ⟨it, hit, h.1, by rw [hv, h.2]⟩
  · rintro ⟨it, hit, h1, h2⟩
    exact ⟨it, hit, by simp [h2, h1]⟩

end ClairModel.CvssEnrich
