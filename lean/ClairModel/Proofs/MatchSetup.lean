/-
  C05 — which matchers a scan runs: proofs about `newMatchers`, `libvulnNew`
  and the independence of `enrichedMatch` from the order of the matcher slice.
-/
import ClairModel.Proofs.Match
import ClairModel.Model.MatchSetup

namespace ClairModel.MatchSetup
open ClairModel.Match

/-! ### helpers -/

theorem mem_withEnabled {μ : Type} {en : Option (List String)} {reg : List (Factory μ)} {f : Factory μ} :
    f ∈ withEnabled en reg ↔ f ∈ reg ∧ enabledBy en f.name = true := by
  simp [withEnabled, List.mem_filter]

theorem mem_contribution {μ : Type} {cfgs : List String} {f : Factory μ} {m : μ} :
    m ∈ contribution cfgs f ↔ ∃ l, f.build (configured cfgs f) = some l ∧ m ∈ l := by
  unfold contribution
  cases hb : f.build (configured cfgs f) with
  | none => simp
  | some l => simp

theorem configureFails_iff {μ : Type} {fs : List (Factory μ)} {cfgs : List String} :
    configureFails fs cfgs = true ↔
      ∃ f ∈ fs, f.configurable = true ∧ cfgs.contains f.name = true ∧ f.configureOk = false := by
  unfold configureFails configured
  simp only [List.any_eq_true, Bool.and_eq_true, Bool.not_eq_true']
  constructor
  · rintro ⟨f, hf, ⟨h1, h2⟩, h3⟩; exact ⟨f, hf, h1, h2, h3⟩
  · rintro ⟨f, hf, h1, h2, h3⟩; exact ⟨f, hf, ⟨h1, h2⟩, h3⟩

theorem any_perm {α : Type} {l l' : List α} (hp : l.Perm l') (p : α → Bool) : l.any p = l'.any p := by
  rw [Bool.eq_iff_iff]
  simp only [List.any_eq_true]
  exact ⟨fun ⟨x, hx, h⟩ => ⟨x, hp.mem_iff.1 hx, h⟩, fun ⟨x, hx, h⟩ => ⟨x, hp.mem_iff.2 hx, h⟩⟩

theorem newMatchers_eq_some {μ : Type} {reg : List (Factory μ)} {en : Option (List String)} {cfgs : List String}
    {oot ms : List μ} (h : newMatchers reg en cfgs oot = some ms) :
    configureFails (withEnabled en reg) cfgs = false ∧
      ms = (withEnabled en reg).flatMap (contribution cfgs) ++ oot := by
  unfold newMatchers at h
  cases hc : configureFails (withEnabled en reg) cfgs with
  | true => simp [hc] at h
  | false =>
    simp only [hc, Bool.false_eq_true, if_false, Option.some.injEq] at h
    exact ⟨rfl, h.symm⟩

/-! ### `matchers.NewMatchers` -/

/-- exactly which matchers are constructed -/
theorem mem_newMatchers {μ : Type} {reg : List (Factory μ)} {en : Option (List String)} {cfgs : List String}
    {oot ms : List μ} (h : newMatchers reg en cfgs oot = some ms) (m : μ) :
    m ∈ ms ↔ m ∈ oot ∨ ∃ f ∈ reg, enabledBy en f.name = true ∧
      ∃ l, f.build (configured cfgs f) = some l ∧ m ∈ l := by
  obtain ⟨_, rfl⟩ := newMatchers_eq_some h
  rw [List.mem_append, List.mem_flatMap]
  constructor
  · rintro (⟨f, hf, hm⟩ | ho)
    · obtain ⟨hr, he⟩ := mem_withEnabled.1 hf
      exact Or.inr ⟨f, hr, he, mem_contribution.1 hm⟩
    · exact Or.inl ho
  · rintro (ho | ⟨f, hr, he, hl⟩)
    · exact Or.inr ho
    · exact Or.inl ⟨f, mem_withEnabled.2 ⟨hr, he⟩, mem_contribution.2 hl⟩

/-- when exactly construction fails: an enabled, configurable factory with a config block whose Configure fails -/
theorem newMatchers_none_iff {μ : Type} (reg : List (Factory μ)) (en : Option (List String)) (cfgs : List String)
    (oot : List μ) :
    newMatchers reg en cfgs oot = none ↔
      ∃ f ∈ reg, enabledBy en f.name = true ∧ f.configurable = true ∧ cfgs.contains f.name = true ∧ f.configureOk = false := by
  cases hc : configureFails (withEnabled en reg) cfgs with
  | true =>
    simp only [newMatchers, hc, if_true, true_iff]
    obtain ⟨f, hf, h1, h2, h3⟩ := configureFails_iff.1 hc
    obtain ⟨hr, he⟩ := mem_withEnabled.1 hf
    exact ⟨f, hr, he, h1, h2, h3⟩
  | false =>
    simp only [newMatchers, hc, Bool.false_eq_true, if_false, reduceCtorEq, false_iff]
    rintro ⟨f, hr, he, h1, h2, h3⟩
    have := configureFails_iff.2 ⟨f, mem_withEnabled.2 ⟨hr, he⟩, h1, h2, h3⟩
    rw [hc] at this; cases this

/-- `MatcherNames = []` (non-nil, empty): only the out-of-tree matchers run -/
theorem newMatchers_enabled_nil {μ : Type} (reg : List (Factory μ)) (cfgs : List String) (oot : List μ) :
    newMatchers reg (some []) cfgs oot = some oot := by
  have hw : withEnabled (some []) reg = [] := by
    unfold withEnabled
    rw [List.filter_eq_nil_iff]
    intro f _
    simp [enabledBy]
  unfold newMatchers
  simp [hw, configureFails]

/-- the iteration order of the registry map is irrelevant up to the order of the result -/
theorem newMatchers_perm {μ : Type} {reg reg' : List (Factory μ)} (hp : reg.Perm reg') (en : Option (List String))
    (cfgs : List String) (oot : List μ) :
    ((newMatchers reg en cfgs oot).isSome = (newMatchers reg' en cfgs oot).isSome) ∧
      ∀ a b, newMatchers reg en cfgs oot = some a → newMatchers reg' en cfgs oot = some b → a.Perm b := by
  have hw : (withEnabled en reg).Perm (withEnabled en reg') := hp.filter _
  have hc : configureFails (withEnabled en reg) cfgs = configureFails (withEnabled en reg') cfgs :=
    any_perm hw _
  constructor
  · simp only [newMatchers, hc]
    cases configureFails (withEnabled en reg') cfgs <;> simp
  · intro a b ha hb
    obtain ⟨_, rfl⟩ := newMatchers_eq_some ha
    obtain ⟨_, rfl⟩ := newMatchers_eq_some hb
    exact List.Perm.append_right _ (hw.flatMap_right _)

/-! ### `libvuln.New` -/

theorem libvulnNew_some {μ : Type} {reg : List (Factory μ)} {o : Options μ} {ms : List μ}
    (h : libvulnNew reg o = some ms) :
    o.hasStore = true ∧ o.hasClient = true ∧ (o.updateRetention = 0 ∨ 2 ≤ o.updateRetention) ∧
      newMatchers reg o.matcherNames o.matcherConfigs o.matchers = some ms := by
  unfold libvulnNew at h
  cases hs : o.hasStore with
  | false => simp [hs] at h
  | true =>
    by_cases hr : (o.updateRetention == 1 || decide (o.updateRetention < 0)) = true
    · simp [hs, hr] at h
    · cases hcl : o.hasClient with
      | false => simp [hs, hr, hcl] at h
      | true =>
        simp only [hs, hr, hcl, Bool.not_true, Bool.false_eq_true, if_false] at h
        refine ⟨rfl, rfl, ?_, h⟩
        simp only [Bool.or_eq_true, beq_iff_eq, decide_eq_true_eq, not_or] at hr
        omega

theorem libvulnNew_none_iff {μ : Type} (reg : List (Factory μ)) (o : Options μ) :
    libvulnNew reg o = none ↔
      (o.hasStore = false ∨ o.hasClient = false ∨ o.updateRetention = 1 ∨ o.updateRetention < 0 ∨
        newMatchers reg o.matcherNames o.matcherConfigs o.matchers = none) := by
  unfold libvulnNew
  cases hs : o.hasStore with
  | false => simp
  | true =>
    by_cases hr : (o.updateRetention == 1 || decide (o.updateRetention < 0)) = true
    · have hr' := hr
      simp only [Bool.or_eq_true, beq_iff_eq, decide_eq_true_eq] at hr'
      simp only [Bool.not_true, Bool.false_eq_true, if_false, hr, if_true, true_iff]
      rcases hr' with h | h
      · exact Or.inr (Or.inr (Or.inl h))
      · exact Or.inr (Or.inr (Or.inr (Or.inl h)))
    · have hr' := hr
      simp only [Bool.or_eq_true, beq_iff_eq, decide_eq_true_eq, not_or] at hr'
      cases hcl : o.hasClient with
      | false => simp [hr]
      | true =>
        simp only [Bool.not_true, Bool.false_eq_true, if_false, hr, reduceCtorEq, false_or]
        constructor
        · intro h; exact Or.inr (Or.inr h)
        · rintro (h | h | h)
          · exact absurd h hr'.1
          · exact absurd h hr'.2
          · exact h

/-! ### `EnrichedMatch` and the order of the matcher slice -/

/-- local copy of `collect_perm` (Props/C05.lean), first two components -/
theorem collect_perm' (e₁ e₂ : List (Nat × Vuln)) (hp : e₁.Perm e₂) (hf : IdFunctional e₁) :
    (∀ id, find id (collect e₁).vulns = find id (collect e₂).vulns) ∧
    (∀ pkg, (getL pkg (collect e₁).pkgVulns).Perm (getL pkg (collect e₂).pkgVulns)) := by
  refine ⟨fun id => ?_, fun pkg => ?_⟩
  · rw [collect_vuln, collect_vuln]; exact lastWith_perm hp hf id
  · rw [collect_pkg, collect_pkg]; exact (hp.filter _).map _

theorem runAll_perm {c : Bool} {store : Store} {ms ms' : List Matcher} (recs : List Record)
    (hp : ms.Perm ms') : (runAll c store ms recs).Perm (runAll c store ms' recs) :=
  hp.map _

/-- `EnrichedMatch` does not depend on the order of the matcher slice: same success, same table,
    same ids under every package up to order (ids functional, as for `collect_perm`). -/
theorem enrichedMatch_perm {c : Bool} {store : Store} {ms ms' : List Matcher} (es : List Enricher) {recs : List Record}
    (hp : ms.Perm ms') (hf : IdFunctional (((runAll false store ms recs).filterMap id).flatMap events)) :
    ((enrichedMatch c store ms es recs).isSome = (enrichedMatch c store ms' es recs).isSome) ∧
      ∀ r em r' em', enrichedMatch c store ms es recs = some (r, em) →
        enrichedMatch c store ms' es recs = some (r', em') →
        (∀ id, find id r.vulns = find id r'.vulns) ∧
        (∀ pkg, (getL pkg r.pkgVulns).Perm (getL pkg r'.pkgVulns)) := by
  have hr : (runAll false store ms recs).Perm (runAll false store ms' recs) := runAll_perm recs hp
  have h1 : (runAll false store ms recs).any Option.isNone = (runAll false store ms' recs).any Option.isNone :=
    any_perm hr _
  have h2 : ms.any (fun m => m.cancelsAtGet && reachesGet m recs) =
      ms'.any (fun m => m.cancelsAtGet && reachesGet m recs) := any_perm hp _
  constructor
  · unfold enrichedMatch
    cases c with
    | true => simp
    | false =>
      simp only [Bool.false_eq_true, if_false]
      rw [h1, h2]
      cases (runAll false store ms' recs).any Option.isNone <;>
        cases ms'.any (fun m => m.cancelsAtGet && reachesGet m recs) <;> simp
  · intro r em r' em' ha hb
    obtain ⟨_, _, _, rfl, _⟩ := enrichedMatch_some ha
    obtain ⟨_, _, _, rfl, _⟩ := enrichedMatch_some hb
    have hpo : ((runAll false store ms recs).filterMap id).Perm ((runAll false store ms' recs).filterMap id) :=
      hr.filterMap _
    exact collect_perm' _ _ (hpo.flatMap_right events) hf

end ClairModel.MatchSetup
