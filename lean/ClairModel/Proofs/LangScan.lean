/-
  Lemmas about Model/LangScan.lean.

  nodejs: a `package.json` directly below a `node_modules/<name>/` directory is
  picked, one outside any `node_modules/` is not, a whiteout is not.

  ruby: the assignment expression `^\S+\.\s*name\s*=\s*(\S+)$` on lines of the
  shape `<var>.<word> = <value>`, the `trim` of quoted values (`"x"`, `'x'`,
  `"x".freeze`), one line of the loop, and a whole gemspec with a name line and
  a version line (either order) among lines that change nothing.

  Core Lean only.
-/
import ClairModel.Model.LangScan
import ClairModel.Proofs.PyMeta
import ClairModel.Proofs.OsRelease

set_option autoImplicit false

namespace ClairModel.LangScan
open ClairModel.Bytes
open ClairModel.Apk (trimSpace trimLeft trimRight isSpace)
open ClairModel.OsRelease (scanLines joinNl scanLines_joinNl splitOn_joinNl NotEndsWith)
open ClairModel.PyMeta (isPrefix_append splitOn_append')

/-! ### prefixes, suffixes, substrings -/

theorem isSuffix_append (a suf : Bytes) : isSuffix suf (a ++ suf) = true := by
  simp [isSuffix, isPrefix_append]

theorem isSuffix_last_ne (suf p : Bytes) (x y : Nat) (hxy : x ≠ y) :
    isSuffix (suf ++ [x]) (p ++ [y]) = false := by
  simp [isSuffix, isPrefix, hxy]

/-- the base name of `a/b` is `b` when `b` has no slash -/
theorem lastComp_append (a b : Bytes) (h : 47 ∉ b) : lastComp (a ++ 47 :: b) = b := by
  unfold lastComp
  rw [splitOn_append', splitOn_no_sep 47 b h]
  simp

theorem indexFrom_of_isPrefix (n s : Bytes) (i : Nat) (h : isPrefix n s = true) :
    indexFrom n s i = some i := by
  cases s with
  | nil =>
    cases n with
    | nil => rfl
    | cons c cs => simp [isPrefix] at h
  | cons c cs => simp [indexFrom, h]

theorem indexFrom_append (n a b : Bytes) (i : Nat) : (indexFrom n (a ++ (n ++ b)) i).isSome = true := by
  induction a generalizing i with
  | nil => simp [indexFrom_of_isPrefix n (n ++ b) i (isPrefix_append n b)]
  | cons c cs ih =>
    simp only [List.cons_append, indexFrom]
    split
    · rfl
    · exact ih (i + 1)

/-- a string contains each of its substrings -/
theorem contains_append (a n b : Bytes) : contains (a ++ n ++ b) n = true := by
  unfold contains index
  rw [List.append_assoc]
  exact indexFrom_append n a b 0

/-! ### nodejs -/

theorem asc_slash_package_json : asc "/package.json" = 47 :: asc "package.json" := by decide

/-- `<dir>node_modules/<name>/package.json` is picked -/
theorem nodePick_written (dir name : Bytes) :
    nodePick (dir ++ asc "node_modules/" ++ name ++ asc "/package.json") = true := by
  have h1 : lastComp (dir ++ asc "node_modules/" ++ name ++ asc "/package.json") = asc "package.json" := by
    rw [asc_slash_package_json]; exact lastComp_append _ _ (by decide)
  have h2 : contains (dir ++ asc "node_modules/" ++ name ++ asc "/package.json") (asc "node_modules/") = true := by
    rw [List.append_assoc (dir ++ asc "node_modules/")]; exact contains_append _ _ _
  have h3 := isSuffix_append (dir ++ asc "node_modules/" ++ name) (asc "/package.json")
  unfold nodePick
  rw [h1, h2, h3]
  decide

/-- a `package.json` outside any `node_modules/` (the application's own manifest) is not picked -/
theorem nodePick_outside (p : Bytes) (h : contains p (asc "node_modules/") = false) : nodePick p = false := by
  simp [nodePick, h]

theorem asc_whiteout : asc "node_modules/.wh.package.json" = asc "node_modules" ++ 47 :: asc ".wh.package.json" := by
  decide

/-- the whiteout of a `package.json` is not picked -/
theorem nodePick_whiteout (dir : Bytes) : nodePick (dir ++ asc "node_modules/.wh.package.json") = false := by
  have h1 : lastComp (dir ++ asc "node_modules/.wh.package.json") = asc ".wh.package.json" := by
    rw [asc_whiteout, ← List.append_assoc]; exact lastComp_append _ _ (by decide)
  have h2 : isPrefix (asc ".wh.") (asc ".wh.package.json") = true := by decide
  simp [nodePick, h1, h2]

/-! ### ruby: white space runs -/

theorem dropWhile_head (p : Nat → Bool) (c : Nat) (cs : Bytes) (h : p c = false) :
    (c :: cs).dropWhile p = c :: cs := by
  simp [h]

theorem dropWhile_pad (p : Nat → Bool) (pad rest : Bytes) (hp : ∀ c ∈ pad, p c = true) :
    (pad ++ rest).dropWhile p = rest.dropWhile p := by
  induction pad with
  | nil => rfl
  | cons c cs ih =>
    have hc := hp c (List.mem_cons_self ..)
    simp only [List.cons_append, List.dropWhile_cons, hc, if_true]
    exact ih (fun x hx => hp x (List.mem_cons_of_mem _ hx))

theorem dropWhile_ne (p : Nat → Bool) (s : Bytes) (h : ∀ c ∈ s, p c = false) : s.dropWhile p = s := by
  cases s with
  | nil => rfl
  | cons c cs => exact dropWhile_head p c cs (h c (List.mem_cons_self ..))

/-! ### ruby: after the dot -/

/-- `<word><pad>=<pad><value>` after the dot captures the value -/
theorem afterDot_written (word pad1 pad2 val : Bytes)
    (hw : word ≠ [] ∧ ∀ c ∈ word, isSp c = false)
    (h1 : ∀ c ∈ pad1, isSp c = true) (h2 : ∀ c ∈ pad2, isSp c = true)
    (hv : val ≠ [] ∧ ∀ c ∈ val, isSp c = false) :
    afterDot word (word ++ pad1 ++ 61 :: (pad2 ++ val)) = some val := by
  obtain ⟨hwne, hws⟩ := hw
  obtain ⟨hvne, hvs⟩ := hv
  have e1 : (word ++ pad1 ++ 61 :: (pad2 ++ val)).dropWhile isSp = word ++ pad1 ++ 61 :: (pad2 ++ val) := by
    cases word with
    | nil => exact absurd rfl hwne
    | cons c cs => exact dropWhile_head _ _ _ (hws c (List.mem_cons_self ..))
  have e2 : isPrefix word (word ++ pad1 ++ 61 :: (pad2 ++ val)) = true := by
    rw [List.append_assoc]; exact isPrefix_append _ _
  have e3 : (word ++ pad1 ++ 61 :: (pad2 ++ val)).drop word.length = pad1 ++ 61 :: (pad2 ++ val) := by
    rw [List.append_assoc]; simp
  have e4 : (pad1 ++ 61 :: (pad2 ++ val)).dropWhile isSp = 61 :: (pad2 ++ val) := by
    rw [dropWhile_pad _ _ _ h1]; exact dropWhile_head _ _ _ (by decide)
  have e5 : (pad2 ++ val).dropWhile isSp = val := by
    rw [dropWhile_pad _ _ _ h2]; exact dropWhile_ne _ _ hvs
  have e6 : val.all (fun c => !isSp c) = true := by
    simp only [List.all_eq_true]; intro c hc; simp [hvs c hc]
  have e7 : val.isEmpty = false := by cases val <;> simp_all
  unfold afterDot
  simp only [e1, e2, e3, e4, e5, e6, e7]
  simp

/-- another word after the dot: no match -/
theorem afterDot_other (word s : Bytes) (c : Nat) (cs : Bytes) (hs : s = c :: cs) (hc : isSp c = false)
    (hp : isPrefix word s = false) : afterDot word s = none := by
  subst hs
  unfold afterDot
  simp only [dropWhile_head _ _ _ hc, hp]
  simp

/-! ### ruby: the walk to the dot -/

theorem go_cons (word : Bytes) (b : Bool) (c : Nat) (cs : Bytes) :
    matchAssign.go word b (c :: cs) =
      if isSp c then none
      else
        match matchAssign.go word true cs with
        | some v => some v
        | none => if c == 46 && b then afterDot word cs else none := by
  rw [matchAssign.go]; rfl

theorem go_nil (word : Bytes) (b : Bool) : matchAssign.go word b [] = none := by
  rw [matchAssign.go]

theorem go_sp (word : Bytes) (b : Bool) (c : Nat) (cs : Bytes) (hc : isSp c = true) :
    matchAssign.go word b (c :: cs) = none := by
  rw [go_cons]; simp [hc]

/-- a byte that is neither white space nor a dot is walked over -/
theorem go_plain (word : Bytes) (b : Bool) (c : Nat) (cs : Bytes) (hc : isSp c = false) (hd : c ≠ 46) :
    matchAssign.go word b (c :: cs) = matchAssign.go word true cs := by
  rw [go_cons]
  simp only [hc, Bool.false_eq_true, if_false]
  have : (c == 46) = false := by simp [hd]
  simp only [this, Bool.false_and, Bool.false_eq_true, if_false]
  cases matchAssign.go word true cs <;> rfl

theorem go_run (word u rest : Bytes) (hu : ∀ c ∈ u, isSp c = false ∧ c ≠ 46) :
    matchAssign.go word true (u ++ rest) = matchAssign.go word true rest := by
  induction u with
  | nil => rfl
  | cons c cs ih =>
    have hc := hu c (List.mem_cons_self ..)
    rw [List.cons_append, go_plain word true c _ hc.1 hc.2]
    exact ih (fun x hx => hu x (List.mem_cons_of_mem _ hx))

theorem go_run_ne (word u rest : Bytes) (b : Bool) (hne : u ≠ []) (hu : ∀ c ∈ u, isSp c = false ∧ c ≠ 46) :
    matchAssign.go word b (u ++ rest) = matchAssign.go word true rest := by
  cases u with
  | nil => exact absurd rfl hne
  | cons c cs =>
    have hc := hu c (List.mem_cons_self ..)
    rw [List.cons_append, go_plain word b c _ hc.1 hc.2]
    exact go_run word cs rest (fun x hx => hu x (List.mem_cons_of_mem _ hx))

/-- a dot with something before it and no match further right -/
theorem go_dot (word cs : Bytes) (h : matchAssign.go word true cs = none) :
    matchAssign.go word true (46 :: cs) = afterDot word cs := by
  rw [go_cons, h]
  rfl

/-- the leading run of non-space bytes has no dot: no match -/
theorem go_nodot (word u rest : Bytes) (b : Bool) (hu : ∀ c ∈ u, isSp c = false ∧ c ≠ 46)
    (hr : rest = [] ∨ ∃ c cs, rest = c :: cs ∧ isSp c = true) : matchAssign.go word b (u ++ rest) = none := by
  have hrest : ∀ b', matchAssign.go word b' rest = none := by
    intro b'
    rcases hr with rfl | ⟨c, cs, rfl, hc⟩
    · exact go_nil word b'
    · exact go_sp word b' c cs hc
  cases u with
  | nil => exact hrest b
  | cons c cs => rw [go_run_ne word (c :: cs) rest b (by simp) hu]; exact hrest true

/-- what is right of the dot of `<var>.<word><pad>=...` has no dot in its leading run -/
theorem go_after_word (word pad1 rest : Bytes) (w : Bytes)
    (hw : ∀ c ∈ word, isSp c = false ∧ c ≠ 46) (hp1 : pad1 ≠ []) (h1 : ∀ c ∈ pad1, isSp c = true) :
    matchAssign.go w true (word ++ pad1 ++ rest) = none := by
  rw [List.append_assoc]
  apply go_nodot w word (pad1 ++ rest) true hw
  cases pad1 with
  | nil => exact absurd rfl hp1
  | cons c cs => exact Or.inr ⟨c, cs ++ rest, rfl, h1 c (List.mem_cons_self ..)⟩

/-- `<var>.<word> = <value>`: the whole line matches and the value is captured -/
theorem matchAssign_written (word var pad1 pad2 val : Bytes)
    (hvar : var ≠ [] ∧ ∀ c ∈ var, isSp c = false ∧ c ≠ 46)
    (hw : word ≠ [] ∧ ∀ c ∈ word, isSp c = false ∧ c ≠ 46)
    (h1 : pad1 ≠ [] ∧ ∀ c ∈ pad1, isSp c = true) (h2 : ∀ c ∈ pad2, isSp c = true)
    (hv : val ≠ [] ∧ ∀ c ∈ val, isSp c = false) :
    matchAssign word (var ++ 46 :: (word ++ pad1 ++ 61 :: (pad2 ++ val))) = some val := by
  unfold matchAssign
  rw [go_run_ne word var _ false hvar.1 hvar.2,
    go_dot word _ (go_after_word word pad1 _ word hw.2 h1.1 h1.2)]
  exact afterDot_written word pad1 pad2 val ⟨hw.1, fun c hc => (hw.2 c hc).1⟩ h1.2 h2 hv

/-- the line assigns `word'`; asked for a `word` that is no prefix of what follows the dot: no match -/
theorem matchAssign_other_word (word word' var pad1 rest : Bytes)
    (hvar : var ≠ [] ∧ ∀ c ∈ var, isSp c = false ∧ c ≠ 46)
    (hw : word' ≠ [] ∧ ∀ c ∈ word', isSp c = false ∧ c ≠ 46)
    (h1 : pad1 ≠ [] ∧ ∀ c ∈ pad1, isSp c = true)
    (hp : isPrefix word (word' ++ pad1 ++ rest) = false) :
    matchAssign word (var ++ 46 :: (word' ++ pad1 ++ rest)) = none := by
  unfold matchAssign
  rw [go_run_ne word var _ false hvar.1 hvar.2,
    go_dot word _ (go_after_word word' pad1 _ word hw.2 h1.1 h1.2)]
  cases hword : word' with
  | nil => exact absurd hword hw.1
  | cons c cs =>
    subst hword
    exact afterDot_other word _ c (cs ++ pad1 ++ rest) rfl (hw.2 c (List.mem_cons_self ..)).1 hp

theorem asc_name : asc "name" = [110, 97, 109, 101] := by decide
theorem asc_version : asc "version" = [118, 101, 114, 115, 105, 111, 110] := by decide

theorem name_plain : asc "name" ≠ [] ∧ ∀ c ∈ asc "name", isSp c = false ∧ c ≠ 46 := by decide
theorem version_plain : asc "version" ≠ [] ∧ ∀ c ∈ asc "version", isSp c = false ∧ c ≠ 46 := by decide

/-- a `version` line does not match `name` -/
theorem matchAssign_name_on_version (var pad1 rest : Bytes)
    (hvar : var ≠ [] ∧ ∀ c ∈ var, isSp c = false ∧ c ≠ 46)
    (h1 : pad1 ≠ [] ∧ ∀ c ∈ pad1, isSp c = true) :
    matchAssign (asc "name") (var ++ 46 :: (asc "version" ++ pad1 ++ rest)) = none := by
  apply matchAssign_other_word (asc "name") (asc "version") var pad1 rest hvar version_plain h1
  rw [asc_name, asc_version]
  simp [isPrefix]

/-- a `name` line does not match `version` -/
theorem matchAssign_version_on_name (var pad1 rest : Bytes)
    (hvar : var ≠ [] ∧ ∀ c ∈ var, isSp c = false ∧ c ≠ 46)
    (h1 : pad1 ≠ [] ∧ ∀ c ∈ pad1, isSp c = true) :
    matchAssign (asc "version") (var ++ 46 :: (asc "name" ++ pad1 ++ rest)) = none := by
  apply matchAssign_other_word (asc "version") (asc "name") var pad1 rest hvar name_plain h1
  rw [asc_name, asc_version]
  simp [isPrefix]

/-! ### ruby: trimming -/

theorem isSpace_eq_isSp (c : Nat) : isSpace c = isSp c := by
  rw [Bool.eq_iff_iff]
  simp only [isSpace, isSp, Bool.or_eq_true, Bool.and_eq_true, beq_iff_eq, decide_eq_true_eq]
  omega

theorem trimLeft_pad (pad rest : Bytes) (hp : ∀ c ∈ pad, isSp c = true) : trimLeft (pad ++ rest) = trimLeft rest := by
  induction pad with
  | nil => rfl
  | cons c cs ih =>
    have hc : isSpace c = true := by rw [isSpace_eq_isSp]; exact hp c (List.mem_cons_self ..)
    simp only [List.cons_append, trimLeft, hc, if_true]
    exact ih (fun x hx => hp x (List.mem_cons_of_mem _ hx))

theorem trimLeft_head (c : Nat) (cs : Bytes) (hc : isSp c = false) : trimLeft (c :: cs) = c :: cs := by
  have : isSpace c = false := by rw [isSpace_eq_isSp]; exact hc
  simp [trimLeft, this]

theorem trimRight_cons_ne (c : Nat) (s : Bytes) (h : trimRight s ≠ []) : trimRight (c :: s) = c :: trimRight s := by
  cases hs : trimRight s with
  | nil => exact absurd hs h
  | cons d ds => simp only [trimRight, hs]

theorem trimRight_append_keep (a b : Bytes) (hb : trimRight b ≠ []) : trimRight (a ++ b) = a ++ trimRight b := by
  induction a with
  | nil => rfl
  | cons c cs ih =>
    rw [List.cons_append, trimRight_cons_ne c _ (by rw [ih]; simp [hb]), ih]; rfl

theorem trimRight_snoc (s : Bytes) (c : Nat) (hc : isSp c = false) : trimRight (s ++ [c]) = s ++ [c] := by
  have hc' : isSpace c = false := by rw [isSpace_eq_isSp]; exact hc
  have : trimRight [c] = [c] := by simp [trimRight, hc']
  rw [trimRight_append_keep _ _ (by rw [this]; simp), this]

/-- white space before, none at either end of the rest: `TrimSpace` removes exactly the pad -/
theorem trimSpace_pad (pad : Bytes) (c : Nat) (cs : Bytes) (hp : ∀ x ∈ pad, isSp x = true) (hc : isSp c = false)
    (hr : trimRight (c :: cs) = c :: cs) : trimSpace (pad ++ c :: cs) = c :: cs := by
  unfold trimSpace
  rw [trimLeft_pad pad _ hp, trimLeft_head c cs hc, hr]

theorem dropSuffix_append (s suf : Bytes) : dropSuffix suf (s ++ suf) = s := by
  simp [dropSuffix, isSuffix_append]

theorem dropSuffix_last_ne (suf p : Bytes) (x y : Nat) (hxy : x ≠ y) :
    dropSuffix (suf ++ [x]) (p ++ [y]) = p ++ [y] := by
  simp [dropSuffix, isSuffix_last_ne suf p x y hxy]

/-- quote characters around a text without any are removed -/
theorem stripQuotes (q : Nat) (v : Bytes) (hq : isQuote q = true) (hne : v ≠ [])
    (hv : ∀ c ∈ v, isQuote c = false) :
    (((q :: v ++ [q]).dropWhile isQuote).reverse.dropWhile isQuote).reverse = v := by
  have e1 : (q :: v ++ [q]).dropWhile isQuote = v ++ [q] := by
    rw [List.cons_append, List.dropWhile_cons, hq]
    cases v with
    | nil => exact absurd rfl hne
    | cons c cs => exact dropWhile_head _ _ _ (hv c (List.mem_cons_self ..))
  have e2 : (v ++ [q]).reverse.dropWhile isQuote = v.reverse := by
    rw [List.reverse_append]
    simp only [List.reverse_cons, List.reverse_nil, List.nil_append, List.cons_append, List.dropWhile_cons, hq, if_true]
    exact dropWhile_ne _ _ (fun c hc => hv c (List.mem_reverse.1 hc))
  rw [e1, e2, List.reverse_reverse]

/-- the written form of a value: quoted with `"` or `'`, optionally followed by `.freeze` -/
def quoted (q : Nat) (v : Bytes) (freeze : Bool) : Bytes :=
  q :: v ++ [q] ++ (if freeze then asc ".freeze" else [])

theorem asc_freeze : asc ".freeze" = [46, 102, 114, 101, 101, 122] ++ [101] := by decide

theorem quote_cases (q : Nat) (hq : q = 34 ∨ q = 39) : isSp q = false ∧ isQuote q = true ∧ q ≠ 101 := by
  rcases hq with rfl | rfl <;> decide

theorem trimRight_quoted (q : Nat) (v : Bytes) (freeze : Bool) (hq : isSp q = false) :
    trimRight (quoted q v freeze) = quoted q v freeze := by
  cases freeze with
  | true =>
    have : quoted q v true = (q :: v ++ [q] ++ [46, 102, 114, 101, 101, 122]) ++ [101] := by
      simp [quoted, asc_freeze]
    rw [this]; exact trimRight_snoc _ _ (by decide)
  | false =>
    have : quoted q v false = (q :: v) ++ [q] := by simp [quoted]
    rw [this]; exact trimRight_snoc _ _ hq

theorem trimSpace_quoted (q : Nat) (v : Bytes) (freeze : Bool) (hq : isSp q = false) :
    trimSpace (quoted q v freeze) = quoted q v freeze := by
  have h := trimSpace_pad [] q (v ++ [q] ++ (if freeze then asc ".freeze" else [])) (by simp) hq
    (trimRight_quoted q v freeze hq)
  exact h

/-- `"x"`, `'x'`, `"x".freeze`, `'x'.freeze` denote `x` -/
theorem trimValue_quoted (v : Bytes) (hv : v ≠ [] ∧ ∀ c ∈ v, isSp c = false ∧ isQuote c = false)
    (freeze : Bool) (q : Nat) (hq : q = 34 ∨ q = 39) :
    trimValue (q :: v ++ [q] ++ (if freeze then asc ".freeze" else [])) = v := by
  obtain ⟨hqs, hqq, hqe⟩ := quote_cases q hq
  have ts := trimSpace_quoted q v freeze hqs
  unfold quoted at ts
  have ds : dropSuffix (asc ".freeze") (q :: v ++ [q] ++ (if freeze then asc ".freeze" else [])) = q :: v ++ [q] := by
    cases freeze with
    | true => exact dropSuffix_append _ _
    | false =>
      rw [asc_freeze]
      simp only [Bool.false_eq_true, if_false, List.append_nil]
      exact dropSuffix_last_ne _ (q :: v) 101 q (fun e => hqe e.symm)
  unfold trimValue
  simp only [ts, ds]
  exact stripQuotes q v hqq hv.1 (fun c hc => (hv.2 c hc).2)

theorem quoted_nosp (q : Nat) (v : Bytes) (freeze : Bool) (hq : isSp q = false) (hv : ∀ c ∈ v, isSp c = false) :
    quoted q v freeze ≠ [] ∧ ∀ c ∈ quoted q v freeze, isSp c = false := by
  refine ⟨by simp [quoted], ?_⟩
  intro c hc
  simp only [quoted, List.cons_append, List.mem_cons, List.mem_append, List.mem_nil_iff, or_false] at hc
  rcases hc with rfl | (hc | rfl) | hc
  · exact hq
  · exact hv c hc
  · exact hq
  · cases freeze with
    | true =>
      have : ∀ x ∈ asc ".freeze", isSp x = false := by decide
      exact this c hc
    | false => simp at hc

/-! ### ruby: one line of the loop -/

/-- `<pad><var>.<word><pad>=<pad><value>` -/
def assignLine (pad0 var word pad1 pad2 val : Bytes) : Bytes :=
  pad0 ++ var ++ 46 :: (word ++ pad1 ++ 61 :: (pad2 ++ val))

theorem trimSpace_assignLine (pad0 var word pad1 pad2 val : Bytes)
    (h0 : ∀ c ∈ pad0, isSp c = true) (hvar : var ≠ [] ∧ ∀ c ∈ var, isSp c = false ∧ c ≠ 46)
    (hval : val ≠ [] ∧ trimRight val = val) :
    trimSpace (assignLine pad0 var word pad1 pad2 val) = var ++ 46 :: (word ++ pad1 ++ 61 :: (pad2 ++ val)) := by
  cases hvv : var with
  | nil => exact absurd hvv hvar.1
  | cons c cs =>
    have hc : isSp c = false := (hvar.2 c (by rw [hvv]; exact List.mem_cons_self ..)).1
    have e : assignLine pad0 (c :: cs) word pad1 pad2 val =
        pad0 ++ c :: (cs ++ 46 :: (word ++ pad1 ++ 61 :: (pad2 ++ val))) := by
      simp [assignLine, List.append_assoc]
    have e2 : c :: (cs ++ 46 :: (word ++ pad1 ++ 61 :: (pad2 ++ val))) =
        (c :: (cs ++ 46 :: (word ++ pad1 ++ 61 :: pad2))) ++ val := by
      simp [List.append_assoc]
    rw [e]
    apply trimSpace_pad pad0 c _ h0 hc
    rw [e2, trimRight_append_keep _ _ (by rw [hval.2]; exact hval.1), hval.2]

/-- a line that changes nothing -/
def GNeutral (l : Bytes) : Prop := ∀ g : Gem, gemLine g l = g

theorem gneutral_of_none (l : Bytes) (h1 : matchAssign (asc "name") (trimSpace l) = none)
    (h2 : matchAssign (asc "version") (trimSpace l) = none) : GNeutral l := by
  intro g
  unfold gemLine
  simp only [h1, h2]

theorem gneutral_empty : GNeutral [] := by
  intro g; rfl

/-- the first word of the trimmed line has no dot (`end`, `# comment`, a blank line) -/
theorem gneutral_nodot (l u rest : Bytes) (ht : trimSpace l = u ++ rest)
    (hu : ∀ c ∈ u, isSp c = false ∧ c ≠ 46)
    (hr : rest = [] ∨ ∃ c cs, rest = c :: cs ∧ isSp c = true) : GNeutral l := by
  apply gneutral_of_none <;> rw [ht] <;> unfold matchAssign <;> exact go_nodot _ u rest false hu hr

/-- `# ...` with white space after the `#` -/
theorem gneutral_comment (l rest : Bytes) (c : Nat) (ht : trimSpace l = 35 :: c :: rest) (hc : isSp c = true) :
    GNeutral l :=
  gneutral_nodot l [35] (c :: rest) ht (by decide) (Or.inr ⟨c, rest, rfl, hc⟩)

/-- `  s.name = "x"` sets the name -/
theorem gemLine_name (g : Gem) (pad0 var pad1 pad2 v : Bytes) (q : Nat) (freeze : Bool)
    (h0 : ∀ c ∈ pad0, isSp c = true) (hvar : var ≠ [] ∧ ∀ c ∈ var, isSp c = false ∧ c ≠ 46)
    (h1 : pad1 ≠ [] ∧ ∀ c ∈ pad1, isSp c = true) (h2 : ∀ c ∈ pad2, isSp c = true)
    (hv : v ≠ [] ∧ ∀ c ∈ v, isSp c = false ∧ isQuote c = false) (hq : q = 34 ∨ q = 39) :
    gemLine g (pad0 ++ var ++ 46 :: (asc "name" ++ pad1 ++ 61 :: (pad2 ++
      (q :: v ++ [q] ++ (if freeze then asc ".freeze" else []))))) = { g with name := v } := by
  obtain ⟨hqs, _, _⟩ := quote_cases q hq
  have hval := quoted_nosp q v freeze hqs (fun c hc => (hv.2 c hc).1)
  have ht := trimSpace_assignLine pad0 var (asc "name") pad1 pad2 (quoted q v freeze) h0 hvar
    ⟨hval.1, trimRight_quoted q v freeze hqs⟩
  have m1 := matchAssign_written (asc "name") var pad1 pad2 (quoted q v freeze) hvar name_plain h1 h2 hval
  have m2 := matchAssign_version_on_name var pad1 (61 :: (pad2 ++ quoted q v freeze)) hvar h1
  have tv := trimValue_quoted v hv freeze q hq
  unfold assignLine quoted at ht
  unfold quoted at m1 m2
  unfold gemLine
  simp only [ht, m1, m2, tv]

/-- `  s.version = "1.0"` sets the version -/
theorem gemLine_version (g : Gem) (pad0 var pad1 pad2 v : Bytes) (q : Nat) (freeze : Bool)
    (h0 : ∀ c ∈ pad0, isSp c = true) (hvar : var ≠ [] ∧ ∀ c ∈ var, isSp c = false ∧ c ≠ 46)
    (h1 : pad1 ≠ [] ∧ ∀ c ∈ pad1, isSp c = true) (h2 : ∀ c ∈ pad2, isSp c = true)
    (hv : v ≠ [] ∧ ∀ c ∈ v, isSp c = false ∧ isQuote c = false) (hq : q = 34 ∨ q = 39) :
    gemLine g (pad0 ++ var ++ 46 :: (asc "version" ++ pad1 ++ 61 :: (pad2 ++
      (q :: v ++ [q] ++ (if freeze then asc ".freeze" else []))))) = { g with version := v } := by
  obtain ⟨hqs, _, _⟩ := quote_cases q hq
  have hval := quoted_nosp q v freeze hqs (fun c hc => (hv.2 c hc).1)
  have ht := trimSpace_assignLine pad0 var (asc "version") pad1 pad2 (quoted q v freeze) h0 hvar
    ⟨hval.1, trimRight_quoted q v freeze hqs⟩
  have m1 := matchAssign_written (asc "version") var pad1 pad2 (quoted q v freeze) hvar version_plain h1 h2 hval
  have m2 := matchAssign_name_on_version var pad1 (61 :: (pad2 ++ quoted q v freeze)) hvar h1
  have tv := trimValue_quoted v hv freeze q hq
  unfold assignLine quoted at ht
  unfold quoted at m1 m2
  unfold gemLine
  simp only [ht, m1, m2, tv]

/-! ### ruby: a whole gemspec -/

theorem foldl_neutral (ls : List Bytes) (h : ∀ l ∈ ls, GNeutral l) (g : Gem) : ls.foldl gemLine g = g := by
  induction ls generalizing g with
  | nil => rfl
  | cons l ls ih =>
    rw [List.foldl_cons, h l (List.mem_cons_self ..) g]
    exact ih (fun x hx => h x (List.mem_cons_of_mem _ hx)) g

/-- no line too long for the scanner -/
theorem tooLong_lines (ls : List Bytes) (h : ∀ l ∈ ls, l.length < 65536) : tooLong (ls ++ [[]]) = false := by
  induction ls with
  | nil => decide
  | cons l ls ih =>
    have hl : l.length < 65536 := h l (List.mem_cons_self ..)
    have ih' := ih (fun x hx => h x (List.mem_cons_of_mem _ hx))
    have hd : decide (l.length ≥ maxToken) = false :=
      decide_eq_false (by unfold maxToken; omega)
    cases hls : ls ++ [[]] with
    | nil => simp at hls
    | cons m ms =>
      rw [hls] at ih'
      simp only [List.cons_append, hls, tooLong, hd, ih', Bool.or_self]

def SetsName (l v : Bytes) : Prop := ∀ g : Gem, gemLine g l = { g with name := v }
def SetsVersion (l v : Bytes) : Prop := ∀ g : Gem, gemLine g l = { g with version := v }

/-- a name line and a version line, in either order, among lines that change nothing -/
theorem gemspec_two (n0 n1 n2 : List Bytes) (l1 l2 name version : Bytes)
    (hn0 : ∀ l ∈ n0, GNeutral l) (hn1 : ∀ l ∈ n1, GNeutral l) (hn2 : ∀ l ∈ n2, GNeutral l)
    (hl : (SetsName l1 name ∧ SetsVersion l2 version) ∨ (SetsVersion l1 version ∧ SetsName l2 name))
    (hc : ∀ l ∈ n0 ++ l1 :: (n1 ++ l2 :: n2), 10 ∉ l ∧ NotEndsWith 13 l ∧ l.length < 65536)
    (hname : name ≠ []) (hversion : version ≠ []) :
    gemspec (joinNl (n0 ++ l1 :: (n1 ++ l2 :: n2))) = some ⟨name, version⟩ := by
  have hs := scanLines_joinNl (n0 ++ l1 :: (n1 ++ l2 :: n2)) (fun l h => ⟨(hc l h).1, (hc l h).2.1⟩)
  have hsp := splitOn_joinNl (n0 ++ l1 :: (n1 ++ l2 :: n2)) (fun l h => (hc l h).1)
  have htl := tooLong_lines (n0 ++ l1 :: (n1 ++ l2 :: n2)) (fun l h => (hc l h).2.2)
  have hne1 : name.isEmpty = false := by cases name <;> simp_all
  have hne2 : version.isEmpty = false := by cases version <;> simp_all
  have hf : (n0 ++ l1 :: (n1 ++ l2 :: n2)).foldl gemLine ⟨[], []⟩ = ⟨name, version⟩ := by
    rw [List.foldl_append, foldl_neutral n0 hn0, List.foldl_cons]
    rcases hl with ⟨a, b⟩ | ⟨a, b⟩
    · rw [a, List.foldl_append, foldl_neutral n1 hn1, List.foldl_cons, b, foldl_neutral n2 hn2]
    · rw [a, List.foldl_append, foldl_neutral n1 hn1, List.foldl_cons, b, foldl_neutral n2 hn2]
  unfold gemspec
  simp only [hs, hsp, htl, hf, hne1, hne2]
  simp

/-- the parts of an assignment line as `gem build` writes it: `  s.name = "x".freeze` -/
structure Shape where
  pad0 : Bytes
  var : Bytes
  pad1 : Bytes
  pad2 : Bytes
  v : Bytes
  q : Nat
  freeze : Bool

structure Shape.WF (s : Shape) : Prop where
  pad0 : ∀ c ∈ s.pad0, isSp c = true
  var : s.var ≠ [] ∧ ∀ c ∈ s.var, isSp c = false ∧ c ≠ 46
  pad1 : s.pad1 ≠ [] ∧ ∀ c ∈ s.pad1, isSp c = true
  pad2 : ∀ c ∈ s.pad2, isSp c = true
  v : s.v ≠ [] ∧ ∀ c ∈ s.v, isSp c = false ∧ isQuote c = false
  q : s.q = 34 ∨ s.q = 39

def Shape.line (s : Shape) (word : Bytes) : Bytes :=
  s.pad0 ++ s.var ++ 46 :: (word ++ s.pad1 ++ 61 :: (s.pad2 ++
    (s.q :: s.v ++ [s.q] ++ (if s.freeze then asc ".freeze" else []))))

theorem Shape.WF.setsName {s : Shape} (w : s.WF) : SetsName (s.line (asc "name")) s.v :=
  fun g => gemLine_name g s.pad0 s.var s.pad1 s.pad2 s.v s.q s.freeze w.pad0 w.var w.pad1 w.pad2 w.v w.q

theorem Shape.WF.setsVersion {s : Shape} (w : s.WF) : SetsVersion (s.line (asc "version")) s.v :=
  fun g => gemLine_version g s.pad0 s.var s.pad1 s.pad2 s.v s.q s.freeze w.pad0 w.var w.pad1 w.pad2 w.v w.q

/-- A gemspec as written: a name line, later a version line, other lines that
    change nothing; no line has a newline inside, ends in a carriage return or
    reaches 64 KiB.  The gem is reported with that name and version. -/
theorem gemspec_written (n0 n1 n2 : List Bytes) (a b : Shape) (wa : a.WF) (wb : b.WF)
    (hn0 : ∀ l ∈ n0, GNeutral l) (hn1 : ∀ l ∈ n1, GNeutral l) (hn2 : ∀ l ∈ n2, GNeutral l)
    (hc : ∀ l ∈ n0 ++ a.line (asc "name") :: (n1 ++ b.line (asc "version") :: n2),
      10 ∉ l ∧ NotEndsWith 13 l ∧ l.length < 65536) :
    gemspec (joinNl (n0 ++ a.line (asc "name") :: (n1 ++ b.line (asc "version") :: n2))) = some ⟨a.v, b.v⟩ :=
  gemspec_two n0 n1 n2 _ _ a.v b.v hn0 hn1 hn2 (Or.inl ⟨wa.setsName, wb.setsVersion⟩) hc wa.v.1 wb.v.1

/-- the same with the version line first -/
theorem gemspec_written_swapped (n0 n1 n2 : List Bytes) (a b : Shape) (wa : a.WF) (wb : b.WF)
    (hn0 : ∀ l ∈ n0, GNeutral l) (hn1 : ∀ l ∈ n1, GNeutral l) (hn2 : ∀ l ∈ n2, GNeutral l)
    (hc : ∀ l ∈ n0 ++ b.line (asc "version") :: (n1 ++ a.line (asc "name") :: n2),
      10 ∉ l ∧ NotEndsWith 13 l ∧ l.length < 65536) :
    gemspec (joinNl (n0 ++ b.line (asc "version") :: (n1 ++ a.line (asc "name") :: n2))) = some ⟨a.v, b.v⟩ :=
  gemspec_two n0 n1 n2 _ _ a.v b.v hn0 hn1 hn2 (Or.inr ⟨wb.setsVersion, wa.setsName⟩) hc wa.v.1 wb.v.1

end ClairModel.LangScan
