/-
  C11: what `add` and walkTo (create mode) compute on a tree-consistent view,
  and how the result relates to the extraction reference.
-/
import ClairModel.Proofs.TarFSUpd
set_option linter.unusedSimpArgs false
set_option linter.unusedVariables false
namespace ClairModel.TarFS

/-! ### What `add` computes on a tree-consistent view -/

theorem dirOf_ne_self {p : Bytes} (hp : Contained p) (hd : p ≠ dotP) : dirOf p ≠ p := by
  obtain ⟨init, c, hg, rfl⟩ := contained_decompose hp hd
  rw [dirOf_snoc hg]
  intro e
  have hgi : GoodComps init := fun x hx => hg x (by simp [hx])
  rw [← pathOf_snoc] at e
  have h1 := pathOf_inj hgi hg e
  have hl : init.length = (init ++ [c]).length := congrArg List.length h1
  simp at hl

/-- A name whose elements are a proper prefix of those of `p`'s directory is not `p`. -/
theorem prefix_ne_self {init pre suf : List Bytes} {c : Bytes} (hg : GoodComps (init ++ [c]))
    (e : init = pre ++ suf) (hpre : pre ≠ []) : joinSlash pre ≠ joinSlash (init ++ [c]) := by
  intro he
  have hgp : GoodComps pre := fun x hx => hg x (by rw [e]; simp [hx])
  have := joinSlash_inj hpre (by simp) hgp hg he
  have hl := congrArg List.length this
  rw [e] at hl
  simp at hl

theorem again_fresh {fs : FS} {kind : Kind} {k : Nat} {p : Bytes} (h : fs.get? p = none) :
    again fs kind k p = .fresh p := by
  unfold again; simp [h]

theorem getInode_hit {fs : FS} {p : Bytes} {i : Nat} (hp : Contained p) (h : fs.get? p = some i) :
    getInode fs p = .ok i := by
  unfold getInode
  have hv : validPath p = true := hp
  simp [hv, clean_contained hp, h]

/-- One turn of the `AddEnt:` loop when the directory is a key of a directory inode. -/
theorem addEnt_hit (mk : FS → Bytes → FS) {fs : FS} {p : Bytes} {i j : Nat} (f : Nat)
    (hp : Contained p) (hpd : p ≠ dotP)
    (hj : fs.get? (dirOf p) = some j) (hjd : (fs.ino j).kind = .dir) :
    addEnt mk i p (f + 1) fs [] (dirOf p) = (fs.linkChild j i, none) := by
  have hdne := dirOf_ne_self hp hpd
  rw [addEnt]
  simp only [hdne, if_false]
  split
  · rename_i hdot
    have : fs.getD dotP = j := by
      rw [hdot] at hj
      simp only [FS.getD]
      have : alGet fs.lookup dotP = some j := hj
      rw [this]; rfl
    rw [this]
  · rw [getInode_hit (contained_dirOf hp) hj]
    simp only [List.not_mem_nil, if_false, hjd]

/-- `add` of a new directory or regular file whose directory is a key. -/
theorem add_fresh_parent {fs : FS} {p : Bytes} {ino : Inode} {j : Nat} (fuel : Nat) (hl : HL) (u : Bool)
    (hroot : fs.get? dotP = some 0) (hp : Contained p) (hfresh : fs.get? p = none)
    (hnl : ino.kind = .link → (fs.get? ino.link).isSome = true)
    (hj : fs.get? (dirOf p) = some j) (hjl : j < fs.inodes.length) (hjd : (fs.ino j).kind = .dir) :
    add (fuel + 1) fs hl p ino u =
      ((fs.pend p { ino with name := p }).linkChild j fs.inodes.length,
        if u then alDel hl p else hl, none) := by
  have hpd : p ≠ dotP := by intro e; subst e; rw [hroot] at hfresh; cases hfresh
  have hdne := dirOf_ne_self hp hpd
  have hj1 : (fs.pend p { ino with name := p }).get? (dirOf p) = some j := by
    rw [pend_get]; simp [Ne.symm hdne, hj]
  have hjd1 : ((fs.pend p { ino with name := p }).ino j).kind = .dir := by
    rw [pend_ino_lt fs p _ hjl]; exact hjd
  simp only [add, again_fresh hfresh]
  have hl1 : (if (u && decide (ino.kind = Kind.link) && (fs.get? ino.link).isNone) = true then
      alSet hl ino.link ((alGet hl ino.link).getD [] ++ [p]) else hl) = hl := by
    by_cases hk : ino.kind = .link
    · have := hnl hk
      cases hg : fs.get? ino.link <;> simp [hg] at this ⊢
    · simp [hk]
  simp only [hl1]
  obtain ⟨f, hf⟩ : ∃ f, 2 * (fs.inodes ++ [{ ino with name := p }]).length + 8 = f + 1 := ⟨_, rfl⟩
  rw [hf]
  have := addEnt_hit (fun f p => (add fuel f [] p (newDir p) false).1) (i := fs.inodes.length) f hp hpd hj1 hjd1
  simp only [FS.pend] at this ⊢
  rw [this]


/-! ### The view seen by the extraction reference -/

def inoNode (x : Inode) : XNode :=
  match x.kind with
  | .dir => .dir
  | .sym => .sym x.link
  | .link => .hard x.link
  | .special => .special
  | .reg => .file (x.data.getD [])

theorem inoNode_dir_iff (x : Inode) : inoNode x = .dir ↔ x.kind = .dir := by
  unfold inoNode
  cases x.kind <;> simp

/-- What the extraction reference sees of a key. -/
def FS.node? (fs : FS) (k : Bytes) : Option XNode :=
  match fs.get? k with
  | none => none
  | some i => some (inoNode (fs.ino i))

/-- The view presents the tree `t` (apart from the unconnected keys). -/
def Rep (skip : List Bytes) (fs : FS) (t : XTree) : Prop := ∀ k, k ∉ skip → fs.node? k = alGet t k

/-- `fs'` extends `fs`: every key keeps its index, kind and content. -/
def Ext (fs fs' : FS) : Prop :=
  ∀ k i, fs.get? k = some i →
    fs'.get? k = some i ∧ (fs'.ino i).kind = (fs.ino i).kind ∧ (fs'.ino i).data = (fs.ino i).data ∧
      (fs'.ino i).link = (fs.ino i).link

theorem Ext.refl (fs : FS) : Ext fs fs := fun _ _ h => ⟨h, rfl, rfl, rfl⟩

theorem Ext.trans {a b c : FS} (h1 : Ext a b) (h2 : Ext b c) : Ext a c := by
  intro k i hk
  obtain ⟨hb, hbk, hbd, hbl⟩ := h1 k i hk
  obtain ⟨hc, hck, hcd, hcl⟩ := h2 k i hb
  exact ⟨hc, hck.trans hbk, hcd.trans hbd, hcl.trans hbl⟩

theorem inoNode_congr {x y : Inode} (hk : x.kind = y.kind) (hd : x.data = y.data) (hl : x.link = y.link) :
    inoNode x = inoNode y := by
  simp [inoNode, hk, hd, hl]

/-- The state after registering `p` with inode `x` and connecting it to directory `j`. -/
def FS.leaf (fs : FS) (p : Bytes) (x : Inode) (j : Nat) : FS := (fs.pend p x).linkChild j fs.inodes.length

theorem leaf_get (fs : FS) (p : Bytes) (x : Inode) (j : Nat) (k : Bytes) :
    (fs.leaf p x j).get? k = if p = k then some fs.inodes.length else fs.get? k := by
  rw [FS.leaf, linkChild_get, pend_get]

theorem leaf_ino_kind_data (fs : FS) (p : Bytes) (x : Inode) {j : Nat} {cs : List Nat}
    (hcs : (fs.ino j).children = some cs) (t : Nat) :
    ((fs.leaf p x j).ino t).kind = ((fs.pend p x).ino t).kind ∧
    ((fs.leaf p x j).ino t).data = ((fs.pend p x).ino t).data ∧
    ((fs.leaf p x j).ino t).link = ((fs.pend p x).ino t).link := by
  have hjl := lt_of_children hcs
  have hcs' : ((fs.pend p x).ino j).children = some cs := by rw [pend_ino_lt fs p x hjl]; exact hcs
  rw [FS.leaf, linkChild_ino _ _ t hcs']
  split
  · rename_i e; subst e; exact ⟨rfl, rfl, rfl⟩
  · exact ⟨rfl, rfl, rfl⟩

theorem Ext.leaf (fs : FS) (p : Bytes) (x : Inode) {j : Nat} {cs : List Nat}
    (hnamed : ∀ k i, fs.get? k = some i → i < fs.inodes.length)
    (hfresh : fs.get? p = none) (hcs : (fs.ino j).children = some cs) : Ext fs (fs.leaf p x j) := by
  intro k i hk
  have hne : p ≠ k := by intro e; subst e; rw [hfresh] at hk; cases hk
  have hi := hnamed k i hk
  obtain ⟨h1, h2, h3⟩ := leaf_ino_kind_data fs p x hcs i
  rw [pend_ino_lt fs p x hi] at h1 h2 h3
  exact ⟨by rw [leaf_get]; simp [hne, hk], h1, h2, h3⟩

theorem Rep.leaf {skip : List Bytes} {fs : FS} {t : XTree} (h : Rep skip fs t) (p : Bytes) (x : Inode)
    {j : Nat} {cs : List Nat} (hnamed : ∀ k i, fs.get? k = some i → i < fs.inodes.length)
    (hfresh : fs.get? p = none) (hcs : (fs.ino j).children = some cs) :
    Rep skip (fs.leaf p x j) (alSet t p (inoNode x)) := by
  intro k hk
  rw [alGet_alSet]
  by_cases hpk : p = k
  · subst hpk
    simp only [FS.node?, leaf_get, if_true]
    obtain ⟨h1, h2, h3⟩ := leaf_ino_kind_data fs p x hcs fs.inodes.length
    rw [pend_ino_len] at h1 h2 h3
    rw [inoNode_congr h1 h2 h3]
  · simp only [hpk, if_false]
    rw [← h k hk]
    simp only [FS.node?, leaf_get, hpk, if_false]
    cases hg : fs.get? k with
    | none => rfl
    | some i =>
      simp only
      obtain ⟨h1, h2, h3⟩ := leaf_ino_kind_data fs p x hcs i
      rw [pend_ino_lt fs p x (hnamed k i hg)] at h1 h2 h3
      rw [inoNode_congr h1 h2 h3]

theorem TreeOK.leaf {skip : List Bytes} {fs : FS} {p : Bytes} {x : Inode} {j : Nat}
    (h : TreeOK skip fs) (hp : Contained p) (hfresh : fs.get? p = none) (hps : p ∉ skip)
    (hx : x.name = p) (hleaf : LeafIno x) (hxl : (x.kind = .sym ∨ x.kind = .link) → Contained x.link)
    (hj : fs.get? (dirOf p) = some j) (hjs : dirOf p ∉ skip) (hjd : (fs.ino j).kind = .dir) :
    TreeOK skip (fs.leaf p x j) := by
  have hpd : p ≠ dotP := by intro e; subst e; rw [h.root] at hfresh; cases hfresh
  have hjl := (h.named _ j hj).2
  obtain ⟨cs, hcs⟩ : ∃ cs, (fs.ino j).children = some cs := by
    rcases h.kinds _ j hj with ⟨_, hc⟩ | ⟨hk, _⟩
    · exact hc
    · exact absurd hjd hk
  have hdne := dirOf_ne_self hp hpd
  apply (h.pend hp hfresh hx hleaf hxl).connect (i := fs.inodes.length) (cs := cs)
  · rw [pend_get]; simp
  · exact hpd
  · exact hps
  · rw [pend_get]; simp [Ne.symm hdne, hj]
  · exact hjs
  · rw [pend_ino_lt fs p x hjl]; exact hjd
  · rw [pend_ino_lt fs p x hjl]; exact hcs


/-- The directory-making function `add` hands to walkTo. -/
def mkdirFn (fuel : Nat) : FS → Bytes → FS := fun f p => (add (fuel + 1) f [] p (newDir p) false).1

theorem leafIno_newDir (p : Bytes) : LeafIno (newDir p) := Or.inl ⟨rfl, rfl⟩

theorem mkdirFn_eq {skip : List Bytes} {fs : FS} (h : TreeOK skip fs) (fuel : Nat) {b : Bytes} {j : Nat}
    (hb : Contained b) (hfresh : fs.get? b = none)
    (hj : fs.get? (dirOf b) = some j) (hjd : (fs.ino j).kind = .dir) :
    mkdirFn fuel fs b = fs.leaf b (newDir b) j := by
  unfold mkdirFn
  rw [add_fresh_parent fuel [] false h.root hb hfresh (by simp [newDir]) hj (h.named _ j hj).2 hjd]
  rfl

/-- walkTo in create mode along a path none of whose prefixes is a regular
    file: it arrives at a directory, having made the missing directories, and
    the view then presents what `mkdir -p` gives in the reference. -/
theorem walk_create {skip : List Bytes} (fuel : Nat) (hdot : dotP ∉ skip) :
    ∀ (rest done : List Bytes) (fs : FS) (cur : Nat) (t t' : XTree),
      TreeOK skip fs → Rep skip fs t → GoodComps (done ++ rest) → (∀ x ∈ done ++ rest, ValidU x) →
      fs.get? (pathOf done) = some cur → (fs.ino cur).kind = .dir →
      (∀ pre suf, done ++ rest = pre ++ suf → pre ≠ [] → joinSlash pre ∉ skip) →
      xMkdirs t (prefixesAux (joinSlash done) done.isEmpty rest) = some t' →
      ∃ fs' i, walkLoop (some (mkdirFn fuel)) fs cur (joinSlash done) done.isEmpty rest = (fs', .ok i) ∧
        TreeOK skip fs' ∧ Rep skip fs' t' ∧ Ext fs fs' ∧
        fs'.get? (pathOf (done ++ rest)) = some i ∧ (fs'.ino i).kind = .dir := by
  intro rest
  induction rest with
  | nil =>
    intro done fs cur t t' h hrep _ _ hcur hkd _ hx
    simp only [prefixesAux, xMkdirs, Option.some.injEq] at hx
    subst hx
    exact ⟨fs, cur, by simp [walkLoop], h, hrep, Ext.refl fs, by simpa using hcur, hkd⟩
  | cons n rest ih =>
    intro done fs cur t t' h hrep hg hu hcur hkd hsk hx
    have hg1 : GoodComps (done ++ [n]) := fun x hx => hg x (by simp at hx ⊢; rcases hx with hx | hx <;> simp [hx])
    have hg2 : GoodComps ((done ++ [n]) ++ rest) := by simpa [List.append_assoc] using hg
    have hu2 : ∀ x ∈ (done ++ [n]) ++ rest, ValidU x := by simpa [List.append_assoc] using hu
    have hskb : joinSlash (done ++ [n]) ∉ skip := hsk (done ++ [n]) rest (by simp) (by simp)
    have hsk' : ∀ pre suf, (done ++ [n]) ++ rest = pre ++ suf → pre ≠ [] → joinSlash pre ∉ skip :=
      fun pre suf e hp => hsk pre suf (by simpa [List.append_assoc] using e) hp
    have hbc : Contained (joinSlash (done ++ [n])) :=
      contained_joinSlash (by simp) hg1 (fun x hx => hu x (by simp at hx ⊢; rcases hx with hx | hx <;> simp [hx]))
    have hbd : joinSlash (done ++ [n]) ≠ dotP := joinSlash_ne_dot (by simp) hg1
    have hdir : dirOf (joinSlash (done ++ [n])) = pathOf done := dirOf_snoc hg1
    have hpath : pathOf (done ++ [n]) = joinSlash (done ++ [n]) := pathOf_snoc done n
    have hempty : (done ++ [n]).isEmpty = false := by simp
    have hdones : pathOf done ∉ skip := by
      unfold pathOf
      split
      · exact hdot
      · rename_i hd; exact hsk done (n :: rest) rfl hd
    simp only [prefixesAux, joinSlash_done] at hx
    simp only [walkLoop, joinSlash_done]
    have hnode := hrep _ hskb
    cases hb : fs.get? (joinSlash (done ++ [n])) with
    | some c =>
      rw [h.findChild_some hg1 hcur hb hskb]
      simp only
      simp only [FS.node?, hb] at hnode
      rcases h.kinds _ c hb with ⟨hk, _⟩ | ⟨hk, _⟩
      · -- an existing directory
        simp only [inoNode, hk] at hnode
        simp only [xMkdirs, ← hnode] at hx
        rw [(resolve_plain _ rest.isEmpty _ fs c).1 hk]
        simp only
        have := ih (done ++ [n]) fs c t t' h hrep hg2 hu2 (by rw [hpath]; exact hb) hk hsk'
          (by rw [hempty]; exact hx)
        rw [hempty] at this
        simpa [List.append_assoc] using this
      · -- something else in directory position: excluded by the reference
        exfalso
        have hne : inoNode (fs.ino c) ≠ .dir := fun e => hk ((inoNode_dir_iff _).1 e)
        simp only [xMkdirs, ← hnode] at hx
        cases hnd : inoNode (fs.ino c) <;> simp [hnd] at hx hne
    | none =>
      rw [h.findChild_none hg1 hcur hb]
      simp only [FS.node?, hb] at hnode
      simp only [xMkdirs, ← hnode] at hx
      simp only
      have hmk := mkdirFn_eq h fuel hbc hb (by rw [hdir]; exact hcur) hkd
      rw [hmk]
      obtain ⟨cs, hcs⟩ : ∃ cs, (fs.ino cur).children = some cs := by
        rcases h.kinds _ cur hcur with ⟨_, hc⟩ | ⟨hk, _⟩
        · exact hc
        · exact absurd hkd hk
      have hnamed : ∀ k i, fs.get? k = some i → i < fs.inodes.length := fun k i hk => (h.named k i hk).2
      have h1 : TreeOK skip (fs.leaf (joinSlash (done ++ [n])) (newDir (joinSlash (done ++ [n]))) cur) :=
        h.leaf hbc hb hskb rfl (leafIno_newDir _) (by simp [newDir]) (by rw [hdir]; exact hcur) (by rw [hdir]; exact hdones) hkd
      have hrep1 := hrep.leaf (joinSlash (done ++ [n])) (newDir (joinSlash (done ++ [n]))) hnamed hb hcs
      have hext1 := Ext.leaf fs (joinSlash (done ++ [n])) (newDir (joinSlash (done ++ [n]))) hnamed hb hcs
      have hgetb : (fs.leaf (joinSlash (done ++ [n])) (newDir (joinSlash (done ++ [n]))) cur).get?
          (joinSlash (done ++ [n])) = some fs.inodes.length := by rw [leaf_get]; simp
      have hgetD : (fs.leaf (joinSlash (done ++ [n])) (newDir (joinSlash (done ++ [n]))) cur).getD
          (joinSlash (done ++ [n])) = fs.inodes.length := by
        have : alGet (fs.leaf (joinSlash (done ++ [n])) (newDir (joinSlash (done ++ [n]))) cur).lookup
            (joinSlash (done ++ [n])) = some fs.inodes.length := hgetb
        simp [FS.getD, this]
      rw [hgetD]
      have hkind1 : ((fs.leaf (joinSlash (done ++ [n])) (newDir (joinSlash (done ++ [n]))) cur).ino
          fs.inodes.length).kind = .dir := by
        rw [(leaf_ino_kind_data fs _ _ hcs _).1, pend_ino_len]; rfl
      have hnd : inoNode (newDir (joinSlash (done ++ [n]))) = .dir := rfl
      rw [hnd] at hrep1
      obtain ⟨fs', i, hw, hT, hR, hE, hget, hkind⟩ :=
        ih (done ++ [n]) _ fs.inodes.length _ t' h1 hrep1 hg2 hu2 (by rw [hpath]; exact hgetb) hkind1 hsk'
          (by rw [hempty]; exact hx)
      rw [hempty] at hw
      exact ⟨fs', i, hw, hT, hR, hext1.trans hE, by simpa [List.append_assoc] using hget, hkind⟩

end ClairModel.TarFS
