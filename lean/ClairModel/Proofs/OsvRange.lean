/-
  Lemmas about the SEMVER event machine of the OSV updater
  (Model/OsvRange.lean): on a list of intervals the event loop leaves exactly
  one cell per interval (`run_intervals`).
-/
import ClairModel.Model.OsvRange
import ClairModel.Proofs.Version

set_option linter.unusedSimpArgs false
set_option linter.unusedVariables false

namespace ClairModel.OsvRange
open ClairModel.Order ClairModel.Version

/-- The states between two intervals: nothing happened yet, or the current
    cell is recorded and an `introduced` was seen. -/
def Ready (s : St) : Prop :=
  (s.seen = false ∧ s.cur = {} ∧ s.curIn = false) ∨ (s.seen = true ∧ s.curIn = true)

theorem isEmpty_false_of_ne {l : List Char} (h : l ≠ []) : l.isEmpty = false := by
  cases l with
  | nil => exact absurd rfl h
  | cons _ _ => rfl

/-- An `introduced` event between two intervals opens a fresh cell holding
    only the lower bound; what was recorded stays. -/
theorem step_intro (hv last : Bool) (s : St) (hs : Ready s) (intro : List Char) (hi : intro ≠ []) :
    step hv last s { introduced := intro } =
      { closed := s.vers, cur := { lower := lowerOf intro }, curIn := last, seen := true } := by
  have he := isEmpty_false_of_ne hi
  rcases hs with ⟨h1, h2, h3⟩ | ⟨h1, h3⟩
  · obtain ⟨closed, cur, curIn, seen⟩ := s
    simp only at h1 h2 h3
    subst h1 h2 h3
    unfold step
    simp only [he, Bool.not_false, if_true, Bool.false_eq_true, if_false, St.vers, List.append_nil, lowerOf]
    by_cases h0 : intro = ['0']
    · simp only [h0, if_true]
      cases last <;> rfl
    · simp only [h0, if_false]
      cases Semver.parse intro <;> cases last <;> rfl
  · obtain ⟨closed, cur, curIn, seen⟩ := s
    simp only at h1 h3
    subst h1 h3
    unfold step
    simp only [he, Bool.not_false, if_true, St.fresh, Bool.false_eq_true, if_false, St.vers, lowerOf]
    by_cases h0 : intro = ['0']
    · simp only [h0, if_true]
      cases last <;> rfl
    · simp only [h0, if_false]
      cases Semver.parse intro <;> cases last <;> rfl

/-- The closing event of an interval completes the open cell and records it. -/
theorem step_close (hv last : Bool) (closed : List Cell) (intro : List Char) (c : Close)
    (hc : c.textOK = true) (ce : Event) (hce : closeEvents c = [ce]) (curIn : Bool) :
    step hv last { closed := closed, cur := { lower := lowerOf intro }, curIn := curIn, seen := true } ce =
      { closed := closed, cur := cellOf hv ⟨intro, c⟩, curIn := true, seen := true } := by
  cases c with
  | none => simp [closeEvents] at hce
  | fixed t =>
    simp only [closeEvents, List.cons.injEq, and_true] at hce
    subst hce
    have ht : t.isEmpty = false := by simpa [Close.textOK] using hc
    unfold step cellOf
    simp only [List.isEmpty_nil, Bool.not_true, Bool.false_eq_true, if_false, ht, Bool.not_false, if_true]
  | lastAffected t =>
    simp only [closeEvents, List.cons.injEq, and_true] at hce
    subst hce
    have ht : t.isEmpty = false := by simpa [Close.textOK] using hc
    unfold step cellOf
    simp only [List.isEmpty_nil, Bool.not_true, Bool.false_eq_true, if_false, ht, Bool.not_false, if_true,
      Bool.true_and]
  | limitStar =>
    simp only [closeEvents, List.cons.injEq, and_true] at hce
    subst hce
    unfold step cellOf
    simp only [List.isEmpty_nil, Bool.not_true, Bool.false_eq_true, if_false, Bool.false_and, if_true]
    rfl

theorem eventsOf_ne_nil (iv : Interval) (rest : List Interval) : (eventsOf (iv :: rest)).isEmpty = false := rfl

/-- One cell per interval, in order, after whatever was recorded before. -/
theorem run_intervals (hv : Bool) : ∀ (ivs : List Interval) (s : St), Ready s → wellShaped ivs = true →
    (run hv s (eventsOf ivs)).vers = s.vers ++ ivs.map (cellOf hv)
  | [], s, _, _ => by simp [eventsOf, run]
  | [iv], s, hs, hw => by
    obtain ⟨intro, c⟩ := iv
    simp only [wellShaped, Bool.and_eq_true, Bool.not_eq_true'] at hw
    have hi : intro ≠ [] := by
      intro e; rw [e] at hw; simp at hw
    cases hcl : closeEvents c with
    | nil =>
      have hcn : c = .none := by cases c <;> simp [closeEvents] at hcl ⊢
      subst hcn
      simp only [eventsOf, closeEvents, List.nil_append, run, List.isEmpty_nil]
      rw [step_intro hv true s hs intro hi]
      simp [St.vers, cellOf]
    | cons ce r =>
      have hr : r = [] := by cases c <;> simp [closeEvents] at hcl <;> simp [hcl.2]
      subst hr
      simp only [eventsOf, hcl, List.cons_append, List.nil_append, run, List.isEmpty_cons, List.isEmpty_nil]
      rw [step_intro hv false s hs intro hi, step_close hv true _ intro c hw.2 ce hcl]
      simp [St.vers]
  | iv :: iv2 :: rest, s, hs, hw => by
    obtain ⟨intro, c⟩ := iv
    simp only [wellShaped, Bool.and_eq_true, Bool.not_eq_true', bne_iff_ne, ne_eq] at hw
    obtain ⟨⟨⟨hi0, hc⟩, hcn⟩, hrest⟩ := hw
    have hi : intro ≠ [] := by
      intro e; rw [e] at hi0; simp at hi0
    cases hcl : closeEvents c with
    | nil =>
      have : c = .none := by cases c <;> simp [closeEvents] at hcl ⊢
      exact absurd this hcn
    | cons ce r =>
      have hr : r = [] := by cases c <;> simp [closeEvents] at hcl <;> simp [hcl.2]
      subst hr
      have ih := run_intervals hv (iv2 :: rest)
        { closed := s.vers, cur := cellOf hv ⟨intro, c⟩, curIn := true, seen := true }
        (Or.inr ⟨rfl, rfl⟩) hrest
      have e1 : eventsOf (⟨intro, c⟩ :: iv2 :: rest)
          = { introduced := intro } :: ce :: eventsOf (iv2 :: rest) := by
        simp [eventsOf, hcl]
      rw [e1]
      simp only [run, List.isEmpty_cons, eventsOf_ne_nil]
      rw [step_intro hv false s hs intro hi, step_close hv false _ intro c hc ce hcl, ih]
      simp [St.vers]

end ClairModel.OsvRange
