import ClairModel.Model.ArenaProxy
import ClairModel.Proofs.ArenaHeld
import ClairModel.Proofs.ArenaFd

/-!
  The proxy layer only ever moves the arena by transitions of the arena machine: whatever
  RealizeDescriptions, its errgroup, FetchProxy.Close and the descriptor bookkeeping do, the
  arena component of the state is a state of `Arena.step`.  Every theorem about reachable
  arena states therefore holds under any interleaving of proxy calls as well.
-/
set_option linter.unusedSimpArgs false

namespace ClairModel.ArenaProxy
open ClairModel ClairModel.Arena ClairModel.ArenaFd

/-- `a'` is reached from `a` by transitions of the arena machine. -/
def Reach (a a' : Arena.State) : Prop := ∃ ops : List Op, a' = Sm.run step a ops

theorem Reach.refl (a : Arena.State) : Reach a a := ⟨[], rfl⟩

theorem Reach.trans {a b c : Arena.State} (h1 : Reach a b) (h2 : Reach b c) : Reach a c := by
  obtain ⟨o1, rfl⟩ := h1
  obtain ⟨o2, rfl⟩ := h2
  exact ⟨o1 ++ o2, (Sm.run_append step a o1 o2).symm⟩

theorem Reach.one (a : Arena.State) (op : Op) : Reach a (step a op).1 := ⟨[op], rfl⟩

theorem fstep_base (s : FState) (op : Op) :
    (fstep s (.base op)).1.a = (step s.a op).1 ∧ (fstep s (.base op)).2 = (step s.a op).2 := by
  simp [fstep, fstepG, arenaStep]

theorem fstep_reach (s : FState) (op : FOp) : Reach s.a (fstep s op).1.a := by
  cases op with
  | base op => rw [(fstep_base s op).1]; exact Reach.one _ _
  | extOpen => exact Reach.refl _
  | extClose n =>
    simp only [fstep, fstepG]
    split <;> exact Reach.refl _

/-- `f'` is reached from `f` by transitions of the descriptor machine. -/
def FReach (f f' : FState) : Prop := ∃ ops : List FOp, f' = Sm.run fstep f ops

theorem FReach.refl (f : FState) : FReach f f := ⟨[], rfl⟩

theorem FReach.trans {a b c : FState} (h1 : FReach a b) (h2 : FReach b c) : FReach a c := by
  obtain ⟨o1, rfl⟩ := h1
  obtain ⟨o2, rfl⟩ := h2
  exact ⟨o1 ++ o2, (Sm.run_append fstep a o1 o2).symm⟩

theorem FReach.one (f : FState) (op : FOp) : FReach f (fstep f op).1 := ⟨[op], rfl⟩

theorem FReach.arena {f f' : FState} (h : FReach f f') : Reach f.a f'.a := by
  obtain ⟨ops, rfl⟩ := h
  induction ops generalizing f with
  | nil => exact Reach.refl _
  | cons op ops ih =>
    simp only [Sm.run_cons]
    exact Reach.trans (fstep_reach f op) ih

theorem FReach.finv {f f' : FState} (h : FReach f f') (hi : FInv f) : FInv f' := by
  obtain ⟨ops, rfl⟩ := h
  exact Sm.invariant_run (Inv := FInv) (fun _ op h => finv_step h op) ops f hi

theorem runBase_reach (ops : List Op) : ∀ f : FState, FReach f (runBase f ops) := by
  induction ops with
  | nil => intro f; exact FReach.refl _
  | cons op ops ih =>
    intro f
    simp only [runBase, List.foldl_cons] at ih ⊢
    exact FReach.trans (FReach.one f _) (ih _)

theorem refill_reach (p : Nat) : ∀ (n : Nat) (s : PState) (c : Call), FReach s.f (refill s p c n).1.f := by
  intro n
  induction n with
  | zero => intro s c; exact FReach.refl _
  | succ n ih =>
    intro s c
    simp only [refill]
    split
    · split
      · exact FReach.trans (FReach.one s.f _) (ih _ _)
      · exact FReach.refl _
    · exact FReach.refl _

theorem settleCall_reach (s : PState) (p : Nat) (c : Call) : FReach s.f (settleCall s p c).1.f := by
  simp only [settleCall]
  refine FReach.trans ?_ (refill_reach _ _ _ _)
  split
  · exact runBase_reach _ _
  · exact FReach.refl _

theorem finishCall_reach (fx : Bool) (s : PState) (p : Nat) (c : Call) :
    FReach s.f (finishCall fx s p c).1.f := by
  simp only [finishCall]
  split
  · split
    · exact runBase_reach _ _
    · split <;> exact FReach.refl _
  · exact FReach.refl _

theorem settleProxy_reach (fx : Bool) (s : PState) (i : Nat) : FReach s.f (settleProxy fx s i).f := by
  simp only [settleProxy]
  split
  · split
    · exact FReach.trans (settleCall_reach _ _ _) (finishCall_reach _ _ _ _)
    · exact FReach.refl _
  · exact FReach.refl _

theorem settleList_reach (fx : Bool) (is : List Nat) :
    ∀ s : PState, FReach s.f (is.foldl (settleProxy fx) s).f := by
  induction is with
  | nil => intro s; exact FReach.refl _
  | cons i is ih =>
    intro s
    simp only [List.foldl_cons]
    exact FReach.trans (settleProxy_reach fx s i) (ih _)

theorem settleAll_reach (fx : Bool) (s : PState) : FReach s.f (settleAll fx s).f :=
  settleList_reach fx _ s

/-- One transition of the proxy machine moves the arena and the descriptor table by
    transitions of the machines below only. -/
theorem pstep_reach (fx : Bool) (s : PState) (op : POp) : FReach s.f (pstepG fx s op).1.f := by
  cases op with
  | base op =>
    simp only [pstepG]
    split
    · exact FReach.refl _
    · exact FReach.trans (FReach.one s.f op) (settleAll_reach fx _)
  | pnew => exact FReach.refl _
  | realize p limit ks =>
    simp only [pstepG]
    split
    · split
      · exact FReach.refl _
      · exact settleAll_reach fx _
    · exact FReach.refl _
  | pcancel p =>
    simp only [pstepG]
    split
    · split
      · exact settleAll_reach fx _
      · exact FReach.refl _
    · exact FReach.refl _
  | pclose p =>
    simp only [pstepG]
    split
    · split
      · exact FReach.refl _
      · split
        · exact runBase_reach _ _
        · exact FReach.refl _
    · exact FReach.refl _

/-- Every state of the proxy machine (code as it is now, or before the cleanup-list fix)
    has an arena and a descriptor table that the machines below reach on their own. -/
theorem prun_reach (fx : Bool) (ops : List POp) :
    ∀ s : PState, FReach s.f (Sm.run (pstepG fx) s ops).f := by
  induction ops with
  | nil => intro s; exact FReach.refl _
  | cons op ops ih =>
    intro s
    simp only [Sm.run_cons]
    exact FReach.trans (pstep_reach fx s op) (ih _)

theorem prun_finv (fx : Bool) (ops : List POp) : FInv (Sm.run (pstepG fx) pinit ops).f :=
  (prun_reach fx ops pinit).finv finv_init

theorem prun_arena (fx : Bool) (ops : List POp) :
    ∃ aops : List Op, (Sm.run (pstepG fx) pinit ops).f.a = Sm.run step init aops :=
  (prun_reach fx ops pinit).arena

theorem prun_inv (fx : Bool) (ops : List POp) : Inv (Sm.run (pstepG fx) pinit ops).f.a :=
  (prun_finv fx ops).inv

end ClairModel.ArenaProxy
