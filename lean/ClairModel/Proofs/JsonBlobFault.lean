/-
  What `Store.Store` writes when it FAILS (Model/JsonBlob.lean: `emitRecs`,
  `emitCut`, `storeOutF`): a line of 1 MiB or more, or a disk buffer that
  cannot be read back (closed, truncated, I/O error).
-/
import ClairModel.Proofs.JsonBlob

namespace ClairModel.JsonBlob

/-! ### One entry -/

/-- `emitRecs` writes the records up to the first that does not fit. -/
theorem emitRecs_eq (e : Entry) (rs : List Rec) :
    emitRecs e rs = ((rs.takeWhile (·.fits)).map (mkLine e), rs.all (·.fits)) := by
  induction rs with
  | nil => rfl
  | cons r rs ih =>
    by_cases hr : r.fits = true
    · simp [emitRecs, hr, ih]
    · simp [emitRecs, hr]

/-- The records of `e` that reach the output when its disk buffer fails after
    `cut` lines: those the buffer still yields, up to the first that is too
    long for the scanner. -/
def Entry.written (e : Entry) (cut : Option Nat) : List Rec :=
  (match cut with
   | none => e.recs
   | some k => e.recs.take k).takeWhile (·.fits)

theorem takeWhile_length_le {α : Type} (p : α → Bool) (l : List α) : (l.takeWhile p).length ≤ l.length := by
  induction l with
  | nil => simp
  | cons a l ih =>
    rw [List.takeWhile_cons]
    split
    · simp only [List.length_cons]; omega
    · simp

theorem takeWhile_eq_self_iff {α : Type} (p : α → Bool) (l : List α) :
    (l.takeWhile p).length = l.length ↔ l.all p = true := by
  induction l with
  | nil => simp
  | cons a l ih =>
    rw [List.takeWhile_cons]
    by_cases hp : p a = true
    · simp [hp, ih]
    · simp [hp]

/-- `takeWhile` is `take` of its own length. -/
theorem takeWhile_eq_take {α : Type} (p : α → Bool) (l : List α) :
    l.takeWhile p = l.take (l.takeWhile p).length := by
  induction l with
  | nil => simp
  | cons a l ih =>
    rw [List.takeWhile_cons]
    by_cases hp : p a = true
    · simp only [hp, if_true, List.length_cons, List.take_succ_cons]
      rw [← ih]
    · simp [hp]

theorem all_eq_beq {α : Type} (p : α → Bool) (l : List α) :
    l.all p = ((l.takeWhile p).length == l.length) := by
  rw [Bool.eq_iff_iff]
  simp only [beq_iff_eq]
  exact (takeWhile_eq_self_iff p l).symm

/-- What was written for `e` is a prefix of its records; the call went through
    for `e` exactly when the prefix is everything. -/
theorem emitCut_eq (e : Entry) (cut : Option Nat) :
    emitCut e cut = ((e.written cut).map (mkLine e), (e.written cut).length == e.recs.length) := by
  cases cut with
  | none => simp only [emitCut, emitRecs_eq, Entry.written, all_eq_beq]
  | some k =>
    simp only [emitCut]
    by_cases hk : k < e.recs.length
    · simp only [hk, if_true, emitRecs_eq, Entry.written, Prod.mk.injEq, true_and]
      rw [eq_comm, beq_eq_false_iff_ne]
      have h1 := takeWhile_length_le (fun (r : Rec) => r.fits) (e.recs.take k)
      have h2 : (e.recs.take k).length ≤ k := by simp [List.length_take]; omega
      omega
    · have ht : e.recs.take k = e.recs := List.take_of_length_le (by omega)
      simp only [hk, if_false, emitRecs_eq, Entry.written, ht, all_eq_beq]

theorem written_prefix (e : Entry) (cut : Option Nat) :
    ∃ j, j ≤ e.recs.length ∧ e.written cut = e.recs.take j := by
  cases cut with
  | none =>
    exact ⟨_, takeWhile_length_le _ _, by simpa [Entry.written] using takeWhile_eq_take (fun (r : Rec) => r.fits) e.recs⟩
  | some k =>
    refine ⟨((e.recs.take k).takeWhile (·.fits)).length, ?_, ?_⟩
    · have h1 := takeWhile_length_le (fun (r : Rec) => r.fits) (e.recs.take k)
      have h2 : (e.recs.take k).length ≤ e.recs.length := by simp [List.length_take]; omega
      omega
    · simp only [Entry.written]
      have h1 := takeWhile_length_le (fun (r : Rec) => r.fits) (e.recs.take k)
      have h2 : (e.recs.take k).length ≤ k := by simp [List.length_take]; omega
      conv => lhs; rw [takeWhile_eq_take]
      rw [List.take_take]
      congr 1
      omega

/-- An entry goes through iff every line fits and its buffer yields every line. -/
def Entry.Intact (e : Entry) (cut : Option Nat) : Prop :=
  (∀ r ∈ e.recs, r.fits = true) ∧ ∀ k, cut = some k → e.recs.length ≤ k

theorem written_all_iff (e : Entry) (cut : Option Nat) :
    (e.written cut).length = e.recs.length ↔ e.Intact cut := by
  cases cut with
  | none =>
    simp only [Entry.written, Entry.Intact, reduceCtorEq, false_imp_iff, implies_true, and_true]
    rw [takeWhile_eq_self_iff]; simp
  | some k =>
    simp only [Entry.written, Entry.Intact, Option.some.injEq, forall_eq']
    constructor
    · intro h
      have h1 := takeWhile_length_le (fun (r : Rec) => r.fits) (e.recs.take k)
      have h2 : (e.recs.take k).length = min k e.recs.length := by simp [List.length_take]
      have hk : e.recs.length ≤ k := by omega
      have ht : e.recs.take k = e.recs := List.take_of_length_le hk
      rw [ht, takeWhile_eq_self_iff] at h
      exact ⟨by simpa using h, hk⟩
    · rintro ⟨hf, hk⟩
      have ht : e.recs.take k = e.recs := List.take_of_length_le hk
      rw [ht, takeWhile_eq_self_iff]; simpa using hf

/-! ### The whole call -/

/-- The entry `e` with only its first `j` records. -/
def Entry.truncated (e : Entry) (j : Nat) : Entry := { e with recs := e.recs.take j }

theorem render_singleton_truncated (e : Entry) (j : Nat) :
    render [e.truncated j] = (e.recs.take j).map (mkLine e) := by
  simp only [render, List.flatMap_cons, List.flatMap_nil, List.append_nil]
  rfl

/-- `Store.Store` returns nil exactly when every visited entry is intact. -/
theorem storeOutF_ok_iff (faults : List (Nat × Nat)) (es : List Entry) :
    (storeOutF faults es).2.2 = true ↔ ∀ e ∈ es, e.Intact (cutOf faults e.ref) := by
  induction es with
  | nil => simp [storeOutF]
  | cons e es ih =>
    simp only [storeOutF, emitCut_eq]
    by_cases h : (e.written (cutOf faults e.ref)).length = e.recs.length
    · simp only [h, beq_self_eq_true, if_true, List.mem_cons, forall_eq_or_imp]
      rw [ih]
      exact ⟨fun h' => ⟨(written_all_iff _ _).1 h, h'⟩, fun h' => h'.2⟩
    · have hb : ((e.written (cutOf faults e.ref)).length == e.recs.length) = false := by
        rw [beq_eq_false_iff_ne]; exact h
      simp only [hb, Bool.false_eq_true, if_false, List.mem_cons, forall_eq_or_imp, false_iff]
      intro h'
      exact h ((written_all_iff _ _).2 h'.1)

/-- … and then it writes every entry completely and empties the map. -/
theorem storeOutF_ok (faults : List (Nat × Nat)) (es : List Entry)
    (h : ∀ e ∈ es, e.Intact (cutOf faults e.ref)) : storeOutF faults es = (render es, [], true) := by
  induction es with
  | nil => rfl
  | cons e es ih =>
    have he := (written_all_iff e _).2 (h e (by simp))
    have hw : e.written (cutOf faults e.ref) = e.recs := by
      obtain ⟨j, hj, hjw⟩ := written_prefix e (cutOf faults e.ref)
      rw [hjw] at he ⊢
      rw [List.length_take] at he
      exact List.take_of_length_le (by omega)
    simp [storeOutF, emitCut_eq, hw, ih (fun x hx => h x (by simp [hx])), render_cons]

/-- When `Store.Store` fails: the entries visited before the failing one are
    written completely, the failing entry `e` is written up to (not including)
    its first line that is too long or cannot be read — `j` lines, fewer than it
    has — nothing else is written, and the map is left with exactly the entries
    not yet visited (`e` itself is deleted). -/
theorem storeOutF_fail (faults : List (Nat × Nat)) (es : List Entry)
    (h : (storeOutF faults es).2.2 = false) :
    ∃ pre e post j, es = pre ++ e :: post ∧
      (∀ x ∈ pre, x.Intact (cutOf faults x.ref)) ∧ ¬ e.Intact (cutOf faults e.ref) ∧
      j < e.recs.length ∧ e.written (cutOf faults e.ref) = e.recs.take j ∧
      storeOutF faults es = (render (pre ++ [e.truncated j]), post, false) := by
  induction es with
  | nil => simp [storeOutF] at h
  | cons a es ih =>
    by_cases ha : (a.written (cutOf faults a.ref)).length = a.recs.length
    · have hint := (written_all_iff a _).1 ha
      have hrest : (storeOutF faults es).2.2 = false := by
        simpa [storeOutF, emitCut_eq, ha] using h
      obtain ⟨pre, e, post, j, hes, hpre, hne, hj, hw, hout⟩ := ih hrest
      refine ⟨a :: pre, e, post, j, by simp [hes], ?_, hne, hj, hw, ?_⟩
      · intro x hx
        rcases List.mem_cons.1 hx with rfl | hx
        · exact hint
        · exact hpre x hx
      · have hwa : a.written (cutOf faults a.ref) = a.recs := by
          obtain ⟨i, hi, hiw⟩ := written_prefix a (cutOf faults a.ref)
          rw [hiw] at ha ⊢
          rw [List.length_take] at ha
          exact List.take_of_length_le (by omega)
        simp [storeOutF, emitCut_eq, hwa, hout, render_cons]
    · obtain ⟨j, hj, hjw⟩ := written_prefix a (cutOf faults a.ref)
      have hjlt : j < a.recs.length := by
        rcases Nat.lt_or_ge j a.recs.length with h' | h'
        · exact h'
        · exfalso; apply ha; rw [hjw, List.length_take]; omega
      refine ⟨[], a, es, j, rfl, by simp, fun hi => ha ((written_all_iff a _).2 hi), hjlt, hjw, ?_⟩
      simp [storeOutF, emitCut_eq, hjw, render_singleton_truncated]
      intro hm
      omega

/-! ### Loading what a failed `Store` left behind, and the retry -/

theorem truncated_ref (e : Entry) (j : Nat) : (e.truncated j).ref = e.ref := rfl

/-- After a failed `Store`, a second `Store` (nothing damaged any more, every
    remaining line fits) flushes the entries the first one did not reach.
    Loading both outputs yields, in the order written, every entry completely
    — except the one the first call failed on, which comes back with only its
    first `j` records (not at all if `j = 0`), and without any error: the file
    does not show that it was cut. -/
theorem fail_retry_load (faults : List (Nat × Nat)) (es : List Entry)
    (hd : DistinctRefs es) (h0 : ∀ e ∈ es, e.ref ≠ 0)
    (hfail : (storeOutF faults es).2.2 = false)
    (post' : List Entry) (hperm : post'.Perm (storeOutF faults es).2.1)
    (hfit : ∀ e ∈ post', e.AllFit) :
    ∃ pre e post j, es = pre ++ e :: post ∧ (storeOutF faults es).2.1 = post ∧ j < e.recs.length ∧
      e.written (cutOf faults e.ref) = e.recs.take j ∧
      storeOut post' = (render post', [], true) ∧
      loadAll ((storeOutF faults es).1 ++ (storeOut post').1) =
        (((pre ++ [e.truncated j] ++ post').filter nonEmpty).map (fun x => some x.loaded), .ok) := by
  obtain ⟨pre, e, post, j, hes, _, _, hj, hw, hout⟩ := storeOutF_fail faults es hfail
  refine ⟨pre, e, post, j, hes, by rw [hout], hj, hw, storeOut_fits post' hfit, ?_⟩
  rw [hout] at hperm
  simp only at hperm
  rw [hout, storeOut_fits post' hfit]
  simp only
  rw [← render_append]
  -- the written entries still have pairwise different, non-Nil refs
  have hd' : DistinctRefs (pre ++ [e.truncated j] ++ post') := by
    have h1 : DistinctRefs (pre ++ [e] ++ post) := by simpa [hes] using hd
    have h2 : DistinctRefs (pre ++ [e] ++ post') :=
      distinct_perm ((hperm.append_left (pre ++ [e]))) h1
    -- replacing e by its truncation keeps every ref
    have hmap : (pre ++ [e.truncated j] ++ post').map (·.ref) = (pre ++ [e] ++ post').map (·.ref) := by
      simp [truncated_ref]
    have hpw : ∀ (l : List Entry), DistinctRefs l ↔ (l.map (·.ref)).Pairwise (· ≠ ·) := by
      intro l; simp [DistinctRefs, List.pairwise_map]
    rw [hpw, hmap, ← hpw]; exact h2
  have h0' : ∀ x ∈ pre ++ [e.truncated j] ++ post', x.ref ≠ 0 := by
    intro x hx
    simp only [List.mem_append, List.mem_singleton] at hx
    rcases hx with (hx | hx) | hx
    · exact h0 x (by simp [hes, hx])
    · subst hx; rw [truncated_ref]; exact h0 e (by simp [hes])
    · exact h0 x (by rw [hes]; simp [hperm.mem_iff.1 hx])
  rw [← render_filter]
  rw [loadAll_render _ (fun x hx => by simpa using (List.mem_filter.1 hx).2)
    (List.Pairwise.filter _ hd')
    (fun x hx => h0' x (List.mem_filter.1 hx).1)]
  rfl

end ClairModel.JsonBlob
