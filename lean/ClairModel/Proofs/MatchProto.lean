/-
  Helper lemmas for C05 (protocol part): the inductive invariant of the
  EnrichedMatch matching-phase machine and its consequences.
-/
import ClairModel.Lib.Sm
import ClairModel.Model.MatchProto

namespace ClairModel.MatchProto

/-! ### lists of worker phases -/

theorem mem_set_cases {α : Type} {l : List α} {i : Nat} {x a : α} (h : a ∈ l.set i x) : a = x ∨ a ∈ l := by
  rcases List.mem_or_eq_of_mem_set h with h | h
  · exact Or.inr h
  · exact Or.inl h

theorem sumW_set {ws : List WPhase} {i : Nat} {old new : WPhase} (h : ws[i]? = some old) :
    sumW (ws.set i new) + wWeight old = sumW ws + wWeight new := by
  induction ws generalizing i with
  | nil => simp at h
  | cons w ws ih =>
    cases i with
    | zero =>
      simp only [List.getElem?_cons_zero, Option.some.injEq] at h
      subst h
      simp only [List.set_cons_zero, sumW]
      omega
    | succ i =>
      simp only [List.getElem?_cons_succ] at h
      have := ih h
      simp only [List.set_cons_succ, sumW]
      omega

theorem count_held_set {ws : List WPhase} {i : Nat} {old new : WPhase} (h : ws[i]? = some old) (a : Nat) :
    (held (ws.set i new)).count a + (heldOf old).count a = (held ws).count a + (heldOf new).count a := by
  induction ws generalizing i with
  | nil => simp at h
  | cons w ws ih =>
    cases i with
    | zero =>
      simp only [List.getElem?_cons_zero, Option.some.injEq] at h
      subst h
      simp only [List.set_cons_zero, held, List.count_append]
      omega
    | succ i =>
      simp only [List.getElem?_cons_succ] at h
      have := ih h
      simp only [List.set_cons_succ, held, List.count_append]
      omega

theorem returned_of_all {ws : List WPhase} {i : Nat} {p : WPhase} (hall : allReturned ws = true)
    (h : ws[i]? = some p) : returned p = true := by
  unfold allReturned at hall
  rw [List.all_eq_true] at hall
  exact hall p (List.mem_of_getElem? h)

theorem allReturned_held {ws : List WPhase} (hall : allReturned ws = true) : held ws = [] := by
  induction ws with
  | nil => rfl
  | cons w ws ih =>
    unfold allReturned at hall ih
    simp only [List.all_cons, Bool.and_eq_true] at hall
    simp only [held, ih hall.2, List.append_nil]
    cases w <;> simp_all [returned, heldOf]

theorem exists_index {ws : List WPhase} {p : WPhase} (h : p ∈ ws) : ∃ i : Nat, ws[i]? = some p := by
  obtain ⟨i, hi, he⟩ := List.getElem_of_mem h
  exact ⟨i, by rw [List.getElem?_eq_getElem hi, he]⟩

/-! ### the invariant -/

structure Inv (ms : List Nat) (s : State) : Prop where
  nworkers : s.workers.length = s.lim
  noPanic : s.panicked = false
  mSending : s.sender = .sending → s.mCloses = 0
  mAfter : s.sender ≠ .sending → s.mCloses = 1
  vBefore : s.sender ≠ .done → s.vCloses = 0
  vAfter : s.sender = .done → s.vCloses = 1
  doneAllRet : s.sender = .closing ∨ s.sender = .done → allReturned s.workers = true
  nilNeedsClose : s.mCloses = 0 → ∀ w ∈ s.workers, w ≠ .retNil
  errCancels : s.failed = true → s.cancelled = true
  retErrFailed : .retErr ∈ s.workers → s.failed = true
  collDone : s.collectorDone = true → s.vCloses = 1 ∧ s.buf = []
  leftLoop : s.sender ≠ .sending → s.toSend = [] ∨ s.broke = true
  brokeWhy : s.broke = true → s.failed = true ∨ s.parentCancelled = true
  brokeCancelled : s.broke = true → s.cancelled = true
  cancelWhy : s.cancelled = true → s.failed = true ∨ s.parentCancelled = true ∨ (s.sender = .closing ∨ s.sender = .done)
  doneOk : s.sender = .closing ∨ s.sender = .done → s.senderErr = false → s.failed = false ∧ s.broke = false ∧ s.toSend = []
  doneErr : s.sender = .closing ∨ s.sender = .done → s.failed = true → s.senderErr = true
  conserve : s.failed = false → s.broke = false → ∀ a,
    s.toSend.count a + (held s.workers).count a + s.buf.count a + s.collected.count a = ms.count a

theorem inv_init (lim : Nat) (ms : List Nat) : Inv ms (init lim ms) := by
  have hheld : held (List.replicate lim WPhase.idle) = [] := by
    induction lim with
    | zero => rfl
    | succ n ih => simp [List.replicate_succ, held, heldOf, ih]
  constructor <;> simp [init, hheld]

/-- A worker transition replaces phase `old` at index `w` by `new`; this
    bundles what every such transition needs. -/
theorem inv_worker {ms : List Nat} {s : State} (h : Inv ms s) {w : Nat} {old new : WPhase}
    (hw : s.workers[w]? = some old) (hold : returned old = false)
    (s' : State)
    (hws : s'.workers = s.workers.set w new)
    (hlim : s'.lim = s.lim) (hsend : s'.toSend = s.toSend) (hsender : s'.sender = s.sender)
    (hbroke : s'.broke = s.broke) (hm : s'.mCloses = s.mCloses) (hv : s'.vCloses = s.vCloses)
    (hcd : s'.collectorDone = s.collectorDone) (hpc : s'.parentCancelled = s.parentCancelled)
    (hp : s'.panicked = s.panicked)
    (hfailed : s.failed = true → s'.failed = true)
    (hcanc : s.cancelled = true → s'.cancelled = true)
    (hfc : s'.failed = true → s'.cancelled = true)
    (hcw : s'.cancelled = true → s.cancelled = true ∨ s'.failed = true)
    (hnil : new = .retNil → s.mCloses ≠ 0)
    (herr : new = .retErr → s'.failed = true)
    (hbuf : s.collectorDone = true → s'.buf = s.buf)
    (hcons : s'.failed = false → ∀ a,
      (held s'.workers).count a + s'.buf.count a + s'.collected.count a
        = (held s.workers).count a + s.buf.count a + s.collected.count a) :
    Inv ms s' := by
  have hnotdone : s.sender ≠ .done := by
    intro hd
    have := returned_of_all (h.doneAllRet (Or.inr hd)) hw
    rw [hold] at this; cases this
  have hnotafter : ¬ (s.sender = .closing ∨ s.sender = .done) := by
    intro hd
    have := returned_of_all (h.doneAllRet hd) hw
    rw [hold] at this; cases this
  constructor
  · rw [hws, hlim, List.length_set]; exact h.nworkers
  · rw [hp]; exact h.noPanic
  · rw [hsender, hm]; exact h.mSending
  · rw [hsender, hm]; exact h.mAfter
  · rw [hsender, hv]; exact h.vBefore
  · rw [hsender, hv]; exact h.vAfter
  · rw [hsender]; intro hd; exact absurd hd hnotafter
  · rw [hm, hws]
    intro h0 x hx
    rcases mem_set_cases hx with rfl | hx
    · intro hn; exact hnil hn h0
    · exact h.nilNeedsClose h0 x hx
  · exact hfc
  · rw [hws]
    intro hx
    rcases mem_set_cases hx with hx | hx
    · exact herr hx.symm
    · exact hfailed (h.retErrFailed hx)
  · rw [hcd, hv]
    intro hd
    rw [hbuf hd]
    exact h.collDone hd
  · rw [hsender, hsend, hbroke]; exact h.leftLoop
  · rw [hbroke, hpc]
    intro hb
    rcases h.brokeWhy hb with hf | hf
    · exact Or.inl (hfailed hf)
    · exact Or.inr hf
  · rw [hbroke]; intro hb; exact hcanc (h.brokeCancelled hb)
  · rw [hsender, hpc]
    intro hc
    rcases hcw hc with hc | hc
    · rcases h.cancelWhy hc with h1 | h1 | h1
      · exact Or.inl (hfailed h1)
      · exact Or.inr (Or.inl h1)
      · exact Or.inr (Or.inr h1)
    · exact Or.inl hc
  · rw [hsender]; intro hd; exact absurd hd hnotafter
  · rw [hsender]; intro hd; exact absurd hd hnotafter
  · intro hf hb a
    have hf0 : s.failed = false := by
      cases hsf : s.failed with
      | false => rfl
      | true => rw [hfailed hsf] at hf; cases hf
    rw [hbroke] at hb
    have := h.conserve hf0 hb a
    have h2 := hcons hf a
    rw [hsend]
    omega

theorem inv_step {ms : List Nat} {s : State} (h : Inv ms s) (op : Op) : Inv ms (step s op).1 := by
  cases op with
  | handoff w =>
    simp only [step]
    split
    · rename_i m rest hsd hb hts hw
      have hnotdone : s.sender ≠ .done := by rw [hsd]; intro x; cases x
      have hnotafter : ¬ (s.sender = .closing ∨ s.sender = .done) := by rw [hsd]; rintro (x | x) <;> cases x
      constructor <;> simp only []
      · rw [List.length_set]; exact h.nworkers
      · exact h.noPanic
      · exact h.mSending
      · exact h.mAfter
      · exact h.vBefore
      · exact h.vAfter
      · intro hd; exact absurd hd hnotafter
      · intro h0 x hx
        rcases mem_set_cases hx with rfl | hx
        · intro hn; cases hn
        · exact h.nilNeedsClose h0 x hx
      · exact h.errCancels
      · intro hx
        rcases mem_set_cases hx with hx | hx
        · cases hx
        · exact h.retErrFailed hx
      · exact h.collDone
      · intro hne; exact absurd hsd hne
      · exact h.brokeWhy
      · exact h.brokeCancelled
      · exact h.cancelWhy
      · intro hd; exact absurd hd hnotafter
      · intro hd; exact absurd hd hnotafter
      · intro hf hb' a
        have := h.conserve hf hb' a
        have h2 := count_held_set (new := WPhase.got m) hw a
        rw [hts] at this
        simp only [heldOf, List.count_nil, List.count_cons] at this h2 ⊢
        omega
    · exact h
  | senderBreak =>
    simp only [step]
    split
    · rename_i hsd hb hts hc
      have hnotdone : s.sender ≠ .done := by rw [hsd]; intro x; cases x
      have hnotafter : ¬ (s.sender = .closing ∨ s.sender = .done) := by rw [hsd]; rintro (x | x) <;> cases x
      constructor <;> simp only []
      · exact h.nworkers
      · exact h.noPanic
      · exact h.mSending
      · exact h.mAfter
      · exact h.vBefore
      · exact h.vAfter
      · exact h.doneAllRet
      · exact h.nilNeedsClose
      · exact h.errCancels
      · exact h.retErrFailed
      · exact h.collDone
      · intro hne; exact absurd hsd hne
      · intro _
        rcases h.cancelWhy hc with h1 | h1 | h1
        · exact Or.inl h1
        · exact Or.inr h1
        · exact absurd h1 hnotafter
      · intro _; exact hc
      · exact h.cancelWhy
      · intro hd; exact absurd hd hnotafter
      · intro hd; exact absurd hd hnotafter
      · intro _ hb'; cases hb'
    · exact h
  | closeM =>
    simp only [step]
    split
    · rename_i hcond
      obtain ⟨hsd, hleft⟩ := hcond
      have hm0 := h.mSending hsd
      simp only [hm0, if_true]
      constructor <;> simp only []
      · exact h.nworkers
      · exact h.noPanic
      · intro x; cases x
      · intro _; trivial
      · intro _; exact h.vBefore (by rw [hsd]; intro x; cases x)
      · intro x; cases x
      · rintro (x | x) <;> cases x
      · intro x; cases x
      · exact h.errCancels
      · exact h.retErrFailed
      · exact h.collDone
      · intro _; exact hleft
      · exact h.brokeWhy
      · exact h.brokeCancelled
      · intro hc
        rcases h.cancelWhy hc with h1 | h1 | h1
        · exact Or.inl h1
        · exact Or.inr (Or.inl h1)
        · rw [hsd] at h1; rcases h1 with x | x <;> cases x
      · rintro (x | x) <;> cases x
      · rintro (x | x) <;> cases x
      · exact h.conserve
    · exact h
  | check w sees =>
    simp only [step]
    split
    · rename_i m hw
      cases sees with
      | true =>
        simp only [if_true]
        split
        · rename_i hc
          refine inv_worker h hw rfl _ rfl rfl rfl rfl rfl rfl rfl rfl rfl rfl ?_ ?_ ?_ ?_ ?_ ?_ ?_ ?_
          · intro _; rfl
          · exact id
          · intro _; exact hc
          · intro hc'; exact Or.inl hc'
          · intro x; cases x
          · intro _; rfl
          · intro _; rfl
          · intro x; cases x
        · exact h
      | false =>
        simp only [Bool.false_eq_true, if_false]
        refine inv_worker h hw rfl _ rfl rfl rfl rfl rfl rfl rfl rfl rfl rfl ?_ ?_ ?_ ?_ ?_ ?_ ?_ ?_
        · exact id
        · exact id
        · exact h.errCancels
        · intro hc'; exact Or.inl hc'
        · intro x; cases x
        · intro x; cases x
        · intro _; rfl
        · intro _ a
          have := count_held_set (new := WPhase.running m) hw a
          simp only [heldOf] at this ⊢
          omega
    · exact h
  | finish w ok =>
    simp only [step]
    split
    · rename_i m hw
      cases ok with
      | true =>
        simp only [if_true]
        refine inv_worker h hw rfl _ rfl rfl rfl rfl rfl rfl rfl rfl rfl rfl ?_ ?_ ?_ ?_ ?_ ?_ ?_ ?_
        · exact id
        · exact id
        · exact h.errCancels
        · intro hc'; exact Or.inl hc'
        · intro x; cases x
        · intro x; cases x
        · intro _; rfl
        · intro _ a
          have := count_held_set (new := WPhase.sending m) hw a
          simp only [heldOf] at this ⊢
          omega
      | false =>
        simp only [Bool.false_eq_true, if_false]
        refine inv_worker h hw rfl _ rfl rfl rfl rfl rfl rfl rfl rfl rfl rfl ?_ ?_ ?_ ?_ ?_ ?_ ?_ ?_
        · intro _; rfl
        · intro _; rfl
        · intro _; rfl
        · intro _; exact Or.inr rfl
        · intro x; cases x
        · intro _; rfl
        · intro _; rfl
        · intro x; cases x
    · exact h
  | sendV w =>
    simp only [step]
    split
    · rename_i m hw
      have hnotdone : s.sender ≠ .done := by
        intro hd
        have := returned_of_all (h.doneAllRet (Or.inr hd)) hw
        cases this
      have hv0 := h.vBefore hnotdone
      simp only [hv0, ne_eq, not_true_eq_false, if_false]
      split
      · refine inv_worker h hw rfl _ rfl rfl rfl rfl rfl rfl hv0.symm rfl rfl rfl ?_ ?_ ?_ ?_ ?_ ?_ ?_ ?_
        · exact id
        · exact id
        · exact h.errCancels
        · intro hc'; exact Or.inl hc'
        · intro x; cases x
        · intro x; cases x
        · intro hd
          have := (h.collDone hd).1
          omega
        · intro _ a
          have := count_held_set (new := WPhase.idle) hw a
          simp only [heldOf, List.count_append, List.count_nil] at this ⊢
          omega
      · exact h
    · exact h
  | workerExit w =>
    simp only [step]
    split
    · rename_i hw
      split
      · rename_i hm
        refine inv_worker h hw rfl _ rfl rfl rfl rfl rfl rfl rfl rfl rfl rfl ?_ ?_ ?_ ?_ ?_ ?_ ?_ ?_
        · exact id
        · exact id
        · exact h.errCancels
        · intro hc'; exact Or.inl hc'
        · intro _; exact hm
        · intro x; cases x
        · intro _; rfl
        · intro _ a
          have := count_held_set (new := WPhase.retNil) hw a
          simp only [heldOf, List.count_nil] at this ⊢
          omega
      · exact h
    · exact h
  | senderWait =>
    simp only [step]
    split
    · rename_i hcond
      obtain ⟨hsd, hall⟩ := hcond
      have hnotdone : s.sender ≠ .done := by rw [hsd]; intro x; cases x
      have hnotsending : s.sender ≠ .sending := by rw [hsd]; intro x; cases x
      constructor <;> simp only []
      · exact h.nworkers
      · exact h.noPanic
      · intro x; cases x
      · intro _; exact h.mAfter hnotsending
      · intro _; exact h.vBefore hnotdone
      · intro x; cases x
      · intro _; exact hall
      · exact h.nilNeedsClose
      · intro _; trivial
      · exact h.retErrFailed
      · exact h.collDone
      · intro _; exact h.leftLoop hnotsending
      · exact h.brokeWhy
      · intro _; trivial
      · intro _; exact Or.inr (Or.inr (Or.inl trivial))
      · intro _ herr
        have hf : s.failed = false := by
          cases hf : s.failed with
          | false => rfl
          | true => simp [hf] at herr
        have hp : s.parentCancelled = false := by
          cases hp : s.parentCancelled with
          | false => rfl
          | true => simp [hp] at herr
        have hb : s.broke = false := by
          cases hb : s.broke with
          | false => rfl
          | true =>
            rcases h.brokeWhy hb with h1 | h1
            · rw [hf] at h1; cases h1
            · rw [hp] at h1; cases h1
        refine ⟨hf, hb, ?_⟩
        rcases h.leftLoop hnotsending with h1 | h1
        · exact h1
        · rw [hb] at h1; cases h1
      · intro _ hf; simp [hf]
      · exact h.conserve
    · exact h
  | closeV =>
    simp only [step]
    split
    · rename_i hsd
      have hnotdone : s.sender ≠ .done := by rw [hsd]; intro x; cases x
      have hnotsending : s.sender ≠ .sending := by rw [hsd]; intro x; cases x
      have hv0 := h.vBefore hnotdone
      simp only [hv0, if_true]
      constructor <;> simp only []
      · exact h.nworkers
      · exact h.noPanic
      · intro x; cases x
      · intro _; exact h.mAfter hnotsending
      · intro x; exact absurd rfl x
      · intro _; trivial
      · intro _; exact h.doneAllRet (Or.inl hsd)
      · exact h.nilNeedsClose
      · exact h.errCancels
      · exact h.retErrFailed
      · intro hd; exact ⟨trivial, (h.collDone hd).2⟩
      · intro _; exact h.leftLoop hnotsending
      · exact h.brokeWhy
      · exact h.brokeCancelled
      · intro hc
        rcases h.cancelWhy hc with h1 | h1 | h1
        · exact Or.inl h1
        · exact Or.inr (Or.inl h1)
        · exact Or.inr (Or.inr (Or.inr trivial))
      · intro _; exact h.doneOk (Or.inl hsd)
      · intro _; exact h.doneErr (Or.inl hsd)
      · exact h.conserve
    · exact h
  | collect =>
    simp only [step]
    split
    · rename_i m rest hcd hbuf
      constructor <;> simp only []
      · exact h.nworkers
      · exact h.noPanic
      · exact h.mSending
      · exact h.mAfter
      · exact h.vBefore
      · exact h.vAfter
      · exact h.doneAllRet
      · exact h.nilNeedsClose
      · exact h.errCancels
      · exact h.retErrFailed
      · intro hd; rw [hcd] at hd; cases hd
      · exact h.leftLoop
      · exact h.brokeWhy
      · exact h.brokeCancelled
      · exact h.cancelWhy
      · exact h.doneOk
      · exact h.doneErr
      · intro hf hb a
        have := h.conserve hf hb a
        rw [hbuf] at this
        simp only [List.count_cons, List.count_append, List.count_nil] at this ⊢
        omega
    · exact h
  | collectorEnd =>
    simp only [step]
    split
    · rename_i hcond
      obtain ⟨hcd, hbuf, hv⟩ := hcond
      constructor <;> simp only []
      · exact h.nworkers
      · exact h.noPanic
      · exact h.mSending
      · exact h.mAfter
      · exact h.vBefore
      · exact h.vAfter
      · exact h.doneAllRet
      · exact h.nilNeedsClose
      · exact h.errCancels
      · exact h.retErrFailed
      · intro _
        refine ⟨?_, hbuf⟩
        by_cases hd : s.sender = .done
        · exact h.vAfter hd
        · exact absurd (h.vBefore hd) hv
      · exact h.leftLoop
      · exact h.brokeWhy
      · exact h.brokeCancelled
      · exact h.cancelWhy
      · exact h.doneOk
      · exact h.doneErr
      · exact h.conserve
    · exact h
  | cancelParent =>
    simp only [step]
    split
    · exact h
    · constructor <;> simp only []
      · exact h.nworkers
      · exact h.noPanic
      · exact h.mSending
      · exact h.mAfter
      · exact h.vBefore
      · exact h.vAfter
      · exact h.doneAllRet
      · exact h.nilNeedsClose
      · intro _; trivial
      · exact h.retErrFailed
      · exact h.collDone
      · exact h.leftLoop
      · intro _; exact Or.inr trivial
      · intro _; trivial
      · intro _; exact Or.inr (Or.inl trivial)
      · exact h.doneOk
      · exact h.doneErr
      · exact h.conserve

/-! ### consequences -/

theorem reachable_inv (lim : Nat) (ms : List Nat) (ops : List Op) :
    Inv ms (Sm.run step (init lim ms) ops) :=
  Sm.invariant_run (Inv := Inv ms) (fun _ op h => inv_step h op) ops _ (inv_init lim ms)

/-- A transition that reports a panic leaves the flag set. -/
theorem panic_sets_flag (s : State) (op : Op) (h : (step s op).2 = .panic) : (step s op).1.panicked = true := by
  cases op <;> simp only [step] at h ⊢ <;> (repeat' split at h) <;> simp_all

theorem step_never_panics {ms : List Nat} {s : State} (h : Inv ms s) (op : Op) : (step s op).2 ≠ .panic := by
  intro hp
  have := (inv_step h op).noPanic
  rw [panic_sets_flag s op hp] at this
  cases this

theorem lim_const (s : State) (op : Op) : (step s op).1.lim = s.lim := by
  cases op <;> simp only [step] <;> (repeat' split) <;> rfl

/-- Every transition that happens decreases the measure. -/
theorem step_decreases (s : State) (op : Op) (h : (step s op).2 = .ok) :
    measure (step s op).1 < measure s := by
  cases op with
  | handoff w =>
    simp only [step] at h ⊢
    split at h
    · rename_i m rest hsd hb hts hw
      have := sumW_set (new := WPhase.got m) hw
      simp [measure, hsd, hb, hts, hw, wWeight] at this ⊢
      omega
    · cases h
  | senderBreak =>
    simp only [step] at h ⊢
    split at h
    · rename_i hsd hb hts hc
      simp [measure, hsd, hb, hts, hc]
    · cases h
  | closeM =>
    simp only [step] at h ⊢
    split at h
    · rename_i hcond
      split at h
      · rename_i hm
        simp [measure, hcond, hm, sWeight]
      · cases h
    · cases h
  | check w sees =>
    simp only [step] at h ⊢
    split at h
    · rename_i m hw
      cases sees with
      | true =>
        cases hc : s.cancelled with
        | true =>
          have := sumW_set (new := WPhase.retErr) hw
          simp [measure, hw, hc, wWeight] at this ⊢
          omega
        | false => simp [hc] at h
      | false =>
        have := sumW_set (new := WPhase.running m) hw
        simp [measure, hw, wWeight] at this ⊢
        omega
    · cases h
  | finish w ok =>
    simp only [step] at h ⊢
    split at h
    · rename_i m hw
      cases ok with
      | true =>
        have := sumW_set (new := WPhase.sending m) hw
        simp [measure, hw, wWeight] at this ⊢
        omega
      | false =>
        have := sumW_set (new := WPhase.retErr) hw
        simp [measure, hw, wWeight] at this ⊢
        omega
    · cases h
  | sendV w =>
    simp only [step] at h ⊢
    split at h
    · rename_i m hw
      split at h
      · cases h
      · rename_i hv
        split at h
        · rename_i hlt
          have := sumW_set (new := WPhase.idle) hw
          simp [measure, hw, hv, hlt, wWeight] at this ⊢
          omega
        · cases h
    · cases h
  | workerExit w =>
    simp only [step] at h ⊢
    split at h
    · rename_i hw
      split at h
      · rename_i hm
        have := sumW_set (new := WPhase.retNil) hw
        simp [measure, hw, hm, wWeight] at this ⊢
        omega
      · cases h
    · cases h
  | senderWait =>
    simp only [step] at h ⊢
    split at h
    · rename_i hcond
      simp [measure, hcond, sWeight]
    · cases h
  | closeV =>
    simp only [step] at h ⊢
    split at h
    · rename_i hcond
      split at h
      · rename_i hv
        simp [measure, hcond, hv, sWeight]
      · cases h
    · cases h
  | collect =>
    simp only [step] at h ⊢
    split at h
    · rename_i m rest hcd hbuf
      simp [measure, hcd, hbuf]
    · cases h
  | collectorEnd =>
    simp only [step] at h ⊢
    split at h
    · rename_i hcond
      simp [measure, hcond]
    · cases h
  | cancelParent =>
    simp only [step] at h ⊢
    split at h
    · cases h
    · rename_i hp
      simp [measure, hp]

/-- Are all operations of the sequence transitions that happen? -/
def allOk (s : State) : List Op → Bool
  | [] => true
  | op :: ops => (step s op).2 == .ok && allOk (step s op).1 ops

theorem run_length_bound (s : State) (ops : List Op) (h : allOk s ops = true) :
    ops.length + measure (Sm.run step s ops) ≤ measure s := by
  induction ops generalizing s with
  | nil => simp
  | cons op ops ih =>
    simp only [allOk, Bool.and_eq_true, beq_iff_eq] at h
    have h1 := step_decreases s op h.1
    have h2 := ih _ h.2
    simp only [Sm.run_cons, List.length_cons]
    omega

theorem sumW_replicate_idle (n : Nat) : sumW (List.replicate n WPhase.idle) = n := by
  induction n with
  | zero => rfl
  | succ n ih => simp only [List.replicate_succ, sumW, wWeight, ih]; omega

theorem measure_init (lim : Nat) (ms : List Nat) : measure (init lim ms) = 6 * ms.length + lim + 6 := by
  simp [measure, init, sumW_replicate_idle, sWeight]

/-- Deadlock freedom: a state that satisfies the invariant and in which not
    every goroutine has returned has a transition that can happen (an honest
    one, and not the environment's `cancelParent`). -/
theorem exists_enabled {ms : List Nat} {s : State} (h : Inv ms s) (hlim : 0 < s.lim) (hnf : final s = false) :
    ∃ op, honest s op = true ∧ (step s op).2 = .ok := by
  cases hall : allReturned s.workers with
  | false =>
    unfold allReturned at hall
    rw [List.all_eq_false] at hall
    obtain ⟨p, hp, hret⟩ := hall
    obtain ⟨i, hi⟩ := exists_index hp
    cases p with
    | retNil => simp [returned] at hret
    | retErr => simp [returned] at hret
    | got m =>
      refine ⟨.check i s.cancelled, by simp [honest], ?_⟩
      simp only [step, hi]
      cases s.cancelled <;> simp
    | running m =>
      exact ⟨.finish i true, rfl, by simp [step, hi]⟩
    | sending m =>
      have hnotdone : s.sender ≠ .done := by
        intro hd
        have := returned_of_all (h.doneAllRet (Or.inr hd)) hi
        cases this
      have hv0 := h.vBefore hnotdone
      by_cases hlt : s.buf.length < s.lim
      · exact ⟨.sendV i, rfl, by simp [step, hi, hv0, hlt]⟩
      · cases hbuf : s.buf with
        | nil => rw [hbuf] at hlt; simp at hlt; omega
        | cons b rest =>
          cases hcd : s.collectorDone with
          | true =>
            have := (h.collDone hcd).2
            rw [hbuf] at this; cases this
          | false => exact ⟨.collect, rfl, by simp [step, hcd, hbuf]⟩
    | idle =>
      by_cases hm : s.mCloses = 0
      · have hsd : s.sender = .sending := by
          cases hs : s.sender with
          | sending => rfl
          | waiting => have := h.mAfter (by rw [hs]; intro x; cases x); omega
          | closing => have := h.mAfter (by rw [hs]; intro x; cases x); omega
          | done => have := h.mAfter (by rw [hs]; intro x; cases x); omega
        cases hb : s.broke with
        | true => exact ⟨.closeM, rfl, by simp [step, hsd, hb, hm]⟩
        | false =>
          cases hts : s.toSend with
          | nil => exact ⟨.closeM, rfl, by simp [step, hsd, hts, hm]⟩
          | cons m rest => exact ⟨.handoff i, rfl, by simp [step, hsd, hb, hts, hi]⟩
      · exact ⟨.workerExit i, rfl, by simp [step, hi, hm]⟩
  | true =>
    cases hs : s.sender with
    | sending =>
      have hm := h.mSending hs
      cases hb : s.broke with
      | true => exact ⟨.closeM, rfl, by simp [step, hs, hb, hm]⟩
      | false =>
        cases hts : s.toSend with
        | nil => exact ⟨.closeM, rfl, by simp [step, hs, hts, hm]⟩
        | cons m rest =>
          -- every worker has returned although mCh is open: each returned an error, mctx is cancelled
          have hne : 0 < s.workers.length := by rw [h.nworkers]; exact hlim
          obtain ⟨p, hp⟩ := List.exists_mem_of_length_pos hne
          obtain ⟨i, hi⟩ := exists_index hp
          have hret := returned_of_all hall hi
          have hc : s.cancelled = true := by
            cases p with
            | retNil => exact absurd rfl (h.nilNeedsClose hm _ hp)
            | retErr => exact h.errCancels (h.retErrFailed hp)
            | idle => cases hret
            | got _ => cases hret
            | running _ => cases hret
            | sending _ => cases hret
          exact ⟨.senderBreak, rfl, by simp [step, hs, hb, hts, hc]⟩
    | waiting =>
      exact ⟨.senderWait, rfl, by simp [step, hs, hall]⟩
    | closing =>
      have hv0 := h.vBefore (by rw [hs]; intro x; cases x)
      exact ⟨.closeV, rfl, by simp [step, hs, hv0]⟩
    | done =>
      have hv1 := h.vAfter hs
      cases hcd : s.collectorDone with
      | true => simp [final, hs, hcd, hall] at hnf
      | false =>
        cases hbuf : s.buf with
        | nil => exact ⟨.collectorEnd, rfl, by simp [step, hcd, hbuf, hv1]⟩
        | cons b rest => exact ⟨.collect, rfl, by simp [step, hcd, hbuf]⟩

/-- In a final state without error the collector has folded exactly the
    results of all matchers, each once. -/
theorem final_ok_collected {ms : List Nat} {s : State} (h : Inv ms s) (hf : final s = true)
    (hok : s.senderErr = false) : s.collected.Perm ms := by
  simp only [final, Bool.and_eq_true, beq_iff_eq] at hf
  obtain ⟨⟨hsd, hcd⟩, hall⟩ := hf
  obtain ⟨hfail, hbroke, hts⟩ := h.doneOk (Or.inr hsd) hok
  have hc := h.conserve hfail hbroke
  rw [List.perm_iff_count]
  intro a
  have := hc a
  rw [hts, allReturned_held hall, (h.collDone hcd).2] at this
  simpa using this

theorem failed_mono (s : State) (op : Op) (h : s.failed = true) : (step s op).1.failed = true := by
  cases op <;> simp only [step] <;> (repeat' split) <;> simp_all

theorem failed_mono_run (s : State) (ops : List Op) (h : s.failed = true) : (Sm.run step s ops).failed = true := by
  induction ops generalizing s with
  | nil => exact h
  | cons op ops ih => exact ih _ (failed_mono s op h)

theorem finish_false_fails (s : State) (w : Nat) (h : (step s (.finish w false)).2 = .ok) :
    (step s (.finish w false)).1.failed = true := by
  simp only [step] at h ⊢
  split
  · simp
  · rename_i hne
    split at h
    · rename_i m hw; exact absurd hw (hne m)
    · cases h

end ClairModel.MatchProto
