/-
  The OSV matcher theorems instantiated with the C12 models of pep440, gem
  and maven.
-/
import ClairModel.Proofs.Matchers
import ClairModel.Model.MatchersLang
import ClairModel.Proofs.Version
import ClairModel.Proofs.Gem
import ClairModel.Proofs.Maven

namespace ClairModel.Matchers
open ClairModel.Order ClairModel.OrderC03 ClairModel.VerCommon

theorem pythonScheme_totalPre : TotalPre pythonScheme.cmp :=
  keyCmp_totalPre Version.cmp_totalPre Pep440.project

theorem rubyScheme_totalPre : TotalPre rubyScheme.cmp := Gem.cmp_totalPre

/-- `a ≤ b`, `b < c` ⇒ `a < c` for pairwise compatible Maven versions. -/
theorem maven_lt_down {a b c : Maven.MV}
    (hab : Maven.compat a b = true) (hbc : Maven.compat b c = true) (hac : Maven.compat a c = true)
    (h₁ : Maven.cmp a b ≠ .gt) (h₂ : Maven.cmp b c = .lt) : Maven.cmp a c = .lt := by
  have l := Maven.cmp_trans_of_compat a b c hab hbc hac h₁ (by simp [h₂])
  cases hh : Maven.cmp a c with
  | lt => rfl
  | gt => exact absurd hh l
  | eq =>
    -- c ≤ a ≤ b gives c ≤ b, contradicting b < c
    have hca : Maven.cmp c a ≠ .gt := by rw [Maven.cmp_swap a c, hh]; simp [Ordering.swap]
    have hcb := Maven.cmp_trans_of_compat c a b (by rw [Maven.compat_symm]; exact hac) hab
      (by rw [Maven.compat_symm]; exact hbc) hca h₁
    rw [Maven.cmp_swap b c, h₂] at hcb
    simp [Ordering.swap] at hcb

theorem maven_le_down {a b c : Maven.MV}
    (hab : Maven.compat a b = true) (hbc : Maven.compat b c = true) (hac : Maven.compat a c = true)
    (h₁ : Maven.cmp a b ≠ .gt) (h₂ : Maven.cmp b c ≠ .gt) : Maven.cmp a c ≠ .gt :=
  Maven.cmp_trans_of_compat a b c hab hbc hac h₁ h₂

end ClairModel.Matchers
