/-
  C18 — base x temporal for v2 (72 900 vectors): `V2.Score` of a vector with
  base and temporal metrics equals round_to_1_decimal(BaseScore x E x RL x RC)
  over the published base score (from the base sweep and two rounding
  identities; the temporal step of the code is the published one verbatim).
-/
import ClairModel.Proofs.CvssV2
import ClairModel.Proofs.CvssPrint2
namespace ClairModel.Cvss
open ClairModel.Gen.Cvss ClairModel.CvssSpec

/-! ### base × temporal (v2) -/

/-- the v2 vector holding the six base metrics and the three temporal metrics (packed bytes) -/
def mk2t (av ac au c i a e rl rc : Nat) : Vec := ⟨0, [av, ac, au, c, i, a, e, rl, rc, 0, 0, 0, 0, 0]⟩

/-- TemporalScore = round_to_1_decimal(BaseScore × E × RL × RC) (guide 3.2.2) -/
def temporal2 (base10 : Int) (e rl rc : Bytes) : Option Int :=
  match w2 6 e, w2 7 rl, w2 8 rc with
  | some e, some rl, some rc => some (Q.roundHalfAway (tenth base10 * e * rl * rc * ten))
  | _, _, _ => none

theorem roundHalfAway_int (t : Int) (n : Int) (d : Nat) (hd : 0 < d) (h : n = t * (d : Int)) :
    Q.roundHalfAway ⟨n, d⟩ = t := by
  have hd' : (0 : Int) < (d : Int) := by omega
  subst h
  unfold Q.roundHalfAway
  simp only []
  split
  · rename_i h0
    have e : 2 * (t * (d : Int)) + (d : Int) = (d : Int) + (2 * (d : Int)) * t := by
      rw [Int.mul_comm t, ← Int.mul_assoc, Int.add_comm, Int.mul_comm (2 * (d : Int))]
    rw [e, Int.add_mul_ediv_left _ _ (by omega : (2 * (d : Int)) ≠ 0)]
    have : (d : Int) / (2 * (d : Int)) = 0 := Int.ediv_eq_zero_of_lt (by omega) (by omega)
    omega
  · rename_i h0
    have e : 2 * -(t * (d : Int)) + (d : Int) = (d : Int) + (2 * (d : Int)) * (-t) := by
      rw [Int.neg_mul_eq_neg_mul, Int.mul_comm (-t), ← Int.mul_assoc, Int.add_comm, Int.mul_comm (2 * (d : Int))]
    rw [e, Int.add_mul_ediv_left _ _ (by omega : (2 * (d : Int)) ≠ 0)]
    have : (d : Int) / (2 * (d : Int)) = 0 := Int.ediv_eq_zero_of_lt (by omega) (by omega)
    omega

/-- with E, RL, RC Not Defined (weight 1) the temporal step returns the base score -/
theorem v2Temporal10_id (w : V2Vals) (b : Int) (he : w.e = milli 1000) (hrl : w.rl = milli 1000) (hrc : w.rc = milli 1000) :
    v2Temporal10 w b = b := by
  unfold v2Temporal10 v2Round10
  rw [he, hrl, hrc]
  exact roundHalfAway_int b _ _ (by show 0 < 10 * 1000 * 1000 * 1000 * 1; decide) (by
    show b * 1000 * 1000 * 1000 * 10 = b * ((10 * 1000 * 1000 * 1000 * 1 : Nat) : Int)
    have : ((10 * 1000 * 1000 * 1000 * 1 : Nat) : Int) = 10000000000 := by decide
    rw [this]; omega)

/-- with CDP and TD Not Defined (0 and 1) the environmental step returns its argument -/
theorem v2Env10_id (w : V2Vals) (t : Int) (hc : w.cdp = milli 0) (ht : w.td = milli 1000) : v2Env10 w t = t := by
  unfold v2Env10 v2Round10
  rw [hc, ht]
  exact roundHalfAway_int t _ _ (by show 0 < 10 * (1 * 10 * 1000) * 1000 * 1; decide) (by
    show (t * ((1 * 10 * 1000 : Nat) : Int) + (10 * ((10 : Nat) : Int) - t * ((1 : Nat) : Int)) * 0 * ((10 : Nat) : Int)) * 1000 * 10
        = t * ((10 * (1 * 10 * 1000) * 1000 * 1 : Nat) : Int)
    have e1 : ((1 * 10 * 1000 : Nat) : Int) = 10000 := by decide
    have e2 : ((10 * (1 * 10 * 1000) * 1000 * 1 : Nat) : Int) = 100000000 := by decide
    rw [e1, e2]
    simp only [Int.mul_zero, Int.zero_mul, Int.add_zero]
    omega)

theorem w2_defaults : w2 6 nd = some (milli 1000) ∧ w2 7 nd = some (milli 1000) ∧ w2 8 nd = some (milli 1000) ∧
    w2 9 nd = some (milli 0) ∧ w2 10 nd = some (milli 1000) ∧ w2 11 nd = some (milli 1000) ∧
    w2 12 nd = some (milli 1000) ∧ w2 13 nd = some (milli 1000) := by decide

theorem pk2_temporal : ∀ m, 6 ≤ m → m < 9 → ∀ b ∈ pk2 m, b ≠ 0 ∧ v2Unparse m b ∈ v2GrammarValues.getD m [] ∧
    (w2 m (v2Unparse m b)).isSome = true := by
  intro m h1 h2
  have : m = 6 ∨ m = 7 ∨ m = 8 := by omega
  rcases this with rfl | rfl | rfl <;> decide

theorem v2Val_mk2t (av ac au c i a e rl rc : Nat) (he : e ≠ 0) (hrl : rl ≠ 0) (hrc : rc ≠ 0) :
    v2Val (mk2t av ac au c i a e rl rc) 0 = lk2 0 [av] ∧ v2Val (mk2t av ac au c i a e rl rc) 1 = lk2 1 [ac] ∧
    v2Val (mk2t av ac au c i a e rl rc) 2 = lk2 2 [au] ∧ v2Val (mk2t av ac au c i a e rl rc) 3 = lk2 3 [c] ∧
    v2Val (mk2t av ac au c i a e rl rc) 4 = lk2 4 [i] ∧ v2Val (mk2t av ac au c i a e rl rc) 5 = lk2 5 [a] ∧
    v2Val (mk2t av ac au c i a e rl rc) 6 = lk2 6 (v2Unparse 6 e) ∧
    v2Val (mk2t av ac au c i a e rl rc) 7 = lk2 7 (v2Unparse 7 rl) ∧
    v2Val (mk2t av ac au c i a e rl rc) 8 = lk2 8 (v2Unparse 8 rc) ∧
    v2Val (mk2t av ac au c i a e rl rc) 9 = lk2 9 nd ∧
    v2Val (mk2t av ac au c i a e rl rc) 10 = lk2 10 nd ∧ v2Val (mk2t av ac au c i a e rl rc) 11 = lk2 11 nd ∧
    v2Val (mk2t av ac au c i a e rl rc) 12 = lk2 12 nd ∧ v2Val (mk2t av ac au c i a e rl rc) 13 = lk2 13 nd := by
  have g6 : v2ScoreByte (mk2t av ac au c i a e rl rc) 6 = e := by
    show (if 6 ≤ 5 then e else if 6 ≤ 8 ∧ e = 0 then cN else if 6 ≤ 13 ∧ e = 0 then _ else e) = e
    simp [he]
  have g7 : v2ScoreByte (mk2t av ac au c i a e rl rc) 7 = rl := by
    show (if 7 ≤ 5 then rl else if 7 ≤ 8 ∧ rl = 0 then cN else if 7 ≤ 13 ∧ rl = 0 then _ else rl) = rl
    simp [hrl]
  have g8 : v2ScoreByte (mk2t av ac au c i a e rl rc) 8 = rc := by
    show (if 8 ≤ 5 then rc else if 8 ≤ 8 ∧ rc = 0 then cN else if 8 ≤ 13 ∧ rc = 0 then _ else rc) = rc
    simp [hrc]
  refine ⟨rfl, rfl, rfl, rfl, rfl, rfl, ?_, ?_, ?_, rfl, rfl, rfl, rfl, rfl⟩
  · simp only [v2Val, g6]; rfl
  · simp only [v2Val, g7]; rfl
  · simp only [v2Val, g8]; rfl

/-- base × temporal, v2 (72 900 vectors): `V2.Score` evaluated exactly equals
    round_to_1_decimal(BaseScore × E × RL × RC) over the published base score -/
theorem v2_temporal_facts {av ac au c i a e rl rc : Nat}
    (hav : av ∈ g2 0) (hac : ac ∈ g2 1) (hau : au ∈ g2 2) (hc : c ∈ g2 3) (hi : i ∈ g2 4) (ha : a ∈ g2 5)
    (he : e ∈ pk2 6) (hrl : rl ∈ pk2 7) (hrc : rc ∈ pk2 8) :
    score2 (mk2t av ac au c i a e rl rc) =
      (base2 [av] [ac] [au] [c] [i] [a]).bind fun b =>
        temporal2 b (v2Unparse 6 e) (v2Unparse 7 rl) (v2Unparse 8 rc) := by
  obtain ⟨d6, d7, d8, d9, d10, d11, d12, d13⟩ := w2_defaults
  obtain ⟨ne, ge, se⟩ := pk2_temporal 6 (by decide) (by decide) e he
  obtain ⟨nrl, grl, srl⟩ := pk2_temporal 7 (by decide) (by decide) rl hrl
  obtain ⟨nrc, grc, src⟩ := pk2_temporal 8 (by decide) (by decide) rc hrc
  obtain ⟨h0, h1, h2, h3, h4, h5, h6, h7, h8, h9, h10, h11, h12, h13⟩ := v2Val_mk2t av ac au c i a e rl rc ne nrl nrc
  have henv : v2Environmental (mk2t av ac au c i a e rl rc) = false := rfl
  -- the swept facts about the base vector
  have hsw := sweep2_spec sweep_v2 hav hac hau hc hi ha
  unfold facts2 at hsw
  split at hsw
  · rename_i w ns hw hns
    simp only [forceInt_eq, forceQ_eq, Bool.and_eq_true, decide_eq_true_eq] at hsw
    obtain ⟨hb, _⟩ := hsw
    -- the fields of w
    unfold valsW2 at hw
    split at hw
    · rename_i wav wac wau wc wi wa we wrl wrc wcdp wtd wcr wir war f0 f1 f2 f3 f4 f5 f6 f7 f8 f9 f10 f11 f12 f13
      have := (Option.some.inj hw).symm
      subst this
      rw [d6] at f6; rw [d7] at f7; rw [d8] at f8; rw [d9] at f9; rw [d10] at f10
      rw [d11] at f11; rw [d12] at f12; rw [d13] at f13
      have := Option.some.inj f6; subst this
      have := Option.some.inj f7; subst this
      have := Option.some.inj f8; subst this
      have := Option.some.inj f9; subst this
      have := Option.some.inj f10; subst this
      have := Option.some.inj f11; subst this
      have := Option.some.inj f12; subst this
      have := Option.some.inj f13; subst this
      -- the base score is the inner base value
      rw [v2Env10_id _ _ rfl rfl, v2Temporal10_id _ _ rfl rfl rfl] at hb
      rw [hb]
      -- the temporal weights
      obtain ⟨xe, hxe⟩ := Option.isSome_iff_exists.1 se
      obtain ⟨xrl, hxrl⟩ := Option.isSome_iff_exists.1 srl
      obtain ⟨xrc, hxrc⟩ := Option.isSome_iff_exists.1 src
      have b0 := g2_single 0 (by decide) av hav
      have b1 := g2_single 1 (by decide) ac hac
      have b2 := g2_single 2 (by decide) au hau
      have b3 := g2_single 3 (by decide) c hc
      have b4 := g2_single 4 (by decide) i hi
      have b5 := g2_single 5 (by decide) a ha
      simp only [score2, v2Vals, h0, h1, h2, h3, h4, h5, h6, h7, h8, h9, h10, h11, h12, h13, henv,
        lk2_eq_w2 0 (by decide) _ b0.1, lk2_eq_w2 1 (by decide) _ b1.1, lk2_eq_w2 2 (by decide) _ b2.1,
        lk2_eq_w2 3 (by decide) _ b3.1, lk2_eq_w2 4 (by decide) _ b4.1, lk2_eq_w2 5 (by decide) _ b5.1,
        lk2_eq_w2 6 (by decide) _ ge, lk2_eq_w2 7 (by decide) _ grl, lk2_eq_w2 8 (by decide) _ grc,
        lk2_eq_w2 9 (by decide) nd (nd_mem 9 (by decide) (by decide)),
        lk2_eq_w2 10 (by decide) nd (nd_mem 10 (by decide) (by decide)),
        lk2_eq_w2 11 (by decide) nd (nd_mem 11 (by decide) (by decide)),
        lk2_eq_w2 12 (by decide) nd (nd_mem 12 (by decide) (by decide)),
        lk2_eq_w2 13 (by decide) nd (nd_mem 13 (by decide) (by decide)),
        f0, f1, f2, f3, f4, f5, hxe, hxrl, hxrc, d9, d10, d11, d12, d13, Option.bind_some, temporal2]
      rw [v2Env10_id _ _ rfl rfl]
      rfl
    · simp at hw
  · simp at hsw

end ClairModel.Cvss
