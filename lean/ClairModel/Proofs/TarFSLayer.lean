/-
  C11: the Layer life cycle around the view, and Layer.Files.
-/
import ClairModel.Model.TarFSLayer
set_option linter.unusedSimpArgs false
set_option linter.unusedVariables false
namespace ClairModel.TarFS

theorem layerInit_view (mt : String) (ms : List Member) (fs : FS)
    (hmt : mt ∈ tarMediaTypes) (hnew : newFS ms = .ok fs) :
    layerInit {} mt true ms = ({ init := true, closed := false, sys := some fs, rd := true }, none) := by
  have hc : mediaClass mt = .tar := by
    simp [mediaClass, List.contains_iff_mem, hmt]
  simp [layerInit, hc, hnew]

theorem layerInit_reject (mt : String) (ms : List Member) (e : Err)
    (hmt : mt ∈ tarMediaTypes) (hnew : newFS ms = .error e) :
    layerInit {} mt true ms = ({ init := false, closed := false, sys := none, rd := true }, some (.view e)) := by
  have hc : mediaClass mt = .tar := by
    simp [mediaClass, List.contains_iff_mem, hmt]
  simp [layerInit, hc, hnew]

theorem layerInit_other (mt : String) (ms : List Member) (hmt : mt ∉ tarMediaTypes) :
    (layerInit {} mt true ms).2 = some .media ∧ (layerInit {} mt true ms).1.init = false := by
  have hc : mediaClass mt ≠ .tar := by
    simp only [mediaClass, List.contains_iff_mem, hmt, if_false]
    split <;> simp
  unfold layerInit
  simp only
  cases h : mediaClass mt with
  | tar => exact absurd h hc
  | dirfs => simp
  | unknown => simp

theorem layerInit_twice (st : LayerSt) (mt : String) (d : Bool) (ms : List Member) (h : st.init = true) :
    layerInit st mt d ms = (st, some .twice) := by
  simp [layerInit, h]

theorem layerClose_once (st : LayerSt) (hi : st.init = true) (hc : st.closed = false) :
    (layerClose st).2 = .ok ∧ (layerClose (layerClose st).1).2 = .panic ∧
      layerFS (layerClose st).1 = layerFS st := by
  simp [layerClose, hi, hc, layerFS]

theorem layer_uninit (st : LayerSt) (h : st.init = false) :
    layerFS st = .error .uninit ∧ layerReader st = some .uninit ∧ (layerClose st).2 = .err := by
  simp [layerFS, layerReader, layerClose, h]

/-- Everything `Layer.Files` returns was asked for and is what `fs.ReadFile`
    yields for that name; no name is returned twice. -/
theorem filesWalk_sound (fs : FS) : ∀ (items : List WalkItem) (want : List Bytes) (acc out : List (Bytes × Bytes)),
    filesWalk fs items want acc = .ok out →
    ∀ x ∈ out, x ∈ acc ∨ (x.1 ∈ want ∧ readFileFS fs x.1 = .ok x.2) := by
  intro items
  induction items with
  | nil =>
    intro want acc out h x hx
    simp only [filesWalk, Except.ok.injEq] at h
    subst h
    exact Or.inl (by simpa using hx)
  | cons it rest ih =>
    intro want acc out h x hx
    cases it with
    | readErr p => simp [filesWalk] at h
    | ent p t =>
      simp only [filesWalk] at h
      split at h
      · exact ih want acc out h x hx
      · split at h
        · rename_i hw
          cases hr : readFileFS fs p with
          | error e => simp [hr] at h
          | ok d =>
            simp only [hr] at h
            rcases ih _ _ out h x hx with hacc | ⟨hw', hrd⟩
            · simp only [List.mem_cons] at hacc
              rcases hacc with rfl | hacc
              · exact Or.inr ⟨by simpa [List.contains_iff_mem] using hw, hr⟩
              · exact Or.inl hacc
            · exact Or.inr ⟨(List.mem_filter.1 hw').1, hrd⟩
        · exact ih want acc out h x hx

theorem layerFiles_sound (fs : FS) (paths : List Bytes) (cap : Nat) (l : List (Bytes × Bytes))
    (h : layerFiles fs paths cap = .found l) :
    ∀ x ∈ l, x.1 ∈ paths.map normalizeIn ∧ readFileFS fs x.1 = .ok x.2 := by
  unfold layerFiles at h
  split at h
  · cases h
  · cases h
  · rename_i l' hw
    cases h
    intro x hx
    rcases filesWalk_sound fs _ _ [] _ hw x hx with hacc | hgood
    · simp at hacc
    · exact hgood

end ClairModel.TarFS
