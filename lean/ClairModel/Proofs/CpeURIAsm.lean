/-
  C19 — the assembly of `UnbindURI`: the colon split, the slash of the second
  component, the seven components, the packed edition, components left out at
  the end; which strings are accepted; and the round trip through the naming
  specification's `bind_to_URI` (CpeSpec.bindURI).
-/
import ClairModel.Proofs.CpeURI
import ClairModel.Proofs.CpeAccept

namespace ClairModel.Cpe
open ClairModel.CpeTypes ClairModel.CpeSpec

/-! ### strings.Split at a one-byte separator -/

theorem splitOn_ne_nil (sep : Nat) (s : Str) : splitOn sep s ≠ [] := by
  induction s with
  | nil => simp [splitOn]
  | cons c rest ih =>
    simp only [splitOn]
    split
    · simp
    · cases h : splitOn sep rest with
      | nil => exact absurd h ih
      | cons x xs => simp [consHead]

theorem splitOn_no_sep (sep : Nat) (s : Str) : ∀ c ∈ splitOn sep s, sep ∉ c := by
  induction s with
  | nil => simp [splitOn]
  | cons c rest ih =>
    simp only [splitOn]
    split
    · intro x hx
      rcases List.mem_cons.1 hx with rfl | hx
      · simp
      · exact ih x hx
    · rename_i hc
      cases h : splitOn sep rest with
      | nil => exact absurd h (splitOn_ne_nil sep rest)
      | cons x xs =>
        rw [h] at ih
        intro y hy
        simp only [consHead, List.mem_cons] at hy
        rcases hy with rfl | hy
        · intro hm
          rcases List.mem_cons.1 hm with h1 | h1
          · exact hc h1.symm
          · exact ih x (by simp) h1
        · exact ih y (by simp [hy])

theorem joinColon_splitOn (s : Str) : joinColon (splitOn 58 s) = s := by
  induction s with
  | nil => rfl
  | cons c rest ih =>
    simp only [splitOn]
    split
    · rename_i hc
      cases h : splitOn 58 rest with
      | nil => exact absurd h (splitOn_ne_nil 58 rest)
      | cons x xs => rw [h] at ih; simp [joinColon, ih, hc]
    · rw [joinColon_consHead _ _ (splitOn_ne_nil 58 rest), ih]

theorem splitOn_append_closed (x rest : Str) (hx : 58 ∉ x) :
    splitOn 58 (x ++ 58 :: rest) = x :: splitOn 58 rest := by
  induction x with
  | nil => simp [splitOn]
  | cons c x ih =>
    have hc : c ≠ 58 := fun e => hx (by simp [e])
    have hx' : 58 ∉ x := fun e => hx (by simp [e])
    simp only [List.cons_append, splitOn, hc, if_false, ih hx', consHead]

theorem splitOn_closed (x : Str) (hx : 58 ∉ x) : splitOn 58 x = [x] := by
  induction x with
  | nil => rfl
  | cons c x ih =>
    have hc : c ≠ 58 := fun e => hx (by simp [e])
    have hx' : 58 ∉ x := fun e => hx (by simp [e])
    simp only [splitOn, hc, if_false, ih hx', consHead]

/-- Splitting a colon-joined list of colon-free components gives them back. -/
theorem splitOn_joinColon (comps : List Str) (hne : comps ≠ []) (h : ∀ c ∈ comps, 58 ∉ c) :
    splitOn 58 (joinColon comps) = comps := by
  induction comps with
  | nil => exact absurd rfl hne
  | cons x xs ih =>
    cases xs with
    | nil => simpa [joinColon] using splitOn_closed x (h x (by simp))
    | cons y ys =>
      simp only [joinColon]
      rw [splitOn_append_closed x _ (h x (by simp)), ih (by simp) (fun c hc => h c (by simp [hc]))]

/-! ### trim: trailing colons and trailing empty components -/

/-- The components without the empty ones at the end. -/
def stripNil (cs : List Str) : List Str := (cs.reverse.dropWhile (· == [])).reverse

theorem joinColon_snoc (init : List Str) (last : Str) (h : init ≠ []) :
    joinColon (init ++ [last]) = joinColon init ++ 58 :: last := by
  induction init with
  | nil => exact absurd rfl h
  | cons x xs ih =>
    cases xs with
    | nil => simp [joinColon]
    | cons y ys =>
      have := ih (by simp)
      simp only [List.cons_append, joinColon] at this ⊢
      rw [this]; simp

theorem trimColons_snoc_colon (y : Str) : trimColons (y ++ [58]) = trimColons y := by
  simp [trimColons]

theorem trimColons_snoc_ne (y : Str) (c : Nat) (h : c ≠ 58) : trimColons (y ++ [c]) = y ++ [c] := by
  simp [trimColons, h]

theorem trimColons_nil : trimColons [] = [] := rfl

/-- `trim` of the colon-joined components is the colon-joined list without
    its trailing empty components, when no component ends in a colon. -/
theorem trimColons_joinColon_rev (rs : List Str) (h : ∀ c ∈ rs, ∀ x y, c = x ++ [y] → y ≠ 58) :
    trimColons (joinColon rs.reverse) = joinColon (rs.dropWhile (· == [])).reverse := by
  induction rs with
  | nil => rfl
  | cons r rs ih =>
    have ih' := ih (fun c hc => h c (by simp [hc]))
    simp only [List.reverse_cons]
    by_cases hr : r = []
    · subst hr
      simp only [List.dropWhile_cons, beq_self_eq_true, if_true]
      by_cases hrs : rs = []
      · subst hrs; rfl
      · have hne : rs.reverse ≠ [] := by simpa using hrs
        rw [joinColon_snoc _ _ hne]
        have : joinColon rs.reverse ++ [58] = joinColon rs.reverse ++ [58] := rfl
        rw [trimColons_snoc_colon, ih']
    · have hbeq : (r == []) = false := by simp [hr]
      simp only [List.dropWhile_cons, hbeq, Bool.false_eq_true, if_false, List.reverse_cons]
      -- r = x ++ [y] with y ≠ 58
      obtain ⟨x, y, hxy⟩ : ∃ x y, r = x ++ [y] := by
        refine ⟨r.dropLast, r.getLast hr, ?_⟩
        exact (List.dropLast_concat_getLast hr).symm
      have hy := h r (by simp) x y hxy
      by_cases hrs : rs = []
      · subst hrs
        simp only [List.reverse_nil, List.nil_append, joinColon]
        rw [hxy]; exact trimColons_snoc_ne x y hy
      · have hne : rs.reverse ≠ [] := by simpa using hrs
        rw [joinColon_snoc _ _ hne, hxy]
        have : joinColon rs.reverse ++ 58 :: (x ++ [y]) = (joinColon rs.reverse ++ 58 :: x) ++ [y] := by simp
        rw [this]; exact trimColons_snoc_ne _ y hy

theorem trimColons_joinColon (cs : List Str) (h : ∀ c ∈ cs, ∀ x y, c = x ++ [y] → y ≠ 58) :
    trimColons (joinColon cs) = joinColon (stripNil cs) := by
  have := trimColons_joinColon_rev cs.reverse (fun c hc => h c (by simpa using hc))
  simpa [stripNil] using this

theorem dropWhile_nil_decomp (rs : List Str) : ∃ k, rs = List.replicate k [] ++ rs.dropWhile (· == []) := by
  induction rs with
  | nil => exact ⟨0, rfl⟩
  | cons r rs ih =>
    by_cases hr : r = []
    · subst hr
      obtain ⟨k, hk⟩ := ih
      refine ⟨k + 1, ?_⟩
      simp only [List.dropWhile_cons, beq_self_eq_true, if_true, List.replicate_succ, List.cons_append]
      rw [← hk]
    · have hbeq : (r == []) = false := by simp [hr]
      refine ⟨0, ?_⟩
      simp only [List.dropWhile_cons, hbeq, Bool.false_eq_true, if_false, List.replicate_zero, List.nil_append]

/-- The components are the stripped ones followed by empty components. -/
theorem stripNil_decomp (cs : List Str) : ∃ k, cs = stripNil cs ++ List.replicate k [] := by
  obtain ⟨k, hk⟩ := dropWhile_nil_decomp cs.reverse
  refine ⟨k, ?_⟩
  have := congrArg List.reverse hk
  simpa [stripNil] using this

/-! ### the prefix and the colon split -/

theorem uriInit_eq : uriInit = [⟨.any, []⟩, ⟨.any, []⟩, ⟨.any, []⟩, ⟨.any, []⟩, ⟨.any, []⟩, ⟨.any, []⟩, ⟨.any, []⟩,
    unsetValue, unsetValue, unsetValue, unsetValue] := by decide

theorem uriAttrs_lt (i : Nat) (h : i < 7) : Gen.Cpe.uriAttrs[i]? = some i := by
  have : i = 0 ∨ i = 1 ∨ i = 2 ∨ i = 3 ∨ i = 4 ∨ i = 5 ∨ i = 6 := by omega
  rcases this with rfl | rfl | rfl | rfl | rfl | rfl | rfl <;> rfl

theorem uriAttrs_ge (i : Nat) (h : 7 ≤ i) : Gen.Cpe.uriAttrs[i]? = none := by
  apply List.getElem?_eq_none
  have : Gen.Cpe.uriAttrs.length = 7 := by decide
  omega

/-- What `UnbindURI` does after the prefix check. -/
def uriFinish (r : Option WFN) : Option WFN :=
  match r with
  | none => none
  | some w => match valid w with
    | .ok => some w
    | _ => none

theorem unbindURI_prefix (X : Str) :
    unbindURI (Gen.Cpe.cpe22Prefix ++ X) = uriFinish (uriLoop 0 (splitOn 58 X) uriInit) := by
  have hp : Gen.Cpe.cpe22Prefix.isPrefixOf (Gen.Cpe.cpe22Prefix ++ X) = true := by
    simp [Gen.Cpe.cpe22Prefix, List.isPrefixOf]
  have hsplit : splitOn 58 (Gen.Cpe.cpe22Prefix ++ X) = [99, 112, 101] :: consHead 47 (splitOn 58 X) := by
    simp [Gen.Cpe.cpe22Prefix, splitOn, consHead]
  unfold unbindURI
  simp only [hp, Bool.not_true, Bool.false_eq_true, if_false, hsplit, List.drop_succ_cons, List.drop_zero]
  cases h : splitOn 58 X with
  | nil => exact absurd h (splitOn_ne_nil 58 X)
  | cons c0 rest =>
    simp only [consHead, trimSlash, uriFinish]
    cases uriLoop 0 (c0 :: rest) uriInit with
    | none => rfl
    | some w => cases valid w <;> rfl

theorem unbindURI_noprefix (s : Str) (h : Gen.Cpe.cpe22Prefix.isPrefixOf s = false) : unbindURI s = none := by
  unfold unbindURI; simp [h]

theorem prefix_decomp (s : Str) (h : Gen.Cpe.cpe22Prefix.isPrefixOf s = true) :
    ∃ X, s = Gen.Cpe.cpe22Prefix ++ X := by
  obtain ⟨t, ht⟩ := List.isPrefixOf_iff_prefix.1 h
  exact ⟨t, ht.symm⟩

/-! ### one step of the loop -/

theorem uriLoop_step (i : Nat) (hi : i < 7) (h5 : i ≠ 5) (c : Str) (rest : List Str) (w : WFN) :
    uriLoop i (c :: rest) w =
      match unbindURIAttr c with
      | none => none
      | some v => uriLoop (i + 1) rest (w.set i v) := by
  rw [uriLoop]
  simp only [uriAttrs_lt i hi, h5, false_and, if_false]
  cases unbindURIAttr c <;> rfl

/-- The edition component: packed or not. -/
def uriEd (c : Str) (w : WFN) : Option WFN :=
  if c.head? = some 126 then uriPacked ((splitN 126 c 6).drop 1) Gen.Cpe.uriPackedAttrs w
  else match unbindURIAttr c with
    | none => none
    | some v => some (w.set 5 v)

theorem uriLoop_step5 (c : Str) (rest : List Str) (w : WFN) :
    uriLoop 5 (c :: rest) w =
      match uriEd c w with
      | none => none
      | some w' => uriLoop 6 rest w' := by
  rw [uriLoop]
  simp only [uriAttrs_lt 5 (by omega), true_and, uriEd]
  split
  · rfl
  · cases unbindURIAttr c <;> rfl

theorem uriLoop_len (cs : List Str) (i : Nat) (w w' : WFN) (hi0 : i ≤ 7) (h : uriLoop i cs w = some w') :
    i + cs.length ≤ 7 := by
  induction cs generalizing i w with
  | nil => simpa using hi0
  | cons c rest ih =>
    by_cases hi : i < 7
    · rw [uriLoop] at h
      simp only [uriAttrs_lt i hi] at h
      split at h
      · split at h
        · cases h
        · have := ih _ _ (by omega) h; simp; omega
      · split at h
        · cases h
        · have := ih _ _ (by omega) h; simp; omega
    · rw [uriLoop] at h
      simp [uriAttrs_ge i (by omega)] at h

/-! ### components left out at the end read as ANY, like empty ones -/

theorem unbindURIAttr_nil : unbindURIAttr [] = some ⟨.any, []⟩ := rfl

theorem set_self (w : WFN) (i : Nat) (v : Value) (h : w[i]? = some v) : w.set i v = w := by
  induction w generalizing i with
  | nil => rfl
  | cons a w ih =>
    cases i with
    | zero => simp at h; simp [h]
    | succ i => simp at h; simp [ih i h]

theorem uriLoop_empties (k i : Nat) (w : WFN) (hk : i + k ≤ 7)
    (hw : ∀ j, i ≤ j → j < i + k → w[j]? = some ⟨.any, []⟩) :
    uriLoop i (List.replicate k []) w = some w := by
  induction k generalizing i with
  | zero => simp [uriLoop]
  | succ k ih =>
    rw [List.replicate_succ, uriLoop]
    simp only [uriAttrs_lt i (by omega), List.head?_nil, unbindURIAttr_nil]
    have : (i = 5 ∧ (none : Option Nat) = some 126) ↔ False := by simp
    simp only [this, if_false]
    rw [set_self w i _ (hw i (by omega) (by omega))]
    exact ih (i + 1) (by omega) (fun j h1 h2 => hw j (by omega) (by omega))

theorem uriPacked_frame (ps : List Str) (as : List Nat) (w w' : WFN) (j : Nat) (hj : j ∉ as)
    (h : uriPacked ps as w = some w') : w'[j]? = w[j]? := by
  induction ps generalizing as w with
  | nil => simp [uriPacked] at h; rw [h]
  | cons p ps ih =>
    cases as with
    | nil => simp [uriPacked] at h
    | cons a as =>
      simp only [uriPacked] at h
      split at h
      · cases h
      · rename_i v hv
        have hja : j ≠ a := fun e => hj (by simp [e])
        have := ih as (w.set a v) (fun e => hj (by simp [e])) h
        rw [this, List.getElem?_set_ne (Ne.symm hja)]

/-- Empty components at the end change nothing. -/
theorem uriLoop_pad (cs : List Str) (k i : Nat) (w : WFN) (hk : i + cs.length + k ≤ 7)
    (hw : ∀ j, i + cs.length ≤ j → j < i + cs.length + k → w[j]? = some ⟨.any, []⟩) :
    uriLoop i (cs ++ List.replicate k []) w = uriLoop i cs w := by
  induction cs generalizing i w with
  | nil =>
    simp only [List.nil_append]
    rw [uriLoop_empties k i w (by simpa using hk) (by simpa using hw)]
    simp [uriLoop]
  | cons c rest ih =>
    simp only [List.length_cons] at hk hw
    have hi : i < 7 := by omega
    simp only [List.cons_append]
    rw [uriLoop, uriLoop]
    simp only [uriAttrs_lt i hi]
    split
    · rename_i h5
      split
      · rfl
      · rename_i w' hp
        apply ih
        · omega
        · intro j h1 h2
          have hj : j ∉ Gen.Cpe.uriPackedAttrs := by
            have : j = 6 := by omega
            subst this; decide
          rw [uriPacked_frame _ _ _ _ j hj hp]
          exact hw j (by omega) (by omega)
    · split
      · rfl
      · rename_i v hv
        apply ih
        · omega
        · intro j h1 h2
          rw [List.getElem?_set_ne (by omega)]
          exact hw j (by omega) (by omega)

/-! ### seven components -/

abbrev anyV : Value := ⟨.any, []⟩

theorem uri7_some_iff (c0 c1 c2 c3 c4 c5 c6 : Str) (w : WFN) :
    uriLoop 0 [c0, c1, c2, c3, c4, c5, c6] uriInit = some w ↔
      ∃ v0 v1 v2 v3 v4 w5 v6, unbindURIAttr c0 = some v0 ∧ unbindURIAttr c1 = some v1 ∧
        unbindURIAttr c2 = some v2 ∧ unbindURIAttr c3 = some v3 ∧ unbindURIAttr c4 = some v4 ∧
        uriEd c5 [v0, v1, v2, v3, v4, anyV, anyV, unsetValue, unsetValue, unsetValue, unsetValue] = some w5 ∧
        unbindURIAttr c6 = some v6 ∧ w = w5.set 6 v6 := by
  rw [uriLoop_step 0 (by omega) (by omega)]
  cases h0 : unbindURIAttr c0 with
  | none => simp
  | some v0 =>
    simp only []
    rw [uriLoop_step 1 (by omega) (by omega)]
    cases h1 : unbindURIAttr c1 with
    | none => simp
    | some v1 =>
      simp only []
      rw [uriLoop_step 2 (by omega) (by omega)]
      cases h2 : unbindURIAttr c2 with
      | none => simp
      | some v2 =>
        simp only []
        rw [uriLoop_step 3 (by omega) (by omega)]
        cases h3 : unbindURIAttr c3 with
        | none => simp
        | some v3 =>
          simp only []
          rw [uriLoop_step 4 (by omega) (by omega)]
          cases h4 : unbindURIAttr c4 with
          | none => simp
          | some v4 =>
            simp only []
            rw [uriLoop_step5]
            simp only [uriInit_eq, List.set_cons_zero, List.set_cons_succ]
            cases h5 : uriEd c5 [v0, v1, v2, v3, v4, anyV, anyV, unsetValue, unsetValue, unsetValue, unsetValue] with
            | none => simp [h5]
            | some w5 =>
              simp only []
              rw [uriLoop_step 6 (by omega) (by omega)]
              cases h6 : unbindURIAttr c6 with
              | none => simp
              | some v6 =>
                simp only [uriLoop]
                constructor
                · intro h
                  exact ⟨v0, v1, v2, v3, v4, w5, v6, rfl, rfl, rfl, rfl, rfl, h5, rfl, (Option.some.inj h).symm⟩
                · rintro ⟨a0, a1, a2, a3, a4, b5, a6, e0, e1, e2, e3, e4, e5, e6, ew⟩
                  cases e0; cases e1; cases e2; cases e3; cases e4; cases e6
                  rw [h5] at e5; cases e5
                  rw [ew]

/-! ### validity of the assembled name -/

theorem all_set (w : WFN) (i : Nat) (v old : Value) (h : w[i]? = some old) (hold : attrOk old = true) :
    (w.set i v).all attrOk = (w.all attrOk && attrOk v) := by
  induction w generalizing i with
  | nil => simp at h
  | cons a w ih =>
    cases i with
    | zero =>
      simp at h; subst h
      simp [hold, Bool.and_comm]
    | succ i =>
      simp at h
      simp only [List.set_cons_succ, List.all_cons, ih i h, Bool.and_assoc]

theorem valid_ok_iff (w : WFN) (p : Value) (hh : w.head? = some p) (hp : p.kind ≠ .unset) :
    valid w = .ok ↔ w.all attrOk = true ∧ (p.kind = .set → p.v = [97] ∨ p.v = [111] ∨ p.v = [104]) := by
  cases w with
  | nil => simp at hh
  | cons a rest =>
    simp at hh; subst hh
    have hun : ((a :: rest).all fun x => x.kind == Kind.unset) = false := by
      simp only [List.all_cons, Bool.and_eq_false_iff]
      left
      cases hk : a.kind <;> simp_all
    unfold valid
    by_cases hall : (a :: rest).all attrOk = true
    · simp only [hall, Bool.not_true, Bool.false_eq_true, if_false, hun, List.head?_cons, true_and]
      cases hk : a.kind with
      | set =>
        by_cases hv : a.v = [97] ∨ a.v = [111] ∨ a.v = [104]
        · rcases hv with hv | hv | hv <;> simp [hv]
        · have h1 : a.v ≠ [97] := fun e => hv (Or.inl e)
          have h2 : a.v ≠ [111] := fun e => hv (Or.inr (Or.inl e))
          have h3 : a.v ≠ [104] := fun e => hv (Or.inr (Or.inr e))
          simp [h1, h2, h3]
      | unset => simp
      | any => simp
      | na => simp
    · have : (a :: rest).all attrOk = false := by simpa using hall
      simp [this]

theorem unbindURIAttr_kind (c : Str) (v : Value) (h : unbindURIAttr c = some v) : v.kind ≠ .unset := by
  unfold unbindURIAttr at h
  split at h
  · cases h; simp
  · split at h
    · cases h; simp
    · split at h
      · cases h
      · simp only at h
        split at h
        · cases h
        · cases h; simp

theorem uriPacked_length (ps : List Str) (as : List Nat) (w w' : WFN) (h : uriPacked ps as w = some w') :
    w'.length = w.length := by
  induction ps generalizing as w with
  | nil => simp [uriPacked] at h; rw [h]
  | cons p ps ih =>
    cases as with
    | nil => simp [uriPacked] at h
    | cons a as =>
      simp only [uriPacked] at h
      split at h
      · cases h
      · rw [ih as _ h, List.length_set]

/-- A component `UnbindURI` can read: empty (ANY), `-` (NA), or a string
    whose lower-cased form has no disallowed character and decodes to a value
    string `validate` accepts. -/
def uriValueOk (c : Str) : Prop := ∃ v, unbindURIAttr c = some v ∧ attrOk v = true

theorem uriPacked_all (ps : List Str) (as : List Nat) (w w' : WFN) (h : uriPacked ps as w = some w')
    (hnd : as.Nodup) (hok : ∀ a ∈ as, ∃ x, w[a]? = some x ∧ attrOk x = true) :
    w'.all attrOk = true ↔ w.all attrOk = true ∧ ∀ p ∈ ps, uriValueOk p := by
  induction ps generalizing as w with
  | nil => simp [uriPacked] at h; rw [h]; simp
  | cons p ps ih =>
    cases as with
    | nil => simp [uriPacked] at h
    | cons a as =>
      simp only [uriPacked] at h
      split at h
      · cases h
      · rename_i v hv
        have hnd' := (List.nodup_cons.1 hnd)
        obtain ⟨x, hx, hxok⟩ := hok a (by simp)
        have hok' : ∀ b ∈ as, ∃ y, (w.set a v)[b]? = some y ∧ attrOk y = true := by
          intro b hb
          have hne : a ≠ b := fun e => hnd'.1 (e ▸ hb)
          rw [List.getElem?_set_ne hne]
          exact hok b (by simp [hb])
        rw [ih as (w.set a v) h hnd'.2 hok', all_set w a v x hx hxok]
        simp only [Bool.and_eq_true, List.mem_cons, forall_eq_or_imp, uriValueOk, hv, Option.some.injEq,
          exists_eq_left']
        constructor
        · rintro ⟨⟨h1, h2⟩, h3⟩; exact ⟨h1, h2, h3⟩
        · rintro ⟨h1, h2, h3⟩; exact ⟨⟨h1, h2⟩, h3⟩

theorem uriPacked_isSome (ps : List Str) (as : List Nat) (w : WFN) (hlen : ps.length ≤ as.length)
    (h : ∀ p ∈ ps, ∃ v, unbindURIAttr p = some v) : ∃ w', uriPacked ps as w = some w' := by
  induction ps generalizing as w with
  | nil => exact ⟨w, by simp [uriPacked]⟩
  | cons p ps ih =>
    cases as with
    | nil => simp at hlen
    | cons a as =>
      obtain ⟨v, hv⟩ := h p (by simp)
      simp only [uriPacked, hv]
      exact ih as _ (by simpa using hlen) (fun q hq => h q (by simp [hq]))

theorem uriPacked_each (ps : List Str) (as : List Nat) (w w' : WFN) (h : uriPacked ps as w = some w') :
    ∀ p ∈ ps, ∃ v, unbindURIAttr p = some v := by
  induction ps generalizing as w with
  | nil => simp
  | cons p ps ih =>
    cases as with
    | nil => simp [uriPacked] at h
    | cons a as =>
      simp only [uriPacked] at h
      split at h
      · cases h
      · rename_i v hv
        intro q hq
        rcases List.mem_cons.1 hq with rfl | hq
        · exact ⟨v, hv⟩
        · exact ih as _ h q hq

theorem splitN_length_le (sep : Nat) (s : Str) (n : Nat) : (splitN sep s n).length ≤ n := by
  induction s generalizing n with
  | nil => simp only [splitN]; split <;> simp <;> omega
  | cons c rest ih =>
    simp only [splitN]
    split
    · simp
    · split
      · simp; omega
      · split
        · have := ih (n - 1); simp; omega
        · cases h : splitN sep rest n with
          | nil => simp [consHead]; omega
          | cons x xs =>
            have := ih n
            rw [h] at this
            simpa [consHead] using this

/-- The edition component: like any other, or, when it begins with a tilde,
    the packed form: it is split at the first five tildes and each part after
    the first tilde is read like a component (a sixth tilde and what follows
    belong to the last part). -/
def uriEditionOk (c : Str) : Prop :=
  if c.head? = some 126 then ∀ p ∈ (splitN 126 c 6).drop 1, uriValueOk p else uriValueOk c

theorem uriEd_spec (c : Str) (lit w5 : WFN)
    (hok : ∀ a ∈ Gen.Cpe.uriPackedAttrs, ∃ x, lit[a]? = some x ∧ attrOk x = true)
    (h : uriEd c lit = some w5) :
    w5.length = lit.length ∧ w5[0]? = lit[0]? ∧ w5[6]? = lit[6]? ∧
      (w5.all attrOk = true ↔ lit.all attrOk = true ∧ uriEditionOk c) := by
  unfold uriEd at h
  unfold uriEditionOk
  split at h
  · rename_i hp
    simp only [hp, if_true]
    refine ⟨uriPacked_length _ _ _ _ h, uriPacked_frame _ _ _ _ 0 (by decide) h,
      uriPacked_frame _ _ _ _ 6 (by decide) h, uriPacked_all _ _ _ _ h (by decide) hok⟩
  · rename_i hp
    simp only [hp, if_false]
    split at h
    · cases h
    · rename_i v hv
      cases h
      obtain ⟨x, hx, hxok⟩ := hok 5 (by decide)
      refine ⟨List.length_set, List.getElem?_set_ne (by omega), List.getElem?_set_ne (by omega), ?_⟩
      rw [all_set lit 5 v x hx hxok]
      simp [uriValueOk, hv]

theorem uriEd_isSome (c : Str) (lit : WFN) (h : uriEditionOk c) : ∃ w5, uriEd c lit = some w5 := by
  unfold uriEd
  unfold uriEditionOk at h
  split
  · rename_i hp
    simp only [hp, if_true] at h
    apply uriPacked_isSome
    · have := splitN_length_le 126 c 6
      have h5 : Gen.Cpe.uriPackedAttrs.length = 5 := by decide
      simp only [List.length_drop, h5]; omega
    · intro p hp'
      obtain ⟨v, hv, _⟩ := h p hp'
      exact ⟨v, hv⟩
  · rename_i hp
    simp only [hp, if_false] at h
    obtain ⟨v, hv, _⟩ := h
    exact ⟨lit.set 5 v, by simp [hv]⟩

/-- The part component: after decoding it is `a`, `o` or `h` (or the component
    is empty or `-`). -/
def uriPartOk (c : Str) : Prop :=
  ∀ v, unbindURIAttr c = some v → v.kind = .set → v.v = [97] ∨ v.v = [111] ∨ v.v = [104]

theorem lit_ok (v0 v1 v2 v3 v4 : Value) : ∀ a ∈ Gen.Cpe.uriPackedAttrs, ∃ x,
    [v0, v1, v2, v3, v4, anyV, anyV, unsetValue, unsetValue, unsetValue, unsetValue][a]? = some x ∧
      attrOk x = true := by
  intro a ha
  have : a = 5 ∨ a = 7 ∨ a = 8 ∨ a = 9 ∨ a = 10 := by
    simpa [Gen.Cpe.uriPackedAttrs] using ha
  rcases this with rfl | rfl | rfl | rfl | rfl
  · exact ⟨anyV, rfl, by decide⟩
  · exact ⟨unsetValue, rfl, by decide⟩
  · exact ⟨unsetValue, rfl, by decide⟩
  · exact ⟨unsetValue, rfl, by decide⟩
  · exact ⟨unsetValue, rfl, by decide⟩

theorem uriFinish_isSome (r : Option WFN) : (uriFinish r).isSome = true ↔ ∃ w, r = some w ∧ valid w = .ok := by
  cases r with
  | none => simp [uriFinish]
  | some w =>
    simp only [uriFinish, Option.some.injEq, exists_eq_left']
    cases valid w <;> simp

theorem uri7_accept (c0 c1 c2 c3 c4 c5 c6 : Str) :
    (uriFinish (uriLoop 0 [c0, c1, c2, c3, c4, c5, c6] uriInit)).isSome = true ↔
      uriValueOk c0 ∧ uriValueOk c1 ∧ uriValueOk c2 ∧ uriValueOk c3 ∧ uriValueOk c4 ∧ uriEditionOk c5 ∧
        uriValueOk c6 ∧ uriPartOk c0 := by
  rw [uriFinish_isSome]
  constructor
  · rintro ⟨w, hw, hvalid⟩
    obtain ⟨v0, v1, v2, v3, v4, w5, v6, e0, e1, e2, e3, e4, e5, e6, rfl⟩ := (uri7_some_iff _ _ _ _ _ _ _ w).1 hw
    have hok := lit_ok v0 v1 v2 v3 v4
    obtain ⟨hlen, hh, h6, hall⟩ := uriEd_spec c5 _ w5 hok e5
    have hhead : (w5.set 6 v6).head? = some v0 := by
      rw [List.head?_eq_getElem?, List.getElem?_set_ne (by omega), hh]; rfl
    have := (valid_ok_iff _ v0 hhead (unbindURIAttr_kind c0 v0 e0)).1 hvalid
    obtain ⟨hallw, hpart⟩ := this
    rw [all_set w5 6 v6 anyV (by rw [h6]; rfl) (by decide), Bool.and_eq_true, hall] at hallw
    obtain ⟨⟨hlit, hed⟩, hv6⟩ := hallw
    simp only [List.all_cons, List.all_nil, Bool.and_eq_true] at hlit
    refine ⟨⟨v0, e0, hlit.1⟩, ⟨v1, e1, hlit.2.1⟩, ⟨v2, e2, hlit.2.2.1⟩, ⟨v3, e3, hlit.2.2.2.1⟩,
      ⟨v4, e4, hlit.2.2.2.2.1⟩, hed, ⟨v6, e6, hv6⟩, ?_⟩
    intro v hv hk
    rw [e0] at hv; cases hv
    exact hpart hk
  · rintro ⟨⟨v0, e0, k0⟩, ⟨v1, e1, k1⟩, ⟨v2, e2, k2⟩, ⟨v3, e3, k3⟩, ⟨v4, e4, k4⟩, hed, ⟨v6, e6, k6⟩, hpart⟩
    obtain ⟨w5, e5⟩ := uriEd_isSome c5 [v0, v1, v2, v3, v4, anyV, anyV, unsetValue, unsetValue, unsetValue, unsetValue] hed
    refine ⟨w5.set 6 v6, (uri7_some_iff _ _ _ _ _ _ _ _).2 ⟨v0, v1, v2, v3, v4, w5, v6, e0, e1, e2, e3, e4, e5, e6, rfl⟩, ?_⟩
    have hok := lit_ok v0 v1 v2 v3 v4
    obtain ⟨hlen, hh, h6, hall⟩ := uriEd_spec c5 _ w5 hok e5
    have hhead : (w5.set 6 v6).head? = some v0 := by
      rw [List.head?_eq_getElem?, List.getElem?_set_ne (by omega), hh]; rfl
    rw [valid_ok_iff _ v0 hhead (unbindURIAttr_kind c0 v0 e0)]
    refine ⟨?_, fun hk => hpart v0 e0 hk⟩
    rw [all_set w5 6 v6 anyV (by rw [h6]; rfl) (by decide), Bool.and_eq_true, hall]
    refine ⟨⟨?_, hed⟩, k6⟩
    simp only [List.all_cons, List.all_nil, Bool.and_eq_true]
    exact ⟨k0, k1, k2, k3, k4, by decide, by decide, by decide, by decide, by decide, by decide, trivial⟩

/-! ### what `UnbindURI` accepts -/

/-- The strings `UnbindURI` accepts: the prefix `cpe:/`, then between one and
    seven colon-separated components (an eighth is an error); every component
    but the sixth is readable as a value (`uriValueOk`), the sixth is readable
    as an edition, packed or not (`uriEditionOk`); the first decodes to a part.
    Components left out at the end count as empty. -/
def AcceptedURI (s : Str) : Prop :=
  ∃ comps : List Str, s = Gen.Cpe.cpe22Prefix ++ joinColon comps ∧ 1 ≤ comps.length ∧ comps.length ≤ 7 ∧
    (∀ c ∈ comps, 58 ∉ c) ∧ (∀ i, i ≠ 5 → uriValueOk (comps.getD i [])) ∧
    uriEditionOk (comps.getD 5 []) ∧ uriPartOk (comps.getD 0 [])

theorem pad7_eq (comps : List Str) (h : comps.length ≤ 7) :
    comps ++ List.replicate (7 - comps.length) [] =
      [comps.getD 0 [], comps.getD 1 [], comps.getD 2 [], comps.getD 3 [], comps.getD 4 [], comps.getD 5 [],
        comps.getD 6 []] := by
  rcases comps with _ | ⟨c0, _ | ⟨c1, _ | ⟨c2, _ | ⟨c3, _ | ⟨c4, _ | ⟨c5, _ | ⟨c6, _ | ⟨c7, rest⟩⟩⟩⟩⟩⟩⟩⟩
  all_goals first | rfl | (simp at h; done) | (simp at h; omega)

theorem uriInit_any (j : Nat) (h : j < 7) : uriInit[j]? = some anyV := by
  rw [uriInit_eq]
  have : j = 0 ∨ j = 1 ∨ j = 2 ∨ j = 3 ∨ j = 4 ∨ j = 5 ∨ j = 6 := by omega
  rcases this with rfl | rfl | rfl | rfl | rfl | rfl | rfl <;> rfl

theorem uriValueOk_nil : uriValueOk [] := ⟨anyV, rfl, by decide⟩

theorem uriLoop_pad7 (comps : List Str) (h : comps.length ≤ 7) :
    uriLoop 0 comps uriInit =
      uriLoop 0 [comps.getD 0 [], comps.getD 1 [], comps.getD 2 [], comps.getD 3 [], comps.getD 4 [],
        comps.getD 5 [], comps.getD 6 []] uriInit := by
  rw [← pad7_eq comps h, uriLoop_pad comps (7 - comps.length) 0 uriInit (by omega)
    (fun j _ h2 => uriInit_any j (by omega))]

theorem accept_conds (comps : List Str) (h : comps.length ≤ 7) :
    (uriValueOk (comps.getD 0 []) ∧ uriValueOk (comps.getD 1 []) ∧ uriValueOk (comps.getD 2 []) ∧
      uriValueOk (comps.getD 3 []) ∧ uriValueOk (comps.getD 4 []) ∧ uriEditionOk (comps.getD 5 []) ∧
      uriValueOk (comps.getD 6 []) ∧ uriPartOk (comps.getD 0 [])) ↔
    ((∀ i, i ≠ 5 → uriValueOk (comps.getD i [])) ∧ uriEditionOk (comps.getD 5 []) ∧ uriPartOk (comps.getD 0 [])) := by
  constructor
  · rintro ⟨h0, h1, h2, h3, h4, h5, h6, hp⟩
    refine ⟨?_, h5, hp⟩
    intro i hi
    by_cases h7 : i < 7
    · have : i = 0 ∨ i = 1 ∨ i = 2 ∨ i = 3 ∨ i = 4 ∨ i = 6 := by omega
      rcases this with rfl | rfl | rfl | rfl | rfl | rfl <;> assumption
    · have : comps.getD i [] = [] := by
        simp only [List.getD_eq_getElem?_getD]
        rw [List.getElem?_eq_none (by omega)]; rfl
      rw [this]; exact uriValueOk_nil
  · rintro ⟨hall, h5, hp⟩
    exact ⟨hall 0 (by omega), hall 1 (by omega), hall 2 (by omega), hall 3 (by omega), hall 4 (by omega), h5,
      hall 6 (by omega), hp⟩

theorem unbindURI_accepts_iff' (s : Str) : (unbindURI s).isSome = true ↔ AcceptedURI s := by
  constructor
  · intro h
    have hpre : Gen.Cpe.cpe22Prefix.isPrefixOf s = true := by
      cases hp : Gen.Cpe.cpe22Prefix.isPrefixOf s with
      | true => rfl
      | false => rw [unbindURI_noprefix s hp] at h; simp at h
    obtain ⟨X, rfl⟩ := prefix_decomp s hpre
    rw [unbindURI_prefix] at h
    have hlen : (splitOn 58 X).length ≤ 7 := by
      obtain ⟨w, hw, _⟩ := (uriFinish_isSome _).1 h
      simpa using uriLoop_len _ 0 _ _ (by omega) hw
    rw [uriLoop_pad7 _ hlen, uri7_accept, accept_conds _ hlen] at h
    refine ⟨splitOn 58 X, by rw [joinColon_splitOn], ?_, hlen, splitOn_no_sep 58 X, h⟩
    have := splitOn_ne_nil 58 X
    cases hs : splitOn 58 X with
    | nil => exact absurd hs this
    | cons a b => simp
  · rintro ⟨comps, rfl, h1, h7, hcol, hconds⟩
    have hne : comps ≠ [] := by intro e; rw [e] at h1; simp at h1
    rw [unbindURI_prefix, splitOn_joinColon comps hne hcol, uriLoop_pad7 _ h7, uri7_accept, accept_conds _ h7]
    exact hconds

/-! ### round trip through `bind_to_URI` -/

/-- `bind_value_for_URI` of one attribute. -/
def bindAttrURI (a : Value) : Str := bindValueURI a.kind a.v

/-- What a URI can carry of an attribute: representable when set. -/
def uriAttr (a : Value) : Prop :=
  a.kind = .set → uriValueAux false a.v = true ∧ a.v ≠ [] ∧ a.v ≠ [92, 45]

theorem bindAttrURI_chars (a : Value) (h : uriAttr a) : ∀ c ∈ bindAttrURI a, uriCharOk c = true := by
  rcases a with ⟨k, v⟩
  cases k with
  | set => exact transform_chars false v (h rfl).1
  | unset => intro c hc; simp [bindAttrURI, bindValueURI] at hc
  | any => intro c hc; simp [bindAttrURI, bindValueURI] at hc
  | na => intro c hc; simp [bindAttrURI, bindValueURI] at hc; subst hc; decide

theorem uriCharOk_ne (c : Nat) (h : uriCharOk c = true) : c ≠ 58 ∧ c ≠ 126 := by
  simp only [uriCharOk, lowerAlnumC, Bool.or_eq_true, Bool.and_eq_true, decide_eq_true_eq, beq_iff_eq] at h
  omega

theorem unbindURIAttr_bind (a : Value) (h : uriAttr a) : unbindURIAttr (bindAttrURI a) = some (normV a) := by
  rcases a with ⟨k, v⟩
  cases k with
  | set =>
    obtain ⟨h1, h2, h3⟩ := h rfl
    exact unbindURIAttr_transform v h1 h2 h3
  | unset => rfl
  | any => rfl
  | na => rfl

/-- An attribute binds to the empty string exactly when it is ANY or unset. -/
theorem bindAttrURI_nil (a : Value) (h : uriAttr a) :
    bindAttrURI a = [] ↔ (a.kind = .any ∨ a.kind = .unset) := by
  rcases a with ⟨k, v⟩
  cases k with
  | set =>
    obtain ⟨h1, h2, _⟩ := h rfl
    simp only [bindAttrURI, bindValueURI, transformURI]
    constructor
    · intro e; exact absurd e (transform_ne_nil false v h1 h2)
    · intro e; rcases e with e | e <;> cases e
  | unset => simp [bindAttrURI, bindValueURI]
  | any => simp [bindAttrURI, bindValueURI]
  | na => simp [bindAttrURI, bindValueURI]

theorem splitN_closed (sep : Nat) (x : Str) (n : Nat) (hx : sep ∉ x) : splitN sep x (n + 1) = [x] := by
  induction x with
  | nil => simp [splitN]
  | cons c x ih =>
    have hc : c ≠ sep := fun e => hx (by simp [e])
    have hx' : sep ∉ x := fun e => hx (by simp [e])
    simp only [splitN]
    cases n with
    | zero => simp
    | succ n =>
      simp [hc, ih hx', consHead]

theorem splitN_append_closed (sep : Nat) (x rest : Str) (n : Nat) (hx : sep ∉ x) :
    splitN sep (x ++ sep :: rest) (n + 2) = x :: splitN sep rest (n + 1) := by
  induction x with
  | nil => simp [splitN]
  | cons c x ih =>
    have hc : c ≠ sep := fun e => hx (by simp [e])
    have hx' : sep ∉ x := fun e => hx (by simp [e])
    simp only [List.cons_append, splitN]
    simp [hc, ih hx', consHead]

/-- The packed edition splits back into its five parts. -/
theorem splitN_packed (b5 b7 b8 b9 b10 : Str) (h5 : 126 ∉ b5) (h7 : 126 ∉ b7) (h8 : 126 ∉ b8) (h9 : 126 ∉ b9)
    (h10 : 126 ∉ b10) :
    splitN 126 (126 :: b5 ++ 126 :: b7 ++ 126 :: b8 ++ 126 :: b9 ++ 126 :: b10) 6 = [[], b5, b7, b8, b9, b10] := by
  have e : (126 :: b5 ++ 126 :: b7 ++ 126 :: b8 ++ 126 :: b9 ++ 126 :: b10 : Str) =
      [] ++ 126 :: (b5 ++ 126 :: (b7 ++ 126 :: (b8 ++ 126 :: (b9 ++ 126 :: b10)))) := by simp
  rw [e, splitN_append_closed 126 [] _ 4 (by simp), splitN_append_closed 126 b5 _ 3 h5,
    splitN_append_closed 126 b7 _ 2 h7, splitN_append_closed 126 b8 _ 1 h8, splitN_append_closed 126 b9 _ 0 h9,
    splitN_closed 126 b10 0 h10]

theorem mem_stripNil (cs : List Str) (c : Str) (h : c ∈ stripNil cs) : c ∈ cs := by
  simp only [stripNil, List.mem_reverse] at h
  have := (List.dropWhile_sublist (fun x => x == ([] : Str)) (l := cs.reverse)).subset h
  simpa using this

/-- Seven colon-free components, joined, trimmed and prefixed as `bind_to_URI`
    does, are read by `UnbindURI` as the seven components. -/
theorem unbindURI_trim (cs : List Str) (hlen : cs.length = 7) (hcol : ∀ c ∈ cs, 58 ∉ c) :
    unbindURI (Gen.Cpe.cpe22Prefix ++ trimColons (joinColon cs ++ [58])) = uriFinish (uriLoop 0 cs uriInit) := by
  have hend : ∀ c ∈ cs, ∀ x y, c = x ++ [y] → y ≠ 58 := by
    intro c hc x y hxy e
    apply hcol c hc
    rw [hxy, e]; simp
  rw [trimColons_snoc_colon, trimColons_joinColon cs hend, unbindURI_prefix]
  obtain ⟨k, hk⟩ := stripNil_decomp cs
  have hk7 : (stripNil cs).length + k = 7 := by
    have := congrArg List.length hk
    simp only [List.length_append, List.length_replicate] at this
    omega
  by_cases hS : stripNil cs = []
  · rw [hS] at hk hk7 ⊢
    simp only [List.length_nil, Nat.zero_add] at hk7
    subst hk7
    have h1 : splitOn 58 (joinColon []) = [[]] := rfl
    rw [h1, ← uriLoop_pad [[]] 6 0 uriInit (by simp) (fun j _ h2 => uriInit_any j (by simp at h2; omega))]
    rw [hk]; rfl
  · rw [splitOn_joinColon _ hS (fun c hc => hcol c (mem_stripNil cs c hc))]
    rw [← uriLoop_pad (stripNil cs) k 0 uriInit (by omega) (fun j _ h2 => uriInit_any j (by omega)), ← hk]

/-- What `UnbindURI` gives back of a name bound to a URI: an unset attribute of
    the seven URI components reads as ANY; the four extended attributes read
    as ANY too when the edition was packed (one of them is NA or set) and stay
    unset otherwise. -/
def normURI (w : WFN) : WFN :=
  (w.take 7).map normV ++
    (if (w.drop 7).any (fun a => a.kind == .na || a.kind == .set) then (w.drop 7).map normV
     else (w.drop 7).map fun _ => unsetValue)

theorem valid_normURI (w : WFN) (hv : valid w = .ok) (hl : w.length = 11) : valid (normURI w) = .ok := by
  have hall := valid_attrOk w hv
  rcases w with _ | ⟨a0, rest⟩
  · simp at hl
  · have hhead : (normURI (a0 :: rest)).head? = some (normV a0) := by
      simp [normURI]
    rw [valid_ok_iff _ (normV a0) hhead (by have := normV_kind_ne_unset a0; intro e; simp [e] at this)]
    constructor
    · simp only [normURI, List.all_append, Bool.and_eq_true, List.all_map, List.all_eq_true]
      refine ⟨?_, ?_⟩
      · intro a ha
        exact attrOk_normV a (hall a (List.mem_of_mem_take ha))
      · split
        · intro a ha
          obtain ⟨b, hb, rfl⟩ := List.mem_map.1 ha
          exact attrOk_normV b (hall b (List.mem_of_mem_drop hb))
        · intro a ha
          obtain ⟨b, _, rfl⟩ := List.mem_map.1 ha
          decide
    · intro hk
      have hpart := (valid_ok_iff (a0 :: rest) a0 rfl (by
        intro e; rcases a0 with ⟨k, v⟩; cases k <;> simp_all [normV])).1 hv
      rcases a0 with ⟨k, v⟩
      cases k <;> simp_all [normV]

theorem packURI_no_colon (b5 b7 b8 b9 b10 : Str) (h : ∀ b ∈ [b5, b7, b8, b9, b10], ∀ c ∈ b, uriCharOk c = true) :
    58 ∉ packURI b5 b7 b8 b9 b10 := by
  have hb : ∀ b ∈ [b5, b7, b8, b9, b10], 58 ∉ b := by
    intro b hb hm
    exact (uriCharOk_ne 58 (h b hb 58 hm)).1 rfl
  unfold packURI
  split
  · exact hb b5 (by simp)
  · have h5 := hb b5 (by simp); have h7 := hb b7 (by simp); have h8 := hb b8 (by simp)
    have h9 := hb b9 (by simp); have h10 := hb b10 (by simp)
    simp [h5, h7, h8, h9, h10]

theorem unbindURI_bindURI (w : WFN) (hv : valid w = .ok) (hl : w.length = 11)
    (hu : ∀ a ∈ w, a.kind = .set → uriValueAux false a.v = true) :
    unbindURI (CpeSpec.bindURI (w.map fun a => (a.kind, a.v))) = some (normURI w) := by
  have hua : ∀ a ∈ w, uriAttr a := by
    intro a ha hk
    refine ⟨hu a ha hk, valid_set_ne_nil w hv a ha hk, ?_⟩
    exact (validate_ne a.v (valid_all w hv a ha)).2
  have hvn := valid_normURI w hv hl
  rcases w with _ | ⟨a0, _ | ⟨a1, _ | ⟨a2, _ | ⟨a3, _ | ⟨a4, _ | ⟨a5, _ | ⟨a6, _ | ⟨a7, _ | ⟨a8, _ | ⟨a9, _ | ⟨a10, _ | ⟨a11, rest⟩⟩⟩⟩⟩⟩⟩⟩⟩⟩⟩⟩
  all_goals try (simp at hl; done)
  have u0 := hua a0 (by simp); have u1 := hua a1 (by simp); have u2 := hua a2 (by simp)
  have u3 := hua a3 (by simp); have u4 := hua a4 (by simp); have u5 := hua a5 (by simp)
  have u6 := hua a6 (by simp); have u7 := hua a7 (by simp); have u8 := hua a8 (by simp)
  have u9 := hua a9 (by simp); have u10 := hua a10 (by simp)
  have hbind : CpeSpec.bindURI ([a0, a1, a2, a3, a4, a5, a6, a7, a8, a9, a10].map fun a => (a.kind, a.v)) =
      Gen.Cpe.cpe22Prefix ++ trimColons (joinColon [bindAttrURI a0, bindAttrURI a1, bindAttrURI a2, bindAttrURI a3,
        bindAttrURI a4, packURI (bindAttrURI a5) (bindAttrURI a7) (bindAttrURI a8) (bindAttrURI a9) (bindAttrURI a10),
        bindAttrURI a6] ++ [58]) := by
    simp [CpeSpec.bindURI, joinColon, bindAttrURI, Gen.Cpe.cpe22Prefix]
  have hpackchars : ∀ b ∈ [bindAttrURI a5, bindAttrURI a7, bindAttrURI a8, bindAttrURI a9, bindAttrURI a10],
      ∀ c ∈ b, uriCharOk c = true := by
    intro b hb
    simp only [List.mem_cons, List.not_mem_nil, or_false] at hb
    rcases hb with rfl | rfl | rfl | rfl | rfl
    · exact bindAttrURI_chars a5 u5
    · exact bindAttrURI_chars a7 u7
    · exact bindAttrURI_chars a8 u8
    · exact bindAttrURI_chars a9 u9
    · exact bindAttrURI_chars a10 u10
  have hnc : ∀ a, uriAttr a → 58 ∉ bindAttrURI a := fun a ha hm =>
    (uriCharOk_ne 58 (bindAttrURI_chars a ha 58 hm)).1 rfl
  have hnt : ∀ a, uriAttr a → 126 ∉ bindAttrURI a := fun a ha hm =>
    (uriCharOk_ne 126 (bindAttrURI_chars a ha 126 hm)).2 rfl
  rw [hbind, unbindURI_trim _ rfl]
  · -- the loop over the seven components
    have hloop : uriLoop 0 [bindAttrURI a0, bindAttrURI a1, bindAttrURI a2, bindAttrURI a3, bindAttrURI a4,
        packURI (bindAttrURI a5) (bindAttrURI a7) (bindAttrURI a8) (bindAttrURI a9) (bindAttrURI a10),
        bindAttrURI a6] uriInit = some (normURI [a0, a1, a2, a3, a4, a5, a6, a7, a8, a9, a10]) := by
      rw [uri7_some_iff]
      by_cases hp : bindAttrURI a7 = [] ∧ bindAttrURI a8 = [] ∧ bindAttrURI a9 = [] ∧ bindAttrURI a10 = []
      · -- not packed
        have hk7 := (bindAttrURI_nil a7 u7).1 hp.1
        have hk8 := (bindAttrURI_nil a8 u8).1 hp.2.1
        have hk9 := (bindAttrURI_nil a9 u9).1 hp.2.2.1
        have hk10 := (bindAttrURI_nil a10 u10).1 hp.2.2.2
        have hpk : packURI (bindAttrURI a5) (bindAttrURI a7) (bindAttrURI a8) (bindAttrURI a9) (bindAttrURI a10) =
            bindAttrURI a5 := by simp [packURI, hp]
        have hhead : (bindAttrURI a5).head? ≠ some 126 := by
          intro e
          cases hb : bindAttrURI a5 with
          | nil => rw [hb] at e; simp at e
          | cons c t =>
            rw [hb] at e; simp at e
            exact hnt a5 u5 (by rw [hb, e]; simp)
        refine ⟨normV a0, normV a1, normV a2, normV a3, normV a4,
          [normV a0, normV a1, normV a2, normV a3, normV a4, normV a5, anyV, unsetValue, unsetValue, unsetValue,
            unsetValue], normV a6, unbindURIAttr_bind a0 u0,
          unbindURIAttr_bind a1 u1, unbindURIAttr_bind a2 u2, unbindURIAttr_bind a3 u3, unbindURIAttr_bind a4 u4,
          ?_, unbindURIAttr_bind a6 u6, ?_⟩
        · rw [hpk]
          simp only [uriEd, hhead, if_false, unbindURIAttr_bind a5 u5, List.set_cons_zero, List.set_cons_succ]
        · have hany : ([a7, a8, a9, a10].any fun a => a.kind == Kind.na || a.kind == Kind.set) = false := by
            rcases hk7 with g1 | g1 <;> rcases hk8 with g2 | g2 <;> rcases hk9 with g3 | g3 <;>
              rcases hk10 with g4 | g4 <;> simp [g1, g2, g3, g4]
          simp [normURI, hany]
      · -- packed
        have hpk : packURI (bindAttrURI a5) (bindAttrURI a7) (bindAttrURI a8) (bindAttrURI a9) (bindAttrURI a10) =
            126 :: bindAttrURI a5 ++ 126 :: bindAttrURI a7 ++ 126 :: bindAttrURI a8 ++ 126 :: bindAttrURI a9 ++
              126 :: bindAttrURI a10 := by
          simp only [packURI, hp, if_false]
        refine ⟨normV a0, normV a1, normV a2, normV a3, normV a4,
          [normV a0, normV a1, normV a2, normV a3, normV a4, normV a5, anyV, normV a7, normV a8, normV a9,
            normV a10], normV a6, unbindURIAttr_bind a0 u0,
          unbindURIAttr_bind a1 u1, unbindURIAttr_bind a2 u2, unbindURIAttr_bind a3 u3, unbindURIAttr_bind a4 u4,
          ?_, unbindURIAttr_bind a6 u6, ?_⟩
        · rw [hpk]
          have hh : (126 :: bindAttrURI a5 ++ 126 :: bindAttrURI a7 ++ 126 :: bindAttrURI a8 ++ 126 :: bindAttrURI a9 ++
              126 :: bindAttrURI a10 : Str).head? = some 126 := rfl
          simp only [uriEd, hh, if_true]
          rw [splitN_packed _ _ _ _ _ (hnt a5 u5) (hnt a7 u7) (hnt a8 u8) (hnt a9 u9) (hnt a10 u10)]
          have hattrs : Gen.Cpe.uriPackedAttrs = [5, 7, 8, 9, 10] := by decide
          simp only [List.drop_succ_cons, List.drop_zero, hattrs, uriPacked, unbindURIAttr_bind a5 u5,
            unbindURIAttr_bind a7 u7, unbindURIAttr_bind a8 u8, unbindURIAttr_bind a9 u9, unbindURIAttr_bind a10 u10,
            List.set_cons_zero, List.set_cons_succ]
        · have hany : ([a7, a8, a9, a10].any fun a => a.kind == Kind.na || a.kind == Kind.set) = true := by
            apply Classical.byContradiction
            intro hne
            apply hp
            have hf : ([a7, a8, a9, a10].any fun a => a.kind == Kind.na || a.kind == Kind.set) = false := by
              simpa using hne
            simp only [List.any_cons, List.any_nil, Bool.or_false, Bool.or_eq_false_iff] at hf
            have key : ∀ a : Value, uriAttr a → ((a.kind == Kind.na) = false ∧ (a.kind == Kind.set) = false) →
                bindAttrURI a = [] := by
              intro a ha hk
              apply (bindAttrURI_nil a ha).2
              rcases a with ⟨k, v⟩
              cases k <;> simp_all
            exact ⟨key a7 u7 hf.1, key a8 u8 hf.2.1, key a9 u9 hf.2.2.1, key a10 u10 hf.2.2.2⟩
          simp [normURI, hany]
    rw [hloop]
    simp only [uriFinish, hvn]
  · -- no component contains a colon
    intro c hc
    simp only [List.mem_cons, List.not_mem_nil, or_false] at hc
    rcases hc with rfl | rfl | rfl | rfl | rfl | rfl | rfl
    · exact hnc a0 u0
    · exact hnc a1 u1
    · exact hnc a2 u2
    · exact hnc a3 u3
    · exact hnc a4 u4
    · exact packURI_no_colon _ _ _ _ _ hpackchars
    · exact hnc a6 u6

end ClairModel.Cpe
