/-
  `libvuln.OfflineImport`'s loop (`importEntry`, `importAll` of
  Model/JsonBlob.lean) applied to what `Load` yields for a stored recording.
-/
import ClairModel.Proofs.JsonBlob

namespace ClairModel.JsonBlob

/-- The store call `OfflineImport` makes for a recorded update with at least one
    record: `UpdateVulnerabilities` / `UpdateEnrichments` with the update's
    name, fingerprint and records. -/
def Update.call (u : Update) : ImportCall :=
  match u.kind with
  | .vuln => .vulnerabilities u.updater u.fp u.recs
  | .enrich => .enrichments u.updater u.fp u.recs

/-- The updates the loop does not skip: no vulnerability update operation of the
    same updater name already carries the fingerprint. -/
def Update.fresh (known : String → List String) (u : Update) : Bool :=
  !(known u.updater).contains u.fp

theorem importEntry_loaded (known : String → List String) (u : Update) (hne : u.recs ≠ []) :
    importEntry known u.loaded = if u.fresh known then [u.call] else [] := by
  cases hk : u.kind <;> simp [importEntry, Update.loaded, Update.fresh, Update.call, hk, hne]

theorem importAll_loaded (known : String → List String) (L : List Update)
    (hne : ∀ u ∈ L, u.recs ≠ []) :
    importAll known (L.map fun u => some u.loaded) =
      some ((L.filter (Update.fresh known)).map Update.call) := by
  induction L with
  | nil => rfl
  | cons u L ih =>
    have ih' := ih (fun x hx => hne x (by simp [hx]))
    simp only [List.map_cons, importAll, ih', Option.map_some, importEntry_loaded known u (hne u (by simp)),
      List.filter_cons]
    by_cases hf : u.fresh known = true <;> simp [hf]

/-- The calls are made in the order of the entries. -/
theorem importAll_append (known : String → List String) (a b : List (Option LEntry)) (ca cb : List ImportCall)
    (ha : importAll known a = some ca) (hb : importAll known b = some cb) :
    importAll known (a ++ b) = some (ca ++ cb) := by
  induction a generalizing ca with
  | nil => simp only [importAll, Option.some.injEq] at ha; subst ha; simpa using hb
  | cons x a ih =>
    cases x with
    | none => simp [importAll] at ha
    | some e =>
      simp only [importAll, Option.map_eq_some_iff] at ha
      obtain ⟨ca', hca', rfl⟩ := ha
      simp [importAll, ih ca' hca']

end ClairModel.JsonBlob
